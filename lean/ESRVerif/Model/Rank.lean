import ESRVerif.Model.Partition
/-
Model of the data logic of `esr/fitting/combine_DL.py : main` (final ranking of one complexity).

Python lines mirrored (line numbers of /repo/esr/fitting/combine_DL.py):

* `Ops`            — the IEEE operations the function uses (`+`, `-`, `/`, `np.exp(-x)`, `<`, `==`, `np.isnan`,
                     `np.isfinite`, `0.0`, `np.inf`, `np.nan`).  Two instances: `floatOps` (executable, used by the
                     driver only) and `XR.ops` in `Proofs/Rank.lean` (exact extended reals, used by the theorems).
* `Table`          — what lines 31-49 read: `len(fcn_list)` (unique_equations), the rows of
                     `codelen_matches_comp<n>.dat` (`negloglike, codelen, index, params…`) zipped with
                     `aifeyn_<n>.txt` and `all_equations_<n>.txt` (same length, one line per variant).
* `dl`             — line 73  `DL = negloglike_i + codelen_i + aifeyn_i`  (left-associated).
* `variants`       — lines 68-72 `…[index==xarr_proc[i]]` (file order kept).
* `nanmin`         — line 79 `np.nanmin(DL)` (`np.fmin.reduce`: NaN ignored).
* `nanargmin`      — lines 80-85 `np.nanargmin(DL)`: NaN replaced by `+inf`, then the FIRST index of the minimum
                     (so for `[nan, inf]` it is 0: the NaN variant; the model keeps that quirk).
* `perUnique`      — lines 64-85 incl. the all-NaN guard of lines 75-77 (also taken by a unique without variants);
                     defaults are the `np.zeros`/`[None]` initialisations of lines 53-59 (`None` is written as the
                     text `None` by `np.savetxt(fmt="%s")`, line 92).
* `combined`       — lines 51, 61-62, 87-106: every rank handles the `get_functions` slice of the unique indices,
                     per-rank files are concatenated in rank order (`cat | sort -V`).
* `keyed`          — lines 125-130 `mask = ~np.isnan(DL_min)`, `DL_min[mask]`, `xarr[mask]`.
* `isort`          — line 133 `sorted(rows, key=lambda x: x[0])`: Python's `sorted` is stable and uses `<` on the
                     key only.  On keys without NaN (the mask removed them) `<` is a strict weak order and every
                     stable sort returns the same list; the model is the stable insertion sort.
* `dupLoop`        — lines 155-159 the `negloglike_list` scan (`x in list` is `==` on fresh `np.float64` scalars, so a
                     NaN likelihood never matches).
* `prel`           — lines 154-165: `Prel_DL` initialised to `inf`, `DL_sort[i]-DL_sort[0]` for non-duplicates,
                     `np.exp(-Prel_DL)`, non-finite/NaN entries set to `0.0`, then `if np.sum(Prel) > 0:` division
                     by `np.sum` (a plain left-to-right sum here; numpy's pairwise order differs only in rounding).
* `gather`, `mkRows` — lines 137-142 (`x_min[indices_sort]`) and 169-178 (the csv rows, rank = loop index `i`).
* `main`           — the whole function; `none` where Python raises: `data[:,0]` on `np.atleast_2d` of an empty table
                     (line 42, no variant row at all; line 110, no unique function).  One-row tables are read as
                     2-d arrays since fix f575df7 (F16).

Not modelled: rounding of `exp`, `%.16e` text round trip (exact for doubles), the PrettyTable output.
-/
namespace ESR.Rank

/-- IEEE operations used by `combine_DL.main`. -/
structure Ops (α : Type) where
  add : α → α → α
  sub : α → α → α
  div : α → α → α
  /-- `np.exp(-x)` -/
  expNeg : α → α
  lt : α → α → Bool
  eq : α → α → Bool
  isNaN : α → Bool
  isFinite : α → Bool
  zero : α
  inf : α
  nan : α

/-- One line of `codelen_matches_comp<n>.dat` + `aifeyn_<n>.txt` + `all_equations_<n>.txt`. -/
structure Row (α : Type) where
  nll : α
  codelen : α
  aifeyn : α
  idx : Nat
  fcn : String
  params : List α

structure Table (α : Type) where
  /-- `len(fcn_list)`: number of lines of `unique_equations_<n>.txt` -/
  nUniq : Nat
  /-- `params.shape[1]` -/
  npar : Nat
  rows : List (Row α)

/-- One line of `combine_DL_comp<n>.dat` / `combine_DL_fcn_comp<n>.dat`. -/
structure MinRow (α : Type) where
  dl : α
  params : List α
  fcn : String
  nll : α
  codelen : α
  aifeyn : α

/-- One line of `final_<n>.dat`; `u` (index of the unique function) is carried for the theorems. -/
structure FinalRow (α : Type) where
  rank : Nat
  u : Nat
  fcn : String
  dl : α
  prel : α
  nll : α
  codelen : α
  aifeyn : α
  params : List α

variable {α : Type}

/-- line 73 -/
def dl (ops : Ops α) (r : Row α) : α := ops.add (ops.add r.nll r.codelen) r.aifeyn

/-- lines 68-72: the variants of unique `u`, in file order. -/
def variants (t : Table α) (u : Nat) : List (Row α) := t.rows.filter (fun r => r.idx == u)

/-- `np.fmin`: the smaller of two numbers, a NaN operand is ignored. -/
def fmin (ops : Ops α) (a b : α) : α :=
  if ops.isNaN b then a else if ops.isNaN a then b else if ops.lt b a then b else a

/-- `np.nanmin` of a 1-D array (`nan` for the empty array, which the guard of line 75 keeps away). -/
def nanmin (ops : Ops α) : List α → α
  | [] => ops.nan
  | x :: xs => fmin ops x (nanmin ops xs)

/-- `_replace_nan(a, np.inf)` inside `np.nanargmin`. -/
def replNaN (ops : Ops α) (x : α) : α := if ops.isNaN x then ops.inf else x

/-- `np.argmin` on an array without NaN: (first index of the minimum, the minimum). -/
def argminPair (ops : Ops α) : List α → Option (Nat × α)
  | [] => none
  | x :: xs =>
    match argminPair ops xs with
    | none => some (0, x)
    | some (k, v) => if ops.lt v x then some (k + 1, v) else some (0, x)

/-- `np.nanargmin(DL)` (0 for the empty array, which the guard keeps away). -/
def nanargmin (ops : Ops α) (ds : List α) : Nat :=
  match argminPair ops (ds.map (replNaN ops)) with
  | none => 0
  | some (k, _) => k

/-- lines 53-59: the initial values left in place for an all-NaN unique. -/
def MinRow.allNaN (ops : Ops α) (npar : Nat) : MinRow α :=
  ⟨ops.nan, List.replicate npar ops.zero, "None", ops.zero, ops.zero, ops.zero⟩

def Row.dflt (ops : Ops α) : Row α := ⟨ops.nan, ops.nan, ops.nan, 0, "IndexError", []⟩

/-- lines 64-85, one iteration of the loop. -/
def perUnique (ops : Ops α) (t : Table α) (u : Nat) : MinRow α :=
  let vs := variants t u
  let ds := vs.map (dl ops)
  if ds.all ops.isNaN then MinRow.allNaN ops t.npar
  else
    let v := (vs[nanargmin ops ds]?).getD (Row.dflt ops)
    ⟨nanmin ops ds, v.params, v.fcn, v.nll, v.codelen, v.aifeyn⟩

/-- lines 51-106: `combine_DL_comp<n>.dat` as assembled from `P` ranks. -/
def combined (ops : Ops α) (t : Table α) (P : Nat) : List (MinRow α) :=
  (List.range P).flatMap (fun r =>
    (ESR.Partition.getFunctionsSlice (List.range t.nUniq) P r).map (perUnique ops t))

/-- lines 125-130: `(DL_min[mask], xarr[mask])`. -/
def keyedFrom (ops : Ops α) : Nat → List (MinRow α) → List (α × Nat)
  | _, [] => []
  | u, m :: ms => if ops.isNaN m.dl then keyedFrom ops (u + 1) ms else (m.dl, u) :: keyedFrom ops (u + 1) ms

def keyed (ops : Ops α) (mins : List (MinRow α)) : List (α × Nat) := keyedFrom ops 0 mins

/-- insert `x` in front of the first element that is not strictly smaller. -/
def ins (ops : Ops α) (x : α × Nat) : List (α × Nat) → List (α × Nat)
  | [] => [x]
  | y :: ys => if ops.lt y.1 x.1 then y :: ins ops x ys else x :: y :: ys

/-- line 133: stable sort on the first component. -/
def isort (ops : Ops α) : List (α × Nat) → List (α × Nat)
  | [] => []
  | x :: xs => ins ops x (isort ops xs)

/-- lines 155-159: `true` where the row's likelihood is already in `negloglike_list`. -/
def dupLoop (ops : Ops α) : List α → List α → List Bool
  | _, [] => []
  | seen, x :: xs =>
    if seen.any (fun s => ops.eq x s) then true :: dupLoop ops seen xs
    else false :: dupLoop ops (seen ++ [x]) xs

/-- line 160 / 154: `Prel_DL`. -/
def prelDL (ops : Ops α) (dl0 : α) (d : α) (dup : Bool) : α := if dup then ops.inf else ops.sub d dl0

/-- lines 162-163 for one entry. -/
def prelRaw (ops : Ops α) (x : α) : α :=
  let p := ops.expNeg x
  if !ops.isFinite p || ops.isNaN p then ops.zero else p

/-- `np.sum`. -/
def sum (ops : Ops α) (xs : List α) : α := xs.foldl ops.add ops.zero

/-- lines 154-165: `Prel` from the sorted `DL` and likelihood columns; the division is guarded by
`if np.sum(Prel) > 0:` (otherwise every entry stays `0.0`). -/
def prel (ops : Ops α) (dls nlls : List α) : List α :=
  let dl0 := dls.headD ops.nan
  let raw := (List.zipWith (prelDL ops dl0) dls (dupLoop ops [] nlls)).map (prelRaw ops)
  let s := sum ops raw
  if ops.lt ops.zero s then raw.map (fun p => ops.div p s) else raw

/-- lines 169-178: the rows written to `final_<n>.dat` (rank `i`, then the sorted columns). -/
def mkRows : Nat → List (α × Nat) → List (MinRow α) → List α → List (FinalRow α)
  | i, k :: ks, m :: ms, p :: ps =>
    ⟨i, k.2, m.fcn, k.1, p, m.nll, m.codelen, m.aifeyn, m.params⟩ :: mkRows (i + 1) ks ms ps
  | _, _, _, _ => []

/-- lines 137-142: `x_min[indices_sort]`. -/
def gather (ops : Ops α) (npar : Nat) (mins : List (MinRow α)) (srt : List (α × Nat)) : List (MinRow α) :=
  srt.map (fun k => (mins[k.2]?).getD (MinRow.allNaN ops npar))

/-- lines 108-178 from the concatenated per-unique minima. -/
def finalOf (ops : Ops α) (npar : Nat) (mins : List (MinRow α)) : List (FinalRow α) :=
  let srt := isort ops (keyed ops mins)
  let ms := gather ops npar mins srt
  let ps := prel ops (srt.map (·.1)) (ms.map (·.nll))
  mkRows 0 srt ms ps

/-- `combine_DL.main(comp, likelihood)` on `P` ranks: the rows of `final_<n>.dat`. -/
def main (ops : Ops α) (t : Table α) (P : Nat) : Option (List (FinalRow α)) :=
  if t.rows.length < 1 then none            -- line 42: `data[:,0]` on `atleast_2d` of an EMPTY table (shape (1,0))
  else if t.nUniq < 1 then none             -- line 110: the same on the combined file
  else some (finalOf ops t.npar (combined ops t P))

/-! ### executable instance -/

def floatOps : Ops Float where
  add := (· + ·)
  sub := (· - ·)
  div := (· / ·)
  expNeg := fun x => Float.exp (-x)
  lt := fun a b => decide (a < b)
  eq := fun a b => a == b
  isNaN := Float.isNaN
  isFinite := Float.isFinite
  zero := 0.0
  inf := 1.0 / 0.0
  nan := 0.0 / 0.0

/-- What the model assumes about the shape of the source (compared with `ESR.Gen.Rank.shape`, which the
extractor regenerates from `combine_DL.py` on every run). -/
def modelledShape : List (String × List String) :=
  [ ("dl", ["negloglike_i", "+", "codelen_i", "+", "aifeyn_i"]),
    ("guard", ["sum", "invert", "isnan", "DL", "==", "0", "then", "DL_min", "nan", "continue"]),
    ("min", ["DL_min:nanmin:DL"]),
    ("argmin", ["params_min:params_i:nanargmin:DL::", "fcn_min:fcn_list_all_i:nanargmin:DL", "negloglike_min:negloglike_i:nanargmin:DL", "codelen_min:codelen_i:nanargmin:DL", "aifeyn_min:aifeyn_i:nanargmin:DL"]),
    ("mask", ["mask:invert:isnan:DL_min", "DL_min:DL_min:mask", "xarr:xarr:mask"]),
    ("sort", ["sorted:(:transpose:vstack:DL_min:xarr:):key=:lambda:x:0"]),
    ("gather", ["DL_sort:arr_sort:0::", "indices_sort:arr_sort:1:::.astype:int", "params_sort:params_min:indices_sort::", "fcn_min_sort:[:fcn_min:i:for:i:in:indices_sort:]", "negloglike_sort:negloglike_min:indices_sort", "codelen_sort:codelen_min:indices_sort", "aifeyn_sort:aifeyn_min:indices_sort"]),
    ("dup", ["if:negloglike_sort:i:in:negloglike_list:continue", "negloglike_list:+=:negloglike_sort:i"]),
    ("prel", ["Prel_DL:=:zeros:len:negloglike_sort:+:inf", "for:i:in:range:len:negloglike_sort", "Prel_DL:i:=:DL_sort:i:-:DL_sort:0", "endfor", "Prel:=:exp:neg:Prel_DL", "Prel:invert:isfinite:Prel:|:isnan:Prel:=:0.0", "if:sum:Prel:>:0", "Prel:/=:sum:Prel", "endif"]) ]

end ESR.Rank
