/-!
Model of `ESRPrinter` (`/repo/esr/generation/custom_printer.py`) on the sympy expression forms ESR produces,
of the facts the printer asks sympy for, and of the Python expression grammar the two parsers read the
output with.  No Mathlib.

Python lines mirrored
* `parenthesize`            custom_printer.py:34-38      ↦ `parenthesize`
* `_print_Add`              custom_printer.py:51-70      ↦ `splitSign`, `addPiece`, `prAdd`
* `_print_Function`/`stringify` :160-161, :40-41         ↦ `pr (.fn ..)`
* `_print_Mul`              custom_printer.py:320-385    ↦ `mulArgs`, `classify`, `mulParts`, `wrapFirst`, `mulAssemble`
  (`apow` :339-349 ↦ `negExp`/`apow`).  Lines 271-318 (the branch for *unevaluated* Mul: `args[0] is S.One`
  or a Number / integer Pow among `args[1:]`) are not modelled: evaluated sympy products never take it.
* `_print_Pow`              custom_printer.py:644-667    ↦ `prPowWith` (`rational=False`, `printmethod = "_sympystr"`)
* `_print_Integer/_Rational/_Float/_Symbol/_Zero` :677-680, :712-718, :738-760, :846, :909 ↦ `prInt`, `prNum`, `pr (.sym ..)`
* sympy facts: `precedence` (sympy/printing/precedence.py: Add 40, Mul 50 or 40 if the leading number is
  negative, Pow 60, Function 70, Atom 1000, negative Integer/Float/Rational 40, positive Rational 50) ↦
  `precedence`; `x.as_coeff_Mul()[0] < 0` ↦ `coeffNeg`; `could_extract_minus_sign` of a Mul ↦ `Num.isNeg` of its
  coefficient; `expr.exp.is_integer` ↦ `isIntegerLit` (every symbol of the vocabulary is real or positive, never
  integer, so only an Integer literal answers True); `_keep_coeff(-c, e).as_ordered_factors()` ↦ `mulArgs`.

Representation.  `SExpr.add ts`: `ts` is `expr.as_ordered_terms()`; `SExpr.mul c fs`: `c = expr.as_coeff_Mul()[0]`
(`int 1` when there is none) and `fs` the ordered non-numeric factors.  `sqrt u` is `pow u (1/2)` as in sympy.
A Float is carried as sign + the text sympy prints for its magnitude inside an expression (`_print_level > 1`,
i.e. zeros stripped); a bare top-level Float (printed with full precision) is outside the model.

The printer produces tokens; `render` concatenates their texts, and that string is what is compared with
`ESRPrinter().doprint`.  `t.startswith('-')` is `splitSign` on tokens: only `Tok.minus` has a text starting
with '-'.

Also here: `tokenize` (characters → tokens), `parse` (recursive descent by precedence level — the five levels of
Python's expression grammar; equivalent to precedence climbing and easier to relate to the grammar), `intended`
(the reading the printer means), `canonical` (the hypothesis of the round-trip theorems).  Proofs are in
`Proofs/PrinterGrammar.lean` (parser ⇔ grammar), `Proofs/PrinterPhrase.lean` (printed tokens are a phrase reading as
`intended`), `Proofs/PrinterSem.lean` (values); the property theorems in `Props/C12.lean`.
-/
namespace ESR.Printer

/-! ## expressions -/

inductive Num
  | int (n : Int)
  | rat (p : Int) (q : Nat)
  | flt (neg : Bool) (mag : String)
deriving DecidableEq, Repr, Inhabited

inductive Fn | Abs | exp | log | sin
deriving DecidableEq, Repr, Inhabited

/-- `expr.func.__name__` -/
def Fn.name : Fn → String
  | .Abs => "Abs" | .exp => "exp" | .log => "log" | .sin => "sin"

inductive SExpr
  | num (n : Num)
  | sym (s : String)
  | fn (f : Fn) (a : SExpr)
  | pow (b e : SExpr)
  | add (ts : List SExpr)
  | mul (c : Num) (fs : List SExpr)
deriving Repr, Inhabited, BEq

namespace Num
def isNeg : Num → Bool
  | int n => decide (n < 0)
  | rat p _ => decide (p < 0)
  | flt neg _ => neg
def neg : Num → Num
  | int n => int (-n)
  | rat p q => rat (-p) q
  | flt b m => flt (!b) m
/-- `is S.One` -/
def isOne : Num → Bool
  | int 1 => true
  | _ => false
/-- `is S.NegativeOne` -/
def isNegOne : Num → Bool
  | int (-1) => true
  | _ => false
/-- `-x is S.Half` -/
def isNegHalf : Num → Bool
  | rat (-1) 2 => true
  | _ => false
def isHalf : Num → Bool
  | rat 1 2 => true
  | _ => false
end Num

/-! ## what the printer asks sympy -/

/-- `sympy.printing.precedence.precedence` on the vocabulary -/
def precedence : SExpr → Nat
  | .num (.int n) => if n < 0 then 40 else 1000
  | .num (.rat p _) => if p < 0 then 40 else 50
  | .num (.flt neg _) => if neg then 40 else 1000
  | .sym _ => 1000
  | .fn _ _ => 70
  | .pow _ _ => 60
  | .add _ => 40
  | .mul c _ => if c.isNeg then 40 else 50

/-- `bool(x.as_coeff_Mul()[0] < 0)` -/
def coeffNeg : SExpr → Bool
  | .num n => n.isNeg
  | .mul c _ => c.isNeg
  | _ => false

/-- `expr.is_integer` (truthy) -/
def isIntegerLit : SExpr → Bool
  | .num (.int _) => true
  | _ => false

def isAdd : SExpr → Bool
  | .add _ => true
  | _ => false

/-- `isinstance(base, (Mul, Pow))` -/
def isNum : SExpr → Bool
  | .num _ => true
  | _ => false

def isMulOrPow : SExpr → Bool
  | .mul _ _ => true
  | .pow _ _ => true
  | _ => false

/-- `len(e.args)` -/
def nargs : SExpr → Nat
  | .num _ => 0
  | .sym _ => 0
  | .fn _ _ => 1
  | .pow _ _ => 2
  | .add ts => ts.length
  | .mul c fs => (if c.isOne then 0 else 1) + fs.length

mutual
def size : SExpr → Nat
  | .num _ => 1
  | .sym _ => 1
  | .fn _ a => 1 + size a
  | .pow b e => 1 + size b + size e
  | .add ts => 1 + sizeL ts
  | .mul _ fs => 2 + sizeL fs
def sizeL : List SExpr → Nat
  | [] => 0
  | t :: ts => size t + sizeL ts
end

/-! ## tokens -/

inductive Tok
  | name (s : String)
  | int (n : Nat)
  | flt (s : String)
  | plus | minus | star | slash | dstar | lpar | rpar | comma
  | sp                       -- one blank (only `_print_Add` emits blanks)
  | err (what : String)      -- where Python would raise, or a path this model does not cover
deriving DecidableEq, Repr, Inhabited

def Tok.text : Tok → String
  | .name s => s
  | .int n => toString n
  | .flt s => s
  | .plus => "+" | .minus => "-" | .star => "*" | .slash => "/" | .dstar => "**"
  | .lpar => "(" | .rpar => ")" | .comma => "," | .sp => " "
  | .err w => "<unsupported:" ++ w ++ ">"

def render (ts : List Tok) : String := String.join (ts.map Tok.text)

def paren (t : List Tok) : List Tok := Tok.lpar :: t ++ [Tok.rpar]

/-- `'*'.join(xs)` -/
def joinStar : List (List Tok) → List Tok
  | [] => []
  | [x] => x
  | x :: xs => x ++ Tok.star :: joinStar xs

/-! ## numbers -/

/-- `str(int)` -/
def prInt (n : Int) : List Tok :=
  if n < 0 then [Tok.minus, Tok.int n.natAbs] else [Tok.int n.toNat]

/-- `_print_Integer`, `_print_Rational`, `_print_Float` (nested) -/
def prNum : Num → List Tok
  | .int n => prInt n
  | .rat p q => if q = 1 then prInt p else prInt p ++ [Tok.slash, Tok.int q]
  | .flt neg mag => (if neg then [Tok.minus] else []) ++ [Tok.flt mag]

/-! ## `parenthesize` (34-38) -/

def parenthesize (level : Nat) (strict : Bool) (item : SExpr) (printed : List Tok) : List Tok :=
  if precedence item < level || (!strict && precedence item ≤ level) then paren printed else printed

/-! ## `_print_Add` (51-70) -/

/-- `if t.startswith('-'): sign = "-"; t = t[1:] else: sign = "+"` -/
def splitSign : List Tok → Bool × List Tok
  | Tok.minus :: t => (true, t)
  | t => (false, t)

/-- one iteration of the loop 56-66; PREC = precedence(Add) = 40 -/
def addPiece (term : SExpr) (printed : List Tok) : Bool × List Tok :=
  let st := splitSign printed
  if precedence term < 40 || isAdd term then (st.1, paren st.2) else st

def signTok (neg : Bool) : Tok := if neg then Tok.minus else Tok.plus

/-- lines 67-70: `sign = L.pop(0); if sign == '+': sign = ""; return sign + ' '.join(L)` -/
def prAdd : List (Bool × List Tok) → List Tok
  | [] => [Tok.err "IndexError: pop from empty list"]
  | (neg, t) :: rest =>
      (if neg then [Tok.minus] else []) ++ t ++
        rest.flatMap (fun p => Tok.sp :: signTok p.1 :: Tok.sp :: p.2)

/-! ## `_print_Pow` (644-667) -/

/-- `expr.exp is S.Half`, `-expr.exp is S.Half`, `expr.exp is -S.One` -/
def isHalfE : SExpr → Bool
  | .num n => n.isHalf
  | _ => false
def isNegHalfE : SExpr → Bool
  | .num n => n.isNegHalf
  | _ => false
def isNegOneE : SExpr → Bool
  | .num n => n.isNegOne
  | _ => false

/-- `_print_Pow` of `Pow(b, e)` given the printed base and exponent (PREC = 60, `is_commutative` holds) -/
def prPowWith (b e : SExpr) (pb pe : List Tok) : List Tok :=
  if isHalfE e then Tok.name "sqrt" :: Tok.lpar :: pb ++ [Tok.rpar]                                   -- 646-647
  else if isNegHalfE e then Tok.int 1 :: Tok.slash :: Tok.name "sqrt" :: Tok.lpar :: pb ++ [Tok.rpar]  -- 650-653
  else if isNegOneE e then Tok.int 1 :: Tok.slash :: parenthesize 60 false b pb                        -- 654-657
  else
    let E := parenthesize 60 false e pe                                                               -- 659
    let B := parenthesize 60 false b pb
    if isIntegerLit e then B ++ Tok.dstar :: E                                                        -- 665-666
    else Tok.name "pow" :: Tok.lpar :: B ++ Tok.comma :: E ++ [Tok.rpar]                               -- 667

/-! ## `_print_Mul` (320-385) -/

/-- `Mul._from_args(args)` for args without a leading number: `S.One` if empty, the single arg, else the Mul -/
def mulFromArgs : List SExpr → SExpr
  | [] => .num (.int 1)
  | [f] => f
  | f :: g :: r => .mul (.int 1) (f :: g :: r)

/-- `Mul._from_args([c] + args)` -/
def mulFromArgsC (c : Num) : List SExpr → SExpr
  | [] => .num c
  | f :: r => .mul c (f :: r)

/-- exponent of `apow(item)` (339-346) for an exponent with a negative leading coefficient:
`eargs = list(Mul.make_args(e)); if eargs[0] is S.NegativeOne: eargs = eargs[1:] else: eargs[0] = -eargs[0];
e = Mul._from_args(eargs)`.  Not called for other exponents (returned unchanged). -/
def negExp : SExpr → SExpr
  | .num n => .num n.neg
  | .mul c fs => if c.isNegOne then mulFromArgs fs else mulFromArgsC c.neg fs
  | e => e

/-- `Pow.as_base_exp` swaps base and sign of the exponent when the base is `1/q`; `apow` then builds an
exponent this model has no term for (sympy's own negation of an arbitrary factor).  Never reached from
evaluated expressions: `(1/q)**(-u)` is `q**u` after evaluation. -/
def isUnitFraction : SExpr → Bool
  | .num (.rat 1 q) => q != 1
  | _ => false

structure MulParts where
  a : List SExpr := []      -- numerator items
  b : List SExpr := []      -- denominator items
  pp : List SExpr := []     -- `pow_paren`: bases to wrap in one more pair of parentheses
deriving Repr, Inhabited

def MulParts.append (x y : MulParts) : MulParts := ⟨x.a ++ y.a, x.b ++ y.b, x.pp ++ y.pp⟩

/-- `Rational(item.p)` / `Rational(item.q)` of a Rational item (362-366) -/
def ratParts (p : Int) (q : Nat) : MulParts :=
  { a := if p = 1 then [] else [.num (.int p)], b := if q = 1 then [] else [.num (.int q)] }

/-- one iteration of the loop 350-368 -/
def classify (item : SExpr) : MulParts :=
  match item with
  | .pow base ex =>
    if coeffNeg ex then
      if isNegOneE ex then                                                  -- 354/356-361
        { b := [base], pp := if nargs base != 1 && isMulOrPow base then [base] else [] }
      else if isUnitFraction base then { b := [.sym "<unsupported:as_base_exp>"] }
      else { b := [.pow base (negExp ex)] }                                 -- 355 `apow(item)`
    else { a := [item] }
  | .num (.int n) => ratParts n 1
  | .num (.rat p q) => ratParts p q
  | _ => { a := [item] }

def classifyAll : List SExpr → MulParts
  | [] => {}
  | x :: xs => (classify x).append (classifyAll xs)

/-- factors the loop sees: `c, e = expr.as_coeff_Mul(); if c < 0: expr = _keep_coeff(-c, e)` then
`expr.as_ordered_factors()` (320-333). -/
def mulArgs (c : Num) (fs : List SExpr) : List SExpr :=
  let c' := if c.isNeg then c.neg else c
  if c'.isOne then fs else .num c' :: fs

def mulParts (c : Num) (fs : List SExpr) : MulParts := classifyAll (mulArgs c fs)

/-- `if item.base in b: b_str[b.index(item.base)] = "(%s)" % b_str[b.index(item.base)]` (376-378) -/
def wrapFirst (base : SExpr) : List SExpr → List (List Tok) → List (List Tok)
  | x :: xs, s :: ss => if x == base then paren s :: ss else s :: wrapFirst base xs ss
  | _, ss => ss

/-- lines 380-385: `sign + '*'.join(a_str)`, then nothing, `"/" + b_str[0]`, or `"/(%s)" % '*'.join(b_str)` -/
def mulJoin (sign : Bool) (aStr bStr : List (List Tok)) : List Tok :=
  let n := (if sign then [Tok.minus] else []) ++ joinStar aStr
  match bStr with
  | [] => n
  | [d] => n ++ Tok.slash :: d
  | _ => n ++ Tok.slash :: Tok.lpar :: joinStar bStr ++ [Tok.rpar]

/-- lines 370-385, given the printed items -/
def mulAssemble (prec : Nat) (sign : Bool) (a b : List (SExpr × List Tok)) (pp : List SExpr) : List Tok :=
  let a := if a.isEmpty then [(SExpr.num (.int 1), [Tok.int 1])] else a                 -- `a = a or [S.One]`
  let aStr := a.map fun x => parenthesize prec false x.1 x.2                            -- 372
  let bStr := b.map fun x => parenthesize prec false x.1 x.2                            -- 373
  let bStr := pp.foldl (fun acc base => wrapFirst base (b.map (·.1)) acc) bStr          -- 376-378
  mulJoin sign aStr bStr

theorem size_mem {t : SExpr} {ts : List SExpr} (h : t ∈ ts) : size t ≤ sizeL ts := by
  induction ts with
  | nil => cases h
  | cons a as ih =>
    simp only [sizeL]
    cases h with
    | head => omega
    | tail _ h => have := ih h; omega

theorem size_pos (e : SExpr) : 1 ≤ size e := by
  cases e <;> simp only [size] <;> omega

theorem size_negExp (e : SExpr) : size (negExp e) ≤ size e := by
  cases e with
  | mul c fs =>
    simp only [negExp]
    split
    · match fs with
      | [] => simp only [mulFromArgs, size, sizeL]; omega
      | [f] => simp only [mulFromArgs, size, sizeL]; omega
      | f :: g :: r => simp [mulFromArgs, size]
    · cases fs <;> simp only [mulFromArgsC, size, sizeL] <;> omega
  | _ => simp [negExp, size]

theorem classify_size (item : SExpr) :
    (∀ x ∈ (classify item).a, size x ≤ size item) ∧ (∀ x ∈ (classify item).b, size x ≤ size item) := by
  cases item with
  | pow base ex =>
    have h1 := size_negExp ex
    have h2 := size_pos ex
    simp only [classify]
    split
    · split
      · simp [size]; omega
      · split
        · simp [size]; omega
        · simp [size]; omega
    · simp
  | num n =>
    cases n with
    | int n => simp only [classify, ratParts]; constructor <;> (intro x hx; split at hx <;> simp_all [size])
    | rat p q => simp only [classify, ratParts]; constructor <;> (intro x hx; split at hx <;> simp_all [size])
    | flt s m => simp [classify]
  | _ => simp [classify]

theorem classifyAll_size (xs : List SExpr) (n : Nat) (h : ∀ x ∈ xs, size x ≤ n) :
    (∀ x ∈ (classifyAll xs).a, size x ≤ n) ∧ (∀ x ∈ (classifyAll xs).b, size x ≤ n) := by
  induction xs with
  | nil => simp [classifyAll]
  | cons y ys ih =>
    have hy := classify_size y
    have hyn := h y (by simp)
    have ih' := ih (fun x hx => h x (by simp [hx]))
    simp only [classifyAll, MulParts.append, List.mem_append]
    constructor
    · intro x hx
      rcases hx with hx | hx
      · have := hy.1 x hx; omega
      · exact ih'.1 x hx
    · intro x hx
      rcases hx with hx | hx
      · have := hy.2 x hx; omega
      · exact ih'.2 x hx

theorem mulParts_size (c : Num) (fs : List SExpr) :
    (∀ x ∈ (mulParts c fs).a, size x < size (.mul c fs)) ∧ (∀ x ∈ (mulParts c fs).b, size x < size (.mul c fs)) := by
  have key : ∀ x ∈ mulArgs c fs, size x ≤ 1 + sizeL fs := by
    intro x hx
    have gen : ∀ c' : Num, x ∈ (if c'.isOne then fs else .num c' :: fs) → size x ≤ 1 + sizeL fs := by
      intro c' h
      split at h
      · have := size_mem h; omega
      · rcases List.mem_cons.mp h with rfl | h
        · simp only [size]; omega
        · have := size_mem h; omega
    exact gen _ hx
  have := classifyAll_size (mulArgs c fs) (1 + sizeL fs) key
  simp only [mulParts, size]
  constructor
  · intro x hx; have := this.1 x hx; omega
  · intro x hx; have := this.2 x hx; omega

/-! ## canonical form

What the round-trip theorems assume about the tree (all of it guaranteed by sympy's automatic evaluation, with the
one exception noted below): rationals have denominator ≥ 2; a sum has terms and no term is itself a sum
(flattening); a product has at least one non-numeric factor and no number among its ordered factors (it is the coefficient), a factor `u**(-1)` has
no product, power or number as `u` (integer powers distribute/combine/evaluate), a factor `(1/q)**(-u)` does not occur (it is
`q**u`), and a product with a *negative* coefficient has no factor that is itself a product with non-negative
coefficient.  The last one is *not* a sympy guarantee: `Abs(a0**3)**(-3/2)` evaluates to the nested product
`(a0**(-4)*Abs(a0))*Abs(a0)**(-3/2)`; under a negative coefficient the printer splices such a factor without
parentheses (`-Abs(a0)/a0**4/pow(..)`), which still denotes the right function but is not the compositional
reading `intended`. Such trees are printed by `pr` like by the real printer; the theorems do not cover them. -/

def factorOk (negCoeff : Bool) (f : SExpr) : Bool :=
  match f with
  | .num _ => false
  | .mul c' _ => !(negCoeff && !c'.isNeg)
  | .pow base ex =>
    if coeffNeg ex then (if isNegOneE ex then !isMulOrPow base && !isNum base else !isUnitFraction base) else true
  | _ => true

def Num.canon : Num → Bool
  | .rat _ q => decide (2 ≤ q)
  | _ => true

mutual
def canonical : SExpr → Bool
  | .num n => n.canon
  | .sym _ => true
  | .fn _ a => canonical a
  | .pow b e => canonical b && canonical e
  | .add ts => !ts.isEmpty && ts.all (fun t => !isAdd t) && canonicalL ts
  | .mul c fs => c.canon && !fs.isEmpty && fs.all (factorOk c.isNeg) && canonicalL fs
def canonicalL : List SExpr → Bool
  | [] => true
  | t :: ts => canonical t && canonicalL ts
end

/-! ## the printer -/

/-- `ESRPrinter()._print(e)` as tokens (for `e` nested or not; a bare Float is outside the model). -/
def pr : SExpr → List Tok
  | .num n => prNum n
  | .sym s => [Tok.name s]
  | .fn f a => Tok.name f.name :: Tok.lpar :: parenthesize 0 false a (pr a) ++ [Tok.rpar]   -- stringify(args, ", "), level 0
  | .pow b e => prPowWith b e (pr b) (pr e)
  | .add ts => prAdd (ts.attach.map fun ⟨t, _⟩ => addPiece t (pr t))
  | .mul c fs =>
      let P := mulParts c fs
      mulAssemble (precedence (.mul c fs)) c.isNeg
        (P.a.attach.map fun ⟨x, _⟩ => (x, pr x)) (P.b.attach.map fun ⟨x, _⟩ => (x, pr x)) P.pp
termination_by e => size e
decreasing_by
  all_goals simp_wf
  · simp only [size]; omega
  · simp only [size]; omega
  · simp only [size]; omega
  · rename_i h; have := size_mem h; simp only [size]; omega
  · rename_i h; exact (mulParts_size c fs).1 _ h
  · rename_i h; exact (mulParts_size c fs).2 _ h

/-- the string `ESRPrinter().doprint(e)` -/
def print (e : SExpr) : String := render (pr e)

/-! ## Python expressions -/

inductive BinOp | add | sub | mul | div | pow
deriving DecidableEq, Repr, Inhabited

inductive PyAst
  | name (s : String)
  | int (n : Nat)
  | flt (s : String)
  | neg (a : PyAst)
  | pos (a : PyAst)
  | bin (op : BinOp) (l r : PyAst)
  | call1 (f : String) (a : PyAst)
  | call2 (f : String) (a b : PyAst)
deriving DecidableEq, Repr, Inhabited

/-! ### tokenizer (characters → tokens) -/

def isIdStart (c : Char) : Bool := c.isAlpha || c == '_'
def isIdChar (c : Char) : Bool := c.isAlphanum || c == '_'

def digitsToNat (ds : List Char) : Nat := ds.foldl (fun acc c => acc * 10 + (c.toNat - '0'.toNat)) 0

/-- NUMBER token of Python restricted to `digits [. digits*] [(e|E) [+-] digits]` -/
def lexNumber (cs : List Char) : Tok × List Char :=
  let ip := cs.span Char.isDigit
  let (frac, rest1, isF1) :=
    match ip.2 with
    | '.' :: r => let fp := r.span Char.isDigit; ('.' :: fp.1, fp.2, true)
    | r => ([], r, false)
  let (ex, rest2, isF2) :=
    match rest1 with
    | e :: r =>
      if e == 'e' || e == 'E' then
        let (sg, r') := match r with
          | '+' :: r' => (['+'], r')
          | '-' :: r' => (['-'], r')
          | _ => ([], r)
        let dp := r'.span Char.isDigit
        if dp.1.isEmpty then ([], rest1, false) else (e :: sg ++ dp.1, dp.2, true)
      else ([], rest1, false)
    | [] => ([], rest1, false)
  if isF1 || isF2 then (Tok.flt (String.ofList (ip.1 ++ frac ++ ex)), rest2)
  else (Tok.int (digitsToNat ip.1), rest2)

def tokenizeAux : Nat → List Char → List Tok → Option (List Tok)
  | 0, _, _ => none
  | _ + 1, [], acc => some acc.reverse
  | n + 1, c :: cs, acc =>
    if c == ' ' then tokenizeAux n cs (Tok.sp :: acc)
    else if c == '+' then tokenizeAux n cs (Tok.plus :: acc)
    else if c == '-' then tokenizeAux n cs (Tok.minus :: acc)
    else if c == '/' then tokenizeAux n cs (Tok.slash :: acc)
    else if c == '(' then tokenizeAux n cs (Tok.lpar :: acc)
    else if c == ')' then tokenizeAux n cs (Tok.rpar :: acc)
    else if c == ',' then tokenizeAux n cs (Tok.comma :: acc)
    else if c == '*' then
      match cs with
      | '*' :: cs' => tokenizeAux n cs' (Tok.dstar :: acc)
      | _ => tokenizeAux n cs (Tok.star :: acc)
    else if c.isDigit then
      let r := lexNumber (c :: cs)
      tokenizeAux n r.2 (r.1 :: acc)
    else if isIdStart c then
      let ip := cs.span isIdChar
      tokenizeAux n ip.2 (Tok.name (String.ofList (c :: ip.1)) :: acc)
    else none

def tokenize (s : String) : Option (List Tok) :=
  let cs := s.toList
  tokenizeAux (cs.length + 1) cs []

/-! ### parser: recursive descent by precedence level, the Python grammar

```
expr   := term (('+'|'-') term)*          factor := ('+'|'-') factor | power
term   := factor (('*'|'/') factor)*      power  := atom ['**' factor]
atom   := NAME | NUMBER | '(' expr ')' | NAME '(' expr [',' expr] ')'
```
Every call spends one unit of fuel, so all functions are structurally recursive; `parse` supplies enough. -/

abbrev PResult := Option (PyAst × List Tok)

mutual
def pExpr : Nat → List Tok → PResult
  | 0, _ => none
  | n + 1, ts =>
    match pTerm n ts with
    | some (a, r) => pExprTail n a r
    | none => none
def pExprTail : Nat → PyAst → List Tok → PResult
  | 0, _, _ => none
  | n + 1, acc, ts =>
    match ts with
    | Tok.plus :: r =>
      match pTerm n r with
      | some (b, r') => pExprTail n (.bin .add acc b) r'
      | none => none
    | Tok.minus :: r =>
      match pTerm n r with
      | some (b, r') => pExprTail n (.bin .sub acc b) r'
      | none => none
    | _ => some (acc, ts)
def pTerm : Nat → List Tok → PResult
  | 0, _ => none
  | n + 1, ts =>
    match pFactor n ts with
    | some (a, r) => pTermTail n a r
    | none => none
def pTermTail : Nat → PyAst → List Tok → PResult
  | 0, _, _ => none
  | n + 1, acc, ts =>
    match ts with
    | Tok.star :: r =>
      match pFactor n r with
      | some (b, r') => pTermTail n (.bin .mul acc b) r'
      | none => none
    | Tok.slash :: r =>
      match pFactor n r with
      | some (b, r') => pTermTail n (.bin .div acc b) r'
      | none => none
    | _ => some (acc, ts)
def pFactor : Nat → List Tok → PResult
  | 0, _ => none
  | n + 1, ts =>
    match ts with
    | Tok.minus :: r =>
      match pFactor n r with
      | some (a, r') => some (.neg a, r')
      | none => none
    | Tok.plus :: r =>
      match pFactor n r with
      | some (a, r') => some (.pos a, r')
      | none => none
    | _ => pPower n ts
def pPower : Nat → List Tok → PResult
  | 0, _ => none
  | n + 1, ts =>
    match pAtom n ts with
    | some (a, Tok.dstar :: r) =>
      match pFactor n r with
      | some (b, r') => some (.bin .pow a b, r')
      | none => none
    | other => other
def pAtom : Nat → List Tok → PResult
  | 0, _ => none
  | n + 1, ts =>
    match ts with
    | Tok.int k :: r => some (.int k, r)
    | Tok.flt s :: r => some (.flt s, r)
    | Tok.name f :: Tok.lpar :: r =>
      match pExpr n r with
      | some (a, Tok.rpar :: r') => some (.call1 f a, r')
      | some (a, Tok.comma :: r') =>
        match pExpr n r' with
        | some (b, Tok.rpar :: r'') => some (.call2 f a b, r'')
        | _ => none
      | _ => none
    | Tok.name s :: r => some (.name s, r)
    | Tok.lpar :: r =>
      match pExpr n r with
      | some (a, Tok.rpar :: r') => some (a, r')
      | _ => none
    | _ => none
end

def isSp : Tok → Bool
  | .sp => true
  | _ => false

/-- blanks are not tokens of the Python grammar -/
def dropSp (ts : List Tok) : List Tok := ts.filter (fun t => !isSp t)

/-- fuel that always suffices for `ts` (see `C12.parse_complete`) -/
def fuelFor (ts : List Tok) : Nat := 6 * ts.length + 6

/-- parse a whole token list as one Python expression -/
def parse (ts : List Tok) : Option PyAst :=
  let ts := dropSp ts
  match pExpr (fuelFor ts) ts with
  | some (a, []) => some a
  | _ => none

def parseString (s : String) : Option PyAst := (tokenize s).bind parse

/-! ## the expression the printed text is meant to denote

`intended e` is the Python AST that `pr e` is supposed to be read as; it follows `pr` case by case
(parentheses leave no trace in an AST).  `C12.print_is_phrase` proves that the grammar reads `pr e` that way,
`C12.parse_print` that the executable parser returns it. -/

def intInt (n : Int) : PyAst := if n < 0 then .neg (.int n.natAbs) else .int n.toNat

def intendedNum : Num → PyAst
  | .int n => intInt n
  | .rat p q => if q = 1 then intInt p else .bin .div (intInt p) (.int q)
  | .flt neg mag => if neg then .neg (.flt mag) else .flt mag

/-- AST of the text left after `t[1:]` removed a leading '-' (if `pr` starts with one), and that sign -/
def stripNeg : PyAst → Option PyAst
  | .neg a => some a
  | .bin .mul l r => (stripNeg l).map fun l' => .bin .mul l' r
  | .bin .div l r => (stripNeg l).map fun l' => .bin .div l' r
  | _ => none

def foldBin (op : BinOp) : PyAst → List PyAst → PyAst
  | acc, [] => acc
  | acc, x :: xs => foldBin op (.bin op acc x) xs

def intendedPowWith (e : SExpr) (ab ae : PyAst) : PyAst :=
  if isHalfE e then .call1 "sqrt" ab
  else if isNegHalfE e then .bin .div (.int 1) (.call1 "sqrt" ab)
  else if isNegOneE e then .bin .div (.int 1) ab
  else if isIntegerLit e then .bin .pow ab ae
  else .call2 "pow" ab ae

/-- fold of `_print_Add`'s pieces: first term as printed, then `acc ± body` -/
def intendedAdd : List (Bool × PyAst × PyAst) → PyAst
  | [] => .name "<unsupported:IndexError>"
  | (_, whole, _) :: rest =>
      rest.foldl (fun acc p => .bin (if p.1 then .sub else .add) acc p.2.2) whole

/-- (starts with '-', AST of the whole term, AST of the term without that '-') -/
def addPieceAst (printedNeg : Bool) (whole : PyAst) : Bool × PyAst × PyAst :=
  match printedNeg, stripNeg whole with
  | true, some body => (true, whole, body)
  | _, _ => (false, whole, whole)

/-- `sign + '*'.join(a_str)` with `a = a or [S.One]` -/
def intendedNumer (sign : Bool) (a : List PyAst) : PyAst :=
  match a with
  | [] => if sign then .neg (.int 1) else .int 1
  | x :: xs => foldBin .mul (if sign then .neg x else x) xs

def intendedMulAssemble (sign : Bool) (a b : List PyAst) : PyAst :=
  match b with
  | [] => intendedNumer sign a
  | [d] => .bin .div (intendedNumer sign a) d
  | d :: ds => .bin .div (intendedNumer sign a) (foldBin .mul d ds)

def startsMinus : List Tok → Bool
  | Tok.minus :: _ => true
  | _ => false

def intended : SExpr → PyAst
  | .num n => intendedNum n
  | .sym s => .name s
  | .fn f a => .call1 f.name (intended a)
  | .pow b e => intendedPowWith e (intended b) (intended e)
  | .add ts => intendedAdd (ts.attach.map fun ⟨t, _⟩ => addPieceAst (startsMinus (pr t)) (intended t))
  | .mul c fs =>
      let P := mulParts c fs
      intendedMulAssemble c.isNeg (P.a.attach.map fun ⟨x, _⟩ => intended x) (P.b.attach.map fun ⟨x, _⟩ => intended x)
termination_by e => size e
decreasing_by
  all_goals simp_wf
  · simp only [size]; omega
  · simp only [size]; omega
  · simp only [size]; omega
  · rename_i h; have := size_mem h; simp only [size]; omega
  · rename_i h; exact (mulParts_size c fs).1 _ h
  · rename_i h; exact (mulParts_size c fs).2 _ h

/-! ## canonical dumps (driver / correspondence) -/

def BinOp.tag : BinOp → String
  | .add => "add" | .sub => "sub" | .mul => "mul" | .div => "div" | .pow => "pow"

def PyAst.dump : PyAst → String
  | .name s => "(name " ++ s ++ ")"
  | .int n => "(int " ++ toString n ++ ")"
  | .flt s => "(flt " ++ s ++ ")"
  | .neg a => "(neg " ++ a.dump ++ ")"
  | .pos a => "(pos " ++ a.dump ++ ")"
  | .bin op l r => "(" ++ op.tag ++ " " ++ l.dump ++ " " ++ r.dump ++ ")"
  | .call1 f a => "(call " ++ f ++ " " ++ a.dump ++ ")"
  | .call2 f a b => "(call " ++ f ++ " " ++ a.dump ++ " " ++ b.dump ++ ")"

end ESR.Printer
