import ESRVerif.Model.Partition
/-
Syntax (and evaluation) of the small index terms that `harness/extractors/gather.py` reads out of
`simplifier.make_changes` and `simplifier.check_results`:

* `Ix`    — an integer expression a rank computes from `len(list)`, `rank`, `size`, the length of its own
            scattered block and the result `i = utils.split_idx(n, r, p)` (`i[0]`, `i[-1]`, and the
            `if len(i) == 0: … else: …` case split every use site makes).
* `PStep` — what rank 0 does to a gathered list of per-rank counts before broadcasting it
            (`[0] + xs`, `np.cumsum`, `[k:]`).

`Ix.eval` is integer valued (`nfun - 1` is `-1` for `nfun = 0`, as in Python) and returns `none` where Python raises
IndexError (`i[0]` on the empty result of `split_idx`).
No Mathlib: linked into `esrmodel`.
-/
namespace ESR.Gather
open ESR.Partition

inductive Ix where
  | total                       -- `len(all_fun)` of the global list / `nfun`
  | rank
  | size
  | localLen                    -- `len(all_fun)` after the list was replaced by this rank's scattered block
  | lit (n : Int)
  | add (a b : Ix)
  | sub (a b : Ix)
  | mul (a b : Ix)
  | splitLo (n r p : Ix)        -- `utils.split_idx(n, r, p)[0]`
  | splitHi (n r p : Ix)        -- `utils.split_idx(n, r, p)[-1]`
  | ifSplitEmpty (n r p : Ix) (thenE elseE : Ix)   -- `thenE if len(utils.split_idx(n, r, p)) == 0 else elseE`
  deriving Repr, DecidableEq

inductive PStep where
  | prepend (n : Nat)           -- `xs = [n] + xs`
  | cumsum                      -- `xs = np.cumsum(xs)`
  | dropFirst (k : Nat)         -- `xs = xs[k:]`
  deriving Repr, DecidableEq

/-- What `make_changes` does with indices (read from the source on every run). -/
structure MakeChangesDesc where
  count : Ix                    -- the value every rank contributes to `comm.gather(start_idx)`
  cmpBase : Ix                  -- `imin` in `str_fun[i] != all_fun[imin+i]`
  steps : List PStep            -- rank 0: gathered counts ↦ `start_idx`
  useShift : Nat                -- `j = chidx[i] + start_idx[i + useShift]`
  deriving Repr, DecidableEq

/-- What `check_results` does with indices. -/
structure CheckResultsDesc where
  sliceLo : Ix                  -- `imin` gathered for `all_fun[imin[i]:imax[i]]`
  sliceHi : Ix                  -- `imax` (after `imax += 1`)
  offset : Ix                   -- `imin` in `to_change.append([i+imin, all_fun[i]])`
  deriving Repr, DecidableEq

structure Env where
  total : Nat
  rank : Nat
  size : Nat
  localLen : Nat

def natOf (z : Int) : Option Nat := if 0 ≤ z then some z.toNat else none

/-- `none`: Python raises (IndexError on an empty `split_idx` result) or an argument of `split_idx` is negative
(outside the modelled fragment). -/
def Ix.eval (e : Env) : Ix → Option Int
  | .total => some e.total
  | .rank => some e.rank
  | .size => some e.size
  | .localLen => some e.localLen
  | .lit n => some n
  | .add a b => do let x ← a.eval e; let y ← b.eval e; pure (x + y)
  | .sub a b => do let x ← a.eval e; let y ← b.eval e; pure (x - y)
  | .mul a b => do let x ← a.eval e; let y ← b.eval e; pure (x * y)
  | .splitLo n r p => do
      let n ← (n.eval e).bind natOf; let r ← (r.eval e).bind natOf; let p ← (p.eval e).bind natOf
      (splitIdx n p r).map (fun ab => (ab.1 : Int))
  | .splitHi n r p => do
      let n ← (n.eval e).bind natOf; let r ← (r.eval e).bind natOf; let p ← (p.eval e).bind natOf
      (splitIdx n p r).map (fun ab => (ab.2 : Int))
  | .ifSplitEmpty n r p t f => do
      let n ← (n.eval e).bind natOf; let r ← (r.eval e).bind natOf; let p ← (p.eval e).bind natOf
      match splitIdx n p r with
      | none => t.eval e
      | some _ => f.eval e

/-- `np.cumsum` of a list of naturals. -/
def cumsumFrom : Nat → List Nat → List Nat
  | _, [] => []
  | acc, x :: xs => (acc + x) :: cumsumFrom (acc + x) xs

def cumsum (xs : List Nat) : List Nat := cumsumFrom 0 xs

def PStep.apply : PStep → List Nat → List Nat
  | .prepend n, xs => n :: xs
  | .cumsum, xs => ESR.Gather.cumsum xs
  | .dropFirst k, xs => xs.drop k

def applySteps (steps : List PStep) (xs : List Nat) : List Nat := steps.foldl (fun acc s => s.apply acc) xs

end ESR.Gather
