/-
C11, layer 2b: list-level model of `update_sums` (esr/generation/generator.py l.983-1395), ported statement by
statement.  `updateSums labels shape tryIdx B` mirrors the Python on (labels, [t.type for t in tree], try_idx, basis).

Tree pointers.  Python reads `parent` / `left` / `right` of the Node list `check_tree(shape)` built; on a valid
shape these are: `left j = j+1` (arity ≥ 1), `right j = subEnd (j+1)` (arity 2), `parent j` = nearest earlier node
whose subtree contains `j` (`UT.parentIdx`, `UT.rightChild`, `UT.subEnd` of the `update_tree` model).  The model first
evaluates the PRECONDITION under which this reading is exact — valid shape of the labels' length, arities ≤ 2, and
`+ - * /` on binary nodes — and answers `unported "precondition"` otherwise (the check counts these: 0 on every
real call).

Statement map (Python line → definition):
* l.1003-1011  early returns (`none`), `plus_idx` = `plusIdx` (top-most `+`/`-` nodes);
* l.1018-1084  `get_sum` = `getSum` (terms of the maximal sum below node `i`, as index pairs `[a, b)`; a product with an
  integer literal `n` on either side repeats the terms of its other factor `|n|` times; `run_anyway` is set when a
  right operand contributes no term, i.e. below a `0 *`); the third index component Python keeps is never read;
* l.1090-1101  `all_start` (parents of the term starts), `end_idx = subEnd i`;
* l.1104-1132  `signOf`: sign of each term (right operands of `-`, negative integer literals in products on the way
  up to `i`) and `neg_const`;
* l.1135-1142  unique terms in first-occurrence order = `firsts`;
* l.1148-1243  per unique term `j`: `rep`, `rep_val`, `uni`, and the loop building `l_uni/t_uni/n_uni` = `uniLoop`
  (`uniStep`: the `neg_const` sub-branches A1/A2, the positive-first-sign branch B, the negative one C);
* l.1245-1262  the repeated part `l_rep/t_rep` (shape entries through `labels.index`) and the splice;
* l.1264-1382  the `± 0` removal incl. the rebuild that moves a `+` term to the front (`uniLoop` with `redo = true`:
  children of the TERM root instead of its parent, `neg_const` without the single-occurrence test, `elif nrep != 0`);
* l.1384-1395  the tail after the sum and the `nadded == 1` unwrapping.
Every branch is ported; the only `unported` answer is the precondition.  (The `right_idx is None` sub-branches,
l.1193-1203 / 1317-1327, index with `left_idx - 1`, which is ≥ 0 because `left_idx` is a child index.)
`error` where Python raises (a pointer that is `None` used as an index).
No Mathlib.
-/
import ESRVerif.Model.Rewrite
import ESRVerif.Model.Shape
namespace ESR.Rewrite.US
open ESR.Rewrite.UT (Out sl subEnd parentIdx rightChild istr)

/-- `s.lstrip("-")` -/
def lstripMinus (s : String) : List Char := s.toList.dropWhile (· == '-')

/-- `s.lstrip("-").isdigit()` (ASCII digits) -/
def isNum (s : String) : Bool := let cs := lstripMinus s; !cs.isEmpty && cs.all Char.isDigit

/-- `s.lstrip("-").isdigit() and s.startswith("-")` -/
def isNegNum (s : String) : Bool := isNum s && s.toList.head? == some '-'

/-- `int(s.lstrip("-"))` -/
def absVal (s : String) : Nat := (lstripMinus s).foldl (fun acc c => 10 * acc + (c.toNat - '0'.toNat)) 0

/-- `s.lstrip("-") == str(1)` -/
def stripIsOne (s : String) : Bool := lstripMinus s == ['1']

def isSumOp (l : String) : Bool := l == "+" || l == "-"
def isMulDiv (l : String) : Bool := l == "*" || l == "/"

def leftIdx (S : List Nat) (j : Nat) : Option Nat := if 1 ≤ S.getD j 0 ∧ j + 1 < S.length then some (j + 1) else none
def rightIdx (S : List Nat) (j : Nat) : Option Nat :=
  match rightChild S j with
  | some r => if r < S.length then some r else none
  | none => none

/-- the reading of the pointers is exact: valid shape, one arity ≤ 2 per label, `+ - * /` binary -/
def precond (L : List String) (S : List Nat) : Bool :=
  S.length == L.length && ESR.Shape.validShape S && S.all (· ≤ 2) &&
    (List.range L.length).all (fun m => !(isSumOp (L.getD m "") || isMulDiv (L.getD m "")) || S.getD m 0 == 2)

/-- l.1007-1008 -/
def plusIdx (L : List String) (S : List Nat) : List Nat :=
  (List.range L.length).filter fun i =>
    isSumOp (L.getD i "") &&
      (match parentIdx S i with
       | none => true
       | some p => !isSumOp (L.getD p ""))

/-- a term of the sum: the label slice `[a, b)` -/
structure Tm where
  a : Nat
  b : Nat
  deriving Repr, DecidableEq

/-- l.1018-1084; `none` = Python raises (a missing child used as an index) or the fuel (= number of labels + 1,
never reached: every call descends to a child) ran out -/
def getSum (L : List String) (S : List Nat) : Nat → Nat → Bool → Option (List Tm × Bool)
  | 0, _, _ => none
  | f + 1, j, r =>
    let lj := L.getD j ""
    if isSumOp lj then
      match leftIdx S j, rightIdx S j with
      | some l, some rr =>
        match getSum L S f l r with
        | none => none
        | some (s1, r2) =>
          let r := r || r2
          match getSum L S f rr r with
          | none => none
          | some (s2, r3) =>
            let r := r || r3
            some (s1 ++ s2, if s2.isEmpty then true else r)
      | _, _ => none
    else if lj == "*" then
      match leftIdx S j, rightIdx S j with
      | some l, some rr =>
        if isNum (L.getD l "") then
          match getSum L S f rr r with
          | none => none
          | some (t, r2) => some (t.flatMap (fun x => List.replicate (absVal (L.getD l "")) x), r || r2)
        else if isNum (L.getD rr "") then
          match getSum L S f l r with
          | none => none
          | some (t, r2) => some (t.flatMap (fun x => List.replicate (absVal (L.getD rr "")) x), r || r2)
        else some ([⟨j, subEnd S j⟩], r)
      | _, _ => none
    else some ([⟨j, subEnd S j⟩], r)

/-- the `while` loop of l.1122-1131 (fuel = number of labels) -/
def signUp (L : List String) (S : List Nat) (i : Nat) : Nat → Nat → Int → Bool → Int × Bool
  | 0, _, n, neg => (n, neg)
  | f + 1, k, n, neg =>
    match parentIdx S k with
    | none => (n, neg)
    | some p =>
      if p < i then (n, neg)
      else
        let n1 := if L.getD p "" == "-" && rightIdx S p == some k then -n else n
        let lp := L.getD p ""
        let r :=
          if isMulDiv lp then
            if isNegNum (L.getD ((leftIdx S p).getD 0) "") then (-n1, neg)
            else if isNegNum (L.getD ((rightIdx S p).getD 0) "") then (-n1, true)
            else (n1, neg)
          else (n1, neg)
        signUp L S i f p r.1 r.2

/-- l.1107-1132 for the term starting at `a0`: (sign, neg_const); `none` = the term start has no parent -/
def signOf (L : List String) (S : List Nat) (i : Nat) (a0 : Nat) : Option (Int × Bool) :=
  match parentIdx S a0 with
  | none => none
  | some k =>
    let lk := L.getD k ""
    let r0 : Int × Bool :=
      if isMulDiv lk then
        if isNegNum (L.getD ((leftIdx S k).getD 0) "") then (-1, true)
        else if isNegNum (L.getD ((rightIdx S k).getD 0) "") then (-1, true)
        else (1, false)
      else (1, false)
    let n1 := if lk == "-" && rightIdx S k == some a0 then -r0.1 else r0.1
    some (signUp L S i L.length k n1 r0.2)

/-- everything the candidate loop reads -/
structure Ctx where
  L : List String
  S : List Nat
  terms : List Tm
  sign : List Int
  negc : List Bool

def Ctx.lab (c : Ctx) (a : Nat) : List String := match c.terms[a]? with | some t => sl c.L t.a t.b | none => []
def Ctx.shp (c : Ctx) (a : Nat) : List Nat := match c.terms[a]? with | some t => sl c.S t.a t.b | none => []

/-- `sum(all_sign[b] for b if all_s[a] == all_s[b])` and the number of such `b` -/
def Ctx.nrep (c : Ctx) (a : Nat) : Int × Nat :=
  let bs := (List.range c.terms.length).filter (fun b => c.lab a == c.lab b)
  ((bs.map (fun b => c.sign.getD b 0)).sum, bs.length)

/-- first occurrences of the distinct terms, in order (`sorted(set(s), key=s.index)`) -/
def Ctx.firsts (c : Ctx) : List Nat :=
  (List.range c.terms.length).filter (fun a => (List.range a).all (fun b => c.lab b != c.lab a))

structure Acc where
  l : List String := []
  t : List Nat := []
  n : List String := []
  deriving Repr

inductive Step where
  | ok (a : Acc)
  | raises
  | unported (why : String)

def Acc.add (acc : Acc) (ls : List String) (ts : List Nat) : Acc := { acc with l := ls ++ acc.l, t := ts ++ acc.t }
def Acc.sgn (acc : Acc) (s : String) : Acc := { acc with n := acc.n ++ [s] }

def natAbsStr (z : Int) : String := istr (z.natAbs : Int)

/-- one iteration of `for a in uni` (l.1162-1243), or of the rebuild loop (l.1286-1369) when `redo` -/
def uniStep (c : Ctx) (redo : Bool) (acc : Acc) (a : Nat) : Step :=
  let (nrep, lenN) := c.nrep a
  let sg := c.sign.getD a 0
  match c.terms[a]? with
  | none => .raises
  | some tm =>
    let term := sl c.L tm.a tm.b
    let tshp := sl c.S tm.a tm.b
    if c.negc.getD a false && (redo || lenN == 1) then
      match parentIdx c.S tm.a with
      | none => .raises
      | some P =>
        if leftIdx c.S P == some tm.a then
          if nrep == 1 then .ok ((acc.add term tshp).sgn "+")
          else if nrep != 0 then .ok ((acc.add (["*", istr nrep] ++ term) ([2, 0] ++ tshp)).sgn "+")
          else .ok acc
        else
          let li := if redo then leftIdx c.S tm.a else leftIdx c.S P
          let ri := if redo then rightIdx c.S tm.a else rightIdx c.S P
          match li with
          | none => .raises                                  -- labels[None]
          | some li =>
            let fin (acc : Acc) : Step := .ok (acc.sgn (if sg == 1 then "+" else "-"))
            if isNegNum (c.L.getD li "") then
              if stripIsOne (c.L.getD li "") && nrep == 1 then
                fin (acc.add (sl c.L (li + 1) tm.b) (sl c.S (li + 1) tm.b))
              else if !redo || nrep != 0 then
                fin (acc.add (sl c.L tm.a li ++ ["*", natAbsStr nrep] ++ sl c.L (li + 1) tm.b)
                             (sl c.S tm.a li ++ [2, 0] ++ sl c.S (li + 1) tm.b))
              else fin acc
            else
              match ri with
              | none =>                                      -- l.1193-1203 / 1317-1327 (`left_idx - 1`; left_idx ≥ 1)
                if nrep == 1 then fin (acc.add (sl c.L (li - 1) tm.b) (sl c.S (li - 1) tm.b))
                else fin (acc.add (sl c.L tm.a (li - 1) ++ ["*", natAbsStr nrep] ++ sl c.L (li - 1) tm.b)
                                  (sl c.S tm.a (li - 1) ++ [2, 0] ++ sl c.S (li - 1) tm.b))
              | some ri =>
                if stripIsOne (c.L.getD ri "") && nrep == 1 then
                  fin (acc.add (sl c.L (tm.a + 1) ri ++ sl c.L (ri + 1) tm.b) (sl c.S (tm.a + 1) ri ++ sl c.S (ri + 1) tm.b))
                else if nrep != 0 then
                  fin (acc.add (sl c.L tm.a ri ++ ["*", natAbsStr nrep] ++ sl c.L (ri + 1) tm.b)
                               (sl c.S tm.a ri ++ [2, 0] ++ sl c.S (ri + 1) tm.b))
                else fin acc
    else if sg == 1 then
      if nrep == 1 then .ok ((acc.add term tshp).sgn "+")
      else if nrep != 0 then .ok ((acc.add (["*", istr nrep] ++ term) ([2, 0] ++ tshp)).sgn "+")
      else .ok acc
    else
      let acc1 :=
        if nrep.natAbs == 1 then acc.add term tshp
        else if nrep != 0 then acc.add (["*", natAbsStr nrep] ++ term) ([2, 0] ++ tshp)
        else acc
      if nrep > 0 then .ok (acc1.sgn "+") else if nrep < 0 then .ok (acc1.sgn "-") else .ok acc1

/-- the loop over `uni`; `skip` = position to leave out (the rebuild's `k != plus_idx`) -/
def uniLoop (c : Ctx) (redo : Bool) (skip : Option Nat) : List Nat → Nat → Acc → Step
  | [], _, acc => .ok acc
  | a :: rest, pos, acc =>
    if skip == some pos then uniLoop c redo skip rest (pos + 1) acc
    else
      match uniStep c redo acc a with
      | .ok acc' => uniLoop c redo skip rest (pos + 1) acc'
      | r => r

inductive CandR where
  | ok (l : List String) (t : List Nat)
  | raises
  | unported (why : String)

/-- the candidate built for the unique term with first occurrence `fj` (body of `for j in range(len(s))`,
without the common prefix `labels[:i]` and suffix `labels[end_idx:]`) -/
def candMid (c : Ctx) (B : Basis) (fj : Nat) : CandR :=
  let (repVal, repCnt) := c.nrep fj
  let uni := c.firsts.filter (fun a => a != fj)
  match uniLoop c false none uni 0 {} with
  | .raises => .raises
  | .unported w => .unported w
  | .ok u =>
    if (repCnt == 1 || B.binary.contains "*") && repVal != 0 then
      let term := c.lab fj
      let lrep := (if repVal != 1 then ["*", istr repVal] else []) ++ term
      let trep := (if repVal != 1 then [2, 0] else []) ++ term.map (fun lbl => c.S.getD (c.L.idxOf lbl) 0)
      if u.l.isEmpty then .ok (u.l ++ lrep) (u.t ++ trep)
      else .ok (u.n ++ lrep ++ u.l) (List.replicate u.n.length 2 ++ trep ++ u.t)
    else if u.n.isEmpty then .ok ["0"] [0]
    else if u.n.getLast? == some "+" then .ok (u.n.dropLast ++ u.l) (List.replicate (u.n.length - 1) 2 ++ u.t)
    else if u.n.all (· == "-") then
      .ok (["*", "-1"] ++ List.replicate (u.n.length - 1) "+" ++ u.l) ([2, 0] ++ List.replicate (u.n.length - 1) 2 ++ u.t)
    else
      let pidx := u.n.idxOf "+"
      match uniLoop c true (some pidx) uni 0 {} with
      | .raises => .raises
      | .unported w => .unported w
      | .ok u2 =>
        match uni[pidx]? with
        | none => .raises                                    -- IndexError
        | some a =>
          let nrep := (c.nrep a).1
          if nrep == 1 then .ok (u2.n ++ c.lab a ++ u2.l) (List.replicate u2.n.length 2 ++ c.shp a ++ u2.t)
          else .ok (u2.n ++ ["*", istr nrep] ++ c.lab a ++ u2.l) (List.replicate u2.n.length 2 ++ [2, 0] ++ c.shp a ++ u2.t)

deriving instance DecidableEq for ESR.Rewrite.UT.Out

inductive Res where
  | out (o : Out)
  | unported (why : String)
  deriving Repr, DecidableEq

def collect (c : Ctx) (B : Basis) (pre : List String × List Nat) (post : List String × List Nat) :
    List Nat → Option (Except String (List (List String × List Nat)))
  | [] => some (.ok [])
  | fj :: rest =>
    match candMid c B fj with
    | .raises => none
    | .unported w => some (.error w)
    | .ok l t =>
      match collect c B pre post rest with
      | none => none
      | some (.error w) => some (.error w)
      | some (.ok cs) => some (.ok ((pre.1 ++ l ++ post.1, pre.2 ++ t ++ post.2) :: cs))

/-- `update_sums(tree, labels, try_idx, basis_functions)` with `shape = [t.type for t in tree]` -/
def updateSums (L : List String) (S : List Nat) (tryIdx : Nat) (B : Basis) : Res :=
  if !(L.contains "+") && !(L.contains "-") then .out .none
  else if !precond L S then .unported "precondition"
  else
    match (plusIdx L S)[tryIdx]? with
    | none => .out .none
    | some i =>
      match getSum L S (L.length + 1) i false with
      | none => .out .error
      | some (terms, runAnyway) =>
        match terms.mapM (fun t => signOf L S i t.a) with
        | none => .out .error
        | some sn =>
          let c : Ctx := ⟨L, S, terms, sn.map (·.1), sn.map (·.2)⟩
          let e := subEnd S i
          if c.firsts.length != terms.length || runAnyway then
            match collect c B (L.take i, S.take i) (L.drop e, S.drop e) c.firsts with
            | none => .out .error
            | some (.error w) => .unported w
            | some (.ok [(l, t)]) => .out (.one l t)
            | some (.ok cs) => .out (.many cs)
          else .out (.many [])

end ESR.Rewrite.US
