/-!
Term language for the entries of ESR's two sympy symbol tables (the `locals=` dictionaries handed to
`sympy.sympify`):

* generation stage: `esr/fitting/sympy_symbols.py: sympy_locs` (used by `simplifier.initial_sympify`,
  `generator.string_to_expr`, ...; the parameters `a0, a1, ..` are added to it as real symbols),
* fitting stage: the literal dictionary inside `Likelihood.run_sympify` (`esr/fitting/likelihood.py`), whose
  values are names imported from `sympy_symbols.py`.

`harness/extractors/symtab.py` re-reads both from the staged source on every run and writes them, entry by
entry, as values of these types into `Generated/SymTab.lean`.  No Mathlib.
-/
namespace ESR.SymTerm

/-- Body of a `sympy.Lambda(args, body)`; `arg i` is the i-th bound variable.
`sympy.Abs(a, evaluate=False)` is recorded as `app "Abs" a` (the flag does not change the value). -/
inductive LTerm
  | arg (i : Nat)
  | int (n : Int)
  | app (f : String) (a : LTerm)      -- `sympy.<f>(a)`
  | log2 (a b : LTerm)                -- `sympy.log(a, b)` = log a / log b
  | pow (a b : LTerm)                 -- `sympy.Pow(a, b)` or `a ** b`
  | mul (a b : LTerm)
  | div (a b : LTerm)
  | add (a b : LTerm)
  | sub (a b : LTerm)
  | neg (a : LTerm)
deriving DecidableEq, Repr, Inhabited

inductive Entry
  | lam (arity : Nat) (body : LTerm)             -- a `sympy.Lambda`
  | func (name : String)                         -- a sympy function object (`sympy.Abs`)
  | symbol (name : String) (assume : String)     -- `sympy.symbols(name, <assume>=True)`
deriving DecidableEq, Repr, Inhabited

abbrev Table := List (String × Entry)

def Table.find (t : Table) (k : String) : Option Entry :=
  match t with
  | [] => none
  | (k', e) :: rest => if k' = k then some e else Table.find rest k

end ESR.SymTerm
