/-
State the formula-string API (`esr/fitting/fit_single.py`: `fit_from_string`, `string_to_aifeyn`) could carry from one call to
the next in one Python process, and the label list its relabelling / `replace_floats` pass rewrites IN PLACE
(fit_single.py l.153-187 and l.263-297: `labels[j] = ...` inside the loops).

`Model/ToList*.lean` and `Model/SingleFit.lean` model these entry points as pure functions of their arguments.  That is
only the code's behaviour if (i) the string API writes no cell that survives the call (beyond what the labels entry point
it delegates to writes - C16's subject) and (ii) the list it rewrites in place is an object created in this same call.
Both facts are regenerated from the source on every run (Generated/StrApi.lean, harness/extractors/strapi.py, the cell
table of harness/extractors/memstate.py restricted to the two entry points) and decided in Props/C18c.lean.

The second half is a small model of what goes wrong otherwise: a memo from formula to the label list of its tree that
hands back either a copy (`Mode.copy`) or the cached object itself (`Mode.share`).  A Python list object is modelled by
its contents; "rewriting the cached object in place" is "the memo now holds the rewritten contents".
-/
import ESRVerif.Model.MemState

namespace ESR.ApiState

open ESR.MemState (Acc)

/-- one (entry point, cell) pair of the string API.  `acc`: what the entry point does to the cell; `deleg`: what the labels
entry point it hands the labels to (`single_function` / `tree_to_aifeyn`) does to it; `guarded`: every use of the cell in
the string API's own code is a membership test, a store of a freshly built list, or a read that is copied on the spot
(`list(cell[key])`, `cell[key].copy()`, `cell[key][:]`, `copy.copy(..)`) -/
structure CellRow where
  entry : String
  cell : String
  kind : String
  acc : Acc
  deleg : Acc
  guarded : Bool
  deriving Repr, DecidableEq

/-- a list the entry point stores into (`name[j] = ...`) and where every binding of that name comes from -/
structure ListRow where
  entry : String
  name : String
  origin : String
  callLocal : Bool
  deriving Repr, DecidableEq

/-- a carried cell is acceptable when the string API does not change it, or the labels entry point changes it too (not the
string API's own state), or every read of it is copied before any in-place write -/
def CellRow.ok (r : CellRow) : Bool := !r.acc.mutates || r.deleg.mutates || r.guarded

def tableOk (cells : List CellRow) (lists : List ListRow) : Bool :=
  cells.all CellRow.ok && lists.all (·.callLocal) && !lists.isEmpty

/-! ### a memo of parsed formulas that returns a copy, or the cached list itself -/

abbrev Labels := List String
abbrev Key := String
abbrev Memo := Key → Option Labels

inductive Mode where | copy | share
  deriving Repr, DecidableEq

def Memo.empty : Memo := fun _ => none
def Memo.set (m : Memo) (k : Key) (l : Labels) : Memo := fun k' => if k' = k then some l else m k'

/-- one call of the string API on formula `k` with `replace_floats = rf`.
`parse` is string_to_node + to_list (a fresh list per parse), `rewrite rf` the relabelling / float-replacement pass, which
stores into the list it is given.  With `Mode.copy` it is given a copy and the cached list keeps the parse; with
`Mode.share` it is given the cached list, which afterwards holds the rewritten labels. -/
def call (mode : Mode) (parse : Key → Labels) (rewrite : Bool → Labels → Labels) (m : Memo) (k : Key) (rf : Bool) : Labels × Memo :=
  let base := match m k with
    | some l => l
    | none => parse k
  let out := rewrite rf base
  match mode with
  | .copy => (out, m.set k base)
  | .share => (out, m.set k out)

/-- a history of calls in one process: results in order, and the memo left behind -/
def runHist (mode : Mode) (parse : Key → Labels) (rewrite : Bool → Labels → Labels) : Memo → List (Key × Bool) → List Labels × Memo
  | m, [] => ([], m)
  | m, (k, rf) :: rest =>
    let (o, m') := call mode parse rewrite m k rf
    let (os, m'') := runHist mode parse rewrite m' rest
    (o :: os, m'')

/-- the same call as the first call of a fresh process -/
def fresh (parse : Key → Labels) (rewrite : Bool → Labels → Labels) (k : Key) (rf : Bool) : Labels := rewrite rf (parse k)

/-- every cached list still holds the parse of its formula -/
def Memo.clean (parse : Key → Labels) (m : Memo) : Prop := ∀ k l, m k = some l → l = parse k

end ESR.ApiState
