/-
C11, layer 3: the fixed-point driver `find_additional_trees` (esr/generation/generator.py l.1398-1488), modelled
as written over ABSTRACT rewriters and an abstract cross-check oracle.

Python state: three lists `new_tree`, `new_labels`, `try_idx`, always appended together (l.1428-1430, 1435-1437,
1461-1463, 1479-1481) — one `Entry` per index here.  A tree is the Node list `check_tree(s)` builds from a shape `s`
(l.1427, 1434, 1453, 1470), so an entry keeps the shape; the rewriters receive (labels, shape, try_idx) exactly like
the list-level model `UT.updateTree` of `update_tree`.

* `Rewriter`  — `update_tree` / `update_sums` with the basis fixed: returns `UT.Out`
                 (`none` = `(None, None, 0)`; `one L s` = flat lists, nadded = 1; `many cs` = lists of candidates,
                 nadded = their number — `update_sums` returns `([], [], 0)` = `many []` when a sum has no repeated
                 term; `error` = Python raises).
* `Oracle`    — the sympy cross-check of l.1454-1465 / 1471-1483 as a function of (parent entry, candidate):
                 `true` iff `initial_sympify` returns without exception and `len(sym) == 1`.
* `push`      — the de-duplication test `L not in new_labels` (l.1425, 1433, 1451, 1469: LABEL lists are compared,
                 against everything emitted so far including this pass), then the oracle (phase 2 only), then the append
                 with `try_idx = 0`.
* `body`      — one iteration of the `for i in range(old_len)` loops.  Phase 1 (l.1420-1438) always does
                 `try_idx[i] += 1`; phase 2 (l.1446-1486) only `if n <= 1`.
                 A one-element candidate list (`many [c]`, nadded = 1) takes the `n == 1` branch and stores the NESTED
                 list `[L]` as a label list: the next rewriter call receives a list of lists (`update_tree` then raises
                 TypeError — the recorded finding).  The model stops with `nested`; `update_sums` never returns this
                 shape (it unwraps `nadded == 1`, l.1391-1393).
* `forLoop`   — `for i in range(old_len)`: indices `0 … old_len-1` of the GROWING lists.
* `whileLoop` — `old_len = 0; while len(new_tree) != old_len: old_len = len(new_tree); for …` with explicit fuel
                 (`fuel` = out of fuel; the termination theorems of Props/C11b show when it cannot be returned).
* `findAdditional` — phase 1, `try_idx = [0] * len(try_idx)` (l.1441), phase 2, return `new_labels` (with shapes).
No Mathlib.
-/
import ESRVerif.Model.Rewrite
namespace ESR.Rewrite.Drv
open ESR.Rewrite.UT (Out)

abbrev Cand := List String × List Nat

structure Entry where
  labels : List String
  shape : List Nat
  tryIdx : Nat
  deriving Repr, DecidableEq

def Entry.cand (e : Entry) : Cand := (e.labels, e.shape)

abbrev Rewriter := List String → List Nat → Nat → Out
abbrev Oracle := Cand → Cand → Bool

inductive Res (α : Type) where
  | ok (a : α)
  | raises        -- a rewriter raised; the driver does not catch it
  | nested        -- a one-candidate list was stored as a label list (n == 1 branch on a list of lists)
  | fuel          -- the explicit fuel of `whileLoop` ran out
  deriving Repr, DecidableEq

/-- the candidates carried by a rewriter result (same function as `Out.cands` of Proofs/Rewrite.lean) -/
def candsOf : Out → List Cand
  | .one L S => [(L, S)]
  | .many cs => cs
  | .none => []
  | .error => []

/-- `L in new_labels` -/
def hasLabels (st : List Entry) (L : List String) : Bool := st.any (fun e => e.labels == L)

/-- `try_idx[i] += 1` -/
def bump (st : List Entry) (i : Nat) : List Entry := st.modify i (fun e => { e with tryIdx := e.tryIdx + 1 })

/-- `if L not in new_labels: [cross-check;] new_tree.append(t); new_labels.append(L); try_idx.append(0)` -/
def push (keep : Cand → Bool) (st : List Entry) (c : Cand) : List Entry :=
  if hasLabels st c.1 then st else if keep c then st ++ [⟨c.1, c.2, 0⟩] else st

/-- one iteration of the inner `for` loop at index `i`; `ph2 = false`: l.1420-1438, `ph2 = true`: l.1446-1486 -/
def body (ph2 : Bool) (rw : Rewriter) (acc : Oracle) (st : List Entry) (i : Nat) : Res (List Entry) :=
  match st[i]? with
  | none => .raises                      -- IndexError; unreachable (i < old_len ≤ len)
  | some e =>
    let keep : Cand → Bool := fun c => !ph2 || acc e.cand c
    match rw e.labels e.shape e.tryIdx with
    | .error => .raises
    | .none => .ok (bump st i)           -- `s is None`; n = 0 ≤ 1
    | .one L S => .ok (bump (push keep st (L, S)) i)
    | .many cs =>
      if cs.length = 1 then .nested
      else
        let st' := cs.foldl (push keep) st
        .ok (if ph2 && decide (2 ≤ cs.length) then st' else bump st' i)

/-- `for i in range(old_len)`, `n` iterations left, next index `i` -/
def forLoop (ph2 : Bool) (rw : Rewriter) (acc : Oracle) : Nat → Nat → List Entry → Res (List Entry)
  | 0, _, st => .ok st
  | n + 1, i, st =>
    match body ph2 rw acc st i with
    | .ok st' => forLoop ph2 rw acc n (i + 1) st'
    | r => r

/-- `while len(new_tree) != old_len: old_len = len(new_tree); for i in range(old_len): …` -/
def whileLoop (ph2 : Bool) (rw : Rewriter) (acc : Oracle) : Nat → Nat → List Entry → Res (List Entry)
  | 0, _, _ => .fuel
  | f + 1, oldLen, st =>
    if st.length = oldLen then .ok st
    else
      match forLoop ph2 rw acc st.length 0 st with
      | .ok st' => whileLoop ph2 rw acc f st.length st'
      | r => r

/-- l.1441 -/
def resetTry (st : List Entry) : List Entry := st.map (fun e => { e with tryIdx := 0 })

/-- the state after phase 1 -/
def phase1 (rw1 : Rewriter) (acc : Oracle) (fuel : Nat) (inp : Cand) : Res (List Entry) :=
  whileLoop false rw1 acc fuel 0 [⟨inp.1, inp.2, 0⟩]

/-- `find_additional_trees(tree, labels, basis)`: the emitted (labels, shape) pairs in order (index 0 = the input) -/
def findAdditional (rw1 rw2 : Rewriter) (acc : Oracle) (fuel : Nat) (inp : Cand) : Res (List Cand) :=
  match phase1 rw1 acc fuel inp with
  | .ok st1 =>
    match whileLoop true rw2 acc fuel 0 (resetTry st1) with
    | .ok st2 => .ok (st2.map Entry.cand)
    | .raises => .raises
    | .nested => .nested
    | .fuel => .fuel
  | .raises => .raises
  | .nested => .nested
  | .fuel => .fuel

/-- number of passes of a `whileLoop` run that ends normally (for the evidence: compared with the real loop) -/
def passes (ph2 : Bool) (rw : Rewriter) (acc : Oracle) : Nat → Nat → List Entry → Nat
  | 0, _, _ => 0
  | f + 1, oldLen, st =>
    if st.length = oldLen then 0
    else
      match forLoop ph2 rw acc st.length 0 st with
      | .ok st' => 1 + passes ph2 rw acc f st.length st'
      | _ => 1

/-! ### finite scripts (used by the line-protocol driver and by the examples)

A script is a finite universe of labelled trees plus lookup tables: rewriter results by (tree index, try_idx) and
oracle decisions by (parent index, candidate index).  Anything not in a table is `none` / accepted. -/

inductive SOut where
  | none | err
  | one (c : Nat)
  | many (cs : List Nat)
  deriving Repr, DecidableEq

structure Script where
  univ : List Cand
  rw1 : List ((Nat × Nat) × SOut)
  rw2 : List ((Nat × Nat) × SOut)
  reject : List (Nat × Nat)
  deriving Repr

def Script.indexOf (s : Script) (L : List String) (S : List Nat) : Option Nat :=
  s.univ.findIdx? (fun c => c.1 == L && c.2 == S)

def Script.cand (s : Script) (i : Nat) : Cand := s.univ.getD i ([], [])

def Script.rewriter (s : Script) (tab : List ((Nat × Nat) × SOut)) : Rewriter := fun L S k =>
  match s.indexOf L S with
  | none => .error
  | some i =>
    match tab.find? (fun r => r.1 == (i, k)) with
    | none => .none
    | some (_, .none) => .none
    | some (_, .err) => .error
    | some (_, .one c) => .one (s.cand c).1 (s.cand c).2
    | some (_, .many cs) => .many (cs.map s.cand)

def Script.oracle (s : Script) : Oracle := fun p c =>
  match s.indexOf p.1 p.2, s.indexOf c.1 c.2 with
  | some i, some j => !(s.reject.contains (i, j))
  | _, _ => true

def Script.run (s : Script) (fuel : Nat) (root : Nat) : Res (List Cand) :=
  findAdditional (s.rewriter s.rw1) (s.rewriter s.rw2) s.oracle fuel (s.cand root)

end ESR.Rewrite.Drv
