/-
Model of esr/generation/generator.py `node_to_string` (l.387-412): rendering of a labelled tree as a Python
expression string — a nullary label as is, `f(arg)` for a unary node, `(L)op(R)` for the binary operators in the
infix list regenerated from the source (`ESR.Gen.NodeString.infixOps`), `f(L,R)` for every other binary node.
The output is given as tokens of the Python-expression grammar of `ESRVerif.Model.Printer`.
Second part: ESR's operator semantics of a labelled tree (`opSem1`, `opSem2`, `evalTreeWith`), the property's own
definition of the value of a tree, mirroring `harness/oracle_tree.py`; used by `Props/C02b.lean` and the driver op `treeval`.
-/
import ESRVerif.Model.Printer
import ESRVerif.Generated.NodeString
namespace ESR.NodeString
open ESR.Printer

/-- a labelled unary-binary tree; a nullary label is a name (`x`, `a0`) or an integer literal -/
inductive LTree where
  | name (s : String)
  | int (neg : Bool) (n : Nat)
  | un (f : String) (c : LTree)
  | bin (op : String) (l r : LTree)
  deriving Repr, DecidableEq

def binOf : String → Option BinOp
  | "+" => some .add
  | "-" => some .sub
  | "*" => some .mul
  | "/" => some .div
  | _ => none

def opTok : BinOp → Tok
  | .add => .plus | .sub => .minus | .mul => .star | .div => .slash | .pow => .dstar

/-- is the binary label rendered infix?  (`if labels[idx] in ['*', '/', '-', '+']`) -/
def isInfix (op : String) : Option BinOp :=
  if ESR.Gen.NodeString.infixOps.contains op then binOf op else none

/-- tokens of `node_to_string(0, tree, labels)` -/
def toks : LTree → List Tok
  | .name s => [Tok.name s]
  | .int neg n => (if neg then [Tok.minus] else []) ++ [Tok.int n]
  | .un f c => Tok.name f :: Tok.lpar :: toks c ++ [Tok.rpar]
  | .bin op l r =>
    match isInfix op with
    | some b => (Tok.lpar :: toks l ++ [Tok.rpar]) ++ opTok b :: (Tok.lpar :: toks r ++ [Tok.rpar])
    | none => Tok.name op :: Tok.lpar :: toks l ++ Tok.comma :: toks r ++ [Tok.rpar]

/-- the Python expression the string is meant to be -/
def toPy : LTree → PyAst
  | .name s => .name s
  | .int neg n => if neg then .neg (.int n) else .int n
  | .un f c => .call1 f (toPy c)
  | .bin op l r =>
    match isInfix op with
    | some b => .bin b (toPy l) (toPy r)
    | none => .call2 op (toPy l) (toPy r)

def toString (t : LTree) : String := render (toks t)

/-- prefix label list of the tree (what the tree files hold) -/
def labels : LTree → List String
  | .name s => [s]
  | .int neg n => [(if neg then "-" else "") ++ ToString.toString n]
  | .un f c => f :: labels c
  | .bin op l r => op :: (labels l ++ labels r)

/-! ## ESR's operator semantics on labelled trees

The property's own definition of what a tree *means* (hand-written; it mirrors `harness/oracle_tree.py`
`UNARY`/`BINARY`/`evaluate`, the independent evaluator that the check runs against the real code, and is compared
with it on every run through the driver op `treeval`):
`inv u = 1/u`, `square u = u*u`, `cube u = (u*u)*u`, `sqrt_abs u = sqrt u = sqrt|u|`, `log_abs u = log u = log|u|`,
`log10_abs u = log|u| / log 10`, `tenexp u = 10^u`, `exp`, `sin`, `abs u = Abs u = |u|`,
`pow u v = pow_abs u v = |u|^v`, and `+ - * /`.  (`cos`, `tan` of the oracle have no counterpart here: no shipped basis
uses them and the symbol-table evaluator of C12 does not know them either — such a label evaluates to `none`.)
Nullary labels: a name is looked up in the valuation, an integer literal denotes itself.
The number operations are a parameter without laws: `Float` in the driver, a `RealLike` structure (`ℝ`) in the proofs. -/

structure Ops (α : Type) where
  add : α → α → α
  mul : α → α → α
  sub : α → α → α
  div : α → α → α
  rpow : α → α → α
  abs : α → α
  exp : α → α
  log : α → α
  sin : α → α
  sqrt : α → α
  ofInt : Int → α

variable {α : Type}

/-- meaning of a unary label; `none` for a label without ESR semantics -/
def opSem1 (O : Ops α) (f : String) (u : α) : Option α :=
  if f = "inv" then some (O.div (O.ofInt 1) u)
  else if f = "square" then some (O.mul u u)
  else if f = "cube" then some (O.mul (O.mul u u) u)
  else if f = "sqrt_abs" ∨ f = "sqrt" then some (O.sqrt (O.abs u))
  else if f = "log_abs" ∨ f = "log" then some (O.log (O.abs u))
  else if f = "log10_abs" then some (O.div (O.log (O.abs u)) (O.log (O.ofInt 10)))
  else if f = "tenexp" then some (O.rpow (O.ofInt 10) u)
  else if f = "exp" then some (O.exp u)
  else if f = "sin" then some (O.sin u)
  else if f = "abs" ∨ f = "Abs" then some (O.abs u)
  else none

/-- meaning of a binary label; `none` for a label without ESR semantics -/
def opSem2 (O : Ops α) (op : String) (u v : α) : Option α :=
  if op = "+" then some (O.add u v)
  else if op = "*" then some (O.mul u v)
  else if op = "-" then some (O.sub u v)
  else if op = "/" then some (O.div u v)
  else if op = "pow" ∨ op = "pow_abs" then some (O.rpow (O.abs u) v)
  else none

/-- the integer an `LTree.int` leaf denotes -/
def litInt (neg : Bool) (n : Nat) : Int := if neg then -(n : Int) else (n : Int)

/-- value of a labelled tree at a valuation of its names (`oracle_tree.evaluate`) -/
def evalTreeWith (O : Ops α) : LTree → (String → α) → Option α
  | .name s, ρ => some (ρ s)
  | .int neg n, _ => some (O.ofInt (litInt neg n))
  | .un f c, ρ => (evalTreeWith O c ρ).bind fun u => opSem1 O f u
  | .bin op l r, ρ => (evalTreeWith O l ρ).bind fun u => (evalTreeWith O r ρ).bind fun v => opSem2 O op u v

end ESR.NodeString
