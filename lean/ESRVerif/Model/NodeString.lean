/-
Model of esr/generation/generator.py `node_to_string` (l.387-412): rendering of a labelled tree as a Python
expression string — a nullary label as is, `f(arg)` for a unary node, `(L)op(R)` for the binary operators in the
infix list regenerated from the source (`ESR.Gen.NodeString.infixOps`), `f(L,R)` for every other binary node.
The output is given as tokens of the Python-expression grammar of `ESRVerif.Model.Printer`.
-/
import ESRVerif.Model.Printer
import ESRVerif.Generated.NodeString
namespace ESR.NodeString
open ESR.Printer

/-- a labelled unary-binary tree; a nullary label is a name (`x`, `a0`) or an integer literal -/
inductive LTree where
  | name (s : String)
  | int (neg : Bool) (n : Nat)
  | un (f : String) (c : LTree)
  | bin (op : String) (l r : LTree)
  deriving Repr, DecidableEq

def binOf : String → Option BinOp
  | "+" => some .add
  | "-" => some .sub
  | "*" => some .mul
  | "/" => some .div
  | _ => none

def opTok : BinOp → Tok
  | .add => .plus | .sub => .minus | .mul => .star | .div => .slash | .pow => .dstar

/-- is the binary label rendered infix?  (`if labels[idx] in ['*', '/', '-', '+']`) -/
def isInfix (op : String) : Option BinOp :=
  if ESR.Gen.NodeString.infixOps.contains op then binOf op else none

/-- tokens of `node_to_string(0, tree, labels)` -/
def toks : LTree → List Tok
  | .name s => [Tok.name s]
  | .int neg n => (if neg then [Tok.minus] else []) ++ [Tok.int n]
  | .un f c => Tok.name f :: Tok.lpar :: toks c ++ [Tok.rpar]
  | .bin op l r =>
    match isInfix op with
    | some b => (Tok.lpar :: toks l ++ [Tok.rpar]) ++ opTok b :: (Tok.lpar :: toks r ++ [Tok.rpar])
    | none => Tok.name op :: Tok.lpar :: toks l ++ Tok.comma :: toks r ++ [Tok.rpar]

/-- the Python expression the string is meant to be -/
def toPy : LTree → PyAst
  | .name s => .name s
  | .int neg n => if neg then .neg (.int n) else .int n
  | .un f c => .call1 f (toPy c)
  | .bin op l r =>
    match isInfix op with
    | some b => .bin b (toPy l) (toPy r)
    | none => .call2 op (toPy l) (toPy r)

def toString (t : LTree) : String := render (toks t)

/-- prefix label list of the tree (what the tree files hold) -/
def labels : LTree → List String
  | .name s => [s]
  | .int neg n => [(if neg then "-" else "") ++ ToString.toString n]
  | .un f c => f :: labels c
  | .bin op l r => op :: (labels l ++ labels r)

end ESR.NodeString
