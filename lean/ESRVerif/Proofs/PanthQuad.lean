import ESRVerif.Proofs.Panth
import Mathlib.MeasureTheory.Integral.IntervalIntegral.TrapezoidalRule
/-!
Helper lemmas for C19b: the quadrature error of the composite trapezoid sum on a NON-uniform sorted set of nodes, from
Mathlib's one-interval bound `trapezoidal_error_le_of_c2` (N = 1 on every interval of the nodes, then summed), and the
maximal step of the grid that `ESR.Panth.grid` builds.
-/
namespace ESR.Panth
open MeasureTheory Set Finset Interval

/-! ### one interval -/

/-- On a sub-interval the second derivative within the big interval is the second derivative within the sub-interval. -/
theorem iteratedDerivWithin_two_Icc_sub {G : ℝ → ℝ} {a b p q : ℝ} (hpq : p < q) (hsub : Icc p q ⊆ Icc a b)
    (h_df : DifferentiableOn ℝ G (Icc a b)) (h_ddf : DifferentiableOn ℝ (derivWithin G (Icc a b)) (Icc a b)) :
    EqOn (iteratedDerivWithin 2 G (Icc a b)) (iteratedDerivWithin 2 G (Icc p q)) (Icc p q) := by
  have h5 : EqOn (derivWithin G (Icc a b)) (derivWithin G (Icc p q)) (Icc p q) := by
    intro x hx
    rw [← derivWithin_subset hsub (uniqueDiffOn_Icc hpq x hx) (h_df x (hsub hx))]
  intro x hx
  simp only [iteratedDerivWithin_succ', iteratedDerivWithin_zero]
  rw [← derivWithin_subset hsub (uniqueDiffOn_Icc hpq x hx) (h_ddf x (hsub hx))]
  exact derivWithin_congr h5 (h5 hx)

/-- One trapezoid on `[p, q] ⊆ [a, b]`, `G` of class C² on `[a, b]`, `|G''| ≤ ζ` on `[p, q]`:
`|½ (G p + G q) (q − p) − ∫ₚ^q G| ≤ ζ (q − p)³ / 12`. -/
theorem trap_one_error_le {G : ℝ → ℝ} {a b p q ζ : ℝ} (hpq : p ≤ q) (hsub : Icc p q ⊆ Icc a b)
    (hC : ContDiffOn ℝ 2 G (Icc a b))
    (hζ : ∀ t ∈ Icc p q, |iteratedDerivWithin 2 G (Icc a b) t| ≤ ζ) :
    |1 / 2 * (G p + G q) * (q - p) - ∫ t in p..q, G t| ≤ ζ / 12 * (q - p) ^ 3 := by
  rcases hpq.eq_or_lt with rfl | hlt
  · simp
  have hab : a < b := by
    have h1 := (hsub (left_mem_Icc.mpr hpq)).1
    have h2 := (hsub (right_mem_Icc.mpr hpq)).2
    linarith
  have h_df : DifferentiableOn ℝ G (Icc a b) := hC.differentiableOn two_ne_zero
  have h_ddf : DifferentiableOn ℝ (derivWithin G (Icc a b)) (Icc a b) := by
    rw [← iteratedDerivWithin_one]
    exact hC.differentiableOn_iteratedDerivWithin (by norm_cast) (uniqueDiffOn_Icc hab)
  have heq := iteratedDerivWithin_two_Icc_sub hlt hsub h_df h_ddf
  have hζ0 : 0 ≤ ζ := (abs_nonneg _).trans (hζ p (left_mem_Icc.mpr hpq))
  have hu : [[p, q]] = Icc p q := uIcc_of_le hpq
  have hbound : ∀ x, |iteratedDerivWithin 2 G [[p, q]] x| ≤ ζ := by
    intro x
    rw [hu]
    by_cases hx : x ∈ Icc p q
    · rw [← heq hx]; exact hζ x hx
    · rw [iteratedDerivWithin_succ, derivWithin_zero_of_notMem_closure (by rwa [closure_Icc]), abs_zero]
      exact hζ0
  have hC' : ContDiffOn ℝ 2 G [[p, q]] := by rw [hu]; exact hC.mono hsub
  have key := trapezoidal_error_le_of_c2 hC' hbound (N := 1) Nat.one_pos
  rw [trapezoidal_error, trapezoidal_integral_one, abs_of_pos (sub_pos.mpr hlt)] at key
  calc |1 / 2 * (G p + G q) * (q - p) - ∫ t in p..q, G t|
      = |(q - p) / 2 * (G p + G q) - ∫ x in p..q, G x| := by congr 2; ring
    _ ≤ (q - p) ^ 3 * ζ / (12 * ((1 : ℕ) : ℝ) ^ 2) := key
    _ = ζ / 12 * (q - p) ^ 3 := by simp; ring

/-! ### the composite sum on arbitrary sorted nodes -/

theorem nodes_mono {x : ℕ → ℝ} {n : ℕ} (hmono : ∀ k < n, x k ≤ x (k + 1)) :
    ∀ i j, i ≤ j → j ≤ n → x i ≤ x j := by
  intro i j hij
  induction j, hij using Nat.le_induction with
  | base => intro _; exact le_rfl
  | succ j hij ih =>
    intro hj
    exact (ih (by omega)).trans (hmono j (by omega))

/-- Composite trapezoid sum on sorted nodes `x 0 ≤ … ≤ x n` inside `[a, b]`, `G` of class C² on `[a, b]`, with a bound
`ζ k` of `|G''|` on the `k`-th interval:  `|Σ ½ (G xₖ + G xₖ₊₁)(xₖ₊₁ − xₖ) − ∫ G| ≤ Σ ζₖ (xₖ₊₁ − xₖ)³ / 12`. -/
theorem sum_trap_error_le (G : ℝ → ℝ) (x : ℕ → ℝ) (n : ℕ) (a b : ℝ) (ζ : ℕ → ℝ)
    (hC : ContDiffOn ℝ 2 G (Icc a b)) (hmono : ∀ k < n, x k ≤ x (k + 1)) (ha : a ≤ x 0) (hb : x n ≤ b)
    (hζ : ∀ k < n, ∀ t ∈ Icc (x k) (x (k + 1)), |iteratedDerivWithin 2 G (Icc a b) t| ≤ ζ k) :
    |∑ k ∈ range n, 1 / 2 * (G (x k) + G (x (k + 1))) * (x (k + 1) - x k) - ∫ t in x 0..x n, G t| ≤
      ∑ k ∈ range n, ζ k / 12 * (x (k + 1) - x k) ^ 3 := by
  have hm := nodes_mono hmono
  have hsub : ∀ k < n, Icc (x k) (x (k + 1)) ⊆ Icc a b := by
    intro k hk
    exact Icc_subset_Icc (ha.trans (hm 0 k (Nat.zero_le _) hk.le)) ((hm (k + 1) n hk le_rfl).trans hb)
  have hint : ∀ k < n, IntervalIntegrable G volume (x k) (x (k + 1)) := by
    intro k hk
    exact ((hC.continuousOn).mono (hsub k hk)).intervalIntegrable_of_Icc (hmono k hk)
  rw [← intervalIntegral.sum_integral_adjacent_intervals hint, ← Finset.sum_sub_distrib]
  refine (Finset.abs_sum_le_sum_abs _ _).trans (Finset.sum_le_sum ?_)
  intro k hk
  have hk' := Finset.mem_range.mp hk
  exact trap_one_error_le (hmono k hk') (hsub k hk') hC (hζ k hk')

/-- One bound `ζ` of `|G''|` on the hull of the nodes:  error `≤ ζ / 12 · Σ |xₖ₊₁ − xₖ|³`. -/
theorem sum_trap_error_le_uniform (G : ℝ → ℝ) (x : ℕ → ℝ) (n : ℕ) (a b ζ : ℝ)
    (hC : ContDiffOn ℝ 2 G (Icc a b)) (hmono : ∀ k < n, x k ≤ x (k + 1)) (ha : a ≤ x 0) (hb : x n ≤ b)
    (hζ : ∀ t ∈ Icc a b, |iteratedDerivWithin 2 G (Icc a b) t| ≤ ζ) :
    |∑ k ∈ range n, 1 / 2 * (G (x k) + G (x (k + 1))) * (x (k + 1) - x k) - ∫ t in x 0..x n, G t| ≤
      ζ / 12 * ∑ k ∈ range n, |x (k + 1) - x k| ^ 3 := by
  have hm := nodes_mono hmono
  have := sum_trap_error_le G x n a b (fun _ => ζ) hC hmono ha hb (by
    intro k hk t ht
    exact hζ t ⟨(ha.trans (hm 0 k (Nat.zero_le _) hk.le)).trans ht.1, (ht.2.trans (hm (k + 1) n hk le_rfl)).trans hb⟩)
  refine this.trans_eq ?_
  rw [Finset.mul_sum]
  apply Finset.sum_congr rfl
  intro k hk
  rw [abs_of_nonneg (sub_nonneg.mpr (hmono k (Finset.mem_range.mp hk)))]

/-- `Σ |xₖ₊₁ − xₖ|³ ≤ h² (xₙ − x₀)` for sorted nodes with steps `≤ h`. -/
theorem sum_cube_steps_le (x : ℕ → ℝ) (n : ℕ) (h : ℝ) (hmono : ∀ k < n, x k ≤ x (k + 1))
    (hstep : ∀ k < n, x (k + 1) - x k ≤ h) :
    ∑ k ∈ range n, |x (k + 1) - x k| ^ 3 ≤ h ^ 2 * (x n - x 0) := by
  have h1 : ∀ k ∈ range n, |x (k + 1) - x k| ^ 3 ≤ h ^ 2 * (x (k + 1) - x k) := by
    intro k hk
    have hk' := Finset.mem_range.mp hk
    have h0 : 0 ≤ x (k + 1) - x k := sub_nonneg.mpr (hmono k hk')
    rw [abs_of_nonneg h0]
    have h2 : (x (k + 1) - x k) ^ 2 ≤ h ^ 2 := pow_le_pow_left₀ h0 (hstep k hk') 2
    calc (x (k + 1) - x k) ^ 3 = (x (k + 1) - x k) ^ 2 * (x (k + 1) - x k) := by ring
      _ ≤ h ^ 2 * (x (k + 1) - x k) := mul_le_mul_of_nonneg_right h2 h0
  refine (Finset.sum_le_sum h1).trans_eq ?_
  rw [← Finset.mul_sum, Finset.sum_range_sub]

/-! ### the same with the ordinary second derivative (`G` twice continuously differentiable AT every point of the hull) -/

/-- Where `G` is C² at every point of `[p, q]`, the second derivative within `[p, q]` is `deriv (deriv G)`. -/
theorem iteratedDerivWithin_two_eq_deriv_deriv {G : ℝ → ℝ} {p q t : ℝ} (hpq : p < q) (ht : t ∈ Icc p q)
    (hC : ContDiffAt ℝ 2 G t) : iteratedDerivWithin 2 G (Icc p q) t = deriv (deriv G) t := by
  rw [iteratedDerivWithin_eq_iteratedDeriv (uniqueDiffOn_Icc hpq) hC ht, iteratedDeriv_succ, iteratedDeriv_one]

theorem trap_one_error_le_deriv {G : ℝ → ℝ} {p q ζ : ℝ} (hpq : p ≤ q)
    (hC : ∀ t ∈ Icc p q, ContDiffAt ℝ 2 G t) (hζ : ∀ t ∈ Icc p q, |deriv (deriv G) t| ≤ ζ) :
    |1 / 2 * (G p + G q) * (q - p) - ∫ t in p..q, G t| ≤ ζ / 12 * (q - p) ^ 3 := by
  rcases hpq.eq_or_lt with rfl | hlt
  · simp
  refine trap_one_error_le hpq subset_rfl (fun t ht => (hC t ht).contDiffWithinAt) ?_
  intro t ht
  rw [iteratedDerivWithin_two_eq_deriv_deriv hlt ht (hC t ht)]
  exact hζ t ht

/-- Composite trapezoid sum on sorted nodes, `G` C² at every point of every interval, `|G''| ≤ ζ k` on the `k`-th. -/
theorem sum_trap_error_le_deriv (G : ℝ → ℝ) (x : ℕ → ℝ) (n : ℕ) (ζ : ℕ → ℝ)
    (hmono : ∀ k < n, x k ≤ x (k + 1))
    (hC : ∀ k < n, ∀ t ∈ Icc (x k) (x (k + 1)), ContDiffAt ℝ 2 G t)
    (hζ : ∀ k < n, ∀ t ∈ Icc (x k) (x (k + 1)), |deriv (deriv G) t| ≤ ζ k) :
    |∑ k ∈ range n, 1 / 2 * (G (x k) + G (x (k + 1))) * (x (k + 1) - x k) - ∫ t in x 0..x n, G t| ≤
      ∑ k ∈ range n, ζ k / 12 * |x (k + 1) - x k| ^ 3 := by
  have hint : ∀ k < n, IntervalIntegrable G volume (x k) (x (k + 1)) := by
    intro k hk
    have hc : ContinuousOn G (Icc (x k) (x (k + 1))) := fun t ht => (hC k hk t ht).continuousAt.continuousWithinAt
    exact hc.intervalIntegrable_of_Icc (hmono k hk)
  rw [← intervalIntegral.sum_integral_adjacent_intervals hint, ← Finset.sum_sub_distrib]
  refine (Finset.abs_sum_le_sum_abs _ _).trans (Finset.sum_le_sum ?_)
  intro k hk
  have hk' := Finset.mem_range.mp hk
  rw [abs_of_nonneg (sub_nonneg.mpr (hmono k hk'))]
  exact trap_one_error_le_deriv (hmono k hk') (hC k hk') (hζ k hk')

/-! ### the maximal step of the grid -/

theorem pairwise_getD_lt {g : List ℝ} (hs : g.Pairwise (· < ·)) {i j : ℕ} (hij : i < j) (hj : j < g.length) :
    g.getD i 0 < g.getD j 0 := by
  have hi : i < g.length := by omega
  rw [List.getD_eq_getElem?_getD, List.getD_eq_getElem?_getD, List.getElem?_eq_getElem hi, List.getElem?_eq_getElem hj]
  simp only [Option.getD_some]
  exact List.pairwise_iff_getElem.mp hs i j hi hj hij

/-- In a strictly increasing list, the successor of `g j` is the least element above `g j`. -/
theorem next_le_of_mem {g : List ℝ} (hs : g.Pairwise (· < ·)) {j : ℕ} (hj : j + 1 < g.length) {y : ℝ} (hy : y ∈ g)
    (hlt : g.getD j 0 < y) : g.getD (j + 1) 0 ≤ y := by
  obtain ⟨l, hl, rfl⟩ := List.getElem_of_mem hy
  have e : g[l] = g.getD l 0 := by simp [List.getD_eq_getElem?_getD, List.getElem?_eq_getElem hl]
  rw [e] at hlt ⊢
  rcases Nat.lt_or_ge j l with h | h
  · rcases Nat.eq_or_lt_of_le (Nat.succ_le_of_lt h) with e' | e'
    · rw [← e']
    · exact (pairwise_getD_lt hs e' hl).le
  · rcases Nat.eq_or_lt_of_le h with e' | e'
    · subst e'; exact absurd hlt (lt_irrefl _)
    · exact absurd (pairwise_getD_lt hs e' (by omega)) (not_lt.mpr hlt.le)

/-- `numpy.linspace(start, stop, m+2)` leaves no gap longer than its step: above every `x ∈ [start, stop)` there is a
point within one step. -/
theorem linspace_cover (start stop : ℝ) (m : ℕ) (x : ℝ) (h1 : start ≤ x) (h2 : x < stop) :
    ∃ y ∈ linspace start stop (m + 2), x < y ∧ y ≤ x + (stop - start) / ((m + 1 : ℕ) : ℝ) := by
  have hm : (0 : ℝ) < ((m + 1 : ℕ) : ℝ) := by positivity
  have hspos : 0 < (stop - start) / ((m + 1 : ℕ) : ℝ) := div_pos (by linarith) hm
  have hstop : stop = ((m + 1 : ℕ) : ℝ) * ((stop - start) / ((m + 1 : ℕ) : ℝ)) + start := by
    rw [mul_div_cancel₀ _ hm.ne']; ring
  have hL1 : ∀ i : ℕ, i < m + 1 →
      ((i : ℕ) : ℝ) * ((stop - start) / ((m + 1 : ℕ) : ℝ)) + start ∈ linspace start stop (m + 2) := by
    intro i hi
    simp only [linspace, List.mem_append, List.mem_map, List.mem_range]
    exact Or.inl ⟨i, hi, rfl⟩
  have hL2 : stop ∈ linspace start stop (m + 2) := by simp [linspace]
  generalize linspace start stop (m + 2) = L at hL1 hL2 ⊢
  generalize (stop - start) / ((m + 1 : ℕ) : ℝ) = s at hspos hstop hL1 ⊢
  have hi1 : ((⌊(x - start) / s⌋₊ : ℕ) : ℝ) * s ≤ x - start :=
    (le_div_iff₀ hspos).mp (Nat.floor_le (div_nonneg (sub_nonneg.mpr h1) hspos.le))
  have hi2 : x - start < (((⌊(x - start) / s⌋₊ : ℕ) : ℝ) + 1) * s :=
    (div_lt_iff₀ hspos).mp (Nat.lt_floor_add_one ((x - start) / s))
  generalize ⌊(x - start) / s⌋₊ = i at hi1 hi2
  by_cases hc : i + 1 < m + 1
  · refine ⟨((i + 1 : ℕ) : ℝ) * s + start, ?_, ?_, ?_⟩
    · exact hL1 (i + 1) hc
    · push_cast; linarith
    · push_cast; linarith
  · refine ⟨stop, hL2, h2, ?_⟩
    have h3 : ((m + 1 : ℕ) : ℝ) ≤ (i : ℝ) + 1 := by exact_mod_cast (by omega : m + 1 ≤ i + 1)
    have h4 := mul_le_mul_of_nonneg_right h3 hspos.le
    rw [hstop]; linarith

/-- The points of the grid (as `ESR.C19.grid_points`, here for the step bound). -/
theorem grid_mem_iff {c : Cfg ℝ} {zp1 g : List ℝ} (h : grid c zp1 = some g) :
    ∃ lo hi nx, minL zp1 = some lo ∧ maxL zp1 = some hi ∧ c.ceilNat ((hi - lo) / c.deltaZ) = some nx ∧
      ∀ x, x ∈ g ↔ x ∈ linspace c.start lo c.minNz ∨ x ∈ linspace (lo + c.deltaZ) (hi + c.deltaZ) nx ∨ x ∈ zp1 := by
  obtain ⟨r, hr, rfl⟩ := grid_spec h
  unfold rawGrid at hr
  split at hr
  · rename_i lo hi hlo hhi
    split at hr
    · rename_i nx hnx
      refine ⟨lo, hi, nx, hlo, hhi, hnx, fun x => ?_⟩
      have : r = linspace c.start lo c.minNz ++ linspace (lo + c.deltaZ) (hi + c.deltaZ) nx ++ zp1 := by simpa using hr.symm
      rw [mem_sortUnique, this]
      simp
    · simp at hr
  · simp at hr

/-- Above every grid point below the largest data point there is another grid point within
`max ((lo − start)/(min_nz − 1)) (2 delta_z)`:  the first `linspace` has step `(lo − start)/(min_nz − 1)`, the second
one has step `(hi − lo)/(nx − 1) ≤ 2 delta_z` because `nx ≥ (hi − lo)/delta_z` (this, `x ≤ ⌈x⌉`, is all that is used of
`int(np.ceil(·))`), and the two are `delta_z` apart. -/
theorem grid_cover (c : Cfg ℝ) (zp1 g : List ℝ) (lo hi : ℝ) (hg : grid c zp1 = some g)
    (hlo : minL zp1 = some lo) (hhi : maxL zp1 = some hi)
    (hz : ∀ z ∈ zp1, c.start ≤ z) (hdz : 0 < c.deltaZ) (hn : 2 ≤ c.minNz)
    (hceil : ∀ x n, c.ceilNat x = some n → x ≤ n) :
    ∀ x ∈ g, x < hi →
      ∃ y ∈ g, x < y ∧ y ≤ x + max ((lo - c.start) / ((c.minNz - 1 : ℕ) : ℝ)) (2 * c.deltaZ) := by
  obtain ⟨lo', hi', nx, hlo', hhi', hnx, hmem⟩ := grid_mem_iff hg
  rw [hlo] at hlo'; rw [hhi] at hhi'
  cases hlo'; cases hhi'
  obtain ⟨hlo1, hlo2⟩ := minL_spec hlo
  obtain ⟨hhi1, hhi2⟩ := maxL_spec hhi
  have hslo : c.start ≤ lo := hz lo hlo1
  have hlohi : lo ≤ hi := hlo2 hi hhi1
  have hnxle := hceil _ _ hnx
  intro x hx hxhi
  -- every grid point is ≥ start
  have hxs : c.start ≤ x := by
    rcases (hmem x).mp hx with h | h | h
    · exact linspace_ge _ _ _ hslo x h
    · have h1 : lo + c.deltaZ ≤ hi + c.deltaZ := by linarith
      have h2 := linspace_ge _ _ _ h1 x h
      linarith
    · exact hz x h
  by_cases hxlo : x < lo
  · -- first linspace
    obtain ⟨m, hm⟩ : ∃ m, c.minNz = m + 2 := ⟨c.minNz - 2, by omega⟩
    obtain ⟨y, hy, hy1, hy2⟩ := linspace_cover c.start lo m x hxs hxlo
    refine ⟨y, (hmem y).mpr (Or.inl (hm ▸ hy)), hy1, hy2.trans ?_⟩
    have : c.minNz - 1 = m + 1 := by omega
    rw [this]
    exact add_le_add_right (le_max_left _ _) _
  · have hxlo' : lo ≤ x := not_lt.mp hxlo
    have hpos : 0 < (hi - lo) / c.deltaZ := div_pos (by linarith) hdz
    by_cases hx2 : x < lo + c.deltaZ
    · have hnx1 : 1 ≤ nx := by
        have : (0 : ℝ) < (nx : ℝ) := lt_of_lt_of_le hpos hnxle
        exact_mod_cast this
      refine ⟨lo + c.deltaZ, (hmem _).mpr (Or.inr (Or.inl (start_mem_linspace _ _ _ hnx1))), hx2, ?_⟩
      have : 2 * c.deltaZ ≤ max ((lo - c.start) / ((c.minNz - 1 : ℕ) : ℝ)) (2 * c.deltaZ) := le_max_right _ _
      linarith
    · have hx2' : lo + c.deltaZ ≤ x := not_lt.mp hx2
      have h1 : 1 < (hi - lo) / c.deltaZ := by
        rw [lt_div_iff₀ hdz]; linarith
      have hnx2 : 2 ≤ nx := by
        have : (1 : ℝ) < (nx : ℝ) := lt_of_lt_of_le h1 hnxle
        have : 1 < nx := by exact_mod_cast this
        omega
      obtain ⟨m, hm⟩ : ∃ m, nx = m + 2 := ⟨nx - 2, by omega⟩
      subst hm
      obtain ⟨y, hy, hy1, hy2⟩ := linspace_cover (lo + c.deltaZ) (hi + c.deltaZ) m x hx2' (by linarith)
      refine ⟨y, (hmem y).mpr (Or.inr (Or.inl hy)), hy1, hy2.trans ?_⟩
      have hm1 : (0 : ℝ) < ((m + 1 : ℕ) : ℝ) := by positivity
      have hstep : (hi + c.deltaZ - (lo + c.deltaZ)) / ((m + 1 : ℕ) : ℝ) ≤ 2 * c.deltaZ := by
        rw [div_le_iff₀ hm1]
        have h3 : hi - lo ≤ ((m + 2 : ℕ) : ℝ) * c.deltaZ := (div_le_iff₀ hdz).mp hnxle
        have h4 : ((m + 2 : ℕ) : ℝ) ≤ 2 * ((m + 1 : ℕ) : ℝ) := by push_cast; linarith [(Nat.cast_nonneg m : (0:ℝ) ≤ m)]
        have h5 := mul_le_mul_of_nonneg_right h4 hdz.le
        linarith
      have : 2 * c.deltaZ ≤ max ((lo - c.start) / ((c.minNz - 1 : ℕ) : ℝ)) (2 * c.deltaZ) := le_max_right _ _
      linarith

/-- Every step of the grid up to the largest data point is at most `max ((lo − start)/(min_nz − 1)) (2 delta_z)`. -/
theorem grid_step_le (c : Cfg ℝ) (zp1 g : List ℝ) (lo hi : ℝ) (hg : grid c zp1 = some g)
    (hlo : minL zp1 = some lo) (hhi : maxL zp1 = some hi)
    (hz : ∀ z ∈ zp1, c.start ≤ z) (hdz : 0 < c.deltaZ) (hn : 2 ≤ c.minNz)
    (hceil : ∀ x n, c.ceilNat x = some n → x ≤ n) (j : ℕ) (hj : j + 1 < g.length) (hle : g.getD (j + 1) 0 ≤ hi) :
    g.getD (j + 1) 0 - g.getD j 0 ≤ max ((lo - c.start) / ((c.minNz - 1 : ℕ) : ℝ)) (2 * c.deltaZ) := by
  obtain ⟨r, _, hr⟩ := grid_spec hg
  have hs : g.Pairwise (· < ·) := hr ▸ pairwise_sortUnique r
  have hlt := pairwise_getD_lt hs (Nat.lt_succ_self j) hj
  have hmemj : g.getD j 0 ∈ g := by
    have hj0 : j < g.length := by omega
    rw [List.getD_eq_getElem?_getD, List.getElem?_eq_getElem hj0, Option.getD_some]
    exact List.getElem_mem hj0
  obtain ⟨y, hy, hy1, hy2⟩ := grid_cover c zp1 g lo hi hg hlo hhi hz hdz hn hceil _ hmemj (lt_of_lt_of_le hlt hle)
  have := next_le_of_mem hs hj hy hy1
  linarith

/-! ### a concrete real configuration for the non-vacuity examples of C19b -/

/-- `int(np.ceil(x))` over ℝ. -/
noncomputable def ceilR (x : ℝ) : Option Nat := some ⌈x⌉.toNat

theorem ceilR_ge : ∀ (x : ℝ) (n : ℕ), ceilR x = some n → x ≤ n := by
  intro x n h
  simp only [ceilR, Option.some.injEq] at h
  subst h
  have h1 : x ≤ (⌈x⌉ : ℝ) := Int.le_ceil x
  have h2 : (⌈x⌉ : ℝ) ≤ ((⌈x⌉.toNat : ℕ) : ℝ) := by
    have : ⌈x⌉ ≤ ((⌈x⌉.toNat : ℕ) : ℤ) := Int.self_le_toNat _
    exact_mod_cast this
  exact h1.trans h2

/-- The shipped constants over ℝ with the real ceiling; `sqrt` replaced by `x ↦ 1/x` (so that `F t = t²` gives the
integrand `G t = t²`, whose second derivative is the constant 2) and `log10` by the identity. -/
noncomputable def cR : Cfg ℝ := Cfg.shipped ceilR (fun x => 1 / x) id

theorem cR_integrand : (fun t : ℝ => 1 / cR.sqrt ((fun x => x ^ 2) t)) = fun t => t ^ 2 := by
  funext t
  simp [cR, Cfg.shipped]

theorem deriv_deriv_sq : deriv (deriv (fun t : ℝ => t ^ 2)) = fun _ => 2 := by
  have h1 : deriv (fun t : ℝ => t ^ 2) = fun t => 2 * t := by
    funext t
    simp
  rw [h1]
  funext t
  rw [deriv_const_mul _ differentiableAt_id]
  simp

end ESR.Panth
