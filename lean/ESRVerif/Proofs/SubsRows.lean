import ESRVerif.Model.SubsRows
import ESRVerif.Proofs.Subs
/-!
Helper lemmas for C17c (`Props/C17c.lean`): a cell run through a well-formed sequence of in-place writes is `loadCell`.
-/
namespace ESR.SubsRows
open ESR.Subs
open ESR.Gen.Subs (RowStmt RowConversion Restore)

theorem quote_split (L : List (List Char × List Char)) (n : Nat) (s : List Char) :
    quoteWith (L.drop n) (quoteWith (L.take n) s) = quoteWith L s := by
  unfold quoteWith
  rw [← List.foldl_append, List.take_append_drop]

theorem runStmts_wf (stmts : List RowStmt) (h : wf stmts = true) (d : Nat) (s : List Char) :
    runStmts stmts (.text d s) = (convertQuoted (quoteWith (ESR.Subs.replaceSeq.drop d) s)).map .val := by
  induction stmts generalizing d s with
  | nil => simp [wf] at h
  | cons st rest ih =>
    cases st with
    | replace n =>
      have hr : wf rest = true := by simpa [wf] using h
      simp only [runStmts, step]
      rw [ih hr]
      have := quote_split (ESR.Subs.replaceSeq.drop d) n s
      rw [List.drop_drop] at this
      rw [Nat.add_comm] at this ⊢
      first
        | rw [this]
        | (rw [Nat.add_comm] at this; rw [this])
    | convert =>
      cases rest with
      | nil =>
        simp only [runStmts, step]
        cases convertQuoted (quoteWith (ESR.Subs.replaceSeq.drop d) s) <;> simp
      | cons st2 rest2 =>
        cases st2 <;> cases rest2 <;> simp [wf] at h
        simp only [runStmts, step]
        cases convertQuoted (quoteWith (ESR.Subs.replaceSeq.drop d) s) <;> simp [runStmts, step]
    | stringify => simp [wf] at h

/-- a cell run through all in-place writes is what `loadCell` (the model of the existing round-trip theorems) reads -/
theorem runCell_eq_loadCell (stmts : List RowStmt) (h : wf stmts = true) (s : List Char) :
    runStmts stmts (.text 0 s) = (loadCell s).map .val := by
  rw [runStmts_wf stmts h 0 s]
  rfl

theorem optMap_runCell (stmts : List RowStmt) (h : wf stmts = true) (row : List Entry)
    (hg : ∀ e ∈ row, GoodEntry e) :
    optMap (runStmts stmts) (rawRow (row.map dumpEntry)) = some (row.map .val) := by
  induction row with
  | nil => simp [rawRow, optMap]
  | cons e es ih =>
    have he : loadCell (dumpEntry e) = some e := loadCell_dump e (hg e (by simp))
    have ih' := ih (fun x hx => hg x (by simp [hx]))
    simp only [rawRow, List.map_cons, List.map_map] at ih' ⊢
    simp [optMap, runCell_eq_loadCell stmts h, he, ih']

end ESR.SubsRows
