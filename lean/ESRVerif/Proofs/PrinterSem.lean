import ESRVerif.Proofs.PrinterPhrase
import ESRVerif.Model.SymTerm
/-!
C12 helper: meaning of expressions and of Python ASTs under a symbol table, over an abstract structure of
real-number operations with the laws the round trip needs.  Core Lean only in this file; every law is proved for
`ℝ` (Mathlib's operations, total-function conventions `x / 0 = 0`) in `Proofs/PrinterReal.lean` from the lemmas
`mul_comm, mul_assoc, one_mul, sub_eq_add_neg, div_eq_mul_inv, neg_mul, neg_neg, mul_inv, inv_one, Int.cast_neg,
zpow_neg, zpow_one, Real.rpow_neg (0 ≤ x), abs_of_nonneg, Real.sqrt_eq_rpow`.
-/
namespace ESR.Printer
open ESR.SymTerm

class RealLike (α : Type) where
  add : α → α → α
  mul : α → α → α
  sub : α → α → α
  div : α → α → α
  rpow : α → α → α
  neg : α → α
  inv : α → α
  abs : α → α
  exp : α → α
  log : α → α
  sin : α → α
  sqrt : α → α
  ipow : α → Int → α
  ofInt : Int → α
  ofFlt : String → α
  nonneg : α → Prop
  mul_comm : ∀ a b, mul a b = mul b a
  mul_assoc : ∀ a b c, mul (mul a b) c = mul a (mul b c)
  one_mul : ∀ a, mul (ofInt 1) a = a
  sub_eq : ∀ a b, sub a b = add a (neg b)
  div_eq : ∀ a b, div a b = mul a (inv b)
  neg_mul : ∀ a b, mul (neg a) b = neg (mul a b)
  neg_neg : ∀ a, neg (neg a) = a
  inv_mul : ∀ a b, inv (mul a b) = mul (inv a) (inv b)
  inv_one : inv (ofInt 1) = ofInt 1
  ofInt_neg : ∀ n, ofInt (-n) = neg (ofInt n)
  ipow_neg : ∀ a n, ipow a (-n) = inv (ipow a n)
  ipow_one : ∀ a, ipow a 1 = a
  rpow_neg : ∀ a y, nonneg a → rpow a (neg y) = inv (rpow a y)
  abs_of_nonneg : ∀ a, nonneg a → abs a = a
  sqrt_eq_rpow : ∀ a, nonneg a → sqrt a = rpow a (div (ofInt 1) (ofInt 2))

open RealLike

variable {α : Type} [RealLike α]

instance : Std.Commutative (α := α) RealLike.mul := ⟨RealLike.mul_comm⟩
instance : Std.Associative (α := α) RealLike.mul := ⟨RealLike.mul_assoc⟩

theorem one_mul_nat (a : α) : mul (ofInt ((1 : Nat) : Int)) a = a := one_mul a
theorem mul_one' (a : α) : mul a (ofInt 1) = a := by rw [mul_comm, one_mul]
theorem neg_div' (a b : α) : div (neg a) b = neg (div a b) := by simp only [div_eq, neg_mul]
theorem mul_neg' (a b : α) : mul a (neg b) = neg (mul a b) := by rw [mul_comm, neg_mul, mul_comm]

/-! ### value of an expression -/

def evalNum : Num → α
  | .int n => ofInt n
  | .rat p q => div (ofInt p) (ofInt (q : Int))
  | .flt neg m => if neg then RealLike.neg (ofFlt m) else ofFlt m

def evalFn : Fn → α → α
  | .Abs => abs | .exp => exp | .log => log | .sin => sin

/-- sympy's `Pow`: an Integer exponent is an integer power, anything else the real power -/
def powS (e : SExpr) (vb ve : α) : α :=
  match e with
  | .num (.int n) => ipow vb n
  | _ => rpow vb ve

def sumL : List α → α
  | [] => ofInt 0
  | a :: as => as.foldl add a

mutual
def evalS (ρ : String → α) : SExpr → α
  | .num n => evalNum n
  | .sym s => ρ s
  | .fn f a => evalFn f (evalS ρ a)
  | .pow b e => powS e (evalS ρ b) (evalS ρ e)
  | .add ts => sumL (evalSL ρ ts)
  | .mul c fs => (evalSL ρ fs).foldl mul (evalNum c)
def evalSL (ρ : String → α) : List SExpr → List α
  | [] => []
  | t :: ts => evalS ρ t :: evalSL ρ ts
end

theorem evalSL_eq_map (ρ : String → α) (ts : List SExpr) : evalSL ρ ts = ts.map (evalS ρ) := by
  induction ts with
  | nil => simp [evalSL]
  | cons t ts ih => simp [evalSL, ih]

/-! ### value of a Python AST under a symbol table -/

/-- functions sympify finds in sympy's own namespace -/
def builtin (f : String) (args : List α) : Option α :=
  match args with
  | [v] =>
    if f = "Abs" then some (abs v) else if f = "exp" then some (exp v) else if f = "log" then some (log v)
    else if f = "sin" then some (sin v) else if f = "sqrt" then some (sqrt v) else none
  | _ => none

def evalL (args : List α) : LTerm → Option α
  | .arg i => args[i]?
  | .int n => some (ofInt n)
  | .app f a => (evalL args a).bind fun v => builtin f [v]
  | .log2 a b => (evalL args a).bind fun v => (evalL args b).bind fun w => some (div (log v) (log w))
  | .pow a b =>
    match b with
    | .int n => (evalL args a).map fun v => ipow v n
    | _ => (evalL args a).bind fun v => (evalL args b).bind fun w => some (rpow v w)
  | .mul a b => (evalL args a).bind fun v => (evalL args b).bind fun w => some (mul v w)
  | .div a b => (evalL args a).bind fun v => (evalL args b).bind fun w => some (div v w)
  | .add a b => (evalL args a).bind fun v => (evalL args b).bind fun w => some (add v w)
  | .sub a b => (evalL args a).bind fun v => (evalL args b).bind fun w => some (sub v w)
  | .neg a => (evalL args a).map neg

/-- `f(args)` as sympify evaluates it: the table entry if there is one, else sympy's function of that name -/
def applyFn (tbl : Table) (f : String) (args : List α) : Option α :=
  match tbl.find f with
  | some (.lam n body) => if args.length = n then evalL args body else none
  | some (.func g) => builtin g args
  | some (.symbol _ _) => none
  | none => builtin f args

/-- a name in value position denotes a variable unless the table binds it to a function -/
def symOK (tbl : Table) (s : String) : Bool :=
  match tbl.find s with
  | some (.lam _ _) => false
  | some (.func _) => false
  | _ => true

/-- `-2` and `2` in exponent position are Integer literals for sympify -/
def asIntLit : PyAst → Option Int
  | .int n => some (n : Int)
  | .neg (.int n) => some (-(n : Int))
  | _ => none

def evalBin (op : BinOp) (v w : α) : α :=
  match op with
  | .add => add v w | .sub => sub v w | .mul => mul v w | .div => div v w | .pow => rpow v w

def evalPy (tbl : Table) (ρ : String → α) : PyAst → Option α
  | .name s => if symOK tbl s then some (ρ s) else none
  | .int n => some (ofInt (n : Int))
  | .flt s => some (ofFlt s)
  | .neg a => (evalPy tbl ρ a).map neg
  | .pos a => evalPy tbl ρ a
  | .bin op l r =>
    match op, asIntLit r with
    | .pow, some z => (evalPy tbl ρ l).map fun v => ipow v z
    | _, _ => (evalPy tbl ρ l).bind fun v => (evalPy tbl ρ r).bind fun w => some (evalBin op v w)
  | .call1 f a => (evalPy tbl ρ a).bind fun v => applyFn tbl f [v]
  | .call2 f a b => (evalPy tbl ρ a).bind fun v => (evalPy tbl ρ b).bind fun w => applyFn tbl f [v, w]

/-- what the round trip needs from a symbol table: which of `log`, `sqrt` wrap their argument in `Abs`
(`pow` always does) -/
structure TableSpec (tbl : Table) (wrapLog wrapSqrt : Bool) : Prop where
  abs_ok : ∀ (α : Type) [RealLike α] (v : α), applyFn tbl "Abs" [v] = some (abs v)
  exp_ok : ∀ (α : Type) [RealLike α] (v : α), applyFn tbl "exp" [v] = some (exp v)
  sin_ok : ∀ (α : Type) [RealLike α] (v : α), applyFn tbl "sin" [v] = some (sin v)
  log_ok : ∀ (α : Type) [RealLike α] (v : α), applyFn tbl "log" [v] = some (log (if wrapLog then abs v else v))
  sqrt_ok : ∀ (α : Type) [RealLike α] (v : α), applyFn tbl "sqrt" [v] = some (sqrt (if wrapSqrt then abs v else v))
  pow_ok : ∀ (α : Type) [RealLike α] (v w : α), applyFn tbl "pow" [v, w] = some (rpow (abs v) w)

/-! ### side conditions of the property: "real-valued expression of the kind ESR produces" -/

mutual
/-- symbols are not names of table functions; bases of non-integer powers are non-negative; if the table's `log`
wraps `Abs`, arguments of `log` are non-negative -/
def Adm (tbl : Table) (wrapLog : Bool) (ρ : String → α) : SExpr → Prop
  | .num _ => True
  | .sym s => symOK tbl s = true
  | .fn f a => Adm tbl wrapLog ρ a ∧ (f = .log → wrapLog = true → nonneg (evalS ρ a))
  | .pow b e => Adm tbl wrapLog ρ b ∧ Adm tbl wrapLog ρ e ∧ (isIntegerLit e = false → nonneg (evalS ρ b))
  | .add ts => AdmL tbl wrapLog ρ ts
  | .mul _ fs => AdmL tbl wrapLog ρ fs
def AdmL (tbl : Table) (wrapLog : Bool) (ρ : String → α) : List SExpr → Prop
  | [] => True
  | t :: ts => Adm tbl wrapLog ρ t ∧ AdmL tbl wrapLog ρ ts
end

theorem AdmL_iff (tbl : Table) (w : Bool) (ρ : String → α) (ts : List SExpr) :
    AdmL tbl w ρ ts ↔ ∀ t ∈ ts, Adm tbl w ρ t := by
  induction ts with
  | nil => simp [AdmL]
  | cons a as ih => simp [AdmL, ih]

end ESR.Printer

namespace ESR.Printer
open ESR.SymTerm RealLike
variable {α : Type} [RealLike α]

/-! ### products -/

def prodAll : List α → α
  | [] => ofInt 1
  | x :: xs => mul x (prodAll xs)

theorem prodAll_append (xs ys : List α) : prodAll (xs ++ ys) = mul (prodAll xs) (prodAll ys) := by
  induction xs with
  | nil => simp [prodAll, one_mul]
  | cons x xs ih => simp [prodAll, ih, mul_assoc]

theorem foldl_mul (a : α) (xs : List α) : xs.foldl mul a = mul a (prodAll xs) := by
  induction xs generalizing a with
  | nil => simp [prodAll, mul_one']
  | cons x xs ih => simp [prodAll, ih, mul_assoc]

theorem inv_prod2 (a b c d : α) : mul (mul a (inv b)) (mul c (inv d)) = mul (mul a c) (inv (mul b d)) := by
  rw [inv_mul]; ac_rfl

/-! ### `stripNeg` -/

theorem evalPy_bin_mul (tbl : Table) (ρ : String → α) (l r : PyAst) :
    evalPy tbl ρ (.bin .mul l r) = (evalPy tbl ρ l).bind fun v => (evalPy tbl ρ r).bind fun w => some (mul v w) := by
  simp [evalPy, evalBin]
theorem evalPy_bin_div (tbl : Table) (ρ : String → α) (l r : PyAst) :
    evalPy tbl ρ (.bin .div l r) = (evalPy tbl ρ l).bind fun v => (evalPy tbl ρ r).bind fun w => some (div v w) := by
  simp [evalPy, evalBin]
theorem evalPy_bin_add (tbl : Table) (ρ : String → α) (l r : PyAst) :
    evalPy tbl ρ (.bin .add l r) = (evalPy tbl ρ l).bind fun v => (evalPy tbl ρ r).bind fun w => some (add v w) := by
  simp [evalPy, evalBin]
theorem evalPy_bin_sub (tbl : Table) (ρ : String → α) (l r : PyAst) :
    evalPy tbl ρ (.bin .sub l r) = (evalPy tbl ρ l).bind fun v => (evalPy tbl ρ r).bind fun w => some (sub v w) := by
  simp [evalPy, evalBin]

theorem stripNeg_eval (tbl : Table) (ρ : String → α) :
    ∀ (w b : PyAst) (v : α), stripNeg w = some b → evalPy tbl ρ w = some v →
      ∃ vb, evalPy tbl ρ b = some vb ∧ v = neg vb := by
  intro w
  induction w with
  | neg a =>
    intro b v hs he
    simp only [stripNeg, Option.some.injEq] at hs
    subst hs
    simp only [evalPy, Option.map_eq_some_iff] at he
    obtain ⟨va, h1, h2⟩ := he
    exact ⟨va, h1, h2.symm⟩
  | bin op l r ihl _ =>
    intro b v hs he
    cases op with
    | mul =>
      simp only [stripNeg, Option.map_eq_some_iff] at hs
      obtain ⟨l', hl, rfl⟩ := hs
      rw [evalPy_bin_mul] at he
      simp only [Option.bind_eq_some_iff, Option.some.injEq] at he
      obtain ⟨vl, h1, vr, h2, rfl⟩ := he
      obtain ⟨vl', h3, rfl⟩ := ihl l' vl hl h1
      exact ⟨mul vl' vr, by simp [evalPy_bin_mul, h3, h2], by rw [neg_mul]⟩
    | div =>
      simp only [stripNeg, Option.map_eq_some_iff] at hs
      obtain ⟨l', hl, rfl⟩ := hs
      rw [evalPy_bin_div] at he
      simp only [Option.bind_eq_some_iff, Option.some.injEq] at he
      obtain ⟨vl, h1, vr, h2, rfl⟩ := he
      obtain ⟨vl', h3, rfl⟩ := ihl l' vl hl h1
      exact ⟨div vl' vr, by simp [evalPy_bin_div, h3, h2], by rw [neg_div']⟩
    | add => simp [stripNeg] at hs
    | sub => simp [stripNeg] at hs
    | pow => simp [stripNeg] at hs
  | _ => intro b v hs; simp [stripNeg] at hs

/-! ### numbers -/

theorem evalPy_intInt (tbl : Table) (ρ : String → α) (n : Int) : evalPy tbl ρ (intInt n) = some (ofInt n) := by
  unfold intInt
  split
  · rename_i h
    simp only [evalPy, Option.map_some, Option.some.injEq]
    rw [← ofInt_neg]
    congr 1
    omega
  · rename_i h
    simp only [evalPy, Option.some.injEq]
    congr 1
    omega

theorem asIntLit_intInt (n : Int) : asIntLit (intInt n) = some n := by
  unfold intInt
  split
  · simp only [asIntLit, Option.some.injEq]; omega
  · simp only [asIntLit, Option.some.injEq]; omega

theorem sound_num (tbl : Table) (ρ : String → α) (n : Num) (hc : n.canon = true) :
    evalPy tbl ρ (intendedNum n) = some (evalNum n) := by
  cases n with
  | int n => simp [intendedNum, evalNum, evalPy_intInt]
  | rat p q =>
    have hq : q ≠ 1 := by simp [Num.canon] at hc; omega
    simp [intendedNum, evalNum, hq, evalPy_bin_div, evalPy_intInt, evalPy]
  | flt s m => cases s <;> simp [intendedNum, evalNum, evalPy]

end ESR.Printer

namespace ESR.Printer
open ESR.SymTerm RealLike
variable {α : Type} [RealLike α]

/-- the claim for one expression -/
def Sound (tbl : Table) (ρ : String → α) (e : SExpr) : Prop :=
  evalPy tbl ρ (intended e) = some (evalS ρ e)

/-! ### functions and powers -/

theorem sound_fn {tbl : Table} {wl ws : Bool} (T : TableSpec tbl wl ws) (ρ : String → α) (f : Fn) (a : SExpr)
    (ha : Sound tbl ρ a) (hlog : f = .log → wl = true → nonneg (evalS ρ a)) : Sound tbl ρ (.fn f a) := by
  unfold Sound at *
  simp only [intended_fn, evalPy, ha, Option.bind_some, evalS]
  cases f with
  | Abs => simpa [Fn.name, evalFn] using T.abs_ok α _
  | exp => simpa [Fn.name, evalFn] using T.exp_ok α _
  | sin => simpa [Fn.name, evalFn] using T.sin_ok α _
  | log =>
    have := T.log_ok α (evalS ρ a)
    cases wl with
    | false => simpa [Fn.name, evalFn] using this
    | true =>
      rw [show Fn.log.name = "log" from rfl, this]
      simp [evalFn, abs_of_nonneg _ (hlog rfl rfl)]

theorem isIntegerLit_false_of_half {e : SExpr} (h : isHalfE e = true) : isIntegerLit e = false := by
  cases e with
  | num n => cases n <;> simp_all [isHalfE, Num.isHalf, isIntegerLit]
  | _ => simp [isHalfE] at h

theorem isIntegerLit_false_of_negHalf {e : SExpr} (h : isNegHalfE e = true) : isIntegerLit e = false := by
  cases e with
  | num n => cases n <;> simp_all [isNegHalfE, Num.isNegHalf, isIntegerLit]
  | _ => simp [isNegHalfE] at h

theorem eq_of_isHalfE {e : SExpr} (h : isHalfE e = true) : e = .num (.rat 1 2) := by
  cases e with
  | num n =>
    simp only [isHalfE] at h
    unfold Num.isHalf at h
    split at h <;> simp_all
  | _ => simp [isHalfE] at h

theorem eq_of_isNegHalfE {e : SExpr} (h : isNegHalfE e = true) : e = .num (.rat (-1) 2) := by
  cases e with
  | num n =>
    simp only [isNegHalfE] at h
    unfold Num.isNegHalf at h
    split at h <;> simp_all
  | _ => simp [isNegHalfE] at h

theorem eq_of_isNegOneE {e : SExpr} (h : isNegOneE e = true) : e = .num (.int (-1)) := by
  cases e with
  | num n =>
    simp only [isNegOneE] at h
    unfold Num.isNegOne at h
    split at h <;> simp_all
  | _ => simp [isNegOneE] at h

theorem powS_of_not_int {e : SExpr} (h : isIntegerLit e = false) (vb ve : α) : powS e vb ve = rpow vb ve := by
  unfold powS
  split
  · simp [isIntegerLit] at h
  · rfl

theorem sound_pow {tbl : Table} {wl ws : Bool} (T : TableSpec tbl wl ws) (ρ : String → α) (b e : SExpr)
    (hb : Sound tbl ρ b) (he : Sound tbl ρ e) (hn : isIntegerLit e = false → nonneg (evalS ρ b)) :
    Sound tbl ρ (.pow b e) := by
  unfold Sound at *
  simp only [intended_pow, evalS]
  unfold intendedPowWith
  have sqrtv : ∀ (_ : nonneg (evalS ρ b)), applyFn tbl "sqrt" [evalS ρ b] = some (sqrt (evalS ρ b)) := by
    intro hnn
    rw [T.sqrt_ok α]
    cases ws <;> simp [abs_of_nonneg _ hnn]
  by_cases h1 : isHalfE e = true
  · have hnn := hn (isIntegerLit_false_of_half h1)
    simp only [h1, if_true, evalPy, hb, Option.bind_some, sqrtv hnn]
    rw [eq_of_isHalfE h1]
    simp [powS, evalS, evalNum, sqrt_eq_rpow _ hnn]
  · simp only [h1, Bool.false_eq_true, if_false]
    by_cases h2 : isNegHalfE e = true
    · have hnn := hn (isIntegerLit_false_of_negHalf h2)
      simp only [h2, if_true]
      rw [evalPy_bin_div]
      simp only [evalPy, hb, Option.bind_some, sqrtv hnn]
      rw [eq_of_isNegHalfE h2]
      simp only [powS, evalS, evalNum, Option.some.injEq]
      have : (div (ofInt (-1)) (ofInt ((2 : Nat) : Int)) : α) = neg (div (ofInt 1) (ofInt 2)) := by
        rw [ofInt_neg, neg_div']; rfl
      rw [this, rpow_neg _ _ hnn, div_eq, one_mul_nat, sqrt_eq_rpow _ hnn]
    · simp only [h2, Bool.false_eq_true, if_false]
      by_cases h3 : isNegOneE e = true
      · simp only [h3, if_true]
        rw [evalPy_bin_div]
        simp only [evalPy, hb, Option.bind_some]
        rw [eq_of_isNegOneE h3]
        simp only [powS, Option.some.injEq]
        rw [ipow_neg, ipow_one, div_eq, one_mul_nat]
      · simp only [h3, Bool.false_eq_true, if_false]
        by_cases h4 : isIntegerLit e = true
        · simp only [h4, if_true]
          cases e with
          | num n =>
            cases n with
            | int k =>
              simp only [intended_num, intendedNum, evalPy, asIntLit_intInt, hb, Option.map_some, powS]
            | rat p q => simp [isIntegerLit] at h4
            | flt s m => simp [isIntegerLit] at h4
          | _ => simp [isIntegerLit] at h4
        · have h4' : isIntegerLit e = false := by simpa using h4
          have hnn := hn h4'
          simp only [h4, Bool.false_eq_true, if_false, evalPy, hb, he, Option.bind_some, T.pow_ok α, abs_of_nonneg _ hnn,
            powS_of_not_int h4']

/-! ### sums -/

theorem sound_add_tail (tbl : Table) (ρ : String → α) (rest : List SExpr) (hr : ∀ t ∈ rest, Sound tbl ρ t) :
    ∀ (acc : PyAst) (va : α), evalPy tbl ρ acc = some va →
      evalPy tbl ρ ((rest.map fun t => addPieceAst (startsMinus (pr t)) (intended t)).foldl
          (fun acc p => .bin (if p.1 then .sub else .add) acc p.2.2) acc)
        = some ((rest.map (evalS ρ)).foldl add va) := by
  induction rest with
  | nil => intro acc va h; simpa using h
  | cons t ts ih =>
    intro acc va h
    have ht : evalPy tbl ρ (intended t) = some (evalS ρ t) := hr t (by simp)
    simp only [List.map_cons, List.foldl_cons]
    apply ih (fun u hu => hr u (by simp [hu]))
    unfold addPieceAst
    split
    · rename_i body hsn hst
      obtain ⟨vb, h1, h2⟩ := stripNeg_eval tbl ρ _ _ _ hst ht
      simp only [if_true]
      rw [evalPy_bin_sub, h, h1]
      simp [sub_eq, h2]
    · simp only [Bool.false_eq_true, if_false]
      rw [evalPy_bin_add, h, ht]
      simp

theorem sound_add (tbl : Table) (ρ : String → α) (t : SExpr) (ts : List SExpr)
    (h : ∀ u ∈ t :: ts, Sound tbl ρ u) : Sound tbl ρ (.add (t :: ts)) := by
  unfold Sound
  simp only [intended_add, List.map_cons, intendedAdd, evalS, evalSL, sumL, evalSL_eq_map]
  have ht : evalPy tbl ρ (intended t) = some (evalS ρ t) := h t (by simp)
  have hw : (addPieceAst (startsMinus (pr t)) (intended t)).2.1 = intended t := by
    unfold addPieceAst; split <;> rfl
  have := sound_add_tail tbl ρ ts (fun u hu => h u (by simp [hu])) _ _ ht
  rw [← hw] at this
  exact this

end ESR.Printer

namespace ESR.Printer
open ESR.SymTerm RealLike
variable {α : Type} [RealLike α]

/-! ### products: values -/

theorem evalNum_neg (n : Num) : (evalNum n.neg : α) = neg (evalNum n) := by
  cases n with
  | int k => simp [Num.neg, evalNum, ofInt_neg]
  | rat p q => simp [Num.neg, evalNum, ofInt_neg, neg_div']
  | flt s m => cases s <;> simp [Num.neg, evalNum, neg_neg]

theorem evalS_mul (ρ : String → α) (c : Num) (fs : List SExpr) :
    evalS ρ (.mul c fs) = mul (evalNum c) (prodAll (fs.map (evalS ρ))) := by
  simp [evalS, evalSL_eq_map, foldl_mul]

theorem evalNum_negOne {c : Num} (h : c.isNegOne = true) : (evalNum c : α) = neg (ofInt 1) := by
  unfold Num.isNegOne at h
  split at h
  · simp [evalNum, ← ofInt_neg]
  · simp at h

theorem evalNum_one {c : Num} (h : c.isOne = true) : (evalNum c : α) = ofInt 1 := by
  unfold Num.isOne at h
  split at h
  · simp [evalNum]
  · simp at h

theorem negExp_eval (ρ : String → α) {ex : SExpr} (hc : canonical ex = true) (hn : coeffNeg ex = true) :
    evalS ρ (negExp ex) = neg (evalS ρ ex) := by
  cases ex with
  | num n => simp [negExp, evalS, evalNum_neg]
  | mul c fs =>
    obtain ⟨hne, _, _, _⟩ := canonical_mul hc
    simp only [negExp, evalS_mul]
    split
    · rename_i h1
      rw [evalNum_negOne h1, neg_mul, neg_neg, one_mul]
      match fs, hne with
      | [f], _ => simp [mulFromArgs, prodAll, mul_one']
      | f :: g :: r, _ => simp [mulFromArgs, evalS_mul, evalNum, one_mul]
    · match fs, hne with
      | f :: r, _ => simp [mulFromArgsC, evalS_mul, evalNum_neg, neg_mul]
  | _ => simp [coeffNeg] at hn

theorem negExp_isInt {ex : SExpr} (hc : canonical ex = true) (hn : coeffNeg ex = true) :
    isIntegerLit (negExp ex) = isIntegerLit ex := by
  cases ex with
  | num n => cases n <;> simp [negExp, Num.neg, isIntegerLit]
  | mul c fs =>
    obtain ⟨hne, hok, _, _⟩ := canonical_mul hc
    simp only [negExp]
    split
    · match fs, hne with
      | [f], _ =>
        have := hok f (by simp)
        cases f <;> simp_all [mulFromArgs, factorOk, isIntegerLit]
      | f :: g :: r, _ => simp [mulFromArgs, isIntegerLit]
    · match fs, hne with
      | f :: r, _ => simp [mulFromArgsC, isIntegerLit]
  | _ => simp [coeffNeg] at hn

theorem Adm_negExp {tbl : Table} {w : Bool} (ρ : String → α) {ex : SExpr} (ha : Adm tbl w ρ ex) :
    Adm tbl w ρ (negExp ex) := by
  cases ex with
  | num n => simp [negExp, Adm]
  | mul c fs =>
    simp only [Adm, AdmL_iff] at ha
    simp only [negExp]
    split
    · match fs with
      | [] => simp [mulFromArgs, Adm]
      | [f] => simpa [mulFromArgs] using ha f (by simp)
      | f :: g :: r => simpa [mulFromArgs, Adm, AdmL_iff] using ha
    · match fs with
      | [] => simp [mulFromArgsC, Adm]
      | f :: r => simpa [mulFromArgsC, Adm, AdmL_iff] using ha
  | _ => simpa [negExp] using ha

/-- value of one factor in terms of what `classify` puts into numerator and denominator -/
def SplitVal (ρ : String → α) (y : SExpr) : Prop :=
  evalS ρ y = mul (prodAll ((classify y).a.map (evalS ρ))) (inv (prodAll ((classify y).b.map (evalS ρ))))

theorem splitVal_plain (ρ : String → α) (y : SExpr) (h : classify y = { a := [y] }) : SplitVal ρ y := by
  unfold SplitVal
  rw [h]
  simp [prodAll, inv_one, mul_one']

theorem splitVal_factor {tbl : Table} {w : Bool} (ρ : String → α) (neg : Bool) (f : SExpr)
    (hc : canonical f = true) (hf : factorOk neg f = true) (ha : Adm tbl w ρ f) : SplitVal ρ f := by
  cases f with
  | num n => simp [factorOk] at hf
  | sym s => exact splitVal_plain ρ _ (by simp [classify])
  | fn g a => exact splitVal_plain ρ _ (by simp [classify])
  | add ts => exact splitVal_plain ρ _ (by simp [classify])
  | mul c' fs' => exact splitVal_plain ρ _ (by simp [classify])
  | pow base ex =>
    obtain ⟨hcb, hce⟩ := canonical_pow hc
    by_cases hn : coeffNeg ex = true
    · simp only [factorOk, hn, if_true] at hf
      by_cases h1 : isNegOneE ex = true
      · unfold SplitVal
        simp only [classify, hn, h1, if_true, List.map_nil, List.map_cons, prodAll, evalS]
        rw [eq_of_isNegOneE h1]
        simp only [powS]
        rw [ipow_neg, ipow_one, one_mul, mul_one']
      · simp only [h1, Bool.false_eq_true, if_false, Bool.not_eq_true'] at hf
        unfold SplitVal
        simp only [classify, hn, h1, hf, Bool.false_eq_true, if_true, if_false, List.map_nil, List.map_cons, prodAll,
          evalS, one_mul, mul_one']
        simp only [Adm] at ha
        by_cases hi : isIntegerLit ex = true
        · -- integer exponent n < 0: b**n = 1 / b**(-n)
          cases ex with
          | num n =>
            cases n with
            | int k =>
              simp only [negExp, Num.neg, powS]
              rw [show k = -(-k) by omega, ipow_neg]
              simp
            | rat p q => simp [isIntegerLit] at hi
            | flt s m => simp [isIntegerLit] at hi
          | _ => simp [isIntegerLit] at hi
        · have hi' : isIntegerLit ex = false := by simpa using hi
          have hnn := ha.2.2 hi'
          rw [powS_of_not_int hi', powS_of_not_int (by rw [negExp_isInt hce hn]; exact hi'), negExp_eval ρ hce hn]
          have := rpow_neg (evalS ρ base) (RealLike.neg (evalS ρ ex)) hnn
          rw [neg_neg] at this
          exact this
    · exact splitVal_plain ρ _ (by simp [classify, hn])

theorem splitVal_coeff (ρ : String → α) (c : Num) : SplitVal ρ (.num c) := by
  cases c with
  | int n =>
    unfold SplitVal
    simp only [classify, ratParts]
    by_cases h : n = 1
    · simp [h, prodAll, evalS, evalNum, inv_one, mul_one']
    · simp [h, prodAll, evalS, evalNum, inv_one, mul_one']
  | rat p q =>
    unfold SplitVal
    simp only [classify, ratParts, evalS, evalNum, div_eq]
    by_cases h : p = 1 <;> by_cases h' : q = 1 <;>
      simp [h, h', prodAll, inv_one, mul_one', one_mul, one_mul_nat, evalS, evalNum]
  | flt s m => exact splitVal_plain ρ _ (by simp [classify])

theorem classifyAll_value (ρ : String → α) (xs : List SExpr) (h : ∀ y ∈ xs, SplitVal ρ y) :
    prodAll (xs.map (evalS ρ)) =
      mul (prodAll ((classifyAll xs).a.map (evalS ρ))) (inv (prodAll ((classifyAll xs).b.map (evalS ρ)))) := by
  induction xs with
  | nil => simp [classifyAll, prodAll, inv_one, mul_one']
  | cons y ys ih =>
    have hy : SplitVal ρ y := h y (by simp)
    have ih' := ih (fun z hz => h z (by simp [hz]))
    simp only [List.map_cons, prodAll, classifyAll, MulParts.append, List.map_append, prodAll_append]
    rw [ih', hy, inv_prod2]

end ESR.Printer

namespace ESR.Printer
open ESR.SymTerm RealLike
variable {α : Type} [RealLike α]

/-! ### products: value of the assembled AST -/

theorem foldBin_mul_eval (tbl : Table) (ρ : String → α) (xs : List SExpr) (hx : ∀ x ∈ xs, Sound tbl ρ x) :
    ∀ (acc : PyAst) (v : α), evalPy tbl ρ acc = some v →
      evalPy tbl ρ (foldBin .mul acc (xs.map intended)) = some (mul v (prodAll (xs.map (evalS ρ)))) := by
  induction xs with
  | nil => intro acc v h; simpa [foldBin, prodAll, mul_one'] using h
  | cons x xs ih =>
    intro acc v h
    have hx' : evalPy tbl ρ (intended x) = some (evalS ρ x) := hx x (by simp)
    simp only [List.map_cons, foldBin, prodAll]
    rw [ih (fun y hy => hx y (by simp [hy])) _ (mul v (evalS ρ x)) (by simp [evalPy_bin_mul, h, hx']), mul_assoc]

def sgn (s : Bool) (v : α) : α := if s then neg v else v

theorem sgn_mul (s : Bool) (a b : α) : mul (sgn s a) b = sgn s (mul a b) := by
  cases s <;> simp [sgn, neg_mul]

theorem numer_value (tbl : Table) (ρ : String → α) (sign : Bool) (as : List SExpr)
    (ha : ∀ x ∈ as, Sound tbl ρ x) :
    evalPy tbl ρ (intendedNumer sign (as.map intended)) = some (sgn sign (prodAll (as.map (evalS ρ)))) := by
  cases as with
  | nil => cases sign <;> simp [intendedNumer, evalPy, sgn, prodAll]
  | cons x xs =>
    have hx : evalPy tbl ρ (intended x) = some (evalS ρ x) := ha x (by simp)
    simp only [List.map_cons, intendedNumer, prodAll]
    rw [foldBin_mul_eval tbl ρ xs (fun y hy => ha y (by simp [hy])) _ (sgn sign (evalS ρ x))
      (by cases sign <;> simp [sgn, evalPy, hx]), sgn_mul]

theorem assemble_value (tbl : Table) (ρ : String → α) (sign : Bool) (as bs : List SExpr)
    (ha : ∀ x ∈ as, Sound tbl ρ x) (hb : ∀ x ∈ bs, Sound tbl ρ x) :
    evalPy tbl ρ (intendedMulAssemble sign (as.map intended) (bs.map intended)) =
      some (sgn sign (mul (prodAll (as.map (evalS ρ))) (inv (prodAll (bs.map (evalS ρ)))))) := by
  have hNv := numer_value tbl ρ sign as ha
  unfold intendedMulAssemble
  match bs with
  | [] => simp [hNv, prodAll, inv_one, mul_one']
  | [d] =>
    have hd : evalPy tbl ρ (intended d) = some (evalS ρ d) := hb d (by simp)
    simp [evalPy_bin_div, hNv, hd, prodAll, mul_one', div_eq, sgn_mul]
  | d :: d' :: ds =>
    have hd : evalPy tbl ρ (intended d) = some (evalS ρ d) := hb d (by simp)
    have := foldBin_mul_eval tbl ρ (d' :: ds) (fun y hy => hb y (List.mem_cons_of_mem _ hy)) _ _ hd
    simp only [List.map_cons] at this ⊢
    rw [evalPy_bin_div, hNv, this]
    simp [prodAll, div_eq, sgn_mul]

theorem sound_mul {tbl : Table} {w : Bool} (ρ : String → α) (c : Num) (fs : List SExpr)
    (hc : canonical (.mul c fs) = true) (hadm : Adm tbl w ρ (.mul c fs))
    (ha : ∀ x ∈ (mulParts c fs).a, Sound tbl ρ x) (hb : ∀ x ∈ (mulParts c fs).b, Sound tbl ρ x) :
    Sound tbl ρ (.mul c fs) := by
  obtain ⟨_, hok, hcan, _⟩ := canonical_mul hc
  simp only [Adm, AdmL_iff] at hadm
  unfold Sound
  rw [intended_mul, assemble_value tbl ρ c.isNeg _ _ ha hb, evalS_mul]
  -- the product over the factors the loop saw
  have hsplit : ∀ y ∈ mulArgs c fs, SplitVal ρ y := by
    intro y hy
    simp only [mulArgs] at hy
    generalize (if c.isNeg then c.neg else c) = c' at hy
    split at hy
    · exact splitVal_factor ρ c.isNeg y (hcan y hy) (hok y hy) (hadm y hy)
    · rcases List.mem_cons.mp hy with rfl | hy
      · exact splitVal_coeff ρ c'
      · exact splitVal_factor ρ c.isNeg y (hcan y hy) (hok y hy) (hadm y hy)
  have hval := classifyAll_value ρ (mulArgs c fs) hsplit
  rw [show classifyAll (mulArgs c fs) = mulParts c fs from rfl] at hval
  rw [← hval]
  -- relate the coefficient
  have hargs : prodAll ((mulArgs c fs).map (evalS ρ)) =
      mul (evalNum (if c.isNeg then c.neg else c)) (prodAll (fs.map (evalS ρ))) := by
    simp only [mulArgs]
    generalize (if c.isNeg then c.neg else c) = c'
    split
    · rename_i h1; rw [evalNum_one h1, one_mul]
    · simp [prodAll, evalS]
  rw [hargs]
  cases hcn : c.isNeg with
  | true =>
    simp only [if_true, sgn, evalNum_neg, neg_mul, neg_neg]
  | false => simp [sgn]

/-! ### the theorem -/

theorem Adm_classify {tbl : Table} {w : Bool} (ρ : String → α) (neg : Bool) (y : SExpr)
    (hc : canonical y = true) (hf : factorOk neg y = true) (hy : Adm tbl w ρ y) :
    (∀ x ∈ (classify y).a, Adm tbl w ρ x) ∧ (∀ x ∈ (classify y).b, Adm tbl w ρ x) := by
  cases y with
  | pow base ex =>
    obtain ⟨_, hce⟩ := canonical_pow hc
    have hy' := hy
    simp only [Adm] at hy'
    simp only [classify]
    by_cases hn : coeffNeg ex = true
    · simp only [hn, if_true]
      simp only [factorOk, hn, if_true] at hf
      by_cases h1 : isNegOneE ex = true
      · simp [h1, hy'.1]
      · simp only [h1, Bool.false_eq_true, if_false, Bool.not_eq_true'] at hf
        simp only [h1, hf, Bool.false_eq_true, if_false, List.mem_singleton, List.not_mem_nil, forall_eq,
          false_imp_iff, implies_true, true_and]
        simp only [Adm]
        exact ⟨hy'.1, Adm_negExp ρ hy'.2.1, fun hi => hy'.2.2 (by rwa [negExp_isInt hce hn] at hi)⟩
    · simp only [hn, Bool.false_eq_true, if_false, List.mem_singleton, List.not_mem_nil, forall_eq,
        false_imp_iff, implies_true, and_true]
      exact hy
  | num n => simp [factorOk] at hf
  | sym s => simpa [classify] using hy
  | fn g a => simpa [classify] using hy
  | add ts => simpa [classify] using hy
  | mul c' fs' => simpa [classify] using hy

theorem Adm_classify_num {tbl : Table} {w : Bool} (ρ : String → α) (c : Num) :
    (∀ x ∈ (classify (.num c)).a, Adm tbl w ρ x) ∧ (∀ x ∈ (classify (.num c)).b, Adm tbl w ρ x) := by
  cases c with
  | int n => simp only [classify, ratParts]; constructor <;> (intro x hx; split at hx <;> simp_all [Adm])
  | rat p q => simp only [classify, ratParts]; constructor <;> (intro x hx; split at hx <;> simp_all [Adm])
  | flt s m => simp [classify, Adm]

theorem classifyAll_forall (Q : SExpr → Prop) (xs : List SExpr)
    (h : ∀ y ∈ xs, (∀ x ∈ (classify y).a, Q x) ∧ (∀ x ∈ (classify y).b, Q x)) :
    (∀ x ∈ (classifyAll xs).a, Q x) ∧ (∀ x ∈ (classifyAll xs).b, Q x) := by
  induction xs with
  | nil => simp [classifyAll]
  | cons y ys ih =>
    obtain ⟨ha, hb⟩ := h y (by simp)
    obtain ⟨ia, ib⟩ := ih (fun z hz => h z (by simp [hz]))
    simp only [classifyAll, MulParts.append, List.mem_append]
    exact ⟨fun x hx => hx.elim (ha x) (ia x), fun x hx => hx.elim (hb x) (ib x)⟩

theorem Adm_mulParts {tbl : Table} {w : Bool} (ρ : String → α) (c : Num) (fs : List SExpr)
    (hc : canonical (.mul c fs) = true) (hadm : Adm tbl w ρ (.mul c fs)) :
    (∀ x ∈ (mulParts c fs).a, Adm tbl w ρ x) ∧ (∀ x ∈ (mulParts c fs).b, Adm tbl w ρ x) := by
  obtain ⟨_, hok, hcan, _⟩ := canonical_mul hc
  simp only [Adm, AdmL_iff] at hadm
  apply classifyAll_forall
  intro y hy
  simp only [mulArgs] at hy
  generalize (if c.isNeg then c.neg else c) = c' at hy
  split at hy
  · exact Adm_classify ρ c.isNeg y (hcan y hy) (hok y hy) (hadm y hy)
  · rcases List.mem_cons.mp hy with rfl | hy
    · exact Adm_classify_num ρ c'
    · exact Adm_classify ρ c.isNeg y (hcan y hy) (hok y hy) (hadm y hy)

/-- semantic soundness of the printed text under a table with the given wrapping behaviour -/
theorem sound_of_size {tbl : Table} {wl ws : Bool} (T : TableSpec tbl wl ws) (ρ : String → α) :
    ∀ (n : Nat) (e : SExpr), size e ≤ n → canonical e = true → Adm tbl wl ρ e → Sound tbl ρ e := by
  intro n
  induction n with
  | zero => intro e h; have := size_pos e; omega
  | succ n ih =>
    intro e hs hc hadm
    cases e with
    | num k =>
      have : k.canon = true := by simpa [canonical] using hc
      simpa [Sound, intended_num, evalS] using sound_num tbl ρ k this
    | sym s =>
      have : symOK tbl s = true := by simpa [Adm] using hadm
      simp [Sound, intended_sym, evalPy, this, evalS]
    | fn f a =>
      simp only [Adm] at hadm
      exact sound_fn T ρ f a (ih a (by simp only [size] at hs; omega) (canonical_fn hc) hadm.1) hadm.2
    | pow b ex =>
      obtain ⟨hb, he⟩ := canonical_pow hc
      simp only [size] at hs
      simp only [Adm] at hadm
      exact sound_pow T ρ b ex (ih b (by omega) hb hadm.1) (ih ex (by omega) he hadm.2.1) hadm.2.2
    | add ts =>
      obtain ⟨hne, _, hcan⟩ := canonical_add hc
      simp only [size] at hs
      simp only [Adm, AdmL_iff] at hadm
      match ts, hne with
      | t :: rest, _ =>
        exact sound_add tbl ρ t rest (fun u hu => ih u (by have := size_mem hu; omega) (hcan u hu) (hadm u hu))
    | mul c fs =>
      obtain ⟨sA, sB⟩ := mulParts_size c fs
      obtain ⟨cA, cB, _⟩ := mulParts_ok hc
      obtain ⟨aA, aB⟩ := Adm_mulParts ρ c fs hc hadm
      exact sound_mul ρ c fs hc hadm
        (fun x hx => ih x (by have := sA x hx; omega) (cA x hx).1 (aA x hx))
        (fun x hx => ih x (by have := sB x hx; omega) (cB x hx).1 (aB x hx))

end ESR.Printer

namespace ESR.Printer
open RealLike

/-! ### a model of the laws -/

/-- `ofInt` of the three-element model: the residue mod 3 -/
def f3OfInt (n : Int) : Fin 3 := if n % 3 = 0 then 0 else if n % 3 = 1 then 1 else 2

/-- integer power in the field with three elements (`a*a = 1` for `a ≠ 0`) -/
def f3Ipow (a : Fin 3) (n : Int) : Fin 3 :=
  if a = 0 then (if n = 0 then 1 else 0) else (if n % 2 = 0 then 1 else a)

/-- A small model of the laws (the field with three elements, inverse = identity on it, `rpow a y = [a ≠ 0]`,
non-negative = {0, 1}): the law set of `RealLike` is consistent and its hypotheses are satisfiable by non-trivial data. -/
@[reducible] def modelF3 : RealLike (Fin 3) where
  add a b := a + b
  mul a b := a * b
  sub a b := a - b
  div a b := a * b
  rpow a _ := if a = 0 then 0 else 1
  neg a := -a
  inv a := a
  abs a := a * a
  exp a := a
  log a := a
  sin a := a
  sqrt a := if a = 0 then 0 else 1
  ipow := f3Ipow
  ofInt := f3OfInt
  ofFlt _ := 1
  nonneg a := a = 0 ∨ a = 1
  mul_comm := by decide
  mul_assoc := by decide
  one_mul := by decide
  sub_eq := by decide
  div_eq := by intros; rfl
  neg_mul := by decide
  neg_neg := by decide
  inv_mul := by intros; rfl
  inv_one := by decide
  ofInt_neg := by
    intro n
    have h : n % 3 = 0 ∨ n % 3 = 1 ∨ n % 3 = 2 := by omega
    rcases h with h | h | h
    · have h' : (-n) % 3 = 0 := by omega
      simp [f3OfInt, h, h']; decide
    · have h' : (-n) % 3 = 2 := by omega
      simp [f3OfInt, h, h']; decide
    · have h' : (-n) % 3 = 1 := by omega
      simp [f3OfInt, h, h']; decide
  ipow_neg := by
    intro a n
    have h1 : (-n = 0) ↔ (n = 0) := by omega
    have h2 : ((-n) % 2 = 0) ↔ (n % 2 = 0) := by omega
    simp [f3Ipow, h1]
  ipow_one := by
    intro a
    simp only [f3Ipow]
    split
    · rename_i h; simp [h]
    · simp
  rpow_neg := by intros; rfl
  abs_of_nonneg := by
    intro a h
    rcases h with h | h <;> subst h <;> decide
  sqrt_eq_rpow := by intros; rfl


end ESR.Printer
