import Mathlib.Analysis.SpecialFunctions.Pow.Real
import ESRVerif.Proofs.ToList
/-!
The real numbers satisfy the laws of `ESR.ToList.Laws` (so the hypotheses of the C18 soundness theorem are
satisfiable, with `Pos a := 0 < a`, `pow := Real.rpow`, `sqrt := Real.sqrt`, `log := Real.log`).
Only this file of the C18 family imports Mathlib (one analysis module).
-/
namespace ESR.ToList
open ESR.Gen.ToList

/-- value of a decimal label `[+-]d[.d][e±d]`; quotients `p/q` and anything else are not needed by the laws → 0 -/
noncomputable def litReal (s : String) : ℝ :=
  match stripSign s.toList with
  | (neg, r) =>
    match parseUnsigned r with
    | some (m, e, []) => (if neg then -1 else 1) * ((m : ℝ) * (10 : ℝ) ^ e)
    | _ => 0

noncomputable def realSem : Sem ℝ :=
  { add := (· + ·), mul := (· * ·), sub := (· - ·), div := (· / ·), pow := fun a b => a ^ b,
    abs := fun a => |a|, sqrt := Real.sqrt, log := Real.log, inv := fun a => a⁻¹,
    fn1 := fun name a => if name = "exp" then Real.exp a else if name = "sin" then Real.sin a else 0,
    fn2 := fun _ _ _ => 0,
    ofRat := fun p q => (p : ℝ) / (q : ℝ),
    lit := litReal,
    const := fun _ => 0 }

theorem litReal_of_isOne (s : String) (h : pyFloatIsOne s = true) : litReal s = 1 := by
  unfold pyFloatIsOne at h
  unfold litReal
  generalize stripSign s.toList = sr at *
  obtain ⟨neg, r⟩ := sr
  simp only at h ⊢
  cases hp : parseUnsigned r with
  | none => simp [hp] at h
  | some t =>
    obtain ⟨m, e, rest⟩ := t
    cases rest with
    | cons c cs => simp [hp] at h
    | nil =>
      simp only [hp, Bool.and_eq_true, Bool.not_eq_true'] at h
      obtain ⟨hn, h1⟩ := h
      subst hn
      simp only [Bool.false_eq_true, if_false, one_mul]
      unfold isOneVal at h1
      split at h1
      · rename_i he
        have h1' : m * 10 ^ e.toNat = 1 := by simpa using h1
        have : (e : ℤ) = (e.toNat : ℤ) := (Int.toNat_of_nonneg he).symm
        rw [this, zpow_natCast]
        exact_mod_cast h1'
      · rename_i he
        have h1' : m = 10 ^ (-e).toNat := by simpa using h1
        have hneg : (0 : ℤ) ≤ -e := by omega
        have : (e : ℤ) = -((-e).toNat : ℤ) := by rw [Int.toNat_of_nonneg hneg]; ring
        rw [this, zpow_neg, zpow_natCast, h1']
        push_cast
        field_simp

noncomputable def realLaws : Laws realSem :=
  { Pos := fun a => 0 < a
    abs_pos := fun a h => abs_of_pos h
    pow_two := fun a _ => by
      show a ^ (((2 : ℤ) : ℝ) / ((1 : ℕ) : ℝ)) = a * a
      norm_num [Real.rpow_two, sq]
    pow_three := fun a _ => by
      show a ^ (((3 : ℤ) : ℝ) / ((1 : ℕ) : ℝ)) = a * a * a
      have : (((3 : ℤ) : ℝ) / ((1 : ℕ) : ℝ)) = ((3 : ℕ) : ℝ) := by norm_num
      rw [this, Real.rpow_natCast]; ring
    pow_half := fun a _ => by
      show a ^ (((1 : ℤ) : ℝ) / ((2 : ℕ) : ℝ)) = Real.sqrt a
      rw [Real.sqrt_eq_rpow]; norm_num
    pow_neg_one := fun a _ => by
      show a ^ (((-1 : ℤ) : ℝ) / ((1 : ℕ) : ℝ)) = a⁻¹
      have : (((-1 : ℤ) : ℝ) / ((1 : ℕ) : ℝ)) = (-1 : ℝ) := by norm_num
      rw [this, Real.rpow_neg_one]
    mul_pow_neg_one := fun a b _ => by
      show a * b ^ (((-1 : ℤ) : ℝ) / ((1 : ℕ) : ℝ)) = a / b
      have : (((-1 : ℤ) : ℝ) / ((1 : ℕ) : ℝ)) = (-1 : ℝ) := by norm_num
      rw [this, Real.rpow_neg_one, div_eq_mul_inv]
    one_mul := fun a => by show ((1 : ℤ) : ℝ) / ((1 : ℕ) : ℝ) * a = a; norm_num
    mul_one := fun a => by show a * (((1 : ℤ) : ℝ) / ((1 : ℕ) : ℝ)) = a; norm_num
    add_neg_one_mul := fun a b => by show a + ((-1 : ℤ) : ℝ) / ((1 : ℕ) : ℝ) * b = a - b; norm_num; ring
    add_mul_neg_one := fun a b => by show a + b * (((-1 : ℤ) : ℝ) / ((1 : ℕ) : ℝ)) = a - b; norm_num; ring
    log_abs := fun a => Real.log_abs a
    lit_two := by
      show litReal "2" = ((2 : ℤ) : ℝ) / ((1 : ℕ) : ℝ)
      have h1 : stripSign ['2'] = (false, ['2']) := by decide
      have h2 : parseUnsigned ['2'] = some (2, 0, []) := by decide
      simp [litReal, h1, h2]
    lit_three := by
      show litReal "3" = ((3 : ℤ) : ℝ) / ((1 : ℕ) : ℝ)
      have h1 : stripSign ['3'] = (false, ['3']) := by decide
      have h2 : parseUnsigned ['3'] = some (3, 0, []) := by decide
      simp [litReal, h1, h2]
    lit_one := fun s h => by
      show litReal s = ((1 : ℤ) : ℝ) / ((1 : ℕ) : ℝ)
      rw [litReal_of_isOne s h]; norm_num }

/-! ### faithfulness of concrete leaves / nodes over ℝ (for the non-vacuity examples) -/

theorem faith_sym (ρ : String → ℝ) (n : String) (hn : isFloatLabel (canon n) = false) (hc : canon n = n) :
    FaithLoc realSem ρ (sym n) := by
  refine ⟨?_, ?_, ?_, ?_⟩
  · intro h hh
    simp only [sym, SymExpr.atom.injEq] at hh
    subst hh
    have hn' : isFloatLabel n = false := hc ▸ hn
    simp [headValStr, valOf, leafSem, hn', hc, evalSym, sym]
  · intro s hs hf
    simp [sym, SymExpr.head, valOf] at hs
    subst hs
    rw [← hc, hn] at hf; simp at hf
  · simp [sym, SymExpr.cls, SymExpr.head]
  · simp [sym, SymExpr.cls, SymExpr.head]

theorem faith_op2 (ρ : String → ℝ) (cls : String) (hN : cls ≠ "NegativeOne") (hH : cls ≠ "Half") (a b : SymExpr) :
    FaithLoc realSem ρ (op2 cls a b) := by
  refine ⟨?_, ?_, ?_, ?_⟩
  · intro h hh; simp [op2] at hh
  · intro s hs; simp [op2, SymExpr.head, valOf] at hs
  · simp [op2, SymExpr.cls, SymExpr.head, hN]
  · simp [op2, SymExpr.cls, SymExpr.head, hH]

theorem faith_three (ρ : String → ℝ) : FaithLoc realSem ρ (int "Integer" 3 "3") := by
  have h3 : realSem.lit "3" = realSem.ofRat 3 1 := realLaws.lit_three
  refine ⟨?_, ?_, ?_, ?_⟩
  · intro h hh
    simp only [int, SymExpr.atom.injEq] at hh
    subst hh
    have hc : canon "3" = "3" := by decide
    have hf : isFloatLabel "3" = true := by decide
    simp [headValStr, valOf, leafSem, hc, hf, evalSym, h3, int]
  · intro s hs hf
    simp [int, SymExpr.head, valOf] at hs
    subst hs
    simp [int, evalSym, h3]
  · simp [int, SymExpr.cls, SymExpr.head]
  · simp [int, SymExpr.cls, SymExpr.head]

end ESR.ToList
