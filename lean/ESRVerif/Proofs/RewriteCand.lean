import ESRVerif.Model.Rewrite
import ESRVerif.Proofs.Rewrite
/-!
C11 — helper lemmas for `Props/C11c.lean`: the five parallel candidate lists of `update_tree`
(`UT.detectPar`, the statements of generator.py l.601-675) are the columns of the record list `UT.specials`.

* `stepPar_records` — one iteration of `for i in range(len(labels))` on aligned lists appends exactly the record
  `detectAt L i` computes (all four combinations of the forward / backward block firing).
* `foldPar_records` — the whole loop, over any duplicate-free index list not yet visited.
* `row_ofRecords` — row `k` of the columns of a record list is its `k`-th record.
-/
namespace ESR.Rewrite.UT
open ESR.Gen.Rewrite

theorem detectAt_unfold (L : List String) (i : Nat) :
    detectAt L i =
      (if !inExp (L.getD i "") then some none
       else match expOrd (L.getD i "") with
        | none => none
        | some o =>
          match fwdAt L i o, bwdAt L i o with
          | some none, some none => some none
          | some f, some b =>
            some (some ⟨i, (f.map (·.1)).getD 0, (b.map (·.1)).getD 0, f.map (·.2), b.map (·.2)⟩)
          | _, _ => none) := rfl

/-- the record `detectAt` returns for index `i` is a record OF index `i` -/
theorem detectAt_i (L : List String) (i : Nat) (sp : Special) (h : detectAt L i = some (some sp)) : sp.i = i := by
  rw [detectAt_unfold] at h
  split at h
  · cases h
  · split at h
    · cases h
    · split at h
      · cases h
      · simp only [Option.some.injEq] at h
        subst h; rfl
      · cases h

theorem setLast_append {α} (xs : List α) (a v : α) : setLast (xs ++ [a]) v = some (xs ++ [v]) := by
  simp [setLast]

theorem ofRecords_append (sps : List Special) (sp : Special) :
    Par.ofRecords (sps ++ [sp]) =
      ⟨(Par.ofRecords sps).special ++ [sp.i], (Par.ofRecords sps).diff1 ++ [sp.d1], (Par.ofRecords sps).diff2 ++ [sp.d2],
       (Par.ofRecords sps).num1 ++ [sp.n1], (Par.ofRecords sps).num2 ++ [sp.n2]⟩ := by
  simp [Par.ofRecords]

theorem contains_special (sps : List Special) (i : Nat) (h : ∀ sp ∈ sps, sp.i ≠ i) :
    (Par.ofRecords sps).special.contains i = false := by
  simp only [Par.ofRecords, List.contains_eq_mem, List.mem_map, decide_eq_false_iff_not, not_exists, not_and]
  intro sp hsp
  exact h sp hsp

/-- One iteration of the detection loop on aligned lists: the five lists stay the columns of a record list, extended
by the record of index `i` (if any). -/
theorem stepPar_records (L : List String) (sps : List Special) (i : Nat) (hni : ∀ sp ∈ sps, sp.i ≠ i) :
    stepPar L (Par.ofRecords sps) i = (detectAt L i).map (fun r => Par.ofRecords (sps ++ r.toList)) := by
  rw [detectAt_unfold]
  unfold stepPar
  simp only
  generalize L.getD i "" = l
  cases inExp l with
  | false => simp
  | true =>
    simp only [Bool.not_true, Bool.false_eq_true, if_false]
    cases expOrd l with
    | none => simp
    | some o =>
      simp only
      cases hf : fwdAt L i o with
      | none => simp
      | some f =>
        cases hb : bwdAt L i o with
        | none => cases f <;> simp
        | some b =>
          have hc := contains_special sps i hni
          cases f with
          | none =>
            cases b with
            | none => simp [Par.pushFwd, Par.pushBwd]
            | some dn =>
              obtain ⟨d, n⟩ := dn
              simp only [Par.pushFwd, Par.pushBwd, hc, Option.map_some, Option.toList_some, ofRecords_append]
              simp [Par.ofRecords]
          | some dn1 =>
            obtain ⟨d1, n1⟩ := dn1
            cases b with
            | none =>
              simp only [Par.pushFwd, Par.pushBwd, Option.map_some, Option.toList_some, ofRecords_append]
              simp
            | some dn2 =>
              obtain ⟨d2, n2⟩ := dn2
              simp only [Par.pushFwd, Par.pushBwd, Option.map_some, Option.toList_some, ofRecords_append]
              simp [Par.ofRecords, setLast_append]

/-- The whole detection loop: over a duplicate-free list of indices none of which has a record yet, the five lists
are the columns of the records found, in index order. -/
theorem foldPar_records (L : List String) (is : List Nat) (sps : List Special) (hnd : is.Nodup)
    (hdis : ∀ sp ∈ sps, sp.i ∉ is) :
    foldPar L is (Par.ofRecords sps) = (specialsFrom L is).map (fun rest => Par.ofRecords (sps ++ rest)) := by
  induction is generalizing sps with
  | nil => simp [foldPar, specialsFrom]
  | cons i is ih =>
    have hni : ∀ sp ∈ sps, sp.i ≠ i := fun sp h e => hdis sp h (by simp [e])
    unfold foldPar specialsFrom
    rw [stepPar_records L sps i hni]
    cases hd : detectAt L i with
    | none => simp
    | some r =>
      simp only [Option.map_some]
      have hnd' : is.Nodup := (List.nodup_cons.mp hnd).2
      have hi : i ∉ is := (List.nodup_cons.mp hnd).1
      have hdis' : ∀ sp ∈ sps ++ r.toList, sp.i ∉ is := by
        intro sp hsp
        rcases List.mem_append.mp hsp with h | h
        · exact fun hm => hdis sp h (List.mem_cons_of_mem _ hm)
        · cases r with
          | none => simp at h
          | some sp0 =>
            simp only [Option.toList_some, List.mem_singleton] at h
            subst h
            rw [detectAt_i L i sp hd]; exact hi
      rw [ih (sps ++ r.toList) hnd' hdis']
      cases specialsFrom L is with
      | none => simp
      | some rest => cases r <;> simp

theorem row_ofRecords (sps : List Special) (k : Nat) : (Par.ofRecords sps).row k = sps[k]? := by
  unfold Par.row Par.ofRecords
  simp only [List.getElem?_map]
  cases sps[k]? <;> simp

end ESR.Rewrite.UT
