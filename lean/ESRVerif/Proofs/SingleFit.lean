import ESRVerif.Model.SingleFit
import ESRVerif.Proofs.Optim
/-! Helper lemmas for C20c (core Lean only): the back-transformation of a table row in explicit form. -/
namespace ESR.SingleFit
open ESR.Optim ESR.Gen.Optim

variable {α : Type} [Num α]

/-- `base**x * mult_arr` is `±base**x` entry by entry when `mult_arr` matches the sign list -/
theorem applyMult_eq_signed [LawfulNum α] (base : Nat) :
    ∀ (ss : List Sign) (m : List Int) (x : List α), compat ss m = true → x.length = ss.length →
      applyMult m (x.map (Num.powNat base)) = List.zipWith (signed base) ss x := by
  intro ss
  induction ss with
  | nil =>
    intro m x _ hx
    have : x = [] := List.eq_nil_of_length_eq_zero (by simpa using hx)
    subst this
    cases m <;> simp [applyMult]
  | cons s ss ih =>
    intro m x hc hx
    match x, hx with
    | xi :: xs, hx =>
      have hxs : xs.length = ss.length := by simpa using hx
      cases s with
      | lin => simp [compat] at hc
      | pos =>
        cases m with
        | nil => simp [compat] at hc
        | cons m0 ms =>
          simp only [compat, Bool.and_eq_true, beq_iff_eq] at hc
          obtain ⟨h1, h2⟩ := hc
          subst h1
          simp [applyMult, signed, ih ms xs h2 hxs, LawfulNum.mul_one]
      | neg =>
        cases m with
        | nil => simp [compat] at hc
        | cons m0 ms =>
          simp only [compat, Bool.and_eq_true, beq_iff_eq] at hc
          obtain ⟨h1, h2⟩ := hc
          subst h1
          simp [applyMult, signed, ih ms xs h2 hxs, LawfulNum.mul_negOne]

/-- A table row that passes `rowOK`: the back-transformation of the optimiser's vector `x`, cut to the parameters, is
    (a) the vector chi2_fcn handed to the likelihood for that row's `signs` and (b) explicitly `x` for a linear-space
    row and `±base**x` for a log-space row. -/
theorem row_explicit [LawfulNum α] (B : BackSpec) (t : TRow) (hok : rowOK B t = true)
    (maxParam : Nat) (x : List α) (f : α) (s : Bool)
    (hk : arityOK t x.length) (hmax : x.length ≤ maxParam) :
    ∃ ps, backParams B t.flagThree maxParam ⟨t.row.resCall, ⟨x, f, s⟩, t.row.mult⟩ = some ps ∧
      chi2Params x t.signs = some (ps.take x.length) ∧
      ps.take x.length = expectedParams B.base t.signs x := by
  unfold rowOK at hok
  have hnot : ¬ maxParam < x.length := by omega
  by_cases hf : t.flagThree = true
  · simp only [hf, if_true, beq_iff_eq] at hok
    refine ⟨padTo maxParam x, ?_, ?_, ?_⟩
    · simp [backParams, hnot, hf]
    · simp [chi2Params, hok, take_padTo]
    · simp [expectedParams, hok, take_padTo]
  · have hf' : t.flagThree = false := by simpa using hf
    simp only [hf', Bool.false_eq_true, if_false] at hok
    cases hs : t.signs with
    | none => simp [hs] at hok
    | some ss =>
      simp only [hs, Bool.and_eq_true, beq_iff_eq] at hok
      obtain ⟨⟨⟨⟨hmult, hcompat⟩, _⟩, hpos⟩, hneg⟩ := hok
      have hlen : x.length = ss.length := by simpa [arityOK, hs] using hk
      have h1 := reparamList_compat (α := α) B.base hpos hneg ss t.row.mult x hcompat hlen
      have h2 : (applyMult t.row.mult (padTo maxParam (x.map (Num.powNat B.base)))).take x.length
          = applyMult t.row.mult (x.map (Num.powNat B.base)) := by
        have := take_applyMult_append t.row.mult (x.map (Num.powNat B.base))
          (List.replicate (maxParam - (x.map (Num.powNat (α := α) B.base)).length) Num.zero)
        simpa [padTo] using this
      refine ⟨applyMult t.row.mult (padTo maxParam (x.map (Num.powNat B.base))), ?_, ?_, ?_⟩
      · simp [backParams, hnot, hf', hmult]
      · simp [chi2Params, h1, h2]
      · rw [h2]
        simpa [expectedParams] using applyMult_eq_signed (α := α) B.base ss t.row.mult x hcompat hlen

end ESR.SingleFit
