import ESRVerif.Model.Optim
/-! Helper lemmas for C10 (core Lean only). -/
namespace ESR.Optim
open ESR.Gen.Optim

variable {α : Type} [Num α]

/-! ### back-transformation vs chi2_fcn -/

theorem take_padTo (n : Nat) (l : List α) : (padTo n l).take l.length = l := by
  simp [padTo]

theorem take_applyMult_append (m : List Int) (l r : List α) :
    (applyMult m (l ++ r)).take l.length = applyMult m l := by
  induction l generalizing m with
  | nil => cases m <;> simp [applyMult]
  | cons a as ih =>
    cases m with
    | nil => simp [applyMult, ih]
    | cons m ms => simp [applyMult, ih]

theorem length_applyMult (m : List Int) (l : List α) : (applyMult m l).length = l.length := by
  induction l generalizing m with
  | nil => cases m <;> simp [applyMult]
  | cons a as ih => cases m <;> simp [applyMult, ih]

/-- chi2_fcn's parameters for a sign list compatible with `mult` are `base**x * mult` -/
theorem reparamList_compat [LawfulNum α] (base : Nat)
    (hpos : reparam.find? (fun r => r.label == .pos) = some ⟨.pos, true, base, false⟩)
    (hneg : reparam.find? (fun r => r.label == .neg) = some ⟨.neg, true, base, true⟩) :
    ∀ (ss : List Sign) (m : List Int) (x : List α), compat ss m = true → x.length = ss.length →
      reparamList reparam ss x = some (applyMult m (x.map (Num.powNat base))) := by
  intro ss
  induction ss with
  | nil =>
    intro m x _ hx
    have : x = [] := List.eq_nil_of_length_eq_zero (by simpa using hx)
    subst this
    cases m <;> simp [reparamList, applyMult]
  | cons s ss ih =>
    intro m x hc hx
    match x, hx with
    | xi :: xs, hx =>
      have hxs : xs.length = ss.length := by simpa using hx
      cases s with
      | lin => simp [compat] at hc
      | pos =>
        cases m with
        | nil => simp [compat] at hc
        | cons m0 ms =>
          simp only [compat, Bool.and_eq_true, beq_iff_eq] at hc
          obtain ⟨h1, h2⟩ := hc
          subst h1
          simp [reparamList, reparamOne, hpos, ih ms xs h2 hxs, applyMult, LawfulNum.mul_one]
      | neg =>
        cases m with
        | nil => simp [compat] at hc
        | cons m0 ms =>
          simp only [compat, Bool.and_eq_true, beq_iff_eq] at hc
          obtain ⟨h1, h2⟩ := hc
          subst h1
          simp [reparamList, reparamOne, hneg, ih ms xs h2 hxs, applyMult, LawfulNum.mul_negOne]

/-- the arity side condition of a table row for a start vector of length `k` -/
def arityOK (t : TRow) (k : Nat) : Prop :=
  match t.signs with
  | none => True
  | some ss => k = ss.length

theorem row_consistent [LawfulNum α] (B : BackSpec) (t : TRow) (hok : rowOK B t = true)
    (nll : List α → α) (maxParam : Nat) (x : List α) (f : α) (s : Bool)
    (hk : arityOK t x.length) (hmax : x.length ≤ maxParam) :
    ∃ ps, backParams B t.flagThree maxParam ⟨t.row.resCall, ⟨x, f, s⟩, t.row.mult⟩ = some ps ∧
      chi2Fcn nll x t.signs = some (nll (ps.take x.length)) := by
  unfold rowOK at hok
  have hnot : ¬ maxParam < x.length := by omega
  by_cases hf : t.flagThree = true
  · simp only [hf, if_true, beq_iff_eq] at hok
    refine ⟨padTo maxParam x, ?_, ?_⟩
    · simp [backParams, hnot, hf]
    · simp [chi2Fcn, chi2Params, hok, take_padTo]
  · have hf' : t.flagThree = false := by simpa using hf
    simp only [hf', Bool.false_eq_true, if_false] at hok
    cases hs : t.signs with
    | none => simp [hs] at hok
    | some ss =>
      simp only [hs, Bool.and_eq_true, beq_iff_eq] at hok
      obtain ⟨⟨⟨⟨hmult, hcompat⟩, _⟩, hpos⟩, hneg⟩ := hok
      have hlen : x.length = ss.length := by simpa [arityOK, hs] using hk
      refine ⟨applyMult t.row.mult (padTo maxParam (x.map (Num.powNat B.base))), ?_, ?_⟩
      · simp [backParams, hnot, hf', hmult]
      · have h1 := reparamList_compat (α := α) B.base hpos hneg ss t.row.mult x hcompat hlen
        have h2 : (applyMult t.row.mult (padTo maxParam (x.map (Num.powNat B.base)))).take x.length
            = applyMult t.row.mult (x.map (Num.powNat B.base)) := by
          have := take_applyMult_append t.row.mult (x.map (Num.powNat B.base))
            (List.replicate (maxParam - (x.map (Num.powNat (α := α) B.base)).length) Num.zero)
          simpa [padTo] using this
        simp [chi2Fcn, chi2Params, h1, h2]

/-! ### numpy argmin and the per-iteration selection -/

theorem npArgminAux_spec [LawfulNum α] (l : List α) (hnan : ∀ v ∈ l, Num.isNaN v = false) :
    ∀ (vs : List α) (best : Nat) (mp : α) (i : Nat), l.drop i = vs → l[best]? = some mp →
      (∀ (j : Nat) (v : α), j < i → l[j]? = some v → Num.lt v mp = false) →
      ∃ mk, l[npArgminAux best mp i vs]? = some mk ∧ ∀ (j : Nat) (v : α), l[j]? = some v → Num.lt v mk = false := by
  intro vs
  induction vs with
  | nil =>
    intro best mp i hd hb hmin
    refine ⟨mp, by simpa [npArgminAux] using hb, ?_⟩
    intro j v hj
    have hlen : l.length ≤ i := by simpa using hd
    have hjl : j < l.length := (List.getElem?_eq_some_iff.mp hj).1
    exact hmin j v (by omega) hj
  | cons v vs ih =>
    intro best mp i hd hb hmin
    have hi : l[i]? = some v := by
      have := List.getElem?_drop (xs := l) (i := i) (j := 0)
      rw [hd] at this
      simpa using this.symm
    have hd' : l.drop (i + 1) = vs := by
      have : (l.drop i).drop 1 = vs := by rw [hd]; rfl
      simpa [List.drop_drop, Nat.add_comm] using this
    have hv : Num.isNaN v = false := hnan v (List.mem_of_getElem? hi)
    unfold npArgminAux
    simp only [hv, Bool.false_eq_true, if_false]
    by_cases hlt : Num.lt v mp = true
    · simp only [hlt, if_true]
      apply ih i v (i + 1) hd' hi
      intro j w hj hw
      by_cases hji : j = i
      · subst hji
        rw [hi] at hw
        cases hw
        exact LawfulNum.lt_irrefl _
      · have h1 := hmin j w (by omega) hw
        cases h2 : Num.lt w v with
        | false => rfl
        | true =>
          have := LawfulNum.lt_trans w v mp h2 hlt
          rw [h1] at this
          cases this
    · have hlt' : Num.lt v mp = false := by simpa using hlt
      simp only [hlt', Bool.false_eq_true, if_false]
      apply ih best mp (i + 1) hd' hb
      intro j w hj hw
      by_cases hji : j = i
      · subst hji
        rw [hi] at hw
        cases hw
        exact hlt'
      · exact hmin j w (by omega) hw

theorem npArgmin_spec [LawfulNum α] (l : List α) (hnan : ∀ v ∈ l, Num.isNaN v = false) (k : Nat)
    (h : npArgmin l = some k) : ∃ mk, l[k]? = some mk ∧ ∀ (j : Nat) (v : α), l[j]? = some v → Num.lt v mk = false := by
  cases l with
  | nil => simp [npArgmin] at h
  | cons v vs =>
    have hv : Num.isNaN v = false := hnan v (by simp)
    simp only [npArgmin, hv, Bool.false_eq_true, if_false, Option.some.injEq] at h
    subst h
    apply npArgminAux_spec (v :: vs) hnan vs 0 v 1 (by simp) (by simp)
    intro j w hj hw
    have : j = 0 := by omega
    subst this
    simp at hw
    subst hw
    exact LawfulNum.lt_irrefl _

omit [Num α] in
theorem funsOf_spec (get : Nat → Option (Res α)) :
    ∀ (order : List Nat) (fs : List α), funsOf get order = some fs →
      fs.length = order.length ∧
      ∀ (k c : Nat), order[k]? = some c → ∃ r, get c = some r ∧ fs[k]? = some r.f := by
  intro order
  induction order with
  | nil => intro fs h; simp [funsOf] at h; subst h; simp
  | cons c cs ih =>
    intro fs h
    unfold funsOf at h
    cases hg : get c with
    | none => simp [hg] at h
    | some r =>
      cases hf : funsOf get cs with
      | none => simp [hg, hf] at h
      | some fs' =>
        simp only [hg, hf, Option.some.injEq] at h
        subst h
        obtain ⟨hl, hk⟩ := ih fs' hf
        refine ⟨by simp [hl], ?_⟩
        intro k c' hk'
        cases k with
        | zero => simp at hk'; subst hk'; exact ⟨r, hg, by simp⟩
        | succ k => simpa using hk k c' (by simpa using hk')

omit [Num α] in
theorem pickRow_some {get : Nat → Option (Res α)} {row : Row} {p : Picked α} (h : pickRow get row = some p) :
    p.call = row.resCall ∧ p.mult = row.mult ∧ get row.resCall = some p.res := by
  unfold pickRow at h
  cases hg : get row.resCall with
  | none => simp [hg] at h
  | some r => simp [hg] at h; subst h; simp

/-- an `argmin` selector that passes `argminOK` keeps a result that no other call of the iteration beats -/
theorem pick_argmin_minimal [LawfulNum α] (get : Nat → Option (Res α)) (m : Nat) (order : List Nat) (cases : List Row)
    (fb : Row) (hok : argminOK m order cases fb = true)
    (hnan : ∀ c r, get c = some r → Num.isNaN r.f = false) (p : Picked α)
    (hp : pick get (.argmin order cases fb) = some p) :
    ∀ c r, c < m → get c = some r → Num.lt r.f p.res.f = false := by
  unfold pick at hp
  cases hf : funsOf get order with
  | none => simp [hf] at hp
  | some fs =>
    cases ha : npArgmin fs with
    | none => simp [hf, ha] at hp
    | some k =>
      simp only [hf, ha] at hp
      obtain ⟨hlen, hfs⟩ := funsOf_spec get order fs hf
      have hfsnan : ∀ v ∈ fs, Num.isNaN v = false := by
        intro v hv
        obtain ⟨j, hj, hjv⟩ := List.getElem_of_mem hv
        have hjo : j < order.length := by omega
        obtain ⟨r, hr, hfr⟩ := hfs j order[j] (by simp [hjo])
        have : fs[j]? = some v := by simp [hj, hjv]
        rw [this] at hfr
        cases hfr
        exact hnan _ r hr
      obtain ⟨mk, hmk, hmin⟩ := npArgmin_spec fs hfsnan k ha
      have hkf : k < fs.length := (List.getElem?_eq_some_iff.mp hmk).1
      have hko : k < order.length := by omega
      obtain ⟨hcall, _, hres⟩ := pickRow_some hp
      unfold argminOK at hok
      simp only [Bool.and_eq_true, List.all_eq_true, List.mem_range, beq_iff_eq] at hok
      obtain ⟨hcover, hrows⟩ := hok
      have hrc := hrows k hko
      have hok' : order.getD k m = order[k] := by simp [List.getD, hko]
      rw [hok'] at hrc
      obtain ⟨rk, hrk, hfk⟩ := hfs k order[k] (by simp [hko])
      rw [hrc, hrk] at hres
      cases hres
      rw [hmk] at hfk
      cases hfk
      intro c r hc hr
      have hcont := hcover c hc
      obtain ⟨j, hj, hjc⟩ := List.getElem_of_mem (List.contains_iff_mem.mp hcont)
      obtain ⟨r', hr', hfr'⟩ := hfs j c (by simp [hj, hjc])
      rw [hr] at hr'
      cases hr'
      exact hmin j r.f hfr'

/-- the one guard-chain shape accepted: `if a < b: a   elif a > b: b   else: a or b` over two calls -/
def guardsOK (m : Nat) (gs : List Guard) (els : Row) : Bool :=
  match gs with
  | [g1, g2] =>
    m == 2 && g1.op == .lt && g2.op == .gt && g1.lhs == g2.lhs && g1.rhs == g2.rhs
      && ((g1.lhs == 0 && g1.rhs == 1) || (g1.lhs == 1 && g1.rhs == 0))
      && g1.row.resCall == g1.lhs && g2.row.resCall == g1.rhs
      && (els.resCall == g1.lhs || els.resCall == g1.rhs)
  | _ => false

theorem pick_guards_minimal [LawfulNum α] (get : Nat → Option (Res α)) (m : Nat) (gs : List Guard) (els : Row)
    (hok : guardsOK m gs els = true) (p : Picked α) (hp : pick get (.guards gs els) = some p) :
    ∀ c r, c < m → get c = some r → Num.lt r.f p.res.f = false := by
  match gs, hok, hp with
  | [], hok, _ => simp [guardsOK] at hok
  | [_], hok, _ => simp [guardsOK] at hok
  | _ :: _ :: _ :: _, hok, _ => simp [guardsOK] at hok
  | [g1, g2], hok, hp =>
    simp only [guardsOK, Bool.and_eq_true, Bool.or_eq_true, beq_iff_eq] at hok
    obtain ⟨⟨⟨⟨⟨⟨⟨⟨hm, hop1⟩, hop2⟩, hl⟩, hr⟩, hab⟩, hra⟩, hrb⟩, hels⟩ := hok
    subst hm
    simp only [pick, pickGuards, hop1, hop2, ← hl, ← hr] at hp
    cases hga : get g1.lhs with
    | none => simp [hga] at hp
    | some A =>
      cases hgb : get g1.rhs with
      | none => simp [hga, hgb] at hp
      | some B =>
        simp only [hga, hgb, evalCmp] at hp
        have key : ∀ c r, c < 2 → get c = some r → r = A ∨ r = B := by
          intro c r hc hr
          have hc' : c = 0 ∨ c = 1 := by omega
          rcases hab with ⟨h0, h1⟩ | ⟨h0, h1⟩
          · rw [h0] at hga; rw [h1] at hgb
            rcases hc' with rfl | rfl
            · left; rw [hga] at hr; cases hr; rfl
            · right; rw [hgb] at hr; cases hr; rfl
          · rw [h0] at hga; rw [h1] at hgb
            rcases hc' with rfl | rfl
            · right; rw [hgb] at hr; cases hr; rfl
            · left; rw [hga] at hr; cases hr; rfl
        by_cases h1 : Num.lt A.f B.f = true
        · simp only [h1, if_true] at hp
          obtain ⟨_, _, hres⟩ := pickRow_some hp
          rw [hra, hga] at hres
          cases hres
          intro c r hc hr
          rcases key c r hc hr with rfl | rfl
          · exact LawfulNum.lt_irrefl _
          · cases h2 : Num.lt r.f p.res.f with
            | false => rfl
            | true =>
              have := LawfulNum.lt_trans _ _ _ h1 h2
              rw [LawfulNum.lt_irrefl] at this
              cases this
        · have h1' : Num.lt A.f B.f = false := by simpa using h1
          simp only [h1', Bool.false_eq_true, if_false] at hp
          by_cases h2 : Num.lt B.f A.f = true
          · simp only [h2, if_true] at hp
            obtain ⟨_, _, hres⟩ := pickRow_some hp
            rw [hrb, hgb] at hres
            cases hres
            intro c r hc hr
            rcases key c r hc hr with rfl | rfl
            · exact h1'
            · exact LawfulNum.lt_irrefl _
          · have h2' : Num.lt B.f A.f = false := by simpa using h2
            simp only [h2', Bool.false_eq_true, if_false] at hp
            obtain ⟨_, _, hres⟩ := pickRow_some hp
            intro c r hc hr
            rcases hels with he | he
            · rw [he, hga] at hres
              cases hres
              rcases key c r hc hr with rfl | rfl
              · exact LawfulNum.lt_irrefl _
              · exact h2'
            · rw [he, hgb] at hres
              cases hres
              rcases key c r hc hr with rfl | rfl
              · exact h1'
              · exact LawfulNum.lt_irrefl _

/-- decidable condition on an arm: its selector keeps a minimal result among the arm's calls -/
def selOK (b : Branch) : Bool :=
  match b.sel with
  | .single => b.calls.length == 1
  | .argmin order cases fb => argminOK b.calls.length order cases fb
  | .guards gs els => guardsOK b.calls.length gs els

theorem pick_minimal_of_selOK [LawfulNum α] (b : Branch) (hok : selOK b = true) (get : Nat → Option (Res α))
    (hnan : ∀ c r, get c = some r → Num.isNaN r.f = false) (p : Picked α) (hp : pick get b.sel = some p) :
    ∀ c r, c < b.calls.length → get c = some r → Num.lt r.f p.res.f = false := by
  unfold selOK at hok
  cases hs : b.sel with
  | single =>
    simp only [hs, beq_iff_eq] at hok
    rw [hs] at hp
    simp only [pick] at hp
    obtain ⟨_, _, hres⟩ := pickRow_some hp
    intro c r hc hr
    have : c = 0 := by omega
    subst this
    simp only at hres
    rw [hr] at hres
    cases hres
    exact LawfulNum.lt_irrefl _
  | argmin order cases fb =>
    simp only [hs] at hok
    rw [hs] at hp
    exact pick_argmin_minimal get _ order cases fb hok hnan p hp
  | guards gs els =>
    simp only [hs] at hok
    rw [hs] at hp
    exact pick_guards_minimal get _ gs els hok p hp

/-! ### provenance of the selected result -/

theorem pickGuards_prov (get : Nat → Option (Res α)) :
    ∀ (gs : List Guard) (els : Row) (p : Picked α), pickGuards get gs els = some p →
      ∃ row, row ∈ gs.map (·.row) ++ [els] ∧ p.call = row.resCall ∧ p.mult = row.mult ∧ get p.call = some p.res := by
  intro gs
  induction gs with
  | nil =>
    intro els p h
    obtain ⟨h1, h2, h3⟩ := pickRow_some (by simpa [pickGuards] using h)
    exact ⟨els, by simp, h1, h2, by rw [h1]; exact h3⟩
  | cons g gs ih =>
    intro els p h
    unfold pickGuards at h
    cases hga : get g.lhs with
    | none => simp [hga] at h
    | some A =>
      cases hgb : get g.rhs with
      | none => simp [hga, hgb] at h
      | some B =>
        simp only [hga, hgb] at h
        by_cases hc : evalCmp g.op A.f B.f = true
        · simp only [hc, if_true] at h
          obtain ⟨h1, h2, h3⟩ := pickRow_some h
          exact ⟨g.row, by simp, h1, h2, by rw [h1]; exact h3⟩
        · have hc' : evalCmp g.op A.f B.f = false := by simpa using hc
          simp only [hc', Bool.false_eq_true, if_false] at h
          obtain ⟨row, hm, h1, h2, h3⟩ := ih els p h
          exact ⟨row, by simp at hm ⊢; rcases hm with hm | hm; exact Or.inr (Or.inl hm); exact Or.inr (Or.inr hm), h1, h2, h3⟩

theorem pick_prov (get : Nat → Option (Res α)) (sel : Selector) (p : Picked α) (h : pick get sel = some p) :
    ∃ row, row ∈ rowsOfSel sel ∧ p.call = row.resCall ∧ p.mult = row.mult ∧ get p.call = some p.res := by
  cases sel with
  | single =>
    obtain ⟨h1, h2, h3⟩ := pickRow_some (by simpa [pick] using h)
    exact ⟨⟨0, 0, [1, 1]⟩, by simp [rowsOfSel], h1, h2, by rw [h1]; exact h3⟩
  | argmin order cases fb =>
    unfold pick at h
    cases hf : funsOf get order with
    | none => simp [hf] at h
    | some fs =>
      cases ha : npArgmin fs with
      | none => simp [hf, ha] at h
      | some k =>
        simp only [hf, ha] at h
        obtain ⟨h1, h2, h3⟩ := pickRow_some h
        refine ⟨_, ?_, h1, h2, by rw [h1]; exact h3⟩
        cases hfind : cases.find? (fun r => r.choose == k) with
        | none => simp [rowsOfSel]
        | some r => simp [rowsOfSel, List.mem_of_find?_eq_some hfind]
  | guards gs els =>
    obtain ⟨row, hm, h1, h2, h3⟩ := pickGuards_prov get gs els p (by simpa [pick] using h)
    exact ⟨row, by simpa [rowsOfSel] using hm, h1, h2, h3⟩

/-! ### the loop invariant -/

/-- nothing examined so far is below the best value, and the best value is either the initial +inf or the value of
    an examined result, which is the one kept -/
def Inv (st : St α) (seen : List (Picked α)) : Prop :=
  (∀ q ∈ seen, Num.lt q.res.f st.chi2Min = false) ∧
  ((st.best = none ∧ st.chi2Min = Num.posInf) ∨ ∃ p ∈ seen, st.best = some p ∧ st.chi2Min = p.res.f)

theorem Inv.init : Inv (St.init : St α) [] := by
  simp [Inv, St.init]

theorem step_inv [LawfulNum α] (L : LoopSpec) (hk : L.keepCmp = .lt) (ts : Bool) (nconv : Nat) (st : St α)
    (p : Picked α) (prior : List (Picked α)) (hinv : Inv st prior) (st' : St α) (e : StepExit)
    (h : step L ts nconv st p = (st', e)) :
    ((e = .skip ∨ e = .brkInf) → Inv st' prior) ∧ ((e = .next ∨ e = .brkConv) → Inv st' (prior ++ [p])) := by
  unfold step at h
  by_cases h1 : (ts && !p.res.success) = true
  · simp only [h1, if_true, Prod.mk.injEq] at h
    obtain ⟨rfl, rfl⟩ := h
    exact ⟨fun _ => hinv, fun h => by rcases h with h | h <;> cases h⟩
  · simp only [h1, Bool.false_eq_true, if_false] at h
    by_cases h2 : (evalCmpNat L.infCmp (nextInfCount st p.res.f) L.infLimit && Num.isInf st.chi2Min) = true
    · simp only [h2, if_true, Prod.mk.injEq] at h
      obtain ⟨rfl, rfl⟩ := h
      exact ⟨fun _ => hinv, fun h => by rcases h with h | h <;> cases h⟩
    · simp only [h2, Bool.false_eq_true, if_false, Prod.mk.injEq] at h
      obtain ⟨rfl, he⟩ := h
      refine ⟨fun h => ?_, fun _ => ?_⟩
      · rcases h with h | h <;> (subst h; split at he <;> cases he)
      · obtain ⟨hmin, hbest⟩ := hinv
        simp only [hk, evalCmp]
        by_cases hkeep : Num.lt p.res.f st.chi2Min = true
        · simp only [hkeep, if_true]
          refine ⟨?_, Or.inr ⟨p, by simp, rfl, rfl⟩⟩
          intro q hq
          rcases List.mem_append.mp hq with hq | hq
          · cases hqp : Num.lt q.res.f p.res.f with
            | false => rfl
            | true =>
              have := LawfulNum.lt_trans _ _ _ hqp hkeep
              rw [hmin q hq] at this
              cases this
          · simp at hq; subst hq; exact LawfulNum.lt_irrefl _
        · have hkeep' : Num.lt p.res.f st.chi2Min = false := by simpa using hkeep
          simp only [hkeep', Bool.false_eq_true, if_false]
          refine ⟨?_, ?_⟩
          · intro q hq
            rcases List.mem_append.mp hq with hq | hq
            · exact hmin q hq
            · simp at hq; subst hq; exact hkeep'
          · rcases hbest with hb | ⟨p0, hp0, hb⟩
            · exact Or.inl hb
            · exact Or.inr ⟨p0, by simp [hp0], hb⟩

omit [Num α] in
@[simp] theorem bump_st (m : Nat) (s : Option (Picked α)) (o : LoopOut α) : (o.bump m s).st = o.st := rfl
omit [Num α] in
@[simp] theorem bump_exit (m : Nat) (s : Option (Picked α)) (o : LoopOut α) : (o.bump m s).exit = o.exit := rfl
omit [Num α] in
@[simp] theorem bump_seen_none (m : Nat) (o : LoopOut α) : (o.bump m none).seen = o.seen := rfl
omit [Num α] in
@[simp] theorem bump_seen_some (m : Nat) (p : Picked α) (o : LoopOut α) : (o.bump m (some p)).seen = p :: o.seen := rfl

theorem loop_inv [LawfulNum α] (L : LoopSpec) (hk : L.keepCmp = .lt) (br : Branch) (ts : Bool) (nconv : Nat)
    (script : Nat → Nat → Call α) :
    ∀ (fuel j : Nat) (st : St α) (prior : List (Picked α)), Inv st prior →
      Inv (loopFrom L br ts nconv script fuel j st).st (prior ++ (loopFrom L br ts nconv script fuel j st).seen) := by
  intro fuel
  induction fuel with
  | zero => intro j st prior h; simpa [loopFrom] using h
  | succ fuel ih =>
    intro j st prior hinv
    simp only [loopFrom]
    split
    · simpa using hinv
    · split
      · simpa using hinv
      · next p _ =>
        split
        · next st' hs =>
          have := (step_inv L hk ts nconv st p prior hinv st' .skip hs).1 (Or.inl rfl)
          simpa using ih (j + 1) st' prior this
        · next st' hs =>
          have := (step_inv L hk ts nconv st p prior hinv st' .next hs).2 (Or.inl rfl)
          simpa using ih (j + 1) st' (prior ++ [p]) this
        · next st' hs =>
          have := (step_inv L hk ts nconv st p prior hinv st' .brkInf hs).1 (Or.inr rfl)
          simpa using this
        · next st' hs =>
          have := (step_inv L hk ts nconv st p prior hinv st' .brkConv hs).2 (Or.inr rfl)
          simpa using this

/-- every examined result is the result of a scripted minimize call of the arm, taken through a row of the arm -/
theorem loop_seen_prov (L : LoopSpec) (br : Branch) (ts : Bool) (nconv : Nat) (script : Nat → Nat → Call α) :
    ∀ (fuel j : Nat) (st : St α), ∀ p ∈ (loopFrom L br ts nconv script fuel j st).seen,
      ∃ j' row, row ∈ rowsOfSel br.sel ∧ p.call = row.resCall ∧ p.mult = row.mult ∧ p.call < br.calls.length ∧
        (script j' p.call).res? = some p.res := by
  intro fuel
  induction fuel with
  | zero => intro j st p h; simp [loopFrom] at h
  | succ fuel ih =>
    intro j st p hp
    simp only [loopFrom] at hp
    split at hp
    · simp at hp
    · split at hp
      · simp at hp
      · next q hq =>
        have hprov : ∃ row, row ∈ rowsOfSel br.sel ∧ q.call = row.resCall ∧ q.mult = row.mult ∧ q.call < br.calls.length ∧
            (script j q.call).res? = some q.res := by
          obtain ⟨row, hm, h1, h2, h3⟩ := pick_prov _ _ _ hq
          by_cases hc : q.call < br.calls.length
          · simp only [hc, if_true] at h3
            exact ⟨row, hm, h1, h2, hc, h3⟩
          · simp [hc] at h3
        split at hp
        · exact ih (j + 1) _ p (by simpa using hp)
        · simp only [bump_seen_some, List.mem_cons] at hp
          rcases hp with rfl | hp
          · obtain ⟨row, h⟩ := hprov; exact ⟨j, row, h⟩
          · exact ih (j + 1) _ p hp
        · simp at hp
        · simp only [List.mem_singleton] at hp
          subst hp
          obtain ⟨row, h⟩ := hprov; exact ⟨j, row, h⟩

/-! ### hypotheses about the minimiser, and glue for the property theorems -/

/-- What the theorems need from `scipy.optimize.minimize`: the returned `fun` is the objective (chi2_fcn with the
    `signs` of that call) at the returned `x`, and `x` has the length of the start vector. -/
structure MinimiserSpec (nll : List α → α) (br : Branch) (nparam : Nat) (script : Nat → Nat → Call α) : Prop where
  value : ∀ j c x f s, script j c = .ok x f s → chi2Fcn nll x (br.calls.getD c none) = some f
  arity : ∀ j c x f s, script j c = .ok x f s → x.length = nparam

omit [Num α] in
theorem res?_some {c : Call α} {r : Res α} (h : c.res? = some r) : c = .ok r.x r.f r.success := by
  cases c <;> simp [Call.res?] at h
  subst h; rfl

theorem backParams_some (B : BackSpec) (ft : Bool) (maxParam : Nat) (p : Picked α) (h : p.res.x.length ≤ maxParam) :
    ∃ ps, backParams B ft maxParam p = some ps := by
  have hnot : ¬ maxParam < p.res.x.length := by omega
  unfold backParams
  simp only [hnot, if_false]
  split <;> exact ⟨_, rfl⟩

theorem pre_go {cfg : Config α} {br : Branch} {niter nconv : Nat} (h : pre cfg = .go br niter nconv) :
    br ∈ branches ∧ br.nclass = classOf cfg.nparam ∧ br.logOpt = cfg.logOpt ∧ cfg.prevSeen = false ∧
      cfg.hasA0 = true ∧ cfg.sympify = .ok := by
  unfold pre at h
  by_cases hp : cfg.prevSeen = true
  · simp [hp] at h
  · have hp' : cfg.prevSeen = false := by simpa using hp
    simp only [hp', Bool.false_eq_true, if_false] at h
    cases hi : iterCounts cfg.nparam cfg.niterParams cfg.nconvParams with
    | none => simp [hi] at h
    | some nn =>
      obtain ⟨ni, nc⟩ := nn
      simp only [hi] at h
      cases hs : cfg.sympify <;> simp only [hs] at h <;> try cases h
      by_cases hA : cfg.hasA0 = true
      · simp only [hA, Bool.not_true, Bool.false_eq_true, if_false] at h
        split at h
        · cases h
        · cases hfind : findBranch cfg.nparam cfg.logOpt with
          | none => simp [hfind] at h
          | some b =>
            simp only [hfind, Pre.go.injEq] at h
            obtain ⟨rfl, _, _⟩ := h
            unfold findBranch at hfind
            have hmem := List.mem_of_find?_eq_some hfind
            have hpred := List.find?_some hfind
            simp only [Bool.and_eq_true, beq_iff_eq] at hpred
            exact ⟨hmem, hpred.1, hpred.2, hp', hA, rfl⟩
      · have hA' : cfg.hasA0 = false := by simpa using hA
        simp [hA'] at h

theorem arity_of_rowOK (B : BackSpec) (t : TRow) (hok : rowOK B t = true) (n : Nat) (hc : t.nclass = classOf n)
    (h1 : 1 ≤ n) : arityOK t n := by
  unfold rowOK at hok
  unfold arityOK
  cases hs : t.signs with
  | none => trivial
  | some ss =>
    by_cases hf : t.flagThree = true
    · simp [hf, hs] at hok
    · have hf' : t.flagThree = false := by simpa using hf
      simp only [hf', Bool.false_eq_true, if_false, hs, Bool.and_eq_true, beq_iff_eq] at hok
      obtain ⟨⟨⟨_, hlen⟩, _⟩, _⟩ := hok
      unfold classOf at hc
      split at hlen
      · next h => rw [h] at hc; simp only [beq_iff_eq] at hlen; split at hc; cases hc; split at hc; cases hc; simp at *; omega
      · next h => rw [h] at hc; simp only [beq_iff_eq] at hlen; split at hc; cases hc; split at hc; simp at *; omega; cases hc
      · cases hlen

theorem reproduce_core [LawfulNum α] (B : BackSpec) (hB : ∀ t ∈ signTable, rowOK B t = true)
    (cfg : Config α) (script : Nat → Nat → Call α) (nll : List α → α) (br : Branch) (niter nconv : Nat)
    (hpre : pre cfg = .go br niter nconv) (hm : MinimiserSpec nll br cfg.nparam script)
    (h1 : 1 ≤ cfg.nparam) (hn : cfg.nparam ≤ cfg.maxParam)
    (p : Picked α) (hp : p ∈ (runLoop cfg br niter nconv script).seen) (params : List α)
    (hb : backParams B br.flagThree cfg.maxParam p = some params) :
    nll (params.take cfg.nparam) = p.res.f := by
  obtain ⟨hmem, hcls, _⟩ := pre_go hpre
  obtain ⟨j', row, hrow, hcall, hmult, _, hres⟩ := loop_seen_prov _ _ _ _ _ _ _ _ p hp
  have hok := res?_some hres
  have hval := hm.value j' p.call _ _ _ hok
  have hlen := hm.arity j' p.call _ _ _ hok
  let t : TRow := ⟨br.nclass, br.logOpt, br.flagThree, br.calls.getD row.resCall none, row⟩
  have ht : t ∈ signTable := by
    simp only [signTable, List.mem_flatMap]
    exact ⟨br, hmem, by simp only [tableOf, List.mem_map]; exact ⟨row, hrow, rfl⟩⟩
  have htok := hB t ht
  have har : arityOK t p.res.x.length := by rw [hlen]; exact arity_of_rowOK B t htok cfg.nparam hcls h1
  obtain ⟨ps, hps, hchi⟩ := row_consistent B t htok nll cfg.maxParam p.res.x p.res.f p.res.success har (by omega)
  have hp_eq : (⟨t.row.resCall, ⟨p.res.x, p.res.f, p.res.success⟩, t.row.mult⟩ : Picked α) = p := by
    cases p with
    | mk call res mult => cases res; simp only at hcall hmult; simp [t, hcall, hmult]
  rw [hp_eq] at hps
  have : some ps = some params := by rw [← hps]; exact hb
  cases this
  have hsig : t.signs = br.calls.getD p.call none := by simp [t, hcall]
  rw [hsig, hval, hlen] at hchi
  exact (Option.some.inj hchi).symm

/-! ### the example instance is lawful -/

instance : LawfulNum XH where
  lt_irrefl a := by cases a <;> simp [Num.lt, XH.lt]
  lt_trans a b c := by
    cases a <;> cases b <;> cases c <;> simp [Num.lt, XH.lt] <;> omega
  lt_cotrans a b c := by
    cases a <;> cases b <;> cases c <;> simp [Num.lt, Num.isNaN, XH.lt] <;> omega
  posInf_not_lt a := by cases a <;> simp [Num.lt, Num.posInf, XH.lt]
  nan_not_lt a := by cases a <;> simp [Num.lt, Num.nan, XH.lt]
  mul_one a := by simp [Num.mul, Num.ofInt, XH.mul]
  mul_negOne a := by simp [Num.mul, Num.ofInt, XH.mul, Num.neg]

end ESR.Optim
