import ESRVerif.Model.ToList
/-!
Helper lemmas for C18 (core Lean only).

* `Tr l`      — the arity annotation of `l` is the prefix string of exactly one tree (slot counter of `ESR.Shape`).
* `Ev S ρ l v` — right-to-left evaluation of `l` pushes exactly the value `v`.
* `Laws S`    — the identities of the number structure that the special cases of `to_list` rely on.
* `Regular`, `Faithful`, `PowPos` — hypotheses of the property theorems, as `All`-closures of node-local conditions.
* unfolding lemmas for `toListA ∘ build`, and the main induction `conv_build`.
-/
namespace ESR.ToList
open ESR.Gen.ToList ESR.Shape
open ESR.Labeling (Basis)

/-! ### prefix shape -/

def Tr (l : ALabels) : Prop := ∀ rest k, slots (l.map Prod.snd ++ rest) (k + 1) = slots rest k

theorem tr_leaf (s : String) : Tr [(s, 0)] := by
  intro rest k; simp [slots]

theorem tr_un (s : String) {l : ALabels} (h : Tr l) : Tr ((s, 1) :: l) := by
  intro rest k
  have := h rest k
  simp [slots] at this ⊢
  exact this

theorem tr_bin (s : String) {l0 l1 : ALabels} (h0 : Tr l0) (h1 : Tr l1) : Tr ((s, 2) :: l0 ++ l1) := by
  intro rest k
  have e0 := h0 (l1.map Prod.snd ++ rest) (k + 1)
  have e1 := h1 rest k
  simp only [List.cons_append, List.map_cons, List.map_append, List.append_assoc, slots]
  simp only [Nat.add_one_ne_zero, if_false, Nat.add_sub_cancel]
  rw [e0, e1]

theorem tr_bin_tail (s t : String) {l : ALabels} (h : Tr l) : Tr ((s, 2) :: l ++ [(t, 0)]) :=
  tr_bin s h (tr_leaf t)

theorem tr_valid {l : ALabels} (h : Tr l) : validShape (l.map Prod.snd) = true := by
  have := h [] 0
  simp [slots] at this
  simp [validShape, this]

/-! ### evaluation -/

variable {α : Type}

def Ev (S : Sem α) (ρ : String → α) (l : ALabels) (v : α) : Prop :=
  ∀ stk, runLabels S ρ l stk = some (v :: stk)

theorem runLabels_cons (S : Sem α) (ρ : String → α) (t : String × Nat) (l : ALabels) (stk : List α) :
    runLabels S ρ (t :: l) stk = evalStep S ρ t (runLabels S ρ l stk) := rfl

theorem runLabels_append (S : Sem α) (ρ : String → α) (l0 l1 : ALabels) (stk v) (h : runLabels S ρ l1 stk = some v) :
    runLabels S ρ (l0 ++ l1) stk = runLabels S ρ l0 v := by
  unfold runLabels at *
  rw [List.foldr_append, h]

theorem ev_leaf (S : Sem α) (ρ : String → α) (s : String) : Ev S ρ [(s, 0)] (leafSem S ρ (canon s)) := by
  intro stk; simp [runLabels, evalStep]

theorem ev_un (S : Sem α) (ρ : String → α) (s : String) {l : ALabels} {v : α} (h : Ev S ρ l v) :
    Ev S ρ ((s, 1) :: l) (opSem1 S (canon s) v) := by
  intro stk; rw [runLabels_cons, h stk]; simp [evalStep]

theorem ev_bin (S : Sem α) (ρ : String → α) (s : String) {l0 l1 : ALabels} {v0 v1 : α}
    (h0 : Ev S ρ l0 v0) (h1 : Ev S ρ l1 v1) : Ev S ρ ((s, 2) :: l0 ++ l1) (opSem2 S (canon s) v0 v1) := by
  intro stk
  rw [List.cons_append, runLabels_cons, runLabels_append S ρ l0 l1 stk _ (h1 stk), h0]
  simp [evalStep]

theorem ev_evalLabels {S : Sem α} {ρ : String → α} {l : ALabels} {v : α} (h : Ev S ρ l v) :
    evalLabels S ρ l = some v := by
  simp [evalLabels, h []]

theorem ev_congr {S : Sem α} {ρ : String → α} {l : ALabels} {v w : α} (h : Ev S ρ l v) (e : v = w) : Ev S ρ l w := e ▸ h

/-! ### laws -/

/-- The identities used by the special cases; `Pos` is "positive" (where `|a| = a` and the power laws hold). -/
structure Laws (S : Sem α) where
  Pos : α → Prop
  abs_pos : ∀ a, Pos a → S.abs a = a
  pow_two : ∀ a, Pos a → S.pow a (S.ofRat 2 1) = S.mul a a
  pow_three : ∀ a, Pos a → S.pow a (S.ofRat 3 1) = S.mul (S.mul a a) a
  pow_half : ∀ a, Pos a → S.pow a (S.ofRat 1 2) = S.sqrt a
  pow_neg_one : ∀ a, Pos a → S.pow a (S.ofRat (-1) 1) = S.inv a
  mul_pow_neg_one : ∀ a b, Pos b → S.mul a (S.pow b (S.ofRat (-1) 1)) = S.div a b
  one_mul : ∀ a, S.mul (S.ofRat 1 1) a = a
  mul_one : ∀ a, S.mul a (S.ofRat 1 1) = a
  add_neg_one_mul : ∀ a b, S.add a (S.mul (S.ofRat (-1) 1) b) = S.sub a b
  add_mul_neg_one : ∀ a b, S.add a (S.mul b (S.ofRat (-1) 1)) = S.sub a b
  log_abs : ∀ a, S.log (S.abs a) = S.log a
  lit_two : S.lit "2" = S.ofRat 2 1
  lit_three : S.lit "3" = S.ofRat 3 1
  lit_one : ∀ s, pyFloatIsOne s = true → S.lit s = S.ofRat 1 1

/-! ### closures of node-local conditions -/

/-- `P` holds at every node of the expression (for a node with more than two arguments: at the node, at its first
argument and at the `as_two_terms` remainder). -/
def All (P : SymExpr → Prop) : SymExpr → Prop
  | .atom h => P (.atom h)
  | .app1 h a => P (.app1 h a) ∧ All P a
  | .app2 h a b => P (.app2 h a b) ∧ All P a ∧ All P b
  | .appN h n a r => P (.appN h n a r) ∧ All P a ∧ All P r

theorem All.here {P : SymExpr → Prop} {e : SymExpr} (h : All P e) : P e := by
  cases e <;> simp [All] at h <;> first | exact h | exact h.1

/-- class names on which `to_list` tests `self.op` and that `__init__` itself assigns or that sympy reserves for one
argument; no sympy node with two or more arguments carries them. -/
def reservedOps : List String := [tl.unsquareOp, tl.uncubeOp, tl.divInvOp, tl.absOp, tl.passOp]

/-- Node-local regularity: the node is one sympy builds (no `Pow` with fewer than two arguments, `as_two_terms` only on
Add/Mul, no multi-argument node named like an `__init__` product) and is NOT of the two shapes on which `to_list`
takes the "* inv" / "/ inv" branch. -/
def RegLoc (B : Basis) : SymExpr → Prop
  | .atom h => powLike h.cls = false ∧ h.cls ≠ tl.subKidOp
  | .app1 h _ => powLike h.cls = false ∧ h.cls ≠ tl.subKidOp
  | .app2 h a b =>
    h.cls ∉ reservedOps ∧
    (match classify B h b with
     | .plain => ¬ (h.cls = tl.mulInvOp ∧ (build B none a).op = tl.mulInvKidOp ∧ b.cls = tl.mulInvTyp ∧ tl.mulInvBasis ∈ B.b2)
     | .div _ => (match b with
        | .app2 _ b0 _ => ¬ ((build B none a).op = tl.divInvKidOp ∧ b0.cls = tl.divInvTyp ∧ tl.divInvBasis ∈ B.b2)
        | _ => True)
     | .unary _ => True)
  | .appN h n a r =>
    2 ≤ n ∧ h.cls ∈ twoTermClasses ∧ powLike h.cls = false ∧
    ¬ (h.cls = tl.mulInvOp ∧ (build B none a).op = tl.mulInvKidOp ∧ r.cls = tl.mulInvTyp ∧ tl.mulInvBasis ∈ B.b2)

def Regular (B : Basis) (e : SymExpr) : Prop := All (RegLoc B) e

/-- `str(self.val)` of the node built from head `h`. -/
def headValStr (h : Head) : String := match valOf h with | some s => s | none => "None"

/-- Node-local faithfulness of sympy's printing and class invariants (third-party contracts). -/
def FaithLoc (S : Sem α) (ρ : String → α) : SymExpr → Prop := fun e =>
  (∀ h, e = .atom h → leafSem S ρ (canon (headValStr h)) = evalSym S ρ e) ∧
  (∀ s, valOf e.head = some s → isFloatLabel s = true → evalSym S ρ e = S.lit s) ∧
  (e.cls = "NegativeOne" → evalSym S ρ e = S.ofRat (-1) 1) ∧
  (e.cls = "Half" → evalSym S ρ e = S.ofRat 1 2)

def Faithful (S : Sem α) (ρ : String → α) (e : SymExpr) : Prop := All (FaithLoc S ρ) e

/-- All power bases are positive at `ρ`. -/
def PowLoc (S : Sem α) (L : Laws S) (ρ : String → α) : SymExpr → Prop
  | .app2 h a _ => h.cls = "Pow" → L.Pos (evalSym S ρ a)
  | _ => True

def PowPos (S : Sem α) (L : Laws S) (ρ : String → α) (e : SymExpr) : Prop := All (PowLoc S L ρ) e

/-! ### `__init__` -/

theorem classify_unary {B : Basis} {h : Head} {b : SymExpr} {op : String} (hc : classify B h b = .unary op) :
    h.cls = "Pow" ∧
    ((op = "Square" ∧ eqConst b (.int 2) = true) ∨ (op = "Cube" ∧ eqConst b (.int 3) = true ∧ "cube" ∈ B.b1) ∨
     (op = "Sqrt" ∧ eqConst b (.pyfloat 1 2) = true) ∨ (op = "Inv" ∧ eqConst b (.int (-1)) = true)) := by
  simp only [classify, initRules, classifyWith, ruleFires] at hc
  repeat' split at hc
  all_goals simp_all [basisOk]

theorem classify_div {B : Basis} {h : Head} {b : SymExpr} {op : String} (hc : classify B h b = .div op) :
    op = "Div" ∧ h.cls = "Mul" ∧ ∃ hb b0 b1, b = .app2 hb b0 b1 ∧ hb.cls = "Pow" ∧ eqConst b1 (.int (-1)) = true := by
  simp only [classify, initRules, classifyWith, ruleFires] at hc
  repeat' split at hc
  all_goals try simp_all [basisOk, SymExpr.cls, SymExpr.head]
  rename_i hh
  exact ⟨_, _, _, ⟨rfl, rfl, rfl⟩, of_decide_eq_true hh.2.1, hh.2.2⟩

theorem build_op_indep (B : Basis) (p q : Option String) (e : SymExpr) : (build B p e).op = (build B q e).op := by
  cases e with
  | atom h => simp only [build]; split <;> simp [DNode.op, DNode.info?, mkInfo]
  | app1 h a => simp only [build]; split <;> simp [DNode.op, DNode.info?, mkInfo]
  | app2 h a b =>
    simp only [build]
    split
    · simp [DNode.op, DNode.info?, mkInfo]
    · split <;> simp [DNode.op, DNode.info?, mkInfo]
    · simp [DNode.op, DNode.info?, mkInfo]
  | appN h n a r =>
    simp only [build]
    split
    · rfl
    · split <;> simp [DNode.op, DNode.info?, mkInfo]


/-! ### unfolding `toListA` -/

def DNode.grand (B : Basis) : DNode → Option ((Unit → Option ALabels) × (Unit → Option ALabels))
  | .n2 _ g0 g1 => some (fun _ => toListA B g0, fun _ => toListA B g1)
  | _ => none

theorem toListA_n2 (B : Basis) (i : Info) (c0 c1 : DNode) :
    toListA B (.n2 i c0 c1) = n2Chain B i c0 c1 (toListA B c0) (toListA B c1) c1.kidOps (DNode.grand B c1) := by
  cases c1 <;> simp [toListA, DNode.kidOps, DNode.grand]

theorem toListA_n1 (B : Basis) (i : Info) (c : DNode) : toListA B (.n1 i c) = n1Chain B i c (toListA B c) := by
  simp [toListA]

variable {α : Type}

/-- `d` converts to a list that is one tree and (under `H`) evaluates to `v`. -/
def Conv (S : Sem α) (ρ : String → α) (B : Basis) (H : Prop) (d : DNode) (v : α) : Prop :=
  ∃ l, toListA B d = some l ∧ Tr l ∧ (H → Ev S ρ l v)

section conv
variable (S : Sem α) (ρ : String → α) (B : Basis) (H : Prop)

theorem conv_leaf (i : Info) (hd : i.degree = 0) (v : α) (hv : H → leafSem S ρ (canon (valStr i)) = v) :
    Conv S ρ B H (.n0 i) v :=
  ⟨[(valStr i, 0)], by simp [toListA, hd], tr_leaf _, fun hH => ev_congr (ev_leaf S ρ _) (hv hH)⟩

theorem conv_n1_deg1 (i : Info) (hd : i.degree = 1) (c : DNode) (vc : α) (hc : Conv S ρ B H c vc) :
    Conv S ρ B H (.n1 i c) (opSem1 S (canon i.op) vc) := by
  obtain ⟨l, e, t, s⟩ := hc
  exact ⟨(i.op, 1) :: l, by simp [toListA_n1, n1Chain, hd, e], tr_un _ t, fun hH => ev_un S ρ _ (s hH)⟩

theorem conv_plain (i : Info) (hd : 2 ≤ i.degree) (c0 c1 : DNode) (v0 v1 : α)
    (hop : i.op ≠ "Pow" ∧ i.op ≠ "Square" ∧ i.op ≠ "Cube" ∧ i.op ≠ "Mul" ∧ i.op ≠ "Div" ∧ i.op ≠ "Abs" ∧ i.op ≠ "Add")
    (h0 : Conv S ρ B H c0 v0) (h1 : Conv S ρ B H c1 v1) :
    Conv S ρ B H (.n2 i c0 c1) (opSem2 S (canon i.op) v0 v1) := by
  obtain ⟨l0, e0, t0, s0⟩ := h0
  obtain ⟨l1, e1, t1, s1⟩ := h1
  obtain ⟨o1, o2, o3, o4, o5, o6, o7⟩ := hop
  have hd0 : i.degree ≠ 0 := by omega
  have hd1 : i.degree ≠ 1 := by omega
  refine ⟨(i.op, 2) :: l0 ++ l1, ?_, tr_bin _ t0 t1, fun hH => ev_bin S ρ _ (s0 hH) (s1 hH)⟩
  rw [toListA_n2]
  simp [n2Chain, tl, hd0, hd1, o1, o2, o3, o4, o5, o6, o7, e0, e1]

end conv
/-! ### the branches of `to_list`, node by node -/

theorem n2Chain_pow (B : Basis) (i : Info) (c0 c1 : DNode) (r0 r1 g rg) (hop : i.op = "Pow") (hd : 2 ≤ i.degree) :
    n2Chain B i c0 c1 r0 r1 g rg =
      if c1.typ = "Half" ∧ ("sqrt" ∈ B.b1 ∨ "sqrt_abs" ∈ B.b1) then
        r0.map ((if "sqrt" ∈ B.b1 then "sqrt" else "sqrt_abs", 1) :: ·)
      else if c1.val = some "2" ∧ "square" ∈ B.b1 then r0.map (("square", 1) :: ·)
      else if c1.val = some "3" ∧ "cube" ∈ B.b1 then r0.map (("cube", 1) :: ·)
      else if c1.typ = "NegativeOne" ∧ "inv" ∈ B.b1 then r0.map (("Inv", 1) :: ·)
      else r0.bind fun l0 => r1.map fun l1 => ("Pow", 2) :: l0 ++ l1 := by
  have hd0 : i.degree ≠ 0 := by omega
  have hd1 : i.degree ≠ 1 := by omega
  simp [n2Chain, tl, hop, hd0, hd1]
  congr

section conv
variable (S : Sem α) (ρ : String → α) (B : Basis) (H : Prop)

theorem conv_div (i : Info) (hd : 2 ≤ i.degree) (c0 c1 : DNode) (v0 v1 : α) (hop : i.op = "Div")
    (hnobug : ¬ (c0.op = "Pow" ∧ c1.typ = "NegativeOne" ∧ "*" ∈ B.b2))
    (h0 : Conv S ρ B H c0 v0) (h1 : Conv S ρ B H c1 v1) :
    Conv S ρ B H (.n2 i c0 c1) (S.div v0 v1) := by
  obtain ⟨l0, e0, t0, s0⟩ := h0
  obtain ⟨l1, e1, t1, s1⟩ := h1
  have hd0 : i.degree ≠ 0 := by omega
  have hd1 : i.degree ≠ 1 := by omega
  refine ⟨(i.op, 2) :: l0 ++ l1, ?_, tr_bin _ t0 t1, fun hH => ev_congr (ev_bin S ρ _ (s0 hH) (s1 hH)) ?_⟩
  · rw [toListA_n2]
    simp [n2Chain, tl, hd0, hd1, hop, e0, e1]
    intro a b c; exact absurd ⟨a, b, c⟩ hnobug
  · rw [hop]; have : canon "Div" = "/" := by decide
    simp [this, opSem2]

theorem conv_mul (L : Laws S) (i : Info) (hd : 2 ≤ i.degree) (c0 c1 : DNode) (v0 v1 : α) (hop : i.op = "Mul")
    (hnobug : ¬ (c0.op = "Pow" ∧ c1.typ = "NegativeOne" ∧ "/" ∈ B.b2))
    (h0 : Conv S ρ B H c0 v0) (h1 : Conv S ρ B H c1 v1)
    (hu : H → (isUnity c0 = true → v0 = S.ofRat 1 1) ∧ (isUnity c1 = true → v1 = S.ofRat 1 1)) :
    Conv S ρ B H (.n2 i c0 c1) (S.mul v0 v1) := by
  obtain ⟨l0, e0, t0, s0⟩ := h0
  obtain ⟨l1, e1, t1, s1⟩ := h1
  have hd0 : i.degree ≠ 0 := by omega
  have hd1 : i.degree ≠ 1 := by omega
  have hc : canon "Mul" = "*" := by decide
  by_cases u0 : isUnity c0 = true
  · refine ⟨l1, ?_, t1, fun hH => ev_congr (s1 hH) ?_⟩
    · rw [toListA_n2]
      simp [n2Chain, tl, hd0, hd1, hop, e1, u0]
      intro a b c; exact absurd ⟨a, b, c⟩ hnobug
    · rw [(hu hH).1 u0, L.one_mul]
  · by_cases u1 : isUnity c1 = true
    · refine ⟨l0, ?_, t0, fun hH => ev_congr (s0 hH) ?_⟩
      · rw [toListA_n2]
        simp [n2Chain, tl, hd0, hd1, hop, e0, e1, u0, u1]
        intro a b c; exact absurd ⟨a, b, c⟩ hnobug
      · rw [(hu hH).2 u1, L.mul_one]
    · refine ⟨(i.op, 2) :: l0 ++ l1, ?_, tr_bin _ t0 t1, fun hH => ev_congr (ev_bin S ρ _ (s0 hH) (s1 hH)) ?_⟩
      · rw [toListA_n2]
        simp [n2Chain, tl, hd0, hd1, hop, e0, e1, u0, u1]
        intro a b c; exact absurd ⟨a, b, c⟩ hnobug
      · rw [hop]; simp [hc, opSem2]


theorem conv_pow (L : Laws S) (i : Info) (hd : 2 ≤ i.degree) (c0 c1 : DNode) (v0 v1 : α) (hop : i.op = "Pow")
    (h0 : Conv S ρ B H c0 v0) (h1 : Conv S ρ B H c1 v1)
    (hf : H → L.Pos v0 ∧ (c1.typ = "Half" → v1 = S.ofRat 1 2) ∧ (c1.val = some "2" → v1 = S.ofRat 2 1) ∧
      (c1.val = some "3" → v1 = S.ofRat 3 1) ∧ (c1.typ = "NegativeOne" → v1 = S.ofRat (-1) 1)) :
    Conv S ρ B H (.n2 i c0 c1) (S.pow v0 v1) := by
  obtain ⟨l0, e0, t0, s0⟩ := h0
  obtain ⟨l1, e1, t1, s1⟩ := h1
  have hd0 : i.degree ≠ 0 := by omega
  have hd1 : i.degree ≠ 1 := by omega
  rw [Conv, toListA_n2, n2Chain_pow B i c0 c1 _ _ _ _ hop hd, e0, e1]
  split
  · -- sqrt / sqrt_abs
    rename_i hc
    refine ⟨_, rfl, tr_un _ t0, fun hH => ev_congr (ev_un S ρ _ (s0 hH)) ?_⟩
    obtain ⟨hp, hh, -⟩ := hf hH
    rw [hh hc.1, L.pow_half _ hp]
    split
    · have : canon "sqrt" = "sqrt" := by decide
      simp [this, opSem1, L.abs_pos _ hp]
    · have : canon "sqrt_abs" = "sqrt_abs" := by decide
      simp [this, opSem1, L.abs_pos _ hp]
  · split
    · -- square
      rename_i hc
      refine ⟨_, rfl, tr_un _ t0, fun hH => ev_congr (ev_un S ρ _ (s0 hH)) ?_⟩
      obtain ⟨hp, -, h2, -⟩ := hf hH
      have : canon "square" = "square" := by decide
      rw [h2 hc.1, L.pow_two _ hp]; simp [this, opSem1]
    · split
      · -- cube
        rename_i hc
        refine ⟨_, rfl, tr_un _ t0, fun hH => ev_congr (ev_un S ρ _ (s0 hH)) ?_⟩
        obtain ⟨hp, -, -, h3, -⟩ := hf hH
        have : canon "cube" = "cube" := by decide
        rw [h3 hc.1, L.pow_three _ hp]; simp [this, opSem1]
      · split
        · -- Inv
          rename_i hc
          refine ⟨_, rfl, tr_un _ t0, fun hH => ev_congr (ev_un S ρ _ (s0 hH)) ?_⟩
          obtain ⟨hp, -, -, -, hm⟩ := hf hH
          have : canon "Inv" = "inv" := by decide
          rw [hm hc.1, L.pow_neg_one _ hp]; simp [this, opSem1]
        · refine ⟨("Pow", 2) :: l0 ++ l1, by simp, tr_bin _ t0 t1, fun hH => ev_congr (ev_bin S ρ _ (s0 hH) (s1 hH)) ?_⟩
          have : canon "Pow" = "pow" := by decide
          simp [this, opSem2, L.abs_pos _ (hf hH).1]

end conv

theorem n2Chain_add (B : Basis) (i : Info) (c0 c1 : DNode) (r0 r1 g rg) (hop : i.op = "Add") (hd : 2 ≤ i.degree) :
    n2Chain B i c0 c1 r0 r1 g rg =
      if c1.op = "Mul" then
        (match g, rg with
         | some (g0op, g1op), some (rg0, rg1) =>
           if g0op = "NegativeOne" ∨ g1op = "NegativeOne" then
             (if g0op = "NegativeOne" then r0.bind fun l0 => (rg1 ()).map fun l1 => ("Sub", 2) :: l0 ++ l1
              else r0.bind fun l0 => (rg0 ()).map fun l1 => ("Sub", 2) :: l0 ++ l1)
           else r0.bind fun l0 => r1.map fun l1 => ("Add", 2) :: l0 ++ l1
         | _, _ => none)
      else r0.bind fun l0 => r1.map fun l1 => ("Add", 2) :: l0 ++ l1 := by
  have hd0 : i.degree ≠ 0 := by omega
  have hd1 : i.degree ≠ 1 := by omega
  simp [n2Chain, tl, hop, hd0, hd1]
  congr

section conv
variable (S : Sem α) (ρ : String → α) (B : Basis) (H : Prop)

theorem conv_add (L : Laws S) (i : Info) (hd : 2 ≤ i.degree) (c0 c1 : DNode) (v0 v1 : α) (hop : i.op = "Add")
    (h0 : Conv S ρ B H c0 v0) (h1 : Conv S ρ B H c1 v1)
    (hsub : c1.op = "Mul" → ∃ j g0 g1 w0 w1, c1 = .n2 j g0 g1 ∧ Conv S ρ B H g0 w0 ∧ Conv S ρ B H g1 w1 ∧
        (H → v1 = S.mul w0 w1 ∧ (g0.op = "NegativeOne" → w0 = S.ofRat (-1) 1) ∧ (g1.op = "NegativeOne" → w1 = S.ofRat (-1) 1))) :
    Conv S ρ B H (.n2 i c0 c1) (S.add v0 v1) := by
  obtain ⟨l0, e0, t0, s0⟩ := h0
  have hcA : canon "Add" = "+" := by decide
  have hcS : canon "Sub" = "-" := by decide
  rw [Conv, toListA_n2, n2Chain_add B i c0 c1 _ _ _ _ hop hd, e0]
  by_cases hm : c1.op = "Mul"
  · obtain ⟨j, g0, g1, w0, w1, rfl, ⟨lg0, eg0, tg0, sg0⟩, ⟨lg1, eg1, tg1, sg1⟩, hw⟩ := hsub hm
    obtain ⟨l1, e1, t1, s1⟩ := h1
    simp only [hm, if_true, DNode.kidOps, DNode.grand, e1, eg0, eg1]
    by_cases n0 : g0.op = "NegativeOne"
    · refine ⟨("Sub", 2) :: l0 ++ lg1, by simp [n0], tr_bin _ t0 tg1, fun hH => ev_congr (ev_bin S ρ _ (s0 hH) (sg1 hH)) ?_⟩
      obtain ⟨hv, hn0, -⟩ := hw hH
      rw [hv, hn0 n0, L.add_neg_one_mul]; simp [hcS, opSem2]
    · by_cases n1 : g1.op = "NegativeOne"
      · refine ⟨("Sub", 2) :: l0 ++ lg0, by simp [n0, n1], tr_bin _ t0 tg0, fun hH => ev_congr (ev_bin S ρ _ (s0 hH) (sg0 hH)) ?_⟩
        obtain ⟨hv, -, hn1⟩ := hw hH
        rw [hv, hn1 n1, L.add_mul_neg_one]; simp [hcS, opSem2]
      · refine ⟨("Add", 2) :: l0 ++ l1, by simp [n0, n1], tr_bin _ t0 t1, fun hH => ev_congr (ev_bin S ρ _ (s0 hH) (s1 hH)) ?_⟩
        simp [hcA, opSem2]
  · obtain ⟨l1, e1, t1, s1⟩ := h1
    refine ⟨("Add", 2) :: l0 ++ l1, by simp [hm, e1], tr_bin _ t0 t1, fun hH => ev_congr (ev_bin S ρ _ (s0 hH) (s1 hH)) ?_⟩
    simp [hcA, opSem2]

end conv

theorem n1Chain_square (B : Basis) (i : Info) (c : DNode) (r) (hop : i.op = "Square") (hd : 2 ≤ i.degree) :
    n1Chain B i c r = if "sqaure" ∉ B.b1 then r.map (fun l => ("pow", 2) :: l ++ [("2", 0)]) else r.map (("Square", 1) :: ·) := by
  have hd0 : i.degree ≠ 0 := by omega
  have hd1 : i.degree ≠ 1 := by omega
  simp [n1Chain, tl, hop, hd0, hd1]

theorem n1Chain_cube (B : Basis) (i : Info) (c : DNode) (r) (hop : i.op = "Cube") (hd : 2 ≤ i.degree) :
    n1Chain B i c r = if "cube" ∉ B.b1 then r.map (fun l => ("pow", 2) :: l ++ [("3", 0)]) else r.map (("Cube", 1) :: ·) := by
  have hd0 : i.degree ≠ 0 := by omega
  have hd1 : i.degree ≠ 1 := by omega
  simp [n1Chain, tl, hop, hd0, hd1]

theorem n1Chain_sqrt (B : Basis) (i : Info) (c : DNode) (r) (hop : i.op = "Sqrt") (hd : 2 ≤ i.degree) :
    n1Chain B i c r = r.map (("Sqrt", 1) :: ·) := by
  have hd0 : i.degree ≠ 0 := by omega
  have hd1 : i.degree ≠ 1 := by omega
  simp [n1Chain, tl, hop, hd0, hd1]

theorem n1Chain_inv (B : Basis) (i : Info) (c : DNode) (r) (hop : i.op = "Inv") (hd : 2 ≤ i.degree) :
    n1Chain B i c r = r.map (("Inv", 1) :: ·) := by
  have hd0 : i.degree ≠ 0 := by omega
  have hd1 : i.degree ≠ 1 := by omega
  simp [n1Chain, tl, hop, hd0, hd1]

section conv
variable (S : Sem α) (ρ : String → α) (B : Basis) (H : Prop)

theorem conv_square (L : Laws S) (i : Info) (hd : 2 ≤ i.degree) (c : DNode) (vc : α) (hop : i.op = "Square")
    (hc : Conv S ρ B H c vc) (hp : H → L.Pos vc) : Conv S ρ B H (.n1 i c) (S.pow vc (S.ofRat 2 1)) := by
  obtain ⟨l, e, t, s⟩ := hc
  rw [Conv, toListA_n1, n1Chain_square B i c _ hop hd, e]
  split
  · refine ⟨_, rfl, tr_bin_tail _ _ t, fun hH => ev_congr (ev_bin S ρ _ (s hH) (ev_leaf S ρ "2")) ?_⟩
    have h1 : canon "pow" = "pow" := by decide
    have h2 : canon "2" = "2" := by decide
    have h3 : isFloatLabel "2" = true := by decide
    simp [h1, h2, h3, opSem2, leafSem, L.abs_pos _ (hp hH), L.lit_two]
  · refine ⟨_, rfl, tr_un _ t, fun hH => ev_congr (ev_un S ρ _ (s hH)) ?_⟩
    have h1 : canon "Square" = "square" := by decide
    simp [h1, opSem1, L.pow_two _ (hp hH)]

theorem conv_cube (L : Laws S) (i : Info) (hd : 2 ≤ i.degree) (c : DNode) (vc : α) (hop : i.op = "Cube")
    (hc : Conv S ρ B H c vc) (hp : H → L.Pos vc) : Conv S ρ B H (.n1 i c) (S.pow vc (S.ofRat 3 1)) := by
  obtain ⟨l, e, t, s⟩ := hc
  rw [Conv, toListA_n1, n1Chain_cube B i c _ hop hd, e]
  split
  · refine ⟨_, rfl, tr_bin_tail _ _ t, fun hH => ev_congr (ev_bin S ρ _ (s hH) (ev_leaf S ρ "3")) ?_⟩
    have h1 : canon "pow" = "pow" := by decide
    have h2 : canon "3" = "3" := by decide
    have h3 : isFloatLabel "3" = true := by decide
    simp [h1, h2, h3, opSem2, leafSem, L.abs_pos _ (hp hH), L.lit_three]
  · refine ⟨_, rfl, tr_un _ t, fun hH => ev_congr (ev_un S ρ _ (s hH)) ?_⟩
    have h1 : canon "Cube" = "cube" := by decide
    simp [h1, opSem1, L.pow_three _ (hp hH)]

theorem conv_sqrt (L : Laws S) (i : Info) (hd : 2 ≤ i.degree) (c : DNode) (vc : α) (hop : i.op = "Sqrt")
    (hc : Conv S ρ B H c vc) (hp : H → L.Pos vc) : Conv S ρ B H (.n1 i c) (S.pow vc (S.ofRat 1 2)) := by
  obtain ⟨l, e, t, s⟩ := hc
  rw [Conv, toListA_n1, n1Chain_sqrt B i c _ hop hd, e]
  refine ⟨_, rfl, tr_un _ t, fun hH => ev_congr (ev_un S ρ _ (s hH)) ?_⟩
  have h1 : canon "Sqrt" = "sqrt" := by decide
  simp [h1, opSem1, L.pow_half _ (hp hH), L.abs_pos _ (hp hH)]

theorem conv_inv (L : Laws S) (i : Info) (hd : 2 ≤ i.degree) (c : DNode) (vc : α) (hop : i.op = "Inv")
    (hc : Conv S ρ B H c vc) (hp : H → L.Pos vc) : Conv S ρ B H (.n1 i c) (S.pow vc (S.ofRat (-1) 1)) := by
  obtain ⟨l, e, t, s⟩ := hc
  rw [Conv, toListA_n1, n1Chain_inv B i c _ hop hd, e]
  refine ⟨_, rfl, tr_un _ t, fun hH => ev_congr (ev_un S ρ _ (s hH)) ?_⟩
  have h1 : canon "Inv" = "inv" := by decide
  simp [h1, opSem1, L.pow_neg_one _ (hp hH)]

end conv
/-! ### facts about built nodes -/

theorem Conv.congr {S : Sem α} {ρ : String → α} {B : Basis} {H : Prop} {d : DNode} {v w : α}
    (h : Conv S ρ B H d v) (e : H → v = w) : Conv S ρ B H d w := by
  obtain ⟨l, a, b, c⟩ := h
  exact ⟨l, a, b, fun hH => ev_congr (c hH) (e hH)⟩

theorem evalSym_eqConst_int (S : Sem α) (ρ : String → α) (b : SymExpr) (k : Int) (h : eqConst b (.int k) = true) :
    evalSym S ρ b = S.ofRat k 1 := by
  cases b <;> simp [eqConst] at h
  rename_i hd
  simp [evalSym, h]

theorem evalSym_eqConst_float (S : Sem α) (ρ : String → α) (b : SymExpr) (p : Int) (q : Nat) (h : eqConst b (.pyfloat p q) = true) :
    evalSym S ρ b = S.ofRat p q := by
  cases b <;> simp [eqConst] at h
  rename_i hd
  simp [evalSym, h]

/-- typ / val / op of a built regular node -/
theorem build_facts {B : Basis} (p : Option String) {e : SymExpr} (hr : RegLoc B e) :
    (build B p e).typ = e.cls ∧ (build B p e).val = valOf e.head ∧
    ((build B p e).op = e.cls ∨ (build B p e).op ∈ ["Square", "Cube", "Sqrt", "Div", "Inv"]) := by
  cases e with
  | atom h => simp [RegLoc] at hr; simp [build, hr.1, DNode.typ, DNode.val, DNode.op, DNode.info?, mkInfo, SymExpr.cls, SymExpr.head]
  | app1 h a => simp [RegLoc] at hr; simp [build, hr.1, DNode.typ, DNode.val, DNode.op, DNode.info?, mkInfo, SymExpr.cls, SymExpr.head]
  | app2 h a b =>
    cases hk : classify B h b with
    | plain => simp [build, hk, DNode.typ, DNode.val, DNode.op, DNode.info?, mkInfo, SymExpr.cls, SymExpr.head]
    | unary op =>
      obtain ⟨-, hc⟩ := classify_unary hk
      simp [build, hk, DNode.typ, DNode.val, DNode.op, DNode.info?, mkInfo, SymExpr.cls, SymExpr.head]
      rcases hc with ⟨rfl, -⟩ | ⟨rfl, -⟩ | ⟨rfl, -⟩ | ⟨rfl, -⟩ <;> simp
    | div op =>
      obtain ⟨rfl, -, hb, b0, b1, rfl, -⟩ := classify_div hk
      simp [build, hk, DNode.typ, DNode.val, DNode.op, DNode.info?, mkInfo, SymExpr.cls, SymExpr.head]
  | appN h n a r =>
    simp [RegLoc] at hr
    simp [build, hr.2.2.1, hr.2.1, DNode.typ, DNode.val, DNode.op, DNode.info?, mkInfo, SymExpr.cls, SymExpr.head]

/-- a built regular node whose op is "Mul" has two children, built from the two (as_two_terms) arguments -/
theorem build_mul {B : Basis} (p : Option String) {b : SymExpr} (hr : RegLoc B b) (hop : (build B p b).op = "Mul") :
    ∃ j b0 b1, build B p b = .n2 j (build B (some "Mul") b0) (build B (some "Mul") b1) ∧
      b0.size < b.size ∧ b1.size < b.size ∧ (∀ P, All P b → All P b0 ∧ All P b1) ∧
      (∀ (S : Sem α) (ρ : String → α), evalSym S ρ b = S.mul (evalSym S ρ b0) (evalSym S ρ b1)) := by
  cases b with
  | atom h => simp [RegLoc, tl] at hr; simp [build, hr.1, DNode.op, DNode.info?, mkInfo] at hop; exact absurd hop hr.2
  | app1 h a => simp [RegLoc, tl] at hr; simp [build, hr.1, DNode.op, DNode.info?, mkInfo] at hop; exact absurd hop hr.2
  | app2 h a b =>
    cases hk : classify B h b with
    | plain =>
      simp [build, hk, DNode.op, DNode.info?, mkInfo] at hop
      refine ⟨mkInfo h "Mul" 2 p, a, b, by simp [build, hk, hop], by simp [SymExpr.size]; omega, by simp [SymExpr.size]; omega, ?_, ?_⟩
      · intro P h; exact ⟨h.2.1, h.2.2⟩
      · intro S ρ; simp [evalSym, symFn2, hop]
    | unary op =>
      obtain ⟨-, hc⟩ := classify_unary hk
      simp [build, hk, DNode.op, DNode.info?, mkInfo] at hop
      rcases hc with ⟨rfl, -⟩ | ⟨rfl, -⟩ | ⟨rfl, -⟩ | ⟨rfl, -⟩ <;> simp at hop
    | div op =>
      obtain ⟨rfl, -, hb, b0, b1, rfl, -⟩ := classify_div hk
      simp [build, hk, DNode.op, DNode.info?, mkInfo] at hop
  | appN h n a r =>
    simp [RegLoc] at hr
    simp [build, hr.2.2.1, hr.2.1, DNode.op, DNode.info?, mkInfo] at hop
    have hpl : powLike "Mul" = false := by decide
    have hm : "Mul" ∈ twoTermClasses := by decide
    refine ⟨mkInfo h "Mul" n p, a, r, by simp [build, hop, hpl, hm], by simp [SymExpr.size]; omega, by simp [SymExpr.size]; omega, ?_, ?_⟩
    · intro P h; exact ⟨h.2.1, h.2.2⟩
    · intro S ρ; simp [evalSym, symFn2, hop]


theorem takeWhile_of_all {β : Type} (p : β → Bool) : ∀ l : List β, (∀ a ∈ l, p a = true) → l.takeWhile p = l := by
  intro l
  induction l with
  | nil => intro _; rfl
  | cons a t ih =>
    intro h
    have ha : p a = true := h a (by simp)
    simp [ha, ih (fun b hb => h b (by simp [hb]))]

theorem dropWhile_of_all {β : Type} (p : β → Bool) : ∀ l : List β, (∀ a ∈ l, p a = true) → l.dropWhile p = [] := by
  intro l
  induction l with
  | nil => intro _; rfl
  | cons a t ih =>
    intro h
    have ha : p a = true := h a (by simp)
    simp [ha, ih (fun b hb => h b (by simp [hb]))]

set_option exponentiation.threshold 1100 in
/-- the literal in `floatOverflowBound` is `2^1024 − 2^970` -/
theorem floatOverflowBound_eq : floatOverflowBound = 2 ^ 1024 - 2 ^ 970 := by
  decide

/-- an `int` literal parses as its digits, exponent 0, nothing left over -/
theorem parseUnsigned_of_isIntLit (cs : List Char) (h : isIntLit cs = true) :
    parseUnsigned cs = some (natOfDigits cs, 0, []) := by
  unfold isIntLit at h
  simp only [Bool.and_eq_true, Bool.not_eq_true', List.all_eq_true] at h
  obtain ⟨hne, hall⟩ := h
  have hd : cs.dropWhile Char.isDigit = [] := dropWhile_of_all _ cs hall
  have ht : cs.takeWhile Char.isDigit = cs := takeWhile_of_all _ cs hall
  unfold parseUnsigned
  simp [ht, hd, hne]

theorem isFloat_of_isOne (s : String) (h : pyFloatIsOne s = true) : isFloatLabel s = true := by
  unfold pyFloatIsOne at h
  unfold isFloatLabel isFloatChars
  generalize stripSign s.toList = sr at *
  obtain ⟨neg, r⟩ := sr
  simp only at h ⊢
  cases hp : parseUnsigned r with
  | none => simp [hp] at h
  | some t =>
    obtain ⟨m, e, rest⟩ := t
    cases rest with
    | nil =>
      simp only [hp, Bool.and_eq_true, Bool.not_eq_true'] at h
      -- an integer literal equal to one does not overflow
      simp only [Bool.not_eq_true']
      unfold intLitOverflows
      cases hi : isIntLit r with
      | false => simp
      | true =>
        have := parseUnsigned_of_isIntLit r hi
        rw [hp] at this
        simp only [Option.some.injEq, Prod.mk.injEq] at this
        obtain ⟨hm, he, -⟩ := this
        have h1 := h.2
        subst he
        simp [isOneVal] at h1
        simp only [Bool.true_and, decide_eq_false_iff_not, Nat.not_le]
        rw [← hm, h1]
        decide
    | cons c cs => simp [hp] at h
/-! ### the main induction -/

section main
variable (S : Sem α) (L : Laws S) (ρ : String → α) (B : Basis) (H : Prop)

/-- semantic hypotheses carried through the induction -/
def Hyp (e : SymExpr) : Prop := H → Faithful S ρ e ∧ PowPos S L ρ e

theorem isUnity_build {p : Option String} {e : SymExpr} (hr : RegLoc B e) (hu : isUnity (build B p e) = true) :
    ∃ s, valOf e.head = some s ∧ isFloatLabel s = true ∧ pyFloatIsOne s = true := by
  unfold isUnity at hu
  rw [(build_facts p hr).2.1] at hu
  cases hv : valOf e.head with
  | none => simp [hv] at hu
  | some s => simp [hv] at hu; exact ⟨s, rfl, isFloat_of_isOne s hu, hu⟩

theorem conv_plain_node (h : Head) (deg : Nat) (hdeg : 2 ≤ deg) (p : Option String) (a b : SymExpr)
    (hres : h.cls ∉ reservedOps)
    (hnobug : ¬ (h.cls = "Mul" ∧ (build B none a).op = "Pow" ∧ b.cls = "NegativeOne" ∧ "/" ∈ B.b2))
    (hra : Regular B a) (hrb : Regular B b)
    (IH : ∀ e' : SymExpr, e'.size ≤ a.size + b.size → ∀ p', Regular B e' → Hyp S L ρ H e' →
      Conv S ρ B H (build B p' e') (evalSym S ρ e'))
    (hHa : Hyp S L ρ H a) (hHb : Hyp S L ρ H b) (hpow : H → h.cls = "Pow" → L.Pos (evalSym S ρ a)) :
    Conv S ρ B H (.n2 (mkInfo h h.cls deg p) (build B (some h.cls) a) (build B (some h.cls) b))
      (symFn2 S h.cls (evalSym S ρ a) (evalSym S ρ b)) := by
  have ca := IH a (by omega) (some h.cls) hra hHa
  have cb := IH b (by omega) (some h.cls) hrb hHb
  have fa := build_facts (B := B) (some h.cls) hra.here
  have fb := build_facts (B := B) (some h.cls) hrb.here
  have hdg : 2 ≤ (mkInfo h h.cls deg p).degree := hdeg
  by_cases hP : h.cls = "Pow"
  · -- Pow
    refine (conv_pow S ρ B H L _ hdg _ _ _ _ (by simp [mkInfo, hP]) ca cb ?_).congr (fun _ => by simp [symFn2, hP])
    intro hH
    have fl := (hHb hH).1.here
    refine ⟨hpow hH hP, ?_, ?_, ?_, ?_⟩
    · intro ht; rw [fb.1] at ht; exact fl.2.2.2 ht
    · intro hv; rw [fb.2.1] at hv; rw [fl.2.1 "2" hv (by decide), L.lit_two]
    · intro hv; rw [fb.2.1] at hv; rw [fl.2.1 "3" hv (by decide), L.lit_three]
    · intro ht; rw [fb.1] at ht; exact fl.2.2.1 ht
  · by_cases hM : h.cls = "Mul"
    · -- Mul
      refine (conv_mul S ρ B H L _ hdg _ _ _ _ (by simp [mkInfo, hM]) ?_ ca cb ?_).congr (fun _ => by simp [symFn2, hM])
      · rw [build_op_indep B (some h.cls) none a, fb.1]
        intro hc; exact hnobug ⟨hM, hc⟩
      · intro hH
        constructor
        · intro hu
          obtain ⟨s, hv, hf, h1⟩ := isUnity_build B hra.here hu
          rw [(hHa hH).1.here.2.1 s hv hf, L.lit_one s h1]
        · intro hu
          obtain ⟨s, hv, hf, h1⟩ := isUnity_build B hrb.here hu
          rw [(hHb hH).1.here.2.1 s hv hf, L.lit_one s h1]
    · by_cases hA : h.cls = "Add"
      · -- Add
        refine (conv_add S ρ B H L _ hdg _ _ _ _ (by simp [mkInfo, hA]) ca cb ?_).congr (fun _ => by simp [symFn2, hA])
        intro hop
        obtain ⟨j, b0, b1, hb, hs0, hs1, hall, hev⟩ := build_mul (α := α) (B := B) (some h.cls) hrb.here hop
        have r01 := hall _ hrb
        have c0 := IH b0 (by omega) (some "Mul") r01.1 (fun hH => ⟨(hall _ (hHb hH).1).1, (hall _ (hHb hH).2).1⟩)
        have c1 := IH b1 (by omega) (some "Mul") r01.2 (fun hH => ⟨(hall _ (hHb hH).1).2, (hall _ (hHb hH).2).2⟩)
        refine ⟨j, _, _, _, _, hb, c0, c1, fun hH => ⟨hev S ρ, ?_, ?_⟩⟩
        · intro hn
          have f0 := build_facts (B := B) (some "Mul") r01.1.here
          rcases f0.2.2 with h' | h'
          · rw [h'] at hn; exact (hall _ (hHb hH).1).1.here.2.2.1 hn
          · rw [hn] at h'; simp at h'
        · intro hn
          have f1 := build_facts (B := B) (some "Mul") r01.2.here
          rcases f1.2.2 with h' | h'
          · rw [h'] at hn; exact (hall _ (hHb hH).1).2.here.2.2.1 hn
          · rw [hn] at h'; simp at h'
      · -- any other class
        simp [reservedOps, tl] at hres
        refine (conv_plain S ρ B H _ hdg _ _ _ _ ?_ ca cb).congr (fun _ => by simp [symFn2, hP, hM, hA, mkInfo])
        simp [mkInfo, hP, hM, hA, hres]


theorem conv_build : ∀ n : Nat, ∀ e : SymExpr, e.size ≤ n → ∀ p, Regular B e → Hyp S L ρ H e →
    Conv S ρ B H (build B p e) (evalSym S ρ e) := by
  intro n
  induction n with
  | zero => intro e he; cases e <;> simp [SymExpr.size] at he
  | succ n ih =>
    intro e he p hr hH
    cases e with
    | atom h =>
      have hl := hr.here
      simp only [RegLoc] at hl
      simp only [build, hl.1]
      refine conv_leaf S ρ B H _ rfl _ (fun hh => ?_)
      exact (hH hh).1.here.1 h rfl
    | app1 h a =>
      have hl := hr.here
      simp only [RegLoc] at hl
      simp only [build, hl.1]
      have ca := ih a (by simp [SymExpr.size] at he; omega) (some h.cls) hr.2 (fun hh => ⟨(hH hh).1.2, (hH hh).2.2⟩)
      refine (conv_n1_deg1 S ρ B H _ rfl _ _ ca).congr (fun _ => ?_)
      simp only [evalSym, symFn1, mkInfo]
      split
      · rename_i hlog
        have : canon "log" = "log" := by decide
        simp [hlog, this, opSem1, L.log_abs]
      · rfl
    | app2 h a b =>
      have hsz : a.size + b.size ≤ n := by simp [SymExpr.size] at he; omega
      have hl := hr.here
      have hHa : Hyp S L ρ H a := fun hh => ⟨(hH hh).1.2.1, (hH hh).2.2.1⟩
      have hHb : Hyp S L ρ H b := fun hh => ⟨(hH hh).1.2.2, (hH hh).2.2.2⟩
      have hpow : H → h.cls = "Pow" → L.Pos (evalSym S ρ a) := fun hh => (hH hh).2.here
      simp only [RegLoc] at hl
      cases hk : classify B h b with
      | plain =>
        simp only [hk] at hl
        simp only [build, hk]
        refine conv_plain_node S L ρ B H h 2 (by omega) p a b hl.1 ?_ hr.2.1 hr.2.2
          (fun e' he' => ih e' (by omega)) hHa hHb hpow
        simpa [tl] using hl.2
      | unary op =>
        obtain ⟨hP, hc⟩ := classify_unary hk
        simp only [build, hk]
        have ca := fun q => ih a (by omega) q hr.2.1 hHa
        have hp : H → L.Pos (evalSym S ρ a) := fun hh => hpow hh hP
        rcases hc with ⟨rfl, hb⟩ | ⟨rfl, hb, -⟩ | ⟨rfl, hb⟩ | ⟨rfl, hb⟩
        · refine (conv_square S ρ B H L _ (by simp [mkInfo]) _ _ rfl (ca _) hp).congr (fun _ => ?_)
          simp [evalSym, symFn2, hP, evalSym_eqConst_int S ρ b _ hb]
        · refine (conv_cube S ρ B H L _ (by simp [mkInfo]) _ _ rfl (ca _) hp).congr (fun _ => ?_)
          simp [evalSym, symFn2, hP, evalSym_eqConst_int S ρ b _ hb]
        · refine (conv_sqrt S ρ B H L _ (by simp [mkInfo]) _ _ rfl (ca _) hp).congr (fun _ => ?_)
          simp [evalSym, symFn2, hP, evalSym_eqConst_float S ρ b _ _ hb]
        · refine (conv_inv S ρ B H L _ (by simp [mkInfo]) _ _ rfl (ca _) hp).congr (fun _ => ?_)
          simp [evalSym, symFn2, hP, evalSym_eqConst_int S ρ b _ hb]
      | div op =>
        obtain ⟨rfl, hM, hb, b0, b1, rfl, hbP, hb1⟩ := classify_div hk
        simp only [hk] at hl
        simp only [build, hk]
        have hrb0 : Regular B b0 := hr.2.2.2.1
        have ca := ih a (by omega) (some "Div") hr.2.1 hHa
        have cb0 := ih b0 (by simp [SymExpr.size] at hsz; omega) (some "Div") hrb0
          (fun hh => ⟨(hH hh).1.2.2.2.1, (hH hh).2.2.2.2.1⟩)
        have fb0 := build_facts (B := B) (some "Div") hrb0.here
        refine (conv_div S ρ B H _ (by simp [mkInfo]) _ _ _ _ rfl ?_ ca cb0).congr (fun hh => ?_)
        · rw [build_op_indep B (some "Div") none a, fb0.1]
          simpa [tl] using hl.2
        · have hpb : L.Pos (evalSym S ρ b0) := (hH hh).2.2.2.here hbP
          simp [evalSym, symFn2, hM, hbP, evalSym_eqConst_int S ρ b1 _ hb1, L.mul_pow_neg_one _ _ hpb]
    | appN h n' a r =>
      have hsz : a.size + r.size ≤ n := by simp [SymExpr.size] at he; omega
      have hl := hr.here
      simp only [RegLoc] at hl
      simp only [build, hl.2.2.1, hl.2.1]
      refine (conv_plain_node S L ρ B H h n' hl.1 p a r ?_ ?_ hr.2.1 hr.2.2
        (fun e' he' => ih e' (by omega)) (fun hh => ⟨(hH hh).1.2.1, (hH hh).2.2.1⟩)
        (fun hh => ⟨(hH hh).1.2.2, (hH hh).2.2.2⟩) ?_).congr (fun _ => by simp [evalSym])
      · have := hl.2.1
        simp [twoTermClasses] at this
        rcases this with h' | h' <;> simp [h', reservedOps, tl]
      · simpa [tl] using hl.2.2.2
      · intro _ hP
        have := hl.2.2.1
        rw [hP] at this
        exact absurd this (by decide)

end main
/-! ### shape agreement, the one-point structure -/

/-- one-point structure: used to read off the shape part of `conv_build` -/
def unitSem : Sem Unit :=
  { add := fun _ _ => (), mul := fun _ _ => (), sub := fun _ _ => (), div := fun _ _ => (), pow := fun _ _ => (),
    abs := fun _ => (), sqrt := fun _ => (), log := fun _ => (), inv := fun _ => (), fn1 := fun _ _ => (),
    fn2 := fun _ _ _ => (), ofRat := fun _ _ => (), lit := fun _ => (), const := fun _ => () }

def unitLaws : Laws unitSem :=
  { Pos := fun _ => True, abs_pos := fun _ _ => rfl, pow_two := fun _ _ => rfl, pow_three := fun _ _ => rfl,
    pow_half := fun _ _ => rfl, pow_neg_one := fun _ _ => rfl, mul_pow_neg_one := fun _ _ _ => rfl,
    one_mul := fun _ => rfl, mul_one := fun _ => rfl, add_neg_one_mul := fun _ _ => rfl, add_mul_neg_one := fun _ _ => rfl,
    log_abs := fun _ => rfl, lit_two := rfl, lit_three := rfl, lit_one := fun _ _ => rfl }

theorem shape_of_agree (B : Basis) (l : ALabels) (h : ∀ t ∈ l, labelArity B (canon t.1) = some t.2) :
    labelsToShape B ((l.map Prod.fst).map canon) = some (l.map Prod.snd) := by
  induction l with
  | nil => simp [labelsToShape]
  | cons t l ih =>
    have h1 := h t (by simp)
    have h2 := ih (fun t' ht' => h t' (by simp [ht']))
    simp only [labelsToShape] at h2 ⊢
    simp at h2
    simp [List.mapM_cons, h1, h2]


/-! ### relabelling -/

theorem renumber_length (k : Nat) (lm : List (String × Bool)) : (renumber k lm).length = lm.length := by
  induction lm generalizing k with
  | nil => rfl
  | cons a lm ih => obtain ⟨l, m⟩ := a; cases m <;> simp [renumber, ih]

/-- an unmasked position keeps its label -/
theorem renumber_keep (k : Nat) (lm : List (String × Bool)) (j : Nat) (l : String) (h : lm[j]? = some (l, false)) :
    (renumber k lm)[j]? = some l := by
  induction lm generalizing k j with
  | nil => simp at h
  | cons a lm ih =>
    obtain ⟨l', m⟩ := a
    cases j with
    | zero => simp at h; obtain ⟨rfl, rfl⟩ := h; simp [renumber]
    | succ j => simp at h; cases m <;> simp [renumber, ih _ _ h]

/-- the labels at the masked positions, in order -/
def masked (out : List String) (mask : List Bool) : List String := ((out.zip mask).filter (·.2)).map (·.1)

/-- the masked positions receive `a k, a (k+1), …` in order of appearance -/
theorem renumber_masked (k : Nat) (lm : List (String × Bool)) :
    masked (renumber k lm) (lm.map (·.2)) = (List.range ((lm.filter (·.2)).length)).map (fun i => "a" ++ toString (k + i)) := by
  induction lm generalizing k with
  | nil => simp [masked, renumber]
  | cons a lm ih =>
    obtain ⟨l, m⟩ := a
    cases m with
    | false => simpa [masked, renumber] using ih k
    | true =>
      have := ih (k + 1)
      simp only [masked] at this
      simp [masked, renumber, this, List.range_succ_eq_map, Nat.add_assoc, Nat.add_comm 1]

theorem replaceMask_spec (lab : String) (par : Option String) :
    (replaceMask lab par = true ↔
      (isFloatLabel lab = true ∧ ¬ ∃ q, par = some q ∧ lower q = noReplaceParent) ∨ isParamLabel lab = true) := by
  unfold replaceMask
  split
  · rename_i hf
    cases par with
    | none => simp [hf]
    | some q => simp [hf]
  · rename_i hf
    simp [hf]

theorem stepNode_len {a i : Nat} {st st' : St} (h : stepNode a i st = some st') : st'.parent.length = st.parent.length := by
  unfold stepNode at h
  split at h
  · simp at h; subst h; simp
  · split at h
    · simp at h
    · simp at h; subst h; simp

theorem loop_len (as : List Nat) (i : Nat) (st : St) : (loop as i st).1.parent.length = st.parent.length := by
  induction as generalizing i st with
  | nil => simp [loop]
  | cons a as ih =>
    simp only [loop]
    split
    · rfl
    · rename_i st' h; rw [ih, stepNode_len h]

theorem checkTree_parent_len {s : List Nat} {a b parent c d} (h : checkTree s = .ok a b parent c d) :
    parent.length = s.length := by
  unfold checkTree at h
  split at h
  · simp at h; rw [← h.2.2.1]; simp
  · split at h
    · simp at h
    · unfold checkTreeMain at h
      have := loop_len s.dropLast 0 (initSt s.length)
      split at h <;> rename_i heq <;> rw [heq] at this <;> simp only [Result.ok.injEq] at h <;>
        obtain ⟨-, -, hp, -⟩ := h <;> rw [← hp] <;> simpa [initSt] using this
theorem mapM_some_length {α β : Type} (f : α → Option β) : ∀ (l : List α) (r : List β), l.mapM f = some r → r.length = l.length := by
  intro l
  induction l with
  | nil => intro r h; simp at h; subst h; rfl
  | cons a l ih =>
    intro r h
    simp [List.mapM_cons] at h
    cases ha : f a with
    | none => simp [ha] at h
    | some b =>
      cases hl : l.mapM f with
      | none => simp [ha, hl] at h
      | some r' => simp [ha, hl] at h; subst h; simp [ih r' hl]

theorem mapM_some_get {α β : Type} (f : α → Option β) : ∀ (l : List α) (r : List β), l.mapM f = some r →
    ∀ (j : Nat) a b, l[j]? = some a → r[j]? = some b → f a = some b := by
  intro l
  induction l with
  | nil => intro r h j a b ha; simp at ha
  | cons x l ih =>
    intro r h j a b ha hb
    simp [List.mapM_cons] at h
    cases hx : f x with
    | none => simp [hx] at h
    | some y =>
      cases hl : l.mapM f with
      | none => simp [hx, hl] at h
      | some r' =>
        simp [hx, hl] at h; subst h
        cases j with
        | zero => simp at ha hb; subst ha; subst hb; exact hx
        | succ j => simp at ha hb; exact ih r' hl j a b ha hb

theorem parentsOf_length (labels : List String) (s : List Nat) (parents : List (Option String))
    (h : parentsOf labels s = some parents) : parents.length = s.length := by
  unfold parentsOf at h
  split at h
  · simp at h
  · rename_i a b parent c d hct
    have hlen := checkTree_parent_len hct
    split at h
    · simp at h; subst h; simpa using hlen
    · rename_i p0 ps
      cases hm : ps.mapM (fun (p : Option Nat) => p.bind fun k => labels[k]?) with
      | none => simp [hm] at h
      | some l =>
        simp [hm] at h; subst h
        have := mapM_some_length _ _ _ hm
        simp at hlen ⊢; omega

theorem relabel_spec_aux (B : Basis) (rf : Bool) (mv : Nat) (raw out : List String) (h : relabel B rf mv raw = some out) :
    out.length = raw.length ∧
    (rf = false → out = raw.map canon) ∧
    (rf = true → ∃ s parents mask,
        labelsToShape B (renumber 0 ((raw.map canon).zip ((raw.map canon).map fun l => isFloatLabel l || isParamLabel l))) = some s ∧
        parentsOf (raw.map canon) s = some parents ∧
        parents.length = raw.length ∧ mask.length = raw.length ∧
        (∀ (j : Nat) lab par m, (raw.map canon)[j]? = some lab → parents[j]? = some par → mask[j]? = some m →
           (m = true ↔ (isFloatLabel lab = true ∧ ¬ ∃ q, par = some q ∧ lower q = noReplaceParent) ∨ isParamLabel lab = true)) ∧
        (∀ (j : Nat) lab, (raw.map canon)[j]? = some lab → mask[j]? = some false → out[j]? = some lab) ∧
        ∃ n, masked out mask = (List.range n).map (fun i => "a" ++ toString i)) := by
  unfold relabel at h
  simp only at h
  split at h
  · simp at h
  · split at h
    · simp at h
    · rename_i s hs
      split at h
      · simp at h
      · rename_i parents hp
        have hlen_s : s.length = raw.length := by
          have := mapM_some_length _ _ _ hs
          simp [renumber_length] at this
          exact this
        have hlen_p : parents.length = raw.length := by rw [parentsOf_length _ _ _ hp, hlen_s]
        cases rf with
        | false =>
          simp at h; subst h
          exact ⟨by simp, fun _ => rfl, fun hc => by simp at hc⟩
        | true =>
          simp only [if_true, Option.some.injEq] at h
          subst h
          have hlen_m : (((raw.map canon).zip parents).map fun lp => replaceMask lp.1 lp.2).length = raw.length := by
            simp [hlen_p]
          refine ⟨by simp [renumber_length, hlen_p], fun hc => by simp at hc,
            fun _ => ⟨s, parents, _, hs, hp, hlen_p, hlen_m, ?_, ?_, ?_⟩⟩
          · intro j lab par m hl hpar hmk
            have hz : ((raw.map canon).zip parents)[j]? = some (lab, par) := by
              simp [List.getElem?_zip_eq_some, hl, hpar]
            rw [List.getElem?_map, hz] at hmk
            simp at hmk
            rw [← hmk]
            exact replaceMask_spec lab par
          · intro j lab hl hmk
            exact renumber_keep 0 _ j lab (by simp [List.getElem?_zip_eq_some, hl, hmk])
          · have := renumber_masked 0 ((raw.map canon).zip (((raw.map canon).zip parents).map fun lp => replaceMask lp.1 lp.2))
            rw [List.map_snd_zip (by simp [hlen_p])] at this
            exact ⟨_, by simpa using this⟩

/-! ### building blocks for the non-vacuity examples -/

def sym (n : String) : SymExpr := .atom ⟨"Symbol", false, true, n, .none⟩
def int (cls : String) (k : Int) (s : String) : SymExpr := .atom ⟨cls, true, false, s, .rat k 1⟩
def op2 (cls : String) (a b : SymExpr) : SymExpr := .app2 ⟨cls, false, false, "", .none⟩ a b
def op1 (cls : String) (a : SymExpr) : SymExpr := .app1 ⟨cls, false, false, "", .none⟩ a

end ESR.ToList
