import ESRVerif.Props.C03b
import ESRVerif.Props.C13b
/-!
Helper lemmas for Props/C03c: the P-rank do_sympy driver of `Model/Library` (section `Ranks`) against the one-rank
driver.  Core Lean only.
-/
namespace ESR.C03
open ESR.Library ESR.Partition ESR.Gather

variable {μ : Type}

/-- the CAS pass that treats every (string, chain) pair on its own: `g e c i s o` = (new string, new chain) -/
def itemwise (g : Bool → Bool → Nat → String → OChain μ → String × OChain μ) : Oracle String μ := fun e c i f t =>
  (((f.zip t).map (fun p => g e c i p.1 p.2)).map (·.1), ((f.zip t).map (fun p => g e c i p.1 p.2)).map (·.2))

/-- **`hpure` of C13, for the CAS pass of sympy_simplify**: the answer for an item depends only on that item's string
and chain, the flags and the parameter count — not on which other items are in the list (= in the rank's block). -/
def PerItem (cas : Oracle String μ) : Prop :=
  ∃ g, ∀ e c i f t, f.length = t.length → cas e c i f t = itemwise g e c i f t

theorem map_fst_zip_eq {α β γ} (h : α → γ) : ∀ (f : List α) (t : List β), f.length = t.length →
    (f.zip t).map (fun p => h p.1) = f.map h
  | [], _, _ => by simp
  | _ :: _, [], hl => by simp at hl
  | a :: f, b :: t, hl => by
    simp only [List.zip_cons_cons, List.map_cons, List.cons.injEq, true_and]
    exact map_fst_zip_eq h f t (by simpa using hl)

theorem pointwise_perItem (rw : Nat → String → String × OChain μ) : PerItem (pointwiseOracle rw) := by
  refine ⟨fun _ _ i s o => ((rw i s).1, match (rw i s).2 with
                                          | none => o
                                          | some a => some (o.getD [] ++ a)), ?_⟩
  intro e c i f t hl
  simp only [pointwiseOracle, itemwise, List.map_map]
  refine Prod.ext ?_ ?_
  · simp only [Function.comp_def]
    exact (map_fst_zip_eq (fun s => (rw i s).1) f t hl).symm
  · simp only [Function.comp_def, List.zip_eq_zipWith, List.map_zipWith]
    rfl

/-! ### one call -/

/-- with lists of equal length, rank `r`'s block of both lists is the `split_idx` block of `Model/Partition` -/
theorem rankBlock_eq (P r : Nat) (f : List String) (t : List (OChain μ)) (hl : f.length = t.length) :
    rankBlock P r f t = (blockSlice f P r, blockSlice t P r) := by
  unfold rankBlock blockSlice block
  rw [hl]
  by_cases h : divPoint t.length P r < divPoint t.length P (r + 1)
  · rw [splitIdx_nonempty h]
    have : divPoint t.length P (r + 1) - 1 + 1 = divPoint t.length P (r + 1) := by omega
    simp only [this]
  · rw [splitIdx_empty h]
    rw [pySlice_eq_nil _ _ _ (by omega), pySlice_eq_nil _ _ _ (by omega)]

theorem blockSlice_zip {α β} (f : List α) (t : List β) (P r : Nat) (hl : f.length = t.length) :
    (blockSlice f P r).zip (blockSlice t P r) = blockSlice (f.zip t) P r := by
  unfold blockSlice block
  rw [pySlice_zip, List.length_zip, ← hl, Nat.min_self]

theorem length_blockSlice {α} (xs : List α) (P r : Nat) (hP : 1 ≤ P) (hr : r < P) :
    (blockSlice xs P r).length = divPoint xs.length P (r + 1) - divPoint xs.length P r := by
  have hle := divPoint_le_total xs.length P (r + 1) hP (by omega)
  unfold blockSlice block
  rw [length_pySlice, Nat.min_eq_left hle]

theorem flatten_blocks_map {α β} (xs : List α) (h : α → β) (P : Nat) (hP : 1 ≤ P) :
    ((List.range P).map (fun r => (blockSlice xs P r).map h)).flatten = xs.map h := by
  have := congrArg (List.map h) (ESR.C14.blocks_tile xs P hP)
  rw [List.map_flatMap, List.flatMap_def] at this
  exact this

/-- what a per-item CAS hands to make_changes on rank `r` -/
theorem rankLocal_itemwise (g : Bool → Bool → Nat → String → OChain μ → String × OChain μ) (cas : Oracle String μ)
    (hg : ∀ e c i f t, f.length = t.length → cas e c i f t = itemwise g e c i f t)
    (P : Nat) (e c : Bool) (i : Nat) (f : List String) (t : List (OChain μ)) (hl : f.length = t.length) (r : Nat)
    (hP : 1 ≤ P) (hr : r < P) :
    rankLocal P cas e c i f t r =
      { str := (blockSlice (f.zip t) P r).map (fun p => (g e c i p.1 p.2).1),
        sym := (blockSlice (f.zip t) P r).map (fun p => (g e c i p.1 p.2).1),
        inv := (blockSlice (f.zip t) P r).map (fun p => (g e c i p.1 p.2).2) } := by
  have hbl : (blockSlice f P r).length = (blockSlice t P r).length := by
    rw [length_blockSlice f P r hP hr, length_blockSlice t P r hP hr, hl]
  simp only [rankLocal, rankBlock_eq P r f t hl]
  rw [hg e c i _ _ hbl]
  simp only [itemwise, blockSlice_zip f t P r hl, List.map_map, Function.comp_def]

/-- **One sympy_simplify call on `P` ranks is the call without ranks**, for a CAS pass that treats each item on its own. -/
theorem casCallRanks_itemwise (d : MakeChangesDesc) (hd : d.Sound)
    (g : Bool → Bool → Nat → String → OChain μ → String × OChain μ) (cas : Oracle String μ)
    (hg : ∀ e c i f t, f.length = t.length → cas e c i f t = itemwise g e c i f t)
    (P : Nat) (hP : 1 ≤ P) (e c : Bool) (i : Nat) (f : List String) (t : List (OChain μ)) (hl : f.length = t.length) :
    casCallRanks d P cas e c i f t = some (seqCall cas e c i f t) := by
  let z := f.zip t
  have hz : z.length = f.length := by simp [z, List.length_zip, ← hl]
  let loc : List (Local String (List (Entry μ))) := (List.range P).map fun r =>
      { str := (blockSlice z P r).map (fun p => (g e c i p.1 p.2).1),
        sym := (blockSlice z P r).map (fun p => (g e c i p.1 p.2).1),
        inv := (blockSlice z P r).map (fun p => (g e c i p.1 p.2).2) }
  have hloc : (List.range P).map (rankLocal P cas e c i f t) = loc := by
    apply List.map_congr_left
    intro r hr
    exact rankLocal_itemwise g cas hg P e c i f t hl r hP (List.mem_range.mp hr)
  have hlocP : loc.length = P := by simp [loc]
  have hlen : BlockLengths f.length loc := by
    intro r h
    have hr : r < P := hlocP ▸ h
    simp only [loc, List.getElem_map, List.getElem_range, List.length_map, List.length_range, and_self, and_true]
    rw [length_blockSlice z P r hP hr, hz]
  have hmc := makeChanges_of_sound f loc d hd f t (by omega) rfl hl.symm hlen
  have hs : (loc.map Local.str).flatten = z.map (fun p => (g e c i p.1 p.2).1) := by
    simp only [loc, List.map_map, Function.comp_def]
    exact flatten_blocks_map z _ P hP
  have hv : (loc.map Local.inv).flatten = z.map (fun p => (g e c i p.1 p.2).2) := by
    simp only [loc, List.map_map, Function.comp_def]
    exact flatten_blocks_map z _ P hP
  unfold casCallRanks
  rw [hloc, hmc, hs, hv]
  simp only [Option.map_some, seqCall, hg e c i f t hl, itemwise, List.map_map, Function.comp_def, z]

/-! ### the driver -/

/-- both sides are the same chain of `match`/`if` on the same discriminants (compiled to different auxiliary matchers) -/
local macro "split_close" : tactic =>
  `(tactic| repeat' (first | rfl | (split <;> rename_i hq <;> try simp only [hq, ↓reduceIte, if_true, if_false])))

theorem simplifyPartRanks_eq (d : MakeChangesDesc) (hd : d.Sound) (P : Nat) (hP : 1 ≤ P) (cas : Oracle String μ)
    (hc : PerItem cas) (e c : Bool) (dflt : String) (np0 : List Nat) (uniqInv : List (OChain μ))
    (acc : List String × List (OChain μ)) (i : Nat) :
    simplifyPartRanks d P cas e c dflt np0 uniqInv acc i = simplifyPart (seqCall cas) e c dflt np0 uniqInv acc i := by
  obtain ⟨g, hg⟩ := hc
  unfold simplifyPartRanks simplifyPart
  simp only []
  rw [casCallRanks_itemwise d hd g cas hg P hP e c i _ _ (by simp)]

theorem simplifyAllRanks_eq (d : MakeChangesDesc) (hd : d.Sound) (P : Nat) (hP : 1 ≤ P) (cas : Oracle String μ)
    (hc : PerItem cas) (e c : Bool) (dflt : String) (np0 : List Nat) (uniqInv : List (OChain μ)) (is : List Nat)
    (acc : List String × List (OChain μ)) :
    simplifyAllRanks d P cas e c dflt np0 uniqInv is acc = simplifyAll (seqCall cas) e c dflt np0 uniqInv is acc := by
  induction is generalizing acc with
  | nil => rfl
  | cons i is ih =>
    simp only [simplifyAllRanks, simplifyAll, simplifyPartRanks_eq d hd P hP cas hc]
    cases simplifyPart (seqCall cas) e c dflt np0 uniqInv acc i with
    | none => rfl
    | some acc' => exact ih acc'

theorem roundRanks_eq (d : MakeChangesDesc) (hd : d.Sound) (P : Nat) (hP : 1 ≤ P) (simps : Nat → Oracle String μ)
    (hc : ∀ g, PerItem (simps g)) (np : String → Nat) (maxParam : Nat) (dflt : String) (e : Bool) (st : St String μ) :
    roundRanks d P simps np maxParam dflt e st = round (fun g => seqCall (simps g)) np maxParam dflt e st := by
  unfold roundRanks round keysKnown
  simp only [simplifyAllRanks_eq d hd P hP _ (hc _)]
  split_close

theorem loopRanks_eq (d : MakeChangesDesc) (hd : d.Sound) (P : Nat) (hP : 1 ≤ P) (simps : Nat → Oracle String μ)
    (hc : ∀ g, PerItem (simps g)) (np : String → Nat) (maxParam : Nat) (dflt : String) (e : Bool) (fuel : Nat)
    (st : St String μ) :
    loopRanks d P simps np maxParam dflt e fuel st = loop (fun g => seqCall (simps g)) np maxParam dflt e fuel st := by
  induction fuel generalizing st with
  | zero => rfl
  | succ n ih =>
    simp only [loopRanks, loop, roundRanks_eq d hd P hP simps hc]
    split
    · rfl
    · cases round (fun g => seqCall (simps g)) np maxParam dflt e st with
      | none => rfl
      | some st' => exact ih st'

theorem doSympyRanks_eq (d : MakeChangesDesc) (hd : d.Sound) (P : Nat) (hP : 1 ≤ P) (simps : Nat → Oracle String μ)
    (hc : ∀ g, PerItem (simps g)) (np : String → Nat) (maxParam : Nat) (dflt : String) (fuel : Nat)
    (allFun symKeys : List String) :
    doSympyRanks d P simps np maxParam dflt fuel allFun symKeys
      = doSympy (fun g => seqCall (simps g)) np maxParam dflt fuel allFun symKeys := by
  unfold doSympyRanks doSympy
  simp only [loopRanks_eq d hd P hP simps hc]
  split_close

theorem dupMainRanks_eq (d : MakeChangesDesc) (hd : d.Sound) (P : Nat) (hP : 1 ≤ P) (has : String → Nat → Bool)
    (symp : String → String) (simps : Nat → Oracle String μ) (hc : ∀ g, PerItem (simps g))
    (cancel : Nat → Option (List (Entry μ)) → Option (List (Entry μ))) (dflt : String) (fuelMP fuel : Nat)
    (gen exOrig : List String) (perm : List Nat) :
    dupMainRanks d P has symp simps cancel dflt fuelMP fuel gen exOrig perm
      = dupMain has symp (fun g => seqCall (simps g)) cancel dflt fuelMP fuel gen exOrig perm := by
  unfold dupMainRanks dupMain
  simp only [doSympyRanks_eq d hd P hP simps hc]
  split_close

/-! ### soundness goes through make_changes -/

section Sound
variable {Θ V : Type} (den : String → Θ → V) (np : String → Nat) (ap : μ → Θ → Θ)

/-- make_changes keeps the old chain where the string did not change: still a sound answer -/
theorem outOK_merge : ∀ (f : List String) (t : List (OChain μ)) (f' : List String) (t' : List (OChain μ)),
    OutOK den np ap f t f' t' → OutOK den np ap f t f' (mergeChanged f f' t t')
  | [], [], [], [], _ => by simp [mergeChanged, OutOK]
  | s :: f, o :: t, s' :: f', o' :: t', h => by
    simp only [OutOK] at h
    simp only [mergeChanged, List.zip_cons_cons, List.zipWith_cons_cons, OutOK]
    refine ⟨?_, outOK_merge f t f' t' h.2⟩
    by_cases hs : s' = s
    · subst hs
      simp only [bne_self_eq_false, Bool.false_eq_true, if_false]
      exact ⟨[], ⟨by simp, id⟩, sound_refl den np ap s'⟩
    · have : (s' != s) = true := by simpa using hs
      simp only [this, if_true]
      exact h.1
  | [], [], [], _ :: _, h | [], [], _ :: _, _, h | [], _ :: _, _, _, h | _ :: _, [], _, _, h
  | _ :: _, _ :: _, [], _, h | _ :: _, _ :: _, _ :: _, [], h => by simp [OutOK] at h

theorem seqCall_sound (cas : Oracle String μ) (h : OracleSound den np ap cas) : OracleSound den np ap (seqCall cas) := by
  intro e c i f t hl
  exact outOK_merge den np ap f t _ _ (h e c i f t hl)

end Sound

end ESR.C03
