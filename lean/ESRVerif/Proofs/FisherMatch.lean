import ESRVerif.Props.C05
import ESRVerif.Props.C07
/-!
Helper lemmas for `Props/C20b.lean`: the two hand models of the zero-snapping / code-length logic
(`ESR.Codelen.postHessian` = `test_all_Fisher.convert_params`, `ESR.Match.matchRow` = one row of `match.main`)
are written over two different number structures (`NumOps (Codelen.XR ℝ)` resp. `Num Match.XR`).  Here:

* the translation `toM`/`toC` between the two copies of the extended reals and the fact that it commutes with
  every operation either model applies to numbers;
* the two list vocabularies (`select`/`keep`, the two `zeroWhere`, the two `pad`) identified;
* the value `postHessian` returns, written out, in the two branches that the hypothesis `hfin` leaves
  (nothing below threshold / snapped point has a finite likelihood);
* the row of `match.main` for a function that is its own unique function (empty chain, identity transfer).
-/
namespace ESR.FisherMatch

/-- numbers of the Fisher-stage model -/
abbrev CX := Codelen.XR ℝ
/-- numbers of the matching-stage model -/
abbrev MX := Match.XR

/-- Fisher-stage numbers read as matching-stage numbers -/
def toM : CX → MX
  | .fin r => .fin r
  | .pinf => .pinf
  | .ninf => .ninf
  | .nan => .nan

def toC : MX → CX
  | .fin r => .fin r
  | .pinf => .pinf
  | .ninf => .ninf
  | .nan => .nan

@[simp] theorem toC_toM (a : CX) : toC (toM a) = a := by cases a <;> rfl
@[simp] theorem toM_toC (a : MX) : toM (toC a) = a := by cases a <;> rfl
@[simp] theorem toM_fin (r : ℝ) : toM (.fin r) = .fin r := rfl

theorem toM_injective : Function.Injective toM := fun a b h => by
  have := congrArg toC h; simpa using this

/-! ## the translation commutes with the operations -/

section hom
open Codelen (xr realOps)

theorem toM_add (a b : CX) : toM (xr.add a b) = Match.Num.add (toM a) (toM b) := by
  cases a <;> cases b <;> rfl

theorem toM_neg (a : CX) : toM (xr.neg a) = Match.Num.neg (toM a) := by cases a <;> rfl

theorem toM_abs (a : CX) : toM (xr.abs a) = Match.Num.abs (toM a) := by cases a <;> rfl

theorem toM_nan : toM xr.nan = (Match.Num.nan : MX) := rfl

theorem toM_zero : toM xr.zero = (Match.Num.zero : MX) := by simp

theorem toM_ofNat (n : Nat) : toM (xr.ofNat n) = (Match.Num.ofNat n : MX) := by simp

private theorem infTimes_eq (pos : Bool) (r : ℝ) :
    toM (Codelen.XR.infTimes realOps pos r)
      = Match.XR.ofSgnInf (Match.XR.sgn (.fin r) * (if pos then 1 else -1)) := by
  rcases lt_trichotomy r 0 with h | h | h
  · have h' : ¬ (0 < r) := not_lt.mpr h.le
    cases pos <;> simp [Codelen.XR.infTimes, realOps, Match.XR.ofSgnInf, Match.XR.sgn, h, h', h.ne, toM]
  · subst h
    cases pos <;> simp [Codelen.XR.infTimes, realOps, Match.XR.ofSgnInf, Match.XR.sgn, toM]
  · have h' : ¬ (r < 0) := not_lt.mpr h.le
    cases pos <;> simp [Codelen.XR.infTimes, realOps, Match.XR.ofSgnInf, Match.XR.sgn, h, h.ne', toM]

theorem toM_mul (a b : CX) : toM (xr.mul a b) = Match.Num.mul (toM a) (toM b) := by
  cases a <;> cases b <;>
    first
    | rfl
    | (show toM (Codelen.XR.infTimes realOps _ _) = Match.XR.ofSgnInf _
       rw [infTimes_eq]; simp [Match.XR.sgn, toM, mul_comm])

theorem toM_sqrt (a : CX) : toM (xr.sqrt a) = Match.Num.sqrt (toM a) := by
  cases a with
  | fin r =>
    show toM (Codelen.XR.sqrt realOps (.fin r)) = Match.XR.sqrt (.fin r)
    by_cases h : r < 0 <;> simp [Codelen.XR.sqrt, Match.XR.sqrt, realOps, h, toM]
  | pinf => rfl
  | ninf => rfl
  | nan => rfl

theorem toM_log (a : CX) : toM (xr.log a) = Match.Num.log (toM a) := by
  cases a with
  | fin r =>
    show toM (Codelen.XR.log realOps (.fin r)) = Match.XR.log (.fin r)
    rcases lt_trichotomy r 0 with h | h | h
    · simp [Codelen.XR.log, Match.XR.log, realOps, h, toM]
    · subst h; simp [Codelen.XR.log, Match.XR.log, realOps, toM]
    · simp [Codelen.XR.log, Match.XR.log, realOps, h, not_lt.mpr h.le, h.ne', toM]
  | pinf => rfl
  | ninf => rfl
  | nan => rfl

theorem toM_div (a b : CX) : toM (xr.div a b) = Match.Num.div (toM a) (toM b) := by
  cases a with
  | fin x =>
    cases b with
    | fin y =>
      show toM (Codelen.XR.div realOps (.fin x) (.fin y)) = Match.XR.div (.fin x) (.fin y)
      by_cases hy : y = 0
      · subst hy
        simp only [Codelen.XR.div, Match.XR.div, realOps, lt_self_iff_false, decide_false, Bool.or_self,
          Bool.false_eq_true, if_false, if_true]
        have := infTimes_eq true x
        simpa [realOps] using this
      · have : (decide ((0:ℝ) < y) || decide (y < 0)) = true := by
          rcases lt_or_gt_of_ne hy with h | h <;> simp [h]
        simp [Codelen.XR.div, Match.XR.div, realOps, this, hy, toM]
    | pinf => rfl
    | ninf => rfl
    | nan => rfl
  | pinf =>
    cases b with
    | fin y =>
      show toM (Codelen.XR.div realOps .pinf (.fin y)) = Match.XR.div .pinf (.fin y)
      by_cases h : y < 0
      · simp [Codelen.XR.div, Match.XR.div, realOps, h, not_le.mpr h, Match.XR.ofSgnInf, Match.XR.sgn, toM]
      · simp [Codelen.XR.div, Match.XR.div, realOps, h, not_lt.mp h, Match.XR.ofSgnInf, Match.XR.sgn, toM]
    | pinf => rfl
    | ninf => rfl
    | nan => rfl
  | ninf =>
    cases b with
    | fin y =>
      show toM (Codelen.XR.div realOps .ninf (.fin y)) = Match.XR.div .ninf (.fin y)
      by_cases h : y < 0
      · simp [Codelen.XR.div, Match.XR.div, realOps, h, not_le.mpr h, Match.XR.ofSgnInf, Match.XR.sgn, toM]
      · simp [Codelen.XR.div, Match.XR.div, realOps, h, not_lt.mp h, Match.XR.ofSgnInf, Match.XR.sgn, toM]
    | pinf => rfl
    | ninf => rfl
    | nan => rfl
  | nan => cases b <;> rfl

/-- `<` agrees except at (+∞, +∞), where the matching-stage model answers `true` (IEEE and the Fisher-stage model:
`false`); neither routine ever compares against an infinite bound (the bounds are the literals 0 and 1) -/
theorem toM_lt (a b : CX) (h : ¬ (a = .pinf ∧ b = .pinf)) : xr.lt a b = Match.Num.lt (toM a) (toM b) := by
  cases a <;> cases b <;> first | rfl | (exfalso; exact h ⟨rfl, rfl⟩)

theorem toM_le (a b : CX) : xr.le a b = Match.Num.le (toM a) (toM b) := by
  cases a <;> cases b <;> rfl

theorem toM_isNaN (a : CX) : xr.isNaN a = Match.Num.isNaN (toM a) := by cases a <;> rfl

theorem toM_isFinite (a : CX) : xr.isFinite a = Match.Num.isFinite (toM a) := by cases a <;> rfl

theorem toM_isInf (a : CX) : xr.isInf a = Match.Num.isInf (toM a) := by cases a <;> rfl

/-- Python float literals: the Fisher-stage extractor records `n/d` as an integer pair, the matching-stage one as a pair of
naturals; both denote the same number -/
theorem toM_ofRat (n d : Nat) (hd : d ≠ 0) : toM (xr.ofRat (n : Int) d) = (Match.Num.ofRat (n, d) : MX) := by
  by_cases h1 : d = 1
  · subst h1; simp [Match.Num.ofRat]
  · have hd' : (d : ℝ) ≠ 0 := by exact_mod_cast hd
    simp [Match.Num.ofRat, h1, Match.XR.div_fin _ _ hd']

end hom

/-! ## the two list vocabularies -/

section lists
open Codelen (xr thetaX fisherX snapB keptB snappedX termR rowX)

theorem keep_eq_select {β : Type} : ∀ (m : List Bool) (xs : List β), Match.keep m xs = Codelen.select m xs := by
  intro m
  induction m with
  | nil => intro xs; cases xs <;> simp [Codelen.select]
  | cons b m ih =>
    intro xs
    cases xs with
    | nil => simp [Codelen.select]
    | cons x xs => cases b <;> simp [Codelen.select, ih]

theorem zeroWhere_toM : ∀ (m : List Bool) (l : List ℝ),
    (Codelen.zeroWhere xr m (l.map (fun r => (Codelen.XR.fin r : CX)))).map toM
      = Match.zeroWhere m (l.map (fun r => (Match.XR.fin r : MX))) := by
  intro m
  induction m with
  | nil => intro l; cases l <;> simp [Codelen.zeroWhere, Match.zeroWhere]
  | cons b m ih =>
    intro l
    cases l with
    | nil => simp [Codelen.zeroWhere, Match.zeroWhere]
    | cons x l =>
      have := ih l
      simp only [Match.zeroWhere] at this
      cases b <;> simp [Codelen.zeroWhere, Match.zeroWhere, this]

theorem pad_toM (mp : Nat) (xs : List CX) : (Codelen.pad xr mp xs).map toM = Match.pad mp (xs.map toM) := by
  simp [Codelen.pad, Match.pad]

theorem thetaX_eq (rows : List (ℝ × ℝ)) :
    thetaX rows = (rows.map Prod.fst).map (fun r => (Codelen.XR.fin r : CX)) := by
  simp [thetaX, List.map_map, Function.comp_def]

theorem thetaX_toM (rows : List (ℝ × ℝ)) : (thetaX rows).map toM = (rows.map Prod.fst).map Match.XR.fin := by
  simp [thetaX, List.map_map, Function.comp_def]

/-- the two snapping decisions are the same real-number test -/
theorem snapB_eq_snapR (r : ℝ × ℝ) : snapB r = Match.snapR r.1 r.2 := rfl

theorem zipWith_snapR (rows : List (ℝ × ℝ)) :
    List.zipWith Match.snapR (rows.map Prod.fst) (rows.map Prod.snd) = rows.map snapB := by
  induction rows with
  | nil => rfl
  | cons r rows ih => simp [ih, snapB_eq_snapR]

theorem zipWith_term (l : List (ℝ × ℝ)) :
    List.zipWith (fun f x => 1 / 2 * Real.log f + Real.log |x|) (l.map Prod.snd) (l.map Prod.fst) = l.map termR := by
  induction l with
  | nil => rfl
  | cons r l ih => simp only [List.map_cons, List.zipWith_cons_cons, ih, termR]

/-- the matching stage's real-number code length over (θᵢ, Fᵢᵢ) rows is the Fisher stage's -/
theorem codelenR_rows (k : Nat) (l : List (ℝ × ℝ)) :
    C05.codelenR k (l.map Prod.snd) (l.map Prod.fst) = -(k : ℝ) / 2 * Real.log 3 + (l.map termR).sum := by
  unfold C05.codelenR; rw [zipWith_term]

theorem snap_false_ne_zero (rows : List (ℝ × ℝ)) (hpos : ∀ r ∈ rows, 0 < r.2) :
    ∀ r ∈ Codelen.select (rows.map keptB) rows, r.1 ≠ 0 := by
  intro r hr h0
  rw [Codelen.select_map_self] at hr
  obtain ⟨hmem, hk⟩ := List.mem_filter.mp hr
  have hs : snapB r = false := by rw [Codelen.keptB_eq] at hk; simpa using hk
  exact Match.snapR_false_ne (hpos r hmem) (by rw [← snapB_eq_snapR]; exact hs) h0

end lists

/-! ## what the Fisher stage returns in the two branches left by `hfin` -/

section fisher
open Codelen
open ESR.Gen.Codelen

variable (rows : List (ℝ × ℝ)) (mp : Nat) (nllIn : CX) (fop : List CX → CX)

private theorem hsnap_eq (hpos : ∀ r ∈ rows, 0 < r.2) :
    (nsteps xr (thetaX rows) (fisherX rows)).map (testElem xr snapTest) = rows.map snapB := by
  rw [nsteps_good rows hpos, List.map_map]
  apply List.map_congr_left; intro r _; simp [testElem_snap, snapB]

private theorem hkept_eq (hpos : ∀ r ∈ rows, 0 < r.2) :
    (nsteps xr (thetaX rows) (fisherX rows)).map (testElem xr keptTest) = rows.map keptB := by
  rw [nsteps_good rows hpos, List.map_map]
  apply List.map_congr_left; intro r _; simp [testElem_kept, keptB]

/-- lines 189 (false), 230-239: nothing is below one precision step -/
theorem post_nosnap (hpos : ∀ r ∈ rows, 0 < r.2) (hlen : rows.length ≤ mp)
    (hany : (rows.map snapB).any id = false) :
    postHessian xr mp (thetaX rows) (fisherX rows) nllIn fop = .ok
      { params := pad xr mp (thetaX rows), nll := nllIn
        codelen := .fin (-(rows.length : ℝ) / 2 * Real.log 3 + (rows.map termR).sum)
        kept := List.replicate rows.length true, k := rows.length, branch := .noSnap, evals := [] } := by
  have hnz : ∀ r ∈ rows, 0 < r.2 ∧ r.1 ≠ 0 := by
    intro r hr
    refine ⟨hpos r hr, fun h0 => ?_⟩
    have hs : snapB r = false := by
      have := List.any_eq_false.mp hany (snapB r) (List.mem_map_of_mem hr); simpa using this
    exact Match.snapR_false_ne (hpos r hr) hs h0
  unfold postHessian
  simp only [length_thetaX, length_fisherX, ne_eq, not_true_eq_false, if_false, anyTest_bad_good rows hpos,
    Bool.false_eq_true, hsnap_eq rows hpos, hany]
  rw [finish_eq xr mp _ _ _ _ _ _ _ _ (by simpa using hlen)]
  have h1 : (List.replicate rows.length true).map not = List.replicate (thetaX rows).length false := by simp
  have h2 : select (List.replicate rows.length true) (thetaX rows) = thetaX rows := by
    have := select_replicate_true (thetaX rows); simpa using this
  have h3 : select (List.replicate rows.length true) (fisherX rows) = fisherX rows := by
    have := select_replicate_true (fisherX rows); simpa using this
  have h4 : (thetaX rows).zip (fisherX rows) = rows.map rowX := by
    simp [thetaX, fisherX, List.zip_map', rowX]
  rw [h1, zeroWhere_replicate_false, h2, h3, h4, xr_ofNat, evalS_codelen _ _ hnz]

/-- lines 189-199, 220-239: some parameter is below one precision step and the likelihood at the snapped point is finite -/
theorem post_snapfin (hpos : ∀ r ∈ rows, 0 < r.2) (hlen : rows.length ≤ mp)
    (hany : (rows.map snapB).any id = true) (v : ℝ) (hv : fop (snappedX rows) = .fin v) :
    postHessian xr mp (thetaX rows) (fisherX rows) nllIn fop = .ok
      (if rows.length - (rows.map snapB).count true = 0 then
        { params := List.replicate mp (.fin 0), nll := .fin v, codelen := .fin 0
          kept := rows.map keptB, k := 0, branch := .kZero, evals := [indicesOf (rows.map snapB)] }
       else
        { params := pad xr mp (snappedX rows), nll := .fin v
          codelen := .fin (-((rows.length - (rows.map snapB).count true : Nat) : ℝ) / 2 * Real.log 3
                      + ((select (rows.map keptB) rows).map termR).sum)
          kept := rows.map keptB, k := rows.length - (rows.map snapB).count true, branch := .snapAll
          evals := [indicesOf (rows.map snapB)] }) := by
  have hc : (rows.map snapB).count true ≤ rows.length := by
    simpa using List.count_le_length (a := true) (l := rows.map snapB)
  have hv' : fop (zeroWhere xr (rows.map snapB) (thetaX rows)) = .fin v := hv
  unfold postHessian
  simp only [length_thetaX, length_fisherX, ne_eq, not_true_eq_false, if_false, anyTest_bad_good rows hpos,
    Bool.false_eq_true, hsnap_eq rows hpos, hkept_eq rows hpos, hany, if_true, hv', xr_isFinite_fin]
  by_cases hk0 : rows.length - (rows.map snapB).count true = 0
  · have hk : ((rows.length : Int) - (((rows.map snapB).count true : Nat) : Int)) = 0 := by omega
    rw [if_pos hk0, hk, afterSnap_zero]
    simp [evalS_kzero]
  · have hk : ((rows.length : Int) - (((rows.map snapB).count true : Nat) : Int))
        = ((rows.length - (rows.map snapB).count true : Nat) : Int) := by omega
    rw [if_neg hk0, hk, afterSnap_pos _ _ _ _ _ _ _ _ (by omega), finish_eq xr mp _ _ _ _ _ _ _ _ (by simpa using hlen)]
    have hz : zeroWhere xr ((rows.map keptB).map not) (thetaX rows) = snappedX rows := by
      rw [keptB_not]; rfl
    have hsel : (select (rows.map keptB) (zeroWhere xr (rows.map snapB) (thetaX rows))).zip
        (select (rows.map keptB) (fisherX rows)) = (select (rows.map keptB) rows).map rowX := by
      rw [← keptB_not, select_zeroWhere_not, thetaX, fisherX, zip_select_map]; rfl
    have hnz : ∀ r ∈ select (rows.map keptB) rows, 0 < r.2 ∧ r.1 ≠ 0 :=
      fun r hr => ⟨hpos r (mem_select _ _ _ hr), FisherMatch.snap_false_ne_zero rows hpos r hr⟩
    rw [hz, hsel, xr_ofNat, evalS_codelen _ _ hnz]

end fisher

/-! ## the matching-stage row of a function that is its own unique function -/

section matchrow
open Codelen (xr thetaX fisherX snapB keptB snappedX termR)

/-- One row of `match.main` for a function that is its own unique function, fed with what the stage reads from disk:

* `nllU`, `measured` : the row of `negloglike_comp<n>.dat` (`load_loglike`) — the OPTIMISER's likelihood and parameters,
  the same numbers `test_all_Fisher.main` handed to `convert_params` (neither stage reads the other's reported
  parameters/likelihood: `codelen_comp<n>_deriv.dat` is written by the Fisher stage and read by nobody);
* `conv` : `simplifier.convert_params(measured, derivs row, [], n=max_param)` — the loop over the chain is empty, so
  `p = (a0..)`, the Jacobian is the identity and the result is `(measured, diag(unflatten(derivs row)))`; `fish` is
  that diagonal (see `C20b.identity_conv_reads_fisher_diag` for why it is the Fisher stage's `Fisher_diag`);
* `chain = []` (the empty row of `inv_subs_<n>.txt`); `symOk`: the string was parsed by the Fisher stage already;
* `reval` : the likelihood closure of match.py:37-41 is `likelihood.negloglike(p, lambdify(fcn_i))` on the same string the
  Fisher stage used — the same oracle `fop`, evaluated at `measured` with the masked entries set to 0. -/
noncomputable def identityRow (τ : Type) (rows : List (ℝ × ℝ)) (mp : Nat) (nll : ℝ) (fop : List CX → CX) :
    Match.RowIn MX τ :=
  { nllU := .fin nll, nparams := rows.length, maxParam := mp, chain := []
    conv := .ok ((rows.map Prod.fst).map Match.XR.fin) ((rows.map Prod.snd).map Match.XR.fin)
    symOk := true
    reval := fun m => toM (fop (Codelen.zeroWhere xr m (thetaX rows))) }

theorem identityRow_recoverable (τ : Type) (rows : List (ℝ × ℝ)) (hpos : ∀ r ∈ rows, 0 < r.2) (hne : rows ≠ [])
    (mp : Nat) (nll : ℝ) (fop : List CX → CX) :
    C05.Recoverable (identityRow τ rows mp nll fop) nll (rows.map Prod.fst) (rows.map Prod.snd) where
  nll_fin := rfl
  has_param := by
    show 0 < rows.length
    exact List.length_pos_iff.mpr hne
  no_nan := rfl
  conv_ok := rfl
  len_p := by simp [identityRow]
  len_f := by simp [identityRow]
  fish_pos := by
    intro f hf
    obtain ⟨r, hr, rfl⟩ := List.mem_map.mp hf
    exact hpos r hr

end matchrow

/-! ## the excluded point: one parameter below threshold whose removal makes the likelihood +∞ -/

section excluded
open Codelen
open ESR.Gen.Codelen

/-- Fisher stage (lines 193-218 with a single snappable parameter): the search loop is empty, everything is restored -/
theorem post_single_inf (r : ℝ × ℝ) (mp : Nat) (nllIn : CX) (fop : List CX → CX) (hpos : 0 < r.2) (hmp : 1 ≤ mp)
    (hs : snapB r = true) (h0 : r.1 ≠ 0) (hinf : fop [XR.fin 0] = .pinf) :
    postHessian xr mp (thetaX [r]) (fisherX [r]) nllIn fop = .ok
      { params := pad xr mp [XR.fin r.1], nll := nllIn
        codelen := .fin (-(1 : ℝ) / 2 * Real.log 3 + termR r)
        kept := [true], k := 1, branch := .searchSingle, evals := [[0]] } := by
  have hpos' : ∀ q ∈ [r], 0 < q.2 := by simpa using hpos
  have hsn : (nsteps xr (thetaX [r]) (fisherX [r])).map (testElem xr snapTest) = [true] := by
    rw [nsteps_good [r] hpos', List.map_map]; simp [testElem_snap, snapB] at hs ⊢; exact hs
  unfold postHessian
  simp only [length_thetaX, length_fisherX, ne_eq, not_true_eq_false, if_false, anyTest_bad_good [r] hpos',
    Bool.false_eq_true, hsn]
  simp [thetaX, zeroWhere, hinf, indicesOf, indicesFrom, searchSizes_small, outer]
  have hk : (1 : Int) = ((1 : Nat) : Int) := rfl
  rw [hk, afterSnap_pos _ _ _ _ _ _ _ _ (by omega), finish_eq xr mp _ _ _ _ _ _ _ _ (by simpa using hmp)]
  have hrows : (select [true] [XR.fin r.1]).zip (select [true] (fisherX [r])) = [r].map rowX := by
    simp [select, fisherX, rowX]
  have hnz : ∀ q ∈ [r], 0 < q.2 ∧ q.1 ≠ 0 := by simpa using ⟨hpos, h0⟩
  rw [hrows, xr_ofNat, evalS_codelen 1 [r] hnz]
  simp [zeroWhere]

end excluded

section excluded2
open Codelen (xr thetaX fisherX snapB keptB snappedX termR)

/-- matching stage (match.py:159-195): the same situation ends in the "infinite nll" branch, `fish = 12/p**2` -/
theorem matchRow_single_inf (τ : Type) (r : ℝ × ℝ) (mp : Nat) (nll : ℝ) (fop : List CX → CX) (hpos : 0 < r.2)
    (hs : snapB r = true) (h0 : r.1 ≠ 0) (hinf : fop [Codelen.XR.fin 0] = .pinf) :
    Match.matchRow (identityRow τ [r] mp nll fop) = some
      ⟨.fin nll, .fin (-(1 : ℝ) / 2 * Real.log 3 + (1 / 2 * Real.log (12 / (r.1 * r.1)) + Real.log |r.1|)),
        Match.pad mp [.fin r.1], .infNll⟩ := by
  have hpos' : ∀ f ∈ [r.2], 0 < f := by simpa using hpos
  have hsn : List.zipWith Match.snapR [r.1] [r.2] = [true] := by simpa [snapB_eq_snapR] using hs
  have hg : Match.guardFires ([] : Match.Chain τ) = false := by rw [C05.guard_is_nan_test]; rfl
  have hrev : toM (fop (Codelen.zeroWhere xr [true] (thetaX [r]))) = .pinf := by
    simp [thetaX, Codelen.zeroWhere, hinf, toM]
  have hsm : Match.snapMask [Match.XR.fin r.1] [Match.XR.fin r.2] = [true] := by
    have := Match.snapMask_fin [r.1] [r.2] hpos'; simpa [hsn] using this
  have hle : ([Match.XR.fin r.2].any fun f => Match.Num.le f (Match.Num.zero : MX)) = false := by
    have := Match.fish_any_le_false [r.2] hpos'; simpa using this
  unfold Match.matchRow
  simp only [identityRow, List.map_cons, List.map_nil, List.length_cons, List.length_nil, Match.XR.isNaN_fin, Match.XR.isInf_fin,
    Bool.or_self, Bool.false_eq_true, if_false, hg, hle, hsm, hrev]
  simp [Match.outerLoop]
  have hxx : r.1 * r.1 ≠ 0 := mul_self_ne_zero.mpr h0
  have h12 : (Match.Num.ofRat Gen.Match.infNllNum : MX) = Match.XR.fin 12 := by
    rw [show Gen.Match.infNllNum = (12, 1) from rfl, Match.XR.ofRat_int]; norm_num
  rw [h12, Match.XR.div_fin _ _ hxx]
  have hf : ∀ f ∈ [12 / (r.1 * r.1)], (0 : ℝ) < f := by
    have : 0 < r.1 * r.1 := mul_self_pos.mpr h0
    simp; positivity
  have := Match.codelenFormula_fin 1 [12 / (r.1 * r.1)] [r.1] hf (by simpa using h0)
  simp only [List.map_cons, List.map_nil] at this
  rw [this]
  simp

/-- below threshold means `F < 12/θ²` -/
theorem snap_curvature_lt (r : ℝ × ℝ) (hpos : 0 < r.2) (h0 : r.1 ≠ 0) (hs : snapB r = true) : r.2 < 12 / (r.1 * r.1) := by
  have hsq := Codelen.sqrt_twelve_div_pos hpos
  have h1 : |r.1| < Real.sqrt (12 / r.2) := by
    have : Codelen.nstepsR r < 1 := by simpa [snapB] using hs
    unfold Codelen.nstepsR at this
    exact (div_lt_one hsq).mp this
  have h2 : r.1 * r.1 < 12 / r.2 := by
    have habs : |r.1| * |r.1| = r.1 * r.1 := abs_mul_abs_self r.1
    have hm : |r.1| * |r.1| < Real.sqrt (12 / r.2) * Real.sqrt (12 / r.2) :=
      mul_self_lt_mul_self (abs_nonneg _) h1
    rw [Real.mul_self_sqrt (by positivity), habs] at hm
    exact hm
  have hxx : 0 < r.1 * r.1 := mul_self_pos.mpr h0
  rw [lt_div_iff₀ hxx]
  rw [lt_div_iff₀ hpos] at h2
  linarith [mul_comm (r.1 * r.1) r.2]

end excluded2

end ESR.FisherMatch
