import Mathlib.Analysis.SpecialFunctions.Pow.Real
import Mathlib.Analysis.SpecialFunctions.Trigonometric.Basic
import ESRVerif.Proofs.PrinterSem
/-!
C12 helper: the real numbers are a `RealLike` structure — every law the round trip uses is *proved* for `ℝ`
with Mathlib's operations (`Real.rpow`, integer powers `zpow`, `Real.sqrt`, `Real.exp`, `Real.log`, `Real.sin`,
`|·|`, field operations with `x / 0 = 0`, `0⁻¹ = 0`).  Only this file of the C12 family imports Mathlib (two
analysis modules).

Corner cases.  None of the fifteen laws needs a side condition beyond the one it already carries:
* `inv_mul`, `ipow_neg`, `div_eq`, `inv_one` hold for all reals including 0 (`0⁻¹ = 0`, `0 ^ (-n) = (0 ^ n)⁻¹`);
* `rpow_neg` carries `0 ≤ a` (`Real.rpow_neg`; false for negative bases, e.g. `(-1)^(1/2)` vs `(-1)^(-1/2)`:
  `Real.rpow` of a negative base is `exp(y log|x|) cos(πy)`, and `cos` is even, so the two differ by more than an
  inverse in general) — `Adm` grants it: the base of every non-integer power is non-negative;
* `sqrt_eq_rpow` holds for every real (`Real.sqrt_eq_rpow`), the hypothesis `0 ≤ a` is not even needed;
* `abs_of_nonneg` carries `0 ≤ a` — granted by `Adm` (power bases, and `log` arguments for the fitting table);
* `log 0 = 0`, `log (-x) = log x` in Mathlib: no law mentions `log` except through `abs_of_nonneg`.
-/
namespace ESR.Printer
open RealLike

/-- value of the text sympy prints for a Float magnitude, `d+ . d* [(e|E) [+-] d+]`; any other text ↦ 0
(no law constrains `ofFlt`; the printer/parser pass the text through unchanged) -/
noncomputable def fltReal (s : String) : ℝ :=
  let ip := s.toList.span Char.isDigit
  match ip.2 with
  | '.' :: r =>
    let fp := r.span Char.isDigit
    let mant : ℝ := (digitsToNat (ip.1 ++ fp.1) : ℝ) / (10 : ℝ) ^ fp.1.length
    match fp.2 with
    | [] => mant
    | _ :: '-' :: ds => mant / (10 : ℝ) ^ digitsToNat ds
    | _ :: '+' :: ds => mant * (10 : ℝ) ^ digitsToNat ds
    | _ :: ds => mant * (10 : ℝ) ^ digitsToNat ds
  | _ => 0

/-- `ℝ` with Mathlib's total operations; all laws proved. -/
noncomputable instance realLike : RealLike ℝ where
  add a b := a + b
  mul a b := a * b
  sub a b := a - b
  div a b := a / b
  rpow a b := a ^ b
  neg a := -a
  inv a := a⁻¹
  abs a := |a|
  exp := Real.exp
  log := Real.log
  sin := Real.sin
  sqrt := Real.sqrt
  ipow a n := a ^ n
  ofInt n := (n : ℝ)
  ofFlt := fltReal
  nonneg a := 0 ≤ a
  mul_comm a b := _root_.mul_comm a b
  mul_assoc a b c := _root_.mul_assoc a b c
  one_mul a := by simp
  sub_eq a b := _root_.sub_eq_add_neg a b
  div_eq a b := _root_.div_eq_mul_inv a b
  neg_mul a b := _root_.neg_mul a b
  neg_neg a := _root_.neg_neg a
  inv_mul a b := _root_.mul_inv a b
  inv_one := by simp
  ofInt_neg n := Int.cast_neg n
  ipow_neg a n := _root_.zpow_neg a n
  ipow_one a := _root_.zpow_one a
  rpow_neg a y h := Real.rpow_neg h y
  abs_of_nonneg a h := _root_.abs_of_nonneg h
  sqrt_eq_rpow a _ := by
    show Real.sqrt a = a ^ (((1 : ℤ) : ℝ) / ((2 : ℤ) : ℝ))
    rw [Real.sqrt_eq_rpow]; norm_num

/-! ### what the operations are (unfolding lemmas, all `rfl`) -/

@[simp] theorem real_add (a b : ℝ) : RealLike.add a b = a + b := rfl
@[simp] theorem real_mul (a b : ℝ) : RealLike.mul a b = a * b := rfl
@[simp] theorem real_sub (a b : ℝ) : RealLike.sub a b = a - b := rfl
@[simp] theorem real_div (a b : ℝ) : RealLike.div a b = a / b := rfl
@[simp] theorem real_rpow (a b : ℝ) : RealLike.rpow a b = a ^ b := rfl
@[simp] theorem real_neg (a : ℝ) : RealLike.neg a = -a := rfl
@[simp] theorem real_inv (a : ℝ) : RealLike.inv a = a⁻¹ := rfl
@[simp] theorem real_abs (a : ℝ) : RealLike.abs a = |a| := rfl
@[simp] theorem real_exp (a : ℝ) : RealLike.exp a = Real.exp a := rfl
@[simp] theorem real_log (a : ℝ) : RealLike.log a = Real.log a := rfl
@[simp] theorem real_sin (a : ℝ) : RealLike.sin a = Real.sin a := rfl
@[simp] theorem real_sqrt (a : ℝ) : RealLike.sqrt a = Real.sqrt a := rfl
@[simp] theorem real_ipow (a : ℝ) (n : ℤ) : RealLike.ipow a n = a ^ n := rfl
@[simp] theorem real_ofInt (n : ℤ) : (RealLike.ofInt n : ℝ) = (n : ℝ) := rfl
@[simp] theorem real_ofFlt (s : String) : (RealLike.ofFlt s : ℝ) = fltReal s := rfl
@[simp] theorem real_nonneg (a : ℝ) : RealLike.nonneg a ↔ 0 ≤ a := Iff.rfl

/-- the side condition of `rpow_neg` cannot be dropped over `ℝ`: at `a = -1`, `y = 1/3` the left side is
`cos(π/3) = 1/2` and the right side `2` (`Real.rpow` of a negative base is `exp(y log|a|)·cos(πy)`). -/
theorem rpow_neg_needs_nonneg : ((-1 : ℝ) ^ (-(1/3 : ℝ))) ≠ ((-1 : ℝ) ^ (1/3 : ℝ))⁻¹ := by
  rw [Real.rpow_def_of_neg (by norm_num), Real.rpow_def_of_neg (by norm_num)]
  have h1 : (-(1/3 : ℝ)) * Real.pi = -(Real.pi / 3) := by ring
  have h2 : (1/3 : ℝ) * Real.pi = Real.pi / 3 := by ring
  rw [h1, h2, Real.cos_neg, Real.cos_pi_div_three]
  simp
  norm_num

/-- `fltReal` reads decimal texts as the numbers they denote -/
example : fltReal "0.5" = 1 / 2 := by
  simp [fltReal, digitsToNat]
  norm_num
example : fltReal "12.25e-1" = 49 / 40 := by
  simp [fltReal, digitsToNat]
  norm_num

end ESR.Printer
