/-
Semantics over ℝ of the C11 expression trees and normal forms (`ESRVerif/Model/Rewrite.lean`) and one
soundness lemma per normalisation step.

Two semantics of trees:
* `LExpr.eval`  — total, with Mathlib's conventions at the singular points (`u/0 = 0`, `log 0 = 0`,
  `0 ^ v` per `Real.rpow`).  Every normalisation step is proved to preserve it at EVERY environment.
* `LExpr.evalP` — partial (`none` where ESR's expression is undefined: division by zero, `inv 0`, `log|0|`,
  `|0|^v` with `v < 0`).  `evalP_eq_eval`: where `evalP` is defined it agrees with `eval`; hence certified trees
  agree wherever both are defined.
ESR operator semantics (esr/fitting/sympy_symbols.py): inv u = 1/u, sqrt_abs u = √|u|, log_abs u = log|u|,
log10_abs u = log|u| / log 10, tenexp u = 10^u, pow(u,v) = pow_abs(u,v) = |u|^v.
-/
import ESRVerif.Model.Rewrite
import ESRVerif.Model.Shape
import Mathlib.Analysis.SpecialFunctions.Pow.Real

namespace ESR.Rewrite

/-- An evaluation point: the variable and the parameters `a_k`. -/
structure Env where
  x : ℝ
  a : ℕ → ℝ

noncomputable def UOp.eval : UOp → ℝ → ℝ
  | .inv, u => u⁻¹
  | .square, u => u ^ (2 : ℤ)
  | .cube, u => u ^ (3 : ℤ)
  | .sqrt_abs, u => Real.sqrt |u|
  | .exp, u => Real.exp u
  | .log_abs, u => Real.log |u|
  | .sin, u => Real.sin u
  | .cos, u => Real.cos u
  | .tenexp, u => (10 : ℝ) ^ u
  | .log10_abs, u => Real.log |u| / Real.log 10

noncomputable def BOp.eval : BOp → ℝ → ℝ → ℝ
  | .add, u, v => u + v
  | .mul, u, v => u * v
  | .sub, u, v => u - v
  | .div, u, v => u / v
  | .pow, u, v => |u| ^ v
  | .pow_abs, u, v => |u| ^ v

/-- Total semantics of a labelled tree. -/
noncomputable def LExpr.eval (ρ : Env) : LExpr → ℝ
  | .x => ρ.x
  | .par k => ρ.a k
  | .lit z => (z : ℝ)
  | .un o e => o.eval (e.eval ρ)
  | .bin o l r => o.eval (l.eval ρ) (r.eval ρ)

open Classical in
noncomputable def UOp.evalP : UOp → ℝ → Option ℝ
  | .inv, u => if u = 0 then none else some u⁻¹
  | .log_abs, u => if u = 0 then none else some (Real.log |u|)
  | .log10_abs, u => if u = 0 then none else some (Real.log |u| / Real.log 10)
  | o, u => some (o.eval u)

open Classical in
noncomputable def BOp.evalP : BOp → ℝ → ℝ → Option ℝ
  | .div, u, v => if v = 0 then none else some (u / v)
  | .pow, u, v => if u = 0 ∧ v < 0 then none else some (|u| ^ v)
  | .pow_abs, u, v => if u = 0 ∧ v < 0 then none else some (|u| ^ v)
  | o, u, v => some (o.eval u v)

/-- Partial semantics: `none` where the ESR expression is undefined. -/
noncomputable def LExpr.evalP (ρ : Env) : LExpr → Option ℝ
  | .x => some ρ.x
  | .par k => some (ρ.a k)
  | .lit z => some (z : ℝ)
  | .un o e => (e.evalP ρ).bind (fun u => o.evalP u)
  | .bin o l r => (l.evalP ρ).bind (fun u => (r.evalP ρ).bind (fun v => o.evalP u v))

theorem UOp.evalP_eq (o : UOp) (u v : ℝ) (h : o.evalP u = some v) : o.eval u = v := by
  cases o <;> simp only [UOp.evalP] at h <;> first
    | (split at h <;> simp_all [UOp.eval])
    | simp_all [UOp.eval]

theorem BOp.evalP_eq (o : BOp) (u v w : ℝ) (h : o.evalP u v = some w) : o.eval u v = w := by
  cases o <;> simp only [BOp.evalP] at h <;> first
    | (split at h <;> simp_all [BOp.eval])
    | simp_all [BOp.eval]

/-- Where the partial semantics is defined it agrees with the total one. -/
theorem evalP_eq_eval (ρ : Env) (e : LExpr) (v : ℝ) (h : e.evalP ρ = some v) : e.eval ρ = v := by
  induction e generalizing v with
  | x => simpa [LExpr.evalP, LExpr.eval] using h
  | par k => simpa [LExpr.evalP, LExpr.eval] using h
  | lit z => simpa [LExpr.evalP, LExpr.eval] using h
  | un o e ih =>
    simp only [LExpr.evalP, Option.bind_eq_some_iff] at h
    obtain ⟨u, hu, hv⟩ := h
    simp only [LExpr.eval, ih u hu]
    exact UOp.evalP_eq o u v hv
  | bin o l r ihl ihr =>
    simp only [LExpr.evalP, Option.bind_eq_some_iff] at h
    obtain ⟨u, hu, w, hw, hv⟩ := h
    simp only [LExpr.eval, ihl u hu, ihr w hw]
    exact BOp.evalP_eq o u w v hv

/-- Semantics of normal forms. -/
noncomputable def NF.eval (ρ : Env) : NF → ℝ
  | .nil => 0
  | .cons c a r => (c : ℝ) * a.eval ρ + r.eval ρ
  | .one => 1
  | .var => ρ.x
  | .par k => ρ.a k
  | .exp u => Real.exp (u.eval ρ)
  | .logabs u => Real.log |u.eval ρ|
  | .ipow k u => (u.eval ρ) ^ k
  | .apow q u => |u.eval ρ| ^ (q : ℝ)
  | .powabs b e => |b.eval ρ| ^ (e.eval ρ)
  | .app o u => o.eval (u.eval ρ)
  | .mul a b => a.eval ρ * b.eval ρ
  | .div a b => a.eval ρ / b.eval ρ

/-! ### sums -/

theorem insert_eval (ρ : Env) (c : Rat) (a s : NF) :
    (insert c a s).eval ρ = (c : ℝ) * a.eval ρ + s.eval ρ := by
  induction s with
  | cons c' a' r _ ihr =>
    unfold insert
    by_cases h : a = a'
    · subst h
      by_cases h0 : c + c' = 0
      · have : ((c : ℝ) + (c' : ℝ)) = 0 := by exact_mod_cast congrArg (Rat.cast (K := ℝ)) h0
        simp only [h0, if_true, NF.eval]
        linear_combination (-(NF.eval ρ a)) * this
      · simp only [h0, if_true, if_false, NF.eval, Rat.cast_add]
        ring
    · simp only [h, if_false]
      split
      · simp only [NF.eval]
      · simp only [NF.eval, ihr]; ring
  | nil => simp [insert, NF.eval]
  | _ => simp [insert, NF.eval]

theorem addS_eval (ρ : Env) (s acc : NF) : (addS s acc).eval ρ = s.eval ρ + acc.eval ρ := by
  induction s generalizing acc with
  | cons c a r _ ihr =>
    unfold addS
    rw [ihr]
    by_cases h0 : c = 0
    · subst h0; simp [NF.eval]
    · simp only [h0, if_false, insert_eval, NF.eval]; ring
  | nil => simp [addS, NF.eval]
  | _ => simp [addS, insert_eval, NF.eval]

theorem scale_eval (ρ : Env) (k : Rat) (s : NF) : (scale k s).eval ρ = (k : ℝ) * s.eval ρ := by
  induction s with
  | cons c a r _ ihr => simp only [scale, NF.eval, ihr, Rat.cast_mul]; ring
  | nil => simp [scale, NF.eval]
  | _ => simp [scale, NF.eval]

theorem scaleS_eval (ρ : Env) (k : Rat) (s : NF) : (scaleS k s).eval ρ = (k : ℝ) * s.eval ρ := by
  unfold scaleS
  by_cases h : k = 0
  · subst h; simp [NF.eval]
  · simp only [h, if_false, scale_eval]

theorem atom_eval (ρ : Env) (a : NF) : (atom a).eval ρ = a.eval ρ := by
  simp [atom, NF.eval]

theorem isConst_eval (ρ : Env) (s : NF) (k : Rat) (h : isConst s = some k) : s.eval ρ = (k : ℝ) := by
  unfold isConst at h
  split at h
  · cases h; simp [NF.eval]
  · cases h; simp [NF.eval]
  · cases h

theorem single_eval (ρ : Env) (s a : NF) (h : single? s = some a) : s.eval ρ = a.eval ρ := by
  unfold single? at h
  split at h
  · split at h
    · rename_i hc; cases h; subst hc; simp [NF.eval]
    · cases h
  · cases h

theorem splitCoeff_eval (ρ : Env) (s : NF) :
    s.eval ρ = ((splitCoeff s).1 : ℝ) * (splitCoeff s).2.eval ρ := by
  unfold splitCoeff
  split
  · simp [NF.eval]
  · rename_i c a r _
    by_cases h0 : c = 0
    · simp [h0]
    · have hc : (c : ℝ) ≠ 0 := by exact_mod_cast h0
      simp only [h0, if_false, scale_eval, Rat.cast_inv]
      field_simp
  · simp

theorem mkMul_eval (ρ : Env) (a b : NF) : (mkMul a b).eval ρ = a.eval ρ * b.eval ρ := by
  unfold mkMul
  split
  · rename_i k hk; rw [scaleS_eval, isConst_eval ρ a k hk]
  · split
    · rename_i k hk; rw [scaleS_eval, isConst_eval ρ b k hk]; ring
    · simp only [scaleS_eval, atom_eval, NF.eval, Rat.cast_mul]
      have ha := splitCoeff_eval ρ a
      have hb := splitCoeff_eval ρ b
      rw [ha, hb]; ring

theorem mkDiv_eval (ρ : Env) (a b : NF) : (mkDiv a b).eval ρ = a.eval ρ / b.eval ρ := by
  unfold mkDiv
  split
  · rename_i k hk
    by_cases h0 : k = 0
    · simp only [h0, if_true, atom_eval, NF.eval]
    · simp only [h0, if_false, scaleS_eval, isConst_eval ρ b k hk, Rat.cast_inv]
      rw [div_eq_inv_mul]
  · simp only [scaleS_eval, atom_eval, NF.eval]
    have ha := splitCoeff_eval ρ a
    rw [ha]; ring

/-! ### real-analysis facts used by the power / exp / log steps -/

theorem rpow_abs_mul_int (x y : ℝ) (m : ℤ) : |x| ^ ((m : ℝ) * y) = (|x| ^ y) ^ m := by
  rw [mul_comm, Real.rpow_mul (abs_nonneg x), Real.rpow_intCast]

theorem exp_int_mul' (w : ℝ) (m : ℤ) : Real.exp ((m : ℝ) * w) = Real.exp w ^ m := by
  rw [mul_comm, Real.exp_mul, Real.rpow_intCast]

theorem log_abs_rpow (x y : ℝ) : Real.log (|x| ^ y) = y * Real.log |x| := by
  by_cases hx : x = 0
  · subst hx
    by_cases hy : y = 0
    · subst hy; simp
    · simp [Real.zero_rpow hy]
  · exact Real.log_rpow (abs_pos.mpr hx) y

theorem sqrt_abs_rpow (x y : ℝ) : Real.sqrt |(|x| ^ y)| = |x| ^ ((1 / 2 : ℝ) * y) := by
  rw [abs_of_nonneg (Real.rpow_nonneg (abs_nonneg x) y), Real.sqrt_eq_rpow, mul_comm,
    Real.rpow_mul (abs_nonneg x)]

theorem abs_rpow_abs (x y : ℝ) : |(|x| ^ y)| = |x| ^ y :=
  abs_of_nonneg (Real.rpow_nonneg (abs_nonneg x) y)

theorem abs_zpow_rpow (x : ℝ) (k : ℤ) : |x ^ k| = |x| ^ (k : ℝ) := by
  rw [abs_zpow, Real.rpow_intCast]

/-! ### square / cube / inv chains (`pow_num` multipliers 2, 3, -1) -/

theorem mkIntPow_eval (ρ : Env) (m : ℤ) (a : NF) : (mkIntPow m a).eval ρ = (a.eval ρ) ^ m := by
  unfold mkIntPow
  split
  · rename_i w h
    rw [single_eval ρ a _ h]
    simp only [atom_eval, NF.eval, scaleS_eval, Rat.cast_intCast]
    exact exp_int_mul' _ m
  · rename_i b e h
    rw [single_eval ρ a _ h]
    simp only [atom_eval, NF.eval, scaleS_eval, Rat.cast_intCast]
    exact rpow_abs_mul_int _ _ m
  · rename_i k b h
    rw [single_eval ρ a _ h]
    simp only [atom_eval, NF.eval]
    exact zpow_mul _ k m
  · rename_i q b h
    rw [single_eval ρ a _ h]
    simp only [atom_eval, NF.eval, Rat.cast_mul, Rat.cast_intCast]
    rw [mul_comm]
    exact rpow_abs_mul_int _ _ m
  · simp only [atom_eval, NF.eval]

/-! ### sqrt_abs (`pow_num` entry `/2`) -/

theorem half_cast : ((half : Rat) : ℝ) = 1 / 2 := by
  simp [half]

theorem mkSqrtAbs_eval (ρ : Env) (a : NF) : (mkSqrtAbs a).eval ρ = Real.sqrt |a.eval ρ| := by
  unfold mkSqrtAbs
  split
  · rename_i w h
    rw [single_eval ρ a _ h]
    simp only [atom_eval, NF.eval, scaleS_eval, half_cast]
    rw [abs_of_pos (Real.exp_pos _), ← Real.exp_half]
    congr 1; ring
  · rename_i b e h
    rw [single_eval ρ a _ h]
    simp only [atom_eval, NF.eval, scaleS_eval, half_cast]
    exact (sqrt_abs_rpow _ _).symm
  · rename_i k b h
    rw [single_eval ρ a _ h]
    simp only [atom_eval, NF.eval, Rat.cast_mul, Rat.cast_intCast, half_cast]
    have h2 := sqrt_abs_rpow (NF.eval ρ b) (k : ℝ)
    rw [abs_rpow_abs] at h2
    rw [abs_zpow_rpow, h2, mul_comm]
  · rename_i q b h
    rw [single_eval ρ a _ h]
    simp only [atom_eval, NF.eval, Rat.cast_mul, half_cast]
    rw [sqrt_abs_rpow, mul_comm]
  · simp only [atom_eval, NF.eval, half_cast]
    rw [Real.sqrt_eq_rpow]

/-! ### log_abs -/

theorem mkLog_eval (ρ : Env) (a : NF) : (mkLog a).eval ρ = Real.log |a.eval ρ| := by
  unfold mkLog
  split
  · rename_i w h
    rw [single_eval ρ a _ h]
    simp only [NF.eval]
    rw [abs_of_pos (Real.exp_pos _), Real.log_exp]
  · rename_i k b h
    rw [single_eval ρ a _ h]
    simp only [scaleS_eval, atom_eval, NF.eval, Rat.cast_intCast]
    rw [abs_zpow, Real.log_zpow]
  · rename_i q b h
    rw [single_eval ρ a _ h]
    simp only [scaleS_eval, atom_eval, NF.eval]
    rw [abs_rpow_abs, log_abs_rpow]
  · rename_i b e h
    rw [single_eval ρ a _ h]
    simp only [mkMul_eval, atom_eval, NF.eval]
    rw [abs_rpow_abs, log_abs_rpow]
  · simp only [atom_eval, NF.eval]

/-! ### pow / pow_abs -/

theorem mkPowAbs_eval (ρ : Env) (b e : NF) : (mkPowAbs b e).eval ρ = |b.eval ρ| ^ (e.eval ρ) := by
  unfold mkPowAbs
  split
  · rename_i k s h
    rw [single_eval ρ b _ h]
    simp only [atom_eval, NF.eval, scaleS_eval, Rat.cast_intCast]
    rw [abs_zpow_rpow, Real.rpow_mul (abs_nonneg _)]
  · rename_i q s h
    rw [single_eval ρ b _ h]
    simp only [atom_eval, NF.eval, scaleS_eval]
    rw [abs_rpow_abs, Real.rpow_mul (abs_nonneg _)]
  · rename_i w h
    rw [single_eval ρ b _ h]
    simp only [atom_eval, NF.eval, mkMul_eval]
    rw [abs_of_pos (Real.exp_pos _), Real.exp_mul]
  · rename_i s e' h
    rw [single_eval ρ b _ h]
    simp only [atom_eval, NF.eval, mkMul_eval]
    rw [abs_rpow_abs, Real.rpow_mul (abs_nonneg _)]
  · simp only [atom_eval, NF.eval]

/-! ### the normaliser -/

theorem normUn_eval (ρ : Env) (o : UOp) (a : NF) : (normUn o a).eval ρ = o.eval (a.eval ρ) := by
  cases o <;> simp only [normUn, UOp.eval, mkIntPow_eval, mkSqrtAbs_eval, mkLog_eval, atom_eval, NF.eval]
  · exact zpow_neg_one _

theorem normBin_eval (ρ : Env) (o : BOp) (a b : NF) :
    (normBin o a b).eval ρ = o.eval (a.eval ρ) (b.eval ρ) := by
  cases o <;> simp only [normBin, BOp.eval, addS_eval, scaleS_eval, mkMul_eval, mkDiv_eval, mkPowAbs_eval]
  · simp; ring

/-- The normal form denotes the same real function as the tree, at every environment. -/
theorem norm_eval (ρ : Env) (e : LExpr) : (norm e).eval ρ = e.eval ρ := by
  induction e with
  | x => simp [norm, atom_eval, NF.eval, LExpr.eval]
  | par k => simp [norm, atom_eval, NF.eval, LExpr.eval]
  | lit z =>
    by_cases h : z = 0
    · subst h; simp [norm, NF.eval, LExpr.eval]
    · simp [norm, h, NF.eval, LExpr.eval]
  | un o e ih => simp only [norm, normUn_eval, ih, LExpr.eval]
  | bin o l r ihl ihr => simp only [norm, normBin_eval, ihl, ihr, LExpr.eval]

/-! ### parser: a successful parse returns a tree whose prefix form is the input list -/

theorem UOp.ofName?_name (s : String) (o : UOp) (h : UOp.ofName? s = some o) : o.name = s := by
  unfold UOp.ofName? at h
  have := List.find?_some h
  simpa using this

theorem BOp.ofName?_name (s : String) (o : BOp) (h : BOp.ofName? s = some o) : o.name = s := by
  unfold BOp.ofName? at h
  have := List.find?_some h
  simpa using this

theorem parOfLabel?_label (s : String) (k : Nat) (h : parOfLabel? s = some k) : parLabel k = s := by
  unfold parOfLabel? at h
  split at h
  · simp only [Option.bind_eq_some_iff] at h
    obtain ⟨k', _, hk⟩ := h
    split at hk
    · cases hk; assumption
    · cases hk
  · cases h

theorem litOfLabel?_label (s : String) (z : Int) (h : litOfLabel? s = some z) : litLabel z = s := by
  unfold litOfLabel? at h
  simp only [Option.bind_eq_some_iff] at h
  obtain ⟨z', _, hz⟩ := h
  split at hz
  · cases hz; assumption
  · cases hz

/-- What a classified label guarantees. -/
def Tok.Sound (B : Basis) (s : String) : Tok → Prop
  | .leaf e => e.toPrefix = [s] ∧ e.inBasis B = true
  | .un o => o.name = s ∧ B.unary.contains s = true
  | .bin o => o.name = s ∧ B.binary.contains s = true

theorem classify_sound (B : Basis) (s : String) (t : Tok) (h : classify B s = some t) : t.Sound B s := by
  unfold classify at h
  split at h
  · cases h; rename_i hx; subst hx; simp [Tok.Sound, LExpr.toPrefix, LExpr.inBasis]
  · split at h
    · rename_i k hk; cases h
      simp [Tok.Sound, LExpr.toPrefix, LExpr.inBasis, parOfLabel?_label s k hk]
    · split at h
      · rename_i z hz; cases h
        simp [Tok.Sound, LExpr.toPrefix, LExpr.inBasis, litOfLabel?_label s z hz]
      · split at h
        · rename_i o ho
          split at h
          · rename_i hb; cases h; exact ⟨UOp.ofName?_name s o ho, hb⟩
          · cases h
        · split at h
          · rename_i o ho
            split at h
            · rename_i hb; cases h; exact ⟨BOp.ofName?_name s o ho, hb⟩
            · cases h
          · cases h

theorem pushTok_sound (B : Basis) (s : String) (rest : List String) (t : Tok) (st st' : List LExpr)
    (ht : t.Sound B s)
    (hst : st.flatMap LExpr.toPrefix = rest ∧ ∀ e ∈ st, e.inBasis B = true)
    (h : pushTok t st = some st') :
    st'.flatMap LExpr.toPrefix = s :: rest ∧ ∀ e ∈ st', e.inBasis B = true := by
  obtain ⟨hpre, hin⟩ := hst
  cases t with
  | leaf e =>
    simp only [pushTok, Option.some.injEq] at h; subst h
    obtain ⟨h1, h2⟩ := ht
    refine ⟨by simp [List.flatMap_cons, h1, hpre], ?_⟩
    intro e' he'
    rcases List.mem_cons.mp he' with rfl | hm
    · exact h2
    · exact hin _ hm
  | un o =>
    obtain ⟨h1, h2⟩ := ht
    cases st with
    | nil => simp [pushTok] at h
    | cons e st0 =>
      simp only [pushTok, Option.some.injEq] at h; subst h
      refine ⟨?_, ?_⟩
      · simp only [List.flatMap_cons, LExpr.toPrefix, h1] at hpre ⊢
        simp [hpre]
      · intro e' he'
        rcases List.mem_cons.mp he' with rfl | hm
        · have he := hin e (by simp)
          subst h1
          have h2' : o.name ∈ B.unary := by simpa using h2
          simp [LExpr.inBasis, h2', he]
        · exact hin _ (List.mem_cons_of_mem _ hm)
  | bin o =>
    obtain ⟨h1, h2⟩ := ht
    cases st with
    | nil => simp [pushTok] at h
    | cons l st0 =>
      cases st0 with
      | nil => simp [pushTok] at h
      | cons r st1 =>
        simp only [pushTok, Option.some.injEq] at h; subst h
        refine ⟨?_, ?_⟩
        · simp only [List.flatMap_cons, LExpr.toPrefix, h1] at hpre ⊢
          simp [← hpre]
        · intro e' he'
          rcases List.mem_cons.mp he' with rfl | hm
          · have hl := hin l (by simp)
            have hr := hin r (by simp)
            subst h1
            have h2' : o.name ∈ B.binary := by simpa using h2
            simp [LExpr.inBasis, h2', hl, hr]
          · exact hin _ (List.mem_cons_of_mem _ (List.mem_cons_of_mem _ hm))

theorem parseStack_sound (B : Basis) (ls : List String) (st : List LExpr) (h : parseStack B ls = some st) :
    st.flatMap LExpr.toPrefix = ls ∧ ∀ e ∈ st, e.inBasis B = true := by
  induction ls generalizing st with
  | nil => simp only [parseStack, Option.some.injEq] at h; subst h; simp
  | cons s rest ih =>
    unfold parseStack at h
    split at h
    · cases h
    · rename_i st0 h0
      split at h
      · cases h
      · rename_i t ht
        exact pushTok_sound B s rest t st0 st (classify_sound B s t ht) (ih st0 h0) h

theorem parsePrefix_sound (ls : List String) (B : Basis) (e : LExpr) (h : parsePrefix ls B = some e) :
    e.toPrefix = ls ∧ e.inBasis B = true := by
  unfold parsePrefix at h
  split at h
  · rename_i e' hs
    cases h
    have := parseStack_sound B ls [e] hs
    simpa using this
  · cases h

/-! ### arity strings of parsed trees are valid shapes (C01's `validShape`) -/

open ESR.Shape in
theorem slots_arities (e : LExpr) (rest : List Nat) (k : Nat) :
    slots (e.arities ++ rest) (k + 1) = slots rest k := by
  induction e generalizing rest k with
  | x => simp [LExpr.arities, slots]
  | par _ => simp [LExpr.arities, slots]
  | lit _ => simp [LExpr.arities, slots]
  | un o e ih => simp [LExpr.arities, slots, ih]
  | bin o l r ihl ihr =>
    simp only [LExpr.arities, List.cons_append, List.append_assoc, slots]
    simp [ihl, ihr]

theorem arities_length (e : LExpr) : e.arities.length = e.toPrefix.length := by
  induction e with
  | x => rfl
  | par _ => rfl
  | lit _ => rfl
  | un o e ih => simp [LExpr.arities, LExpr.toPrefix, ih]
  | bin o l r ihl ihr => simp [LExpr.arities, LExpr.toPrefix, ihl, ihr]


end ESR.Rewrite

/-! ## Layer 2/3: the model of `update_tree` removes a pow-set label on every rewrite

Core-only lemmas (no real analysis): counting pow-set labels over Python-style splices (`pc_*`), subtree spans
(`spanLen_*`, `subEnd_*`, `parentFrom_spec`, `left_child`), what the detection loops guarantee (`scan_spec`,
`detectAt_spec`, `specials_ok`), numerals are never pow-set labels (`istr_not_pow`), and one decrease lemma per
output family (`outPlain_decreases`, `outOrd12_decreases`, `outOrd3_decreases`) composing to
`updateTree_decreases`.  Facts about the regenerated tables are decided over the whole tables
(`table_first_step_ok`, `pow_set_heads`, `ops_not_pow`). -/
namespace ESR.Rewrite.UT
open ESR.Gen.Rewrite

/-! ### counting pow-set labels over splices -/

theorem pc_append (A B : List String) : powCount (A ++ B) = powCount A + powCount B := by
  simp [powCount, List.filter_append]

theorem pc_nil : powCount [] = 0 := rfl

theorem pc_cons (a : String) (A : List String) : powCount (a :: A) = powCount [a] + powCount A := by
  rw [← pc_append]; rfl

theorem pc_single_not (a : String) (h : inPow a = false) : powCount [a] = 0 := by
  simp [powCount, h]

theorem pc_take_drop (L : List String) (a : Nat) : powCount (L.take a) + powCount (L.drop a) = powCount L := by
  rw [← pc_append, List.take_append_drop]

theorem pc_sl_drop (L : List String) (a b : Nat) (h : a ≤ b) :
    powCount (sl L a b) + powCount (L.drop b) = powCount (L.drop a) := by
  unfold sl
  have : L.drop b = (L.drop a).drop (b - a) := by
    rw [List.drop_drop]; congr 1; omega
  rw [this, pc_take_drop]

theorem pc_drop_succ (L : List String) (i : Nat) (h : i < L.length) :
    powCount (L.drop i) = powCount [L.getD i ""] + powCount (L.drop (i + 1)) := by
  rw [List.drop_eq_getElem_cons h, pc_cons]
  simp [List.getD_eq_getElem?_getD, h]

theorem pc_all (A : List String) (h : ∀ a ∈ A, inPow a = true) : powCount A = A.length := by
  unfold powCount
  rw [List.filter_eq_self.mpr h]

theorem pc_reverse (A : List String) : powCount A.reverse = powCount A := by
  simp [powCount, List.filter_reverse]

/-! ### spans -/

theorem spanLen_le (xs : List Nat) (n : Nat) : spanLen xs n ≤ xs.length := by
  induction xs generalizing n with
  | nil => simp [spanLen]
  | cons a rest ih =>
    unfold spanLen
    split
    · omega
    · have := ih (n - 1 + a); simp only [List.length_cons]; omega

theorem spanLen_add (xs : List Nat) (a b : Nat) :
    spanLen xs (a + b) = spanLen xs a + spanLen (xs.drop (spanLen xs a)) b := by
  induction xs generalizing a with
  | nil => simp [spanLen]
  | cons x rest ih =>
    by_cases ha : a = 0
    · subst ha; simp [spanLen]
    · have h1 : ¬ (a + b = 0) := by omega
      have h2 : a + b - 1 + x = (a - 1 + x) + b := by omega
      rw [spanLen, spanLen]
      simp only [h1, ha, if_false]
      rw [h2, ih]
      have : 1 + spanLen rest (a - 1 + x) = (spanLen rest (a - 1 + x)) + 1 := by omega
      rw [this, List.drop_succ_cons]
      omega

theorem spanLen_mono (xs : List Nat) (a b : Nat) (h : a ≤ b) : spanLen xs a ≤ spanLen xs b := by
  obtain ⟨c, rfl⟩ := Nat.exists_eq_add_of_le h
  rw [spanLen_add]; omega

/-- a run of `m` unary nodes at the head is inside the first subtree -/
theorem spanLen_unary_run (xs : List Nat) (m : Nat) (h : ∀ t, t < m → xs[t]? = some 1) (hm : m ≤ xs.length) :
    m ≤ spanLen xs 1 := by
  induction m generalizing xs with
  | zero => omega
  | succ m ih =>
    cases xs with
    | nil => simp at hm
    | cons x rest =>
      have hx : x = 1 := by simpa using h 0 (by omega)
      subst hx
      simp only [spanLen]
      have := ih rest (fun t ht => by simpa using h (t + 1) (by omega)) (by simpa using hm)
      simp; omega

theorem subEnd_le (S : List Nat) (i : Nat) (h : i ≤ S.length) : subEnd S i ≤ S.length := by
  unfold subEnd
  have := spanLen_le (S.drop i) 1
  simp at this; omega

theorem subEnd_binary (S : List Nat) (p : Nat) (hp : S.getD p 0 = 2) (hlt : p < S.length) :
    subEnd S p = subEnd S (subEnd S (p + 1)) := by
  unfold subEnd
  rw [List.drop_eq_getElem_cons hlt]
  have h2 : S[p] = 2 := by simpa [List.getD_eq_getElem?_getD, hlt] using hp
  rw [h2, spanLen]
  simp only [Nat.one_ne_zero, if_false]
  have : 1 - 1 + 2 = 1 + 1 := rfl
  rw [this, spanLen_add, List.drop_drop]
  have : p + 1 + spanLen (List.drop (p + 1) S) 1 = spanLen (List.drop (p + 1) S) 1 + (p + 1) := by omega
  rw [this]; omega

theorem parentFrom_spec (S : List Nat) (i n p : Nat) (h : parentFrom S i n = some p) :
    p < n ∧ i < subEnd S p ∧ ∀ p', p < p' → p' < n → subEnd S p' ≤ i := by
  induction n with
  | zero => simp [parentFrom] at h
  | succ n ih =>
    unfold parentFrom at h
    split at h
    · cases h; rename_i hlt
      exact ⟨by omega, hlt, fun p' h1 h2 => by omega⟩
    · rename_i hge
      obtain ⟨h1, h2, h3⟩ := ih h
      refine ⟨by omega, h2, fun p' hp1 hp2 => ?_⟩
      by_cases hpn : p' = n
      · subst hpn; omega
      · exact h3 p' hp1 (by omega)


theorem ops_not_pow : inPow "*" = false ∧ inPow "/" = false ∧ inPow "+" = false ∧ inPow "-" = false ∧ inPow "-1" = false := by
  decide

/-- no pow-set label starts with a digit or '-' (so no numeral is a pow-set label) -/
theorem pow_set_heads : pow_set.all (fun l => match l.toList with
    | [] => false
    | c :: _ => !(c.isDigit || c == '-')) = true := by decide

theorem istr_head (k : Int) : ∃ c cs, (istr k).toList = c :: cs ∧ (c.isDigit = true ∨ c = '-') := by
  unfold istr
  rw [Int.toString_eq_repr, Int.repr_eq_if]
  split
  · rename_i h
    have hne := @Nat.toDigits_ne_nil k.toNat 10
    rw [Nat.toList_repr]
    cases hd : Nat.toDigits 10 k.toNat with
    | nil => exact absurd hd hne
    | cons c cs =>
      refine ⟨c, cs, rfl, Or.inl ?_⟩
      exact Nat.isDigit_of_mem_toDigits (b := 10) (n := k.toNat) (by decide) (by decide) (by rw [hd]; simp)
  · refine ⟨'-', ((-k).toNat.repr).toList, ?_, Or.inr rfl⟩
    simp [String.toList_append]

theorem istr_not_pow (k : Int) : inPow (istr k) = false := by
  obtain ⟨c, cs, hc, hd⟩ := istr_head k
  cases hp : inPow (istr k) with
  | false => rfl
  | true =>
    exfalso
    unfold inPow at hp
    have hmem : istr k ∈ pow_set := by simpa using hp
    have := List.all_eq_true.mp pow_set_heads _ hmem
    rw [hc] at this
    rcases hd with hd | hd
    · simp [hd] at this
    · subst hd; simp at this


theorem table_first_step_ok : pow_num.all (fun e => okRat (applyEntry 1 e)) = true := by decide +kernel

theorem scan_spec (ls : List String) (q : Rat) (d : Nat) (q' : Rat) (h : scan ls q = some (d, q')) :
    d ≤ ls.length ∧ ∀ a ∈ ls.take d, inPow a = true := by
  induction ls generalizing q d q' with
  | nil => simp [scan] at h; obtain ⟨rfl, _⟩ := h; simp
  | cons l rest ih =>
    unfold scan at h
    split at h
    · rename_i hl
      split at h
      · cases h
      · rename_i e he
        simp only at h
        split at h
        · simp only [Option.map_eq_some_iff] at h
          obtain ⟨⟨d0, q0⟩, hs, hd⟩ := h
          simp only [Prod.mk.injEq] at hd
          obtain ⟨rfl, rfl⟩ := hd
          obtain ⟨h1, h2⟩ := ih _ _ _ hs
          refine ⟨by simp; omega, ?_⟩
          intro a ha
          simp only [List.take_succ_cons, List.mem_cons] at ha
          rcases ha with rfl | ha
          · exact hl
          · exact h2 a ha
        · simp only [Option.some.injEq, Prod.mk.injEq] at h
          obtain ⟨rfl, _⟩ := h; simp
    · simp only [Option.some.injEq, Prod.mk.injEq] at h
      obtain ⟨rfl, _⟩ := h; simp

theorem scan_pos (l : String) (rest : List String) (d : Nat) (q' : Rat) (hl : inPow l = true)
    (h : scan (l :: rest) 1 = some (d, q')) : 1 ≤ d := by
  unfold scan at h
  simp only [hl, if_true] at h
  split at h
  · cases h
  · rename_i e he
    have hmem : e ∈ pow_num := List.mem_of_find?_eq_some he
    have hok := List.all_eq_true.mp table_first_step_ok e hmem
    simp only [hok, if_true, Option.map_eq_some_iff] at h
    obtain ⟨⟨d0, q0⟩, _, hd⟩ := h
    simp only [Prod.mk.injEq] at hd
    omega

theorem numOf_op (q : Rat) (n : Num) (h : numOf q = some n) : inPow n.op = false := by
  unfold numOf at h
  split at h
  · cases h; show inPow "*" = false; decide
  · split at h
    · cases h; show inPow "/" = false; decide
    · cases h

theorem scanNum_spec (ls : List String) (d : Nat) (n : Num) (h : scanNum ls = some (d, n)) :
    d ≤ ls.length ∧ (∀ a ∈ ls.take d, inPow a = true) ∧ inPow n.op = false ∧
      (∀ l rest, ls = l :: rest → inPow l = true → 1 ≤ d) := by
  unfold scanNum at h
  split at h
  · cases h
  · rename_i d0 q hs
    simp only [Option.map_eq_some_iff, Prod.mk.injEq] at h
    obtain ⟨n0, hn, rfl, rfl⟩ := h
    obtain ⟨h1, h2⟩ := scan_spec ls 1 d0 q hs
    refine ⟨h1, h2, numOf_op q n0 hn, ?_⟩
    intro l rest hls hl
    subst hls
    exact scan_pos l rest d0 q hl hs

/-- what a detected special index guarantees -/
structure SpecialOK (L : List String) (sp : Special) : Prop where
  lt : sp.i < L.length
  fwd : ∀ n, sp.n1 = some n →
    sp.i + 1 < L.length ∧ 1 ≤ sp.d1 ∧ sp.i + 1 + sp.d1 ≤ L.length ∧
    (∀ a ∈ sl L (sp.i + 1) (sp.i + 1 + sp.d1), inPow a = true) ∧ inPow n.op = false
  bwd : ∀ n, sp.n2 = some n →
    1 ≤ sp.d2 ∧ sp.d2 ≤ sp.i ∧
    (∀ a ∈ sl L (sp.i - sp.d2) sp.i, inPow a = true) ∧ inPow n.op = false
  d1z : sp.n1 = none → sp.d1 = 0
  d2z : sp.n2 = none → sp.d2 = 0
  any : sp.n1 = none → sp.n2 = none → False

theorem getD_drop_head (L : List String) (i : Nat) (h : i < L.length) :
    L.drop i = L.getD i "" :: L.drop (i + 1) := by
  rw [List.drop_eq_getElem_cons h]
  simp [List.getD_eq_getElem?_getD, h]

theorem fwd_ok (L : List String) (i d : Nat) (n : Num) (hi : i + 1 < L.length)
    (hp : inPow (L.getD (i + 1) "") = true) (h : scanNum (L.drop (i + 1)) = some (d, n)) :
    1 ≤ d ∧ i + 1 + d ≤ L.length ∧ (∀ a ∈ sl L (i + 1) (i + 1 + d), inPow a = true) ∧ inPow n.op = false := by
  obtain ⟨h1, h2, h3, h4⟩ := scanNum_spec _ _ _ h
  refine ⟨h4 _ _ (getD_drop_head L (i + 1) hi) hp, ?_, ?_, h3⟩
  · simp at h1; omega
  · intro a ha
    apply h2
    unfold sl at ha
    have : i + 1 + d - (i + 1) = d := by omega
    rwa [this] at ha

theorem bwd_ok (L : List String) (i d : Nat) (n : Num) (hi : i < L.length) (h0 : 0 < i)
    (hp : inPow (L.getD (i - 1) "") = true) (h : scanNum (L.take i).reverse = some (d, n)) :
    1 ≤ d ∧ d ≤ i ∧ (∀ a ∈ sl L (i - d) i, inPow a = true) ∧ inPow n.op = false := by
  obtain ⟨h1, h2, h3, h4⟩ := scanNum_spec _ _ _ h
  have hlen : (L.take i).length = i := by simp; omega
  have hd : d ≤ i := by simpa [hlen] using h1
  have hrev : (L.take i).reverse = L.getD (i - 1) "" :: (L.take (i - 1)).reverse := by
    obtain ⟨j, rfl⟩ : ∃ j, i = j + 1 := ⟨i - 1, by omega⟩
    have hj : j < L.length := by omega
    simp only [Nat.add_sub_cancel]
    rw [List.take_add_one]
    simp [List.getD_eq_getElem?_getD, hj]
  refine ⟨h4 _ _ hrev hp, hd, ?_, h3⟩
  intro a ha
  apply h2
  rw [List.take_reverse, hlen]
  simp only [List.mem_reverse]
  unfold sl at ha
  rw [List.drop_take]
  have : i - (i - d) = d := by omega
  rw [this] at ha ⊢
  exact ha



theorem ite_map_some {α} {c : Bool} {x : Option α} {r : α}
    (h : (if c = true then x.map some else some none) = some (some r)) : c = true ∧ x = some r := by
  cases c with
  | false => simp at h
  | true => simpa using h

theorem detectAt_spec (L : List String) (i : Nat) (sp : Special) (hi : i < L.length)
    (h : detectAt L i = some (some sp)) : sp.i = i ∧ SpecialOK L sp := by
  unfold detectAt at h
  simp only at h
  split at h
  · cases h
  · split at h
    · cases h
    · rename_i o ho
      split at h
      · cases h
      · rename_i f b hneg hf hb
        simp only [Option.some.injEq] at h
        subst h
        refine ⟨rfl, ⟨hi, ?_, ?_, ?_, ?_, ?_⟩⟩
        · intro n hn
          cases f with
          | none => simp at hn
          | some dn =>
            obtain ⟨d, n'⟩ := dn
            simp only [Option.map_some, Option.some.injEq] at hn
            subst hn
            obtain ⟨hc, hs⟩ := ite_map_some hf
            simp only [Bool.and_eq_true, decide_eq_true_eq] at hc
            obtain ⟨⟨_, hlt⟩, hp⟩ := hc
            obtain ⟨a1, a2, a3, a4⟩ := fwd_ok L i d n' hlt hp hs
            exact ⟨hlt, by simpa using a1, by simpa using a2, by simpa using a3, a4⟩
        · intro n hn
          cases b with
          | none => simp at hn
          | some dn =>
            obtain ⟨d, n'⟩ := dn
            simp only [Option.map_some, Option.some.injEq] at hn
            subst hn
            obtain ⟨hc, hs⟩ := ite_map_some hb
            simp only [Bool.and_eq_true, decide_eq_true_eq] at hc
            obtain ⟨⟨_, h0⟩, hp⟩ := hc
            obtain ⟨a1, a2, a3, a4⟩ := bwd_ok L i d n' hi h0 hp hs
            exact ⟨by simpa using a1, by simpa using a2, by simpa using a3, a4⟩
        · intro hn
          cases f with
          | none => rfl
          | some dn => simp at hn
        · intro hn
          cases b with
          | none => rfl
          | some dn => simp at hn
        · intro hn1 hn2
          cases f with
          | some dn => simp at hn1
          | none =>
            cases b with
            | some dn => simp at hn2
            | none => exact hneg rfl rfl
      · cases h

theorem specialsFrom_mem (L : List String) (is : List Nat) (sps : List Special) (sp : Special)
    (h : specialsFrom L is = some sps) (hm : sp ∈ sps) : ∃ i ∈ is, detectAt L i = some (some sp) := by
  induction is generalizing sps with
  | nil => simp [specialsFrom] at h; subst h; simp at hm
  | cons i is ih =>
    unfold specialsFrom at h
    split at h
    · cases h
    · rename_i r hr
      split at h
      · cases h
      · rename_i rest hrest
        simp only [Option.some.injEq] at h
        subst h
        cases r with
        | none =>
          obtain ⟨j, hj, hd⟩ := ih rest hrest hm
          exact ⟨j, List.mem_cons_of_mem _ hj, hd⟩
        | some sp0 =>
          simp only [List.mem_cons] at hm
          rcases hm with rfl | hm
          · exact ⟨i, by simp, hr⟩
          · obtain ⟨j, hj, hd⟩ := ih rest hrest hm
            exact ⟨j, List.mem_cons_of_mem _ hj, hd⟩

theorem specials_ok (L : List String) (sps : List Special) (k : Nat) (sp : Special)
    (h : specials L = some sps) (hk : sps[k]? = some sp) : SpecialOK L sp := by
  have hm : sp ∈ sps := List.mem_of_getElem? hk
  obtain ⟨i, hi, hd⟩ := specialsFrom_mem L _ sps sp h hm
  have hlt : i < L.length := by simpa using hi
  exact (detectAt_spec L i sp hlt hd).2



/-! ### consistency of labels and shape, and the slice bounds it gives -/

/-- pow-set labels and `log_abs` sit on unary nodes (ESR labels unary nodes with unary operators). -/
structure Consistent (L : List String) (S : List Nat) : Prop where
  len : S.length = L.length
  unary : ∀ m, m < L.length → (inPow (L.getD m "") = true ∨ expOrd (L.getD m "") = some 1) → S.getD m 0 = 1

theorem mem_sl (L : List String) (a b m : Nat) (h1 : a ≤ m) (h2 : m < b) (h3 : m < L.length) :
    L.getD m "" ∈ sl L a b := by
  unfold sl
  rw [List.mem_iff_getElem]
  refine ⟨m - a, by simp; omega, ?_⟩
  simp [List.getD_eq_getElem?_getD, h3]
  congr 1; omega

theorem length_sl (L : List String) (a b : Nat) (h : b ≤ L.length) : (sl L a b).length = b - a := by
  unfold sl; simp; omega

theorem chain_unary (L : List String) (S : List Nat) (hc : Consistent L S) (i d : Nat)
    (hle : i + 1 + d ≤ L.length) (hi : S.getD i 0 = 1)
    (hch : ∀ m, i + 1 ≤ m → m < i + 1 + d → inPow (L.getD m "") = true) :
    i + d + 1 ≤ subEnd S i := by
  unfold subEnd
  have := spanLen_unary_run (S.drop i) (d + 1) (fun t ht => by
    have hlt : i + t < S.length := by rw [hc.len]; omega
    rw [List.getElem?_drop, List.getElem?_eq_getElem hlt]
    congr 1
    by_cases h0 : t = 0
    · subst h0
      have hlt' : i < S.length := by omega
      simpa [List.getD_eq_getElem?_getD, List.getElem?_eq_getElem hlt'] using hi
    · have hm := hc.unary (i + t) (by omega) (Or.inl (hch (i + t) (by omega) (by omega)))
      simpa [List.getD_eq_getElem?_getD, List.getElem?_eq_getElem hlt] using hm) (by simp [hc.len]; omega)
  omega

theorem chain_pointwise (L : List String) (a b : Nat) (hb : b ≤ L.length)
    (h : ∀ x ∈ sl L a b, inPow x = true) : ∀ m, a ≤ m → m < b → inPow (L.getD m "") = true :=
  fun m h1 h2 => h _ (mem_sl L a b m h1 h2 (by omega))

def Out.cands : Out → List (List String × List Nat)
  | .one L S => [(L, S)]
  | .many cs => cs
  | .none => []
  | .error => []

theorem pc_lit (a : String) (h : inPow a = false) (A : List String) : powCount (a :: A) = powCount A := by
  rw [pc_cons, pc_single_not a h]; omega



/-! ### every output splice removes the chain and adds no pow-set label -/

/-- the bookkeeping facts about a forward chain (log_abs at `i`, `d` pow labels after it) -/
theorem fwd_facts (L : List String) (i d : Nat) (hi : i < L.length) (hle : i + 1 + d ≤ L.length)
    (hch : ∀ a ∈ sl L (i + 1) (i + 1 + d), inPow a = true) :
    powCount (L.take i) + powCount (L.drop i) = powCount L ∧
    powCount (L.drop i) = powCount [L.getD i ""] + powCount (L.drop (i + 1)) ∧
    d + powCount (L.drop (i + d + 1)) = powCount (L.drop (i + 1)) := by
  refine ⟨pc_take_drop L i, pc_drop_succ L i hi, ?_⟩
  have h3 := pc_sl_drop L (i + 1) (i + 1 + d) (by omega)
  have h4 : powCount (sl L (i + 1) (i + 1 + d)) = d := by
    rw [pc_all _ hch, length_sl _ _ _ hle]; omega
  have : i + d + 1 = i + 1 + d := by omega
  rw [this]; omega

/-- the bookkeeping facts about a backward chain (exp at `i`, `d` pow labels before it) -/
theorem bwd_facts (L : List String) (i d : Nat) (hi : i < L.length) (hd : d ≤ i)
    (hch : ∀ a ∈ sl L (i - d) i, inPow a = true) :
    powCount (L.take (i - d)) + powCount (L.drop (i - d)) = powCount L ∧
    d + powCount (L.drop i) = powCount (L.drop (i - d)) := by
  refine ⟨pc_take_drop L (i - d), ?_⟩
  have h3 := pc_sl_drop L (i - d) i (by omega)
  have h4 : powCount (sl L (i - d) i) = d := by
    rw [pc_all _ hch, length_sl _ _ _ (by omega)]; omega
  omega

theorem outPlain_decreases (L : List String) (S : List Nat) (i d : Nat) (n : Num) (j : Nat)
    (hi : i < L.length) (hd : 1 ≤ d) (hop : inPow n.op = false)
    (ord : Nat)
    (h1 : ord = 1 → i + 1 + d ≤ L.length ∧ (∀ a ∈ sl L (i + 1) (i + 1 + d), inPow a = true) ∧ i + d + 1 ≤ j)
    (h2 : ord ≠ 1 → d ≤ i ∧ (∀ a ∈ sl L (i - d) i, inPow a = true) ∧ i + 1 ≤ j) :
    ∀ c ∈ (outOrd12.outPlain L S ord i d n (L.getD i "") (S.getD i 0) j).cands, powCount c.1 < powCount L := by
  intro c hc
  unfold outOrd12.outPlain at hc
  by_cases ho : ord = 1
  · obtain ⟨hle, hch, hj⟩ := h1 ho
    obtain ⟨f1, f2, f3⟩ := fwd_facts L i d hi hle hch
    simp only [ho, beq_self_eq_true, if_true] at hc
    split at hc
    · simp only [Out.cands, List.mem_singleton] at hc
      subst hc
      simp only [pc_append]
      have g1 := pc_take_drop L (i + 1)
      omega
    · simp only [Out.cands, List.mem_singleton] at hc
      subst hc
      have f4 := pc_sl_drop L (i + d + 1) j hj
      simp only [pc_append, pc_single_not _ hop, pc_single_not _ (istr_not_pow n.k)]
      omega
  · obtain ⟨hle, hch, hj⟩ := h2 ho
    obtain ⟨f1, f2⟩ := bwd_facts L i d hi hle hch
    have hb : (ord == 1) = false := by simpa using ho
    simp only [hb, Bool.false_eq_true, if_false] at hc
    split at hc
    · simp only [Out.cands, List.mem_singleton] at hc
      subst hc
      simp only [pc_append]
      omega
    · simp only [Out.cands, List.mem_singleton] at hc
      subst hc
      have f3 := pc_drop_succ L i hi
      have f4 := pc_sl_drop L (i + 1) j hj
      simp only [pc_append, pc_single_not _ hop, pc_single_not _ (istr_not_pow n.k)]
      omega



theorem subEnd_gt (S : List Nat) (i : Nat) (h : i < S.length) : i + 1 ≤ subEnd S i := by
  unfold subEnd
  rw [List.drop_eq_getElem_cons h, spanLen]
  simp

theorem subEnd_ge (S : List Nat) (i : Nat) : i ≤ subEnd S i := by
  unfold subEnd; omega

theorem rightChild_spec (S : List Nat) (p r : Nat) (h : rightChild S p = some r) :
    S.getD p 0 = 2 ∧ r = subEnd S (p + 1) := by
  unfold rightChild at h
  split at h
  · rename_i h2; cases h; exact ⟨h2, rfl⟩
  · cases h

/-- the left child of a binary `+`: if `p` is the nearest ancestor of `i` and `i` is not the right child, then `i = p + 1` -/
theorem left_child (S : List Nat) (i p r : Nat) (hlen : i < S.length)
    (hp : parentFrom S i i = some p) (hr : rightChild S p = some r) (hne : r ≠ i) : i = p + 1 := by
  obtain ⟨h1, h2, h3⟩ := parentFrom_spec S i i p hp
  obtain ⟨hb, rfl⟩ := rightChild_spec S p _ hr
  by_cases hpi : i = p + 1
  · exact hpi
  · exfalso
    have hr1 : subEnd S (p + 1) ≤ i := h3 (p + 1) (by omega) (by omega)
    have hr2 : p + 2 ≤ subEnd S (p + 1) := subEnd_gt S (p + 1) (by omega)
    have hr3 : subEnd S (subEnd S (p + 1)) ≤ i := h3 _ (by omega) (by omega)
    rw [← subEnd_binary S p hb (by omega)] at hr3
    omega

theorem lp_not_pow (lp : String) (h : (lp == "+" || lp == "-") = true) : inPow lp = false := by
  simp only [Bool.or_eq_true, beq_iff_eq] at h
  rcases h with rfl | rfl <;> decide

theorem invOp_not_pow (lp : String) : inPow (if (lp == "+") = true then "-" else "+") = false := by
  split <;> decide

theorem outOrd12_decreases (L : List String) (S : List Nat) (B : Basis) (hc : Consistent L S)
    (ord i d : Nat) (n : Num) (hi : i < L.length) (hd : 1 ≤ d) (hop : inPow n.op = false)
    (h1 : ord = 1 → expOrd (L.getD i "") = some 1 ∧ i + 1 + d ≤ L.length ∧
            (∀ a ∈ sl L (i + 1) (i + 1 + d), inPow a = true))
    (h2 : ord ≠ 1 → d ≤ i ∧ (∀ a ∈ sl L (i - d) i, inPow a = true)) :
    ∀ c ∈ (outOrd12 L S B ord i d n).cands, powCount c.1 < powCount L := by
  have hiS : i < S.length := by rw [hc.len]; exact hi
  -- bounds on j
  have hj1 : ord = 1 → i + d + 1 ≤ (if 0 < i then subEnd S i else L.length) := by
    intro ho
    obtain ⟨he, hle, hch⟩ := h1 ho
    split
    · exact chain_unary L S hc i d hle (hc.unary i hi (Or.inr he)) (chain_pointwise L _ _ hle hch)
    · omega
  have hj2 : i + 1 ≤ (if 0 < i then subEnd S i else L.length) := by
    split
    · exact subEnd_gt S i hiS
    · omega
  have hplain : ∀ c ∈ (outOrd12.outPlain L S ord i d n (L.getD i "") (S.getD i 0)
      (if 0 < i then subEnd S i else L.length)).cands, powCount c.1 < powCount L :=
    outPlain_decreases L S i d n _ hi hd hop ord
      (fun ho => ⟨(h1 ho).2.1, (h1 ho).2.2, hj1 ho⟩)
      (fun ho => ⟨(h2 ho).1, (h2 ho).2, hj2⟩)
  intro c hcm
  unfold outOrd12 at hcm
  simp only at hcm
  split at hcm
  · simp [Out.cands] at hcm
  · split at hcm
    · -- under a sum
      rename_i p lp hus
      -- facts about p
      have hfacts : 0 < i ∧ parentFrom S i i = some p ∧ lp = L.getD p "" ∧ (lp == "+" || lp == "-") = true := by
        split at hus
        · rename_i h0
          split at hus
          · cases hus
          · rename_i p' hp'
            split at hus
            · rename_i hlp
              simp only [Option.some.injEq, Prod.mk.injEq] at hus
              obtain ⟨rfl, rfl⟩ := hus
              exact ⟨h0, hp', rfl, hlp⟩
            · cases hus
        · cases hus
      obtain ⟨h0, hpar, hlp, hpm⟩ := hfacts
      obtain ⟨hpi, hsub, hmin⟩ := parentFrom_spec S i i p hpar
      simp only [h0, if_true] at hplain
      have hlpn : inPow (L.getD p "") = false := by rw [← hlp]; exact lp_not_pow lp hpm
      have hinv := invOp_not_pow lp
      generalize (if (lp == "+") = true then "-" else "+") = invOp at hcm hinv
      split at hcm
      · -- log_abs with a negative multiplier under + / -
        rename_i hcond
        have ho : ord = 1 := by
          simp only [Bool.and_eq_true, beq_iff_eq, decide_eq_true_eq] at hcond
          exact hcond.2
        obtain ⟨he, hle, hch⟩ := h1 ho
        obtain ⟨f1, f2, f3⟩ := fwd_facts L i d hi hle hch
        have g1 := pc_take_drop L p
        have g2 := pc_drop_succ L p (by omega)
        rw [pc_single_not _ hlpn] at g2
        have g3 := pc_sl_drop L (p + 1) i (by omega)
        have hjj := hj1 ho
        simp only [h0, if_true] at hjj
        split at hcm
        · -- right child, inverse operator available
          split at hcm
          · simp only [Out.cands, List.mem_singleton] at hcm
            subst hcm
            simp only [pc_append, pc_single_not _ hinv]
            omega
          · simp only [Out.cands, List.mem_singleton] at hcm
            subst hcm
            have f4 := pc_sl_drop L (i + d + 1) _ hjj
            simp only [pc_append, pc_single_not _ hinv, pc_single_not _ hop, pc_single_not _ (istr_not_pow (-n.k))]
            omega
        · rename_i hnr
          split at hcm
          · -- left child of '+'
            rename_i hplus
            split at hcm
            · exact absurd hcm (by simp [Out.cands])
            · rename_i r hr
              have hinB : inB2 B invOp = true := by
                simp only [Bool.and_eq_true] at hplus; exact hplus.2
              have hne : r ≠ i := by
                intro hri
                apply hnr
                simp only [Bool.and_eq_true, hinB, and_true, hr, hri, beq_self_eq_true]
              have hip : i = p + 1 := left_child S i p r hiS hpar hr hne
              obtain ⟨hb2, hrr⟩ := rightChild_spec S p r hr
              have hri : i + d + 1 ≤ r := by
                rw [hrr, ← hip]
                exact chain_unary L S hc i d hle (hc.unary i hi (Or.inr he)) (chain_pointwise L _ _ hle hch)
              have hrk : r ≤ subEnd S p := by
                rw [subEnd_binary S p hb2 (by omega), ← hrr]; exact subEnd_ge S r
              have e1 := pc_sl_drop L i (i + 1) (by omega)
              have e2 := pc_sl_drop L (i + d + 1) r hri
              have e3 := pc_sl_drop L r (subEnd S p) hrk
              subst hip
              split at hcm
              · simp only [Out.cands, List.mem_singleton] at hcm
                subst hcm
                simp only [pc_append, pc_single_not _ hinv]
                omega
              · simp only [Out.cands, List.mem_singleton] at hcm
                subst hcm
                simp only [pc_append, pc_single_not _ hinv, pc_single_not _ hop, pc_single_not _ (istr_not_pow (-n.k))]
                omega
          · -- the two-candidate fallback
            have g4 := pc_sl_drop L p i (by omega)
            have g5 := pc_take_drop L (p + 1)
            have hstar : inPow "*" = false := by decide
            have hm1 : inPow "-1" = false := by decide
            simp only [Out.cands, List.mem_append, List.mem_singleton] at hcm
            rcases hcm with hcm | hcm
            · split at hcm
              · simp only [List.mem_singleton] at hcm
                subst hcm
                simp only [pc_append, pc_lit _ hstar, pc_lit _ hm1, pc_lit _ hop, pc_single_not _ hinv,
                  pc_single_not _ (istr_not_pow (-n.k))]
                omega
              · simp at hcm
            · subst hcm
              simp only [pc_append, pc_lit _ hop, pc_single_not _ (istr_not_pow n.k)]
              omega
      · exact hplain c hcm
    · exact hplain c hcm



/-- uniform chain facts of a special index (a missing side has length 0) -/
theorem special_chains (L : List String) (sp : Special) (h : SpecialOK L sp) :
    sp.i + 1 + sp.d1 ≤ L.length ∧ (∀ a ∈ sl L (sp.i + 1) (sp.i + 1 + sp.d1), inPow a = true) ∧
    sp.d2 ≤ sp.i ∧ (∀ a ∈ sl L (sp.i - sp.d2) sp.i, inPow a = true) ∧ 1 ≤ sp.d1 + sp.d2 := by
  have hlt := h.lt
  have A : sp.i + 1 + sp.d1 ≤ L.length ∧ (∀ a ∈ sl L (sp.i + 1) (sp.i + 1 + sp.d1), inPow a = true) ∧
      (sp.n1 ≠ none → 1 ≤ sp.d1) := by
    cases hn : sp.n1 with
    | none =>
      have := h.d1z hn
      rw [this]
      refine ⟨by omega, ?_, fun hne => absurd rfl hne⟩
      intro a ha
      simp [sl] at ha
    | some n =>
      obtain ⟨a1, a2, a3, a4, _⟩ := h.fwd n hn
      exact ⟨a3, a4, fun _ => a2⟩
  have Bk : sp.d2 ≤ sp.i ∧ (∀ a ∈ sl L (sp.i - sp.d2) sp.i, inPow a = true) ∧ (sp.n2 ≠ none → 1 ≤ sp.d2) := by
    cases hn : sp.n2 with
    | none =>
      have := h.d2z hn
      rw [this]
      refine ⟨by omega, ?_, fun hne => absurd rfl hne⟩
      intro a ha
      simp [sl] at ha
    | some n =>
      obtain ⟨a1, a2, a3, _⟩ := h.bwd n hn
      exact ⟨a2, a3, fun _ => a1⟩
  refine ⟨A.1, A.2.1, Bk.1, Bk.2.1, ?_⟩
  by_cases h1 : sp.n1 = none
  · by_cases h2 : sp.n2 = none
    · exact absurd h2 (fun h2 => h.any h1 h2)
    · have := Bk.2.2 h2; omega
  · have := A.2.2 h1; omega

theorem outOrd3_decreases (L : List String) (S : List Nat) (B : Basis) (hc : Consistent L S)
    (sp : Special) (h : SpecialOK L sp) :
    ∀ c ∈ (outOrd3 L S B sp).cands, powCount c.1 < powCount L := by
  obtain ⟨hle, hch, hd2, hch2, hpos⟩ := special_chains L sp h
  have hi := h.lt
  have hiS : sp.i < S.length := by rw [hc.len]; exact hi
  obtain ⟨f1, f2, f3⟩ := fwd_facts L sp.i sp.d1 hi hle hch
  obtain ⟨b1, b2⟩ := bwd_facts L sp.i sp.d2 hi hd2 hch2
  intro c hcm
  unfold outOrd3 at hcm
  simp only at hcm
  generalize (numOk B sp.n1 && numOk B sp.n2) = g at hcm
  generalize (numVal sp.n1 * numVal sp.n2) = q at hcm
  split at hcm
  · exact absurd hcm (by simp [Out.cands])
  · split at hcm
    · exact absurd hcm (by simp [Out.cands])
    · rename_i n hn
      have hop := numOf_op _ n hn
      split at hcm
      · exact absurd hcm (by simp [Out.cands])
      · rename_i j hj
        obtain ⟨hb2, hjj⟩ := rightChild_spec S sp.i j hj
        split at hcm
        · exact absurd hcm (by simp [Out.cands])
        · rename_i hjlen
          have hjlt : j < L.length := by
            simp only [decide_eq_true_eq] at hjlen; omega
          split at hcm
          · simp only [Out.cands, List.mem_singleton] at hcm
            subst hcm
            simp only [pc_append]
            omega
          · simp only [Out.cands, List.mem_singleton] at hcm
            subst hcm
            -- i + d1 + 1 ≤ j
            have hj1 : sp.i + sp.d1 + 1 ≤ j := by
              by_cases hd0 : sp.d1 = 0
              · rw [hd0, hjj]; have := subEnd_ge S (sp.i + 1); omega
              · have hp := chain_pointwise L _ _ hle hch
                have hu : S.getD (sp.i + 1) 0 = 1 :=
                  hc.unary (sp.i + 1) (by omega) (Or.inl (hp (sp.i + 1) (by omega) (by omega)))
                have := chain_unary L S hc (sp.i + 1) (sp.d1 - 1) (by omega) hu
                  (fun m h1 h2 => hp m (by omega) (by omega))
                rw [hjj]; omega
            have hjk : j ≤ (if sp.i = 0 then L.length else subEnd S sp.i) := by
              split
              · omega
              · rw [subEnd_binary S sp.i hb2 hiS, ← hjj]; exact subEnd_ge S j
            have e1 := pc_sl_drop L (sp.i + sp.d1 + 1) j hj1
            have e2 := pc_sl_drop L j _ hjk
            simp only [pc_append, pc_single_not _ hop, pc_single_not _ (istr_not_pow n.k)]
            omega

/-- **Termination measure of phase 1.**  Every label list `update_tree` (model) returns has strictly fewer
pow-set labels than its input. -/
theorem updateTree_decreases (L : List String) (S : List Nat) (k : Nat) (B : Basis) (hc : Consistent L S) :
    ∀ c ∈ (updateTree L S k B).cands, powCount c.1 < powCount L := by
  intro c hcm
  unfold updateTree at hcm
  split at hcm
  · exact absurd hcm (by simp [Out.cands])
  · rename_i sps hsps
    split at hcm
    · exact absurd hcm (by simp [Out.cands])
    · rename_i sp hsp
      have hok := specials_ok L sps k sp hsps hsp
      obtain ⟨hle, hch, hd2, hch2, hpos⟩ := special_chains L sp hok
      split at hcm
      · rename_i he
        split at hcm
        · rename_i n hn
          obtain ⟨a1, a2, a3, a4, a5⟩ := hok.fwd n hn
          exact outOrd12_decreases L S B hc 1 sp.i sp.d1 n hok.lt a2 a5
            (fun _ => ⟨he, a3, a4⟩) (fun h => absurd rfl h) c hcm
        · exact absurd hcm (by simp [Out.cands])
      · rename_i he
        split at hcm
        · rename_i n hn
          obtain ⟨a1, a2, a3, a4⟩ := hok.bwd n hn
          exact outOrd12_decreases L S B hc 2 sp.i sp.d2 n hok.lt a1 a4
            (fun h => absurd h (by decide)) (fun _ => ⟨a2, a3⟩) c hcm
        · exact absurd hcm (by simp [Out.cands])
      · exact outOrd3_decreases L S B hc sp hok c hcm
      · exact absurd hcm (by simp [Out.cands])

end ESR.Rewrite.UT

/-! ## Layer 2: the shapes returned by the model of `update_tree` are valid

Complete subtrees in arity strings (`IsTree`, `span_split`, `subtree_complete`, `replace_tree`), structure of valid
shapes (`subEnd_unary/chain/binary`, `has_child`, `binary_right`, `subEnd_root`), Python-slice identities
(`sl_split`, `sl_drop_split`, `take_split`), and one validity lemma per output family (`outPlain_valid`,
`outOrd12_valid`, `outOrd3_valid`) composing to `updateTree_validShape`. -/
namespace ESR.Rewrite.UT
open ESR.Shape (slots validShape)

/-! ### complete subtrees in arity strings -/

theorem slots_append (xs ys : List Nat) (k : Nat) : slots (xs ++ ys) k = (slots xs k).bind (slots ys) := by
  induction xs generalizing k with
  | nil => simp [slots]
  | cons a as ih => by_cases h : k = 0 <;> simp [slots, h, ih]

/-- `xs` is the arity string of exactly one complete tree -/
def IsTree (xs : List Nat) : Prop := ∀ k, slots xs (k + 1) = some k

theorem slots_shift (xs : List Nat) (n r m : Nat) (h : slots xs n = some r) : slots xs (n + m) = some (r + m) := by
  induction xs generalizing n with
  | nil => simp [slots] at h ⊢; omega
  | cons a as ih =>
    by_cases hn : n = 0
    · simp [slots, hn] at h
    · have hnm : ¬ (n + m = 0) := by omega
      simp only [slots, hn, hnm, if_false] at h ⊢
      have := ih (n - 1 + a) h
      have e : n + m - 1 + a = n - 1 + a + m := by omega
      rw [e]; exact this

theorem isTree_of_slots (xs : List Nat) (h : slots xs 1 = some 0) : IsTree xs := by
  intro k
  have := slots_shift xs 1 0 k h
  simpa [Nat.add_comm] using this

theorem isTree_leaf : IsTree [0] := by intro k; simp [slots]

theorem isTree_un (T : List Nat) (h : IsTree T) : IsTree (1 :: T) := by
  intro k; simp [slots]; exact h k

theorem isTree_bin (T1 T2 : List Nat) (h1 : IsTree T1) (h2 : IsTree T2) : IsTree (2 :: (T1 ++ T2)) := by
  intro k
  simp only [slots, Nat.add_one_ne_zero, if_false]
  rw [slots_append]
  have e : k + 1 - 1 + 2 = (k + 1) + 1 := by omega
  rw [e, h1 (k + 1)]
  exact h2 k

theorem isTree_ne_nil (T : List Nat) (h : IsTree T) : T ≠ [] := by
  intro hT; subst hT
  have := h 0
  simp [slots] at this

/-- replacing a complete subtree by a complete tree keeps the string valid -/
theorem replace_tree (A M M' C : List Nat) (hv : validShape (A ++ M ++ C) = true) (hM : IsTree M) (hM' : IsTree M') :
    validShape (A ++ M' ++ C) = true := by
  simp only [validShape, beq_iff_eq] at hv ⊢
  rw [List.append_assoc, slots_append] at hv ⊢
  cases hA : slots A 1 with
  | none => simp [hA] at hv
  | some k =>
    simp only [hA, Option.bind_some] at hv ⊢
    rw [slots_append] at hv ⊢
    cases k with
    | zero =>
      exfalso
      cases M with
      | nil => exact isTree_ne_nil [] hM rfl
      | cons a as => simp [slots] at hv
    | succ k =>
      rw [hM k] at hv
      rw [hM' k]
      exact hv

/-- the span of `n` wanted subtrees is complete when the rest of the string can absorb it -/
theorem span_split (xs : List Nat) (n m r : Nat) (h : slots xs (n + m) = some r) (hr : r ≤ m) :
    slots (xs.take (spanLen xs n)) n = some 0 ∧ slots (xs.drop (spanLen xs n)) m = some r := by
  induction xs generalizing n with
  | nil =>
    simp only [slots, Option.some.injEq] at h
    have : n = 0 := by omega
    subst this
    simp [spanLen, slots]; omega
  | cons a as ih =>
    by_cases hn : n = 0
    · subst hn
      simp only [Nat.zero_add] at h
      simp [spanLen, slots, h]
    · have hnm : ¬ (n + m = 0) := by omega
      simp only [slots, hnm, if_false] at h
      have e : n + m - 1 + a = (n - 1 + a) + m := by omega
      rw [e] at h
      obtain ⟨h1, h2⟩ := ih (n - 1 + a) h
      have hs : spanLen (a :: as) n = spanLen as (n - 1 + a) + 1 := by
        rw [spanLen]; simp [hn]; omega
      rw [hs, List.take_succ_cons, List.drop_succ_cons]
      exact ⟨by simp [slots, hn, h1], h2⟩

/-- in a valid shape the subtree starting at any index is complete, and what precedes/follows it is as expected -/
theorem subtree_complete (S : List Nat) (hv : validShape S = true) (i : Nat) (hi : i < S.length) :
    IsTree (sl S i (subEnd S i)) ∧ subEnd S i ≤ S.length ∧
      S = S.take i ++ sl S i (subEnd S i) ++ S.drop (subEnd S i) := by
  have hsplit : S = S.take i ++ S.drop i := (List.take_append_drop i S).symm
  simp only [validShape, beq_iff_eq] at hv
  rw [hsplit, slots_append] at hv
  cases hA : slots (S.take i) 1 with
  | none => simp [hA] at hv
  | some k =>
    simp only [hA, Option.bind_some] at hv
    have hk : 1 ≤ k := by
      cases k with
      | zero =>
        rw [List.drop_eq_getElem_cons hi] at hv
        simp [slots] at hv
      | succ k => omega
    obtain ⟨h1, h2⟩ := span_split (S.drop i) 1 (k - 1) 0 (by rw [show 1 + (k - 1) = k by omega]; exact hv) (by omega)
    have hle : subEnd S i ≤ S.length := subEnd_le S i (by omega)
    have hsl : sl S i (subEnd S i) = (S.drop i).take (spanLen (S.drop i) 1) := by
      unfold sl subEnd; congr 1; omega
    refine ⟨by rw [hsl]; exact isTree_of_slots _ h1, hle, ?_⟩
    rw [hsl]
    have : S.drop (subEnd S i) = (S.drop i).drop (spanLen (S.drop i) 1) := by
      unfold subEnd; rw [List.drop_drop]
    rw [this, List.append_assoc, List.take_append_drop, List.take_append_drop]



/-! ### slice identities -/

theorem sl_drop_split {α} (S : List α) (a b : Nat) (h : a ≤ b) : S.drop a = sl S a b ++ S.drop b := by
  unfold sl
  have : S.drop b = (S.drop a).drop (b - a) := by rw [List.drop_drop]; congr 1; omega
  rw [this, List.take_append_drop]

theorem sl_split {α} (S : List α) (a b c : Nat) (h1 : a ≤ b) (h2 : b ≤ c) : sl S a c = sl S a b ++ sl S b c := by
  unfold sl
  have e : c - a = (b - a) + (c - b) := by omega
  rw [e, List.take_add]
  congr 1
  rw [List.drop_drop]
  congr 2; omega

theorem take_split {α} (S : List α) (a b : Nat) (h : a ≤ b) : S.take b = S.take a ++ sl S a b := by
  unfold sl
  have e : b = a + (b - a) := by omega
  conv => lhs; rw [e, List.take_add]

theorem sl_single (S : List Nat) (i : Nat) (h : i < S.length) : sl S i (i + 1) = [S.getD i 0] := by
  have e : i + 1 - i = 1 := by omega
  simp only [sl, e]
  rw [List.drop_eq_getElem_cons h, List.take_succ_cons, List.take_zero]
  simp [List.getD_eq_getElem?_getD, List.getElem?_eq_getElem h]

theorem sl_self {α} (S : List α) (a : Nat) : sl S a a = [] := by simp [sl]

/-- a run of unary nodes `a, …, b-1` is a list of ones -/
theorem sl_ones (S : List Nat) (a b : Nat) (hb : b ≤ S.length) (h : ∀ m, a ≤ m → m < b → S.getD m 0 = 1) :
    sl S a b = List.replicate (b - a) 1 := by
  apply List.ext_getElem
  · simp [sl]; omega
  · intro n h1 h2
    simp only [sl, List.getElem_take, List.getElem_drop, List.getElem_replicate]
    have hlen : a + n < S.length := by simp [sl] at h1; omega
    have := h (a + n) (by omega) (by simp [sl] at h1; omega)
    simpa [List.getD_eq_getElem?_getD, List.getElem?_eq_getElem hlen] using this

theorem isTree_ones (d : Nat) (T : List Nat) (h : IsTree T) : IsTree (List.replicate d 1 ++ T) := by
  induction d with
  | zero => simpa using h
  | succ d ih => rw [List.replicate_succ, List.cons_append]; exact isTree_un _ ih

/-! ### structure of valid shapes -/

theorem subEnd_unary (S : List Nat) (i : Nat) (hi : i < S.length) (h1 : S.getD i 0 = 1) :
    subEnd S i = subEnd S (i + 1) := by
  unfold subEnd
  rw [List.drop_eq_getElem_cons hi]
  have : S[i] = 1 := by simpa [List.getD_eq_getElem?_getD, List.getElem?_eq_getElem hi] using h1
  rw [this, spanLen]
  simp; omega

theorem subEnd_chain (S : List Nat) (i d : Nat) (hle : i + d ≤ S.length)
    (h : ∀ m, i ≤ m → m < i + d → S.getD m 0 = 1) : subEnd S i = subEnd S (i + d) := by
  induction d with
  | zero => rfl
  | succ d ih =>
    rw [ih (by omega) (fun m h1 h2 => h m h1 (by omega))]
    rw [subEnd_unary S (i + d) (by omega) (h (i + d) (by omega) (by omega))]
    rfl

theorem isTree_head_child (a : Nat) (rest : List Nat) (h : IsTree (a :: rest)) (ha : a ≠ 0) : rest ≠ [] := by
  intro hr; subst hr
  have := h 0
  simp [slots] at this
  omega

/-- a non-leaf node of a valid shape is followed by its first child -/
theorem has_child (S : List Nat) (hv : validShape S = true) (m : Nat) (hm : m < S.length) (h : S.getD m 0 ≠ 0) :
    m + 1 < S.length ∧ m + 2 ≤ subEnd S m := by
  obtain ⟨ht, hle, _⟩ := subtree_complete S hv m hm
  have hge := subEnd_gt S m hm
  have hsplit := sl_split S m (m + 1) (subEnd S m) (by omega) hge
  rw [sl_single S m hm] at hsplit
  rw [hsplit] at ht
  have hne := isTree_head_child _ _ ht h
  have hlen : (sl S (m + 1) (subEnd S m)).length = subEnd S m - (m + 1) := by
    simp [sl]; omega
  have : 0 < (sl S (m + 1) (subEnd S m)).length := List.length_pos_iff.mpr hne
  omega

/-- in a valid shape the whole string is the subtree of the root -/
theorem subEnd_root (S : List Nat) (hv : validShape S = true) (h0 : 0 < S.length) : subEnd S 0 = S.length := by
  obtain ⟨ht, hle, hdec⟩ := subtree_complete S hv 0 h0
  simp only [validShape, beq_iff_eq] at hv
  rw [hdec] at hv
  simp only [List.take_zero, List.nil_append] at hv
  rw [slots_append, ht 0] at hv
  simp only [Option.bind_some] at hv
  cases hd : S.drop (subEnd S 0) with
  | nil =>
    have := List.drop_eq_nil_iff.mp hd
    omega
  | cons a as => rw [hd] at hv; simp [slots] at hv



/-- replacing the complete subtree at `a` (ending at `subEnd S a`) -/
theorem replace_at (S : List Nat) (hv : validShape S = true) (a : Nat) (ha : a < S.length) (M' : List Nat)
    (hM' : IsTree M') : validShape (S.take a ++ M' ++ S.drop (subEnd S a)) = true := by
  obtain ⟨ht, _, hdec⟩ := subtree_complete S hv a ha
  rw [hdec] at hv
  exact replace_tree _ _ _ _ hv ht hM'

theorem take_succ_getD (S : List Nat) (i : Nat) (h : i < S.length) : S.take (i + 1) = S.take i ++ [S.getD i 0] := by
  rw [take_split S i (i + 1) (by omega), sl_single S i h]

/-- facts about a log_abs node `i` followed by `d` unary nodes in a valid shape: the argument subtree `U` -/
theorem fwd_struct (S : List Nat) (hv : validShape S = true) (i d : Nat) (hi : i < S.length)
    (h1 : S.getD i 0 = 1) (hle : i + 1 + d ≤ S.length) (hch : ∀ m, i + 1 ≤ m → m < i + 1 + d → S.getD m 0 = 1) :
    i + d + 1 < S.length ∧ subEnd S (i + d + 1) = subEnd S i ∧ i + d + 2 ≤ subEnd S i ∧
      IsTree (sl S (i + d + 1) (subEnd S i)) := by
  have hall : ∀ m, i ≤ m → m < i + (d + 1) → S.getD m 0 = 1 := by
    intro m hm1 hm2
    by_cases hmi : m = i
    · subst hmi; exact h1
    · exact hch m (by omega) (by omega)
  have hlast : S.getD (i + d) 0 ≠ 0 := by rw [hall (i + d) (by omega) (by omega)]; decide
  obtain ⟨hc1, _⟩ := has_child S hv (i + d) (by omega) hlast
  have hce := subEnd_chain S i (d + 1) (by omega) hall
  have e1 : i + (d + 1) = i + d + 1 := by omega
  rw [e1] at hce
  obtain ⟨ht, _, _⟩ := subtree_complete S hv (i + d + 1) hc1
  have := subEnd_gt S (i + d + 1) hc1
  refine ⟨hc1, hce.symm, by omega, ?_⟩
  rw [hce]; exact ht

theorem outPlain_valid (L : List String) (S : List Nat) (hv : validShape S = true) (i d : Nat) (n : Num)
    (hiS : i < S.length) (ord : Nat) (hu : S.getD i 0 = 1)
    (h1 : ord = 1 → i + 1 + d ≤ S.length ∧ (∀ m, i + 1 ≤ m → m < i + 1 + d → S.getD m 0 = 1))
    (h2 : ord ≠ 1 → d ≤ i ∧ (∀ m, i - d ≤ m → m < i → S.getD m 0 = 1)) :
    ∀ c ∈ (outOrd12.outPlain L S ord i d n (L.getD i "") (S.getD i 0) (subEnd S i)).cands, validShape c.2 = true := by
  intro c hc
  unfold outOrd12.outPlain at hc
  by_cases ho : ord = 1
  · obtain ⟨hle, hch⟩ := h1 ho
    obtain ⟨s1, s2, s3, s4⟩ := fwd_struct S hv i d hiS hu hle hch
    simp only [ho, beq_self_eq_true, if_true] at hc
    split at hc
    · simp only [Out.cands, List.mem_singleton] at hc
      subst hc
      simp only
      rw [take_succ_getD S i hiS, sl_drop_split S (i + d + 1) (subEnd S i) (by omega), hu]
      have := replace_at S hv i hiS (1 :: sl S (i + d + 1) (subEnd S i)) (isTree_un _ s4)
      simpa [List.append_assoc] using this
    · simp only [Out.cands, List.mem_singleton] at hc
      subst hc
      simp only
      rw [hu]
      have := replace_at S hv i hiS (2 :: ((1 :: sl S (i + d + 1) (subEnd S i)) ++ [0]))
        (isTree_bin _ _ (isTree_un _ s4) isTree_leaf)
      simpa [List.append_assoc] using this
  · obtain ⟨hle, hch⟩ := h2 ho
    have hb : (ord == 1) = false := by simpa using ho
    simp only [hb, Bool.false_eq_true, if_false] at hc
    have hce : subEnd S (i - d) = subEnd S i := by
      have := subEnd_chain S (i - d) d (by omega) (fun m a b => hch m a (by omega))
      rw [this]; congr 1; omega
    have hne : S.getD i 0 ≠ 0 := by rw [hu]; decide
    obtain ⟨hc1, hc2⟩ := has_child S hv i hiS hne
    have hV : IsTree (sl S (i + 1) (subEnd S i)) := by
      obtain ⟨ht, _, _⟩ := subtree_complete S hv (i + 1) hc1
      rw [← subEnd_unary S i hiS hu] at ht; exact ht
    split at hc
    · simp only [Out.cands, List.mem_singleton] at hc
      subst hc
      simp only
      rw [sl_drop_split S i (subEnd S i) (by omega)]
      obtain ⟨ht, _, _⟩ := subtree_complete S hv i hiS
      have := replace_at S hv (i - d) (by omega) _ ht
      rw [hce] at this
      simpa [List.append_assoc] using this
    · simp only [Out.cands, List.mem_singleton] at hc
      subst hc
      simp only
      rw [hu]
      have := replace_at S hv (i - d) (by omega) (1 :: 2 :: (sl S (i + 1) (subEnd S i) ++ [0]))
        (isTree_un _ (isTree_bin _ _ hV isTree_leaf))
      rw [hce] at this
      simpa [List.append_assoc] using this



/-- a binary node of a valid shape has its right child inside the string -/
theorem binary_right (S : List Nat) (hv : validShape S = true) (p : Nat) (hp : p < S.length) (h2 : S.getD p 0 = 2) :
    p + 1 < S.length ∧ p + 2 ≤ subEnd S (p + 1) ∧ subEnd S (p + 1) < S.length ∧
      subEnd S p = subEnd S (subEnd S (p + 1)) ∧ subEnd S (p + 1) < subEnd S p := by
  have hne : S.getD p 0 ≠ 0 := by rw [h2]; decide
  obtain ⟨hc1, hc2⟩ := has_child S hv p hp hne
  have hb := subEnd_binary S p h2 hp
  obtain ⟨ht, hle, _⟩ := subtree_complete S hv p hp
  obtain ⟨htX, hleX, _⟩ := subtree_complete S hv (p + 1) hc1
  have hr1 := subEnd_gt S (p + 1) hc1
  have hr2 := subEnd_ge S (subEnd S (p + 1))
  -- decompose the subtree at p
  have d1 := sl_split S p (p + 1) (subEnd S p) (by omega) (by omega)
  have d2 := sl_split S (p + 1) (subEnd S (p + 1)) (subEnd S p) (by omega) (by omega)
  rw [sl_single S p hp, h2] at d1
  rw [d1, d2] at ht
  have h0 := ht 0
  simp only [List.singleton_append, slots, Nat.zero_add, Nat.one_ne_zero, if_false] at h0
  rw [slots_append] at h0
  have e : 1 - 1 + 2 = 1 + 1 := rfl
  rw [e, htX 1] at h0
  simp only [Option.bind_some] at h0
  have hG : sl S (subEnd S (p + 1)) (subEnd S p) ≠ [] := by
    intro hnil; rw [hnil] at h0; simp [slots] at h0
  have hlen : (sl S (subEnd S (p + 1)) (subEnd S p)).length = subEnd S p - subEnd S (p + 1) := by
    simp [sl]; omega
  have : 0 < (sl S (subEnd S (p + 1)) (subEnd S p)).length := List.length_pos_iff.mpr hG
  refine ⟨hc1, by omega, by omega, hb, by omega⟩

/-- well-formedness context: labels consistent with a valid shape -/
structure WF (L : List String) (S : List Nat) : Prop where
  cons : Consistent L S
  valid : validShape S = true
  expu : ∀ m, m < L.length → expOrd (L.getD m "") = some 2 → S.getD m 0 = 1
  sumb : ∀ m, m < L.length → (L.getD m "" == "+" || L.getD m "" == "-") = true → S.getD m 0 = 2

theorem model_j (L : List String) (S : List Nat) (h : WF L S) (i : Nat) (hi : i < L.length) :
    (if 0 < i then subEnd S i else L.length) = subEnd S i := by
  split
  · rfl
  · have : i = 0 := by omega
    subst this
    rw [← h.cons.len, subEnd_root S h.valid (by rw [h.cons.len]; exact hi)]



theorem outOrd12_valid (L : List String) (S : List Nat) (B : Basis) (hw : WF L S)
    (hB : inB2 B "+" = true ∧ inB2 B "-" = true)
    (ord i d : Nat) (n : Num) (hi : i < L.length) (hu : S.getD i 0 = 1)
    (h1 : ord = 1 → i + 1 + d ≤ L.length ∧ (∀ a ∈ sl L (i + 1) (i + 1 + d), inPow a = true))
    (h2 : ord ≠ 1 → d ≤ i ∧ (∀ a ∈ sl L (i - d) i, inPow a = true)) :
    ∀ c ∈ (outOrd12 L S B ord i d n).cands, validShape c.2 = true := by
  have hc := hw.cons
  have hv := hw.valid
  have hiS : i < S.length := by rw [hc.len]; exact hi
  have hj := model_j L S hw i hi
  -- the chains are unary in the shape
  have g1 : ord = 1 → i + 1 + d ≤ S.length ∧ (∀ m, i + 1 ≤ m → m < i + 1 + d → S.getD m 0 = 1) := by
    intro ho
    obtain ⟨hle, hch⟩ := h1 ho
    refine ⟨by rw [hc.len]; exact hle, fun m a b => ?_⟩
    exact hc.unary m (by omega) (Or.inl (chain_pointwise L _ _ hle hch m a b))
  have g2 : ord ≠ 1 → d ≤ i ∧ (∀ m, i - d ≤ m → m < i → S.getD m 0 = 1) := by
    intro ho
    obtain ⟨hle, hch⟩ := h2 ho
    refine ⟨hle, fun m a b => ?_⟩
    exact hc.unary m (by omega) (Or.inl (chain_pointwise L _ _ (by omega) hch m a b))
  have hplain := outPlain_valid L S hv i d n hiS ord hu g1 g2
  intro c hcm
  unfold outOrd12 at hcm
  simp only [hj] at hcm
  split at hcm
  · exact absurd hcm (by simp [Out.cands])
  · split at hcm
    · rename_i p lp hus
      have hfacts : 0 < i ∧ parentFrom S i i = some p ∧ lp = L.getD p "" ∧ (lp == "+" || lp == "-") = true := by
        split at hus
        · rename_i h0
          split at hus
          · cases hus
          · rename_i p' hp'
            split at hus
            · rename_i hlp
              simp only [Option.some.injEq, Prod.mk.injEq] at hus
              obtain ⟨rfl, rfl⟩ := hus
              exact ⟨h0, hp', rfl, hlp⟩
            · cases hus
        · cases hus
      obtain ⟨h0, hpar, hlp, hpm⟩ := hfacts
      obtain ⟨hpi, hsub, hmin⟩ := parentFrom_spec S i i p hpar
      have hp2 : S.getD p 0 = 2 := hw.sumb p (by omega) (by rw [← hlp]; exact hpm)
      have hpS : p < S.length := by omega
      obtain ⟨b1, b2, b3, b4, b5⟩ := binary_right S hv p hpS hp2
      have hinvB : inB2 B (if (lp == "+") = true then "-" else "+") = true := by
        split
        · exact hB.2
        · exact hB.1
      generalize (if (lp == "+") = true then "-" else "+") = invOp at hcm hinvB
      split at hcm
      · rename_i hcond
        have ho : ord = 1 := by
          simp only [Bool.and_eq_true, beq_iff_eq, decide_eq_true_eq] at hcond
          exact hcond.2
        obtain ⟨hle, hch⟩ := g1 ho
        obtain ⟨s1, s2, s3, s4⟩ := fwd_struct S hv i d hiS hu hle hch
        split at hcm
        · -- right child
          split at hcm
          · simp only [Out.cands, List.mem_singleton] at hcm
            subst hcm
            simp only
            rw [hu]
            have := replace_at S hv i hiS (1 :: sl S (i + d + 1) (subEnd S i)) (isTree_un _ s4)
            simpa [List.append_assoc] using this
          · simp only [Out.cands, List.mem_singleton] at hcm
            subst hcm
            simp only
            have ht : S.take p ++ [2] ++ sl S (p + 1) i = S.take i := by
              rw [take_split S p i (by omega), sl_split S p (p + 1) i (by omega) (by omega), sl_single S p hpS, hp2]
              simp [List.append_assoc]
            rw [ht, hu]
            have := replace_at S hv i hiS (2 :: ((1 :: sl S (i + d + 1) (subEnd S i)) ++ [0]))
              (isTree_bin _ _ (isTree_un _ s4) isTree_leaf)
            simpa [List.append_assoc] using this
        · rename_i hnr
          -- not the right child: i is the left child p + 1
          have hrc : rightChild S p = some (subEnd S (p + 1)) := by unfold rightChild; rw [if_pos hp2]
          have hne : subEnd S (p + 1) ≠ i := by
            intro hri
            apply hnr
            simp only [Bool.and_eq_true, hinvB, and_true, hrc, hri, beq_self_eq_true]
          have hip : i = p + 1 := left_child S i p _ hiS hpar hrc hne
          subst hip
          have hG : IsTree (sl S (subEnd S (p + 1)) (subEnd S p)) := by
            obtain ⟨ht, _, _⟩ := subtree_complete S hv (subEnd S (p + 1)) b3
            rw [← b4] at ht; exact ht
          split at hcm
          · -- left child of '+'
            rw [hrc] at hcm
            simp only at hcm
            rw [sl_single S (p + 1) hiS, hu] at hcm
            split at hcm
            · simp only [Out.cands, List.mem_singleton] at hcm
              subst hcm
              simp only
              have := replace_at S hv p hpS
                (2 :: (sl S (subEnd S (p + 1)) (subEnd S p) ++ (1 :: sl S (p + 1 + d + 1) (subEnd S (p + 1)))))
                (isTree_bin _ _ hG (isTree_un _ s4))
              simpa [List.append_assoc] using this
            · simp only [Out.cands, List.mem_singleton] at hcm
              subst hcm
              simp only
              have := replace_at S hv p hpS
                (2 :: (sl S (subEnd S (p + 1)) (subEnd S p) ++
                  (2 :: ((1 :: sl S (p + 1 + d + 1) (subEnd S (p + 1))) ++ [0]))))
                (isTree_bin _ _ hG (isTree_bin _ _ (isTree_un _ s4) isTree_leaf))
              simpa [List.append_assoc] using this
          · -- left child of '-': the two-candidate fallback
            have hd : S.drop (p + 1 + d + 1) =
                sl S (p + 1 + d + 1) (subEnd S (p + 1)) ++ sl S (subEnd S (p + 1)) (subEnd S p) ++ S.drop (subEnd S p) := by
              rw [sl_drop_split S (p + 1 + d + 1) (subEnd S (p + 1)) (by omega),
                sl_drop_split S (subEnd S (p + 1)) (subEnd S p) (by omega)]
              simp [List.append_assoc]
            simp only [Out.cands, List.mem_append, List.mem_singleton] at hcm
            rcases hcm with hcm | hcm
            · subst hcm
              simp only
              rw [hd, hu]
              have := replace_at S hv p hpS
                (2 :: ([0] ++ (2 :: ((2 :: ([0] ++ (1 :: sl S (p + 1 + d + 1) (subEnd S (p + 1))))) ++
                  sl S (subEnd S (p + 1)) (subEnd S p)))))
                (isTree_bin _ _ isTree_leaf (isTree_bin _ _ (isTree_bin _ _ isTree_leaf (isTree_un _ s4)) hG))
              simpa [List.append_assoc] using this
            · subst hcm
              simp only
              rw [hd, hu, take_succ_getD S p hpS, hp2]
              have := replace_at S hv p hpS
                (2 :: ((2 :: ([0] ++ (1 :: sl S (p + 1 + d + 1) (subEnd S (p + 1))))) ++
                  sl S (subEnd S (p + 1)) (subEnd S p)))
                (isTree_bin _ _ (isTree_bin _ _ isTree_leaf (isTree_un _ s4)) hG)
              simpa [List.append_assoc] using this
      · exact hplain c hcm
    · exact hplain c hcm



theorem outOrd3_valid (L : List String) (S : List Nat) (B : Basis) (hw : WF L S)
    (sp : Special) (h : SpecialOK L sp) :
    ∀ c ∈ (outOrd3 L S B sp).cands, validShape c.2 = true := by
  have hc := hw.cons
  have hv := hw.valid
  obtain ⟨hle, hch, hd2, hch2, _⟩ := special_chains L sp h
  have hi := h.lt
  have hiS : sp.i < S.length := by rw [hc.len]; exact hi
  have hfw : ∀ m, sp.i + 1 ≤ m → m < sp.i + 1 + sp.d1 → S.getD m 0 = 1 := fun m a b =>
    hc.unary m (by omega) (Or.inl (chain_pointwise L _ _ hle hch m a b))
  have hbw : ∀ m, sp.i - sp.d2 ≤ m → m < sp.i → S.getD m 0 = 1 := fun m a b =>
    hc.unary m (by omega) (Or.inl (chain_pointwise L _ _ (by omega) hch2 m a b))
  intro c hcm
  unfold outOrd3 at hcm
  simp only at hcm
  generalize (numOk B sp.n1 && numOk B sp.n2) = g at hcm
  generalize (numVal sp.n1 * numVal sp.n2) = q at hcm
  split at hcm
  · exact absurd hcm (by simp [Out.cands])
  · split at hcm
    · exact absurd hcm (by simp [Out.cands])
    · rename_i n hn
      split at hcm
      · exact absurd hcm (by simp [Out.cands])
      · rename_i j hj
        obtain ⟨hb2, hjj⟩ := rightChild_spec S sp.i j hj
        obtain ⟨b1, b2, b3, b4, b5⟩ := binary_right S hv sp.i hiS hb2
        -- the model's k is the end of the subtree at i
        have hk : (if sp.i = 0 then L.length else subEnd S sp.i) = subEnd S sp.i := by
          split
          · rename_i h0
            rw [h0, ← hc.len, subEnd_root S hv (by omega)]
          · rfl
        rw [hk] at hcm
        -- the first argument X: subtree at i + d1 + 1, ending at j
        have hje : subEnd S (sp.i + 1 + sp.d1) = j := by
          rw [hjj]; exact (subEnd_chain S (sp.i + 1) sp.d1 (by rw [hc.len]; omega) (fun m a b => hfw m a b)).symm
        have hX1 : sp.i + 1 + sp.d1 < S.length := by
          by_cases hd0 : sp.d1 = 0
          · rw [hd0]; exact b1
          · have hne : S.getD (sp.i + sp.d1) 0 ≠ 0 := by rw [hfw (sp.i + sp.d1) (by omega) (by omega)]; decide
            have := (has_child S hv (sp.i + sp.d1) (by rw [hc.len]; omega) hne).1
            omega
        have hX : IsTree (sl S (sp.i + sp.d1 + 1) j) := by
          obtain ⟨ht, _, _⟩ := subtree_complete S hv (sp.i + 1 + sp.d1) hX1
          rw [hje] at ht
          have e : sp.i + sp.d1 + 1 = sp.i + 1 + sp.d1 := by omega
          rw [e]; exact ht
        have hXj : sp.i + sp.d1 + 1 < j := by
          have := subEnd_gt S (sp.i + 1 + sp.d1) hX1
          rw [hje] at this; omega
        have hY : IsTree (sl S j (subEnd S sp.i)) := by
          obtain ⟨ht, _, _⟩ := subtree_complete S hv j (by rw [hjj]; exact b3)
          rw [b4, ← hjj]; exact ht
        have hjk : j < subEnd S sp.i := by rw [hjj]; exact b5
        have hce : subEnd S (sp.i - sp.d2) = subEnd S sp.i := by
          have := subEnd_chain S (sp.i - sp.d2) sp.d2 (by omega) (fun m a b => hbw m a (by omega))
          rw [this]; congr 1; omega
        split at hcm
        · exact absurd hcm (by simp [Out.cands])
        · split at hcm
          · simp only [Out.cands, List.mem_singleton] at hcm
            subst hcm
            simp only
            rw [sl_drop_split S (sp.i + sp.d1 + 1) j (by omega), sl_drop_split S j (subEnd S sp.i) (by omega), hb2]
            have := replace_at S hv (sp.i - sp.d2) (by omega)
              (2 :: (sl S (sp.i + sp.d1 + 1) j ++ sl S j (subEnd S sp.i))) (isTree_bin _ _ hX hY)
            rw [hce] at this
            simpa [List.append_assoc] using this
          · simp only [Out.cands, List.mem_singleton] at hcm
            subst hcm
            simp only
            rw [hb2]
            have := replace_at S hv (sp.i - sp.d2) (by omega)
              (2 :: (sl S (sp.i + sp.d1 + 1) j ++ (2 :: (sl S j (subEnd S sp.i) ++ [0]))))
              (isTree_bin _ _ hX (isTree_bin _ _ hY isTree_leaf))
            rw [hce] at this
            simpa [List.append_assoc] using this

/-- **Shapes returned by the model of `update_tree` are valid** (hence `check_tree` rebuilds a proper tree), for
a valid consistent input, when the basis contains both `+` and `-`. -/
theorem updateTree_validShape (L : List String) (S : List Nat) (k : Nat) (B : Basis) (hw : WF L S)
    (hB : inB2 B "+" = true ∧ inB2 B "-" = true) :
    ∀ c ∈ (updateTree L S k B).cands, validShape c.2 = true := by
  intro c hcm
  unfold updateTree at hcm
  split at hcm
  · exact absurd hcm (by simp [Out.cands])
  · rename_i sps hsps
    split at hcm
    · exact absurd hcm (by simp [Out.cands])
    · rename_i sp hsp
      have hok := specials_ok L sps k sp hsps hsp
      split at hcm
      · rename_i he
        split at hcm
        · rename_i n hn
          obtain ⟨a1, a2, a3, a4, a5⟩ := hok.fwd n hn
          exact outOrd12_valid L S B hw hB 1 sp.i sp.d1 n hok.lt
            (hw.cons.unary sp.i hok.lt (Or.inr he)) (fun _ => ⟨a3, a4⟩) (fun h => absurd rfl h) c hcm
        · exact absurd hcm (by simp [Out.cands])
      · rename_i he
        split at hcm
        · rename_i n hn
          obtain ⟨a1, a2, a3, a4⟩ := hok.bwd n hn
          exact outOrd12_valid L S B hw hB 2 sp.i sp.d2 n hok.lt
            (hw.expu sp.i hok.lt he) (fun h => absurd h (by decide)) (fun _ => ⟨a2, a3⟩) c hcm
        · exact absurd hcm (by simp [Out.cands])
      · exact outOrd3_valid L S B hw sp hok c hcm
      · exact absurd hcm (by simp [Out.cands])

end ESR.Rewrite.UT
