import ESRVerif.Model.NLL
import Mathlib.Analysis.SpecialFunctions.Log.Basic
import Mathlib.Analysis.SpecialFunctions.Trigonometric.Basic
import Mathlib.Analysis.Real.Sqrt
/-!
Helper lemmas for C09: the instance of `RealLike` for ℝ, how the `Val ℝ` operations act on finite
reals / NaN / the complex marker, fusion of numpy broadcasting over `List.map`, sums.
-/
namespace ESR.NLL

open Classical in
noncomputable instance instRealLikeReal : RealLike ℝ where
  zero := 0
  ofRat n d := (n : ℝ) / (d : ℝ)
  ofNat n := (n : ℝ)
  pi := Real.pi
  add a b := a + b
  sub a b := a - b
  mul a b := a * b
  div a b := a / b
  neg a := -a
  log := Real.log
  sqrt := Real.sqrt
  lt a b := decide (a < b)

abbrev V := Val ℝ

namespace Val

theorem sign_real (a : ℝ) :
    Val.sign a = if 0 < a then Sign.pos else if a < 0 then Sign.neg else Sign.zero := by
  simp [Val.sign, RealLike.lt, RealLike.zero]

theorem vsign_pos {a : ℝ} (h : 0 < a) : Val.sign a = Sign.pos := by simp [sign_real, h]
theorem vsign_neg {a : ℝ} (h : a < 0) : Val.sign a = Sign.neg := by
  simp [sign_real, h, not_lt.mpr h.le]
theorem vsign_zero : Val.sign (0 : ℝ) = Sign.zero := by simp [sign_real]

end Val

section real_ops
open Val

@[simp] theorem add_real (a b : ℝ) : NumOps.add (real a : V) (real b) = real (a + b) := rfl
@[simp] theorem sub_real (a b : ℝ) : NumOps.sub (real a : V) (real b) = real (a - b) := rfl
@[simp] theorem mul_real (a b : ℝ) : NumOps.mul (real a : V) (real b) = real (a * b) := rfl
@[simp] theorem neg_real (a : ℝ) : NumOps.neg (real a : V) = real (-a) := rfl
@[simp] theorem sq_real (a : ℝ) : NumOps.sq (real a : V) = real (a * a) := rfl
@[simp] theorem ofRat_real (n : Int) (d : Nat) : (NumOps.ofRat n d : V) = real ((n : ℝ) / (d : ℝ)) := rfl
@[simp] theorem ofNat_real (n : Nat) : (NumOps.ofNat n : V) = real (n : ℝ) := rfl
@[simp] theorem pi_real : (NumOps.pi : V) = real Real.pi := rfl
@[simp] theorem inf_val : (NumOps.inf : V) = pinf := rfl
@[simp] theorem isReal_real (a : ℝ) : NumOps.isReal (real a : V) = true := rfl
@[simp] theorem isNaN_real (a : ℝ) : NumOps.isNaN (real a : V) = false := rfl
@[simp] theorem isNaN_pinf : NumOps.isNaN (pinf : V) = false := rfl
@[simp] theorem isNaN_nan : NumOps.isNaN (nan : V) = true := rfl
@[simp] theorem isReal_nan : NumOps.isReal (nan : V) = true := rfl
@[simp] theorem isReal_pinf : NumOps.isReal (pinf : V) = true := rfl
@[simp] theorem isReal_ninf : NumOps.isReal (ninf : V) = true := rfl
@[simp] theorem isReal_cplx : NumOps.isReal (cplx : V) = false := rfl
@[simp] theorem lt_real (a b : ℝ) : NumOps.lt (real a : V) (real b) = decide (a < b) := by
  show vlt (real a) (real b) = _
  simp [vlt, RealLike.lt]
@[simp] theorem le_real (a b : ℝ) : NumOps.le (real a : V) (real b) = decide (a ≤ b) := by
  show vle (real a) (real b) = _
  by_cases h : a ≤ b
  · simp [vle, RealLike.lt, h, not_lt.mpr h]
  · simp [vle, RealLike.lt, h, not_le.mp h]

theorem div_real (a : ℝ) {b : ℝ} (hb : b ≠ 0) : NumOps.div (real a : V) (real b) = real (a / b) := by
  show vdiv (real a) (real b) = _
  rcases lt_or_gt_of_ne hb with h | h
  · simp [vdiv, divFin, vsign_neg h]; rfl
  · simp [vdiv, divFin, vsign_pos h]; rfl

theorem log_real {a : ℝ} (ha : 0 < a) : NumOps.log (real a : V) = real (Real.log a) := by
  show vlog (real a) = _
  simp [vlog, logFin, vsign_pos ha]; rfl

theorem sqrt_real {a : ℝ} (ha : 0 ≤ a) : NumOps.sqrt (real a : V) = real (Real.sqrt a) := by
  show vsqrt (real a) = _
  rcases ha.lt_or_eq with h | h
  · simp [vsqrt, sqrtFin, vsign_pos h]; rfl
  · have hs : Val.sign a = Sign.zero := by rw [← h]; exact vsign_zero
    simp [vsqrt, sqrtFin, hs]; rfl

end real_ops

/-! ### numpy broadcasting fused over `List.map` -/
section fusion
variable {ι α β γ : Type}

theorem zipWith_map_map (f : α → β → γ) (xs : List ι) (g : ι → α) (h : ι → β) :
    List.zipWith f (xs.map g) (xs.map h) = xs.map (fun r => f (g r) (h r)) := by
  induction xs with
  | nil => rfl
  | cons x xs ih => simp [ih]

@[simp] theorem map₂_vec_map_map (f : α → β → γ) (xs : List ι) (g : ι → α) (h : ι → β) :
    Arr.map₂ f (.vec (xs.map g)) (.vec (xs.map h)) = some (.vec (xs.map (fun r => f (g r) (h r)))) := by
  simp [Arr.map₂, zipWith_map_map]

@[simp] theorem map₂_scalar_vec_map (f : α → β → γ) (c : α) (xs : List ι) (h : ι → β) :
    Arr.map₂ f (.scalar c) (.vec (xs.map h)) = some (.vec (xs.map (fun r => f c (h r)))) := by
  simp [Arr.map₂]

@[simp] theorem map₂_vec_map_scalar (f : α → β → γ) (xs : List ι) (g : ι → α) (c : β) :
    Arr.map₂ f (.vec (xs.map g)) (.scalar c) = some (.vec (xs.map (fun r => f (g r) c))) := by
  simp [Arr.map₂]

@[simp] theorem map₂_scalar_scalar (f : α → β → γ) (a : α) (b : β) :
    Arr.map₂ f (.scalar a) (.scalar b) = some (.scalar (f a b)) := rfl

@[simp] theorem map₁_vec_map (f : α → β) (xs : List ι) (g : ι → α) :
    Arr.map₁ f (.vec (xs.map g)) = .vec (xs.map (fun r => f (g r))) := by
  simp [Arr.map₁]

@[simp] theorem map₁_scalar (f : α → β) (a : α) : Arr.map₁ f (.scalar a) = .scalar (f a) := rfl

@[simp] theorem all_vec_map (xs : List ι) (p : ι → Bool) :
    Arr.all (.vec (xs.map p)) = xs.all p := by
  simp [Arr.all, List.all_map]

@[simp] theorem all_vec_replicate_true (n : Nat) : Arr.all (.vec (List.replicate n true)) = true := by
  simp [Arr.all]

@[simp] theorem sum_vec {α : Type} [NumOps α] (xs : List α) : Arr.sum (.vec xs) = sumList xs := rfl
@[simp] theorem sum_scalar {α : Type} [NumOps α] (a : α) : Arr.sum (.scalar a) = a := rfl
@[simp] theorem all_scalar (b : Bool) : Arr.all (.scalar b) = b := rfl
@[simp] theorem any_scalar (b : Bool) : Arr.any (.scalar b) = b := rfl
@[simp] theorem truth_scalar (b : Bool) : Arr.truth (.scalar b) = some b := rfl

end fusion

/-! ### sums -/
section sums
open Val
variable {ι : Type}

theorem foldl_add_real (xs : List ι) (t : ι → ℝ) (acc : ℝ) :
    List.foldl NumOps.add (real acc : V) (xs.map (fun r => real (t r))) = real (acc + (xs.map t).sum) := by
  induction xs generalizing acc with
  | nil => simp
  | cons x xs ih => simp [ih, add_assoc]

theorem sumList_real (xs : List ι) (t : ι → ℝ) :
    sumList (xs.map (fun r => (real (t r) : V))) = real ((xs.map t).sum) := by
  have := foldl_add_real xs t 0
  simpa [sumList] using this

/-- If every summand is a finite real, so is `np.sum`, with the real sum as value. -/
theorem sumList_congr_real (xs : List ι) (v : ι → V) (t : ι → ℝ) (h : ∀ r ∈ xs, v r = real (t r)) :
    sumList (xs.map v) = real ((xs.map t).sum) := by
  rw [List.map_congr_left h]; exact sumList_real xs t

end sums

/-! ### special values: closure of `isReal`, NaN propagation -/
open Val
section closure

theorem isReal_infTimes (p : Bool) (a : ℝ) : visReal (infTimes p a) = true := by
  unfold infTimes; cases sign a <;> cases p <;> rfl
theorem isReal_divFin (a b : ℝ) : visReal (divFin a b) = true := by
  unfold divFin; cases sign b <;> cases sign a <;> rfl
theorem isReal_infOver (p : Bool) (a : ℝ) : visReal (infOver p a) = true := by
  unfold infOver; cases sign a <;> cases p <;> rfl
theorem isReal_logFin (a : ℝ) : visReal (logFin a) = true := by
  unfold logFin; cases sign a <;> rfl
theorem isReal_sqrtFin (a : ℝ) : visReal (sqrtFin a) = true := by
  unfold sqrtFin; cases sign a <;> rfl

variable (a b : V)

@[simp] theorem isReal_add : NumOps.isReal (NumOps.add a b) = (NumOps.isReal a && NumOps.isReal b) := by
  show visReal (vadd a b) = (visReal a && visReal b)
  cases a <;> cases b <;> rfl
@[simp] theorem isReal_sub : NumOps.isReal (NumOps.sub a b) = (NumOps.isReal a && NumOps.isReal b) := by
  show visReal (vsub a b) = (visReal a && visReal b)
  cases a <;> cases b <;> rfl
@[simp] theorem isReal_mul : NumOps.isReal (NumOps.mul a b) = (NumOps.isReal a && NumOps.isReal b) := by
  show visReal (vmul a b) = (visReal a && visReal b)
  cases a <;> cases b <;> first | rfl | exact isReal_infTimes _ _
@[simp] theorem isReal_div : NumOps.isReal (NumOps.div a b) = (NumOps.isReal a && NumOps.isReal b) := by
  show visReal (vdiv a b) = (visReal a && visReal b)
  cases a <;> cases b <;> first | rfl | exact isReal_divFin _ _ | exact isReal_infOver _ _
@[simp] theorem isReal_sq : NumOps.isReal (NumOps.sq a) = NumOps.isReal a := by
  show visReal (vsq a) = visReal a
  cases a <;> rfl
@[simp] theorem isReal_neg : NumOps.isReal (NumOps.neg a) = NumOps.isReal a := by
  show visReal (vneg a) = visReal a
  cases a <;> rfl
@[simp] theorem isReal_log : NumOps.isReal (NumOps.log a) = NumOps.isReal a := by
  show visReal (vlog a) = visReal a
  cases a <;> first | rfl | exact isReal_logFin _
@[simp] theorem isReal_sqrt : NumOps.isReal (NumOps.sqrt a) = NumOps.isReal a := by
  show visReal (vsqrt a) = visReal a
  cases a <;> first | rfl | exact isReal_sqrtFin _
end closure

section nanprop
variable {a b : V}
theorem nan_add (h : NumOps.isReal b = true) : NumOps.add (nan : V) b = nan := by
  cases b <;> first | rfl | cases h
theorem add_nan (h : NumOps.isReal a = true) : NumOps.add a (nan : V) = nan := by
  cases a <;> first | rfl | cases h
theorem nan_sub (h : NumOps.isReal b = true) : NumOps.sub (nan : V) b = nan := by
  cases b <;> first | rfl | cases h
theorem sub_nan (h : NumOps.isReal a = true) : NumOps.sub a (nan : V) = nan := by
  cases a <;> first | rfl | cases h
theorem nan_mul (h : NumOps.isReal b = true) : NumOps.mul (nan : V) b = nan := by
  cases b <;> first | rfl | cases h
theorem mul_nan (h : NumOps.isReal a = true) : NumOps.mul a (nan : V) = nan := by
  cases a <;> first | rfl | cases h
theorem nan_div (h : NumOps.isReal b = true) : NumOps.div (nan : V) b = nan := by
  cases b <;> first | rfl | cases h
theorem div_nan (h : NumOps.isReal a = true) : NumOps.div a (nan : V) = nan := by
  cases a <;> first | rfl | cases h
@[simp] theorem real_add_nan (r : ℝ) : NumOps.add (real r : V) nan = nan := rfl
@[simp] theorem nan_add_real (r : ℝ) : NumOps.add (nan : V) (real r) = nan := rfl
@[simp] theorem real_sub_nan (r : ℝ) : NumOps.sub (real r : V) nan = nan := rfl
@[simp] theorem nan_sub_real (r : ℝ) : NumOps.sub (nan : V) (real r) = nan := rfl
@[simp] theorem real_mul_nan (r : ℝ) : NumOps.mul (real r : V) nan = nan := rfl
@[simp] theorem nan_mul_real (r : ℝ) : NumOps.mul (nan : V) (real r) = nan := rfl
@[simp] theorem real_div_nan (r : ℝ) : NumOps.div (real r : V) nan = nan := rfl
@[simp] theorem nan_div_real (r : ℝ) : NumOps.div (nan : V) (real r) = nan := rfl
@[simp] theorem nan_op_nan : NumOps.add (nan : V) nan = nan ∧ NumOps.sub (nan : V) nan = nan ∧
    NumOps.mul (nan : V) nan = nan ∧ NumOps.div (nan : V) nan = nan := ⟨rfl, rfl, rfl, rfl⟩
@[simp] theorem sq_nan : NumOps.sq (nan : V) = nan := rfl
@[simp] theorem neg_nan : NumOps.neg (nan : V) = nan := rfl
@[simp] theorem log_nan : NumOps.log (nan : V) = nan := rfl
@[simp] theorem sqrt_nan : NumOps.sqrt (nan : V) = nan := rfl
@[simp] theorem sqrt_cplx : NumOps.sqrt (cplx : V) = cplx := rfl
end nanprop

theorem foldl_add_nan (xs : List V) (hreal : ∀ x ∈ xs, NumOps.isReal x = true) :
    List.foldl NumOps.add (nan : V) xs = nan := by
  induction xs with
  | nil => rfl
  | cons x xs ih =>
    simp only [List.foldl_cons]
    rw [nan_add (hreal x (by simp))]
    exact ih (fun y hy => hreal y (by simp [hy]))

theorem foldl_add_mem_nan (xs : List V) (acc : V) (hacc : NumOps.isReal acc = true)
    (hreal : ∀ x ∈ xs, NumOps.isReal x = true) (hnan : nan ∈ xs) :
    List.foldl NumOps.add acc xs = nan := by
  induction xs generalizing acc with
  | nil => simp at hnan
  | cons x xs ih =>
    simp only [List.foldl_cons]
    have hx := hreal x (by simp)
    have hxs : ∀ y ∈ xs, NumOps.isReal y = true := fun y hy => hreal y (by simp [hy])
    rcases List.mem_cons.mp hnan with h | h
    · rw [← h, add_nan hacc]; exact foldl_add_nan xs hxs
    · exact ih _ (by simp [hacc, hx]) hxs h

/-- `np.sum` of real-dtype summands one of which is NaN is NaN. -/
theorem sumList_nan (xs : List V) (hreal : ∀ x ∈ xs, NumOps.isReal x = true) (hnan : nan ∈ xs) :
    sumList xs = nan := foldl_add_mem_nan xs _ rfl hreal hnan


/-! ### `safeRet` is sound: a guarded return never yields NaN -/
theorem hasNaN_of_truth_false {α : Type} [NumOps α] (a : Arr α)
    (h : Arr.truth (Arr.map₁ NumOps.isNaN a) = some false) : a.hasNaN = false := by
  cases a with
  | scalar x => simpa [Arr.truth, Arr.map₁, Arr.hasNaN] using h
  | vec xs =>
    match xs, h with
    | [x], h => simpa [Arr.truth, Arr.map₁, Arr.hasNaN] using h

theorem runStmts_safe {α : Type} [NumOps α] (hinf : NumOps.isNaN (NumOps.inf : α) = false)
    (env : Env α) (predV : Option (Arr α)) :
    ∀ (body : List Stmt) (locs : List (Arr α)) (v : Arr α),
      safeRet body = true → runStmts env predV locs body = some v → v.hasNaN = false := by
  intro body
  induction body with
  | nil => intro locs v _ h; simp [runStmts] at h
  | cons s rest ih =>
    intro locs v hs h
    cases s with
    | assign i e =>
      simp only [runStmts] at h
      split at h
      · simp at h
      · exact ih _ _ (by simpa [safeRet] using hs) h
    | ret e =>
      have he : e = .inf := by simpa [safeRet] using hs
      subst he
      simp [runStmts, evalExpr] at h
      subst h
      simpa [Arr.hasNaN] using hinf
    | ifRet c e =>
      simp only [safeRet, Bool.and_eq_true, beq_iff_eq, Bool.or_eq_true] at hs
      obtain ⟨he, hs⟩ := hs
      subst he
      simp only [runStmts] at h
      split at h
      · simp at h
      · simp [evalExpr] at h
        subst h
        simpa [Arr.hasNaN] using hinf
      · rename_i hc
        rcases hs with hs | hs
        · exact ih _ _ hs h
        · split at hs
          · rename_i k tl
            have hc' : c = .truth (.isnan (.loc k)) := by simpa using hs
            subst hc'
            simp only [runStmts, evalExpr] at h
            simp only [evalCond, evalB, evalExpr, h] at hc
            simp at hc
            exact hasNaN_of_truth_false v hc
          · simp at hs

/-! ### "some element has a non-zero imaginary part" -/

/-- `true` iff some element of the array is `cplx`, i.e. `np.isreal` is false somewhere. -/
noncomputable def Arr.anyNonReal (a : Arr V) : Bool :=
  match a with
  | .scalar x => !NumOps.isReal x
  | .vec xs => xs.any (fun x => !NumOps.isReal x)

theorem map₁_vec {α β : Type} (f : α → β) (xs : List α) : Arr.map₁ f (.vec xs) = .vec (xs.map f) := rfl

@[simp] theorem all_isReal (a : Arr V) : Arr.all (Arr.map₁ NumOps.isReal a) = !a.anyNonReal := by
  cases a with
  | scalar x => simp [Arr.map₁, Arr.all, Arr.anyNonReal]
  | vec xs =>
    simp only [Arr.map₁, Arr.all, Arr.anyNonReal, List.all_map]
    induction xs with
    | nil => rfl
    | cons x xs ih =>
      have ih' : xs.all NumOps.isReal = !xs.any fun x => !NumOps.isReal x := by simpa using ih
      simp [List.all_cons, List.any_cons, ih']

@[simp] theorem anyNonReal_sqrt (a : Arr V) : (Arr.map₁ NumOps.sqrt a).anyNonReal = a.anyNonReal := by
  cases a with
  | scalar x => simp [Arr.map₁, Arr.anyNonReal]
  | vec xs => simp [Arr.map₁, Arr.anyNonReal, List.any_map, Function.comp_def]

/-! ### broadcasting against a scalar, for an array of unknown shape -/

theorem map₂_scalar_right {α β γ : Type} (f : α → β → γ) (a : Arr α) (c : β) :
    Arr.map₂ f a (.scalar c) = some (Arr.map₁ (fun x => f x c) a) := by
  cases a <;> rfl

theorem all_map₁ {α : Type} (p : α → Bool) (a : Arr α) : Arr.all (Arr.map₁ p a) = a.elems.all p := by
  cases a with
  | scalar x => simp [Arr.map₁, Arr.all, Arr.elems]
  | vec xs => simp [Arr.map₁, Arr.all, Arr.elems, List.all_map, Function.comp_def]

theorem anyNonReal_eq (a : Arr V) : a.anyNonReal = a.elems.any (fun x => !NumOps.isReal x) := by
  cases a <;> simp [Arr.anyNonReal, Arr.elems]

theorem hasNaN_eq (a : Arr V) : a.hasNaN = a.elems.any NumOps.isNaN := by
  cases a <;> simp [Arr.hasNaN, Arr.elems]

end ESR.NLL
