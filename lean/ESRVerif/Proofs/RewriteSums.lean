import ESRVerif.Model.RewriteSums
import ESRVerif.Proofs.Rewrite
import Mathlib.Data.List.Perm.Subperm
/-!
Lemmas about the list-level model of `update_sums` (`ESRVerif/Model/RewriteSums.lean`): every label of every
candidate is a label of the input, one of the five constants the function writes, or an integer literal `str(k)`.
-/
namespace ESR.Rewrite.US
open ESR.Rewrite.UT (Out sl subEnd parentIdx rightChild istr)

/-- the labels `update_sums` writes itself -/
def consts : List String := ["*", "+", "-", "0", "-1"]

/-- a label of the input, a constant of `update_sums`, or `str(k)` for an integer `k` -/
def Ok (L : List String) (l : String) : Prop := l ∈ L ∨ l ∈ consts ∨ ∃ z : Int, l = istr z

def AllOk (L : List String) (xs : List String) : Prop := ∀ l ∈ xs, Ok L l

theorem allOk_nil (L : List String) : AllOk L [] := by intro l h; cases h

theorem allOk_append {L xs ys : List String} (h1 : AllOk L xs) (h2 : AllOk L ys) : AllOk L (xs ++ ys) := by
  intro l h
  rcases List.mem_append.mp h with h | h
  · exact h1 l h
  · exact h2 l h

theorem allOk_sl (L : List String) (a b : Nat) : AllOk L (sl L a b) := by
  intro l h
  unfold sl at h
  exact Or.inl (List.mem_of_mem_drop (List.mem_of_mem_take h))

theorem allOk_take (L : List String) (a : Nat) : AllOk L (L.take a) := fun _ h => Or.inl (List.mem_of_mem_take h)
theorem allOk_drop (L : List String) (a : Nat) : AllOk L (L.drop a) := fun _ h => Or.inl (List.mem_of_mem_drop h)

theorem allOk_star_istr (L : List String) (z : Int) : AllOk L ["*", istr z] := by
  intro l h
  simp at h
  rcases h with rfl | rfl
  · exact Or.inr (Or.inl (by simp [consts]))
  · exact Or.inr (Or.inr ⟨z, rfl⟩)

theorem allOk_star_abs (L : List String) (z : Int) : AllOk L ["*", natAbsStr z] := allOk_star_istr L _

theorem allOk_const {L : List String} {xs : List String} (h : ∀ l ∈ xs, l ∈ consts) : AllOk L xs :=
  fun l hl => Or.inr (Or.inl (h l hl))

structure AccOk (L : List String) (acc : Acc) : Prop where
  l : AllOk L acc.l
  n : ∀ s ∈ acc.n, s = "+" ∨ s = "-"

theorem accOk_empty (L : List String) : AccOk L {} := ⟨allOk_nil L, by intro s h; cases h⟩

theorem accOk_add {L : List String} {acc : Acc} (ls : List String) (ts : List Nat) (h : AccOk L acc)
    (hl : AllOk L ls) : AccOk L (acc.add ls ts) := ⟨allOk_append hl h.l, h.n⟩

theorem accOk_sgn {L : List String} {acc : Acc} (s : String) (h : AccOk L acc) (hs : s = "+" ∨ s = "-") :
    AccOk L (acc.sgn s) := by
  refine ⟨h.l, ?_⟩
  intro x hx
  simp only [Acc.sgn, List.mem_append, List.mem_singleton] at hx
  rcases hx with hx | rfl
  · exact h.n x hx
  · exact hs

theorem sgn_ite (b : Bool) : (if b = true then "+" else "-") = "+" ∨ (if b = true then "+" else "-") = "-" := by
  cases b <;> simp

theorem uniStep_ok (c : Ctx) (redo : Bool) (acc acc' : Acc) (a : Nat) (hacc : AccOk c.L acc)
    (h : uniStep c redo acc a = .ok acc') : AccOk c.L acc' := by
  unfold uniStep at h
  simp only [] at h
  repeat' split at h
  all_goals cases h
  all_goals
    repeat first
      | exact hacc
      | apply accOk_sgn
      | apply accOk_add
      | apply allOk_append
      | apply allOk_sl
      | apply allOk_star_istr
      | apply allOk_star_abs
      | exact Or.inl rfl
      | exact Or.inr rfl
      | exact sgn_ite _

theorem uniLoop_ok (c : Ctx) (redo : Bool) (skip : Option Nat) (xs : List Nat) :
    ∀ (pos : Nat) (acc acc' : Acc), AccOk c.L acc → uniLoop c redo skip xs pos acc = .ok acc' → AccOk c.L acc' := by
  induction xs with
  | nil => intro pos acc acc' ha h; simp only [uniLoop] at h; cases h; exact ha
  | cons a rest ih =>
    intro pos acc acc' ha h
    simp only [uniLoop] at h
    split at h
    · exact ih _ _ _ ha h
    · split at h
      · rename_i acc1 h1
        exact ih _ _ _ (uniStep_ok c redo acc acc1 a ha h1) h
      · rename_i r hne
        exact absurd h (hne _)

theorem lab_ok (c : Ctx) (a : Nat) : AllOk c.L (c.lab a) := by
  unfold Ctx.lab
  split
  · exact allOk_sl _ _ _
  · exact allOk_nil _

theorem signs_ok (L : List String) (ns : List String) (h : ∀ s ∈ ns, s = "+" ∨ s = "-") : AllOk L ns := by
  apply allOk_const
  intro l hl
  rcases h l hl with rfl | rfl <;> simp [consts]

theorem candMid_ok (c : Ctx) (B : Basis) (fj : Nat) (l : List String) (t : List Nat)
    (h : candMid c B fj = .ok l t) : AllOk c.L l := by
  unfold candMid at h
  simp only [] at h
  split at h
  · cases h
  · cases h
  · rename_i u hu
    have hu' := uniLoop_ok c false none _ 0 {} u (accOk_empty _) hu
    have hn := signs_ok c.L u.n hu'.n
    have hstar : ∀ z : Int, AllOk c.L (if (z != 1) = true then ["*", istr z] else []) := by
      intro z; split
      · exact allOk_star_istr _ _
      · exact allOk_nil _
    split at h
    · split at h
      · cases h
        exact allOk_append hu'.l (allOk_append (hstar _) (lab_ok c fj))
      · cases h
        exact allOk_append (allOk_append hn (allOk_append (hstar _) (lab_ok c fj))) hu'.l
    · split at h
      · cases h
        exact allOk_const (by simp [consts])
      · split at h
        · cases h
          refine allOk_append ?_ hu'.l
          intro x hx
          exact hn x (List.dropLast_subset _ hx)
        · split at h
          · cases h
            refine allOk_append (allOk_append (allOk_const (by simp [consts])) ?_) hu'.l
            apply allOk_const
            intro x hx
            rw [List.eq_of_mem_replicate hx]; simp [consts]
          · split at h
            · cases h
            · cases h
            · rename_i u2 hu2
              have hu2' := uniLoop_ok c true _ _ 0 {} u2 (accOk_empty _) hu2
              have hn2 := signs_ok c.L u2.n hu2'.n
              split at h
              · cases h
              · split at h
                · cases h
                  exact allOk_append (allOk_append hn2 (lab_ok c _)) hu2'.l
                · cases h
                  exact allOk_append (allOk_append (allOk_append hn2 (allOk_star_istr _ _)) (lab_ok c _)) hu2'.l

/-- the candidates of a model answer (`unported` carries none) -/
def Res.cands : Res → List (List String × List Nat)
  | .out o => o.cands
  | .unported _ => []

theorem collect_ok (c : Ctx) (B : Basis) (pre post : List String × List Nat)
    (hpre : AllOk c.L pre.1) (hpost : AllOk c.L post.1) (fs : List Nat) :
    ∀ cs, collect c B pre post fs = some (.ok cs) → ∀ x ∈ cs, AllOk c.L x.1 := by
  induction fs with
  | nil => intro cs h; simp only [collect] at h; cases h; intro x hx; cases hx
  | cons fj rest ih =>
    intro cs h
    simp only [collect] at h
    split at h
    · cases h
    · cases h
    · rename_i l t hm
      split at h
      · cases h
      · cases h
      · rename_i cs' hc
        cases h
        intro x hx
        rcases List.mem_cons.mp hx with rfl | hx
        · exact allOk_append (allOk_append hpre (candMid_ok c B fj l t hm)) hpost
        · exact ih cs' hc x hx

/-- **alphabet of `update_sums`**: every label of every candidate the model returns is a label of the input, one of
`* + - 0 -1`, or an integer literal `str(k)` -/
theorem updateSums_alphabet (L : List String) (S : List Nat) (k : Nat) (B : Basis) :
    ∀ c ∈ (updateSums L S k B).cands, AllOk L c.1 := by
  intro c hc
  unfold updateSums at hc
  split at hc
  · simp [Res.cands, Out.cands] at hc
  split at hc
  · simp [Res.cands] at hc
  split at hc
  · simp [Res.cands, Out.cands] at hc
  rename_i i hi
  split at hc
  · simp [Res.cands, Out.cands] at hc
  rename_i terms r hg
  split at hc
  · simp [Res.cands, Out.cands] at hc
  rename_i sn hs
  simp only [] at hc
  split at hc
  · have key := collect_ok ⟨L, S, terms, sn.map (·.1), sn.map (·.2)⟩ B (L.take i, S.take i)
      (L.drop (subEnd S i), S.drop (subEnd S i)) (allOk_take L i) (allOk_drop L _)
    split at hc
    · simp [Res.cands, Out.cands] at hc
    · simp [Res.cands] at hc
    · rename_i l t hcol
      simp only [Res.cands, Out.cands, List.mem_singleton] at hc
      subst hc
      exact key _ _ hcol _ (by simp)
    · rename_i cs _ hcol
      simp only [Res.cands, Out.cands] at hc
      exact key _ _ hcol c hc
  · simp [Res.cands, Out.cands] at hc

/-! ### sizes -/

theorem sl_length_le {α} (L : List α) (a b : Nat) : (sl L a b).length ≤ L.length := by
  unfold sl; simp

theorem uniStep_len (c : Ctx) (redo : Bool) (acc acc' : Acc) (a : Nat)
    (h : uniStep c redo acc a = .ok acc') :
    acc'.l.length ≤ acc.l.length + (2 * c.L.length + 2) ∧ acc'.n.length ≤ acc.n.length + 1 := by
  unfold uniStep at h
  simp only [] at h
  repeat' split at h
  all_goals cases h
  all_goals (try simp only [Acc.sgn, Acc.add, List.length_append, List.length_cons, List.length_nil])
  all_goals grind [sl_length_le]

theorem uniLoop_len (c : Ctx) (redo : Bool) (skip : Option Nat) (xs : List Nat) :
    ∀ (pos : Nat) (acc acc' : Acc), uniLoop c redo skip xs pos acc = .ok acc' →
      acc'.l.length ≤ acc.l.length + xs.length * (2 * c.L.length + 2) ∧ acc'.n.length ≤ acc.n.length + xs.length := by
  induction xs with
  | nil => intro pos acc acc' h; simp only [uniLoop] at h; cases h; simp
  | cons a rest ih =>
    intro pos acc acc' h
    simp only [uniLoop] at h
    have hmul : (rest.length + 1) * (2 * c.L.length + 2) = rest.length * (2 * c.L.length + 2) + (2 * c.L.length + 2) :=
      Nat.succ_mul _ _
    split at h
    · have := ih _ _ _ h
      simp only [List.length_cons, hmul]
      omega
    · split at h
      · rename_i acc1 h1
        have h2 := uniStep_len c redo acc acc1 a h1
        have := ih _ _ _ h
        simp only [List.length_cons, hmul]
        omega
      · rename_i r hne
        exact absurd h (hne _)

theorem lab_length_le (c : Ctx) (a : Nat) : (c.lab a).length ≤ c.L.length := by
  unfold Ctx.lab; split
  · exact sl_length_le _ _ _
  · simp

/-- the part of a candidate between `labels[:i]` and `labels[end_idx:]`: at most `(|uni| + 1)(2 len + 3)` labels -/
theorem candMid_len (c : Ctx) (B : Basis) (fj : Nat) (l : List String) (t : List Nat)
    (h : candMid c B fj = .ok l t) :
    l.length ≤ (c.firsts.length + 1) * (2 * c.L.length + 3) := by
  have hfl : (c.firsts.filter (fun a => a != fj)).length ≤ c.firsts.length := List.length_filter_le _ _
  generalize hu : c.firsts.filter (fun a => a != fj) = uni at hfl
  have hmono : (uni.length + 1) * (2 * c.L.length + 3) ≤ (c.firsts.length + 1) * (2 * c.L.length + 3) :=
    Nat.mul_le_mul_right _ (by omega)
  refine Nat.le_trans ?_ hmono
  have hexp : (uni.length + 1) * (2 * c.L.length + 3)
      = uni.length * (2 * c.L.length + 2) + uni.length + (2 * c.L.length + 3) := by
    rw [Nat.succ_mul, Nat.mul_succ]
  rw [hexp]
  unfold candMid at h
  simp only [hu] at h
  split at h
  · cases h
  · cases h
  · rename_i u hu1
    have hl := uniLoop_len c false none uni 0 {} u hu1
    simp only [List.length_nil, Nat.zero_add] at hl
    have hlab := lab_length_le c fj
    split at h
    · split at h
      · cases h
        simp only [List.length_append]
        split <;> simp <;> omega
      · cases h
        simp only [List.length_append]
        split <;> simp <;> omega
    · split at h
      · cases h; simp; omega
      · split at h
        · cases h
          simp only [List.length_append, List.length_dropLast]
          omega
        · split at h
          · cases h
            simp only [List.length_append, List.length_replicate, List.length_cons, List.length_nil]
            omega
          · split at h
            · cases h
            · cases h
            · rename_i u2 hu2
              have hl2 := uniLoop_len c true _ uni 0 {} u2 hu2
              simp only [List.length_nil, Nat.zero_add] at hl2
              split at h
              · cases h
              · rename_i a _
                have hla := lab_length_le c a
                split at h
                · cases h
                  simp only [List.length_append]
                  omega
                · cases h
                  simp only [List.length_append, List.length_cons, List.length_nil]
                  omega

/-- a term is a whole subtree starting inside the list -/
def TmOk (S : List Nat) (t : Tm) : Prop := t.a < S.length ∧ t.b = subEnd S t.a

theorem leftIdx_lt (S : List Nat) (j l : Nat) (h : leftIdx S j = some l) : l < S.length := by
  unfold leftIdx at h
  split at h
  · cases h; omega
  · cases h

theorem rightIdx_lt (S : List Nat) (j r : Nat) (h : rightIdx S j = some r) : r < S.length := by
  unfold rightIdx at h
  split at h
  · split at h
    · cases h; assumption
    · cases h
  · cases h

theorem getSum_spec (L : List String) (S : List Nat) (f : Nat) :
    ∀ (j : Nat) (r : Bool) (ts : List Tm) (r' : Bool), j < S.length → getSum L S f j r = some (ts, r') →
      ∀ t ∈ ts, TmOk S t := by
  induction f with
  | zero => intro j r ts r' _ h; simp [getSum] at h
  | succ f ih =>
    intro j r ts r' hj h
    have hrep : ∀ (n : Nat) (t0 : List Tm), (∀ t ∈ t0, TmOk S t) →
        ∀ t ∈ t0.flatMap (fun x => List.replicate n x), TmOk S t := by
      intro n t0 h0 t ht
      obtain ⟨x, hx, hm⟩ := List.mem_flatMap.mp ht
      rw [List.eq_of_mem_replicate hm]; exact h0 x hx
    simp only [getSum] at h
    split at h
    · split at h
      · rename_i l rr hl hr
        split at h
        · cases h
        · rename_i s1 r2 h1
          split at h
          · cases h
          · rename_i s2 r3 h2
            cases h
            intro t ht
            rcases List.mem_append.mp ht with ht | ht
            · exact ih l _ _ _ (leftIdx_lt S j l hl) h1 t ht
            · exact ih rr _ _ _ (rightIdx_lt S j rr hr) h2 t ht
      · cases h
    · split at h
      · split at h
        · rename_i l rr hl hr
          split at h
          · split at h
            · cases h
            · rename_i t0 r2 h1
              cases h
              exact hrep _ t0 (ih rr _ _ _ (rightIdx_lt S j rr hr) h1)
          · split at h
            · split at h
              · cases h
              · rename_i t0 r2 h1
                cases h
                exact hrep _ t0 (ih l _ _ _ (leftIdx_lt S j l hl) h1)
            · cases h
              intro t ht
              simp at ht; subst ht; exact ⟨hj, rfl⟩
        · cases h
      · cases h
        intro t ht
        simp at ht; subst ht; exact ⟨hj, rfl⟩

theorem lab_of_lt (c : Ctx) (x : Nat) (hx : x < c.terms.length) :
    c.lab x = sl c.L (c.terms[x]).a (c.terms[x]).b := by
  unfold Ctx.lab
  rw [List.getElem?_eq_getElem hx]

/-- distinct terms start at distinct positions: there are at most `len(labels)` of them -/
theorem firsts_length_le (c : Ctx) (hok : ∀ t ∈ c.terms, TmOk c.S t) : c.firsts.length ≤ c.S.length := by
  let g : Nat → Nat := fun idx => (c.terms.getD idx ⟨0, 0⟩).a
  have hmem : ∀ x ∈ c.firsts, x < c.terms.length ∧ ∀ b, b < x → c.lab b ≠ c.lab x := by
    intro x hx
    unfold Ctx.firsts at hx
    rw [List.mem_filter, List.mem_range, List.all_eq_true] at hx
    refine ⟨hx.1, ?_⟩
    intro b hb
    have := hx.2 b (List.mem_range.mpr hb)
    simpa using this
  have hnd : (c.firsts.map g).Nodup := by
    apply List.Nodup.map_on
    · intro x hx y hy hxy
      obtain ⟨hxl, hxf⟩ := hmem x hx
      obtain ⟨hyl, hyf⟩ := hmem y hy
      have hgx : g x = (c.terms[x]).a := by simp [g, List.getD_eq_getElem?_getD, List.getElem?_eq_getElem hxl]
      have hgy : g y = (c.terms[y]).a := by simp [g, List.getD_eq_getElem?_getD, List.getElem?_eq_getElem hyl]
      have ha : (c.terms[x]).a = (c.terms[y]).a := by rw [← hgx, ← hgy]; exact hxy
      have hb : (c.terms[x]).b = (c.terms[y]).b := by
        rw [(hok _ (List.getElem_mem hxl)).2, (hok _ (List.getElem_mem hyl)).2, ha]
      have hlab : c.lab x = c.lab y := by rw [lab_of_lt c x hxl, lab_of_lt c y hyl, ha, hb]
      rcases Nat.lt_trichotomy x y with hlt | heq | hgt
      · exact absurd hlab (hyf x hlt)
      · exact heq
      · exact absurd hlab.symm (hxf y hgt)
    · unfold Ctx.firsts
      exact List.Nodup.filter _ List.nodup_range
  have hsub : c.firsts.map g ⊆ List.range c.S.length := by
    intro v hv
    obtain ⟨x, hx, rfl⟩ := List.mem_map.mp hv
    obtain ⟨hxl, _⟩ := hmem x hx
    have : g x = (c.terms[x]).a := by simp [g, List.getD_eq_getElem?_getD, List.getElem?_eq_getElem hxl]
    rw [List.mem_range, this]
    exact (hok _ (List.getElem_mem hxl)).1
  have := (List.subperm_of_subset hnd hsub).length_le
  simpa using this


theorem collect_len (c : Ctx) (B : Basis) (pre post : List String × List Nat) (fs : List Nat) :
    ∀ cs, collect c B pre post fs = some (.ok cs) →
      ∀ x ∈ cs, x.1.length ≤ pre.1.length + (c.firsts.length + 1) * (2 * c.L.length + 3) + post.1.length := by
  induction fs with
  | nil => intro cs h; simp only [collect] at h; cases h; intro x hx; cases hx
  | cons fj rest ih =>
    intro cs h
    simp only [collect] at h
    split at h
    · cases h
    · cases h
    · rename_i l t hm
      split at h
      · cases h
      · cases h
      · rename_i cs' hc
        cases h
        intro x hx
        rcases List.mem_cons.mp hx with rfl | hx
        · have := candMid_len c B fj l t hm
          simp only [List.length_append]
          omega
        · exact ih cs' hc x hx

theorem plusIdx_lt (L : List String) (S : List Nat) (k i : Nat) (h : (plusIdx L S)[k]? = some i) : i < L.length := by
  have := List.mem_of_getElem? h
  unfold plusIdx at this
  exact List.mem_range.mp (List.mem_filter.mp this).1

theorem precond_len (L : List String) (S : List Nat) (h : precond L S = true) : S.length = L.length := by
  unfold precond at h
  simp only [Bool.and_eq_true, beq_iff_eq] at h
  exact h.1.1.1

/-- **size of `update_sums` candidates**: at most `len + (len + 1)(2 len + 3)` labels (`len = len(labels)`) -/
theorem updateSums_length (L : List String) (S : List Nat) (k : Nat) (B : Basis) :
    ∀ c ∈ (updateSums L S k B).cands, c.1.length ≤ L.length + (L.length + 1) * (2 * L.length + 3) := by
  intro c hc
  unfold updateSums at hc
  split at hc
  · simp [Res.cands, Out.cands] at hc
  split at hc
  · simp [Res.cands] at hc
  rename_i hpre
  have hlen : S.length = L.length := precond_len L S (by simpa using hpre)
  split at hc
  · simp [Res.cands, Out.cands] at hc
  rename_i i hi
  have hiL := plusIdx_lt L S k i hi
  split at hc
  · simp [Res.cands, Out.cands] at hc
  rename_i terms r hg
  have hspec := getSum_spec L S _ i false terms r (by omega) hg
  split at hc
  · simp [Res.cands, Out.cands] at hc
  rename_i sn hs
  simp only [] at hc
  split at hc
  · have key := collect_len ⟨L, S, terms, sn.map (·.1), sn.map (·.2)⟩ B (L.take i, S.take i)
      (L.drop (subEnd S i), S.drop (subEnd S i))
    have hf := firsts_length_le ⟨L, S, terms, sn.map (·.1), sn.map (·.2)⟩ hspec
    simp only [hlen] at hf
    have hge := ESR.Rewrite.UT.subEnd_ge S i
    have hmono : ((Ctx.mk L S terms (sn.map (·.1)) (sn.map (·.2))).firsts.length + 1) * (2 * L.length + 3)
        ≤ (L.length + 1) * (2 * L.length + 3) := Nat.mul_le_mul_right _ (by omega)
    have fin : ∀ x : List String × List Nat,
        x.1.length ≤ (L.take i).length + ((Ctx.mk L S terms (sn.map (·.1)) (sn.map (·.2))).firsts.length + 1)
          * (2 * L.length + 3) + (L.drop (subEnd S i)).length →
        x.1.length ≤ L.length + (L.length + 1) * (2 * L.length + 3) := by
      intro x hx
      simp only [List.length_take, List.length_drop] at hx
      omega
    split at hc
    · simp [Res.cands, Out.cands] at hc
    · simp [Res.cands] at hc
    · rename_i l t hcol
      simp only [Res.cands, Out.cands, List.mem_singleton] at hc
      subst hc
      exact fin _ (key _ _ hcol _ (by simp))
    · rename_i cs _ hcol
      simp only [Res.cands, Out.cands] at hc
      exact fin _ (key _ _ hcol c hc)
  · simp [Res.cands, Out.cands] at hc

end ESR.Rewrite.US
