import ESRVerif.Model.Printer
/-!
C12 helper: the Python expression grammar as an inductive relation, and the proof that the executable
parser of `Model/Printer.lean` is complete and sound for it.  Core Lean only.
-/
namespace ESR.Printer

/-- precedence levels of the Python grammar: `expr ⊃ term ⊃ factor ⊃ power ⊃ atom` -/
inductive Lvl | expr | term | factor | power | atom
deriving DecidableEq, Repr

/-- `Phrase l ts a`: the (blank-free) token list `ts` is a phrase of level `l` of Python's grammar and `a` is its AST.

```
expr: expr '+' term | expr '-' term | term          factor: '-' factor | '+' factor | power
term: term '*' factor | term '/' factor | factor    power:  atom '**' factor | atom
atom: NAME | NUMBER | '(' expr ')' | NAME '(' expr ')' | NAME '(' expr ',' expr ')'
``` -/
inductive Phrase : Lvl → List Tok → PyAst → Prop
  | name (s : String) : Phrase .atom [Tok.name s] (.name s)
  | int (n : Nat) : Phrase .atom [Tok.int n] (.int n)
  | flt (s : String) : Phrase .atom [Tok.flt s] (.flt s)
  | paren {t a} : Phrase .expr t a → Phrase .atom (Tok.lpar :: t ++ [Tok.rpar]) a
  | call1 (f : String) {t a} : Phrase .expr t a → Phrase .atom (Tok.name f :: Tok.lpar :: t ++ [Tok.rpar]) (.call1 f a)
  | call2 (f : String) {t a u b} : Phrase .expr t a → Phrase .expr u b →
      Phrase .atom (Tok.name f :: Tok.lpar :: t ++ Tok.comma :: u ++ [Tok.rpar]) (.call2 f a b)
  | ofAtom {t a} : Phrase .atom t a → Phrase .power t a
  | pow {t a u b} : Phrase .atom t a → Phrase .factor u b → Phrase .power (t ++ Tok.dstar :: u) (.bin .pow a b)
  | ofPower {t a} : Phrase .power t a → Phrase .factor t a
  | neg {t a} : Phrase .factor t a → Phrase .factor (Tok.minus :: t) (.neg a)
  | pos {t a} : Phrase .factor t a → Phrase .factor (Tok.plus :: t) (.pos a)
  | ofFactor {t a} : Phrase .factor t a → Phrase .term t a
  | mul {t a u b} : Phrase .term t a → Phrase .factor u b → Phrase .term (t ++ Tok.star :: u) (.bin .mul a b)
  | div {t a u b} : Phrase .term t a → Phrase .factor u b → Phrase .term (t ++ Tok.slash :: u) (.bin .div a b)
  | ofTerm {t a} : Phrase .term t a → Phrase .expr t a
  | add {t a u b} : Phrase .expr t a → Phrase .term u b → Phrase .expr (t ++ Tok.plus :: u) (.bin .add a b)
  | sub {t a u b} : Phrase .expr t a → Phrase .term u b → Phrase .expr (t ++ Tok.minus :: u) (.bin .sub a b)

namespace Phrase
theorem atomFactor {t a} (h : Phrase .atom t a) : Phrase .factor t a := .ofPower (.ofAtom h)
theorem atomTerm {t a} (h : Phrase .atom t a) : Phrase .term t a := .ofFactor h.atomFactor
theorem atomExpr {t a} (h : Phrase .atom t a) : Phrase .expr t a := .ofTerm h.atomTerm
theorem powerTerm {t a} (h : Phrase .power t a) : Phrase .term t a := .ofFactor (.ofPower h)
theorem powerExpr {t a} (h : Phrase .power t a) : Phrase .expr t a := .ofTerm h.powerTerm
theorem factorExpr {t a} (h : Phrase .factor t a) : Phrase .expr t a := .ofTerm (.ofFactor h)
end Phrase

def Lvl.rank : Lvl → Nat
  | .expr => 0 | .term => 1 | .factor => 2 | .power => 3 | .atom => 4

/-- a phrase of a tighter level is a phrase of every looser level -/
theorem Phrase.weaken {l l' : Lvl} {t a} (h : Phrase l t a) (hl : l'.rank ≤ l.rank) : Phrase l' t a := by
  cases l <;> cases l' <;> simp [Lvl.rank] at hl <;>
    first
      | exact h
      | exact h.atomFactor | exact h.atomTerm | exact h.atomExpr | exact .ofAtom h
      | exact h.powerTerm | exact h.powerExpr | exact .ofPower h
      | exact h.factorExpr | exact .ofFactor h | exact .ofTerm h

end ESR.Printer

namespace ESR.Printer

/-! ## completeness of the executable parser -/

def contAtom : Tok → Bool
  | .lpar => true
  | _ => false
def contPower : Tok → Bool
  | .lpar => true
  | .dstar => true
  | _ => false
def contTerm : Tok → Bool
  | .lpar => true
  | .dstar => true
  | .star => true
  | .slash => true
  | _ => false
def contExpr : Tok → Bool
  | .lpar => true
  | .dstar => true
  | .star => true
  | .slash => true
  | .plus => true
  | .minus => true
  | _ => false

/-- the next token does not continue a phrase of the given kind -/
def okAfter (c : Tok → Bool) : List Tok → Prop
  | [] => True
  | h :: _ => c h = false

theorem okAfter_power_of_term {r} (h : okAfter contTerm r) : okAfter contPower r := by
  cases r with
  | nil => trivial
  | cons x _ => cases x <;> simp_all [okAfter, contTerm, contPower]
theorem okAfter_atom_of_power {r} (h : okAfter contPower r) : okAfter contAtom r := by
  cases r with
  | nil => trivial
  | cons x _ => cases x <;> simp_all [okAfter, contAtom, contPower]
theorem okAfter_term_of_expr {r} (h : okAfter contExpr r) : okAfter contTerm r := by
  cases r with
  | nil => trivial
  | cons x _ => cases x <;> simp_all [okAfter, contTerm, contExpr]

def AtomOK (t : List Tok) (a : PyAst) : Prop :=
  ∀ rest n, okAfter contAtom rest → 6 * t.length ≤ n → pAtom n (t ++ rest) = some (a, rest)
def PowerOK (t : List Tok) (a : PyAst) : Prop :=
  ∀ rest n, okAfter contPower rest → 6 * t.length + 1 ≤ n → pPower n (t ++ rest) = some (a, rest)
def FactorOK (t : List Tok) (a : PyAst) : Prop :=
  ∀ rest n, okAfter contPower rest → 6 * t.length + 2 ≤ n → pFactor n (t ++ rest) = some (a, rest)
def TermOK (t : List Tok) (a : PyAst) : Prop :=
  ∀ rest n, okAfter contTerm rest → 6 * t.length + 4 ≤ n → pTerm n (t ++ rest) = some (a, rest)
def ExprOK (t : List Tok) (a : PyAst) : Prop :=
  ∀ rest n, okAfter contExpr rest → 6 * t.length + 6 ≤ n → pExpr n (t ++ rest) = some (a, rest)

/-- the `(op factor)*` tail of a term, left-folded onto `acc` -/
inductive TermTail : PyAst → List Tok → PyAst → Prop
  | nil (acc) : TermTail acc [] acc
  | mul {acc u b r a} : 1 ≤ u.length → FactorOK u b → TermTail (.bin .mul acc b) r a → TermTail acc (Tok.star :: u ++ r) a
  | div {acc u b r a} : 1 ≤ u.length → FactorOK u b → TermTail (.bin .div acc b) r a → TermTail acc (Tok.slash :: u ++ r) a

theorem TermTail.snocMul {acc r a u b} (h : TermTail acc r a) (hu : 1 ≤ u.length) (hf : FactorOK u b) :
    TermTail acc (r ++ Tok.star :: u) (.bin .mul a b) := by
  induction h with
  | nil acc => simpa using TermTail.mul hu hf (TermTail.nil _)
  | mul h1 h2 _ ih => simpa [List.append_assoc] using TermTail.mul h1 h2 ih
  | div h1 h2 _ ih => simpa [List.append_assoc] using TermTail.div h1 h2 ih

theorem TermTail.snocDiv {acc r a u b} (h : TermTail acc r a) (hu : 1 ≤ u.length) (hf : FactorOK u b) :
    TermTail acc (r ++ Tok.slash :: u) (.bin .div a b) := by
  induction h with
  | nil acc => simpa using TermTail.div hu hf (TermTail.nil _)
  | mul h1 h2 _ ih => simpa [List.append_assoc] using TermTail.mul h1 h2 ih
  | div h1 h2 _ ih => simpa [List.append_assoc] using TermTail.div h1 h2 ih

/-- a tail either is empty or starts with `*` or `/`: what follows the factor before it never continues that factor -/
theorem TermTail.okAfter {acc r a rest} (h : TermTail acc r a) (hr : okAfter contTerm rest) :
    okAfter contPower (r ++ rest) := by
  cases h with
  | nil => simpa using okAfter_power_of_term hr
  | mul => simp [ESR.Printer.okAfter, contPower]
  | div => simp [ESR.Printer.okAfter, contPower]

theorem pTermTail_complete {acc r a} (h : TermTail acc r a) :
    ∀ rest n, okAfter contTerm rest → 6 * r.length + 3 ≤ n → pTermTail n acc (r ++ rest) = some (a, rest) := by
  induction h with
  | nil acc =>
    intro rest n hr hn
    obtain ⟨m, rfl⟩ : ∃ m, n = m + 1 := ⟨n - 1, by omega⟩
    cases rest with
    | nil => simp [pTermTail]
    | cons x xs => cases x <;> simp_all [pTermTail, ESR.Printer.okAfter, contTerm]
  | @mul acc u b r a hu hf ht ih =>
    intro rest n hr hn
    obtain ⟨m, rfl⟩ : ∃ m, n = m + 1 := ⟨n - 1, by omega⟩
    simp only [List.length_cons, List.length_append] at hn
    have h1 : pFactor m (u ++ (r ++ rest)) = some (b, r ++ rest) := hf _ _ (ht.okAfter hr) (by omega)
    have h2 := ih rest m hr (by omega)
    simp [pTermTail, List.append_assoc, h1, h2]
  | @div acc u b r a hu hf ht ih =>
    intro rest n hr hn
    obtain ⟨m, rfl⟩ : ∃ m, n = m + 1 := ⟨n - 1, by omega⟩
    simp only [List.length_cons, List.length_append] at hn
    have h1 : pFactor m (u ++ (r ++ rest)) = some (b, r ++ rest) := hf _ _ (ht.okAfter hr) (by omega)
    have h2 := ih rest m hr (by omega)
    simp [pTermTail, List.append_assoc, h1, h2]

/-- normal form of a term: a first factor and a tail -/
def TermNF (t : List Tok) (a : PyAst) : Prop :=
  ∃ u r f, t = u ++ r ∧ 1 ≤ u.length ∧ FactorOK u f ∧ TermTail f r a

theorem TermNF.ok {t a} (h : TermNF t a) : TermOK t a := by
  obtain ⟨u, r, f, rfl, hu, hf, ht⟩ := h
  intro rest n hr hn
  obtain ⟨m, rfl⟩ : ∃ m, n = m + 1 := ⟨n - 1, by omega⟩
  simp only [List.length_append] at hn
  have h1 : pFactor m (u ++ (r ++ rest)) = some (f, r ++ rest) := hf _ _ (ht.okAfter hr) (by omega)
  have h2 := pTermTail_complete ht rest m hr (by omega)
  simp [pTerm, List.append_assoc, h1, h2]

end ESR.Printer

namespace ESR.Printer

/-- the `(('+'|'-') term)*` tail of an expr -/
inductive ExprTail : PyAst → List Tok → PyAst → Prop
  | nil (acc) : ExprTail acc [] acc
  | add {acc u b r a} : 1 ≤ u.length → TermOK u b → ExprTail (.bin .add acc b) r a → ExprTail acc (Tok.plus :: u ++ r) a
  | sub {acc u b r a} : 1 ≤ u.length → TermOK u b → ExprTail (.bin .sub acc b) r a → ExprTail acc (Tok.minus :: u ++ r) a

theorem ExprTail.snocAdd {acc r a u b} (h : ExprTail acc r a) (hu : 1 ≤ u.length) (hf : TermOK u b) :
    ExprTail acc (r ++ Tok.plus :: u) (.bin .add a b) := by
  induction h with
  | nil acc => simpa using ExprTail.add hu hf (ExprTail.nil _)
  | add h1 h2 _ ih => simpa [List.append_assoc] using ExprTail.add h1 h2 ih
  | sub h1 h2 _ ih => simpa [List.append_assoc] using ExprTail.sub h1 h2 ih

theorem ExprTail.snocSub {acc r a u b} (h : ExprTail acc r a) (hu : 1 ≤ u.length) (hf : TermOK u b) :
    ExprTail acc (r ++ Tok.minus :: u) (.bin .sub a b) := by
  induction h with
  | nil acc => simpa using ExprTail.sub hu hf (ExprTail.nil _)
  | add h1 h2 _ ih => simpa [List.append_assoc] using ExprTail.add h1 h2 ih
  | sub h1 h2 _ ih => simpa [List.append_assoc] using ExprTail.sub h1 h2 ih

theorem ExprTail.okAfter {acc r a rest} (h : ExprTail acc r a) (hr : okAfter contExpr rest) :
    okAfter contTerm (r ++ rest) := by
  cases h with
  | nil => simpa using okAfter_term_of_expr hr
  | add => simp [ESR.Printer.okAfter, contTerm]
  | sub => simp [ESR.Printer.okAfter, contTerm]

theorem pExprTail_complete {acc r a} (h : ExprTail acc r a) :
    ∀ rest n, okAfter contExpr rest → 6 * r.length + 5 ≤ n → pExprTail n acc (r ++ rest) = some (a, rest) := by
  induction h with
  | nil acc =>
    intro rest n hr hn
    obtain ⟨m, rfl⟩ : ∃ m, n = m + 1 := ⟨n - 1, by omega⟩
    cases rest with
    | nil => simp [pExprTail]
    | cons x xs => cases x <;> simp_all [pExprTail, ESR.Printer.okAfter, contExpr]
  | @add acc u b r a hu hf ht ih =>
    intro rest n hr hn
    obtain ⟨m, rfl⟩ : ∃ m, n = m + 1 := ⟨n - 1, by omega⟩
    simp only [List.length_cons, List.length_append] at hn
    have h1 : pTerm m (u ++ (r ++ rest)) = some (b, r ++ rest) := hf _ _ (ht.okAfter hr) (by omega)
    have h2 := ih rest m hr (by omega)
    simp [pExprTail, List.append_assoc, h1, h2]
  | @sub acc u b r a hu hf ht ih =>
    intro rest n hr hn
    obtain ⟨m, rfl⟩ : ∃ m, n = m + 1 := ⟨n - 1, by omega⟩
    simp only [List.length_cons, List.length_append] at hn
    have h1 : pTerm m (u ++ (r ++ rest)) = some (b, r ++ rest) := hf _ _ (ht.okAfter hr) (by omega)
    have h2 := ih rest m hr (by omega)
    simp [pExprTail, List.append_assoc, h1, h2]

def ExprNF (t : List Tok) (a : PyAst) : Prop :=
  ∃ u r f, t = u ++ r ∧ 1 ≤ u.length ∧ TermOK u f ∧ ExprTail f r a

theorem ExprNF.ok {t a} (h : ExprNF t a) : ExprOK t a := by
  obtain ⟨u, r, f, rfl, hu, hf, ht⟩ := h
  intro rest n hr hn
  obtain ⟨m, rfl⟩ : ∃ m, n = m + 1 := ⟨n - 1, by omega⟩
  simp only [List.length_append] at hn
  have h1 : pTerm m (u ++ (r ++ rest)) = some (f, r ++ rest) := hf _ _ (ht.okAfter hr) (by omega)
  have h2 := pExprTail_complete ht rest m hr (by omega)
  simp [pExpr, List.append_assoc, h1, h2]

/-- what the induction over a phrase derivation establishes at each level -/
def Good : Lvl → List Tok → PyAst → Prop
  | .atom, t, a => 1 ≤ t.length ∧ AtomOK t a
  | .power, t, a => 1 ≤ t.length ∧ PowerOK t a
  | .factor, t, a => 1 ≤ t.length ∧ FactorOK t a
  | .term, t, a => 1 ≤ t.length ∧ TermNF t a
  | .expr, t, a => 1 ≤ t.length ∧ ExprNF t a

theorem okAfter_rpar (c : Tok → Bool) (hc : c Tok.rpar = false) (r : List Tok) : okAfter c (Tok.rpar :: r) := hc
theorem okAfter_comma (c : Tok → Bool) (hc : c Tok.comma = false) (r : List Tok) : okAfter c (Tok.comma :: r) := hc

theorem pAtom_minus (n r) : pAtom n (Tok.minus :: r) = none := by cases n <;> simp [pAtom]
theorem pAtom_plus (n r) : pAtom n (Tok.plus :: r) = none := by cases n <;> simp [pAtom]
theorem pPower_minus (n r) : pPower n (Tok.minus :: r) = none := by cases n <;> simp [pPower, pAtom_minus]
theorem pPower_plus (n r) : pPower n (Tok.plus :: r) = none := by cases n <;> simp [pPower, pAtom_plus]

theorem phrase_good {l t a} (h : Phrase l t a) : Good l t a := by
  induction h with
  | name s =>
    refine ⟨by simp, ?_⟩
    intro rest n hr hn
    obtain ⟨m, rfl⟩ : ∃ m, n = m + 1 := ⟨n - 1, by simp at hn; omega⟩
    cases rest with
    | nil => simp [pAtom]
    | cons x xs => cases x <;> simp_all [pAtom, okAfter, contAtom]
  | int k =>
    refine ⟨by simp, ?_⟩
    intro rest n hr hn
    obtain ⟨m, rfl⟩ : ∃ m, n = m + 1 := ⟨n - 1, by simp at hn; omega⟩
    simp [pAtom]
  | flt s =>
    refine ⟨by simp, ?_⟩
    intro rest n hr hn
    obtain ⟨m, rfl⟩ : ∃ m, n = m + 1 := ⟨n - 1, by simp at hn; omega⟩
    simp [pAtom]
  | @paren t a _ ih =>
    obtain ⟨ht, hnf⟩ := ih
    refine ⟨by simp, ?_⟩
    intro rest n hr hn
    obtain ⟨m, rfl⟩ : ∃ m, n = m + 1 := ⟨n - 1, by simp at hn; omega⟩
    simp only [List.length_cons, List.length_append, List.length_nil] at hn
    have h1 : pExpr m (t ++ (Tok.rpar :: rest)) = some (a, Tok.rpar :: rest) :=
      hnf.ok _ _ (okAfter_rpar _ rfl _) (by omega)
    simp [pAtom, List.append_assoc, h1]
  | @call1 f t a _ ih =>
    obtain ⟨ht, hnf⟩ := ih
    refine ⟨by simp, ?_⟩
    intro rest n hr hn
    obtain ⟨m, rfl⟩ : ∃ m, n = m + 1 := ⟨n - 1, by simp at hn; omega⟩
    simp only [List.length_cons, List.length_append, List.length_nil] at hn
    have h1 : pExpr m (t ++ (Tok.rpar :: rest)) = some (a, Tok.rpar :: rest) :=
      hnf.ok _ _ (okAfter_rpar _ rfl _) (by omega)
    simp [pAtom, List.append_assoc, h1]
  | @call2 f t a u b _ _ ih1 ih2 =>
    obtain ⟨ht, hnf1⟩ := ih1
    obtain ⟨hu, hnf2⟩ := ih2
    refine ⟨by simp, ?_⟩
    intro rest n hr hn
    obtain ⟨m, rfl⟩ : ∃ m, n = m + 1 := ⟨n - 1, by simp at hn; omega⟩
    simp only [List.length_cons, List.length_append, List.length_nil] at hn
    have h1 : pExpr m (t ++ (Tok.comma :: (u ++ (Tok.rpar :: rest)))) = some (a, Tok.comma :: (u ++ (Tok.rpar :: rest))) :=
      hnf1.ok _ _ (okAfter_comma _ rfl _) (by omega)
    have h2 : pExpr m (u ++ (Tok.rpar :: rest)) = some (b, Tok.rpar :: rest) :=
      hnf2.ok _ _ (okAfter_rpar _ rfl _) (by omega)
    simp [pAtom, List.append_assoc, h1, h2]
  | @ofAtom t a _ ih =>
    obtain ⟨ht, hok⟩ := ih
    refine ⟨ht, ?_⟩
    intro rest n hr hn
    obtain ⟨m, rfl⟩ : ∃ m, n = m + 1 := ⟨n - 1, by omega⟩
    have h1 := hok rest m (okAfter_atom_of_power hr) (by omega)
    cases rest with
    | nil => simp only [List.append_nil] at h1; simp [pPower, h1]
    | cons x xs => cases x <;> simp_all [pPower, okAfter, contPower]
  | @pow t a u b _ _ ih1 ih2 =>
    obtain ⟨ht, hok1⟩ := ih1
    obtain ⟨hu, hok2⟩ := ih2
    refine ⟨by simp; omega, ?_⟩
    intro rest n hr hn
    obtain ⟨m, rfl⟩ : ∃ m, n = m + 1 := ⟨n - 1, by omega⟩
    simp only [List.length_cons, List.length_append] at hn
    have h1 : pAtom m (t ++ (Tok.dstar :: (u ++ rest))) = some (a, Tok.dstar :: (u ++ rest)) :=
      hok1 _ _ (by simp [okAfter, contAtom]) (by omega)
    have h2 := hok2 rest m hr (by omega)
    simp [pPower, List.append_assoc, h1, h2]
  | @ofPower t a _ ih =>
    obtain ⟨ht, hok⟩ := ih
    refine ⟨ht, ?_⟩
    intro rest n hr hn
    obtain ⟨m, rfl⟩ : ∃ m, n = m + 1 := ⟨n - 1, by omega⟩
    have h1 := hok rest m hr (by omega)
    -- a power never starts with a sign
    cases t with
    | nil => simp at ht
    | cons x xs =>
      have hx : x ≠ Tok.minus ∧ x ≠ Tok.plus := by
        constructor <;> intro hx <;> subst hx
        · simp [pPower_minus] at h1
        · simp [pPower_plus] at h1
      cases x <;> simp_all [pFactor]
  | @neg t a _ ih =>
    obtain ⟨ht, hok⟩ := ih
    refine ⟨by simp, ?_⟩
    intro rest n hr hn
    obtain ⟨m, rfl⟩ : ∃ m, n = m + 1 := ⟨n - 1, by omega⟩
    simp only [List.length_cons] at hn
    have h1 := hok rest m hr (by omega)
    simp [pFactor, h1]
  | @pos t a _ ih =>
    obtain ⟨ht, hok⟩ := ih
    refine ⟨by simp, ?_⟩
    intro rest n hr hn
    obtain ⟨m, rfl⟩ : ∃ m, n = m + 1 := ⟨n - 1, by omega⟩
    simp only [List.length_cons] at hn
    have h1 := hok rest m hr (by omega)
    simp [pFactor, h1]
  | @ofFactor t a _ ih =>
    obtain ⟨ht, hok⟩ := ih
    exact ⟨ht, t, [], a, by simp, ht, hok, TermTail.nil _⟩
  | @mul t a u b _ _ ih1 ih2 =>
    obtain ⟨ht, u0, r, f, rfl, hu0, hf, htail⟩ := ih1
    obtain ⟨hu, hok⟩ := ih2
    exact ⟨by simp; omega, u0, r ++ Tok.star :: u, f, by simp, hu0, hf, htail.snocMul hu hok⟩
  | @div t a u b _ _ ih1 ih2 =>
    obtain ⟨ht, u0, r, f, rfl, hu0, hf, htail⟩ := ih1
    obtain ⟨hu, hok⟩ := ih2
    exact ⟨by simp; omega, u0, r ++ Tok.slash :: u, f, by simp, hu0, hf, htail.snocDiv hu hok⟩
  | @ofTerm t a _ ih =>
    obtain ⟨ht, hnf⟩ := ih
    exact ⟨ht, t, [], a, by simp, ht, hnf.ok, ExprTail.nil _⟩
  | @add t a u b _ _ ih1 ih2 =>
    obtain ⟨ht, u0, r, f, rfl, hu0, hf, htail⟩ := ih1
    obtain ⟨hu, hnf⟩ := ih2
    exact ⟨by simp; omega, u0, r ++ Tok.plus :: u, f, by simp, hu0, hf, htail.snocAdd hu hnf.ok⟩
  | @sub t a u b _ _ ih1 ih2 =>
    obtain ⟨ht, u0, r, f, rfl, hu0, hf, htail⟩ := ih1
    obtain ⟨hu, hnf⟩ := ih2
    exact ⟨by simp; omega, u0, r ++ Tok.minus :: u, f, by simp, hu0, hf, htail.snocSub hu hnf.ok⟩

end ESR.Printer

namespace ESR.Printer

theorem dropSp_append (a b : List Tok) : dropSp (a ++ b) = dropSp a ++ dropSp b := by
  simp [dropSp]

theorem dropSp_cons (x : Tok) (xs : List Tok) : dropSp (x :: xs) = if isSp x then dropSp xs else x :: dropSp xs := by
  cases x <;> simp [dropSp, isSp]

@[simp] theorem dropSp_nil : dropSp [] = [] := rfl

theorem phrase_noSp {l t a} (h : Phrase l t a) : dropSp t = t := by
  induction h <;> simp [dropSp_append, dropSp_cons, isSp, *]

/-- the parser, given the fuel `parse` supplies, returns the AST of any expr-level phrase -/
theorem pExpr_complete {t a} (h : Phrase .expr t a) : pExpr (fuelFor t) t = some (a, []) := by
  have := (phrase_good h).2.ok [] (fuelFor t) trivial (by simp [fuelFor])
  simpa using this

theorem parse_complete' {t a} (h : Phrase .expr t a) : parse t = some a := by
  simp [parse, phrase_noSp h, pExpr_complete h]

/-- blanks are ignored: it suffices that the blank-free tokens form a phrase -/
theorem parse_complete_dropSp {t a} (h : Phrase .expr (dropSp t) a) : parse t = some a := by
  have h2 : dropSp (dropSp t) = dropSp t := phrase_noSp h
  have := parse_complete' h
  simpa [parse, h2] using this

end ESR.Printer

namespace ESR.Printer

/-! ## soundness of the executable parser: it accepts only phrases of the grammar -/

structure ParserSound (n : Nat) : Prop where
  atom : ∀ ts a r, pAtom n ts = some (a, r) → ∃ t, ts = t ++ r ∧ Phrase .atom t a
  power : ∀ ts a r, pPower n ts = some (a, r) → ∃ t, ts = t ++ r ∧ Phrase .power t a
  factor : ∀ ts a r, pFactor n ts = some (a, r) → ∃ t, ts = t ++ r ∧ Phrase .factor t a
  term : ∀ ts a r, pTerm n ts = some (a, r) → ∃ t, ts = t ++ r ∧ Phrase .term t a
  expr : ∀ ts a r, pExpr n ts = some (a, r) → ∃ t, ts = t ++ r ∧ Phrase .expr t a
  termTail : ∀ acc ts a r, pTermTail n acc ts = some (a, r) →
    ∀ t0, Phrase .term t0 acc → ∃ t, ts = t ++ r ∧ Phrase .term (t0 ++ t) a
  exprTail : ∀ acc ts a r, pExprTail n acc ts = some (a, r) →
    ∀ t0, Phrase .expr t0 acc → ∃ t, ts = t ++ r ∧ Phrase .expr (t0 ++ t) a

theorem parserSound_zero : ParserSound 0 := by
  constructor <;> intros <;> simp_all [pAtom, pPower, pFactor, pTerm, pExpr, pTermTail, pExprTail]

theorem parserSound_succ {n : Nat} (ih : ParserSound n) : ParserSound (n + 1) := by
  constructor
  · -- atom
    intro ts a r h
    match ts with
    | [] => simp [pAtom] at h
    | Tok.int k :: rest =>
      simp only [pAtom, Option.some.injEq, Prod.mk.injEq] at h
      obtain ⟨rfl, rfl⟩ := h
      exact ⟨[Tok.int k], rfl, Phrase.int k⟩
    | Tok.flt s :: rest =>
      simp only [pAtom, Option.some.injEq, Prod.mk.injEq] at h
      obtain ⟨rfl, rfl⟩ := h
      exact ⟨[Tok.flt s], rfl, Phrase.flt s⟩
    | Tok.name f :: Tok.lpar :: rest =>
      simp only [pAtom] at h
      cases h1 : pExpr n rest with
      | none => simp [h1] at h
      | some p =>
        obtain ⟨a1, r1⟩ := p
        obtain ⟨t1, ht1, hp1⟩ := ih.expr _ _ _ h1
        match r1 with
        | Tok.rpar :: r' =>
          simp only [h1, Option.some.injEq, Prod.mk.injEq] at h
          obtain ⟨rfl, rfl⟩ := h
          exact ⟨Tok.name f :: Tok.lpar :: t1 ++ [Tok.rpar], by simp [ht1], Phrase.call1 f hp1⟩
        | Tok.comma :: r' =>
          simp only [h1] at h
          cases h2 : pExpr n r' with
          | none => simp [h2] at h
          | some p2 =>
            obtain ⟨a2, r2⟩ := p2
            obtain ⟨t2, ht2, hp2⟩ := ih.expr _ _ _ h2
            match r2 with
            | Tok.rpar :: r'' =>
              simp only [h2, Option.some.injEq, Prod.mk.injEq] at h
              obtain ⟨rfl, rfl⟩ := h
              exact ⟨Tok.name f :: Tok.lpar :: t1 ++ Tok.comma :: t2 ++ [Tok.rpar], by simp [ht1, ht2],
                Phrase.call2 f hp1 hp2⟩
            | [] => simp [h2] at h
            | Tok.name _ :: _ | Tok.int _ :: _ | Tok.flt _ :: _ | Tok.plus :: _ | Tok.minus :: _ | Tok.star :: _
            | Tok.slash :: _ | Tok.dstar :: _ | Tok.lpar :: _ | Tok.comma :: _ | Tok.sp :: _ | Tok.err _ :: _ =>
              simp [h2] at h
        | [] => simp [h1] at h
        | Tok.name _ :: _ | Tok.int _ :: _ | Tok.flt _ :: _ | Tok.plus :: _ | Tok.minus :: _ | Tok.star :: _
        | Tok.slash :: _ | Tok.dstar :: _ | Tok.lpar :: _ | Tok.sp :: _ | Tok.err _ :: _ =>
          simp [h1] at h
    | [Tok.name s] =>
      simp only [pAtom, Option.some.injEq, Prod.mk.injEq] at h
      obtain ⟨rfl, rfl⟩ := h
      exact ⟨[Tok.name s], rfl, Phrase.name s⟩
    | Tok.name s :: Tok.name _ :: _ | Tok.name s :: Tok.int _ :: _ | Tok.name s :: Tok.flt _ :: _
    | Tok.name s :: Tok.plus :: _ | Tok.name s :: Tok.minus :: _ | Tok.name s :: Tok.star :: _
    | Tok.name s :: Tok.slash :: _ | Tok.name s :: Tok.dstar :: _ | Tok.name s :: Tok.rpar :: _
    | Tok.name s :: Tok.comma :: _ | Tok.name s :: Tok.sp :: _ | Tok.name s :: Tok.err _ :: _ =>
      simp only [pAtom, Option.some.injEq, Prod.mk.injEq] at h
      obtain ⟨rfl, rfl⟩ := h
      exact ⟨[Tok.name s], rfl, Phrase.name s⟩
    | Tok.lpar :: rest =>
      simp only [pAtom] at h
      cases h1 : pExpr n rest with
      | none => simp [h1] at h
      | some p =>
        obtain ⟨a1, r1⟩ := p
        obtain ⟨t1, ht1, hp1⟩ := ih.expr _ _ _ h1
        match r1 with
        | Tok.rpar :: r' =>
          simp only [h1, Option.some.injEq, Prod.mk.injEq] at h
          obtain ⟨rfl, rfl⟩ := h
          exact ⟨Tok.lpar :: t1 ++ [Tok.rpar], by simp [ht1], Phrase.paren hp1⟩
        | [] => simp [h1] at h
        | Tok.name _ :: _ | Tok.int _ :: _ | Tok.flt _ :: _ | Tok.plus :: _ | Tok.minus :: _ | Tok.star :: _
        | Tok.slash :: _ | Tok.dstar :: _ | Tok.lpar :: _ | Tok.comma :: _ | Tok.sp :: _ | Tok.err _ :: _ =>
          simp [h1] at h
    | Tok.plus :: _ | Tok.minus :: _ | Tok.star :: _ | Tok.slash :: _ | Tok.dstar :: _ | Tok.rpar :: _
    | Tok.comma :: _ | Tok.sp :: _ | Tok.err _ :: _ => simp [pAtom] at h
  · -- power
    intro ts a r h
    simp only [pPower] at h
    cases h1 : pAtom n ts with
    | none => simp [h1] at h
    | some p =>
      obtain ⟨a1, r1⟩ := p
      obtain ⟨t1, ht1, hp1⟩ := ih.atom _ _ _ h1
      match r1 with
      | Tok.dstar :: r' =>
        simp only [h1] at h
        cases h2 : pFactor n r' with
        | none => simp [h2] at h
        | some p2 =>
          obtain ⟨a2, r2⟩ := p2
          obtain ⟨t2, ht2, hp2⟩ := ih.factor _ _ _ h2
          simp only [h2, Option.some.injEq, Prod.mk.injEq] at h
          obtain ⟨rfl, rfl⟩ := h
          exact ⟨t1 ++ Tok.dstar :: t2, by simp [ht1, ht2], Phrase.pow hp1 hp2⟩
      | [] =>
        simp only [h1, Option.some.injEq, Prod.mk.injEq] at h
        obtain ⟨rfl, rfl⟩ := h
        exact ⟨t1, ht1, Phrase.ofAtom hp1⟩
      | Tok.name _ :: _ | Tok.int _ :: _ | Tok.flt _ :: _ | Tok.plus :: _ | Tok.minus :: _ | Tok.star :: _
      | Tok.slash :: _ | Tok.rpar :: _ | Tok.lpar :: _ | Tok.comma :: _ | Tok.sp :: _ | Tok.err _ :: _ =>
        simp only [h1, Option.some.injEq, Prod.mk.injEq] at h
        obtain ⟨rfl, rfl⟩ := h
        exact ⟨t1, ht1, Phrase.ofAtom hp1⟩
  · -- factor
    intro ts a r h
    match ts with
    | Tok.minus :: rest =>
      simp only [pFactor] at h
      cases h1 : pFactor n rest with
      | none => simp [h1] at h
      | some p =>
        obtain ⟨a1, r1⟩ := p
        obtain ⟨t1, ht1, hp1⟩ := ih.factor _ _ _ h1
        simp only [h1, Option.some.injEq, Prod.mk.injEq] at h
        obtain ⟨rfl, rfl⟩ := h
        exact ⟨Tok.minus :: t1, by simp [ht1], Phrase.neg hp1⟩
    | Tok.plus :: rest =>
      simp only [pFactor] at h
      cases h1 : pFactor n rest with
      | none => simp [h1] at h
      | some p =>
        obtain ⟨a1, r1⟩ := p
        obtain ⟨t1, ht1, hp1⟩ := ih.factor _ _ _ h1
        simp only [h1, Option.some.injEq, Prod.mk.injEq] at h
        obtain ⟨rfl, rfl⟩ := h
        exact ⟨Tok.plus :: t1, by simp [ht1], Phrase.pos hp1⟩
    | [] | Tok.name _ :: _ | Tok.int _ :: _ | Tok.flt _ :: _ | Tok.star :: _ | Tok.slash :: _ | Tok.dstar :: _
    | Tok.lpar :: _ | Tok.rpar :: _ | Tok.comma :: _ | Tok.sp :: _ | Tok.err _ :: _ =>
      simp only [pFactor] at h
      obtain ⟨t1, ht1, hp1⟩ := ih.power _ _ _ h
      exact ⟨t1, ht1, Phrase.ofPower hp1⟩
  · -- term
    intro ts a r h
    simp only [pTerm] at h
    cases h1 : pFactor n ts with
    | none => simp [h1] at h
    | some p =>
      obtain ⟨a1, r1⟩ := p
      obtain ⟨t1, ht1, hp1⟩ := ih.factor _ _ _ h1
      simp only [h1] at h
      obtain ⟨t2, ht2, hp2⟩ := ih.termTail _ _ _ _ h t1 (Phrase.ofFactor hp1)
      exact ⟨t1 ++ t2, by simp [ht1, ht2], hp2⟩
  · -- expr
    intro ts a r h
    simp only [pExpr] at h
    cases h1 : pTerm n ts with
    | none => simp [h1] at h
    | some p =>
      obtain ⟨a1, r1⟩ := p
      obtain ⟨t1, ht1, hp1⟩ := ih.term _ _ _ h1
      simp only [h1] at h
      obtain ⟨t2, ht2, hp2⟩ := ih.exprTail _ _ _ _ h t1 (Phrase.ofTerm hp1)
      exact ⟨t1 ++ t2, by simp [ht1, ht2], hp2⟩
  · -- termTail
    intro acc ts a r h t0 h0
    match ts with
    | Tok.star :: rest =>
      simp only [pTermTail] at h
      cases h1 : pFactor n rest with
      | none => simp [h1] at h
      | some p =>
        obtain ⟨a1, r1⟩ := p
        obtain ⟨t1, ht1, hp1⟩ := ih.factor _ _ _ h1
        simp only [h1] at h
        obtain ⟨t2, ht2, hp2⟩ := ih.termTail _ _ _ _ h (t0 ++ Tok.star :: t1) (Phrase.mul h0 hp1)
        exact ⟨Tok.star :: t1 ++ t2, by simp [ht1, ht2], by simpa [List.append_assoc] using hp2⟩
    | Tok.slash :: rest =>
      simp only [pTermTail] at h
      cases h1 : pFactor n rest with
      | none => simp [h1] at h
      | some p =>
        obtain ⟨a1, r1⟩ := p
        obtain ⟨t1, ht1, hp1⟩ := ih.factor _ _ _ h1
        simp only [h1] at h
        obtain ⟨t2, ht2, hp2⟩ := ih.termTail _ _ _ _ h (t0 ++ Tok.slash :: t1) (Phrase.div h0 hp1)
        exact ⟨Tok.slash :: t1 ++ t2, by simp [ht1, ht2], by simpa [List.append_assoc] using hp2⟩
    | [] | Tok.name _ :: _ | Tok.int _ :: _ | Tok.flt _ :: _ | Tok.plus :: _ | Tok.minus :: _ | Tok.dstar :: _
    | Tok.lpar :: _ | Tok.rpar :: _ | Tok.comma :: _ | Tok.sp :: _ | Tok.err _ :: _ =>
      simp only [pTermTail, Option.some.injEq, Prod.mk.injEq] at h
      obtain ⟨rfl, rfl⟩ := h
      exact ⟨[], by simp, by simpa using h0⟩
  · -- exprTail
    intro acc ts a r h t0 h0
    match ts with
    | Tok.plus :: rest =>
      simp only [pExprTail] at h
      cases h1 : pTerm n rest with
      | none => simp [h1] at h
      | some p =>
        obtain ⟨a1, r1⟩ := p
        obtain ⟨t1, ht1, hp1⟩ := ih.term _ _ _ h1
        simp only [h1] at h
        obtain ⟨t2, ht2, hp2⟩ := ih.exprTail _ _ _ _ h (t0 ++ Tok.plus :: t1) (Phrase.add h0 hp1)
        exact ⟨Tok.plus :: t1 ++ t2, by simp [ht1, ht2], by simpa [List.append_assoc] using hp2⟩
    | Tok.minus :: rest =>
      simp only [pExprTail] at h
      cases h1 : pTerm n rest with
      | none => simp [h1] at h
      | some p =>
        obtain ⟨a1, r1⟩ := p
        obtain ⟨t1, ht1, hp1⟩ := ih.term _ _ _ h1
        simp only [h1] at h
        obtain ⟨t2, ht2, hp2⟩ := ih.exprTail _ _ _ _ h (t0 ++ Tok.minus :: t1) (Phrase.sub h0 hp1)
        exact ⟨Tok.minus :: t1 ++ t2, by simp [ht1, ht2], by simpa [List.append_assoc] using hp2⟩
    | [] | Tok.name _ :: _ | Tok.int _ :: _ | Tok.flt _ :: _ | Tok.star :: _ | Tok.slash :: _ | Tok.dstar :: _
    | Tok.lpar :: _ | Tok.rpar :: _ | Tok.comma :: _ | Tok.sp :: _ | Tok.err _ :: _ =>
      simp only [pExprTail, Option.some.injEq, Prod.mk.injEq] at h
      obtain ⟨rfl, rfl⟩ := h
      exact ⟨[], by simp, by simpa using h0⟩

theorem parserSound (n : Nat) : ParserSound n := by
  induction n with
  | zero => exact parserSound_zero
  | succ n ih => exact parserSound_succ ih

/-- whatever `parse` accepts is an expr-level phrase of the grammar, with the AST it returns -/
theorem parse_sound' {ts : List Tok} {a : PyAst} (h : parse ts = some a) : Phrase .expr (dropSp ts) a := by
  unfold parse at h
  simp only [] at h
  split at h
  · rename_i a' heq
    obtain ⟨t, ht, hp⟩ := (parserSound _).expr _ _ _ heq
    simp only [Option.some.injEq] at h
    subst h
    simpa [ht] using hp
  · simp at h

end ESR.Printer
