import ESRVerif.Proofs.Match
/-!
Helper lemmas for `Props/C04b.lean` (row reproducibility through the match stage): list facts about the match model's
`zeroWhere` / `pad`, and the snapping test at curvature 12 used by the concrete chain example.
-/
namespace ESR.C04
open ESR.Match

theorem zeroWhere_all_true (m : List Bool) (xs : List XR) (hl : m.length = xs.length)
    (hall : ∀ b ∈ m, b = true) : zeroWhere m xs = List.replicate xs.length (Num.zero : XR) := by
  induction m generalizing xs with
  | nil => cases xs <;> simp_all [zeroWhere]
  | cons b m ih =>
    cases xs with
    | nil => simp at hl
    | cons x xs =>
      have hb : b = true := hall b (by simp)
      have := ih xs (by simpa using hl) (fun b' hb' => hall b' (by simp [hb']))
      simp only [zeroWhere] at this ⊢
      simp only [hb, List.zipWith_cons_cons, if_true, List.length_cons, List.replicate_succ, this]

theorem take_pad_match (mp : Nat) (xs : List XR) : (pad mp xs).take xs.length = xs := by
  simp [pad]

theorem snapR_big (x : ℝ) (hx : 1 ≤ |x|) : ESR.Match.snapR x 12 = false := by
  rw [Bool.eq_false_iff, Ne, ESR.Match.snapR_iff]
  have : Real.sqrt (12 / 12) = 1 := by norm_num
  rw [this]; linarith

end ESR.C04
