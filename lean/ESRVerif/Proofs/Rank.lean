import ESRVerif.Model.Rank
import Mathlib.Algebra.Order.Field.Basic
import Mathlib.Algebra.Order.Ring.Rat
import Mathlib.Algebra.Field.Rat
import Mathlib.Analysis.Complex.Exponential
import ESRVerif.Props.C14
/-!
Helper lemmas for C06: the exact extended reals `XR K` (finite | +∞ | −∞ | NaN over an ordered field `K`, with the
IEEE rules for the special values) as an instance of `ESR.Rank.Ops`, and the facts about `nanmin`, `nanargmin`,
the NaN mask, the stable sort, the duplicate scan and the normalisation that the property theorems are built from.
`E : K → K` stands for `exp`; the only thing ever used about it is `∀ x, 0 < E x`.
-/
set_option linter.unusedSectionVars false
namespace ESR.Rank

inductive XR (K : Type) where
  | fin (x : K)
  | pinf
  | ninf
  | nan
  deriving DecidableEq

namespace XR
variable {K : Type} [Field K] [LinearOrder K] [IsStrictOrderedRing K]

def add : XR K → XR K → XR K
  | fin a, fin b => fin (a + b)
  | nan, _ => nan
  | _, nan => nan
  | pinf, ninf => nan
  | ninf, pinf => nan
  | pinf, _ => pinf
  | _, pinf => pinf
  | ninf, _ => ninf
  | _, ninf => ninf

def neg : XR K → XR K
  | fin a => fin (-a)
  | pinf => ninf
  | ninf => pinf
  | nan => nan

def sub (a b : XR K) : XR K := add a (neg b)

def lt : XR K → XR K → Bool
  | fin a, fin b => decide (a < b)
  | fin _, pinf => true
  | ninf, fin _ => true
  | ninf, pinf => true
  | _, _ => false

def eq : XR K → XR K → Bool
  | fin a, fin b => decide (a = b)
  | pinf, pinf => true
  | ninf, ninf => true
  | _, _ => false

def isNaN : XR K → Bool
  | nan => true
  | _ => false

def isFinite : XR K → Bool
  | fin _ => true
  | _ => false

/-- `np.exp(-x)`: `exp(-inf) = 0`, `exp(inf) = inf`. -/
def expNeg (E : K → K) : XR K → XR K
  | fin a => fin (E (-a))
  | pinf => fin 0
  | ninf => pinf
  | nan => nan

/-- IEEE division (the sign of a zero divisor is taken as `+`; only `x/y` with finite `x` and finite `y ≠ 0`,
and `0/0 = nan`, are used by the theorems). -/
def div : XR K → XR K → XR K
  | fin a, fin b => if b = 0 then (if a = 0 then nan else if 0 < a then pinf else ninf) else fin (a / b)
  | nan, _ => nan
  | _, nan => nan
  | fin _, _ => fin 0
  | pinf, fin b => if 0 ≤ b then pinf else ninf
  | ninf, fin b => if 0 ≤ b then ninf else pinf
  | _, _ => nan

/-- The exact-arithmetic instance of the operations of `combine_DL.main`. -/
def ops (E : K → K) : Ops (XR K) where
  add := add
  sub := sub
  div := div
  expNeg := expNeg E
  lt := lt
  eq := eq
  isNaN := isNaN
  isFinite := isFinite
  zero := fin 0
  inf := pinf
  nan := nan

/-! ### order facts -/

theorem lt_asymm {a b : XR K} (h : lt a b = true) : lt b a = false := by
  cases a <;> cases b <;> simp_all [lt]
  exact le_of_lt h

theorem lt_irrefl (a : XR K) : lt a a = false := by
  cases a <;> simp [lt]

theorem lt_nan_left (b : XR K) : lt nan b = false := by cases b <;> rfl
theorem lt_nan_right (a : XR K) : lt a nan = false := by cases a <;> rfl

theorem lt_of_isNaN_left {a b : XR K} (h : isNaN a = true) : lt a b = false := by
  cases a <;> simp_all [isNaN, lt_nan_left]
theorem lt_of_isNaN_right {a b : XR K} (h : isNaN b = true) : lt a b = false := by
  cases b <;> simp_all [isNaN, lt_nan_right]

theorem pinf_not_lt (a : XR K) : lt pinf a = false := by cases a <;> rfl

/-- `≤` is transitive on numbers. -/
theorem le_trans' {a b c : XR K} (hb : isNaN b = false)
    (h1 : lt b a = false) (h2 : lt c b = false) : lt c a = false := by
  cases a <;> cases b <;> cases c <;> simp_all [lt, isNaN]
  exact le_trans h1 h2

theorem lt_trans' {a b c : XR K} (h1 : lt a b = true) (h2 : lt b c = true) : lt a c = true := by
  cases a <;> cases b <;> cases c <;> simp_all [lt]
  exact _root_.lt_trans h1 h2

theorem lt_of_lt_of_le' {a b c : XR K} (hc : isNaN c = false) (h1 : lt a b = true) (h2 : lt c b = false) : lt a c = true := by
  cases a <;> cases b <;> cases c <;> simp_all [lt, isNaN]
  exact lt_of_lt_of_le h1 h2

theorem eq_of_not_lt {a b : XR K} (ha : isNaN a = false) (hb : isNaN b = false)
    (h1 : lt a b = false) (h2 : lt b a = false) : a = b := by
  cases a <;> cases b <;> simp_all [lt, isNaN]
  exact le_antisymm h2 h1

theorem lt_or_eq_of_not_lt {a b : XR K} (ha : isNaN a = false) (hb : isNaN b = false)
    (h : lt b a = false) : lt a b = true ∨ a = b := by
  cases hab : lt a b
  · right; exact eq_of_not_lt ha hb hab h
  · left; rfl


/-! ### the operations of the instance, unfolded -/
variable (E : K → K)
@[simp] theorem ops_lt : (ops E).lt = lt := rfl
@[simp] theorem ops_eq : (ops E).eq = eq := rfl
@[simp] theorem ops_isNaN : (ops E).isNaN = isNaN := rfl
@[simp] theorem ops_isFinite : (ops E).isFinite = isFinite := rfl
@[simp] theorem ops_add : (ops E).add = add := rfl
@[simp] theorem ops_sub : (ops E).sub = sub := rfl
@[simp] theorem ops_div : (ops E).div = div := rfl
@[simp] theorem ops_expNeg : (ops E).expNeg = expNeg E := rfl
@[simp] theorem ops_zero : (ops E).zero = fin 0 := rfl
@[simp] theorem ops_inf : (ops E).inf = pinf := rfl
@[simp] theorem ops_nan : (ops E).nan = nan := rfl

/-! ### `np.nanmin` -/

theorem nanmin_cons (x : XR K) (xs : List (XR K)) :
    nanmin (ops E) (x :: xs) =
      if isNaN (nanmin (ops E) xs) then x else if isNaN x then nanmin (ops E) xs
      else if lt (nanmin (ops E) xs) x then nanmin (ops E) xs else x := rfl

theorem nanmin_isNaN (ds : List (XR K)) :
    isNaN (nanmin (ops E) ds) = true ↔ ∀ d ∈ ds, isNaN d = true := by
  induction ds with
  | nil => simp [nanmin, isNaN]
  | cons x xs ih =>
    rw [nanmin_cons]
    cases h1 : isNaN (nanmin (ops E) xs)
    · have h1' : ¬ ∀ d ∈ xs, isNaN d = true := fun h => by rw [ih.mpr h] at h1; cases h1
      cases h2 : isNaN x
      · cases h3 : lt (nanmin (ops E) xs) x <;> simp [h1, h2]
      · simp [h1, h2]; simpa using h1'
    · simp
      intro _; exact ih.mp h1

theorem nanmin_mem (ds : List (XR K)) (h : isNaN (nanmin (ops E) ds) = false) : nanmin (ops E) ds ∈ ds := by
  induction ds with
  | nil => simp [nanmin, isNaN] at h
  | cons x xs ih =>
    rw [nanmin_cons] at h ⊢
    cases h1 : isNaN (nanmin (ops E) xs)
    · have := ih h1
      cases h2 : isNaN x
      · cases h3 : lt (nanmin (ops E) xs) x <;> simp [this]
      · simp [this]
    · simp

theorem nanmin_le (ds : List (XR K)) :
    ∀ d ∈ ds, isNaN d = false → lt d (nanmin (ops E) ds) = false := by
  induction ds with
  | nil => simp
  | cons x xs ih =>
    intro d hd hdn
    rw [nanmin_cons]
    cases h1 : isNaN (nanmin (ops E) xs)
    · cases h2 : isNaN x
      · cases h3 : lt (nanmin (ops E) xs) x
        · simp only [Bool.false_eq_true, if_false]
          rcases List.mem_cons.mp hd with rfl | hd
          · exact lt_irrefl _
          · exact le_trans' h1 h3 (ih d hd hdn)
        · simp only [Bool.false_eq_true, if_false, if_true]
          rcases List.mem_cons.mp hd with rfl | hd
          · exact lt_asymm h3
          · exact ih d hd hdn
      · simp only [Bool.false_eq_true, if_false, if_true]
        rcases List.mem_cons.mp hd with rfl | hd
        · rw [h2] at hdn; cases hdn
        · exact ih d hd hdn
    · simp only [if_true]
      rcases List.mem_cons.mp hd with rfl | hd
      · exact lt_irrefl _
      · have := (nanmin_isNaN E xs).mp h1 d hd
        rw [this] at hdn; cases hdn

/-! ### `np.argmin` / `np.nanargmin` -/

theorem argminPair_eq_none (l : List (XR K)) : argminPair (ops E) l = none ↔ l = [] := by
  cases l with
  | nil => simp [argminPair]
  | cons x xs =>
    simp only [argminPair, reduceCtorEq, iff_false]
    cases argminPair (ops E) xs with
    | none => simp
    | some kv => obtain ⟨k, v⟩ := kv; simp only []; split <;> simp

theorem argminPair_cons_some (x : XR K) (xs : List (XR K)) (k : Nat) (v : XR K)
    (h : argminPair (ops E) xs = some (k, v)) :
    argminPair (ops E) (x :: xs) = if lt v x then some (k + 1, v) else some (0, x) := by
  simp only [argminPair, h, ops_lt]
  by_cases hh : lt v x = true <;> simp [hh]

theorem argminPair_spec (l : List (XR K)) (hl : ∀ x ∈ l, isNaN x = false) :
    ∀ k v, argminPair (ops E) l = some (k, v) →
      l[k]? = some v ∧ (∀ x ∈ l, lt x v = false) ∧ (∀ j y, j < k → l[j]? = some y → lt v y = true) := by
  induction l with
  | nil => intro k v h; simp [argminPair] at h
  | cons x xs ih =>
    intro k v h
    have hx := hl x (by simp)
    have hxs : ∀ y ∈ xs, isNaN y = false := fun y hy => hl y (by simp [hy])
    cases hr : argminPair (ops E) xs with
    | none =>
      have hnil := (argminPair_eq_none E xs).mp hr
      subst hnil
      simp [argminPair] at h
      obtain ⟨rfl, rfl⟩ := h
      simp [lt_irrefl]
    | some kv =>
      obtain ⟨k', v'⟩ := kv
      obtain ⟨i1, i2, i3⟩ := ih hxs k' v' hr
      rw [argminPair_cons_some E x xs k' v' hr] at h
      have hv' : isNaN v' = false := hxs v' (List.mem_of_getElem? i1)
      cases hlt : lt v' x
      · simp [hlt] at h
        obtain ⟨rfl, rfl⟩ := h
        refine ⟨by simp, ?_, by omega⟩
        intro y hy
        rcases List.mem_cons.mp hy with rfl | hy
        · exact lt_irrefl _
        · exact le_trans' hv' hlt (i2 y hy)
      · simp [hlt] at h
        obtain ⟨rfl, rfl⟩ := h
        refine ⟨by simpa using i1, ?_, ?_⟩
        · intro y hy
          rcases List.mem_cons.mp hy with rfl | hy
          · exact lt_asymm hlt
          · exact i2 y hy
        · intro j y hj hy
          cases j with
          | zero => simp at hy; subst hy; exact hlt
          | succ j => simp at hy; exact i3 j y (by omega) hy

theorem replNaN_eq (x : XR K) : replNaN (ops E) x = if isNaN x then pinf else x := rfl

theorem replNaN_notNaN (x : XR K) : isNaN (replNaN (ops E) x) = false := by
  rw [replNaN_eq]; cases h : isNaN x
  · simpa using h
  · simp [isNaN]

theorem replNaN_of_notNaN {x : XR K} (h : isNaN x = false) : replNaN (ops E) x = x := by
  rw [replNaN_eq]; simp [h]

/-- `np.nanargmin(DL)` points at the minimum of the NaN-replaced array, and nothing before it attains
the minimum. -/
theorem nanargmin_spec (ds : List (XR K)) (h : ∃ d ∈ ds, isNaN d = false) :
    (ds.map (replNaN (ops E)))[nanargmin (ops E) ds]? = some (nanmin (ops E) ds) ∧
    (∀ j y, j < nanargmin (ops E) ds → ds[j]? = some y →
        isNaN y = true ∨ lt (nanmin (ops E) ds) y = true) := by
  obtain ⟨d0, hd0, hd0n⟩ := h
  have hne : ds.map (replNaN (ops E)) ≠ [] := by
    intro hh; rw [List.map_eq_nil_iff] at hh; subst hh; simp at hd0
  cases hr : argminPair (ops E) (ds.map (replNaN (ops E))) with
  | none => exact absurd ((argminPair_eq_none E _).mp hr) hne
  | some kv =>
    obtain ⟨k, v⟩ := kv
    have hk : nanargmin (ops E) ds = k := by simp [nanargmin, hr]
    rw [hk]
    have hnn : ∀ x ∈ ds.map (replNaN (ops E)), isNaN x = false := by
      intro x hx; obtain ⟨y, _, rfl⟩ := List.mem_map.mp hx; exact replNaN_notNaN E y
    obtain ⟨s1, s2, s3⟩ := argminPair_spec E _ hnn k v hr
    have hmN : isNaN (nanmin (ops E) ds) = false := by
      cases hh : isNaN (nanmin (ops E) ds)
      · rfl
      · have := (nanmin_isNaN E ds).mp hh d0 hd0; rw [this] at hd0n; cases hd0n
    have hmem := nanmin_mem E ds hmN
    have hvN : isNaN v = false := hnn v (List.mem_of_getElem? s1)
    have h1 : lt (nanmin (ops E) ds) v = false := by
      apply s2
      exact List.mem_map.mpr ⟨_, hmem, replNaN_of_notNaN E hmN⟩
    have h2 : lt v (nanmin (ops E) ds) = false := by
      obtain ⟨d, hd, hdv⟩ := List.mem_map.mp (List.mem_of_getElem? s1)
      cases hdn : isNaN d
      · rw [replNaN_of_notNaN E hdn] at hdv; subst hdv
        exact nanmin_le E ds d hd hdn
      · rw [replNaN_eq, hdn] at hdv; simp at hdv; subst hdv
        exact pinf_not_lt _
    have hmv : nanmin (ops E) ds = v := eq_of_not_lt hmN hvN h1 h2
    refine ⟨by rw [hmv]; exact s1, ?_⟩
    intro j y hj hy
    have : (ds.map (replNaN (ops E)))[j]? = some (replNaN (ops E) y) := by simp [hy]
    have h3 := s3 j _ hj this
    cases hyn : isNaN y
    · right; rw [replNaN_of_notNaN E hyn] at h3; rw [hmv]; exact h3
    · left; rfl

theorem allNaN_iff (ds : List (XR K)) : ds.all (ops E).isNaN = true ↔ ∀ d ∈ ds, isNaN d = true := by
  simp [List.all_eq_true]

theorem perUnique_allNaN (t : Table (XR K)) (u : Nat)
    (h : ∀ v ∈ variants t u, isNaN (dl (ops E) v) = true) :
    perUnique (ops E) t u = MinRow.allNaN (ops E) t.npar := by
  have : ((variants t u).map (dl (ops E))).all (ops E).isNaN = true := by
    rw [allNaN_iff]; intro d hd; obtain ⟨v, hv, rfl⟩ := List.mem_map.mp hd; exact h v hv
  simp only [perUnique, this, if_true]

/-- lines 79-85 for a unique function that has a variant with a non-NaN description length. -/
theorem perUnique_some (t : Table (XR K)) (u : Nat)
    (h : ∃ v ∈ variants t u, isNaN (dl (ops E) v) = false) :
    isNaN (perUnique (ops E) t u).dl = false ∧
    (perUnique (ops E) t u).dl = nanmin (ops E) ((variants t u).map (dl (ops E))) ∧
    ∃ k v, (variants t u)[k]? = some v ∧ replNaN (ops E) (dl (ops E) v) = (perUnique (ops E) t u).dl ∧
      (perUnique (ops E) t u).fcn = v.fcn ∧ (perUnique (ops E) t u).nll = v.nll ∧
      (perUnique (ops E) t u).codelen = v.codelen ∧ (perUnique (ops E) t u).aifeyn = v.aifeyn ∧
      (perUnique (ops E) t u).params = v.params ∧
      ∀ (j : Nat) w, j < k → (variants t u)[j]? = some w →
        isNaN (dl (ops E) w) = true ∨ lt (perUnique (ops E) t u).dl (dl (ops E) w) = true := by
  obtain ⟨v0, hv0, hv0n⟩ := h
  have hex : ∃ d ∈ (variants t u).map (dl (ops E)), isNaN d = false := ⟨_, List.mem_map.mpr ⟨v0, hv0, rfl⟩, hv0n⟩
  have hnot : ((variants t u).map (dl (ops E))).all (ops E).isNaN = false := by
    cases hh : ((variants t u).map (dl (ops E))).all (ops E).isNaN
    · rfl
    · have := (allNaN_iff E _).mp hh _ (List.mem_map.mpr ⟨v0, hv0, rfl⟩); rw [this] at hv0n; cases hv0n
  obtain ⟨s1, s2⟩ := nanargmin_spec E _ hex
  have hdl : (perUnique (ops E) t u).dl = nanmin (ops E) ((variants t u).map (dl (ops E))) := by
    simp only [perUnique, hnot, Bool.false_eq_true, if_false]
  have hmN : isNaN (nanmin (ops E) ((variants t u).map (dl (ops E)))) = false := by
    cases hh : isNaN (nanmin (ops E) ((variants t u).map (dl (ops E))))
    · rfl
    · have := (nanmin_isNaN E _).mp hh _ (List.mem_map.mpr ⟨v0, hv0, rfl⟩); rw [this] at hv0n; cases hv0n
  refine ⟨by rw [hdl]; exact hmN, hdl, nanargmin (ops E) ((variants t u).map (dl (ops E))), ?_⟩
  simp only [List.map_map, List.getElem?_map, Option.map_eq_some_iff] at s1
  obtain ⟨v, hv, hvd⟩ := s1
  refine ⟨v, hv, ?_, ?_⟩
  · rw [hdl]; exact hvd
  · simp only [perUnique, hnot, hv, Option.getD_some, Bool.false_eq_true, if_false, true_and]
    intro j w hj hw
    apply s2 j _ hj
    simp [hw]

end XR

/-! ### the NaN mask (any operations) -/
section generic
variable {α : Type} (o : Ops α)

theorem mem_keyedFrom (s : Nat) (mins : List (MinRow α)) (d : α) (u : Nat) :
    (d, u) ∈ keyedFrom o s mins ↔ s ≤ u ∧ ∃ m, mins[u - s]? = some m ∧ m.dl = d ∧ o.isNaN d = false := by
  induction mins generalizing s with
  | nil => simp [keyedFrom]
  | cons m ms ih =>
    have step : ∀ (hu : s + 1 ≤ u), (m :: ms)[u - s]? = ms[u - (s + 1)]? := by
      intro hu
      have : u - s = (u - (s + 1)) + 1 := by omega
      rw [this]; simp
    unfold keyedFrom
    cases hm : o.isNaN m.dl
    · simp only [Bool.false_eq_true, if_false, List.mem_cons, Prod.mk.injEq, ih]
      constructor
      · rintro (⟨rfl, rfl⟩ | ⟨hu, m', h1, h2, h3⟩)
        · exact ⟨Nat.le_refl _, m, by simp, rfl, hm⟩
        · exact ⟨by omega, m', by rw [step hu]; exact h1, h2, h3⟩
      · rintro ⟨hu, m', h1, h2, h3⟩
        by_cases hus : u = s
        · subst hus; simp at h1; subst h1; left; exact ⟨h2.symm, rfl⟩
        · right
          have hu' : s + 1 ≤ u := by omega
          exact ⟨hu', m', by rw [← step hu']; exact h1, h2, h3⟩
    · simp only [if_true, ih]
      constructor
      · rintro ⟨hu, m', h1, h2, h3⟩
        exact ⟨by omega, m', by rw [step hu]; exact h1, h2, h3⟩
      · rintro ⟨hu, m', h1, h2, h3⟩
        by_cases hus : u = s
        · subst hus; simp at h1; subst h1; rw [h2] at hm; rw [hm] at h3; cases h3
        · have hu' : s + 1 ≤ u := by omega
          exact ⟨hu', m', by rw [← step hu']; exact h1, h2, h3⟩

theorem keyedFrom_increasing (s : Nat) (mins : List (MinRow α)) :
    (keyedFrom o s mins).Pairwise (fun a b => a.2 < b.2) := by
  induction mins generalizing s with
  | nil => simp [keyedFrom]
  | cons m ms ih =>
    unfold keyedFrom
    cases hm : o.isNaN m.dl
    · simp only [Bool.false_eq_true, if_false, List.pairwise_cons]
      refine ⟨?_, ih (s + 1)⟩
      rintro ⟨d, u⟩ hb
      have := ((mem_keyedFrom o (s + 1) ms d u).mp hb).1
      show s < u
      omega
    · simp only [if_true]; exact ih (s + 1)

/-! ### the stable sort -/

theorem ins_perm (x : α × Nat) (l : List (α × Nat)) : (ins o x l).Perm (x :: l) := by
  induction l with
  | nil => exact List.Perm.refl _
  | cons y ys ih =>
    unfold ins
    cases o.lt y.1 x.1
    · simp
    · simp only [if_true]
      exact (List.Perm.cons y ih).trans (List.Perm.swap x y ys)

theorem isort_perm (l : List (α × Nat)) : (isort o l).Perm l := by
  induction l with
  | nil => exact List.Perm.refl _
  | cons x xs ih =>
    unfold isort
    exact (ins_perm o x _).trans (List.Perm.cons x ih)

/-! ### the rows written out -/

theorem mkRows_mem (g : α × Nat → MinRow α) (i : Nat) (ks : List (α × Nat)) (ps : List α) (r : FinalRow α)
    (h : r ∈ mkRows i ks (ks.map g) ps) :
    ∃ k ∈ ks, r.u = k.2 ∧ r.dl = k.1 ∧ r.fcn = (g k).fcn ∧ r.nll = (g k).nll ∧ r.codelen = (g k).codelen ∧
      r.aifeyn = (g k).aifeyn ∧ r.params = (g k).params := by
  induction ks generalizing i ps with
  | nil => simp [mkRows] at h
  | cons k ks ih =>
    cases ps with
    | nil => simp [mkRows] at h
    | cons p ps =>
      simp only [List.map_cons, mkRows, List.mem_cons] at h
      rcases h with rfl | h
      · exact ⟨k, by simp, rfl, rfl, rfl, rfl, rfl, rfl, rfl⟩
      · obtain ⟨k', hk', rest⟩ := ih (i + 1) ps h
        exact ⟨k', by simp [hk'], rest⟩

theorem mkRows_keys (i : Nat) (ks : List (α × Nat)) (ms : List (MinRow α)) (ps : List α)
    (h1 : ks.length = ms.length) (h2 : ks.length = ps.length) :
    (mkRows i ks ms ps).map (fun r => (r.dl, r.u)) = ks := by
  induction ks generalizing i ms ps with
  | nil => simp [mkRows]
  | cons k ks ih =>
    cases ms with
    | nil => simp at h1
    | cons m ms =>
      cases ps with
      | nil => simp at h2
      | cons p ps =>
        simp only [mkRows, List.map_cons, List.cons.injEq, true_and]
        exact ih (i + 1) ms ps (by simpa using h1) (by simpa using h2)

theorem mkRows_prel (i : Nat) (ks : List (α × Nat)) (ms : List (MinRow α)) (ps : List α)
    (h1 : ks.length = ms.length) (h2 : ks.length = ps.length) :
    (mkRows i ks ms ps).map (·.prel) = ps := by
  induction ks generalizing i ms ps with
  | nil => cases ps with
    | nil => simp [mkRows]
    | cons p ps => simp at h2
  | cons k ks ih =>
    cases ms with
    | nil => simp at h1
    | cons m ms =>
      cases ps with
      | nil => simp at h2
      | cons p ps =>
        simp only [mkRows, List.map_cons, List.cons.injEq, true_and]
        exact ih (i + 1) ms ps (by simpa using h1) (by simpa using h2)

theorem mkRows_nll (i : Nat) (ks : List (α × Nat)) (ms : List (MinRow α)) (ps : List α)
    (h1 : ks.length = ms.length) (h2 : ks.length = ps.length) :
    (mkRows i ks ms ps).map (·.nll) = ms.map (·.nll) := by
  induction ks generalizing i ms ps with
  | nil => cases ms with
    | nil => simp [mkRows]
    | cons p ps => simp at h1
  | cons k ks ih =>
    cases ms with
    | nil => simp at h1
    | cons m ms =>
      cases ps with
      | nil => simp at h2
      | cons p ps =>
        simp only [mkRows, List.map_cons, List.cons.injEq, true_and]
        exact ih (i + 1) ms ps (by simpa using h1) (by simpa using h2)

theorem mkRows_ranks (i : Nat) (ks : List (α × Nat)) (ms : List (MinRow α)) (ps : List α) :
    (mkRows i ks ms ps).map (·.rank) = List.range' i (mkRows i ks ms ps).length := by
  induction ks generalizing i ms ps with
  | nil => simp [mkRows]
  | cons k ks ih =>
    cases ms with
    | nil => simp [mkRows]
    | cons m ms =>
      cases ps with
      | nil => simp [mkRows]
      | cons p ps =>
        simp only [mkRows, List.map_cons, List.length_cons, List.range'_succ, List.cons.injEq, true_and]
        exact ih (i + 1) ms ps

theorem dupLoop_length (seen xs : List α) : (dupLoop o seen xs).length = xs.length := by
  induction xs generalizing seen with
  | nil => simp [dupLoop]
  | cons x xs ih => unfold dupLoop; split <;> simp [ih]

theorem prel_length (dls nlls : List α) (h : dls.length = nlls.length) : (prel o dls nlls).length = dls.length := by
  unfold prel
  simp only []
  split <;> simp [dupLoop_length, h]

/-- lines 51-106: whatever the number of ranks, the concatenated per-rank files list the unique functions
`0 … U-1` in order (uses the tiling theorem of C14). -/
theorem combined_eq (t : Table α) (P : Nat) (hP : 1 ≤ P) :
    combined o t P = (List.range t.nUniq).map (perUnique o t) :=
  ESR.C14.stage_rows_aligned (List.range t.nUniq) (perUnique o t) P hP

end generic

namespace XR
variable {K : Type} [Field K] [LinearOrder K] [IsStrictOrderedRing K] (E : K → K)

/-- "sorted by DL, ties in the order of the unique index": the order `sorted(…, key=x[0])` leaves. -/
def R (a b : XR K × Nat) : Prop := lt b.1 a.1 = false ∧ (lt a.1 b.1 = false → a.2 < b.2)

theorem ins_pairwise (x : XR K × Nat) (l : List (XR K × Nat))
    (hl : ∀ y ∈ l, isNaN y.1 = false) (hu : ∀ y ∈ l, x.2 < y.2) (hs : l.Pairwise R) :
    (ins (ops E) x l).Pairwise R := by
  induction l with
  | nil => simp [ins]
  | cons y ys ih =>
    have hy := hl y (by simp)
    obtain ⟨hy1, hy2⟩ := List.pairwise_cons.mp hs
    unfold ins
    cases hlt : (ops E).lt y.1 x.1
    · simp only [Bool.false_eq_true, if_false]
      refine List.pairwise_cons.mpr ⟨?_, hs⟩
      intro z hz
      refine ⟨?_, fun _ => hu z hz⟩
      rcases List.mem_cons.mp hz with rfl | hz
      · exact hlt
      · exact le_trans' hy hlt (hy1 z hz).1
    · simp only [if_true]
      refine List.pairwise_cons.mpr ⟨?_, ih (fun z hz => hl z (by simp [hz])) (fun z hz => hu z (by simp [hz])) hy2⟩
      intro z hz
      rcases List.mem_cons.mp ((ins_perm (ops E) x ys).mem_iff.mp hz) with rfl | hz
      · exact ⟨lt_asymm hlt, fun h => by rw [ops_lt] at hlt; rw [hlt] at h; cases h⟩
      · exact hy1 z hz

theorem isort_pairwise (l : List (XR K × Nat))
    (hl : ∀ y ∈ l, isNaN y.1 = false) (hu : l.Pairwise (fun a b => a.2 < b.2)) :
    (isort (ops E) l).Pairwise R := by
  induction l with
  | nil => simp [isort]
  | cons x xs ih =>
    obtain ⟨h1, h2⟩ := List.pairwise_cons.mp hu
    unfold isort
    apply ins_pairwise
    · intro y hy; exact hl y (by simp [(isort_perm (ops E) xs).mem_iff.mp hy])
    · intro y hy; exact h1 y ((isort_perm (ops E) xs).mem_iff.mp hy)
    · exact ih (fun y hy => hl y (by simp [hy])) h2

/-! ### duplicate likelihoods -/

theorem eq_trans' {a b c : XR K} (h1 : eq a b = true) (h2 : eq b c = true) : eq a c = true := by
  cases a <;> cases b <;> cases c <;> simp_all [eq]

theorem eq_symm' {a b : XR K} (h : eq a b = true) : eq b a = true := by
  cases a <;> cases b <;> simp_all [eq]

/-- Row-by-row meaning of the scan: "equal (`==`) to the likelihood of an earlier row". -/
def dupSpec (pre : List (XR K)) : List (XR K) → List Bool
  | [] => []
  | x :: xs => pre.any (fun s => eq x s) :: dupSpec (pre ++ [x]) xs

theorem dupLoop_eq_dupSpec (seen pre xs : List (XR K))
    (h : ∀ y, seen.any (fun s => eq y s) = pre.any (fun s => eq y s)) :
    dupLoop (ops E) seen xs = dupSpec pre xs := by
  induction xs generalizing seen pre with
  | nil => rfl
  | cons x xs ih =>
    unfold dupLoop dupSpec
    by_cases hx0 : seen.any (fun s => (ops E).eq x s) = true
    · have hx : seen.any (fun s => eq x s) = true := hx0
      rw [if_pos hx0, ← h x, hx]
      congr 1
      apply ih
      intro y
      rw [h y, List.any_append]
      cases hy : eq y x
      · simp [hy]
      · have hxp : pre.any (fun s => eq x s) = true := by rw [← h x]; exact hx
        obtain ⟨s, hs, hxs⟩ := List.any_eq_true.mp hxp
        have : pre.any (fun s => eq y s) = true := List.any_eq_true.mpr ⟨s, hs, eq_trans' hy hxs⟩
        simp [this]
    · rw [if_neg hx0]
      have hx' : seen.any (fun s => eq x s) = false := by simpa using hx0
      rw [← h x, hx']
      congr 1
      apply ih
      intro y; simp [List.any_append, h y]

theorem dupSpec_length (pre xs : List (XR K)) : (dupSpec pre xs).length = xs.length := by
  induction xs generalizing pre with
  | nil => rfl
  | cons x xs ih => simp [dupSpec, ih]

theorem dupSpec_getElem (pre xs : List (XR K)) (i : Nat) (x : XR K) (hx : xs[i]? = some x) :
    (dupSpec pre xs)[i]? = some ((pre ++ xs.take i).any (fun s => eq x s)) := by
  induction xs generalizing pre i with
  | nil => simp at hx
  | cons y ys ih =>
    cases i with
    | zero => simp at hx; subst hx; simp [dupSpec]
    | succ i =>
      simp at hx
      simp only [dupSpec, List.getElem?_cons_succ, List.take_succ_cons]
      rw [ih (pre ++ [y]) i hx]
      simp

/-! ### normalisation -/

/-- `exp(-(DL - DL₀))` for a description length that is finite or `+∞`. -/
def wt (a0 : K) : XR K → K
  | fin a => E (-(a - a0))
  | _ => 0

/-- un-normalised probability of a row: zero for a duplicate likelihood. -/
def q (a0 : K) (d : XR K) (dup : Bool) : K := if dup then 0 else wt E a0 d

theorem prelRaw_prelDL (a0 : K) (d : XR K) (dup : Bool) (hd : (∃ a, d = fin a) ∨ d = pinf) :
    prelRaw (ops E) (prelDL (ops E) (fin a0) d dup) = fin (q E a0 d dup) := by
  cases dup
  · rcases hd with ⟨a, rfl⟩ | rfl
    · simp [prelRaw, prelDL, q, wt, sub, neg, add, expNeg, isFinite, isNaN, sub_eq_add_neg]
    · simp [prelRaw, prelDL, q, wt, sub, neg, add, expNeg, isFinite, isNaN]
  · simp [prelRaw, prelDL, q, expNeg, isFinite, isNaN]

theorem foldl_add_fin (acc : K) (qs : List K) :
    List.foldl add (fin acc) (qs.map fin) = fin (acc + qs.sum) := by
  induction qs generalizing acc with
  | nil => simp
  | cons x xs ih => simp [List.foldl_cons, add, ih, add_assoc]

theorem sum_fin (qs : List K) : ESR.Rank.sum (ops E) (qs.map fin) = fin qs.sum := by
  simp only [ESR.Rank.sum, ops_add, ops_zero]
  rw [foldl_add_fin]; simp

theorem sum_div (qs : List K) (s : K) : (qs.map (fun x => x / s)).sum = qs.sum / s := by
  induction qs with
  | nil => simp
  | cons x xs ih => simp [ih, add_div]

theorem q_nonneg (hE : ∀ x, 0 < E x) (a0 : K) (d : XR K) (dup : Bool) : 0 ≤ q E a0 d dup := by
  cases dup <;> cases d <;> simp [q, wt, le_of_lt (hE _)]

theorem zipWith_q_nonneg (hE : ∀ x, 0 < E x) (a0 : K) (ds : List (XR K)) (fl : List Bool) :
    ∀ x ∈ List.zipWith (q E a0) ds fl, 0 ≤ x := by
  induction ds generalizing fl with
  | nil => simp
  | cons d ds ih =>
    cases fl with
    | nil => simp
    | cons f fl =>
      intro x hx
      simp only [List.zipWith_cons_cons, List.mem_cons] at hx
      rcases hx with rfl | hx
      · exact q_nonneg E hE _ _ _
      · exact ih fl x hx

theorem sum_nonneg' (qs : List K) (h : ∀ x ∈ qs, 0 ≤ x) : 0 ≤ qs.sum := by
  induction qs with
  | nil => simp
  | cons x xs ih =>
    simp only [List.sum_cons]
    exact add_nonneg (h x (by simp)) (ih (fun y hy => h y (by simp [hy])))

/-- lines 154-164 when the best description length is finite and none is `−∞`/NaN: the probabilities are the
weights `q` divided by their (positive) sum. -/
theorem prel_spec (hE : ∀ x, 0 < E x) (a0 : K) (ds nlls : List (XR K))
    (hlen : nlls.length = ds.length + 1)
    (hds : ∀ d ∈ ds, (∃ a, d = fin a) ∨ d = pinf) :
    0 < (List.zipWith (q E a0) (fin a0 :: ds) (dupSpec [] nlls)).sum ∧
    prel (ops E) (fin a0 :: ds) nlls =
      (List.zipWith (q E a0) (fin a0 :: ds) (dupSpec [] nlls)).map
        (fun x => fin (x / (List.zipWith (q E a0) (fin a0 :: ds) (dupSpec [] nlls)).sum)) := by
  have hall : ∀ d ∈ fin a0 :: ds, (∃ a, d = fin a) ∨ d = pinf := by
    intro d hd; rcases List.mem_cons.mp hd with rfl | hd
    · exact Or.inl ⟨a0, rfl⟩
    · exact hds d hd
  have hdup : dupLoop (ops E) [] nlls = dupSpec [] nlls := dupLoop_eq_dupSpec E [] [] nlls (fun _ => rfl)
  have hraw : ∀ (l : List (XR K)) (fl : List Bool), (∀ d ∈ l, (∃ a, d = fin a) ∨ d = pinf) →
      (List.zipWith (prelDL (ops E) (fin a0)) l fl).map (prelRaw (ops E)) = (List.zipWith (q E a0) l fl).map fin := by
    intro l
    induction l with
    | nil => intro fl _; simp
    | cons d l ih =>
      intro fl hl
      cases fl with
      | nil => simp
      | cons f fl =>
        simp only [List.zipWith_cons_cons, List.map_cons]
        rw [prelRaw_prelDL E a0 d f (hl d (by simp)), ih fl (fun d hd => hl d (by simp [hd]))]
  have hpos : 0 < (List.zipWith (q E a0) (fin a0 :: ds) (dupSpec [] nlls)).sum := by
    cases nlls with
    | nil => simp at hlen
    | cons x xs =>
      simp only [dupSpec, List.zipWith_cons_cons, List.sum_cons, List.any_nil]
      have h0 : 0 < q E a0 (fin a0) false := by simp [q, wt, hE]
      have := sum_nonneg' _ (zipWith_q_nonneg E hE a0 ds (dupSpec ([] ++ [x]) xs))
      exact add_pos_of_pos_of_nonneg h0 this
  refine ⟨hpos, ?_⟩
  simp only [prel, List.headD_cons, hdup]
  rw [hraw _ _ hall, sum_fin]
  have hlt : (ops E).lt (ops E).zero (fin (List.zipWith (q E a0) (fin a0 :: ds) (dupSpec [] nlls)).sum) = true := by
    simp [lt, hpos]
  rw [if_pos hlt]
  simp only [List.map_map, ops_div]
  apply List.map_congr_left
  intro x _
  simp [div, ne_of_gt hpos]

/-! ### the final table as a whole -/

/-- the per-unique minima as rank 0 reads them back (any rank count, by `combined_eq`). -/
def mins (t : Table (XR K)) : List (MinRow (XR K)) := (List.range t.nUniq).map (perUnique (ops E) t)

/-- the sorted `(DL, unique index)` pairs of line 133. -/
def srt (t : Table (XR K)) : List (XR K × Nat) := isort (ops E) (keyed (ops E) (mins E t))

theorem main_some {t : Table (XR K)} {P : Nat} (hP : 1 ≤ P) {out : List (FinalRow (XR K))}
    (h : main (ops E) t P = some out) :
    1 ≤ t.rows.length ∧ 1 ≤ t.nUniq ∧ out = finalOf (ops E) t.npar (mins E t) := by
  unfold main at h
  split at h
  · cases h
  · split at h
    · cases h
    · simp only [Option.some.injEq] at h
      rw [combined_eq _ t P hP] at h
      exact ⟨by omega, by omega, h.symm⟩

theorem mins_getElem (t : Table (XR K)) (u : Nat) :
    (mins E t)[u]? = if u < t.nUniq then some (perUnique (ops E) t u) else none := by
  unfold mins
  by_cases h : u < t.nUniq
  · simp [h]
  · simp [h]

theorem mem_srt (t : Table (XR K)) (k : XR K × Nat) :
    k ∈ srt E t ↔ k.2 < t.nUniq ∧ (perUnique (ops E) t k.2).dl = k.1 ∧ isNaN k.1 = false := by
  obtain ⟨d, u⟩ := k
  unfold srt keyed
  rw [(isort_perm (ops E) _).mem_iff, mem_keyedFrom]
  simp only [Nat.zero_le, Nat.sub_zero, true_and, mins_getElem, ops_isNaN]
  by_cases h : u < t.nUniq
  · simp [h]
  · simp [h]

theorem srt_sorted (t : Table (XR K)) : (srt E t).Pairwise R := by
  apply isort_pairwise
  · rintro ⟨d, u⟩ hy
    exact ((mem_keyedFrom (ops E) 0 _ d u).mp hy).2.choose_spec.2.2
  · exact keyedFrom_increasing (ops E) 0 _

theorem srt_nodup (t : Table (XR K)) : ((srt E t).map (·.2)).Nodup := by
  have hp : ((srt E t).map (·.2)).Perm ((keyed (ops E) (mins E t)).map (·.2)) := (isort_perm (ops E) _).map _
  rw [hp.nodup_iff]
  have := keyedFrom_increasing (ops E) 0 (mins E t)
  unfold keyed
  rw [List.Nodup, List.pairwise_map]
  exact this.imp (fun h => Nat.ne_of_lt h)

theorem gather_eq (t : Table (XR K)) :
    gather (ops E) t.npar (mins E t) (srt E t) = (srt E t).map (fun k => perUnique (ops E) t k.2) := by
  unfold gather
  apply List.map_congr_left
  intro k hk
  have := ((mem_srt E t k).mp hk).1
  simp [mins_getElem, this]

/-- `final_<n>.dat`, with the indirections of lines 137-142 resolved. -/
theorem finalOf_eq (t : Table (XR K)) :
    finalOf (ops E) t.npar (mins E t) =
      mkRows 0 (srt E t) ((srt E t).map (fun k => perUnique (ops E) t k.2))
        (prel (ops E) ((srt E t).map (·.1)) (((srt E t).map (fun k => perUnique (ops E) t k.2)).map (·.nll))) := by
  show mkRows 0 (srt E t) (gather (ops E) t.npar (mins E t) (srt E t))
      (prel (ops E) ((srt E t).map (·.1)) ((gather (ops E) t.npar (mins E t) (srt E t)).map (·.nll))) = _
  rw [gather_eq]

theorem finalOf_keys (t : Table (XR K)) :
    (finalOf (ops E) t.npar (mins E t)).map (fun r => (r.dl, r.u)) = srt E t := by
  rw [finalOf_eq]
  apply mkRows_keys
  · simp
  · rw [prel_length] <;> simp

theorem finalOf_prel (t : Table (XR K)) :
    (finalOf (ops E) t.npar (mins E t)).map (·.prel) =
      prel (ops E) ((finalOf (ops E) t.npar (mins E t)).map (·.dl)) ((finalOf (ops E) t.npar (mins E t)).map (·.nll)) := by
  have hk := finalOf_keys E t
  have hd : (finalOf (ops E) t.npar (mins E t)).map (·.dl) = (srt E t).map (·.1) := by
    rw [← hk, List.map_map]; rfl
  have hn : (finalOf (ops E) t.npar (mins E t)).map (·.nll) = ((srt E t).map (fun k => perUnique (ops E) t k.2)).map (·.nll) := by
    rw [finalOf_eq]
    apply mkRows_nll
    · simp
    · rw [prel_length] <;> simp
  rw [hd, hn, finalOf_eq]
  apply mkRows_prel
  · simp
  · rw [prel_length] <;> simp

theorem finalOf_mem (t : Table (XR K)) (r : FinalRow (XR K)) (h : r ∈ finalOf (ops E) t.npar (mins E t)) :
    (r.dl, r.u) ∈ srt E t ∧ r.fcn = (perUnique (ops E) t r.u).fcn ∧ r.nll = (perUnique (ops E) t r.u).nll ∧
    r.codelen = (perUnique (ops E) t r.u).codelen ∧ r.aifeyn = (perUnique (ops E) t r.u).aifeyn ∧
    r.params = (perUnique (ops E) t r.u).params := by
  rw [finalOf_eq] at h
  obtain ⟨k, hk, h1, h2, rest⟩ := mkRows_mem (fun k => perUnique (ops E) t k.2) 0 _ _ r h
  refine ⟨by rw [h1, h2]; exact hk, ?_⟩
  rw [h1]; exact rest

theorem mem_variants_rows {t : Table (XR K)} {u : Nat} {v : Row (XR K)} (h : v ∈ variants t u) : v ∈ t.rows :=
  (List.mem_filter.mp h).1

/-- the description length of a final row is a number and is attained by a variant of its unique function. -/
theorem finalOf_dl_attained (t : Table (XR K)) (r : FinalRow (XR K)) (hr : r ∈ finalOf (ops E) t.npar (mins E t)) :
    isNaN r.dl = false ∧ ∃ v ∈ variants t r.u, dl (ops E) v = r.dl := by
  obtain ⟨hk, _⟩ := finalOf_mem E t r hr
  obtain ⟨_, hdl, hnn⟩ := (mem_srt E t _).mp hk
  simp only at hdl hnn
  have hex : ∃ v ∈ variants t r.u, isNaN (dl (ops E) v) = false := by
    by_contra hno
    have hall : ∀ v ∈ variants t r.u, isNaN (dl (ops E) v) = true := by
      intro v hv
      cases hh : isNaN (dl (ops E) v)
      · exact absurd ⟨v, hv, hh⟩ hno
      · rfl
    rw [perUnique_allNaN E t r.u hall] at hdl
    rw [← hdl] at hnn
    simp [MinRow.allNaN, isNaN] at hnn
  obtain ⟨_, p2, _⟩ := perUnique_some E t r.u hex
  rw [hdl] at p2
  have hmem := nanmin_mem E ((variants t r.u).map (dl (ops E))) (by rw [← p2]; exact hnn)
  rw [← p2] at hmem
  obtain ⟨v', hv', hv'd⟩ := List.mem_map.mp hmem
  exact ⟨hnn, v', hv', hv'd⟩

theorem fin_or_pinf {d : XR K} (h1 : isNaN d = false) (h2 : d ≠ ninf) : (∃ a, d = fin a) ∨ d = pinf := by
  cases d with
  | fin a => exact Or.inl ⟨a, rfl⟩
  | pinf => exact Or.inr rfl
  | ninf => exact absurd rfl h2
  | nan => simp [isNaN] at h1

/-- If no variant has description length `−∞` and some final row is finite, the first row is finite and every
other row is finite or `+∞`. -/
theorem head_finite (t : Table (XR K)) (hdom : ∀ v ∈ t.rows, dl (ops E) v ≠ ninf)
    (hfin : ∃ r ∈ finalOf (ops E) t.npar (mins E t), isFinite r.dl = true) :
    ∃ a0 ds, (finalOf (ops E) t.npar (mins E t)).map (·.dl) = fin a0 :: ds ∧
      ∀ d ∈ ds, (∃ a, d = fin a) ∨ d = pinf := by
  have hcases : ∀ r ∈ finalOf (ops E) t.npar (mins E t), (∃ a, r.dl = fin a) ∨ r.dl = pinf := by
    intro r hr
    obtain ⟨h1, v, hv, hvd⟩ := finalOf_dl_attained E t r hr
    exact fin_or_pinf h1 (by rw [← hvd]; exact hdom v (mem_variants_rows hv))
  have hs := srt_sorted E t
  rw [← finalOf_keys E t, List.pairwise_map] at hs
  obtain ⟨rf, hrf, hrfin⟩ := hfin
  cases hout : finalOf (ops E) t.npar (mins E t) with
  | nil => rw [hout] at hrf; simp at hrf
  | cons r0 rest =>
    rw [hout] at hs hrf hcases
    obtain ⟨hs0, _⟩ := List.pairwise_cons.mp hs
    have h0 : ∃ a0, r0.dl = fin a0 := by
      rcases hcases r0 (by simp) with h | h
      · exact h
      · rcases List.mem_cons.mp hrf with rfl | hin
        · rw [h] at hrfin; simp [isFinite] at hrfin
        · have := (hs0 rf hin).1
          simp only at this
          rw [h] at this
          cases hd : rf.dl with
          | fin b => rw [hd] at this; simp [lt] at this
          | pinf => rw [hd] at hrfin; simp [isFinite] at hrfin
          | ninf => rw [hd] at hrfin; simp [isFinite] at hrfin
          | nan => rw [hd] at hrfin; simp [isFinite] at hrfin
    obtain ⟨a0, ha0⟩ := h0
    refine ⟨a0, rest.map (·.dl), by simp [ha0], ?_⟩
    intro d hd
    obtain ⟨r, hr, rfl⟩ := List.mem_map.mp hd
    exact hcases r (by simp [hr])

/-- lines 162-163: after the clean-up every entry is a non-negative number, whatever went in. -/
theorem prelRaw_nonneg (hE : ∀ x, 0 < E x) (x : XR K) : ∃ p : K, prelRaw (ops E) x = fin p ∧ 0 ≤ p := by
  cases x with
  | fin a => exact ⟨E (-a), by simp [prelRaw, expNeg, isFinite, isNaN], le_of_lt (hE _)⟩
  | pinf => exact ⟨0, by simp [prelRaw, expNeg, isFinite, isNaN], le_refl _⟩
  | ninf => exact ⟨0, by simp [prelRaw, expNeg, isFinite, isNaN], le_refl _⟩
  | nan => exact ⟨0, by simp [prelRaw, expNeg, isFinite, isNaN], le_refl _⟩

theorem map_prelRaw_nonneg (hE : ∀ x, 0 < E x) (xs : List (XR K)) :
    ∃ qs : List K, xs.map (prelRaw (ops E)) = qs.map fin ∧ ∀ p ∈ qs, 0 ≤ p := by
  induction xs with
  | nil => exact ⟨[], rfl, by simp⟩
  | cons x xs ih =>
    obtain ⟨qs, h1, h2⟩ := ih
    obtain ⟨p, hp, hp0⟩ := prelRaw_nonneg E hE x
    refine ⟨p :: qs, by simp [hp, h1], ?_⟩
    intro y hy
    rcases List.mem_cons.mp hy with rfl | hy
    · exact hp0
    · exact h2 y hy

/-- lines 154-165, no hypothesis on the table: every relative probability is a non-negative number
(the guard `if np.sum(Prel) > 0` keeps `0/0` away). -/
theorem prel_nonneg_all (hE : ∀ x, 0 < E x) (ds nlls : List (XR K)) :
    ∀ p ∈ prel (ops E) ds nlls, ∃ x : K, p = fin x ∧ 0 ≤ x := by
  unfold prel
  obtain ⟨qs, hq, hq0⟩ := map_prelRaw_nonneg E hE
    (List.zipWith (prelDL (ops E) (ds.headD (ops E).nan)) ds (dupLoop (ops E) [] nlls))
  simp only []
  rw [hq, sum_fin]
  intro p hp
  split at hp
  · rename_i hlt
    have hpos : 0 < qs.sum := by simpa [lt] using hlt
    simp only [List.map_map, List.mem_map, Function.comp] at hp
    obtain ⟨x, hx, rfl⟩ := hp
    exact ⟨x / qs.sum, by simp [div, ne_of_gt hpos], div_nonneg (hq0 x hx) (le_of_lt hpos)⟩
  · obtain ⟨x, hx, rfl⟩ := List.mem_map.mp hp
    exact ⟨x, rfl, hq0 x hx⟩

/-- lines 154-165 when no description length is finite (each is `+∞` or `−∞`): every un-normalised entry is `0`,
the sum is not `> 0`, and the probabilities stay `0`. -/
theorem prel_none_finite (ds nlls : List (XR K)) (hds : ∀ d ∈ ds, d = pinf ∨ d = ninf) :
    ∀ p ∈ prel (ops E) ds nlls, p = fin 0 := by
  have hhead : ds.headD (ops E).nan = pinf ∨ ds.headD (ops E).nan = ninf ∨ ds = [] := by
    cases ds with
    | nil => exact Or.inr (Or.inr rfl)
    | cons d0 ds =>
      rcases hds d0 (by simp) with h | h
      · exact Or.inl (by simp [h])
      · exact Or.inr (Or.inl (by simp [h]))
  have hraw : ∀ (l : List (XR K)) (fl : List Bool), (∀ d ∈ l, d = pinf ∨ d = ninf) → l = [] ∨ ds ≠ [] →
      ∀ x ∈ (List.zipWith (prelDL (ops E) (ds.headD (ops E).nan)) l fl).map (prelRaw (ops E)), x = fin 0 := by
    intro l
    induction l with
    | nil => intro fl _ _; simp
    | cons d l ih =>
      intro fl hl hne
      cases fl with
      | nil => simp
      | cons f fl =>
        intro x hx
        simp only [List.zipWith_cons_cons, List.map_cons, List.mem_cons] at hx
        rcases hx with rfl | hx
        · have hd := hl d (by simp)
          have hne' : ds ≠ [] := by
            rcases hne with h | h
            · cases h
            · exact h
          rcases hhead with h0 | h0 | h0
          · rw [h0]
            rcases hd with rfl | rfl <;> cases f <;>
              simp [prelRaw, prelDL, sub, neg, add, expNeg, isFinite, isNaN]
          · rw [h0]
            rcases hd with rfl | rfl <;> cases f <;>
              simp [prelRaw, prelDL, sub, neg, add, expNeg, isFinite, isNaN]
          · exact absurd h0 hne'
        · refine ih fl (fun d hd => hl d (by simp [hd])) ?_ x hx
          rcases hne with h | h
          · cases h
          · exact Or.inr h
  have hsum : ∀ (l : List (XR K)) (acc : XR K), acc = fin 0 → (∀ x ∈ l, x = fin 0) → List.foldl add acc l = fin 0 := by
    intro l
    induction l with
    | nil => intro acc h _; simpa using h
    | cons x l ih =>
      intro acc h hl
      simp only [List.foldl_cons]
      apply ih
      · rw [h, hl x (by simp)]; simp [add]
      · intro y hy; exact hl y (by simp [hy])
  have hne : ds = [] ∨ ds ≠ [] := by
    cases ds with
    | nil => exact Or.inl rfl
    | cons _ _ => exact Or.inr (by simp)
  have hall := hraw ds (dupLoop (ops E) [] nlls) hds hne
  have hs : ESR.Rank.sum (ops E) ((List.zipWith (prelDL (ops E) (ds.headD (ops E).nan)) ds (dupLoop (ops E) [] nlls)).map (prelRaw (ops E))) = fin 0 := by
    unfold ESR.Rank.sum
    exact hsum _ _ rfl hall
  intro p hp
  unfold prel at hp
  simp only [] at hp
  rw [hs] at hp
  have hnlt : (ops E).lt (ops E).zero (fin 0) = false := by simp [lt]
  rw [if_neg (by rw [hnlt]; simp)] at hp
  exact hall p hp

end XR
end ESR.Rank
