import ESRVerif.Model.NodeString
import ESRVerif.Proofs.PrinterSem
import ESRVerif.Proofs.PrinterLex
import ESRVerif.Generated.SymTab
/-!
C02 helper: the SEMANTIC link between a labelled tree and the string `node_to_string` makes of it.

* `evalTree t ρ` — ESR's operator semantics (the property's own definition, `Model/NodeString.lean`
  `opSem1`/`opSem2`/`evalTreeWith`, faithful to `harness/oracle_tree.py`: `pow u v = |u|^v`, `sqrt_abs u = sqrt|u|`,
  `log_abs u = log|u|`, `log10_abs u = log|u|/log 10`, `tenexp u = 10^u`, `inv u = 1/u`, `square`, `cube`, `exp`, `sin`,
  `+ - * /`; names looked up in the valuation, integer literals) over a `RealLike` structure.  The SAME
  `evalTreeWith` is run over `Float` by the driver op `treeval` and compared with `oracle_tree.eval_labels` on every
  run of the check.
* `evalPy tbl ρ (toPy t)` — what sympify computes from the string under a symbol table (C12's evaluator; the two
  tables are regenerated from the source).

Arithmetic is total (`RealLike` conventions; over `ℝ`: `x / 0 = 0`, `Real.log 0 = 0`, `0 ^ y` as `Real.rpow`), so
both sides are defined at every valuation and the only way to be `none` is a label outside the vocabulary.
`evalTreeStrict` is the partial evaluator that is undefined where the oracle raises (zero denominator, `log 0`,
`0` to a negative power); it is extended by `evalTree` (`evalTreeStrict_le`).  Core Lean only.
-/
namespace ESR.NodeString
open ESR.Printer ESR.SymTerm ESR.Gen.SymTab RealLike

variable {α : Type} [RealLike α]

/-- the operations of a `RealLike` structure, as the law-free record the model evaluator takes -/
def opsOf (α : Type) [RealLike α] : Ops α :=
  { add := RealLike.add, mul := RealLike.mul, sub := RealLike.sub, div := RealLike.div, rpow := RealLike.rpow,
    abs := RealLike.abs, exp := RealLike.exp, log := RealLike.log, sin := RealLike.sin, sqrt := RealLike.sqrt,
    ofInt := RealLike.ofInt }

/-- **ESR's operator semantics**: value of a labelled tree at a valuation; `none` iff some operator label has no ESR
meaning -/
def evalTree (t : LTree) (ρ : String → α) : Option α := evalTreeWith (opsOf α) t ρ

@[simp] theorem evalTree_name (s : String) (ρ : String → α) : evalTree (.name s) ρ = some (ρ s) := rfl
@[simp] theorem evalTree_int (neg : Bool) (n : Nat) (ρ : String → α) :
    evalTree (.int neg n) ρ = some (ofInt (litInt neg n)) := rfl
@[simp] theorem evalTree_un (f : String) (c : LTree) (ρ : String → α) :
    evalTree (.un f c) ρ = (evalTree c ρ).bind fun u => opSem1 (opsOf α) f u := rfl
@[simp] theorem evalTree_bin (op : String) (l r : LTree) (ρ : String → α) :
    evalTree (.bin op l r) ρ =
      (evalTree l ρ).bind fun u => (evalTree r ρ).bind fun v => opSem2 (opsOf α) op u v := rfl

/-! ### vocabularies and well-formedness -/

/-- which labels a reader of the string knows: unary function names, binary operator names, and which names may
stand in value position -/
structure Vocab where
  un : List String
  bin : List String
  leaf : String → Bool

/-- every label of the tree is in the vocabulary (integer literals always are) -/
def LTree.over (V : Vocab) : LTree → Bool
  | .name s => V.leaf s
  | .int _ _ => true
  | .un f c => V.un.contains f && c.over V
  | .bin op l r => V.bin.contains op && (l.over V && r.over V)

/-- `t.Over V`: unary labels ∈ `V.un`, binary labels ∈ `V.bin`, names satisfy `V.leaf`.  Decidable. -/
def LTree.Over (V : Vocab) (t : LTree) : Prop := t.over V = true

instance (V : Vocab) (t : LTree) : Decidable (t.Over V) := inferInstanceAs (Decidable (_ = true))

/-- what the GENERATION table (`sympy_locs` + sympy's own functions) resolves with ESR's meaning: the unary names
the table defines (`inv square cube sqrt_abs log_abs log10_abs tenexp`), the sympy built-ins the evaluator knows
whose sympy meaning is ESR's (`exp sin Abs` — NOT `sqrt`/`log`: sympy's own `sqrt(u)`, `log(u)` take no absolute
value), the four infix operators and `pow`; a name in value position must not be bound to a function by the table
(`x`, `a0`, `a1`, … are fine). -/
def genVocab : Vocab :=
  { un := ["inv", "square", "cube", "sqrt_abs", "log_abs", "log10_abs", "tenexp", "exp", "sin", "Abs"],
    bin := ["+", "-", "*", "/", "pow"],
    leaf := symOK genTable }

/-- what the FITTING table (`Likelihood.run_sympify`) resolves with ESR's meaning: it has `sqrt`, `log` (both on
absolute values), `pow`, `inv`, `square`, `cube`; `exp sin Abs` are sympy's own.  It has no `sqrt_abs`, `log_abs`,
`log10_abs`, `tenexp`. -/
def fitVocab : Vocab :=
  { un := ["inv", "square", "cube", "sqrt", "log", "exp", "sin", "Abs"],
    bin := ["+", "-", "*", "/", "pow"],
    leaf := symOK fitTable }

/-- the generation-stage labels that have a fitting-stage spelling -/
def genFitVocab : Vocab :=
  { un := ["inv", "square", "cube", "sqrt_abs", "log_abs", "exp", "sin", "Abs"],
    bin := ["+", "-", "*", "/", "pow"],
    leaf := fun s => symOK genTable s && symOK fitTable s }

theorem over_name {V : Vocab} {s : String} (h : LTree.Over V (.name s)) : V.leaf s = true := h
theorem over_un {V : Vocab} {f : String} {c : LTree} (h : LTree.Over V (.un f c)) : f ∈ V.un ∧ c.Over V := by
  simpa [LTree.Over, LTree.over] using h
theorem over_bin {V : Vocab} {op : String} {l r : LTree} (h : LTree.Over V (.bin op l r)) :
    op ∈ V.bin ∧ l.Over V ∧ r.Over V := by
  simpa [LTree.Over, LTree.over] using h

/-! ### the infix list regenerated from the source -/

theorem isInfix_add : isInfix "+" = some .add := by decide
theorem isInfix_sub : isInfix "-" = some .sub := by decide
theorem isInfix_mul : isInfix "*" = some .mul := by decide
theorem isInfix_div : isInfix "/" = some .div := by decide
theorem isInfix_pow : isInfix "pow" = none := by decide

/-! ### one operator: table entry = ESR meaning -/

/-- **generation table, unary**: applying the table entry (or sympy's own function) of every unary name of
`genVocab` to a value is ESR's meaning of that label -/
theorem genTable_agrees_opSem1 (f : String) (hf : f ∈ genVocab.un) (v : α) :
    applyFn genTable f [v] = opSem1 (opsOf α) f v := by
  simp only [genVocab, List.mem_cons, List.not_mem_nil, or_false] at hf
  rcases hf with rfl | rfl | rfl | rfl | rfl | rfl | rfl | rfl | rfl | rfl <;>
    simp [applyFn, Table.find, genTable, builtin, evalL, opSem1, opsOf]

/-- **generation table, `pow`** -/
theorem genTable_agrees_pow (v w : α) : applyFn genTable "pow" [v, w] = opSem2 (opsOf α) "pow" v w := by
  simp [applyFn, Table.find, genTable, builtin, evalL, opSem2, opsOf]

/-- **fitting table, unary** -/
theorem fitTable_agrees_opSem1 (f : String) (hf : f ∈ fitVocab.un) (v : α) :
    applyFn fitTable f [v] = opSem1 (opsOf α) f v := by
  simp only [fitVocab, List.mem_cons, List.not_mem_nil, or_false] at hf
  rcases hf with rfl | rfl | rfl | rfl | rfl | rfl | rfl | rfl <;>
    simp [applyFn, Table.find, fitTable, builtin, evalL, opSem1, opsOf]

/-- **fitting table, `pow`** -/
theorem fitTable_agrees_pow (v w : α) : applyFn fitTable "pow" [v, w] = opSem2 (opsOf α) "pow" v w := by
  simp [applyFn, Table.find, fitTable, builtin, evalL, opSem2, opsOf]

/-- the infix operators mean the same for every table -/
theorem evalBin_agrees (tbl : Table) (ρ : String → α) (op : String) (b : BinOp) (l r : PyAst)
    (hb : (op = "+" ∧ b = .add) ∨ (op = "-" ∧ b = .sub) ∨ (op = "*" ∧ b = .mul) ∨ (op = "/" ∧ b = .div)) :
    evalPy tbl ρ (.bin b l r) =
      (evalPy tbl ρ l).bind fun u => (evalPy tbl ρ r).bind fun v => opSem2 (opsOf α) op u v := by
  rcases hb with ⟨rfl, rfl⟩ | ⟨rfl, rfl⟩ | ⟨rfl, rfl⟩ | ⟨rfl, rfl⟩ <;>
    simp [evalPy, evalBin, opSem2, opsOf]

/-! ### whole trees -/

/-- what the induction needs from a (table, vocabulary) pair -/
structure Reads (tbl : Table) (V : Vocab) : Prop where
  leaf_ok : ∀ s, V.leaf s = true → symOK tbl s = true
  un_ok : ∀ (α : Type) [RealLike α] (f : String), f ∈ V.un → ∀ v : α, applyFn tbl f [v] = opSem1 (opsOf α) f v
  bin_sub : ∀ op ∈ V.bin, op = "+" ∨ op = "-" ∨ op = "*" ∨ op = "/" ∨ op = "pow"
  pow_ok : ∀ (α : Type) [RealLike α] (v w : α), applyFn tbl "pow" [v, w] = opSem2 (opsOf α) "pow" v w

theorem eval_toPy {tbl : Table} {V : Vocab} (R : Reads tbl V) (ρ : String → α) (t : LTree) (ht : t.Over V) :
    evalPy tbl ρ (toPy t) = evalTree t ρ := by
  induction t with
  | name s => simp [toPy, evalPy, R.leaf_ok s (over_name ht)]
  | int neg n =>
    cases neg with
    | false => simp [toPy, evalPy, litInt]
    | true => simp [toPy, evalPy, litInt, ofInt_neg]
  | un f c ih =>
    obtain ⟨hf, hc⟩ := over_un ht
    simp only [toPy, evalPy, ih hc, evalTree_un]
    congr 1
    funext v
    exact R.un_ok α f hf v
  | bin op l r ihl ihr =>
    obtain ⟨hop, hl, hr⟩ := over_bin ht
    simp only [toPy, evalTree_bin]
    rcases R.bin_sub op hop with rfl | rfl | rfl | rfl | rfl
    · rw [isInfix_add, evalBin_agrees tbl ρ "+" .add _ _ (by simp), ihl hl, ihr hr]
    · rw [isInfix_sub, evalBin_agrees tbl ρ "-" .sub _ _ (by simp), ihl hl, ihr hr]
    · rw [isInfix_mul, evalBin_agrees tbl ρ "*" .mul _ _ (by simp), ihl hl, ihr hr]
    · rw [isInfix_div, evalBin_agrees tbl ρ "/" .div _ _ (by simp), ihl hl, ihr hr]
    · rw [isInfix_pow]
      simp only [evalPy, ihl hl, ihr hr]
      congr 1
      funext u
      congr 1
      funext v
      exact R.pow_ok α u v

theorem genReads : Reads genTable genVocab where
  leaf_ok := fun _ h => h
  un_ok := fun α _ f hf v => genTable_agrees_opSem1 f hf v
  bin_sub := by simp [genVocab]
  pow_ok := fun α _ v w => genTable_agrees_pow v w

theorem fitReads : Reads fitTable fitVocab where
  leaf_ok := fun _ h => h
  un_ok := fun α _ f hf v => fitTable_agrees_opSem1 f hf v
  bin_sub := by simp [fitVocab]
  pow_ok := fun α _ v w => fitTable_agrees_pow v w

/-- a tree over a vocabulary all of whose labels have ESR semantics has a value at every valuation -/
theorem evalTree_isSome {V : Vocab}
    (hun : ∀ f ∈ V.un, ∀ (u : α), (opSem1 (opsOf α) f u).isSome = true)
    (hbin : ∀ op ∈ V.bin, ∀ (u v : α), (opSem2 (opsOf α) op u v).isSome = true)
    (ρ : String → α) (t : LTree) (ht : t.Over V) : ∃ v, evalTree t ρ = some v := by
  induction t with
  | name s => exact ⟨_, rfl⟩
  | int neg n => exact ⟨_, rfl⟩
  | un f c ih =>
    obtain ⟨hf, hc⟩ := over_un ht
    obtain ⟨u, hu⟩ := ih hc
    have := hun f hf u
    rw [Option.isSome_iff_exists] at this
    obtain ⟨v, hv⟩ := this
    exact ⟨v, by simp [hu, hv]⟩
  | bin op l r ihl ihr =>
    obtain ⟨hop, hl, hr⟩ := over_bin ht
    obtain ⟨u, hu⟩ := ihl hl
    obtain ⟨v, hv⟩ := ihr hr
    have := hbin op hop u v
    rw [Option.isSome_iff_exists] at this
    obtain ⟨w, hw⟩ := this
    exact ⟨w, by simp [hu, hv, hw]⟩

theorem genVocab_total_un : ∀ f ∈ genVocab.un, ∀ (u : α), (opSem1 (opsOf α) f u).isSome = true := by
  intro f hf u
  simp only [genVocab, List.mem_cons, List.not_mem_nil, or_false] at hf
  rcases hf with rfl | rfl | rfl | rfl | rfl | rfl | rfl | rfl | rfl | rfl <;> simp [opSem1]

theorem fitVocab_total_un : ∀ f ∈ fitVocab.un, ∀ (u : α), (opSem1 (opsOf α) f u).isSome = true := by
  intro f hf u
  simp only [fitVocab, List.mem_cons, List.not_mem_nil, or_false] at hf
  rcases hf with rfl | rfl | rfl | rfl | rfl | rfl | rfl | rfl <;> simp [opSem1]

theorem vocab_total_bin : ∀ op ∈ ["+", "-", "*", "/", "pow"], ∀ (u v : α),
    (opSem2 (opsOf α) op u v).isSome = true := by
  intro op hop u v
  simp only [List.mem_cons, List.not_mem_nil, or_false] at hop
  rcases hop with rfl | rfl | rfl | rfl | rfl <;> simp [opSem2]

/-! ### the fitting-stage spelling of a generation-stage tree -/

/-- `sqrt_abs ↦ sqrt`, `log_abs ↦ log` (the names under which the fitting table has the same functions) -/
def fitName (f : String) : String :=
  if f = "sqrt_abs" then "sqrt" else if f = "log_abs" then "log" else f

def renameFit : LTree → LTree
  | .name s => .name s
  | .int neg n => .int neg n
  | .un f c => .un (fitName f) (renameFit c)
  | .bin op l r => .bin op (renameFit l) (renameFit r)

omit [RealLike α] in
theorem opSem1_fitName (O : Ops α) (f : String) (u : α) : opSem1 O (fitName f) u = opSem1 O f u := by
  unfold fitName
  split
  · rename_i h; subst h; simp [opSem1]
  · split
    · rename_i h; subst h; simp [opSem1]
    · rfl

/-- renaming does not change the value (any tree, any valuation) -/
theorem evalTree_renameFit (ρ : String → α) (t : LTree) : evalTree (renameFit t) ρ = evalTree t ρ := by
  induction t with
  | name s => rfl
  | int neg n => rfl
  | un f c ih => simp only [renameFit, evalTree_un, ih, opSem1_fitName]
  | bin op l r ihl ihr => simp only [renameFit, evalTree_bin, ihl, ihr]

theorem renameFit_over (t : LTree) (ht : t.Over genFitVocab) : (renameFit t).Over fitVocab := by
  induction t with
  | name s =>
    have := over_name ht
    simp only [genFitVocab, Bool.and_eq_true] at this
    exact this.2
  | int neg n => rfl
  | un f c ih =>
    obtain ⟨hf, hc⟩ := over_un ht
    have hc' := ih hc
    simp only [genFitVocab, List.mem_cons, List.not_mem_nil, or_false] at hf
    simp only [LTree.Over, renameFit, LTree.over, Bool.and_eq_true]
    refine ⟨?_, hc'⟩
    rcases hf with rfl | rfl | rfl | rfl | rfl | rfl | rfl | rfl <;> decide
  | bin op l r ihl ihr =>
    obtain ⟨hop, hl, hr⟩ := over_bin ht
    simp only [LTree.Over, renameFit, LTree.over, Bool.and_eq_true]
    refine ⟨?_, ihl hl, ihr hr⟩
    simpa [genFitVocab, fitVocab] using hop

theorem genFit_sub_gen (t : LTree) (ht : t.Over genFitVocab) : t.Over genVocab := by
  induction t with
  | name s =>
    have := over_name ht
    simp only [genFitVocab, Bool.and_eq_true] at this
    exact this.1
  | int neg n => rfl
  | un f c ih =>
    obtain ⟨hf, hc⟩ := over_un ht
    simp only [LTree.Over, LTree.over, Bool.and_eq_true]
    refine ⟨?_, ih hc⟩
    simp only [genFitVocab, List.mem_cons, List.not_mem_nil, or_false] at hf
    rcases hf with rfl | rfl | rfl | rfl | rfl | rfl | rfl | rfl <;> decide
  | bin op l r ihl ihr =>
    obtain ⟨hop, hl, hr⟩ := over_bin ht
    simp only [LTree.Over, LTree.over, Bool.and_eq_true]
    refine ⟨?_, ihl hl, ihr hr⟩
    simpa [genFitVocab, genVocab] using hop

/-! ### strings: the tokens of `node_to_string` are lexically well formed -/

/-- every name in value position is an identifier (`x`, `a0`, …) -/
def LTree.lexical : LTree → Bool
  | .name s => isIdent s
  | .int _ _ => true
  | .un _ c => c.lexical
  | .bin _ l r => l.lexical && r.lexical

theorem toks_tokOK {V : Vocab} (hun : V.un.all isIdent = true)
    (hbin : ∀ op ∈ V.bin, isInfix op = none → isIdent op = true)
    (t : LTree) (ht : t.Over V) (hl : t.lexical = true) : (toks t).all tokOK = true := by
  induction t with
  | name s => simpa [toks, tokOK, LTree.lexical] using hl
  | int neg n => cases neg <;> simp [toks, tokOK]
  | un f c ih =>
    obtain ⟨hf, hc⟩ := over_un ht
    have hfi : isIdent f = true := (List.all_eq_true.mp hun) f hf
    have := ih hc (by simpa [LTree.lexical] using hl)
    simp [toks, tokOK, hfi, this]
  | bin op l r ihl ihr =>
    obtain ⟨hop, hl', hr'⟩ := over_bin ht
    simp only [LTree.lexical, Bool.and_eq_true] at hl
    have h1 := ihl hl' hl.1
    have h2 := ihr hr' hl.2
    simp only [toks]
    cases hi : isInfix op with
    | none =>
      have := hbin op hop hi
      simp [tokOK, this, h1, h2]
    | some b =>
      cases b <;> simp [tokOK, opTok, h1, h2]

/-! ### the strict (partial) evaluator: undefined where the oracle raises -/

section strict
open Classical

/-- as `opSem1`, but undefined at `inv 0`, `log_abs 0`, `log 0`, `log10_abs 0` -/
noncomputable def strict1 (f : String) (u : α) : Option α :=
  if (f = "inv" ∨ f = "log_abs" ∨ f = "log" ∨ f = "log10_abs") ∧ u = ofInt 0 then none
  else opSem1 (opsOf α) f u

/-- as `opSem2`, but undefined at `u / 0` and at `pow 0 v` with `v` negative -/
noncomputable def strict2 (op : String) (u v : α) : Option α :=
  if (op = "/" ∧ v = ofInt 0) ∨ ((op = "pow" ∨ op = "pow_abs") ∧ u = ofInt 0 ∧ ¬ nonneg v) then none
  else opSem2 (opsOf α) op u v

/-- value of the tree where every operation is applied inside its natural domain (`oracle_tree.evaluate` raises
`ZeroDivisionError`/`ValueError` exactly at the excluded points), `none` otherwise -/
noncomputable def evalTreeStrict : LTree → (String → α) → Option α
  | .name s, ρ => some (ρ s)
  | .int neg n, _ => some (ofInt (litInt neg n))
  | .un f c, ρ => (evalTreeStrict c ρ).bind fun u => strict1 f u
  | .bin op l r, ρ => (evalTreeStrict l ρ).bind fun u => (evalTreeStrict r ρ).bind fun v => strict2 op u v

theorem strict1_le {f : String} {u w : α} (h : strict1 f u = some w) : opSem1 (opsOf α) f u = some w := by
  unfold strict1 at h
  split at h
  · simp at h
  · exact h

theorem strict2_le {op : String} {u v w : α} (h : strict2 op u v = some w) : opSem2 (opsOf α) op u v = some w := by
  unfold strict2 at h
  split at h
  · simp at h
  · exact h

/-- the total semantics extends the strict one: wherever the tree's value is defined in the strict sense, `evalTree`
returns that value -/
theorem evalTreeStrict_le (ρ : String → α) (t : LTree) (w : α) (h : evalTreeStrict t ρ = some w) :
    evalTree t ρ = some w := by
  induction t generalizing w with
  | name s => exact h
  | int neg n => exact h
  | un f c ih =>
    simp only [evalTreeStrict, Option.bind_eq_some_iff] at h
    obtain ⟨u, hu, hw⟩ := h
    simp [ih u hu, strict1_le hw]
  | bin op l r ihl ihr =>
    simp only [evalTreeStrict, Option.bind_eq_some_iff] at h
    obtain ⟨u, hu, v, hv, hw⟩ := h
    simp [ihl u hu, ihr v hv, strict2_le hw]

end strict

end ESR.NodeString
