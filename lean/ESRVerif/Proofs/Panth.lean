import ESRVerif.Model.Panth
import Mathlib.Algebra.Order.Field.Basic
import Mathlib.Algebra.BigOperators.Group.Finset.Basic
import Mathlib.Algebra.BigOperators.Intervals
import Mathlib.Data.Rat.Floor
import Mathlib.Tactic.Linarith
import Mathlib.Tactic.Ring
import Mathlib.Tactic.NormNum
import Mathlib.Analysis.SpecialFunctions.Integrals.Basic
/-!
Helper lemmas for C19 over a linearly ordered field (`+ - * /`, `<`, `==` of the model are the field's).
-/
namespace ESR.Panth
open ESR.Gen

section order
variable {α : Type} [LinearOrder α]

theorem mem_insertU (x a : α) (l : List α) : a ∈ insertU x l ↔ a = x ∨ a ∈ l := by
  induction l with
  | nil => simp [insertU]
  | cons y ys ih =>
    unfold insertU
    split
    · simp
    · split
      · rename_i _ h
        have : x = y := by simpa using h
        subst this; simp
      · simp only [List.mem_cons, ih]
        constructor
        · rintro (h | h | h) <;> simp [h]
        · rintro (h | h | h) <;> simp [h]

theorem mem_sortUnique (a : α) (l : List α) : a ∈ sortUnique l ↔ a ∈ l := by
  induction l with
  | nil => simp [sortUnique]
  | cons y ys ih =>
    have : sortUnique (y :: ys) = insertU y (sortUnique ys) := rfl
    rw [this, mem_insertU, ih]; simp

theorem pairwise_insertU (x : α) (l : List α) (h : l.Pairwise (· < ·)) : (insertU x l).Pairwise (· < ·) := by
  induction l with
  | nil => simp [insertU]
  | cons y ys ih =>
    rw [List.pairwise_cons] at h
    unfold insertU
    split
    · rename_i hxy
      refine List.pairwise_cons.mpr ⟨?_, List.pairwise_cons.mpr h⟩
      intro a ha
      rcases List.mem_cons.mp ha with rfl | ha
      · exact hxy
      · exact lt_trans hxy (h.1 a ha)
    · split
      · exact List.pairwise_cons.mpr h
      · rename_i hxy hne
        have hne' : x ≠ y := by simpa using hne
        have hyx : y < x := lt_of_le_of_ne (not_lt.mp hxy) (Ne.symm hne')
        refine List.pairwise_cons.mpr ⟨?_, ih h.2⟩
        intro a ha
        rcases (mem_insertU x a ys).mp ha with rfl | ha
        · exact hyx
        · exact h.1 a ha

theorem pairwise_sortUnique (l : List α) : (sortUnique l).Pairwise (· < ·) := by
  induction l with
  | nil => simp [sortUnique]
  | cons y ys ih => exact pairwise_insertU y _ ih


/-- folding `min` from `a`: the result is `a` or an element, and is below both. -/
theorem foldl_min_spec (l : List α) (a : α) :
    (l.foldl (fun m x => if x < m then x else m) a = a ∨ l.foldl (fun m x => if x < m then x else m) a ∈ l) ∧
    l.foldl (fun m x => if x < m then x else m) a ≤ a ∧ ∀ x ∈ l, l.foldl (fun m x => if x < m then x else m) a ≤ x := by
  induction l generalizing a with
  | nil => simp
  | cons y ys ih =>
    simp only [List.foldl_cons]
    have hc : ((if y < a then y else a) = y ∨ (if y < a then y else a) = a) ∧ (if y < a then y else a) ≤ a ∧
        (if y < a then y else a) ≤ y := by
      by_cases h : y < a
      · simp [h, le_of_lt h]
      · simp [h, not_lt.mp h]
    generalize (if y < a then y else a) = c at hc
    obtain ⟨hc1, hc2, hc3⟩ := hc
    obtain ⟨h1, h2, h3⟩ := ih c
    refine ⟨?_, le_trans h2 hc2, ?_⟩
    · rcases h1 with h | h
      · rcases hc1 with e | e
        · right; rw [h, e]; simp
        · left; rw [h, e]
      · right; exact List.mem_cons_of_mem _ h
    · intro x hx
      rcases List.mem_cons.mp hx with rfl | hx
      · exact le_trans h2 hc3
      · exact h3 x hx

theorem foldl_max_spec (l : List α) (a : α) :
    (l.foldl (fun m x => if m < x then x else m) a = a ∨ l.foldl (fun m x => if m < x then x else m) a ∈ l) ∧
    a ≤ l.foldl (fun m x => if m < x then x else m) a ∧ ∀ x ∈ l, x ≤ l.foldl (fun m x => if m < x then x else m) a := by
  induction l generalizing a with
  | nil => simp
  | cons y ys ih =>
    simp only [List.foldl_cons]
    have hc : ((if a < y then y else a) = y ∨ (if a < y then y else a) = a) ∧ a ≤ (if a < y then y else a) ∧
        y ≤ (if a < y then y else a) := by
      by_cases h : a < y
      · simp [h, le_of_lt h]
      · simp [h, not_lt.mp h]
    generalize (if a < y then y else a) = c at hc
    obtain ⟨hc1, hc2, hc3⟩ := hc
    obtain ⟨h1, h2, h3⟩ := ih c
    refine ⟨?_, le_trans hc2 h2, ?_⟩
    · rcases h1 with h | h
      · rcases hc1 with e | e
        · right; rw [h, e]; simp
        · left; rw [h, e]
      · right; exact List.mem_cons_of_mem _ h
    · intro x hx
      rcases List.mem_cons.mp hx with rfl | hx
      · exact le_trans hc3 h2
      · exact h3 x hx

theorem minL_spec {l : List α} {lo : α} (h : minL l = some lo) : lo ∈ l ∧ ∀ x ∈ l, lo ≤ x := by
  cases l with
  | nil => simp [minL] at h
  | cons a t =>
    simp only [minL, Option.some.injEq] at h
    obtain ⟨h1, h2, h3⟩ := foldl_min_spec t a
    rw [h] at h1 h2 h3
    refine ⟨?_, ?_⟩
    · rcases h1 with h1 | h1
      · rw [h1]; simp
      · exact List.mem_cons_of_mem _ h1
    · intro x hx
      rcases List.mem_cons.mp hx with rfl | hx
      · exact h2
      · exact h3 x hx

theorem maxL_spec {l : List α} {hi : α} (h : maxL l = some hi) : hi ∈ l ∧ ∀ x ∈ l, x ≤ hi := by
  cases l with
  | nil => simp [maxL] at h
  | cons a t =>
    simp only [maxL, Option.some.injEq] at h
    obtain ⟨h1, h2, h3⟩ := foldl_max_spec t a
    rw [h] at h1 h2 h3
    refine ⟨?_, ?_⟩
    · rcases h1 with h1 | h1
      · rw [h1]; simp
      · exact List.mem_cons_of_mem _ h1
    · intro x hx
      rcases List.mem_cons.mp hx with rfl | hx
      · exact h2
      · exact h3 x hx

theorem minL_isSome {l : List α} (h : l ≠ []) : ∃ lo, minL l = some lo := by
  cases l with
  | nil => exact absurd rfl h
  | cons a t => exact ⟨_, rfl⟩

theorem maxL_isSome {l : List α} (h : l ≠ []) : ∃ hi, maxL l = some hi := by
  cases l with
  | nil => exact absurd rfl h
  | cons a t => exact ⟨_, rfl⟩

/-- The head of a strictly increasing list is its least element. -/
theorem head_of_pairwise_lt {g : List α} {s : α} (hs : g.Pairwise (· < ·)) (hmem : s ∈ g) (hle : ∀ x ∈ g, s ≤ x) :
    g.head? = some s := by
  cases g with
  | nil => simp at hmem
  | cons a t =>
    simp only [List.head?_cons, Option.some.injEq]
    rcases List.mem_cons.mp hmem with rfl | h
    · rfl
    · have h1 : a < s := (List.pairwise_cons.mp hs).1 s h
      have h2 : s ≤ a := hle a (by simp)
      exact absurd h1 (not_lt.mpr h2)

/-! ### the mask -/

theorem whereEqFrom_not_mem (d : α) (k : Nat) (g : List α) (h : d ∉ g) : whereEqFrom d k g = [] := by
  induction g generalizing k with
  | nil => rfl
  | cons y ys ih =>
    have hy : ¬ (y = d) := fun e => h (by simp [e])
    have hys : d ∉ ys := fun e => h (List.mem_cons_of_mem _ e)
    simp [whereEqFrom, hy, ih _ hys]

theorem whereEqFrom_mem (d : α) (k : Nat) (g : List α) (hnd : g.Pairwise (· < ·)) (h : d ∈ g) :
    ∃ j, whereEqFrom d k g = [k + j] ∧ g[j]? = some d := by
  induction g generalizing k with
  | nil => simp at h
  | cons y ys ih =>
    obtain ⟨hy, hys⟩ := List.pairwise_cons.mp hnd
    by_cases e : y = d
    · subst e
      have : y ∉ ys := fun hm => lt_irrefl _ (hy y hm)
      exact ⟨0, by simp [whereEqFrom, whereEqFrom_not_mem _ _ _ this], by simp⟩
    · have hd : d ∈ ys := by
        rcases List.mem_cons.mp h with h | h
        · exact absurd h.symm e
        · exact h
      obtain ⟨j, h1, h2⟩ := ih (k + 1) hys hd
      refine ⟨j + 1, ?_, by simpa using h2⟩
      simp only [whereEqFrom, beq_iff_eq, e, if_false, h1]
      congr 1; omega

theorem whereEq_spec (d : α) (g : List α) (hnd : g.Pairwise (· < ·)) (h : d ∈ g) :
    ∃ j, whereEq g d = [j] ∧ g[j]? = some d := by
  obtain ⟨j, h1, h2⟩ := whereEqFrom_mem d 0 g hnd h
  exact ⟨j, by simpa [whereEq] using h1, h2⟩

/-- On a strictly increasing grid containing the data, the mask is a vector with one correct index per data point. -/
theorem mask_spec (g zp1 : List α) (hnd : g.Pairwise (· < ·)) (h : ∀ z ∈ zp1, z ∈ g) :
    ∃ m, mask g zp1 = some m ∧ m.length = zp1.length ∧
      ∀ i (hi : i < zp1.length), ∃ k, m[i]? = some k ∧ g[k]? = some zp1[i] := by
  induction zp1 with
  | nil => exact ⟨[], by simp [mask], rfl, fun i hi => absurd hi (by simp)⟩
  | cons z zs ih =>
    obtain ⟨m, hm, hlen, hidx⟩ := ih (fun z hz => h z (List.mem_cons_of_mem _ hz))
    obtain ⟨j, hj1, hj2⟩ := whereEq_spec z g hnd (h z (by simp))
    refine ⟨j :: m, ?_, by simp [hlen], ?_⟩
    · unfold mask at hm ⊢
      simp only [List.mapM_cons, hj1, hm]
      rfl
    · intro i hi
      cases i with
      | zero => exact ⟨j, by simp, by simpa using hj2⟩
      | succ i =>
        obtain ⟨k, hk1, hk2⟩ := hidx i (by simpa using hi)
        exact ⟨k, by simpa using hk1, by simpa using hk2⟩

end order

set_option linter.unusedSectionVars false

section field
variable {α : Type} [Field α] [LinearOrder α] [IsStrictOrderedRing α]

/-! ### linspace -/

theorem linspace_ge (start stop : α) (n : Nat) (h : start ≤ stop) : ∀ x ∈ linspace start stop n, start ≤ x := by
  intro x hx
  match n with
  | 0 => simp [linspace] at hx
  | 1 =>
    simp only [linspace, Nat.cast_zero, zero_mul, zero_add, List.mem_singleton] at hx
    rw [hx]
  | n + 2 =>
    simp only [linspace, List.mem_append, List.mem_map, List.mem_range, List.mem_singleton] at hx
    rcases hx with ⟨i, _, rfl⟩ | rfl
    · have h1 : (0 : α) ≤ (stop - start) / ((n + 1 : Nat) : α) :=
        div_nonneg (sub_nonneg.mpr h) (Nat.cast_nonneg _)
      have h2 : (0 : α) ≤ ((i : Nat) : α) * ((stop - start) / ((n + 1 : Nat) : α)) :=
        mul_nonneg (Nat.cast_nonneg _) h1
      exact le_add_of_nonneg_left h2
    · exact h

theorem start_mem_linspace (start stop : α) (n : Nat) (h : 1 ≤ n) : start ∈ linspace start stop n := by
  match n with
  | 0 => omega
  | 1 => simp [linspace]
  | n + 2 =>
    simp only [linspace, List.mem_append, List.mem_map, List.mem_range, List.mem_singleton]
    left
    exact ⟨0, by omega, by simp⟩

/-! ### cumulative sums -/

theorem cumsumFrom_getElem (ts : List α) (acc : α) (k : Nat) (hk : k < ts.length) :
    (cumsumFrom acc ts)[k]? = some (acc + ∑ j ∈ Finset.range (k + 1), ts.getD j 0) := by
  induction ts generalizing acc k with
  | nil => simp at hk
  | cons t ts ih =>
    cases k with
    | zero => simp [cumsumFrom]
    | succ k =>
      have hk' : k < ts.length := by simpa using hk
      simp only [cumsumFrom, List.getElem?_cons_succ]
      rw [ih (acc + t) k hk', Finset.sum_range_succ' _ (k + 1)]
      simp only [List.getD_cons_succ, List.getD_cons_zero]
      congr 1
      rw [add_assoc, add_comm t]

theorem cumsum_getElem (ts : List α) (k : Nat) (hk : k < ts.length) :
    (cumsum ts)[k]? = some (∑ j ∈ Finset.range (k + 1), ts.getD j 0) := by
  cases ts with
  | nil => simp at hk
  | cons t ts =>
    cases k with
    | zero => simp [cumsum]
    | succ k =>
      have hk' : k < ts.length := by simpa using hk
      simp only [cumsum, List.getElem?_cons_succ]
      rw [cumsumFrom_getElem ts t k hk', Finset.sum_range_succ' _ (k + 1)]
      simp only [List.getD_cons_succ, List.getD_cons_zero]
      rw [add_comm]

theorem diffs_length (xs : List α) : (diffs xs).length = xs.length - 1 := by
  induction xs with
  | nil => rfl
  | cons a t ih =>
    cases t with
    | nil => rfl
    | cons b t => simp only [diffs, List.length_cons, ih]; simp

theorem pairSums_length (xs : List α) : (pairSums xs).length = xs.length - 1 := by
  induction xs with
  | nil => rfl
  | cons a t ih =>
    cases t with
    | nil => rfl
    | cons b t => simp only [pairSums, List.length_cons, ih]; simp

theorem diffs_getD (xs : List α) (j : Nat) (hj : j + 1 < xs.length) :
    (diffs xs).getD j 0 = xs.getD (j + 1) 0 - xs.getD j 0 := by
  induction xs generalizing j with
  | nil => simp at hj
  | cons a t ih =>
    cases t with
    | nil => simp at hj
    | cons b t =>
      cases j with
      | zero => simp [diffs]
      | succ j =>
        have := ih j (by simpa using hj)
        simpa [diffs] using this

theorem pairSums_getD (xs : List α) (j : Nat) (hj : j + 1 < xs.length) :
    (pairSums xs).getD j 0 = xs.getD (j + 1) 0 + xs.getD j 0 := by
  induction xs generalizing j with
  | nil => simp at hj
  | cons a t ih =>
    cases t with
    | nil => simp at hj
    | cons b t =>
      cases j with
      | zero => simp [pairSums]
      | succ j =>
        have := ih j (by simpa using hj)
        simpa [pairSums] using this

/-- One trapezoid: `(x_{j+1} - x_j) * (y_{j+1} + y_j) / 2`. -/
def trapTerm (xs ys : List α) (j : Nat) : α :=
  (xs.getD (j + 1) 0 - xs.getD j 0) * (ys.getD (j + 1) 0 + ys.getD j 0) / 2

theorem trapTerms_length (xs ys : List α) (h : xs.length = ys.length) : (trapTerms xs ys).length = xs.length - 1 := by
  simp [trapTerms, diffs_length, pairSums_length, h]

theorem trapTerms_getD (xs ys : List α) (h : xs.length = ys.length) (j : Nat) (hj : j + 1 < xs.length) :
    (trapTerms xs ys).getD j 0 = trapTerm xs ys j := by
  have h1 : j < (diffs xs).length := by rw [diffs_length]; omega
  have h2 : j < (pairSums ys).length := by rw [pairSums_length]; omega
  have hd := diffs_getD xs j hj
  have hp := pairSums_getD ys j (by omega)
  rw [List.getD_eq_getElem?_getD, List.getElem?_eq_getElem h1, Option.getD_some] at hd
  rw [List.getD_eq_getElem?_getD, List.getElem?_eq_getElem h2, Option.getD_some] at hp
  rw [List.getD_eq_getElem?_getD]
  simp only [trapTerms, List.getElem?_zipWith, List.getElem?_eq_getElem h1, List.getElem?_eq_getElem h2,
    Option.getD_some, hd, hp, trapTerm, Nat.cast_ofNat]

/-- `cumulative_trapezoid(ys, x=xs, initial=0)[k]` is the sum of the first `k` trapezoids. -/
theorem cumtrapz_getElem (xs ys : List α) (h : xs.length = ys.length) (k : Nat) (hk : k < xs.length) :
    (cumtrapz xs ys)[k]? = some (∑ j ∈ Finset.range k, trapTerm xs ys j) := by
  have hc : cumtrapz xs ys = ((0 : Nat) : α) :: cumsum (trapTerms xs ys) := by
    simp [cumtrapz, Gen.Panth.cumInitialZero]
  rw [hc]
  cases k with
  | zero => simp
  | succ k =>
    have hl : k < (trapTerms xs ys).length := by rw [trapTerms_length xs ys h]; omega
    rw [List.getElem?_cons_succ, cumsum_getElem _ k hl]
    congr 1
    apply Finset.sum_congr rfl
    intro j hj
    exact trapTerms_getD xs ys h j (by have := Finset.mem_range.mp hj; omega)

/-! ### selection, grid structure -/

theorem select_spec (v : List α) (m : List Nat) (h : ∀ k ∈ m, k < v.length) :
    ∃ sel, select v m = some sel ∧ sel.length = m.length ∧ ∀ (i k : Nat), m[i]? = some k → sel[i]? = v[k]? := by
  induction m with
  | nil => exact ⟨[], by simp [select], rfl, fun i k hk => by simp at hk⟩
  | cons a t ih =>
    obtain ⟨sel, h1, h2, h3⟩ := ih (fun k hk => h k (List.mem_cons_of_mem _ hk))
    have ha : a < v.length := h a (by simp)
    refine ⟨v[a] :: sel, ?_, by simp [h2], ?_⟩
    · unfold select at h1 ⊢
      simp only [List.mapM_cons, List.getElem?_eq_getElem ha, h1]
      rfl
    · intro i k hk
      cases i with
      | zero =>
        simp only [List.getElem?_cons_zero, Option.some.injEq] at hk
        subst hk
        simp [List.getElem?_eq_getElem ha]
      | succ i => simpa using h3 i k (by simpa using hk)

theorem rawGrid_spec {c : Cfg α} {zp1 r : List α} (h : rawGrid c zp1 = some r) :
    ∃ lo hi nx, minL zp1 = some lo ∧ maxL zp1 = some hi ∧
      r = linspace c.start lo c.minNz ++ linspace (lo + c.deltaZ) (hi + c.deltaZ) nx ++ zp1 := by
  unfold rawGrid at h
  split at h
  · rename_i lo hi hlo hhi
    split at h
    · rename_i nx _
      exact ⟨lo, hi, nx, hlo, hhi, by simpa using h.symm⟩
    · simp at h
  · simp at h

theorem grid_spec {c : Cfg α} {zp1 g : List α} (h : grid c zp1 = some g) :
    ∃ r, rawGrid c zp1 = some r ∧ g = sortUnique r := by
  unfold grid at h
  cases hr : rawGrid c zp1 with
  | none => simp [hr] at h
  | some r => exact ⟨r, rfl, by simpa [hr] using h.symm⟩

end field

/-- The shipped configuration over ℚ with `int(ceil ·)` of ℚ and `sqrt`, `log10` replaced by the identity
(used by the non-vacuity examples of C19). -/
def cQ : Cfg ℚ := Cfg.shipped (fun x => some ⌈x⌉.toNat) id id

/-! ### ℝ: the trapezoid rule against the integral, for a piecewise-affine integrand -/

theorem integral_affine (a b p q : ℝ) : ∫ x in p..q, (a * x + b) = 1 / 2 * ((a * p + b) + (a * q + b)) * (q - p) := by
  have h1 : IntervalIntegrable (fun x : ℝ => a * x) MeasureTheory.volume p q :=
    (continuous_const.mul continuous_id).intervalIntegrable _ _
  have h2 : IntervalIntegrable (fun _ : ℝ => b) MeasureTheory.volume p q := continuous_const.intervalIntegrable _ _
  rw [intervalIntegral.integral_add h1 h2, intervalIntegral.integral_const_mul, integral_id,
    intervalIntegral.integral_const, smul_eq_mul]
  ring

/-- If `G` is affine on each of the first `n` intervals of the nodes `x`, the composite trapezoid sum IS the integral. -/
theorem sum_trap_eq_integral (G : ℝ → ℝ) (x : ℕ → ℝ) (n : ℕ)
    (hG : ∀ k < n, ∃ a b, ∀ t ∈ Set.uIcc (x k) (x (k + 1)), G t = a * t + b) :
    ∑ k ∈ Finset.range n, 1 / 2 * (G (x k) + G (x (k + 1))) * (x (k + 1) - x k) = ∫ t in x 0..x n, G t := by
  have hint : ∀ k < n, IntervalIntegrable G MeasureTheory.volume (x k) (x (k + 1)) := by
    intro k hk
    obtain ⟨a, b, hab⟩ := hG k hk
    have hc : IntervalIntegrable (fun t : ℝ => a * t + b) MeasureTheory.volume (x k) (x (k + 1)) :=
      ((continuous_const.mul continuous_id).add continuous_const).intervalIntegrable _ _
    refine hc.congr ?_
    intro t ht
    exact (hab t (Set.uIoc_subset_uIcc ht)).symm
  rw [← intervalIntegral.sum_integral_adjacent_intervals hint]
  apply Finset.sum_congr rfl
  intro k hk
  obtain ⟨a, b, hab⟩ := hG k (Finset.mem_range.mp hk)
  rw [intervalIntegral.integral_congr (g := fun t => a * t + b) (fun t ht => hab t ht), integral_affine,
    hab _ Set.left_mem_uIcc, hab _ Set.right_mem_uIcc]

end ESR.Panth
