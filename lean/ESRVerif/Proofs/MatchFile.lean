import ESRVerif.Model.Match
import ESRVerif.Model.Partition
/-!
Helper lemmas for `Props/C05c.lean`: the matching stage as a map over rows (`matchFile`) and the loop that threads the tables
(`matchLoop`).  Core Lean only.
-/
namespace ESR.Match
variable {α τ φ : Type} [Num α]

/-- a row reads ONE row of the tables -/
theorem rowIn_congr (C : Calc α τ φ) (mp : Nat) (U U' : List (URow α)) (f : FnIn τ φ)
    (h : U[f.index]? = U'[f.index]?) : rowIn C mp U f = rowIn C mp U' f := by
  unfold rowIn; rw [h]

theorem matchOne_congr (C : Calc α τ φ) (mp : Nat) (U U' : List (URow α)) (f : FnIn τ φ)
    (h : U[f.index]? = U'[f.index]?) : matchOne C mp U f = matchOne C mp U' f := by
  unfold matchOne; rw [rowIn_congr C mp U U' f h]

/-- with fresh snap targets the tables are never written: the loop is the map -/
theorem matchLoop_fresh (spill : List (URow α) → FnIn τ φ → Option (RowOut α) → List (URow α))
    (C : Calc α τ φ) (mp : Nat) (U : List (URow α)) (fs : List (FnIn τ φ)) :
    matchLoop true spill C mp U fs = matchFile C mp U fs := by
  induction fs generalizing U with
  | nil => rfl
  | cons f fs ih =>
    simp only [matchLoop, matchFile, List.map_cons, if_true]
    rw [ih U]; rfl

theorem matchFile_append (C : Calc α τ φ) (mp : Nat) (U : List (URow α)) (fs gs : List (FnIn τ φ)) :
    matchFile C mp U (fs ++ gs) = matchFile C mp U fs ++ matchFile C mp U gs := by
  simp [matchFile]

theorem matchFile_getElem? (C : Calc α τ φ) (mp : Nat) (U : List (URow α)) (fs : List (FnIn τ φ)) (i : Nat) :
    (matchFile C mp U fs)[i]? = fs[i]?.map (matchOne C mp U) := by
  simp [matchFile]

theorem matchFile_eraseIdx (C : Calc α τ φ) (mp : Nat) (U : List (URow α)) (fs : List (FnIn τ φ)) (j : Nat) :
    matchFile C mp U (fs.eraseIdx j) = (matchFile C mp U fs).eraseIdx j := by
  unfold matchFile
  induction fs generalizing j with
  | nil => simp
  | cons f fs ih =>
    cases j with
    | zero => simp
    | succ j => simp [List.eraseIdx_cons_succ, ih]

end ESR.Match
