import ESRVerif.Model.Aifeyn
/-!
Helper lemmas for `Props/C08.lean` (core Lean only).

The central one is `aifeyn_eq_codeLen`: evaluating the expression *generated from the source of
`aifeyn_complexity`* gives `k·ln n + Σ ln c_j` for the triple `codeLenOf` reads directly off the labels.
It is the only place where `ESR.Gen.Aifeyn.opFilter / intFilter / fixups / ret` are unfolded; if the source
formula changes, this lemma (and with it every C08 theorem) stops checking.
-/
namespace ESR.Aifeyn

/-! ### `distinct` = `len(set(·))` -/

theorem mem_distinct {x : String} : ∀ {l : List String}, x ∈ distinct l ↔ x ∈ l
  | [] => by simp [distinct]
  | y :: ys => by
    unfold distinct
    split
    · rename_i h
      rw [mem_distinct (l := ys)]
      constructor
      · intro hx; exact List.mem_cons_of_mem _ hx
      · intro hx
        cases hx with
        | head => exact h
        | tail _ hx => exact hx
    · rw [List.mem_cons, List.mem_cons, mem_distinct (l := ys)]

theorem nodup_distinct : ∀ l : List String, (distinct l).Nodup
  | [] => by simp [distinct]
  | y :: ys => by
    unfold distinct
    split
    · exact nodup_distinct ys
    · rename_i h
      rw [List.nodup_cons]
      exact ⟨fun hm => h (mem_distinct.mp hm), nodup_distinct ys⟩

/-- `len(set(l))` is the size of any duplicate-free enumeration of the members of `l`. -/
theorem length_distinct_eq (l syms : List String) (hnd : syms.Nodup) (h : ∀ x, x ∈ syms ↔ x ∈ l) :
    (distinct l).length = syms.length := by
  apply List.Perm.length_eq
  rw [List.perm_ext_iff_of_nodup (nodup_distinct l) hnd]
  intro a
  rw [mem_distinct, h]

/-! ### filters -/

theorem filter_length_ne_iff_any (p : String → Bool) (l : List String) :
    ((l.filter p).length ≠ l.length) ↔ l.any (fun x => !p x) = true := by
  rw [Ne, List.length_filter_eq_length_iff, List.any_eq_true]
  constructor
  · intro h
    apply Classical.byContradiction
    intro hn
    apply h
    intro a ha
    cases hpa : p a with
    | true => rfl
    | false => exact absurd ⟨a, ha, by simp [hpa]⟩ hn
  · intro ⟨a, ha, hpa⟩ hall
    have := hall a ha
    simp [this] at hpa

theorem neInd_eq (p : String → Bool) (l : List String) :
    ((l.filter p).length != l.length) = l.any (fun x => !p x) := by
  by_cases h : (l.filter p).length = l.length
  · have h1 : ((l.filter p).length != l.length) = false := by simp [h]
    have h2 : l.any (fun x => !p x) = false := by
      cases hb : l.any (fun x => !p x) with
      | false => rfl
      | true => exact absurd h ((filter_length_ne_iff_any p l).mpr hb)
    rw [h1, h2]
  · have h1 : ((l.filter p).length != l.length) = true := by simp [h]
    rw [h1, (filter_length_ne_iff_any p l).mp h]

theorem notOp_eq (params : List String) :
    (fun x => !(!params.contains x && !isIntLabel x)) = (fun l => params.contains l || isIntLabel l) := by
  funext x; cases params.contains x <;> cases isIntLabel x <;> rfl

/-- a filter is unchanged by a renaming that preserves the predicate and fixes what passes -/
theorem filter_map_fix (p : String → Bool) (σ : String → String) :
    ∀ (l : List String), (∀ x ∈ l, p (σ x) = p x) → (∀ x ∈ l, p x = true → σ x = x) →
      (l.map σ).filter p = l.filter p
  | [], _, _ => rfl
  | y :: ys, h1, h2 => by
    have ih := filter_map_fix p σ ys (fun x hx => h1 x (List.mem_cons_of_mem _ hx))
      (fun x hx => h2 x (List.mem_cons_of_mem _ hx))
    have hy := h1 y List.mem_cons_self
    rw [List.map_cons, List.filter_cons, List.filter_cons, hy, ih]
    cases hp : p y with
    | true => simp [h2 y List.mem_cons_self hp]
    | false => simp

theorem any_map_congr (r : String → Bool) (σ : String → String) :
    ∀ (l : List String), (∀ x ∈ l, r (σ x) = r x) → (l.map σ).any r = l.any r
  | [], _ => rfl
  | y :: ys, h => by
    rw [List.map_cons, List.any_cons, List.any_cons, h y List.mem_cons_self,
      any_map_congr r σ ys (fun x hx => h x (List.mem_cons_of_mem _ hx))]

theorem filter_congr_mem (p q : String → Bool) (l : List String) (h : ∀ x ∈ l, p x = q x) :
    l.filter p = l.filter q := List.filter_congr h

theorem any_congr_mem (p q : String → Bool) : ∀ (l : List String), (∀ x ∈ l, p x = q x) → l.any p = l.any q
  | [], _ => rfl
  | y :: ys, h => by
    rw [List.any_cons, List.any_cons, h y List.mem_cons_self,
      any_congr_mem p q ys (fun x hx => h x (List.mem_cons_of_mem _ hx))]

/-! ### `mapM` in `Option` -/

theorem mapM_option_of_map {β γ} (f : β → Option γ) : ∀ (l : List β) (cs : List γ),
    l.map f = cs.map some → l.mapM f = some cs
  | [], [], _ => rfl
  | [], _ :: _, h => by simp at h
  | _ :: _, [], h => by simp at h
  | x :: xs, c :: cs, h => by
    simp only [List.map_cons, List.cons.injEq] at h
    have ih := mapM_option_of_map f xs cs h.2
    simp [List.mapM_cons, h.1, ih]

/-! ### the generated formula -/

theorem evalPred_intFilter (params : List String) (s : String) :
    evalPred params Gen.Aifeyn.intFilter s = isIntLabel s := by
  simp only [Gen.Aifeyn.intFilter, evalPred, isIntLabel]
  try (generalize params.contains s = a; generalize stripIsDigit "-" s = b; cases a <;> cases b <;> rfl)

/-- robust against reordering / double negation of the conjuncts in the source: Boolean case analysis -/
theorem evalPred_opFilter (params : List String) (s : String) :
    evalPred params Gen.Aifeyn.opFilter s = (!params.contains s && !isIntLabel s) := by
  simp only [Gen.Aifeyn.opFilter, evalPred, isIntLabel]
  try (generalize params.contains s = a; generalize stripIsDigit "-" s = b; cases a <;> cases b <;> rfl)

theorem fixups_abs (v : Int) : ((applyFixups Gen.Aifeyn.fixups v).natAbs : Int) = ((absOne v : Nat) : Int) := by
  simp only [Gen.Aifeyn.fixups, applyFixups, List.foldl_cons, List.foldl_nil, absOne]
  split <;> simp

/-- The source's return expression evaluates to `k·ln n + Σ ln c_j` of the directly-read triple. -/
theorem aifeyn_eq_codeLen {α} (o : LnOps α) (tree params : List String) :
    aifeyn o tree params =
      match codeLenOf tree params with
      | some c => .ok (c.eval o)
      | none => .error .valueError := by
  unfold aifeyn mkEnv codeLenOf
  have hf : tree.filter (evalPred params Gen.Aifeyn.intFilter) = tree.filter isIntLabel :=
    List.filter_congr (fun x _ => evalPred_intFilter params x)
  have hg : tree.filter (evalPred params Gen.Aifeyn.opFilter)
      = tree.filter (fun l => !params.contains l && !isIntLabel l) :=
    List.filter_congr (fun x _ => evalPred_opFilter params x)
  rw [hf, hg]
  cases hm : (tree.filter isIntLabel).mapM pyInt with
  | none => rfl
  | some ints =>
    simp only [Except.map, Option.map, Gen.Aifeyn.ret, evalR, evalN, evalRA, evalI, Env.lvar, CodeLen.eval]
    rw [neInd_eq, notOp_eq]
    congr 3
    simp only [List.map_map]
    apply List.map_congr_left
    intro v _
    simp only [Function.comp]
    rw [fixups_abs]

/-- Only membership of the tree's own labels in `param_list` matters. -/
theorem codeLenOf_congr_params (tree p1 p2 : List String) (h : ∀ l ∈ tree, (l ∈ p1 ↔ l ∈ p2)) :
    codeLenOf tree p1 = codeLenOf tree p2 := by
  have hc : ∀ l ∈ tree, p1.contains l = p2.contains l := by
    intro l hl
    have := h l hl
    cases h1 : p1.contains l <;> cases h2 : p2.contains l <;> simp_all
  unfold codeLenOf
  have e1 : tree.filter (fun l => !p1.contains l && !isIntLabel l) = tree.filter (fun l => !p2.contains l && !isIntLabel l) :=
    List.filter_congr (fun x hx => by rw [hc x hx])
  have e2 : tree.any (fun l => p1.contains l || isIntLabel l) = tree.any (fun l => p2.contains l || isIntLabel l) :=
    any_congr_mem _ _ tree (fun x hx => by rw [hc x hx])
  rw [e1, e2]

/-! ### substring test and the `get_max_param` search -/

theorem hasSubL_self (l : List Char) : hasSubL l l = true := by
  have h : l.isPrefixOf l = true := List.isPrefixOf_iff_prefix.mpr (List.prefix_refl l)
  cases l with
  | nil => simp [hasSubL]
  | cons c cs => simp [hasSubL, h]

theorem pyIn_self (s : String) : pyIn s s = true := hasSubL_self _

theorem firstMissing_spec (has : Nat → Bool) : ∀ (fuel j m : Nat), firstMissing has fuel j = some m →
    j ≤ m ∧ has m = false
  | 0, _, _, h => by simp [firstMissing] at h
  | fuel + 1, j, m, h => by
    unfold firstMissing at h
    split at h
    · have := firstMissing_spec has fuel (j + 1) m h
      exact ⟨by omega, this.2⟩
    · rename_i hj
      cases h
      exact ⟨Nat.le_refl _, by simpa using hj⟩

theorem mem_paramList (l : String) (m : Nat) : l ∈ paramList m ↔ ∃ j, j < m ∧ pname j = l := by
  simp [paramList, List.mem_map, List.mem_range]

end ESR.Aifeyn
