import ESRVerif.Proofs.PrinterSem
/-!
C12 helper: the string ↔ token bridge.  Core Lean only.

`tokenize_render`: a token list is recovered exactly by the tokenizer from its rendered string when
* every token is lexically well formed (`tokOK`): a name is an identifier (`isIdent`), the text of a Float token has
  the shape `d+ . d* [(e|E) [+-] d+]` (`fltShape`), there is no error token;
* no two adjacent tokens fuse when their texts are concatenated (`noFuse`): no two adjacent alphanumeric tokens
  (name/int/float followed by name/int/float), no `*` directly before `*` or `**`.
(The condition is sufficient; it is not necessary — e.g. the int `2` followed by the name `x` is split correctly by
the tokenizer — but every pair it excludes beyond the fusing ones is rejected by the grammar anyway.)

`phrase_sepOK`: the tokens of every phrase of the Python grammar satisfy `noFuse` (an operator or bracket separates
any two operands); `noFuse_of_dropSp`: blanks only separate.  So `noFuse (pr e)` follows from `print_is_phrase`.
`allOK_pr_of_size`: every token of `pr e` is well formed when `e` is canonical and `lexical` (symbol names are
identifiers, Float texts are Float literals).  Together: `tokenize (print e) = some (pr e)`.
-/
namespace ESR.Printer

/-! ### characters and `List.span` -/

theorem isDigit_false_of_idStart {c : Char} (h : isIdStart c = true) : c.isDigit = false := by
  simp only [isIdStart, Char.isAlpha, Char.isUpper, Char.isLower, Bool.or_eq_true, Bool.and_eq_true, decide_eq_true_eq, beq_iff_eq] at h
  cases hd : c.isDigit with
  | false => rfl
  | true =>
    rw [Char.isDigit_iff_toNat] at hd
    exfalso
    rcases h with (h | h) | h
    · have h1 := UInt32.le_iff_toNat_le.mp h.1
      simp only [Char.toNat_val, Char.reduceToNat] at h1 hd
      omega
    · have h1 := UInt32.le_iff_toNat_le.mp h.1
      simp only [Char.toNat_val, Char.reduceToNat] at h1 hd
      omega
    · subst h; simp at hd

theorem span_loop_eq (p : Char → Bool) : ∀ (l acc : List Char),
    List.span.loop p l acc = (acc.reverse ++ l.takeWhile p, l.dropWhile p) := by
  intro l
  induction l with
  | nil => intro acc; simp [List.span.loop]
  | cons x xs ih =>
    intro acc
    cases h : p x <;> simp [List.span.loop, h, ih]

theorem span_eq (p : Char → Bool) (l : List Char) : l.span p = (l.takeWhile p, l.dropWhile p) := by
  simp [List.span, span_loop_eq]

/-- the next character (if any) fails `p` -/
def stops (p : Char → Bool) : List Char → Prop
  | [] => True
  | c :: _ => p c = false

theorem span_append_stop (p : Char → Bool) (a b : List Char) (ha : ∀ c ∈ a, p c = true) (hb : stops p b) :
    (a ++ b).span p = (a, b) := by
  rw [span_eq, List.takeWhile_append_of_pos ha, List.dropWhile_append_of_pos ha]
  cases b with
  | nil => simp
  | cons c cs => simp [stops] at hb; simp [hb]

/-! ### `lexNumber` on digit strings and Float texts -/

def stopsNum : List Char → Prop
  | [] => True
  | c :: _ => c.isDigit = false ∧ c ≠ '.' ∧ c ≠ 'e' ∧ c ≠ 'E'

theorem stops_of_stopsNum {cs} (h : stopsNum cs) : stops Char.isDigit cs := by
  cases cs with
  | nil => trivial
  | cons c cs => exact h.1

theorem lexNumber_int (ds cs : List Char) (hd : ∀ c ∈ ds, c.isDigit = true) (hs : stopsNum cs) :
    lexNumber (ds ++ cs) = (Tok.int (digitsToNat ds), cs) := by
  unfold lexNumber
  rw [span_append_stop _ ds cs hd (stops_of_stopsNum hs)]
  cases cs with
  | nil => simp
  | cons c cs' =>
    obtain ⟨h1, h2, h3, h4⟩ := hs
    simp [h2, h3, h4]

def allDigits (cs : List Char) : Bool := !cs.isEmpty && cs.all Char.isDigit

/-- `[(e|E) [+-] d+]` -/
def expShape : List Char → Bool
  | [] => true
  | e :: r => (e == 'e' || e == 'E') &&
      (match r with
       | '+' :: r' => allDigits r'
       | '-' :: r' => allDigits r'
       | _ => allDigits r)

/-- `d+ . d* [(e|E) [+-] d+]` -/
def fltShape (cs : List Char) : Bool :=
  let ip := cs.span Char.isDigit
  !ip.1.isEmpty && (match ip.2 with
    | '.' :: r => expShape (r.span Char.isDigit).2
    | _ => false)

theorem takeWhile_all (p : Char → Bool) (l : List Char) : ∀ c ∈ l.takeWhile p, p c = true := by
  induction l with
  | nil => simp
  | cons x xs ih =>
    intro c hc
    rw [List.takeWhile_cons] at hc
    split at hc
    · rcases List.mem_cons.mp hc with rfl | hc
      · assumption
      · exact ih c hc
    · simp at hc

theorem fltShape_parts {cs : List Char} (h : fltShape cs = true) :
    ∃ ip fp ex, cs = ip ++ '.' :: (fp ++ ex) ∧ ip ≠ [] ∧ (∀ c ∈ ip, c.isDigit = true) ∧ (∀ c ∈ fp, c.isDigit = true) ∧
      expShape ex = true := by
  simp only [fltShape, span_eq, Bool.and_eq_true, Bool.not_eq_true', List.isEmpty_eq_false_iff] at h
  obtain ⟨h1, h2⟩ := h
  split at h2
  · rename_i r hr
    refine ⟨cs.takeWhile Char.isDigit, r.takeWhile Char.isDigit, r.dropWhile Char.isDigit, ?_, h1, takeWhile_all _ _,
      takeWhile_all _ _, h2⟩
    rw [List.takeWhile_append_dropWhile, ← hr, List.takeWhile_append_dropWhile]
  · simp at h2

theorem lexNumber_flt (ip fp ex cs : List Char) (h1 : ∀ c ∈ ip, c.isDigit = true)
    (h2 : ∀ c ∈ fp, c.isDigit = true) (h3 : expShape ex = true) (hs : stopsNum cs) :
    lexNumber (ip ++ '.' :: (fp ++ ex) ++ cs) = (Tok.flt (String.ofList (ip ++ '.' :: (fp ++ ex))), cs) := by
  unfold lexNumber
  have e1 : (ip ++ '.' :: (fp ++ ex) ++ cs).span Char.isDigit = (ip, '.' :: (fp ++ ex ++ cs)) := by
    have := span_append_stop Char.isDigit ip ('.' :: (fp ++ ex ++ cs)) h1 (by simp [stops])
    simpa using this
  rw [e1]
  have hst : stops Char.isDigit (ex ++ cs) := by
    cases ex with
    | nil => simpa using stops_of_stopsNum hs
    | cons e r =>
      simp only [expShape, Bool.and_eq_true, Bool.or_eq_true, beq_iff_eq] at h3
      rcases h3.1 with rfl | rfl <;> simp [stops]
  have e2 : (fp ++ (ex ++ cs)).span Char.isDigit = (fp, ex ++ cs) := span_append_stop _ fp (ex ++ cs) h2 hst
  simp only [List.append_assoc, e2]
  cases ex with
  | nil =>
    cases cs with
    | nil => simp
    | cons c cs' =>
      obtain ⟨_, _, h5, h6⟩ := hs
      simp [h5, h6]
  | cons e r =>
    simp only [expShape, Bool.and_eq_true, Bool.or_eq_true, beq_iff_eq] at h3
    obtain ⟨he, hr⟩ := h3
    have key : ∀ r' : List Char, allDigits r' = true → (r' ++ cs).span Char.isDigit = (r', cs) ∧ r' ≠ [] := by
      intro r' hr'
      simp only [allDigits, Bool.and_eq_true, Bool.not_eq_true', List.isEmpty_eq_false_iff, List.all_eq_true] at hr'
      exact ⟨span_append_stop _ r' cs hr'.2 (stops_of_stopsNum hs), hr'.1⟩
    split at hr
    · rename_i r'
      obtain ⟨k1, k2⟩ := key r' hr
      rcases he with rfl | rfl <;> simp [k1, k2]
    · rename_i r'
      obtain ⟨k1, k2⟩ := key r' hr
      rcases he with rfl | rfl <;> simp [k1, k2]
    · obtain ⟨k1, k2⟩ := key r hr
      cases r with
      | nil => exact absurd rfl k2
      | cons d r'' =>
        have hd : d.isDigit = true := by
          simp only [allDigits, Bool.and_eq_true, List.all_eq_true] at hr
          exact hr.2 d (by simp)
        have hp : d ≠ '+' := by rintro rfl; simp at hd
        have hm : d ≠ '-' := by rintro rfl; simp at hd
        simp only [List.cons_append] at k1
        rcases he with rfl | rfl <;> simp [k1, hp, hm]

/-! ### well-formed tokens, non-fusing neighbours, and the tokenizer on rendered tokens -/

/-- a Python identifier (ASCII): `[A-Za-z_][A-Za-z0-9_]*` -/
def isIdent (s : String) : Bool :=
  match s.toList with
  | [] => false
  | c :: cs => isIdStart c && cs.all isIdChar

/-- lexically well-formed token: the tokenizer reads its text back as this token -/
def tokOK : Tok → Bool
  | .name s => isIdent s
  | .flt s => fltShape s.toList
  | .err _ => false
  | _ => true

/-- alphanumeric tokens: their texts run together when adjacent -/
def isWord : Tok → Bool
  | .name _ => true
  | .int _ => true
  | .flt _ => true
  | _ => false

/-- `a` directly followed by `b` would not be read back as `a, b` -/
def fuses : Tok → Tok → Bool
  | .star, .star => true
  | .star, .dstar => true
  | a, b => isWord a && isWord b

/-- no two adjacent tokens fuse -/
def noFuse : List Tok → Bool
  | a :: b :: r => !fuses a b && noFuse (b :: r)
  | _ => true

/-- the characters of the rendered string -/
def chars (ts : List Tok) : List Char := ts.flatMap fun t => t.text.toList

theorem render_toList (ts : List Tok) : (render ts).toList = chars ts := by
  simp [render, chars, String.toList_join, List.flatMap_map]

def stopsWord : List Char → Prop
  | [] => True
  | c :: _ => isIdChar c = false ∧ c ≠ '.'

def stopsStar : List Char → Prop
  | [] => True
  | c :: _ => c ≠ '*'

/-- what the characters following token `t` must satisfy for `t` to be read back alone -/
def after (t : Tok) (cs : List Char) : Prop :=
  (isWord t = true → stopsWord cs) ∧ (t = .star → stopsStar cs)

theorem isIdChar_of_digit {c : Char} (h : c.isDigit = true) : isIdChar c = true := by
  simp [isIdChar, Char.isAlphanum, h]
theorem isIdChar_of_idStart {c : Char} (h : isIdStart c = true) : isIdChar c = true := by
  simp only [isIdStart, Bool.or_eq_true, beq_iff_eq] at h
  rcases h with h | h
  · simp [isIdChar, Char.isAlphanum, h]
  · simp [isIdChar, h]

theorem stopsNum_of_stopsWord {cs} (h : stopsWord cs) : stopsNum cs := by
  cases cs with
  | nil => trivial
  | cons c cs =>
    obtain ⟨h1, h2⟩ := h
    refine ⟨?_, h2, ?_, ?_⟩
    · cases hd : c.isDigit with
      | false => rfl
      | true => rw [isIdChar_of_digit hd] at h1; cases h1
    · rintro rfl; revert h1; decide
    · rintro rfl; revert h1; decide

theorem stops_idChar_of_stopsWord {cs} (h : stopsWord cs) : stops isIdChar cs := by
  cases cs with
  | nil => trivial
  | cons c cs => exact h.1

/-- first character of a well-formed token -/
theorem text_head {t : Tok} (ht : tokOK t = true) :
    ∃ c cs, t.text.toList = c :: cs ∧ (isWord t = false → isIdChar c = false ∧ c ≠ '.') ∧
      (t ≠ .star → t ≠ .dstar → c ≠ '*') := by
  cases t with
  | name s =>
    simp only [tokOK, isIdent] at ht
    split at ht
    · cases ht
    · rename_i c cs hs
      simp only [Bool.and_eq_true] at ht
      refine ⟨c, cs, hs, by simp [isWord], fun _ _ => ?_⟩
      rintro rfl; exact absurd ht.1 (by decide)
  | int n =>
    have hne : Nat.toDigits 10 n ≠ [] := Nat.toDigits_ne_nil
    cases hd : Nat.toDigits 10 n with
    | nil => exact absurd hd hne
    | cons d ds =>
      have : d.isDigit = true :=
        Nat.isDigit_of_mem_toDigits (b := 10) (n := n) (c := d) (by decide) (by decide) (by rw [hd]; simp)
      refine ⟨d, ds, by simp [Tok.text, hd], by simp [isWord], fun _ _ => ?_⟩
      rintro rfl; revert this; decide
  | flt s =>
    simp only [tokOK] at ht
    obtain ⟨ip, fp, ex, hs, h0, h1, _, _⟩ := fltShape_parts ht
    cases ip with
    | nil => exact absurd rfl h0
    | cons d ip' =>
      have : d.isDigit = true := h1 d (by simp)
      refine ⟨d, ip' ++ '.' :: (fp ++ ex), by simp [Tok.text, hs], by simp [isWord], fun _ _ => ?_⟩
      rintro rfl; revert this; decide
  | err w => simp [tokOK] at ht
  | plus => exact ⟨'+', [], by decide, fun _ => by decide, fun _ _ => by decide⟩
  | minus => exact ⟨'-', [], by decide, fun _ => by decide, fun _ _ => by decide⟩
  | star => exact ⟨'*', [], by decide, fun _ => by decide, fun h => absurd rfl h⟩
  | slash => exact ⟨'/', [], by decide, fun _ => by decide, fun _ _ => by decide⟩
  | dstar => exact ⟨'*', ['*'], by decide, fun _ => by decide, fun _ h => absurd rfl h⟩
  | lpar => exact ⟨'(', [], by decide, fun _ => by decide, fun _ _ => by decide⟩
  | rpar => exact ⟨')', [], by decide, fun _ => by decide, fun _ _ => by decide⟩
  | comma => exact ⟨',', [], by decide, fun _ => by decide, fun _ _ => by decide⟩
  | sp => exact ⟨' ', [], by decide, fun _ => by decide, fun _ _ => by decide⟩


theorem tokenizeAux_idChar (m : Nat) (c : Char) (cs : List Char) (acc : List Tok) (h : isIdChar c = true) :
    tokenizeAux (m + 1) (c :: cs) acc =
      if c.isDigit then tokenizeAux m (lexNumber (c :: cs)).2 ((lexNumber (c :: cs)).1 :: acc)
      else if isIdStart c then
        tokenizeAux m (cs.span isIdChar).2 (Tok.name (String.ofList (c :: (cs.span isIdChar).1)) :: acc)
      else none := by
  have h1 : c ≠ ' ' := by rintro rfl; exact absurd h (by decide)
  have h2 : c ≠ '+' := by rintro rfl; exact absurd h (by decide)
  have h3 : c ≠ '-' := by rintro rfl; exact absurd h (by decide)
  have h4 : c ≠ '/' := by rintro rfl; exact absurd h (by decide)
  have h5 : c ≠ '(' := by rintro rfl; exact absurd h (by decide)
  have h6 : c ≠ ')' := by rintro rfl; exact absurd h (by decide)
  have h7 : c ≠ ',' := by rintro rfl; exact absurd h (by decide)
  have h8 : c ≠ '*' := by rintro rfl; exact absurd h (by decide)
  simp [tokenizeAux, h1, h2, h3, h4, h5, h6, h7, h8]

theorem digitsToNat_eq (ds : List Char) : digitsToNat ds = Nat.ofDigitChars 10 ds 0 := by
  simp only [digitsToNat, Nat.ofDigitChars_eq_foldl]
  congr 1
  funext a c
  rw [Nat.mul_comm]

/-- one token: the tokenizer consumes exactly its text -/
theorem tokenizeAux_step (t : Tok) (ht : tokOK t = true) (cs : List Char) (ha : after t cs) (m : Nat) (acc : List Tok) :
    tokenizeAux (m + 1) (t.text.toList ++ cs) acc = tokenizeAux m cs (t :: acc) := by
  cases t with
  | name s =>
    simp only [tokOK, isIdent] at ht
    split at ht
    · cases ht
    · rename_i c w hs
      simp only [Bool.and_eq_true, List.all_eq_true] at ht
      have hsp := span_append_stop isIdChar w cs ht.2 (stops_idChar_of_stopsWord (ha.1 rfl))
      have hs' : String.ofList (c :: w) = s := by rw [← hs]; simp
      simp only [Tok.text, hs, List.cons_append]
      rw [tokenizeAux_idChar _ _ _ _ (isIdChar_of_idStart ht.1)]
      simp [isDigit_false_of_idStart ht.1, ht.1, hsp, hs']
  | int n =>
    have hall : ∀ c ∈ Nat.toDigits 10 n, c.isDigit = true :=
      fun c hc => Nat.isDigit_of_mem_toDigits (b := 10) (n := n) (c := c) (by decide) (by decide) hc
    have hlex := lexNumber_int (Nat.toDigits 10 n) cs hall (stopsNum_of_stopsWord (ha.1 rfl))
    have hval : digitsToNat (Nat.toDigits 10 n) = n := by
      rw [digitsToNat_eq, Nat.ofDigitChars_ten_toDigits]
    have hne : Nat.toDigits 10 n ≠ [] := Nat.toDigits_ne_nil
    simp only [Tok.text, Nat.toString_eq_repr, Nat.toList_repr]
    cases hd : Nat.toDigits 10 n with
    | nil => exact absurd hd hne
    | cons d ds =>
      rw [hd] at hlex hall hval
      have hdd : d.isDigit = true := hall d (by simp)
      simp only [List.cons_append] at hlex ⊢
      rw [tokenizeAux_idChar _ _ _ _ (isIdChar_of_digit hdd)]
      simp [hdd, hlex, hval]
  | flt s =>
    simp only [tokOK] at ht
    obtain ⟨ip, fp, ex, hs, h0, h1, h2, h3⟩ := fltShape_parts ht
    have hlex := lexNumber_flt ip fp ex cs h1 h2 h3 (stopsNum_of_stopsWord (ha.1 rfl))
    have hs' : String.ofList (ip ++ '.' :: (fp ++ ex)) = s := by rw [← hs]; simp
    rw [hs'] at hlex
    simp only [Tok.text, hs]
    cases ip with
    | nil => exact absurd rfl h0
    | cons d ip' =>
      have hdd : d.isDigit = true := h1 d (by simp)
      simp only [List.cons_append, List.append_assoc] at hlex ⊢
      rw [tokenizeAux_idChar _ _ _ _ (isIdChar_of_digit hdd)]
      simp [hdd, hlex]
  | err w => simp [tokOK] at ht
  | plus => simp [Tok.text, tokenizeAux]
  | minus => simp [Tok.text, tokenizeAux]
  | slash => simp [Tok.text, tokenizeAux]
  | lpar => simp [Tok.text, tokenizeAux]
  | rpar => simp [Tok.text, tokenizeAux]
  | comma => simp [Tok.text, tokenizeAux]
  | sp => simp [Tok.text, tokenizeAux]
  | dstar => simp [Tok.text, tokenizeAux]
  | star =>
    have := ha.2 rfl
    cases cs with
    | nil => simp [Tok.text, tokenizeAux]
    | cons c cs' =>
      simp only [stopsStar] at this
      simp [Tok.text, tokenizeAux, this]


theorem after_nil (t : Tok) : after t [] := ⟨fun _ => trivial, fun _ => trivial⟩

theorem after_of_not_fuses {t t' : Tok} (ht' : tokOK t' = true) (hf : fuses t t' = false) (more : List Char) :
    after t (t'.text.toList ++ more) := by
  obtain ⟨c, cs, hc, hw, hs⟩ := text_head ht'
  rw [hc]
  refine ⟨fun h => ?_, fun h => ?_⟩
  · have : isWord t' = false := by
      cases t <;> cases t' <;> simp_all [fuses, isWord]
    exact hw this
  · subst h
    have h1 : t' ≠ .star := by rintro rfl; simp [fuses] at hf
    have h2 : t' ≠ .dstar := by rintro rfl; simp [fuses] at hf
    exact hs h1 h2

theorem text_length_pos {t : Tok} (ht : tokOK t = true) : 1 ≤ t.text.toList.length := by
  obtain ⟨c, cs, hc, _, _⟩ := text_head ht
  simp [hc]

theorem tokenizeAux_chars : ∀ (ts : List Tok) (n : Nat) (acc : List Tok), (chars ts).length < n →
    ts.all tokOK = true → noFuse ts = true → tokenizeAux n (chars ts) acc = some (acc.reverse ++ ts) := by
  intro ts
  induction ts with
  | nil =>
    intro n acc hn _ _
    obtain ⟨m, rfl⟩ : ∃ m, n = m + 1 := ⟨n - 1, by omega⟩
    simp [chars, tokenizeAux]
  | cons t rest ih =>
    intro n acc hn hok hnf
    obtain ⟨m, rfl⟩ : ∃ m, n = m + 1 := ⟨n - 1, by omega⟩
    simp only [List.all_cons, Bool.and_eq_true] at hok
    have hch : chars (t :: rest) = t.text.toList ++ chars rest := by simp [chars]
    have hlen := text_length_pos hok.1
    rw [hch] at hn ⊢
    simp only [List.length_append] at hn
    have haft : after t (chars rest) := by
      cases rest with
      | nil => exact after_nil t
      | cons t' rest' =>
        simp only [noFuse, Bool.and_eq_true, Bool.not_eq_true'] at hnf
        simp only [List.all_cons, Bool.and_eq_true] at hok
        have : chars (t' :: rest') = t'.text.toList ++ chars rest' := by simp [chars]
        rw [this]
        exact after_of_not_fuses hok.2.1 hnf.1 _
    have hnf' : noFuse rest = true := by
      cases rest with
      | nil => rfl
      | cons t' rest' => simp only [noFuse, Bool.and_eq_true] at hnf; exact hnf.2
    rw [tokenizeAux_step t hok.1 _ haft, ih m (t :: acc) (by omega) hok.2 hnf']
    simp

/-- **the string ↔ token bridge**: a token list whose tokens are lexically well formed (`tokOK`: names are
identifiers, Float texts have the shape `d+.d*[e[±]d+]`, no error token) and in which no two adjacent tokens would
fuse when their texts are concatenated (`noFuse`: no two adjacent alphanumeric tokens, no `*` directly before `*`
or `**`) is recovered exactly by the tokenizer from its rendered string. -/
theorem tokenize_render (ts : List Tok) (hok : ts.all tokOK = true) (hnf : noFuse ts = true) :
    tokenize (render ts) = some ts := by
  simp only [tokenize, render_toList]
  simpa using tokenizeAux_chars ts ((chars ts).length + 1) [] (by omega) hok hnf


/-! ### adjacent tokens of a phrase never fuse -/

def opener : Tok → Bool
  | .name _ => true | .int _ => true | .flt _ => true | .lpar => true | .minus => true | .plus => true
  | _ => false
def closer : Tok → Bool
  | .name _ => true | .int _ => true | .flt _ => true | .rpar => true
  | _ => false

theorem fuses_closer_punct {x p : Tok} (hx : closer x = true) (hp : isWord p = false) : fuses x p = false := by
  cases x <;> cases p <;> simp_all [fuses, isWord, closer]
theorem fuses_punct_opener {p y : Tok} (hp : isWord p = false) (hy : opener y = true) : fuses p y = false := by
  cases p <;> cases y <;> simp_all [fuses, isWord, opener]

theorem noFuse_tail {a : Tok} {l : List Tok} (h : noFuse (a :: l) = true) : noFuse l = true := by
  cases l with
  | nil => rfl
  | cons b r => simp only [noFuse, Bool.and_eq_true] at h; exact h.2

theorem noFuse_append (a b : List Tok) (ha : noFuse a = true) (hb : noFuse b = true)
    (hab : ∀ x y, a.getLast? = some x → b.head? = some y → fuses x y = false) : noFuse (a ++ b) = true := by
  induction a with
  | nil => simpa using hb
  | cons x a' ih =>
    cases a' with
    | nil =>
      cases b with
      | nil => simp [noFuse]
      | cons y b' =>
        simp only [List.cons_append, List.nil_append, noFuse, Bool.and_eq_true, Bool.not_eq_true']
        exact ⟨hab x y (by simp) (by simp), hb⟩
    | cons x' a'' =>
      simp only [noFuse, Bool.and_eq_true, Bool.not_eq_true'] at ha
      simp only [List.cons_append, noFuse, Bool.and_eq_true, Bool.not_eq_true']
      refine ⟨ha.1, ?_⟩
      have := ih ha.2 (fun x y hx hy => hab x y (by simpa [List.getLast?_cons_cons] using hx) hy)
      simpa using this

/-- a blank-free phrase: no fusing neighbours, starts with an opener, ends with a closer -/
structure SepOK (ts : List Tok) : Prop where
  nf : noFuse ts = true
  hd : ∃ x, ts.head? = some x ∧ opener x = true
  lt : ∃ y, ts.getLast? = some y ∧ closer y = true

theorem SepOK.ne_nil {ts} (h : SepOK ts) : ts ≠ [] := by
  obtain ⟨x, hx, _⟩ := h.hd
  intro h0; simp [h0] at hx

theorem sepOK_single (t : Tok) (h1 : opener t = true) (h2 : closer t = true) : SepOK [t] :=
  ⟨rfl, ⟨t, rfl, h1⟩, ⟨t, rfl, h2⟩⟩

/-- `p :: t` for a punctuation token `p` -/
theorem noFuse_cons_punct {p : Tok} {t : List Tok} (hp : isWord p = false) (ht : SepOK t) : noFuse (p :: t) = true := by
  have := noFuse_append [p] t rfl ht.nf (fun x y hx hy => by
    obtain ⟨y', hy', ho⟩ := ht.hd
    simp only [List.getLast?_singleton, Option.some.injEq] at hx
    subst hx
    rw [hy'] at hy; cases hy
    exact fuses_punct_opener hp ho)
  simpa using this

theorem noFuse_snoc_punct {p : Tok} {t : List Tok} (hp : isWord p = false) (ht : SepOK t) : noFuse (t ++ [p]) = true :=
  noFuse_append t [p] ht.nf rfl (fun x y hx hy => by
    obtain ⟨x', hx', hc⟩ := ht.lt
    simp only [List.head?_cons, Option.some.injEq] at hy
    subst hy
    rw [hx'] at hx; cases hx
    exact fuses_closer_punct hc hp)

theorem sepOK_bin {t u : List Tok} (p : Tok) (hp : isWord p = false) (ht : SepOK t) (hu : SepOK u) :
    SepOK (t ++ p :: u) := by
  have hne := ht.ne_nil
  have hune := hu.ne_nil
  refine ⟨?_, ?_, ?_⟩
  · have h1 := noFuse_cons_punct hp hu
    refine noFuse_append t (p :: u) ht.nf h1 (fun x y hx hy => ?_)
    obtain ⟨x', hx', hc⟩ := ht.lt
    simp only [List.head?_cons, Option.some.injEq] at hy
    subst hy
    rw [hx'] at hx; cases hx
    exact fuses_closer_punct hc hp
  · obtain ⟨x, hx, ho⟩ := ht.hd
    exact ⟨x, by simp [List.head?_append, hx], ho⟩
  · obtain ⟨y, hy, hc⟩ := hu.lt
    refine ⟨y, ?_, hc⟩
    cases u with
    | nil => exact absurd rfl hune
    | cons y0 u' => simp [List.getLast?_append, List.getLast?_cons_cons, hy]


theorem sepOK_prefix {t : List Tok} (p : Tok) (hp : isWord p = false) (hop : opener p = true) (ht : SepOK t) :
    SepOK (p :: t) := by
  refine ⟨noFuse_cons_punct hp ht, ⟨p, rfl, hop⟩, ?_⟩
  obtain ⟨y, hy, hc⟩ := ht.lt
  refine ⟨y, ?_, hc⟩
  cases t with
  | nil => simp at hy
  | cons y0 t' => simp [List.getLast?_cons_cons, hy]

theorem getLast?_pre_snoc (pre l : List Tok) (a : Tok) : (pre ++ (l ++ [a])).getLast? = some a := by
  rw [← List.append_assoc]; simp

theorem sepOK_paren {t : List Tok} (ht : SepOK t) : SepOK (Tok.lpar :: t ++ [Tok.rpar]) := by
  have hne := ht.ne_nil
  have h1 : noFuse (t ++ [Tok.rpar]) = true := noFuse_snoc_punct rfl ht
  refine ⟨?_, ⟨_, rfl, rfl⟩, ⟨Tok.rpar, getLast?_pre_snoc [Tok.lpar] t Tok.rpar, rfl⟩⟩
  have := noFuse_append [Tok.lpar] (t ++ [Tok.rpar]) rfl h1 (fun x y hx hy => by
    obtain ⟨y', hy', ho⟩ := ht.hd
    simp only [List.getLast?_singleton, Option.some.injEq] at hx
    subst hx
    cases t with
    | nil => exact absurd rfl hne
    | cons y0 t' =>
      simp only [List.cons_append, List.head?_cons, Option.some.injEq] at hy hy'
      subst hy; subst hy'
      exact fuses_punct_opener rfl ho)
  simpa using this

theorem phrase_sepOK {l : Lvl} {ts : List Tok} {a : PyAst} (h : Phrase l ts a) : SepOK ts := by
  induction h with
  | name s => exact sepOK_single _ rfl rfl
  | int n => exact sepOK_single _ rfl rfl
  | flt s => exact sepOK_single _ rfl rfl
  | paren _ ih => exact sepOK_paren ih
  | call1 f _ ih =>
    have := sepOK_paren ih
    refine ⟨?_, ⟨_, rfl, rfl⟩, ?_⟩
    · have h := this.nf
      simp only [List.cons_append] at h ⊢
      simp only [noFuse, Bool.and_eq_true, Bool.not_eq_true'] at h ⊢
      exact ⟨rfl, h⟩
    · exact ⟨Tok.rpar, getLast?_pre_snoc [Tok.name f, Tok.lpar] _ Tok.rpar, rfl⟩
  | call2 f _ _ ih1 ih2 =>
    have h12 := sepOK_bin Tok.comma rfl ih1 ih2
    have := sepOK_paren h12
    refine ⟨?_, ⟨_, rfl, rfl⟩, ?_⟩
    · have h := this.nf
      simp only [List.cons_append, List.append_assoc] at h ⊢
      simp only [noFuse, Bool.and_eq_true, Bool.not_eq_true'] at h ⊢
      exact ⟨rfl, h⟩
    · exact ⟨Tok.rpar, by simpa using getLast?_pre_snoc [Tok.name f, Tok.lpar] (_ ++ Tok.comma :: _) Tok.rpar, rfl⟩
  | ofAtom _ ih => exact ih
  | pow _ _ ih1 ih2 => exact sepOK_bin _ rfl ih1 ih2
  | ofPower _ ih => exact ih
  | neg _ ih => exact sepOK_prefix _ rfl rfl ih
  | pos _ ih => exact sepOK_prefix _ rfl rfl ih
  | ofFactor _ ih => exact ih
  | mul _ _ ih1 ih2 => exact sepOK_bin _ rfl ih1 ih2
  | div _ _ ih1 ih2 => exact sepOK_bin _ rfl ih1 ih2
  | ofTerm _ ih => exact ih
  | add _ _ ih1 ih2 => exact sepOK_bin _ rfl ih1 ih2
  | sub _ _ ih1 ih2 => exact sepOK_bin _ rfl ih1 ih2

theorem fuses_sp_left (b : Tok) : fuses Tok.sp b = false := by cases b <;> rfl
theorem fuses_sp_right (a : Tok) : fuses a Tok.sp = false := by cases a <;> rfl

/-- blanks only separate: if the blank-free list has no fusing neighbours, neither has the list with blanks -/
theorem noFuse_of_dropSp (ts : List Tok) (h : noFuse (dropSp ts) = true) : noFuse ts = true := by
  induction ts with
  | nil => rfl
  | cons a rest ih =>
    cases rest with
    | nil => rfl
    | cons b r =>
      simp only [noFuse, Bool.and_eq_true, Bool.not_eq_true']
      by_cases ha : a = Tok.sp
      · subst ha
        exact ⟨fuses_sp_left b, ih (by simpa [dropSp_cons, isSp] using h)⟩
      · have ha' : isSp a = false := by cases a <;> simp_all [isSp]
        rw [dropSp_cons, ha'] at h
        simp only [Bool.false_eq_true, if_false] at h
        refine ⟨?_, ih (noFuse_tail h)⟩
        by_cases hb : b = Tok.sp
        · subst hb; exact fuses_sp_right a
        · have hb' : isSp b = false := by cases b <;> simp_all [isSp]
          rw [dropSp_cons, hb'] at h
          simp only [Bool.false_eq_true, if_false, noFuse, Bool.and_eq_true, Bool.not_eq_true'] at h
          exact h.1


/-! ### every token of `pr e` is lexically well formed -/

def Num.lexical : Num → Bool
  | .flt _ m => fltShape m.toList
  | _ => true

mutual
/-- symbol names are identifiers and Float texts are Float literals -/
def lexical : SExpr → Bool
  | .num n => n.lexical
  | .sym s => isIdent s
  | .fn _ a => lexical a
  | .pow b e => lexical b && lexical e
  | .add ts => lexicalL ts
  | .mul c fs => c.lexical && lexicalL fs
def lexicalL : List SExpr → Bool
  | [] => true
  | t :: ts => lexical t && lexicalL ts
end

theorem lexicalL_iff (ts : List SExpr) : lexicalL ts = true ↔ ∀ t ∈ ts, lexical t = true := by
  induction ts with
  | nil => simp [lexicalL]
  | cons a as ih => simp [lexicalL, ih]

abbrev allOK (ts : List Tok) : Prop := ts.all tokOK = true

theorem allOK_prInt (n : Int) : allOK (prInt n) := by
  unfold prInt; split <;> simp [allOK, tokOK]

theorem allOK_prNum (n : Num) (h : n.lexical = true) : allOK (prNum n) := by
  cases n with
  | int n => exact allOK_prInt n
  | rat p q =>
    have := allOK_prInt p
    simp only [prNum]; split
    · exact this
    · simp only [allOK, List.all_append, Bool.and_eq_true]; exact ⟨this, by simp [tokOK]⟩
  | flt s m =>
    simp only [Num.lexical] at h
    cases s <;> simp [prNum, allOK, tokOK, h]

theorem allOK_paren {t : List Tok} (h : allOK t) : allOK (paren t) := by
  simp only [allOK, paren, List.all_cons, List.all_append, Bool.and_eq_true] at *
  exact ⟨⟨rfl, h⟩, rfl, rfl⟩

theorem allOK_parenthesize (l : Nat) (s : Bool) (e : SExpr) {t : List Tok} (h : allOK t) :
    allOK (parenthesize l s e t) := by
  unfold parenthesize; split
  · exact allOK_paren h
  · exact h

theorem tokOK_sqrt : isIdent "sqrt" = true := by decide
theorem tokOK_pow : isIdent "pow" = true := by decide
theorem tokOK_fn (f : Fn) : tokOK (Tok.name f.name) = true := by cases f <;> decide

theorem allOK_prPowWith (b e : SExpr) {pb pe : List Tok} (hb : allOK pb) (he : allOK pe) :
    allOK (prPowWith b e pb pe) := by
  have hB := allOK_parenthesize 60 false b hb
  have hE := allOK_parenthesize 60 false e he
  simp only [allOK] at *
  unfold prPowWith
  split
  · simp [tokOK_sqrt, hb, tokOK]
  · split
    · simp [tokOK_sqrt, hb, tokOK]
    · split
      · simp [hB, tokOK]
      · simp only []
        split
        · simp [hB, hE, tokOK]
        · simp [hB, hE, tokOK, tokOK_pow]

theorem allOK_joinStar (xs : List (List Tok)) (h : ∀ x ∈ xs, allOK x) : allOK (joinStar xs) := by
  induction xs with
  | nil => simp [joinStar, allOK]
  | cons x xs ih =>
    cases xs with
    | nil => simpa [joinStar] using h x (by simp)
    | cons y ys =>
      have hx := h x (by simp)
      have := ih (fun z hz => h z (by simp [hz]))
      simp only [allOK, joinStar, List.all_append, List.all_cons, Bool.and_eq_true] at *
      exact ⟨hx, rfl, this⟩

theorem allOK_mulJoin (sign : Bool) (a b : List (List Tok)) (ha : ∀ x ∈ a, allOK x) (hb : ∀ x ∈ b, allOK x) :
    allOK (mulJoin sign a b) := by
  have hA := allOK_joinStar a ha
  have hB := allOK_joinStar b hb
  have hn : allOK ((if sign then [Tok.minus] else []) ++ joinStar a) := by
    cases sign <;> simp_all [allOK, tokOK]
  unfold mulJoin
  match b, hb, hB with
  | [], _, _ => exact hn
  | [d], hb, _ =>
    have := hb d (by simp)
    simp_all [allOK, tokOK]
  | d :: d' :: ds, _, hB => simp_all [allOK, tokOK]

theorem allOK_splitSign {t : List Tok} (h : allOK t) : allOK (splitSign t).2 := by
  unfold splitSign
  split
  · simp only [allOK, List.all_cons, Bool.and_eq_true] at h; exact h.2
  · exact h

theorem allOK_addPiece (term : SExpr) {t : List Tok} (h : allOK t) : allOK (addPiece term t).2 := by
  unfold addPiece
  simp only []
  split
  · exact allOK_paren (allOK_splitSign h)
  · exact allOK_splitSign h

theorem allOK_prAdd (ps : List (Bool × List Tok)) (hne : ps ≠ []) (h : ∀ p ∈ ps, allOK p.2) : allOK (prAdd ps) := by
  match ps, hne with
  | (neg, t) :: rest, _ =>
    have ht : allOK t := h (neg, t) (by simp)
    simp only [prAdd, allOK, List.all_append, List.all_flatMap, Bool.and_eq_true, List.all_eq_true]
    refine ⟨⟨by cases neg <;> simp [tokOK], by simpa [allOK, List.all_eq_true] using ht⟩, ?_⟩
    intro p hp
    have := h p (by simp [hp])
    simp only [allOK, List.all_eq_true] at this
    intro x hx
    rcases List.mem_cons.mp hx with rfl | hx
    · rfl
    rcases List.mem_cons.mp hx with rfl | hx
    · cases p.1 <;> rfl
    rcases List.mem_cons.mp hx with rfl | hx
    · rfl
    exact this x hx


theorem allOK_mulAssemble (prec : Nat) (sign : Bool) (a b : List (SExpr × List Tok))
    (ha : ∀ x ∈ a, allOK x.2) (hb : ∀ x ∈ b, allOK x.2) : allOK (mulAssemble prec sign a b []) := by
  simp only [mulAssemble, List.foldl_nil]
  apply allOK_mulJoin
  · intro x hx
    split at hx
    · simp only [List.map_cons, List.map_nil, List.mem_singleton] at hx
      subst hx
      exact allOK_parenthesize _ _ _ (by simp [allOK, tokOK])
    · obtain ⟨y, hy, rfl⟩ := List.mem_map.mp hx
      exact allOK_parenthesize _ _ _ (ha y hy)
  · intro x hx
    obtain ⟨y, hy, rfl⟩ := List.mem_map.mp hx
    exact allOK_parenthesize _ _ _ (hb y hy)

/-! lexical well-formedness is inherited by what `_print_Mul` puts in numerator and denominator -/

theorem Num.lexical_neg {c : Num} (h : c.lexical = true) : c.neg.lexical = true := by
  cases c <;> simp_all [Num.lexical, Num.neg]

theorem lexical_negExp {ex : SExpr} (h : lexical ex = true) : lexical (negExp ex) = true := by
  cases ex with
  | num n => simpa [negExp, lexical] using Num.lexical_neg (by simpa [lexical] using h)
  | mul c fs =>
    simp only [lexical, Bool.and_eq_true] at h
    simp only [negExp]
    split
    · match fs with
      | [] => simp [mulFromArgs, lexical, Num.lexical]
      | [f] => simpa [mulFromArgs, lexicalL] using h.2
      | f :: g :: r => simpa [mulFromArgs, lexical, Num.lexical] using h.2
    · match fs with
      | [] => simpa [mulFromArgsC, lexical] using Num.lexical_neg h.1
      | f :: r => simpa [mulFromArgsC, lexical, Num.lexical_neg h.1] using h.2
  | _ => simpa [negExp] using h

theorem lexical_classify (neg : Bool) (y : SExpr) (hf : factorOk neg y = true) (hl : lexical y = true) :
    (∀ x ∈ (classify y).a, lexical x = true) ∧ (∀ x ∈ (classify y).b, lexical x = true) := by
  cases y with
  | pow base ex =>
    have hl' := hl
    simp only [lexical, Bool.and_eq_true] at hl'
    simp only [classify]
    by_cases hn : coeffNeg ex = true
    · simp only [hn, if_true]
      simp only [factorOk, hn, if_true] at hf
      by_cases h1 : isNegOneE ex = true
      · simp [h1, hl'.1]
      · simp only [h1, Bool.false_eq_true, if_false, Bool.not_eq_true'] at hf
        simp [h1, hf, lexical, hl'.1, lexical_negExp hl'.2]
    · simp [hn, hl]
  | num n => simp [factorOk] at hf
  | sym s => simpa [classify] using hl
  | fn g a => simpa [classify] using hl
  | add ts => simpa [classify] using hl
  | mul c' fs' => simpa [classify] using hl

theorem lexical_classify_num (c : Num) (hl : c.lexical = true) :
    (∀ x ∈ (classify (.num c)).a, lexical x = true) ∧ (∀ x ∈ (classify (.num c)).b, lexical x = true) := by
  cases c with
  | int n => simp only [classify, ratParts]; constructor <;> (intro x hx; split at hx <;> simp_all [lexical, Num.lexical])
  | rat p q => simp only [classify, ratParts]; constructor <;> (intro x hx; split at hx <;> simp_all [lexical, Num.lexical])
  | flt s m => simpa [classify, lexical] using hl

theorem lexical_mulParts (c : Num) (fs : List SExpr) (hc : canonical (.mul c fs) = true) (hl : lexical (.mul c fs) = true) :
    (∀ x ∈ (mulParts c fs).a, lexical x = true) ∧ (∀ x ∈ (mulParts c fs).b, lexical x = true) := by
  obtain ⟨_, hok, _, _⟩ := canonical_mul hc
  simp only [lexical, Bool.and_eq_true, lexicalL_iff] at hl
  apply classifyAll_forall
  intro y hy
  simp only [mulArgs] at hy
  have hc' : (if c.isNeg then c.neg else c).lexical = true := by
    split
    · exact Num.lexical_neg hl.1
    · exact hl.1
  generalize (if c.isNeg then c.neg else c) = c' at hy hc'
  split at hy
  · exact lexical_classify c.isNeg y (hok y hy) (hl.2 y hy)
  · rcases List.mem_cons.mp hy with rfl | hy
    · exact lexical_classify_num c' hc'
    · exact lexical_classify c.isNeg y (hok y hy) (hl.2 y hy)

theorem allOK_pr_of_size : ∀ (n : Nat) (e : SExpr), size e ≤ n → canonical e = true → lexical e = true → allOK (pr e) := by
  intro n
  induction n with
  | zero => intro e h; have := size_pos e; omega
  | succ n ih =>
    intro e hs hc hl
    cases e with
    | num k => rw [pr_num]; exact allOK_prNum k (by simpa [lexical] using hl)
    | sym s => rw [pr_sym]; simpa [allOK, tokOK, lexical] using hl
    | fn f a =>
      have := ih a (by simp only [size] at hs; omega) (canonical_fn hc) (by simpa [lexical] using hl)
      have h2 := allOK_parenthesize 0 false a this
      rw [pr_fn]
      simp only [allOK, List.all_cons, List.all_append, Bool.and_eq_true] at h2 ⊢
      exact ⟨⟨tokOK_fn f, rfl, h2⟩, rfl, rfl⟩
    | pow b ex =>
      obtain ⟨hb, he⟩ := canonical_pow hc
      simp only [size] at hs
      simp only [lexical, Bool.and_eq_true] at hl
      rw [pr_pow]
      exact allOK_prPowWith b ex (ih b (by omega) hb hl.1) (ih ex (by omega) he hl.2)
    | add ts =>
      obtain ⟨hne, _, hcan⟩ := canonical_add hc
      simp only [size] at hs
      simp only [lexical, lexicalL_iff] at hl
      rw [pr_add]
      apply allOK_prAdd
      · simpa using hne
      · intro p hp
        obtain ⟨t, ht, rfl⟩ := List.mem_map.mp hp
        exact allOK_addPiece t (ih t (by have := size_mem ht; omega) (hcan t ht) (hl t ht))
    | mul c fs =>
      obtain ⟨sA, sB⟩ := mulParts_size c fs
      obtain ⟨cA, cB, hpp⟩ := mulParts_ok hc
      obtain ⟨lA, lB⟩ := lexical_mulParts c fs hc hl
      rw [pr_mul, hpp]
      apply allOK_mulAssemble
      · intro x hx
        obtain ⟨y, hy, rfl⟩ := List.mem_map.mp hx
        exact ih y (by have := sA y hy; omega) (cA y hy).1 (lA y hy)
      · intro x hx
        obtain ⟨y, hy, rfl⟩ := List.mem_map.mp hx
        exact ih y (by have := sB y hy; omega) (cB y hy).1 (lB y hy)

/-! ### the printed string -/

theorem noFuse_pr (e : SExpr) (hc : canonical e = true) : noFuse (pr e) = true :=
  noFuse_of_dropSp _ (phrase_sepOK (phraseInfo_of_size (size e) e (Nat.le_refl _) hc).expr).nf

/-- the tokenizer recovers the printer's tokens from the printed string -/
theorem tokenize_print' (e : SExpr) (hc : canonical e = true) (hl : lexical e = true) :
    tokenize (print e) = some (pr e) :=
  tokenize_render (pr e) (allOK_pr_of_size (size e) e (Nat.le_refl _) hc hl) (noFuse_pr e hc)

end ESR.Printer
