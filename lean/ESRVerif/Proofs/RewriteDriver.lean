import ESRVerif.Model.RewriteDriver
import ESRVerif.Proofs.Rewrite
import Mathlib.Data.List.Perm.Subperm
/-!
Lemmas about the model of `find_additional_trees` (`ESRVerif/Model/RewriteDriver.lean`): what one `push`, one loop
body, one `for` loop and one `while` loop preserve; reachability through rewriter steps; the pass bound.
-/
namespace ESR.Rewrite.Drv
open ESR.Rewrite.UT (Out)

/-- the (labels, shape) pairs of a state, in emission order -/
def cands (st : List Entry) : List Cand := st.map Entry.cand

theorem candsOf_eq (o : Out) : candsOf o = o.cands := by cases o <;> rfl

/-! ### reachability through rewriter steps -/

/-- reachable from the input by phase-1 rewriter candidates -/
inductive R1 (rw1 : Rewriter) (inp : Cand) : Cand → Prop
  | root : R1 rw1 inp inp
  | step {p c : Cand} (k : Nat) : R1 rw1 inp p → c ∈ candsOf (rw1 p.1 p.2 k) → R1 rw1 inp c

/-- reachable from the input by phase-1 candidates followed by phase-2 candidates that passed the cross-check
(the oracle is asked about the pair (tree the candidate was derived from, candidate)) -/
inductive R2 (rw1 rw2 : Rewriter) (acc : Oracle) (inp : Cand) : Cand → Prop
  | base {c : Cand} : R1 rw1 inp c → R2 rw1 rw2 acc inp c
  | step {p c : Cand} (k : Nat) : R2 rw1 rw2 acc inp p → c ∈ candsOf (rw2 p.1 p.2 k) → acc p c = true →
      R2 rw1 rw2 acc inp c

/-- `P` is closed under the steps the loop `ph2` can take -/
def StepClosed (ph2 : Bool) (rw : Rewriter) (acc : Oracle) (P : Cand → Prop) : Prop :=
  ∀ p, P p → ∀ k c, c ∈ candsOf (rw p.1 p.2 k) → (ph2 = true → acc p c = true) → P c

theorem R1_closed (rw1 : Rewriter) (acc : Oracle) (inp : Cand) : StepClosed false rw1 acc (R1 rw1 inp) :=
  fun _ hp k _ hc _ => R1.step k hp hc

theorem R2_closed (rw1 rw2 : Rewriter) (acc : Oracle) (inp : Cand) :
    StepClosed true rw2 acc (R2 rw1 rw2 acc inp) :=
  fun _ hp k _ hc ha => R2.step k hp hc (ha rfl)

/-! ### the invariant: members satisfy `P`, label lists pairwise distinct -/

structure Inv (P : Cand → Prop) (cs : List Cand) : Prop where
  mem : ∀ c ∈ cs, P c
  nodup : (cs.map Prod.fst).Nodup

theorem cands_bump (st : List Entry) (i : Nat) : cands (bump st i) = cands st := by
  unfold cands bump
  apply List.ext_getElem?
  intro j
  simp only [List.getElem?_map, List.getElem?_modify]
  cases st[j]? with
  | none => rfl
  | some e => by_cases h : i = j <;> simp [h, Entry.cand]

theorem length_cands (st : List Entry) : (cands st).length = st.length := by simp [cands]

theorem hasLabels_false (st : List Entry) (L : List String) (h : hasLabels st L = false) :
    L ∉ (cands st).map Prod.fst := by
  intro hm
  have : hasLabels st L = true := by
    unfold hasLabels
    rw [List.any_eq_true]
    simp only [cands, List.map_map, List.mem_map, Function.comp] at hm
    obtain ⟨e, he, rfl⟩ := hm
    exact ⟨e, he, by simp [Entry.cand]⟩
  rw [h] at this; cases this

theorem push_cases (keep : Cand → Bool) (st : List Entry) (c : Cand) :
    cands (push keep st c) = cands st ∨
      (hasLabels st c.1 = false ∧ keep c = true ∧ cands (push keep st c) = cands st ++ [c]) := by
  unfold push
  by_cases h1 : hasLabels st c.1 = true
  · simp [h1]
  · by_cases h2 : keep c = true
    · right
      refine ⟨by simpa using h1, h2, ?_⟩
      simp [h1, h2, cands, Entry.cand]
    · simp [h1, h2]

theorem push_inv (P : Cand → Prop) (keep : Cand → Bool) (st : List Entry) (c : Cand)
    (hi : Inv P (cands st)) (hc : keep c = true → P c) :
    Inv P (cands (push keep st c)) ∧ cands st <+: cands (push keep st c) := by
  rcases push_cases keep st c with h | ⟨h1, h2, h3⟩
  · rw [h]; exact ⟨hi, List.prefix_refl _⟩
  · rw [h3]
    refine ⟨⟨?_, ?_⟩, List.prefix_append _ _⟩
    · intro x hx
      rcases List.mem_append.mp hx with hx | hx
      · exact hi.mem x hx
      · simp at hx; subst hx; exact hc h2
    · rw [List.map_append, List.nodup_append]
      refine ⟨hi.nodup, by simp, ?_⟩
      intro a ha b hb
      simp at hb
      subst hb
      intro hab
      subst hab
      exact hasLabels_false st c.1 h1 ha

theorem foldl_push_inv (P : Cand → Prop) (keep : Cand → Bool) (cs : List Cand) :
    ∀ (st : List Entry), Inv P (cands st) → (∀ c ∈ cs, keep c = true → P c) →
      Inv P (cands (cs.foldl (push keep) st)) ∧ cands st <+: cands (cs.foldl (push keep) st) := by
  induction cs with
  | nil => intro st hi _; exact ⟨hi, List.prefix_refl _⟩
  | cons c cs ih =>
    intro st hi hc
    have h1 := push_inv P keep st c hi (hc c (by simp))
    have h2 := ih (push keep st c) h1.1 (fun c' hc' => hc c' (by simp [hc']))
    exact ⟨h2.1, List.IsPrefix.trans h1.2 h2.2⟩

/-- one loop body keeps the invariant and only appends -/
theorem body_inv (ph2 : Bool) (rw : Rewriter) (acc : Oracle) (P : Cand → Prop)
    (hcl : StepClosed ph2 rw acc P) (st st' : List Entry) (i : Nat)
    (hi : Inv P (cands st)) (h : body ph2 rw acc st i = .ok st') :
    Inv P (cands st') ∧ cands st <+: cands st' := by
  unfold body at h
  split at h
  · cases h
  · rename_i e he
    have hmem : e ∈ st := List.mem_of_getElem? he
    have hPe : P e.cand := hi.mem _ (by unfold cands; exact List.mem_map_of_mem hmem)
    have hkeep : ∀ c, c ∈ candsOf (rw e.labels e.shape e.tryIdx) →
        ((!ph2 || acc e.cand c) = true → P c) := by
      intro c hc hk
      refine hcl e.cand hPe e.tryIdx c hc ?_
      intro hp; subst hp; simpa using hk
    split at h
    · cases h
    · injection h with h; subst h; rw [cands_bump]; exact ⟨hi, List.prefix_refl _⟩
    · rename_i L S hrw
      injection h with h; subst h; rw [cands_bump]
      exact push_inv P _ st (L, S) hi (hkeep (L, S) (by rw [hrw]; simp [candsOf]))
    · rename_i cs hrw
      split at h
      · cases h
      · injection h with h; subst h
        have := foldl_push_inv P (fun c => !ph2 || acc e.cand c) cs st hi
          (fun c hc => hkeep c (by rw [hrw]; simpa [candsOf] using hc))
        split
        · exact this
        · rw [cands_bump]; exact this

theorem body_ne_fuel (ph2 : Bool) (rw : Rewriter) (acc : Oracle) (st : List Entry) (i : Nat) :
    body ph2 rw acc st i ≠ .fuel := by
  unfold body
  split
  · simp
  · split <;> try simp
    split <;> simp

theorem forLoop_inv (ph2 : Bool) (rw : Rewriter) (acc : Oracle) (P : Cand → Prop)
    (hcl : StepClosed ph2 rw acc P) (n : Nat) :
    ∀ (i : Nat) (st st' : List Entry), Inv P (cands st) → forLoop ph2 rw acc n i st = .ok st' →
      Inv P (cands st') ∧ cands st <+: cands st' := by
  induction n with
  | zero =>
    intro i st st' hi h
    simp only [forLoop] at h
    injection h with h; subst h; exact ⟨hi, List.prefix_refl _⟩
  | succ n ih =>
    intro i st st' hi h
    simp only [forLoop] at h
    split at h
    · rename_i st1 hb
      have h1 := body_inv ph2 rw acc P hcl st st1 i hi hb
      have h2 := ih (i + 1) st1 st' h1.1 h
      exact ⟨h2.1, List.IsPrefix.trans h1.2 h2.2⟩
    · rename_i r hne
      exact absurd h (hne st')

theorem forLoop_ne_fuel (ph2 : Bool) (rw : Rewriter) (acc : Oracle) (n : Nat) :
    ∀ (i : Nat) (st : List Entry), forLoop ph2 rw acc n i st ≠ .fuel := by
  induction n with
  | zero => intro i st; simp [forLoop]
  | succ n ih =>
    intro i st
    simp only [forLoop]
    split
    · exact ih _ _
    · rename_i r hne
      exact body_ne_fuel ph2 rw acc st i

theorem whileLoop_inv (ph2 : Bool) (rw : Rewriter) (acc : Oracle) (P : Cand → Prop)
    (hcl : StepClosed ph2 rw acc P) (f : Nat) :
    ∀ (oldLen : Nat) (st st' : List Entry), Inv P (cands st) → whileLoop ph2 rw acc f oldLen st = .ok st' →
      Inv P (cands st') ∧ cands st <+: cands st' := by
  induction f with
  | zero => intro oldLen st st' _ h; simp [whileLoop] at h
  | succ f ih =>
    intro oldLen st st' hi h
    simp only [whileLoop] at h
    split at h
    · injection h with h; subst h; exact ⟨hi, List.prefix_refl _⟩
    · split at h
      · rename_i st1 hf
        have h1 := forLoop_inv ph2 rw acc P hcl st.length 0 st st1 hi hf
        have h2 := ih st.length st1 st' h1.1 h
        exact ⟨h2.1, List.IsPrefix.trans h1.2 h2.2⟩
      · rename_i r hne
        exact absurd h (hne st')

/-- a duplicate-free state inside a finite universe of label lists is no longer than the universe -/
theorem length_le_of_inv (P : Cand → Prop) (U : List (List String)) (hU : ∀ c, P c → c.1 ∈ U)
    (st : List Entry) (hi : Inv P (cands st)) : st.length ≤ U.length := by
  have hsub : (cands st).map Prod.fst ⊆ U := by
    intro L hL
    obtain ⟨c, hc, rfl⟩ := List.mem_map.mp hL
    exact hU c (hi.mem c hc)
  have := (List.subperm_of_subset hi.nodup hsub).length_le
  simpa [cands] using this

/-- **pass bound**: inside a finite universe `U` of label lists the `while` loop needs at most `|U| + 1` passes -/
theorem whileLoop_ne_fuel (ph2 : Bool) (rw : Rewriter) (acc : Oracle) (P : Cand → Prop)
    (hcl : StepClosed ph2 rw acc P) (U : List (List String)) (hU : ∀ c, P c → c.1 ∈ U) (f : Nat) :
    ∀ (oldLen : Nat) (st : List Entry), Inv P (cands st) → oldLen ≤ st.length → U.length + 2 ≤ f + oldLen →
      whileLoop ph2 rw acc f oldLen st ≠ .fuel := by
  induction f with
  | zero =>
    intro oldLen st hi hle hf
    have := length_le_of_inv P U hU st hi
    omega
  | succ f ih =>
    intro oldLen st hi hle hf
    simp only [whileLoop]
    split
    · simp
    · rename_i hne
      split
      · rename_i st1 hfl
        have h1 := forLoop_inv ph2 rw acc P hcl st.length 0 st st1 hi hfl
        have hlen : st.length ≤ st1.length := by
          have := h1.2.length_le
          simpa [length_cands] using this
        exact ih st.length st1 h1.1 hlen (by omega)
      · rename_i r hr
        intro hfu
        exact forLoop_ne_fuel ph2 rw acc st.length 0 st hfu

/-- more fuel never changes a normal result -/
theorem whileLoop_fuel_mono (ph2 : Bool) (rw : Rewriter) (acc : Oracle) (f : Nat) :
    ∀ (oldLen : Nat) (st st' : List Entry), whileLoop ph2 rw acc f oldLen st = .ok st' →
      whileLoop ph2 rw acc (f + 1) oldLen st = .ok st' := by
  induction f with
  | zero => intro oldLen st st' h; simp [whileLoop] at h
  | succ f ih =>
    intro oldLen st st' h
    rw [whileLoop] at h ⊢
    split
    · rename_i hl; simpa [hl] using h
    · rename_i hl
      simp only [hl, if_false] at h
      split
      · rename_i st1 hfl
        rw [hfl] at h
        exact ih _ _ _ h
      · rename_i r hr
        split at h
        · rename_i st1 hfl; exact absurd hfl (hr st1)
        · exact h

theorem cands_resetTry (st : List Entry) : cands (resetTry st) = cands st := by
  simp [cands, resetTry, Entry.cand, Function.comp_def]

/-! ### a finite universe from a decreasing measure and a bounded number of try indices -/

/-- the candidates of one round of rewriting of every member, try indices below `W labels` -/
def expand (rw : Rewriter) (W : List String → Nat) (xs : List Cand) : List Cand :=
  xs.flatMap fun e => (List.range (W e.1)).flatMap fun k => candsOf (rw e.1 e.2 k)

/-- everything reachable in at most `d` rounds -/
def closure (rw : Rewriter) (W : List String → Nat) : Nat → List Cand → List Cand
  | 0, xs => xs
  | d + 1, xs => xs ++ closure rw W d (expand rw W xs)

/-- reachable in exactly `d` steps -/
inductive R1n (rw1 : Rewriter) (inp : Cand) : Nat → Cand → Prop
  | root : R1n rw1 inp 0 inp
  | step {d : Nat} {p c : Cand} (k : Nat) : R1n rw1 inp d p → c ∈ candsOf (rw1 p.1 p.2 k) → R1n rw1 inp (d + 1) c

theorem R1_iff_R1n (rw1 : Rewriter) (inp c : Cand) : R1 rw1 inp c ↔ ∃ d, R1n rw1 inp d c := by
  constructor
  · intro h
    induction h with
    | root => exact ⟨0, .root⟩
    | step k _ hc ih => obtain ⟨d, hd⟩ := ih; exact ⟨d + 1, .step k hd hc⟩
  · rintro ⟨d, h⟩
    induction h with
    | root => exact .root
    | step k _ hc ih => exact .step k ih hc

theorem R1n_R1 (rw1 : Rewriter) (inp c : Cand) (d : Nat) (h : R1n rw1 inp d c) : R1 rw1 inp c :=
  (R1_iff_R1n rw1 inp c).mpr ⟨d, h⟩

def iterExpand (rw : Rewriter) (W : List String → Nat) : Nat → List Cand → List Cand
  | 0, xs => xs
  | d + 1, xs => iterExpand rw W d (expand rw W xs)

theorem iterExpand_succ (rw : Rewriter) (W : List String → Nat) (d : Nat) :
    ∀ xs, iterExpand rw W (d + 1) xs = expand rw W (iterExpand rw W d xs) := by
  induction d with
  | zero => intro xs; rfl
  | succ d ih => intro xs; rw [iterExpand, ih]; rfl

theorem iterExpand_sub_closure (rw : Rewriter) (W : List String → Nat) (D : Nat) :
    ∀ (d : Nat) (xs : List Cand), d ≤ D → iterExpand rw W d xs ⊆ closure rw W D xs := by
  induction D with
  | zero =>
    intro d xs hd
    have : d = 0 := by omega
    subst this; exact fun _ h => h
  | succ D ih =>
    intro d xs hd
    cases d with
    | zero => intro c hc; simp only [closure]; exact List.mem_append_left _ hc
    | succ d =>
      intro c hc
      simp only [closure]
      exact List.mem_append_right _ (ih d (expand rw W xs) (by omega) hc)

/-- with try indices that matter bounded by `W` and a measure `μ` that drops on every step taken from a reachable
tree, everything reachable is in the computed closure of depth `μ input` -/
theorem reach_in_closure (rw1 : Rewriter) (W : List String → Nat) (μ : List String → Nat) (inp : Cand)
    (hW : ∀ p, R1 rw1 inp p → ∀ k, W p.1 ≤ k → candsOf (rw1 p.1 p.2 k) = [])
    (hμ : ∀ p, R1 rw1 inp p → ∀ k c, c ∈ candsOf (rw1 p.1 p.2 k) → μ c.1 < μ p.1)
    (c : Cand) (h : R1 rw1 inp c) : c ∈ closure rw1 W (μ inp.1) [inp] := by
  obtain ⟨d, hd⟩ := (R1_iff_R1n rw1 inp c).mp h
  have key : ∀ d c, R1n rw1 inp d c → μ c.1 + d ≤ μ inp.1 ∧ c ∈ iterExpand rw1 W d [inp] := by
    intro d c hd
    induction hd with
    | root => exact ⟨by omega, by simp [iterExpand]⟩
    | @step d p c k hp hc ih =>
      have hR := R1n_R1 rw1 inp p d hp
      have hlt := hμ p hR k c hc
      refine ⟨by omega, ?_⟩
      rw [iterExpand_succ]
      unfold expand
      rw [List.mem_flatMap]
      refine ⟨p, ih.2, ?_⟩
      rw [List.mem_flatMap]
      refine ⟨k, ?_, hc⟩
      rw [List.mem_range]
      by_contra hge
      have := hW p hR k (by omega)
      rw [this] at hc
      cases hc
  have := key d c hd
  exact iterExpand_sub_closure rw1 W (μ inp.1) d [inp] (by omega) this.2

/-! ### the two phases of `findAdditional` -/

theorem inv_singleton (P : Cand → Prop) (inp : Cand) (h : P inp) : Inv P (cands [⟨inp.1, inp.2, 0⟩]) :=
  ⟨by intro c hc; simp [cands, Entry.cand] at hc; subst hc; exact h, by simp [cands]⟩

/-- what a normal return of the model says about its two phases -/
theorem findAdditional_ok (rw1 rw2 : Rewriter) (acc : Oracle) (fuel : Nat) (inp : Cand) (out : List Cand)
    (h : findAdditional rw1 rw2 acc fuel inp = .ok out) :
    ∃ st1 st2, phase1 rw1 acc fuel inp = .ok st1 ∧
      whileLoop true rw2 acc fuel 0 (resetTry st1) = .ok st2 ∧ out = cands st2 := by
  unfold findAdditional at h
  split at h <;> try cases h
  rename_i st1 h1
  split at h <;> try cases h
  rename_i st2 h2
  exact ⟨st1, st2, h1, h2, rfl⟩

theorem phase1_inv (rw1 : Rewriter) (acc : Oracle) (fuel : Nat) (inp : Cand) (st1 : List Entry)
    (h : phase1 rw1 acc fuel inp = .ok st1) :
    Inv (R1 rw1 inp) (cands st1) ∧ [inp] <+: cands st1 := by
  have := whileLoop_inv false rw1 acc (R1 rw1 inp) (R1_closed rw1 acc inp) fuel 0 _ st1
    (inv_singleton _ inp .root) h
  simpa [cands, Entry.cand] using this

theorem phase2_inv (rw1 rw2 : Rewriter) (acc : Oracle) (fuel : Nat) (inp : Cand) (st1 st2 : List Entry)
    (h1 : phase1 rw1 acc fuel inp = .ok st1)
    (h2 : whileLoop true rw2 acc fuel 0 (resetTry st1) = .ok st2) :
    Inv (R2 rw1 rw2 acc inp) (cands st2) ∧ cands st1 <+: cands st2 := by
  have i1 := (phase1_inv rw1 acc fuel inp st1 h1).1
  have i1' : Inv (R2 rw1 rw2 acc inp) (cands (resetTry st1)) := by
    rw [cands_resetTry]; exact ⟨fun c hc => .base (i1.mem c hc), i1.nodup⟩
  have := whileLoop_inv true rw2 acc (R2 rw1 rw2 acc inp) (R2_closed rw1 rw2 acc inp) fuel 0 _ st2 i1' h2
  rwa [cands_resetTry] at this


/-! ### `update_tree`: no candidates beyond `len(labels)` try indices -/

open ESR.Rewrite.UT in
theorem specialsFrom_length (L : List String) (is : List Nat) (sps : List Special)
    (h : specialsFrom L is = some sps) : sps.length ≤ is.length := by
  induction is generalizing sps with
  | nil => simp [specialsFrom] at h; subst h; simp
  | cons i is ih =>
    simp only [specialsFrom] at h
    split at h
    · cases h
    · split at h
      · cases h
      · rename_i r _ rest hrest
        injection h with h
        have := ih rest hrest
        subst h
        split <;> simp <;> omega

open ESR.Rewrite.UT in
/-- `update_tree` returns `(None, None, 0)` for every `try_idx ≥ len(labels)` (at most one special index per label) -/
theorem updateTree_none_of_ge (L : List String) (S : List Nat) (k : Nat) (B : Basis) (h : L.length ≤ k) :
    candsOf (updateTree L S k B) = [] := by
  unfold updateTree
  split
  · rfl
  · rename_i sps hs
    have hl : sps.length ≤ L.length := by
      have := specialsFrom_length L _ sps hs
      simpa using this
    have : sps[k]? = none := by rw [List.getElem?_eq_none_iff]; omega
    simp [this, candsOf]


/-! ### scripts stay inside their universe -/

theorem script_cand_mem (s : Script) (j : Nat) : (s.cand j).1 ∈ [] :: s.univ.map Prod.fst := by
  unfold Script.cand
  by_cases h : j < s.univ.length
  · rw [List.getD_eq_getElem?_getD, List.getElem?_eq_getElem h]
    simp only [Option.getD_some]
    exact List.mem_cons_of_mem _ (List.mem_map_of_mem (List.getElem_mem h))
  · rw [List.getD_eq_getElem?_getD, List.getElem?_eq_none (by omega)]
    simp

theorem script_rewriter_mem (s : Script) (tab : List ((Nat × Nat) × SOut)) (L : List String) (S : List Nat)
    (k : Nat) (c : Cand) (h : c ∈ candsOf (s.rewriter tab L S k)) : c.1 ∈ [] :: s.univ.map Prod.fst := by
  unfold Script.rewriter at h
  split at h
  · simp [candsOf] at h
  · split at h
    · simp [candsOf] at h
    · simp [candsOf] at h
    · simp [candsOf] at h
    · simp only [candsOf, List.mem_singleton] at h
      subst h; exact script_cand_mem s _
    · simp only [candsOf, List.mem_map] at h
      obtain ⟨j, _, rfl⟩ := h
      exact script_cand_mem s j


end ESR.Rewrite.Drv
