import ESRVerif.Model.Effects
/-!
Helper lemmas for C16: `safeAll` (decided on the structured effect summary) implies `safe` on the trace of every execution.
-/
namespace ESR.Effects

theorem safe_cons (F : List String) (e : Eff) (rest : List Eff) :
    safe F (e :: rest) = if e.acc.isWrite then safe (e.file :: F) rest else (F.contains e.file && safe F rest) := by
  cases h : e.acc <;> simp [safe, h, Acc.isWrite]

theorem writes_cons (e : Eff) (rest : List Eff) :
    writes (e :: rest) = if e.acc.isWrite then e.file :: writes rest else writes rest := rfl

/-- the effect `e` demands no more and guarantees no less than `ew` -/
def Covers (ew e : Eff) : Prop := ew.file = e.file ∧ (ew.acc.isWrite = true → e.acc.isWrite = true)

inductive CoversL : List Eff → List Eff → Prop where
  | nil : CoversL [] []
  | cons {ew e : Eff} {tw t : List Eff} : Covers ew e → CoversL tw t → CoversL (ew :: tw) (e :: t)

theorem safe_of_covers {tw t : List Eff} (hc : CoversL tw t) :
    ∀ {F F' : List String}, (∀ x ∈ F, x ∈ F') → safe F tw = true → safe F' t = true := by
  induction hc with
  | nil => intro F F' _ _; simp [safe]
  | @cons ew e tw' t' hcov _ ih =>
    intro F F' hsub hs
    rw [safe_cons] at hs ⊢
    obtain ⟨hfile, hw⟩ := hcov
    by_cases hew : ew.acc.isWrite = true
    · simp only [hew, ↓reduceIte] at hs
      simp only [hw hew, ↓reduceIte]
      refine ih ?_ hs
      intro x hx
      rcases List.mem_cons.mp hx with h1 | h1
      · simp [h1, hfile]
      · exact List.mem_cons_of_mem _ (hsub x h1)
    · simp only [hew, Bool.false_eq_true, ↓reduceIte, Bool.and_eq_true] at hs
      have hmem : e.file ∈ F' := by
        have : ew.file ∈ F := by simpa using hs.1
        exact hfile ▸ hsub _ this
      by_cases he : e.acc.isWrite = true
      · simp only [he, ↓reduceIte]
        exact ih (fun x hx => List.mem_cons_of_mem _ (hsub x hx)) hs.2
      · simp only [he, Bool.false_eq_true, ↓reduceIte, Bool.and_eq_true]
        exact ⟨by simpa using hmem, ih hsub hs.2⟩

theorem covers_refl (t : List Eff) : CoversL t t := by
  induction t with
  | nil => exact .nil
  | cons e rest ih => exact .cons ⟨rfl, id⟩ ih

theorem safe_mono {F F' : List String} (t : List Eff) (h : ∀ x ∈ F, x ∈ F') (hs : safe F t = true) : safe F' t = true :=
  safe_of_covers (covers_refl t) h hs

theorem writes_of_covers {tw t : List Eff} (hc : CoversL tw t) : ∀ x ∈ writes tw, x ∈ writes t := by
  induction hc with
  | nil => intro x hx; simp [writes] at hx
  | @cons ew e tw' t' hcov _ ih =>
    intro x hx
    rw [writes_cons] at hx ⊢
    obtain ⟨hfile, hw⟩ := hcov
    by_cases hew : ew.acc.isWrite = true
    · simp only [hew, ↓reduceIte] at hx
      simp only [hw hew, ↓reduceIte]
      rcases List.mem_cons.mp hx with h1 | h1
      · simp [h1, hfile]
      · exact List.mem_cons_of_mem _ (ih x h1)
    · simp only [hew, Bool.false_eq_true, ↓reduceIte] at hx
      by_cases he : e.acc.isWrite = true
      · simp only [he, ↓reduceIte]; exact List.mem_cons_of_mem _ (ih x hx)
      · simp only [he, Bool.false_eq_true, ↓reduceIte]; exact ih x hx

theorem safe_append {t1 t2 : List Eff} : ∀ {F : List String}, safe F t1 = true → safe (writes t1 ++ F) t2 = true →
    safe F (t1 ++ t2) = true := by
  induction t1 with
  | nil => intro F _ h2; simpa [writes] using h2
  | cons e rest ih =>
    intro F h1 h2
    rw [List.cons_append, safe_cons]
    rw [safe_cons] at h1
    rw [writes_cons] at h2
    by_cases he : e.acc.isWrite = true
    · simp only [he, ↓reduceIte] at h1 h2 ⊢
      refine ih h1 (safe_mono t2 ?_ h2)
      intro x hx
      simp only [List.cons_append, List.mem_cons, List.mem_append] at hx ⊢
      rcases hx with h | h | h
      · exact Or.inr (Or.inl h)
      · exact Or.inl h
      · exact Or.inr (Or.inr h)
    · simp only [he, Bool.false_eq_true, ↓reduceIte, Bool.and_eq_true] at h1 h2 ⊢
      exact ⟨h1.1, ih h1.2 h2⟩

theorem safe_append_each {t1 t2 : List Eff} {F : List String} (h1 : safe F t1 = true) (h2 : safe F t2 = true) :
    safe F (t1 ++ t2) = true :=
  safe_append h1 (safe_mono t2 (fun _ hx => List.mem_append_right _ hx) h2)

/-! resolutions are covered by the weak reading -/

theorem resolve_covers_none (g : GEff) (first pick : Bool) : Covers (g.weak none) (g.resolve first pick) := by
  unfold GEff.weak GEff.resolve Covers
  cases g.cond <;> cases first <;> cases pick <;> cases h1 : g.eff.acc <;> cases h2 : g.alt <;> simp_all [Acc.isWrite]

theorem resolve_covers_some (g : GEff) (first pick : Bool) : Covers (g.weak (some first)) (g.resolve first pick) := by
  unfold GEff.weak GEff.resolve Covers
  cases g.cond <;> cases first <;> cases pick <;> cases h1 : g.eff.acc <;> cases h2 : g.alt <;> simp_all [Acc.isWrite]

theorem resolveOps_covers_none (first : Bool) (ops : List GEff) :
    ∀ picks, CoversL (ops.map (GEff.weak none)) (resolveOps first picks ops) := by
  induction ops with
  | nil => intro picks; cases picks <;> exact .nil
  | cons g rest ih =>
    intro picks
    cases picks with
    | nil => exact .cons (resolve_covers_none g first true) (ih [])
    | cons p ps => exact .cons (resolve_covers_none g first p) (ih ps)

theorem resolveOps_covers_some (first : Bool) (ops : List GEff) :
    ∀ picks, CoversL (ops.map (GEff.weak (some first))) (resolveOps first picks ops) := by
  induction ops with
  | nil => intro picks; cases picks <;> exact .nil
  | cons g rest ih =>
    intro picks
    cases picks with
    | nil => exact .cons (resolve_covers_some g first true) (ih [])
    | cons p ps => exact .cons (resolve_covers_some g first p) (ih ps)

/-! loops -/

theorem safe_traceLoop_skips (ops : List GEff) (F : List String) (h : safe F (ops.map (GEff.weak none)) = true) :
    ∀ (head : Bool) (its : List IterChoice), safe F (traceLoop true ops head its) = true := by
  intro head its
  induction its generalizing head with
  | nil => simp [traceLoop, safe]
  | cons it rest ih =>
    simp only [traceLoop, ↓reduceIte]
    exact safe_append_each (safe_of_covers (resolveOps_covers_none _ ops _) (fun _ hx => hx) h) (ih false)

theorem safe_traceLoop_later (ops : List GEff) (F : List String) (h : safe F (ops.map (GEff.weak (some false))) = true) :
    ∀ its : List IterChoice, safe F (traceLoop false ops false its) = true := by
  intro its
  induction its with
  | nil => simp [traceLoop, safe]
  | cons it rest ih =>
    simp only [traceLoop, Bool.false_eq_true, ↓reduceIte]
    exact safe_append_each (safe_of_covers (resolveOps_covers_some false ops _) (fun _ hx => hx) h) ih

theorem safe_traceLoop_range (ops : List GEff) (F : List String)
    (h1 : safe F (ops.map (GEff.weak (some true))) = true)
    (h2 : safe (writes (ops.map (GEff.weak (some true))) ++ F) (ops.map (GEff.weak (some false))) = true) :
    ∀ its : List IterChoice, safe F (traceLoop false ops true its) = true := by
  intro its
  cases its with
  | nil => simp [traceLoop, safe]
  | cons it rest =>
    simp only [traceLoop, Bool.false_eq_true, ↓reduceIte]
    have hc := resolveOps_covers_some true ops it.picks
    refine safe_append (safe_of_covers hc (fun _ hx => hx) h1) ?_
    refine safe_traceLoop_later ops _ (safe_mono _ ?_ h2) rest
    intro x hx
    rcases List.mem_append.mp hx with h | h
    · exact List.mem_append_left _ (writes_of_covers hc x h)
    · exact List.mem_append_right _ h

theorem safe_traceBlock (F : List String) (b : Block) (h : safeBlock F b = true) (r : List IterChoice) :
    safe F (traceBlock b r) = true := by
  cases b with
  | straight ops =>
    cases r with
    | nil => exact safe_of_covers (resolveOps_covers_none true ops []) (fun _ hx => hx) h
    | cons it _ => exact safe_of_covers (resolveOps_covers_none it.first ops it.picks) (fun _ hx => hx) h
  | loop skips ops =>
    cases skips with
    | true => exact safe_traceLoop_skips ops F h true r
    | false =>
      simp only [safeBlock, Bool.and_eq_true] at h
      exact safe_traceLoop_range ops F h.1 h.2 r

theorem freshAfter_sub (F : List String) (b : Block) (r : List IterChoice) :
    ∀ x ∈ freshAfter F b, x ∈ writes (traceBlock b r) ++ F := by
  intro x hx
  cases b with
  | straight ops =>
    simp only [freshAfter] at hx
    rcases List.mem_append.mp hx with h | h
    · refine List.mem_append_left _ ?_
      cases r with
      | nil => exact writes_of_covers (resolveOps_covers_none true ops []) x h
      | cons it _ => exact writes_of_covers (resolveOps_covers_none it.first ops it.picks) x h
    · exact List.mem_append_right _ h
  | loop skips ops => exact List.mem_append_right _ hx

theorem safe_trace (prog : Prog) : ∀ (F : List String), safeAll F prog = true →
    ∀ runs : List (List IterChoice), safe F (trace prog runs) = true := by
  induction prog with
  | nil => intro F _ runs; cases runs <;> simp [trace, safe]
  | cons b rest ih =>
    intro F h runs
    simp only [safeAll, Bool.and_eq_true] at h
    cases runs with
    | nil =>
      simp only [trace]
      exact safe_append (safe_traceBlock F b h.1 []) (safe_mono _ (freshAfter_sub F b []) (ih _ h.2 []))
    | cons r rs =>
      simp only [trace]
      exact safe_append (safe_traceBlock F b h.1 r) (safe_mono _ (freshAfter_sub F b r) (ih _ h.2 rs))

/-! a file that is appended to but never truncated keeps what earlier runs left in it -/

theorem exec_keeps_prefix (p : String) (t : List Stmt) :
    ∀ (s : Store) (env : List (List Val)), (∀ st ∈ t, st.eff.file = p → st.eff.acc.isWrite = false) →
      ∃ suffix, (exec t s env).1 p = s p ++ suffix := by
  induction t with
  | nil => intro s env _; exact ⟨[], by simp [exec]⟩
  | cons st rest ih =>
    intro s env h
    have hrest : ∀ st' ∈ rest, st'.eff.file = p → st'.eff.acc.isWrite = false :=
      fun st' hm => h st' (List.mem_cons_of_mem _ hm)
    have hst := h st (List.mem_cons_self ..)
    cases hacc : st.eff.acc with
    | w =>
      have hne : ¬ p = st.eff.file := fun e => by simpa [hacc, Acc.isWrite] using hst e.symm
      obtain ⟨suf, hs⟩ := ih (upd s st.eff.file (st.content env)) env hrest
      exact ⟨suf, by simp only [exec, hacc, hs, upd, hne, if_false]⟩
    | rm =>
      have hne : ¬ p = st.eff.file := fun e => by simpa [hacc, Acc.isWrite] using hst e.symm
      obtain ⟨suf, hs⟩ := ih (upd s st.eff.file []) env hrest
      exact ⟨suf, by simp only [exec, hacc, hs, upd, hne, if_false]⟩
    | r =>
      obtain ⟨suf, hs⟩ := ih s (env ++ [s st.eff.file]) hrest
      exact ⟨suf, by simp only [exec, hacc, hs]⟩
    | a =>
      obtain ⟨suf, hs⟩ := ih (upd s st.eff.file (s st.eff.file ++ st.content env)) env hrest
      by_cases hp : p = st.eff.file
      · refine ⟨st.content env ++ suf, ?_⟩
        subst hp
        simp only [exec, hacc, hs, upd, ↓reduceIte, List.append_assoc]
      · exact ⟨suf, by simp only [exec, hacc, hs, upd, hp, if_false]⟩

theorem unsafe_of_untruncated_append (p : String) (t : List Eff) :
    ∀ (F : List String), p ∉ F → (∀ e ∈ t, e.file = p → e.acc.isWrite = false) → (∃ e ∈ t, e.file = p ∧ e.acc = .a) →
      safe F t = false := by
  induction t with
  | nil => intro F _ _ h; obtain ⟨e, he, _⟩ := h; simp at he
  | cons e rest ih =>
    intro F hF hno hex
    rw [safe_cons]
    have hrest : ∀ e' ∈ rest, e'.file = p → e'.acc.isWrite = false := fun e' hm => hno e' (List.mem_cons_of_mem _ hm)
    by_cases hfile : e.file = p
    · have hw := hno e (List.mem_cons_self ..) hfile
      simp only [hw, Bool.false_eq_true, ↓reduceIte]
      have : F.contains e.file = false := by
        rw [hfile]; simpa using hF
      rw [this]; rfl
    · have hrestex : ∃ e' ∈ rest, e'.file = p ∧ e'.acc = .a := by
        obtain ⟨e', hm, hf, ha⟩ := hex
        rcases List.mem_cons.mp hm with h1 | h1
        · exact absurd (h1 ▸ hf) hfile
        · exact ⟨e', h1, hf, ha⟩
      by_cases he : e.acc.isWrite = true
      · simp only [he, ↓reduceIte]
        refine ih _ ?_ hrest hrestex
        intro hm
        rcases List.mem_cons.mp hm with h1 | h1
        · exact hfile h1.symm
        · exact hF h1
      · simp only [he, Bool.false_eq_true, ↓reduceIte]
        simp [ih F hF hrest hrestex]

end ESR.Effects
