import ESRVerif.Model.ShapePtr
/-!
Helper lemmas for `checkTreePtr_eq` (C01): the stack of `Model/Shape.lean` `checkTree` is, at every iteration,
the list of open binary nodes (`type == 2`, `right is None`) met when climbing the parent pointers from the
current node to the root, nearest first.  Core Lean only.
-/
namespace ESR.ShapeProofs
open ESR.Shape

/-- Node `j` is binary and its right slot is still free. -/
def IsOpen (s : List Nat) (right : List (Option Nat)) (j : Nat) : Bool :=
  s[j]? == some 2 && right[j]? == some none

/-- `js` is the chain of proper ancestors of `k` (nearest first, ending at the root) in the `parent` array;
indices strictly decrease along it. -/
def IsPath (parent : List (Option Nat)) : Nat → List Nat → Prop
  | k, [] => parent[k]? = some none
  | k, j :: js => parent[k]? = some (some j) ∧ j < k ∧ IsPath parent j js

def toP (st : St) : PSt := ⟨st.parent, st.left, st.right⟩

theorem isOpen_iff (s : List Nat) (right : List (Option Nat)) (j : Nat) :
    IsOpen s right j = true ↔ s[j]? = some 2 ∧ right[j]? = some none := by
  simp [IsOpen]

/-! ### paths -/

theorem IsPath.lt (parent : List (Option Nat)) (k : Nat) (js : List Nat) (h : IsPath parent k js) :
    ∀ x ∈ js, x < k := by
  induction js generalizing k with
  | nil => simp
  | cons j js ih =>
    obtain ⟨_, hjk, hrest⟩ := h
    intro x hx
    rcases List.mem_cons.mp hx with rfl | hx
    · exact hjk
    · exact Nat.lt_trans (ih j hrest x hx) hjk

theorem IsPath.length_le (parent : List (Option Nat)) (k : Nat) (js : List Nat) (h : IsPath parent k js) :
    js.length ≤ k := by
  induction js generalizing k with
  | nil => simp
  | cons j js ih =>
    obtain ⟨_, hjk, hrest⟩ := h
    have := ih j hrest
    simp only [List.length_cons]; omega

/-- Writing the parent of a node above `k` does not change the path from `k`. -/
theorem IsPath.set (parent : List (Option Nat)) (k m : Nat) (v : Option Nat) (js : List Nat)
    (h : IsPath parent k js) (hkm : k < m) : IsPath (parent.set m v) k js := by
  induction js generalizing k with
  | nil =>
    simp only [IsPath] at h ⊢
    rw [List.getElem?_set_ne (by omega)]; exact h
  | cons j js ih =>
    obtain ⟨h1, hjk, hrest⟩ := h
    refine ⟨?_, hjk, ih j hrest (by omega)⟩
    rw [List.getElem?_set_ne (by omega)]; exact h1

/-- The part of a path after one of its nodes is that node's path. -/
theorem IsPath.suffix (parent : List (Option Nat)) (k : Nat) (pre : List Nat) (j : Nat) (post : List Nat)
    (h : IsPath parent k (pre ++ j :: post)) : IsPath parent j post := by
  induction pre generalizing k with
  | nil => exact h.2.2
  | cons p pre ih => exact ih p h.2.2

/-! ### the climb finds the nearest open binary on the path -/

theorem climb_path (s : List Nat) (parent right : List (Option Nat))
    (hp : parent.length = s.length) (hr : right.length = s.length)
    (k : Nat) (js : List Nat) (hpath : IsPath parent k js) (fuel : Nat) (hf : js.length < fuel) :
    climb s parent right fuel (some k) = .val ((k :: js).find? (IsOpen s right)) := by
  induction js generalizing k fuel with
  | nil =>
    cases fuel with
    | zero => omega
    | succ f =>
      have hk : parent[k]? = some none := hpath
      have hkl : k < s.length := by
        have : k < parent.length := by
          apply Decidable.byContradiction; intro hc
          rw [List.getElem?_eq_none_iff.mpr (by omega)] at hk; simp at hk
        omega
      obtain ⟨t, ht⟩ : ∃ t, s[k]? = some t := ⟨s[k], List.getElem?_eq_getElem hkl⟩
      obtain ⟨r, hrr⟩ : ∃ r, right[k]? = some r := ⟨right[k], List.getElem?_eq_getElem (by omega)⟩
      unfold climb
      simp only [ht, hrr, hk, if_true]
      by_cases hopen : t = 2 ∧ r = none
      · have : IsOpen s right k = true := (isOpen_iff _ _ _).mpr ⟨by rw [ht, hopen.1], by rw [hrr, hopen.2]⟩
        simp [hopen, this]
      · have : IsOpen s right k = false := by
          cases h : IsOpen s right k with
          | false => rfl
          | true =>
            obtain ⟨h1, h2⟩ := (isOpen_iff _ _ _).mp h
            rw [ht] at h1; rw [hrr] at h2
            simp only [Option.some.injEq] at h1 h2
            exact absurd ⟨h1, h2⟩ hopen
        simp [hopen, this]
  | cons j js ih =>
    cases fuel with
    | zero => omega
    | succ f =>
      obtain ⟨hk, hjk, hrest⟩ := hpath
      have hkl : k < s.length := by
        have : k < parent.length := by
          apply Decidable.byContradiction; intro hc
          rw [List.getElem?_eq_none_iff.mpr (by omega)] at hk; simp at hk
        omega
      obtain ⟨t, ht⟩ : ∃ t, s[k]? = some t := ⟨s[k], List.getElem?_eq_getElem hkl⟩
      obtain ⟨r, hrr⟩ : ∃ r, right[k]? = some r := ⟨right[k], List.getElem?_eq_getElem (by omega)⟩
      have ihj := ih j hrest f (by simp only [List.length_cons] at hf; omega)
      unfold climb
      simp only [ht, hrr, hk]
      by_cases hopen : t = 2 ∧ r = none
      · have : IsOpen s right k = true := (isOpen_iff _ _ _).mpr ⟨by rw [ht, hopen.1], by rw [hrr, hopen.2]⟩
        simp [hopen, this]
      · have : IsOpen s right k = false := by
          cases h : IsOpen s right k with
          | false => rfl
          | true =>
            obtain ⟨h1, h2⟩ := (isOpen_iff _ _ _).mp h
            rw [ht] at h1; rw [hrr] at h2
            simp only [Option.some.injEq] at h1 h2
            exact absurd ⟨h1, h2⟩ hopen
        rw [if_neg hopen, if_neg (by simp), ihj]
        conv => rhs; rw [List.find?_cons, this]

/-! ### the loop invariant -/

/-- State of the stack model at the start of iteration `i`, related to the arrays. -/
structure Inv (s : List Nat) (i : Nat) (st : St) : Prop where
  hi : i < s.length
  lp : st.parent.length = s.length
  ll : st.left.length = s.length
  lr : st.right.length = s.length
  /-- the stack is the list of open binaries on the path from `i` to the root -/
  path : ∃ anc, IsPath st.parent i anc ∧ anc.filter (IsOpen s st.right) = st.stack ∧ (0 < i → anc ≠ [])
  rfree : ∀ k, i ≤ k → k < s.length → st.right[k]? = some none
  lfree : ∀ k, i ≤ k → k < s.length → st.left[k]? = some none
  lset : ∀ k, k < i → (s[k]? = some 1 ∨ s[k]? = some 2) → st.left[k]? = some (some (k + 1))
  /-- every open binary already placed is on the stack -/
  openIn : ∀ k, k < i → IsOpen s st.right k = true → k ∈ st.stack

theorem inv_init (s : List Nat) (h : 0 < s.length) : Inv s 0 (initSt s.length) where
  hi := h
  lp := by simp [initSt]
  ll := by simp [initSt]
  lr := by simp [initSt]
  path := ⟨[], by simp [IsPath, initSt, h], by simp [initSt], by simp⟩
  rfree := by intro k _ hk; simp [initSt, hk]
  lfree := by intro k _ hk; simp [initSt, hk]
  lset := by intro k hk; omega
  openIn := by intro k hk; omega

/-- Iteration `i` on a unary/binary node. -/
theorem step_inv_down (s : List Nat) (i a : Nat) (st : St) (hinv : Inv s i st) (ha : s[i]? = some a)
    (hi1 : i + 1 < s.length) (h12 : a = 1 ∨ a = 2) :
    ∃ st', stepNode a i st = some st' ∧ stepPtr s i (toP st) = .val (some (toP st')) ∧ Inv s (i + 1) st' := by
  obtain ⟨anc, hpath, hfilt, _⟩ := hinv.path
  refine ⟨_, by unfold stepNode; rw [if_pos h12], ?_, ?_⟩
  · unfold stepPtr
    have h21 : a = 2 ∨ a = 1 := h12.symm
    simp only [ha, if_pos h21, toP]
  · have hopen : IsOpen s st.right i = (a == 2) := by
      unfold IsOpen
      rw [ha, hinv.rfree i (Nat.le_refl _) hinv.hi]
      simp
    refine
      { hi := hi1
        lp := by simp [hinv.lp]
        ll := by simp [hinv.ll]
        lr := hinv.lr
        path := ⟨i :: anc, ⟨?_, Nat.lt_succ_self i, IsPath.set _ _ _ _ _ hpath (Nat.lt_succ_self i)⟩, ?_, by simp⟩
        rfree := fun k hk hkl => hinv.rfree k (by omega) hkl
        lfree := ?_
        lset := ?_
        openIn := ?_ }
    · show (st.parent.set (i + 1) (some i))[i + 1]? = some (some i)
      rw [List.getElem?_set_self (by rw [hinv.lp]; exact hi1)]
    · show (i :: anc).filter (IsOpen s st.right) = if a = 2 then i :: st.stack else st.stack
      rw [List.filter_cons, hopen, hfilt]
      by_cases h2 : a = 2 <;> simp [h2]
    · intro k hk hkl
      show (st.left.set i (some (i + 1)))[k]? = some none
      rw [List.getElem?_set_ne (by omega)]
      exact hinv.lfree k (by omega) hkl
    · intro k hk hs
      show (st.left.set i (some (i + 1)))[k]? = some (some (k + 1))
      by_cases hki : k = i
      · subst hki
        rw [List.getElem?_set_self (by rw [hinv.ll]; exact hinv.hi)]
      · rw [List.getElem?_set_ne (by omega)]
        exact hinv.lset k (by omega) hs
    · intro k hk hko
      show k ∈ (if a = 2 then i :: st.stack else st.stack)
      have hko' : IsOpen s st.right k = true := hko
      by_cases hki : k = i
      · subst hki
        rw [hopen] at hko'
        have : a = 2 := by simpa using hko'
        simp [this]
      · have := hinv.openIn k (by omega) hko'
        by_cases h2 : a = 2 <;> simp [h2, this]

/-- Iteration `i` on a node that is neither unary nor binary (not the first node): climb. -/
theorem step_inv_up (s : List Nat) (i a : Nat) (st : St) (hinv : Inv s i st) (ha : s[i]? = some a)
    (hi1 : i + 1 < s.length) (h12 : ¬ (a = 1 ∨ a = 2)) (hpos : 0 < i) :
    (stepNode a i st = none ∧ stepPtr s i (toP st) = .val none) ∨
    ∃ st', stepNode a i st = some st' ∧ stepPtr s i (toP st) = .val (some (toP st')) ∧ Inv s (i + 1) st' := by
  obtain ⟨anc, hpath, hfilt, hne⟩ := hinv.path
  have h21 : ¬ (a = 2 ∨ a = 1) := fun h => h12 h.symm
  cases anc with
  | nil => exact absurd rfl (hne hpos)
  | cons j0 js =>
    obtain ⟨hpi, hj0i, hpj0⟩ := hpath
    have hlen : js.length < s.length := by
      have := IsPath.length_le _ _ _ hpj0; omega
    have hclimb := climb_path s st.parent st.right hinv.lp hinv.lr j0 js hpj0 s.length hlen
    rw [← List.head?_filter, hfilt] at hclimb
    have hptr : stepPtr s i (toP st) =
        match st.stack.head? with
        | none => .val none
        | some j => .val (some { toP st with right := st.right.set j (some (i + 1)),
                                             parent := st.parent.set (i + 1) (some j) }) := by
      unfold stepPtr
      simp only [ha, if_neg h21, toP, hpi, hclimb]
      cases st.stack.head? <;> rfl
    cases hst : st.stack with
    | nil =>
      left
      refine ⟨by unfold stepNode; rw [if_neg h12, hst], ?_⟩
      rw [hptr, hst]; rfl
    | cons j rest =>
      right
      refine ⟨_, by unfold stepNode; rw [if_neg h12, hst], ?_, ?_⟩
      · rw [hptr, hst]; rfl
      · rw [hst] at hfilt
        obtain ⟨pre, post, hanc, _, hjopen, hpost⟩ := List.filter_eq_cons_iff.mp hfilt
        have hfull : IsPath st.parent i (pre ++ j :: post) := by
          rw [← hanc]; exact ⟨hpi, hj0i, hpj0⟩
        have hjpath : IsPath st.parent j post := IsPath.suffix _ _ _ _ _ hfull
        have hji : j < i := IsPath.lt _ _ _ hfull j (by simp)
        have hjl : j < s.length := by omega
        have hpostlt : ∀ x ∈ post, x < j := IsPath.lt _ _ _ hjpath
        have hai : s[i]? ≠ some 2 := by rw [ha]; intro h; exact h12 (Or.inr (by simpa using h))
        refine
          { hi := hi1
            lp := by simp [hinv.lp]
            ll := hinv.ll
            lr := by simp [hinv.lr]
            path := ⟨j :: post, ⟨?_, by omega, IsPath.set _ _ _ _ _ hjpath (by omega)⟩, ?_, by simp⟩
            rfree := ?_
            lfree := fun k hk hkl => hinv.lfree k (by omega) hkl
            lset := ?_
            openIn := ?_ }
        · show (st.parent.set (i + 1) (some j))[i + 1]? = some (some j)
          rw [List.getElem?_set_self (by rw [hinv.lp]; exact hi1)]
        · show (j :: post).filter (IsOpen s (st.right.set j (some (i + 1)))) = rest
          have hjc : IsOpen s (st.right.set j (some (i + 1))) j = false := by
            unfold IsOpen
            rw [List.getElem?_set_self (by rw [hinv.lr]; exact hjl)]
            simp
          rw [List.filter_cons, hjc]
          simp only [Bool.false_eq_true, if_false]
          rw [← hpost]
          apply List.filter_congr
          intro x hx
          have := hpostlt x hx
          unfold IsOpen
          rw [List.getElem?_set_ne (by omega)]
        · intro k hk hkl
          show (st.right.set j (some (i + 1)))[k]? = some none
          rw [List.getElem?_set_ne (by omega)]
          exact hinv.rfree k (by omega) hkl
        · intro k hk hs
          have hki : k ≠ i := by
            intro h; subst h
            rw [ha] at hs
            simp only [Option.some.injEq] at hs
            exact h12 hs
          exact hinv.lset k (by omega) hs
        · intro k hk hko
          show k ∈ rest
          have hko' : IsOpen s (st.right.set j (some (i + 1))) k = true := hko
          have hkj : k ≠ j := by
            intro h; subst h
            unfold IsOpen at hko'
            rw [List.getElem?_set_self (by rw [hinv.lr]; exact hjl)] at hko'
            simp at hko'
          have hki : k ≠ i := by
            intro h; subst h
            exact hai ((isOpen_iff _ _ _).mp hko').1
          have hold : IsOpen s st.right k = true := by
            unfold IsOpen at hko' ⊢
            rw [List.getElem?_set_ne (fun h => hkj h.symm)] at hko'
            exact hko'
          have := hinv.openIn k (by omega) hold
          rw [hst] at this
          rcases List.mem_cons.mp this with h | h
          · exact absurd h hkj
          · exact h

/-- `s.dropLast.drop i = a :: as` pins down `s[i]`, `i + 1 < len(s)` and the rest. -/
theorem dropLast_drop_cons (s : List Nat) (i a : Nat) (as : List Nat) (h : s.dropLast.drop i = a :: as) :
    s[i]? = some a ∧ i + 1 < s.length ∧ s.dropLast.drop (i + 1) = as := by
  have h0 : (s.dropLast.drop i)[0]? = some a := by rw [h]; rfl
  rw [List.getElem?_drop, List.getElem?_dropLast] at h0
  simp only [Nat.add_zero] at h0
  split at h0
  · rename_i hlt
    refine ⟨h0, by omega, ?_⟩
    have : (s.dropLast.drop i).drop 1 = as := by rw [h]; rfl
    rw [List.drop_drop] at this
    exact this
  · simp at h0

/-- **The two loops agree.**  From a state satisfying the invariant, the pointer loop neither raises nor runs out
of fuel, breaks at the same index as the stack loop and leaves the same three arrays; if it runs to the end the
invariant holds at the last node. -/
theorem loopPtr_eq (s : List Nat) (hhead : s[0]? = some 1 ∨ s[0]? = some 2) (as : List Nat) (i : Nat) (st : St)
    (hinv : Inv s i st) (has : s.dropLast.drop i = as) :
    loopPtr s as.length i (toP st) = .val (toP (loop as i st).1, (loop as i st).2) ∧
    ((loop as i st).2 = none → Inv s (s.length - 1) (loop as i st).1) := by
  induction as generalizing i st with
  | nil =>
    refine ⟨rfl, fun _ => ?_⟩
    have hlen := congrArg List.length has
    simp only [List.length_drop, List.length_dropLast, List.length_nil] at hlen
    have hi := hinv.hi
    have : s.length - 1 = i := by omega
    rw [this]; exact hinv
  | cons a as ih =>
    obtain ⟨ha, hi1, has'⟩ := dropLast_drop_cons s i a as has
    have hcases : (stepNode a i st = none ∧ stepPtr s i (toP st) = .val none) ∨
        ∃ st', stepNode a i st = some st' ∧ stepPtr s i (toP st) = .val (some (toP st')) ∧ Inv s (i + 1) st' := by
      by_cases h12 : a = 1 ∨ a = 2
      · exact Or.inr (step_inv_down s i a st hinv ha hi1 h12)
      · have hpos : 0 < i := by
          apply Nat.pos_of_ne_zero
          intro h0; subst h0
          rw [ha] at hhead
          simp only [Option.some.injEq] at hhead
          exact h12 hhead
        exact step_inv_up s i a st hinv ha hi1 h12 hpos
    rcases hcases with ⟨h1, h2⟩ | ⟨st', h1, h2, hinv'⟩
    · simp only [List.length_cons, loopPtr, loop, h1, h2]
      exact ⟨trivial, fun h => by simp at h⟩
    · simp only [List.length_cons, loopPtr, loop, h1, h2]
      exact ih (i + 1) st' hinv' has'

/-! ### the post-loop checks computed from the arrays -/

theorem none_mem_fieldsWhere (s : List Nat) (arr : List (Option Nat)) (p : Nat → Bool) :
    none ∈ fieldsWhere s arr p ↔ ∃ (k t : Nat), s[k]? = some t ∧ arr[k]? = some none ∧ p t = true := by
  unfold fieldsWhere
  rw [List.mem_map]
  constructor
  · rintro ⟨⟨t, r⟩, hmem, hr⟩
    rw [List.mem_filter] at hmem
    obtain ⟨hz, hp⟩ := hmem
    obtain ⟨k, hk⟩ := List.mem_iff_getElem?.mp hz
    obtain ⟨h1, h2⟩ := List.getElem?_zip_eq_some.mp hk
    simp only at hr h1 h2 hp
    subst hr
    exact ⟨k, t, h1, h2, hp⟩
  · rintro ⟨k, t, h1, h2, hp⟩
    exact ⟨(t, none), List.mem_filter.mpr
      ⟨List.mem_iff_getElem?.mpr ⟨k, List.getElem?_zip_eq_some.mpr ⟨h1, h2⟩⟩, hp⟩, rfl⟩

/-- At the end of a complete run, `None in lefts` says exactly that the last node is unary or binary. -/
theorem lefts_check (s : List Nat) (st : St) (hinv : Inv s (s.length - 1) st) :
    (fieldsWhere s st.left (fun t => t == 1 || t == 2)).contains none =
      decide (s.getLast?.getD 0 = 1 ∨ s.getLast?.getD 0 = 2) := by
  have hi := hinv.hi
  rw [Bool.eq_iff_iff, List.contains_iff_mem, none_mem_fieldsWhere, List.getLast?_eq_getElem?]
  simp only [decide_eq_true_eq, Bool.or_eq_true, beq_iff_eq]
  constructor
  · rintro ⟨k, t, h1, h2, hp⟩
    have hkl : k < s.length := by
      apply Decidable.byContradiction; intro hc
      rw [List.getElem?_eq_none_iff.mpr (by omega)] at h1; simp at h1
    by_cases hk : k < s.length - 1
    · have := hinv.lset k hk (by rcases hp with rfl | rfl <;> simp [h1])
      rw [this] at h2; simp at h2
    · have : k = s.length - 1 := by omega
      subst this
      rw [h1]; exact hp
  · intro h
    have hl : s[s.length - 1]? = some (s[s.length - 1]) := List.getElem?_eq_getElem (by omega)
    refine ⟨s.length - 1, s[s.length - 1], hl, hinv.lfree _ (Nat.le_refl _) hi, ?_⟩
    rw [hl] at h
    simpa using h

/-- At the end of a complete run whose last node is not binary, `None in rights` says exactly that the stack is
not empty. -/
theorem rights_check (s : List Nat) (st : St) (hinv : Inv s (s.length - 1) st)
    (hlast : s.getLast?.getD 0 ≠ 2) :
    (fieldsWhere s st.right (fun t => t == 2)).contains none = !st.stack.isEmpty := by
  have hi := hinv.hi
  rw [Bool.eq_iff_iff, List.contains_iff_mem, none_mem_fieldsWhere]
  simp only [beq_iff_eq, Bool.not_eq_true', List.isEmpty_eq_false_iff]
  constructor
  · rintro ⟨k, t, h1, h2, rfl⟩
    have hkl : k < s.length := by
      apply Decidable.byContradiction; intro hc
      rw [List.getElem?_eq_none_iff.mpr (by omega)] at h1; simp at h1
    have hk : k < s.length - 1 := by
      apply Decidable.byContradiction; intro hc
      have : k = s.length - 1 := by omega
      subst this
      rw [List.getLast?_eq_getElem?, h1] at hlast
      simp at hlast
    have := hinv.openIn k hk ((isOpen_iff _ _ _).mpr ⟨h1, h2⟩)
    intro hnil; rw [hnil] at this; simp at this
  · intro hne
    obtain ⟨anc, _, hfilt, _⟩ := hinv.path
    cases hst : st.stack with
    | nil => exact absurd hst hne
    | cons j rest =>
      have : j ∈ anc.filter (IsOpen s st.right) := by rw [hfilt, hst]; simp
      have hj := (List.mem_filter.mp this).2
      obtain ⟨h1, h2⟩ := (isOpen_iff _ _ _).mp hj
      exact ⟨j, 2, h1, h2, rfl⟩

end ESR.ShapeProofs
