import ESRVerif.Model.Codelen
import Mathlib.Analysis.Real.Sqrt
import Mathlib.Analysis.SpecialFunctions.Log.Basic
/-!
Helper lemmas for Props/C07: the real instance of the number operations, evaluation of the generated
expressions on finite reals, list/mask lemmas, invariants of the subset search.
-/
namespace ESR.Codelen
open ESR.Gen.Codelen

/-! ## ℝ as the field under `XR` -/

noncomputable def realOps : RealOps ℝ where
  ofRat n d := (n : ℝ) / (d : ℝ)
  zero := 0
  add a b := a + b
  sub a b := a - b
  mul a b := a * b
  div a b := a / b
  neg a := -a
  abs a := |a|
  log := Real.log
  sqrt := Real.sqrt
  lt a b := decide (a < b)
  le a b := decide (a ≤ b)

/-- the number operations used by every theorem of C07 -/
noncomputable abbrev xr : NumOps (XR ℝ) := xrOps realOps

section xrlemmas
open XR

@[simp] theorem xr_ofRat (n : Int) (d : Nat) : xr.ofRat n d = fin ((n : ℝ) / (d : ℝ)) := rfl
@[simp] theorem xr_zero : xr.zero = fin 0 := by simp [NumOps.zero]
@[simp] theorem xr_ofNat (k : Nat) : xr.ofNat k = fin (k : ℝ) := by simp [NumOps.ofNat]
@[simp] theorem xr_nan : xr.nan = (nan : XR ℝ) := rfl
@[simp] theorem xr_add_fin (a b : ℝ) : xr.add (fin a) (fin b) = fin (a + b) := rfl
@[simp] theorem xr_mul_fin (a b : ℝ) : xr.mul (fin a) (fin b) = fin (a * b) := rfl
@[simp] theorem xr_neg_fin (a : ℝ) : xr.neg (fin a) = fin (-a) := rfl
@[simp] theorem xr_abs_fin (a : ℝ) : xr.abs (fin a) = fin |a| := rfl
@[simp] theorem xr_lt_fin (a b : ℝ) : xr.lt (fin a) (fin b) = decide (a < b) := rfl
@[simp] theorem xr_le_fin (a b : ℝ) : xr.le (fin a) (fin b) = decide (a ≤ b) := rfl
@[simp] theorem xr_isNaN_fin (a : ℝ) : xr.isNaN (fin a) = false := rfl
@[simp] theorem xr_isInf_fin (a : ℝ) : xr.isInf (fin a) = false := rfl
@[simp] theorem xr_isNaN_nan : xr.isNaN (nan : XR ℝ) = true := rfl
@[simp] theorem xr_isFinite_fin (a : ℝ) : xr.isFinite (fin a) = true := rfl
@[simp] theorem xr_isFinite_nan : xr.isFinite (nan : XR ℝ) = false := rfl
@[simp] theorem xr_isFinite_pinf : xr.isFinite (pinf : XR ℝ) = false := rfl
@[simp] theorem xr_isFinite_ninf : xr.isFinite (ninf : XR ℝ) = false := rfl

theorem xr_isFinite_iff (v : XR ℝ) : xr.isFinite v = true ↔ ∃ r, v = fin r := by
  cases v <;> simp [NumOps.isFinite, xrOps, XR.isNaN, XR.isInf]

theorem xr_div_fin (a b : ℝ) (hb : b ≠ 0) : xr.div (fin a) (fin b) = fin (a / b) := by
  show XR.div realOps (fin a) (fin b) = _
  have : (decide ((0:ℝ) < b) || decide (b < 0)) = true := by
    rcases lt_or_gt_of_ne hb with h | h <;> simp [h]
  simp [XR.div, realOps, this]

theorem xr_sqrt_fin (a : ℝ) (ha : 0 ≤ a) : xr.sqrt (fin a) = fin (Real.sqrt a) := by
  show XR.sqrt realOps (fin a) = _
  simp [XR.sqrt, realOps, not_lt.mpr ha]

theorem xr_log_fin (a : ℝ) (ha : 0 < a) : xr.log (fin a) = fin (Real.log a) := by
  show XR.log realOps (fin a) = _
  simp [XR.log, realOps, not_lt.mpr ha.le, ha]

end xrlemmas

/-! ## the generated expressions on finite reals -/

/-- `Nsteps` of one parameter as a real number -/
noncomputable def nstepsR (r : ℝ × ℝ) : ℝ := |r.1| / Real.sqrt (12 / r.2)

theorem sqrt_twelve_div_pos {f : ℝ} (hf : 0 < f) : 0 < Real.sqrt (12 / f) :=
  Real.sqrt_pos.mpr (by positivity)

/-- the code's `|θ|/√(12/F)` is the property's `|θ|·√(F/12)` -/
theorem nstepsR_eq (r : ℝ × ℝ) : nstepsR r = |r.1| * Real.sqrt (r.2 / 12) := by
  unfold nstepsR
  have h : (12 : ℝ) / r.2 = (r.2 / 12)⁻¹ := by rw [inv_div]
  rw [h, Real.sqrt_inv, div_inv_eq_mul]

theorem evalV_nsteps (k : XR ℝ) (r : ℝ × ℝ) (hf : 0 < r.2) :
    evalV xr k (.fin r.1) (.fin r.2) nstepsExpr = .fin (nstepsR r) := by
  have h2 := sqrt_twelve_div_pos hf
  simp only [nstepsExpr, evalV, xr_ofRat, xr_abs_fin]
  rw [show xr.div (XR.fin (((12 : ℤ) : ℝ) / ((1 : ℕ) : ℝ))) (XR.fin r.2) = XR.fin (12 / r.2) from by
        rw [xr_div_fin _ _ hf.ne']; norm_num,
      xr_sqrt_fin _ (by positivity), xr_div_fin _ _ h2.ne']
  rfl

theorem testElem_snap (a : ℝ) : testElem xr snapTest (.fin a) = decide (a < 1) := by
  simp [snapTest, testElem]

theorem testElem_kept (a : ℝ) : testElem xr keptTest (.fin a) = decide (1 ≤ a) := by
  simp [keptTest, testElem]

theorem badTests_fin_pos (f : ℝ) (hf : 0 < f) : badTests.any (fun t => testElem xr t (.fin f)) = false := by
  simp [badTests, testElem, not_le.mpr hf]

/-- one term of the sum: ½ ln Fᵢᵢ + ln|θᵢ| -/
noncomputable def termR (r : ℝ × ℝ) : ℝ := 1 / 2 * Real.log r.2 + Real.log |r.1|

/-- a row of real (θᵢ, Fᵢᵢ) as the model sees it -/
def rowX (r : ℝ × ℝ) : XR ℝ × XR ℝ := (.fin r.1, .fin r.2)

theorem foldl_add_fin (k : XR ℝ) (body : E) (g : ℝ × ℝ → ℝ) (l : List (ℝ × ℝ))
    (hb : ∀ r ∈ l, evalV xr k (.fin r.1) (.fin r.2) body = .fin (g r)) (a : ℝ) :
    (l.map rowX).foldl (fun acc r => xr.add acc (evalV xr k r.1 r.2 body)) (.fin a) = .fin (a + (l.map g).sum) := by
  induction l generalizing a with
  | nil => simp
  | cons r rest ih =>
    have h1 := hb r (by simp)
    simp only [List.map_cons, List.foldl_cons, rowX, List.sum_cons] at *
    rw [h1, xr_add_fin, ih (fun r hr => hb r (by simp [hr]))]
    congr 1; ring

theorem evalS_codelen (k : ℕ) (l : List (ℝ × ℝ)) (h : ∀ r ∈ l, 0 < r.2 ∧ r.1 ≠ 0) :
    evalS xr (.fin (k : ℝ)) (l.map rowX) codelenExpr
      = .fin (-(k : ℝ) / 2 * Real.log 3 + (l.map termR).sum) := by
  have hb : ∀ r ∈ l, evalV xr (.fin (k : ℝ)) (.fin r.1) (.fin r.2)
      (.add (.mul (.lit 1 2) (.log .fisher)) (.log (.abs .theta))) = .fin (termR r) := by
    intro r hr
    obtain ⟨hf, ht⟩ := h r hr
    simp only [evalV, xr_ofRat, xr_abs_fin]
    rw [xr_log_fin _ hf, xr_log_fin _ (abs_pos.mpr ht)]
    simp [termR]
  have h3 : xr.log (.fin (((3 : ℤ) : ℝ) / ((1 : ℕ) : ℝ))) = .fin (Real.log 3) := by
    rw [xr_log_fin _ (by norm_num)]; norm_num
  simp only [codelenExpr, evalS, xr_ofRat, xr_zero, xr_neg_fin]
  rw [foldl_add_fin _ _ termR l hb, h3, xr_div_fin _ _ (by norm_num)]
  simp

theorem evalS_kzero (k : XR ℝ) (rows : List (XR ℝ × XR ℝ)) : evalS xr k rows kZeroCodelen = .fin 0 := by
  simp [kZeroCodelen, evalS]

/-! ## masks and lists (any `NumOps`) -/

section lists
variable {α : Type} (ops : NumOps α)

theorem zeroWhere_map {β : Type} (p : β → Bool) (g : β → α) (l : List β) :
    zeroWhere ops (l.map p) (l.map g) = l.map (fun r => if p r then ops.zero else g r) := by
  induction l with
  | nil => rfl
  | cons a l ih => simp [zeroWhere, ih]

theorem length_zeroWhere (m : List Bool) (xs : List α) (h : m.length = xs.length) :
    (zeroWhere ops m xs).length = xs.length := by
  induction m generalizing xs with
  | nil => cases xs <;> simp_all [zeroWhere]
  | cons b m ih =>
    cases xs with
    | nil => simp at h
    | cons x xs => simp [zeroWhere, ih xs (by simpa using h)]

theorem select_map {β γ : Type} (p : β → Bool) (g : β → γ) (l : List β) :
    select (l.map p) (l.map g) = (l.filter p).map g := by
  induction l with
  | nil => rfl
  | cons a l ih => by_cases h : p a <;> simp [select, h, ih]

theorem select_map_self {β : Type} (p : β → Bool) (l : List β) : select (l.map p) l = l.filter p := by
  induction l with
  | nil => rfl
  | cons a l ih => by_cases h : p a <;> simp [select, h, ih]

theorem select_map_right {β γ : Type} (g : β → γ) (m : List Bool) (l : List β) :
    select m (l.map g) = (select m l).map g := by
  induction m generalizing l with
  | nil => cases l <;> rfl
  | cons b m ih =>
    cases l with
    | nil => rfl
    | cons a l => cases b <;> simp [select, ih]

theorem select_zeroWhere_not (m : List Bool) (xs : List α) :
    select m (zeroWhere ops (m.map not) xs) = select m xs := by
  induction m generalizing xs with
  | nil => cases xs <;> rfl
  | cons b m ih =>
    cases xs with
    | nil => rfl
    | cons x xs => cases b <;> simp [select, zeroWhere, ih]

theorem select_replicate_true {β : Type} (l : List β) : select (List.replicate l.length true) l = l := by
  induction l with
  | nil => rfl
  | cons a l ih => simp [List.replicate_succ, select, ih]

theorem zeroWhere_replicate_false (xs : List α) :
    zeroWhere ops (List.replicate xs.length false) xs = xs := by
  induction xs with
  | nil => rfl
  | cons a l ih => simp [List.replicate_succ, zeroWhere, ih]

theorem zeroWhere_eq_zipWith (m : List Bool) (xs : List α) :
    zeroWhere ops m xs = List.zipWith (fun b x => if b then ops.zero else x) m xs := by
  induction m generalizing xs with
  | nil => cases xs <;> rfl
  | cons b m ih =>
    cases xs with
    | nil => rfl
    | cons x xs => simp [zeroWhere, ih]

theorem nsteps_map {β : Type} (f g : β → α) (l : List β) :
    nsteps ops (l.map f) (l.map g) = l.map (fun r => evalV ops ops.zero (f r) (g r) nstepsExpr) := by
  induction l with
  | nil => rfl
  | cons a l ih => simp only [nsteps] at ih; simp [nsteps, ih]

theorem take_pad (mp : Nat) (xs : List α) : (pad ops mp xs).take xs.length = xs := by
  simp [pad]

theorem length_maskOfIdx (n : Nat) (idx : List Nat) : (maskOfIdx n idx).length = n := by
  simp [maskOfIdx]

theorem combs_one (xs : List Nat) : combs xs 1 = xs.map (fun x => [x]) := by
  induction xs with
  | nil => rfl
  | cons x xs ih => simp [combs, ih]

theorem searchSizes_small (m : Nat) (h : m ≤ 1) : searchSizes m = [] := by
  have : m = 0 ∨ m = 1 := by omega
  rcases this with rfl | rfl <;> simp [searchSizes, searchLo, searchReversed, List.range_succ]

theorem searchSizes_big (m : Nat) (h : 2 ≤ m) : ∃ pre, searchSizes m = pre ++ [1] := by
  obtain ⟨j, rfl⟩ : ∃ j, m = j + 2 := ⟨m - 2, by omega⟩
  refine ⟨((List.range j).map (· + 2)).reverse, ?_⟩
  have hr : List.range (j + 2) = 0 :: 1 :: (List.range j).map (· + 2) := by
    rw [List.range_succ_eq_map, List.range_succ_eq_map]; simp [List.map_map, Function.comp_def]
  simp only [searchSizes, searchLo, searchReversed, hr, if_true]
  have : ((List.range j).map (· + 2)).filter (fun r => decide (1 ≤ r)) = (List.range j).map (· + 2) := by
    apply List.filter_eq_self.mpr; intro a ha; simp at ha; obtain ⟨b, _, rfl⟩ := ha; simp
  simp

theorem length_indicesFrom_le (i : Nat) (m : List Bool) : (indicesFrom i m).length ≤ m.length := by
  induction m generalizing i with
  | nil => simp [indicesFrom]
  | cons b m ih =>
    cases b
    · simpa [indicesFrom] using Nat.le_succ_of_le (ih (i + 1))
    · simpa [indicesFrom] using ih (i + 1)

theorem indicesFrom_ne_nil (i : Nat) (m : List Bool) (h : m.any id = true) : indicesFrom i m ≠ [] := by
  induction m generalizing i with
  | nil => simp at h
  | cons b m ih =>
    cases b
    · simp only [List.any_cons, id, Bool.false_or] at h; simpa [indicesFrom] using ih (i + 1) h
    · simp [indicesFrom]

end lists

/-! ## the subset search -/

section search
variable {α : Type} (ops : NumOps α) (fop : List α → α) (θorig : List α)

/-- what the search state means once `idx` is bound -/
def SearchOk (s : SearchSt α) : Prop :=
  ∀ idx, s.idx = some idx → s.θ = zeroAt ops θorig idx ∧ s.nll = fop s.θ

theorem inner_ok (cs : List (List Nat)) (s : SearchSt α) (h : SearchOk ops fop θorig s) :
    SearchOk ops fop θorig (inner ops fop θorig cs s) := by
  induction cs generalizing s with
  | nil => exact h
  | cons c cs ih =>
    simp only [inner]
    split
    · intro idx hidx; simp only [Option.some.injEq] at hidx; subst hidx; exact ⟨rfl, rfl⟩
    · apply ih; intro idx hidx; simp only [Option.some.injEq] at hidx; subst hidx; exact ⟨rfl, rfl⟩

theorem inner_idx_mem (cs : List (List Nat)) (s : SearchSt α) (h : cs ≠ []) :
    ∃ idx ∈ cs, (inner ops fop θorig cs s).idx = some idx := by
  induction cs generalizing s with
  | nil => exact absurd rfl h
  | cons c cs ih =>
    simp only [inner]
    split
    · exact ⟨c, by simp, rfl⟩
    · by_cases hcs : cs = []
      · subst hcs; exact ⟨c, by simp, rfl⟩
      · obtain ⟨i, hi, he⟩ := ih _ hcs; exact ⟨i, by simp [hi], he⟩

theorem outer_ok (tryIdx : List Nat) (rs : List Nat) (s : SearchSt α) (h : SearchOk ops fop θorig s) :
    SearchOk ops fop θorig (outer ops fop θorig tryIdx rs s) := by
  induction rs generalizing s with
  | nil => exact h
  | cons r rs ih => exact ih _ (inner_ok ops fop θorig _ _ h)

theorem outer_append (tryIdx : List Nat) (rs : List Nat) (r : Nat) (s : SearchSt α) :
    outer ops fop θorig tryIdx (rs ++ [r]) s
      = inner ops fop θorig (combs tryIdx r) (outer ops fop θorig tryIdx rs s) := by
  induction rs generalizing s with
  | nil => rfl
  | cons a rs ih => simp [outer, ih]

/-- As written (inner `break` only) the subset search ends with the pass over single parameters:
    either nothing was tried (at most one candidate) or `idx` is one candidate `[j]`. -/
theorem search_final (tryIdx : List Nat) (s0 : SearchSt α) (h0 : s0.idx = none) :
    let s := outer ops fop θorig tryIdx (searchSizes tryIdx.length) s0
    (tryIdx.length ≤ 1 ∧ s = s0) ∨
    (2 ≤ tryIdx.length ∧ ∃ j ∈ tryIdx, s.idx = some [j] ∧ s.θ = zeroAt ops θorig [j] ∧ s.nll = fop s.θ) := by
  intro s
  by_cases hm : tryIdx.length ≤ 1
  · left; exact ⟨hm, by simp [s, searchSizes_small _ hm, outer]⟩
  · right
    have hm2 : 2 ≤ tryIdx.length := by omega
    refine ⟨hm2, ?_⟩
    obtain ⟨pre, hpre⟩ := searchSizes_big _ hm2
    have hs : s = inner ops fop θorig (combs tryIdx 1) (outer ops fop θorig tryIdx pre s0) := by
      simp [s, hpre, outer_append]
    have hne : combs tryIdx 1 ≠ [] := by
      rw [combs_one]; intro h; simp at h; subst h; simp at hm2
    obtain ⟨idx, hmem, hidx⟩ := inner_idx_mem ops fop θorig (combs tryIdx 1) (outer ops fop θorig tryIdx pre s0) hne
    rw [combs_one] at hmem
    obtain ⟨j, hj, rfl⟩ := List.mem_map.mp hmem
    have hok : SearchOk ops fop θorig s := by
      rw [hs]; apply inner_ok; apply outer_ok; intro idx hi; rw [h0] at hi; cases hi
    rw [← hs] at hidx
    obtain ⟨h1, h2⟩ := hok _ hidx
    exact ⟨j, hj, hidx, h1, h2⟩

end search

/-! ## more mask lemmas -/

section lists2
variable {α : Type} (ops : NumOps α)

theorem zip_select_map {β γ δ : Type} (f : β → γ) (g : β → δ) (m : List Bool) (l : List β) :
    (select m (l.map f)).zip (select m (l.map g)) = (select m l).map (fun r => (f r, g r)) := by
  induction m generalizing l with
  | nil => cases l <;> rfl
  | cons b m ih =>
    cases l with
    | nil => rfl
    | cons a l => cases b <;> simp [select, ih]

theorem length_select {β : Type} (m : List Bool) (l : List β) (h : m.length = l.length) :
    (select m l).length = m.count true := by
  induction m generalizing l with
  | nil => cases l <;> rfl
  | cons b m ih =>
    cases l with
    | nil => simp at h
    | cons a l => cases b <;> simp [select, ih l (by simpa using h)]

theorem count_true_map_not (m : List Bool) : (m.map not).count true + m.count true = m.length := by
  induction m with
  | nil => rfl
  | cons b m ih => cases b <;> simp <;> omega

theorem count_false_map_not (m : List Bool) : (m.map not).count false = m.count true := by
  induction m with
  | nil => rfl
  | cons b m ih => cases b <;> simp [ih]

theorem all_true_of_count (m : List Bool) (h : m.count true = m.length) : m = List.replicate m.length true := by
  induction m with
  | nil => rfl
  | cons b m ih =>
    cases b
    · have := List.count_le_length (a := true) (l := m); simp at h; omega
    · simp at h; simp [List.replicate_succ]; exact ih h

theorem zeroWhere_replicate_true (xs : List α) :
    zeroWhere ops (List.replicate xs.length true) xs = List.replicate xs.length ops.zero := by
  induction xs with
  | nil => rfl
  | cons a l ih => simp [List.replicate_succ, zeroWhere, ih]

theorem mem_indicesFrom (i j : Nat) (m : List Bool) (h : j ∈ indicesFrom i m) : i ≤ j ∧ j < i + m.length := by
  induction m generalizing i with
  | nil => simp [indicesFrom] at h
  | cons b m ih =>
    cases b
    · have := ih (i + 1) (by simpa [indicesFrom] using h); simp; omega
    · simp only [indicesFrom, if_true, List.mem_cons] at h
      rcases h with rfl | h
      · simp
      · have := ih (i + 1) h; simp; omega

theorem count_range_eq (n j : Nat) (h : j < n) :
    ((List.range n).map (fun i => decide (i = j))).count true = 1 := by
  induction n with
  | zero => omega
  | succ n ih =>
    rw [List.range_succ, List.map_append, List.count_append]
    by_cases hj : j = n
    · subst hj
      have : ((List.range j).map (fun i => decide (i = j))).count true = 0 := by
        apply List.count_eq_zero.mpr; intro hm; simp at hm
      simp [this]
    · have h1 := ih (by omega)
      have h2 : decide (n = j) = false := by simp; omega
      simp [h1, h2]

theorem count_maskOfIdx_single (n j : Nat) (h : j < n) : (maskOfIdx n [j]).count true = 1 := by
  have : maskOfIdx n [j] = (List.range n).map (fun i => decide (i = j)) := by
    simp [maskOfIdx]
  rw [this]; exact count_range_eq n j h

theorem finish_eq (mp : Nat) (θorig θcur F : List α) (nll : α) (kept : List Bool) (k : Nat) (br : Branch)
    (ev : List (List Nat)) (h : θorig.length ≤ mp) :
    finish ops mp θorig θcur F nll kept k br ev = .ok
      { params := pad ops mp (zeroWhere ops (kept.map not) θorig)
        nll := nll
        codelen := evalS ops (ops.ofNat k) ((select kept θcur).zip (select kept F)) codelenExpr
        kept := kept, k := k, branch := br, evals := ev } := by
  simp [finish, Nat.not_lt.mpr h]

end lists2

/-! ## what `postHessian` returns on finite rows with positive curvature -/

def thetaX (rows : List (ℝ × ℝ)) : List (XR ℝ) := rows.map (fun r => .fin r.1)
def fisherX (rows : List (ℝ × ℝ)) : List (XR ℝ) := rows.map (fun r => .fin r.2)
/-- `Nsteps < 1` -/
noncomputable def snapB (r : ℝ × ℝ) : Bool := decide (nstepsR r < 1)
/-- `Nsteps >= 1` -/
noncomputable def keptB (r : ℝ × ℝ) : Bool := decide (1 ≤ nstepsR r)

theorem keptB_eq (r : ℝ × ℝ) : keptB r = !snapB r := by
  simp only [keptB, snapB]; by_cases h : nstepsR r < 1 <;> simp [h, not_le.mpr, not_lt.mp]

theorem map_keptB (rows : List (ℝ × ℝ)) : rows.map keptB = (rows.map snapB).map not := by
  simp [List.map_map, Function.comp_def, keptB_eq]

@[simp] theorem length_thetaX (rows : List (ℝ × ℝ)) : (thetaX rows).length = rows.length := by simp [thetaX]
@[simp] theorem length_fisherX (rows : List (ℝ × ℝ)) : (fisherX rows).length = rows.length := by simp [fisherX]

/-- the snapped parameter vector `theta_ML[Nsteps<1] = 0` -/
noncomputable def snappedX (rows : List (ℝ × ℝ)) : List (XR ℝ) := zeroWhere xr (rows.map snapB) (thetaX rows)

theorem anyTest_bad_good (rows : List (ℝ × ℝ)) (hpos : ∀ r ∈ rows, 0 < r.2) :
    anyTest xr badTests (fisherX rows) = false := by
  simp only [anyTest, fisherX, List.any_map, List.any_eq_false]
  intro r hr
  simp [badTests_fin_pos r.2 (hpos r hr)]

theorem nsteps_good (rows : List (ℝ × ℝ)) (hpos : ∀ r ∈ rows, 0 < r.2) :
    nsteps xr (thetaX rows) (fisherX rows) = rows.map (fun r => XR.fin (nstepsR r)) := by
  rw [thetaX, fisherX, nsteps_map]
  apply List.map_congr_left
  intro r hr
  exact evalV_nsteps _ r (hpos r hr)

/-- the specification every normal return of `postHessian` meets (all branches, incl. the subset search) -/
structure Spec (rows : List (ℝ × ℝ)) (mp : Nat) (nllIn : XR ℝ) (fop : List (XR ℝ) → XR ℝ) (o : Out (XR ℝ)) : Prop where
  kept_len : o.kept.length = rows.length
  params_eq : o.params = pad xr mp (zeroWhere xr (o.kept.map not) (thetaX rows))
  nll_eq : o.nll = fop (zeroWhere xr (o.kept.map not) (thetaX rows))
            ∨ (o.nll = nllIn ∧ o.kept = List.replicate rows.length true)
  k_eq : o.k = o.kept.count true
  codelen_eq : o.codelen = evalS xr (.fin (o.k : ℝ)) ((select o.kept rows).map rowX) codelenExpr
            ∨ (o.k = 0 ∧ o.codelen = .fin 0)
  nosnap : (rows.map snapB).any id = false → o.kept = List.replicate rows.length true
  snapfin : (rows.map snapB).any id = true → xr.isFinite (fop (snappedX rows)) = true → o.kept = rows.map keptB
  search : xr.isFinite (fop (snappedX rows)) = false → o.kept.count false ≤ 1

theorem finish_spec_ones (rows : List (ℝ × ℝ)) (mp : Nat) (hlen : rows.length ≤ mp) (nllIn : XR ℝ)
    (fop : List (XR ℝ) → XR ℝ) (br : Branch) (ev : List (List Nat))
    (hs : (rows.map snapB).any id = true → xr.isFinite (fop (snappedX rows)) = false) :
    ∃ o, finish xr mp (thetaX rows) (thetaX rows) (fisherX rows) nllIn (List.replicate rows.length true) rows.length br ev = .ok o
      ∧ Spec rows mp nllIn fop o := by
  refine ⟨_, finish_eq xr mp _ _ _ _ _ _ _ _ (by simpa using hlen), ?_⟩
  refine ⟨by simp, rfl, Or.inr ⟨rfl, rfl⟩, by simp, Or.inl ?_, fun _ => rfl, ?_, ?_⟩
  · simp only [xr_ofNat]
    rw [thetaX, fisherX, zip_select_map]; rfl
  · intro h1 h2; rw [hs h1] at h2; cases h2
  · intro _; simp [List.count_replicate]

theorem afterSnap_pos {α : Type} (ops : NumOps α) (mp : Nat) (θorig θcur F : List α) (nll : α) (kept : List Bool)
    (k : Nat) (hk : 0 < k) (br : Branch) (ev : List (List Nat)) :
    afterSnap ops mp θorig θcur F nll kept (k : Int) br ev = finish ops mp θorig θcur F nll kept k br ev := by
  have h1 : ¬ ((k : Int) < 0) := by omega
  have h2 : ((k : Int) == 0) = false := by simp; omega
  simp [afterSnap, h1, h2]

theorem afterSnap_zero {α : Type} (ops : NumOps α) (mp : Nat) (θorig θcur F : List α) (nll : α) (kept : List Bool)
    (br : Branch) (ev : List (List Nat)) :
    afterSnap ops mp θorig θcur F nll kept 0 br ev = .ok
      { params := List.replicate mp ops.zero, nll := nll
        codelen := evalS ops ops.zero [] kZeroCodelen
        kept := kept, k := 0, branch := .kZero, evals := ev } := by
  simp [afterSnap]

theorem keptB_not (rows : List (ℝ × ℝ)) : (rows.map keptB).map not = rows.map snapB := by
  simp [List.map_map, Function.comp_def, keptB_eq]

theorem snapAll_spec (rows : List (ℝ × ℝ)) (mp : Nat) (hlen : rows.length ≤ mp) (nllIn : XR ℝ)
    (fop : List (XR ℝ) → XR ℝ) (hany : (rows.map snapB).any id = true)
    (hfin : xr.isFinite (fop (snappedX rows)) = true) (ev : List (List Nat)) :
    ∃ o, afterSnap xr mp (thetaX rows) (snappedX rows) (fisherX rows) (fop (snappedX rows)) (rows.map keptB)
          ((rows.length : Int) - (((rows.map snapB).count true : Nat) : Int)) .snapAll ev = .ok o
      ∧ Spec rows mp nllIn fop o := by
  have hc : (rows.map snapB).count true ≤ rows.length := by
    simpa using List.count_le_length (a := true) (l := rows.map snapB)
  have hsum := count_true_map_not (rows.map snapB)
  rw [← map_keptB] at hsum
  simp only [List.length_map] at hsum
  have hz : zeroWhere xr ((rows.map keptB).map not) (thetaX rows) = snappedX rows := by
    rw [keptB_not]; rfl
  by_cases hlt : (rows.map snapB).count true < rows.length
  · -- some parameter is kept
    have hk : ((rows.length : Int) - (((rows.map snapB).count true : Nat) : Int))
        = ((rows.length - (rows.map snapB).count true : Nat) : Int) := by omega
    rw [hk, afterSnap_pos _ _ _ _ _ _ _ _ (by omega), finish_eq xr mp _ _ _ _ _ _ _ _ (by simpa using hlen)]
    refine ⟨_, rfl, ?_⟩
    refine ⟨by simp, rfl, Or.inl ?_, ?_, Or.inl ?_, ?_, fun _ _ => rfl, ?_⟩
    · show fop (snappedX rows) = _; rw [hz]
    · show rows.length - (rows.map snapB).count true = (rows.map keptB).count true; omega
    · show evalS xr (xr.ofNat _) ((select (rows.map keptB) (snappedX rows)).zip (select (rows.map keptB) (fisherX rows))) codelenExpr = _
      rw [← hz, select_zeroWhere_not, xr_ofNat, thetaX, fisherX, zip_select_map]; rfl
    · intro h; rw [h] at hany; cases hany
    · intro h; rw [h] at hfin; cases hfin
  · -- every parameter is snapped: k = 0
    have heq : (rows.map snapB).count true = rows.length := by omega
    have hk : ((rows.length : Int) - (((rows.map snapB).count true : Nat) : Int)) = 0 := by omega
    rw [hk, afterSnap_zero]
    refine ⟨_, rfl, ?_⟩
    have hall : rows.map snapB = List.replicate rows.length true := by
      have := all_true_of_count (rows.map snapB) (by simpa using heq)
      simpa using this
    refine ⟨by simp, ?_, Or.inl ?_, ?_, Or.inr ⟨rfl, evalS_kzero xr.zero []⟩, ?_, fun _ _ => rfl, ?_⟩
    · show List.replicate mp xr.zero = pad xr mp (zeroWhere xr ((rows.map keptB).map not) (thetaX rows))
      rw [keptB_not, hall]
      have := zeroWhere_replicate_true xr (thetaX rows)
      rw [length_thetaX] at this
      rw [this, pad, List.length_replicate, List.replicate_append_replicate]
      congr 1; omega
    · show fop (snappedX rows) = _; rw [hz]
    · show 0 = (rows.map keptB).count true; omega
    · intro h; rw [h] at hany; cases hany
    · intro h; rw [h] at hfin; cases hfin

/-- lines 201-218 on finite rows -/
theorem search_spec (rows : List (ℝ × ℝ)) (mp : Nat) (hlen : rows.length ≤ mp) (nllIn : XR ℝ)
    (fop : List (XR ℝ) → XR ℝ) (hany : (rows.map snapB).any id = true)
    (hfin : xr.isFinite (fop (snappedX rows)) = false) :
    let tryIdx := indicesOf (rows.map snapB)
    let s := outer xr fop (thetaX rows) tryIdx (searchSizes tryIdx.length)
      ⟨none, snappedX rows, fop (snappedX rows), [tryIdx]⟩
    ∃ o, (if xr.isFinite s.nll then
          match s.idx with
          | none => Res.error "NameError: idx"
          | some idx =>
            if idx.length ≠ 1 then .error "IndexError: kept_mask[idx] with a tuple of length != 1"
            else afterSnap xr mp (thetaX rows) s.θ (fisherX rows) s.nll (keptOfIdx rows.length idx)
              ((rows.length : Int) - ((idx.length : Nat) : Int)) .searchFound s.evals
        else
          afterSnap xr mp (thetaX rows) (thetaX rows) (fisherX rows) nllIn (List.replicate rows.length true) (rows.length : Int)
            (if tryIdx.length ≤ 1 then .searchSingle else .searchNone) s.evals) = .ok o
      ∧ Spec rows mp nllIn fop o := by
  intro tryIdx s
  have hn : 0 < rows.length := by
    cases rows with
    | nil => simp at hany
    | cons a l => simp
  have hrestore : ∀ br ev, ∃ o, afterSnap xr mp (thetaX rows) (thetaX rows) (fisherX rows) nllIn
      (List.replicate rows.length true) (rows.length : Int) br ev = .ok o ∧ Spec rows mp nllIn fop o := by
    intro br ev
    rw [afterSnap_pos _ _ _ _ _ _ _ _ hn]
    exact finish_spec_ones rows mp hlen nllIn fop br ev (fun _ => hfin)
  rcases search_final xr fop (thetaX rows) tryIdx ⟨none, snappedX rows, fop (snappedX rows), [tryIdx]⟩ rfl with
    ⟨_, hs⟩ | ⟨h2, j, hj, hidx, hθ, hnll⟩
  · -- at most one candidate: the loop is empty
    have : xr.isFinite s.nll = false := by
      show xr.isFinite (outer xr fop (thetaX rows) tryIdx (searchSizes tryIdx.length) _).nll = false
      rw [hs]; exact hfin
    rw [this]; exact hrestore _ _
  · by_cases hf : xr.isFinite s.nll = true
    · -- a single parameter j is zeroed
      have hjn : j < rows.length := by
        have := mem_indicesFrom 0 j (rows.map snapB) hj; simpa using this.2
      have hlen2 : 2 ≤ rows.length := by
        have := length_indicesFrom_le 0 (rows.map snapB)
        simp only [List.length_map] at this
        exact le_trans h2 this
      have hidx' : s.idx = some [j] := hidx
      rw [if_pos hf, hidx']
      simp only [List.length_singleton, ne_eq, not_true_eq_false, if_false]
      have hk : ((rows.length : Int) - ((1 : Nat) : Int)) = ((rows.length - 1 : Nat) : Int) := by omega
      rw [hk, afterSnap_pos _ _ _ _ _ _ _ _ (by omega), finish_eq xr mp _ _ _ _ _ _ _ _ (by simpa using hlen)]
      refine ⟨_, rfl, ?_⟩
      have hmask : (keptOfIdx rows.length [j]).map not = maskOfIdx rows.length [j] := by
        simp [keptOfIdx, List.map_map, Function.comp_def]
      have hsθ : s.θ = zeroWhere xr ((keptOfIdx rows.length [j]).map not) (thetaX rows) := by
        have : s.θ = zeroAt xr (thetaX rows) [j] := hθ
        rw [this, hmask, zeroAt, length_thetaX]
      have hcount := count_maskOfIdx_single rows.length j hjn
      have hsum := count_true_map_not (maskOfIdx rows.length [j])
      rw [length_maskOfIdx] at hsum
      refine ⟨by simp [keptOfIdx, maskOfIdx], rfl, Or.inl ?_, ?_, Or.inl ?_, ?_, ?_, ?_⟩
      · show s.nll = _; rw [← hsθ]; exact hnll
      · show rows.length - 1 = (keptOfIdx rows.length [j]).count true
        simp only [keptOfIdx]; omega
      · show evalS xr (xr.ofNat _) ((select (keptOfIdx rows.length [j]) s.θ).zip (select (keptOfIdx rows.length [j]) (fisherX rows))) codelenExpr = _
        rw [hsθ, select_zeroWhere_not, xr_ofNat, thetaX, fisherX, zip_select_map]; rfl
      · intro h; rw [h] at hany; cases hany
      · intro _ h; rw [h] at hfin; cases hfin
      · intro _
        show (keptOfIdx rows.length [j]).count false ≤ 1
        simp only [keptOfIdx]; rw [count_false_map_not, hcount]
    · have : xr.isFinite s.nll = false := by simpa using hf
      rw [this]; exact hrestore _ _

/-- Every call of `postHessian` on real parameters and positive finite curvature returns normally (no Python
    error is reachable) and meets `Spec`. -/
theorem post_spec (rows : List (ℝ × ℝ)) (hpos : ∀ r ∈ rows, 0 < r.2) (mp : Nat) (hlen : rows.length ≤ mp)
    (nllIn : XR ℝ) (fop : List (XR ℝ) → XR ℝ) :
    ∃ o, postHessian xr mp (thetaX rows) (fisherX rows) nllIn fop = .ok o ∧ Spec rows mp nllIn fop o := by
  have hsnap : (nsteps xr (thetaX rows) (fisherX rows)).map (testElem xr snapTest) = rows.map snapB := by
    rw [nsteps_good rows hpos, List.map_map]
    apply List.map_congr_left; intro r _; simp [testElem_snap, snapB]
  have hkept : (nsteps xr (thetaX rows) (fisherX rows)).map (testElem xr keptTest) = rows.map keptB := by
    rw [nsteps_good rows hpos, List.map_map]
    apply List.map_congr_left; intro r _; simp [testElem_kept, keptB]
  unfold postHessian
  simp only [length_thetaX, length_fisherX, ne_eq, not_true_eq_false, if_false, anyTest_bad_good rows hpos,
    Bool.false_eq_true, hsnap, hkept]
  by_cases hany : (rows.map snapB).any id = true
  · rw [if_pos hany]
    by_cases hfin : xr.isFinite (fop (snappedX rows)) = true
    · have : xr.isFinite (fop (zeroWhere xr (rows.map snapB) (thetaX rows))) = true := hfin
      rw [if_pos this]
      exact snapAll_spec rows mp hlen nllIn fop hany hfin _
    · have hfin' : xr.isFinite (fop (snappedX rows)) = false := by simpa using hfin
      have : ¬ xr.isFinite (fop (zeroWhere xr (rows.map snapB) (thetaX rows))) = true := hfin
      rw [if_neg this]
      exact search_spec rows mp hlen nllIn fop hany hfin'
  · rw [if_neg hany]
    have hany' : (rows.map snapB).any id = false := by simpa using hany
    exact finish_spec_ones rows mp hlen nllIn fop _ _ (fun h => by rw [hany'] at h; cases h)

/-! ## bridging lemmas for the statements of Props/C07 -/

theorem spec_of_ok {rows : List (ℝ × ℝ)} {mp : Nat} {nllIn : XR ℝ} {fop : List (XR ℝ) → XR ℝ} {o : Out (XR ℝ)}
    (hpos : ∀ r ∈ rows, 0 < r.2) (hlen : rows.length ≤ mp)
    (h : postHessian xr mp (thetaX rows) (fisherX rows) nllIn fop = .ok o) : Spec rows mp nllIn fop o := by
  obtain ⟨o', ho', sp⟩ := post_spec rows hpos mp hlen nllIn fop
  rw [ho'] at h; cases h; exact sp


theorem snapB_eq (r : ℝ × ℝ) : snapB r = decide (|r.1| * Real.sqrt (r.2 / 12) < 1) := by
  simp [snapB, nstepsR_eq]

theorem keptB_eq' (r : ℝ × ℝ) : keptB r = decide (¬ (|r.1| * Real.sqrt (r.2 / 12) < 1)) := by
  rw [keptB_eq, snapB_eq, decide_not]

theorem snappedX_eq (rows : List (ℝ × ℝ)) :
    snappedX rows = rows.map (fun r => if |r.1| * Real.sqrt (r.2 / 12) < 1 then XR.fin 0 else XR.fin r.1) := by
  rw [snappedX, thetaX, zeroWhere_map]
  apply List.map_congr_left; intro r _
  simp [snapB_eq]

theorem mem_select {β : Type} (m : List Bool) (l : List β) (x : β) (h : x ∈ select m l) : x ∈ l := by
  induction m generalizing l with
  | nil => cases l <;> simp [select] at h
  | cons b m ih =>
    cases l with
    | nil => simp [select] at h
    | cons a l =>
      cases b
      · simp only [select] at h; exact List.mem_cons_of_mem _ (ih l (by simpa using h))
      · simp only [select, if_true, List.mem_cons] at h
        rcases h with rfl | h
        · simp
        · exact List.mem_cons_of_mem _ (ih l h)

theorem select_all_false {β : Type} (m : List Bool) (l : List β) (h : ∀ b ∈ m, b = false) : select m l = [] := by
  induction m generalizing l with
  | nil => cases l <;> rfl
  | cons b m ih =>
    cases l with
    | nil => rfl
    | cons a l =>
      have hb : b = false := h b (by simp)
      subst hb
      simp [select, ih l (fun b hb => h b (by simp [hb]))]

theorem zeroWhere_not_zipWith (kept : List Bool) (rows : List (ℝ × ℝ)) :
    zeroWhere xr (kept.map not) (rows.map (fun r => XR.fin r.1))
      = List.zipWith (fun (b : Bool) (r : ℝ × ℝ) => if b then XR.fin r.1 else XR.fin 0) kept rows := by
  induction kept generalizing rows with
  | nil => cases rows <;> rfl
  | cons b m ih =>
    cases rows with
    | nil => rfl
    | cons r rows => cases b <;> simp [zeroWhere, ih]

theorem params_zipWith (rows : List (ℝ × ℝ)) (mp : Nat) (kept : List Bool) (hk : kept.length = rows.length) :
    pad xr mp (zeroWhere xr (kept.map not) (thetaX rows))
      = List.zipWith (fun (b : Bool) (r : ℝ × ℝ) => if b then XR.fin r.1 else XR.fin 0) kept rows
        ++ List.replicate (mp - rows.length) (XR.fin 0) := by
  have hl : (zeroWhere xr (kept.map not) (thetaX rows)).length = rows.length := by
    rw [length_zeroWhere xr _ _ (by simp [hk])]; simp
  rw [pad, hl, xr_zero, thetaX, zeroWhere_not_zipWith]

end ESR.Codelen
