import ESRVerif.Model.Match
import Mathlib.Analysis.SpecialFunctions.Log.Basic
import Mathlib.Analysis.Real.Sqrt
/-!
Helper lemmas for `Props/C05.lean`:
* composition of substitutions as a fold;
* index arithmetic of the triangular storage;
* the extended reals `XR` (`fin r | +∞ | −∞ | NaN`, IEEE rules for the special values) as an instance of `Num`, and the
  facts about `codelenFormula`, `snapMask` over finite values.
-/
namespace ESR.Match
open ESR.Gen.Match

/-! ## composition -/

/-- what sympy's `subs(…, simultaneous=True)` and `lambdify` are taken to satisfy -/
structure Sem.Lawful {α : Type} (S : Sem α) : Prop where
  eval_var : ∀ i θ, S.eval (S.var i) θ = θ i
  eval_subst : ∀ m t θ, S.eval (S.subst m t) θ = S.eval t (denote S m θ)

theorem foldl_subst_eval {α : Type} (S : Sem α) (h : S.Lawful) (chain : List (Nat → S.T)) (θ : Nat → α) :
    ∀ p : List S.T, ((chain.foldl (fun p m => p.map (S.subst m)) p).map (fun t => S.eval t θ))
      = p.map (fun t => S.eval t (applyChain S chain θ)) := by
  induction chain with
  | nil => intro p; simp [applyChain]
  | cons m rest ih =>
    intro p
    simp only [List.foldl_cons]
    rw [ih]
    simp [applyChain, h.eval_subst, Function.comp_def]

theorem term_eval_subst (m : Nat → Term) (t : Term) (θ : Nat → Float) :
    (t.subst m).evalF θ = t.evalF (fun i => (m i).evalF θ) := by
  induction t with
  | var i => simp [Term.subst, Term.evalF]
  | neg t ih => simp [Term.subst, Term.evalF, ih]
  | inv t ih => simp [Term.subst, Term.evalF, ih]
  | divn t n ih => simp [Term.subst, Term.evalF, ih]
  | muln t n ih => simp [Term.subst, Term.evalF, ih]
  | rpow t a b ih => simp [Term.subst, Term.evalF, ih]
  | abs t ih => simp [Term.subst, Term.evalF, ih]
  | sign t ih => simp [Term.subst, Term.evalF, ih]
  | mul a b iha ihb => simp [Term.subst, Term.evalF, iha, ihb]

theorem floatSem_lawful : floatSem.Lawful where
  eval_var := by intro i θ; simp [floatSem, Term.evalF]
  eval_subst := by intro m t θ; exact term_eval_subst m t θ

/-! ## triangular storage -/

/-- `(i-1)*i/2` as Python computes it for `i ≥ 0` -/
def tri (i : Nat) : Nat := (i - 1) * i / 2

theorem tri_succ (i : Nat) : tri (i + 1) = tri i + i := by
  unfold tri
  cases i with
  | zero => simp
  | succ j =>
    have h : (j + 1 + 1 - 1) * (j + 1 + 1) = (j + 1 - 1) * (j + 1) + 2 * (j + 1) := by
      simp only [Nat.add_sub_cancel]; ring
    rw [h, Nat.add_mul_div_left _ _ (by decide : 0 < 2)]

theorem rowStart_add_tri (n : Nat) : ∀ i, i ≤ n → rowStart n i + tri i = i * n := by
  intro i
  induction i with
  | zero => intro _; simp [rowStart, tri]
  | succ i ih =>
    intro h
    have := ih (by omega)
    rw [rowStart, tri_succ, Nat.succ_mul]
    omega

theorem startPy_eq_rowStart (n i : Nat) (h : i ≤ n) : startPy n i = rowStart n i := by
  have := rowStart_add_tri n i h
  unfold startPy
  unfold tri at this
  omega

theorem rowStart_mono (n : Nat) : ∀ i j, i ≤ j → rowStart n i ≤ rowStart n j := by
  intro i j h
  induction j with
  | zero => have : i = 0 := by omega
            subst this; exact Nat.le_refl _
  | succ j ih =>
    by_cases hij : i = j + 1
    · subst hij; exact Nat.le_refl _
    · have := ih (by omega); simp only [rowStart]; omega

theorem rowStart_full (n : Nat) : rowStart n n = n * (n + 1) / 2 := by
  have h := rowStart_add_tri n n (Nat.le_refl _)
  unfold tri at h
  have h2 : (n - 1) * n + 2 * n = n * (n + 1) := by
    cases n with
    | zero => simp
    | succ m => simp only [Nat.add_sub_cancel]; ring
  have h3 : (n - 1) * n % 2 = 0 := by
    cases n with
    | zero => simp
    | succ m =>
      simp only [Nat.add_sub_cancel]
      have := Nat.even_mul_succ_self m
      exact Nat.even_iff.mp this
  have h4 : n * (n + 1) % 2 = 0 := Nat.even_iff.mp (Nat.even_mul_succ_self n)
  have h5 : n * (n + 1) = n * n + n := by ring
  omega

theorem writeSlice_length {α : Type} (l : List α) (s : Nat) (v : List α) (h : s + v.length ≤ l.length) :
    (writeSlice l s v).length = l.length := by
  simp [writeSlice]; omega

theorem writeSlice_get_lt {α : Type} (l : List α) (s : Nat) (v : List α) (t : Nat) (ht : t < s) (hs : s ≤ l.length) :
    (writeSlice l s v)[t]? = l[t]? := by
  unfold writeSlice
  rw [List.append_assoc, List.getElem?_append_left (by simp; try omega)]
  simp [ht]

theorem writeSlice_get_in {α : Type} (l : List α) (s : Nat) (v : List α) (t : Nat) (ht : t < v.length) (hs : s ≤ l.length) :
    (writeSlice l s v)[s + t]? = v[t]? := by
  unfold writeSlice
  rw [List.append_assoc, List.getElem?_append_right (by simp; try omega)]
  have : (List.take s l).length = s := by simp; omega
  rw [this, Nat.add_sub_cancel_left, List.getElem?_append_left ht]

/-- state of the flatten loop after its first `m` iterations -/
def flattenUpTo {α : Type} (nanv : α) (n k m : Nat) (H : Nat → Nat → α) : List α :=
  (List.range m).foldl (fun d i => writeSlice d (startPy n i) ((List.range (k - i)).map (fun t => H i (i + t))))
    (List.replicate (n * (n + 1) / 2) nanv)

theorem flatten_eq {α : Type} (nanv : α) (n k : Nat) (H : Nat → Nat → α) : flatten nanv n k H = flattenUpTo nanv n k k H := rfl

theorem rowStart_succ_le_full (n : Nat) (a : Nat) (h : a < n) : rowStart n (a + 1) ≤ n * (n + 1) / 2 := by
  rw [← rowStart_full]; exact rowStart_mono n _ _ (by omega)

theorem flattenUpTo_spec {α : Type} (nanv : α) (n k : Nat) (H : Nat → Nat → α) (hk : k ≤ n) :
    ∀ m, m ≤ k → (flattenUpTo nanv n k m H).length = n * (n + 1) / 2 ∧
      ∀ a b, a < m → a ≤ b → b < k → (flattenUpTo nanv n k m H)[rowStart n a + (b - a)]? = some (H a b) := by
  intro m
  induction m with
  | zero => intro _; refine ⟨by simp [flattenUpTo], ?_⟩; intro a b h; omega
  | succ m ih =>
    intro hm
    obtain ⟨hlen, hent⟩ := ih (by omega)
    have hstart : startPy n m = rowStart n m := startPy_eq_rowStart n m (by omega)
    have hfull := rowStart_succ_le_full n m (by omega)
    have hrs : rowStart n (m + 1) = rowStart n m + (n - m) := rfl
    have hstep : flattenUpTo nanv n k (m + 1) H =
        writeSlice (flattenUpTo nanv n k m H) (rowStart n m) ((List.range (k - m)).map (fun t => H m (m + t))) := by
      simp [flattenUpTo, List.range_succ, List.foldl_append, hstart]
    rw [hstep]
    refine ⟨?_, ?_⟩
    · rw [writeSlice_length _ _ _ (by simp; omega)]; exact hlen
    · intro a b ha hab hb
      by_cases ham : a < m
      · have h1 : rowStart n (a + 1) ≤ rowStart n m := rowStart_mono n _ _ (by omega)
        have h2 : rowStart n (a + 1) = rowStart n a + (n - a) := rfl
        rw [writeSlice_get_lt _ _ _ _ (by omega) (by omega)]
        exact hent a b ham hab hb
      · have : a = m := by omega
        subst this
        rw [writeSlice_get_in _ _ _ _ (by simp; omega) (by omega)]
        simp only [List.getElem?_map]
        rw [List.getElem?_range (by omega)]
        simp
        congr 1; omega

/-! ## extended reals -/

/-- finite real | +∞ | −∞ | NaN -/
inductive XR where
  | fin (r : ℝ)
  | pinf
  | ninf
  | nan

namespace XR
open Classical

noncomputable def add : XR → XR → XR
  | fin x, fin y => fin (x + y)
  | nan, _ => nan
  | _, nan => nan
  | pinf, ninf => nan
  | ninf, pinf => nan
  | pinf, _ => pinf
  | _, pinf => pinf
  | ninf, _ => ninf
  | _, ninf => ninf

/-- sign of a non-NaN value: -1, 0, 1 -/
noncomputable def sgn : XR → Int
  | fin x => if x = 0 then 0 else if 0 < x then 1 else -1
  | pinf => 1
  | ninf => -1
  | nan => 0

noncomputable def ofSgnInf (s : Int) : XR := if s = 0 then nan else if 0 < s then pinf else ninf

noncomputable def mul : XR → XR → XR
  | fin x, fin y => fin (x * y)
  | nan, _ => nan
  | _, nan => nan
  | a, b => ofSgnInf (sgn a * sgn b)          -- an infinite factor: 0·∞ = NaN, otherwise ±∞ by the signs

/-- the sign of a zero divisor is not modelled: x/0 = +∞ for x > 0 -/
noncomputable def div : XR → XR → XR
  | fin x, fin y => if y = 0 then ofSgnInf (sgn (fin x)) else fin (x / y)
  | nan, _ => nan
  | _, nan => nan
  | fin _, _ => fin 0                          -- finite / ±∞
  | a, fin y => ofSgnInf (sgn a * (if 0 ≤ y then 1 else -1))
  | _, _ => nan                                -- ∞/∞

def neg : XR → XR
  | fin x => fin (-x)
  | pinf => ninf
  | ninf => pinf
  | nan => nan

def abs : XR → XR
  | fin x => fin |x|
  | pinf => pinf
  | ninf => pinf
  | nan => nan

noncomputable def sqrt : XR → XR
  | fin x => if x < 0 then nan else fin (Real.sqrt x)
  | pinf => pinf
  | _ => nan

noncomputable def log : XR → XR
  | fin x => if x < 0 then nan else if x = 0 then ninf else fin (Real.log x)
  | pinf => pinf
  | _ => nan

noncomputable def lt : XR → XR → Bool
  | fin x, fin y => decide (x < y)
  | nan, _ => false
  | _, nan => false
  | ninf, ninf => false
  | ninf, _ => true
  | _, pinf => true
  | _, _ => false

noncomputable def le : XR → XR → Bool
  | fin x, fin y => decide (x ≤ y)
  | nan, _ => false
  | _, nan => false
  | ninf, _ => true
  | _, pinf => true
  | _, _ => false

noncomputable def ne : XR → XR → Bool
  | fin x, fin y => decide (x ≠ y)
  | nan, _ => true
  | _, nan => true
  | pinf, pinf => false
  | ninf, ninf => false
  | _, _ => true

def isNaN : XR → Bool
  | nan => true
  | _ => false

def isFinite : XR → Bool
  | fin _ => true
  | _ => false

end XR

noncomputable instance : Num XR where
  ofNat n := .fin n
  add := XR.add
  mul := XR.mul
  div := XR.div
  neg := XR.neg
  abs := XR.abs
  sqrt := XR.sqrt
  log := XR.log
  lt := XR.lt
  le := XR.le
  ne := XR.ne
  isNaN := XR.isNaN
  isFinite := XR.isFinite
  nan := .nan
  inf := .pinf

namespace XR
open Num

@[simp] theorem ofNat_eq (n : Nat) : (Num.ofNat n : XR) = fin n := rfl
@[simp] theorem zero_eq : (Num.zero : XR) = fin 0 := by simp [Num.zero]
@[simp] theorem one_eq : (Num.one : XR) = fin 1 := by simp [Num.one]
@[simp] theorem nan_eq : (Num.nan : XR) = nan := rfl
@[simp] theorem inf_eq : (Num.inf : XR) = pinf := rfl
@[simp] theorem add_fin (x y : ℝ) : Num.add (fin x) (fin y) = fin (x + y) := rfl
@[simp] theorem mul_fin (x y : ℝ) : Num.mul (fin x) (fin y) = fin (x * y) := rfl
@[simp] theorem div_fin (x y : ℝ) (h : y ≠ 0) : Num.div (fin x) (fin y) = fin (x / y) := by
  show XR.div _ _ = _; simp [XR.div, h]
@[simp] theorem neg_fin (x : ℝ) : Num.neg (fin x) = fin (-x) := rfl
@[simp] theorem abs_fin (x : ℝ) : Num.abs (fin x) = fin |x| := rfl
@[simp] theorem sqrt_fin (x : ℝ) (h : 0 ≤ x) : Num.sqrt (fin x) = fin (Real.sqrt x) := by
  show XR.sqrt _ = _; simp [XR.sqrt, not_lt.mpr h]
@[simp] theorem log_fin (x : ℝ) (h : 0 < x) : Num.log (fin x) = fin (Real.log x) := by
  show XR.log _ = _; simp [XR.log, not_lt.mpr h.le, h.ne']
@[simp] theorem lt_fin (x y : ℝ) : Num.lt (fin x) (fin y) = decide (x < y) := rfl
@[simp] theorem le_fin (x y : ℝ) : Num.le (fin x) (fin y) = decide (x ≤ y) := rfl
@[simp] theorem ne_fin (x y : ℝ) : Num.ne (fin x) (fin y) = decide (x ≠ y) := rfl
@[simp] theorem isNaN_fin (x : ℝ) : Num.isNaN (fin x) = false := rfl
@[simp] theorem isFinite_fin (x : ℝ) : Num.isFinite (fin x) = true := rfl
@[simp] theorem isFinite_pinf : Num.isFinite pinf = false := rfl
@[simp] theorem isFinite_nan : Num.isFinite nan = false := rfl
@[simp] theorem isNaN_nan : Num.isNaN nan = true := rfl
@[simp] theorem isNaN_pinf : Num.isNaN pinf = false := rfl
@[simp] theorem isInf_fin (x : ℝ) : Num.isInf (fin x) = false := by simp [Num.isInf]

theorem isFinite_iff (a : XR) : Num.isFinite a = true ↔ ∃ x, a = fin x := by
  cases a <;> simp [show ∀ x : ℝ, (Num.isFinite (fin x)) = true from fun _ => rfl]
  all_goals rfl

@[simp] theorem ofRat_int (n : Nat) : (Num.ofRat (n, 1) : XR) = fin n := by simp [Num.ofRat]
theorem ofRat_half : (Num.ofRat (1, 2) : XR) = fin (1 / 2) := by
  simp [Num.ofRat]

theorem sum_fin_aux (l : List ℝ) : ∀ acc : ℝ, (l.map fin).foldl Num.add (fin acc) = fin (acc + l.sum) := by
  induction l with
  | nil => intro acc; simp
  | cons a l ih => intro acc; simp [ih, add_assoc]

theorem sum_fin (l : List ℝ) : Num.sum (l.map fin) = fin l.sum := by
  simp [Num.sum, sum_fin_aux]

end XR

/-! ## the row logic over finite values -/

/-- the snapping decision of one parameter in real arithmetic: `|p| / sqrt(12/F) < 1` -/
noncomputable def snapR (x f : ℝ) : Bool := decide (|x| / Real.sqrt (12 / f) < 1)

theorem sqrt12_pos {f : ℝ} (hf : 0 < f) : 0 < Real.sqrt (12 / f) := Real.sqrt_pos.mpr (by positivity)

theorem deltaNum_fin : (Num.ofRat deltaNum : XR) = XR.fin 12 := by
  rw [show deltaNum = (12, 1) from rfl, XR.ofRat_int]; norm_num

theorem snapThreshold_fin : (Num.ofRat snapThreshold : XR) = XR.fin 1 := by
  rw [show snapThreshold = (1, 1) from rfl, XR.ofRat_int]; norm_num

theorem delta_fin {f : ℝ} (hf : 0 < f) :
    (if Num.ne (XR.fin f) (Num.zero : XR) = true then Num.sqrt (Num.div (Num.ofRat deltaNum) (XR.fin f)) else Num.inf)
      = XR.fin (Real.sqrt (12 / f)) := by
  have h1 : Num.ne (XR.fin f) (Num.zero : XR) = true := by
    rw [XR.zero_eq, XR.ne_fin]; exact decide_eq_true (by simpa using hf.ne')
  rw [if_pos h1, deltaNum_fin, XR.div_fin _ _ hf.ne', XR.sqrt_fin _ (by positivity)]

theorem nsteps_fin (x : ℝ) {f : ℝ} (hf : 0 < f) :
    (if Num.ne (XR.fin (Real.sqrt (12 / f))) (Num.zero : XR) = true then Num.div (Num.abs (XR.fin x)) (XR.fin (Real.sqrt (12 / f))) else Num.nan)
      = XR.fin (|x| / Real.sqrt (12 / f)) := by
  have hs := sqrt12_pos hf
  have h1 : Num.ne (XR.fin (Real.sqrt (12 / f))) (Num.zero : XR) = true := by
    rw [XR.zero_eq, XR.ne_fin]; exact decide_eq_true (by simpa using hs.ne')
  rw [if_pos h1, XR.abs_fin, XR.div_fin _ _ hs.ne']

/-- match.py:109-116,125 on finite positive Fisher entries -/
theorem snapMask_fin : ∀ (p fish : List ℝ), (∀ f ∈ fish, 0 < f) →
    snapMask (p.map XR.fin) (fish.map XR.fin) = List.zipWith snapR p fish := by
  intro p fish
  induction fish generalizing p with
  | nil => intro _; cases p <;> simp [snapMask, nstepsOf, deltaOf]
  | cons f fs ih =>
    intro h
    cases p with
    | nil => simp [snapMask, nstepsOf, deltaOf]
    | cons x xs =>
      have hf : 0 < f := h f (by simp)
      have ih' := ih xs (fun g hg => h g (by simp [hg]))
      simp only [snapMask, nstepsOf, deltaOf] at ih'
      simp only [snapMask, nstepsOf, deltaOf, List.map_cons, List.zipWith_cons_cons]
      rw [ih', delta_fin hf, nsteps_fin x hf, snapThreshold_fin, XR.lt_fin]
      rfl

/-- the threshold in the form the property states it: `|θ|·sqrt(F/12) < 1` -/
theorem snapR_iff {x f : ℝ} : snapR x f = true ↔ |x| * Real.sqrt (f / 12) < 1 := by
  have h : (12 / f) = (f / 12)⁻¹ := by rw [inv_div]
  unfold snapR
  rw [h, Real.sqrt_inv, div_inv_eq_mul, decide_eq_true_iff]

theorem snapR_false_ne {x f : ℝ} (hf : 0 < f) (h : snapR x f = false) : x ≠ 0 := by
  intro hx
  subst hx
  have hs := sqrt12_pos hf
  have : |(0 : ℝ)| / Real.sqrt (12 / f) < 1 := by simp
  unfold snapR at h
  rw [decide_eq_false_iff_not] at h
  exact h this

@[simp] theorem keep_nil_left {β : Type} (xs : List β) : keep [] xs = [] := by simp [keep]
@[simp] theorem keep_nil_right {β : Type} (m : List Bool) : keep m ([] : List β) = [] := by simp [keep]
@[simp] theorem keep_cons_true {β : Type} (m : List Bool) (x : β) (xs : List β) : keep (true :: m) (x :: xs) = x :: keep m xs := by
  simp [keep]
@[simp] theorem keep_cons_false {β : Type} (m : List Bool) (x : β) (xs : List β) : keep (false :: m) (x :: xs) = keep m xs := by
  simp [keep]

theorem keep_map {β γ : Type} (g : β → γ) : ∀ (m : List Bool) (xs : List β), keep m (xs.map g) = (keep m xs).map g := by
  intro m
  induction m with
  | nil => intro xs; simp
  | cons b m ih =>
    intro xs
    cases xs with
    | nil => simp
    | cons x xs => cases b <;> simp [ih]

theorem mem_keep {β : Type} : ∀ (m : List Bool) (xs : List β) (y : β), y ∈ keep m xs → y ∈ xs := by
  intro m
  induction m with
  | nil => intro xs y; simp
  | cons b m ih =>
    intro xs y
    cases xs with
    | nil => simp
    | cons x xs =>
      cases b
      · simp only [keep_cons_false]; intro h; exact List.mem_cons_of_mem _ (ih xs y h)
      · simp only [keep_cons_true, List.mem_cons]
        rintro (h | h)
        · exact Or.inl h
        · exact Or.inr (ih xs y h)

theorem keep_all_true {β : Type} : ∀ (xs : List β), keep (List.replicate xs.length true) xs = xs := by
  intro xs
  induction xs with
  | nil => simp
  | cons x xs ih => simp [List.replicate_succ, ih]

/-- a parameter that is kept (not snapped) is non-zero -/
theorem keep_unsnapped_ne_zero : ∀ (p fish : List ℝ), (∀ f ∈ fish, 0 < f) →
    ∀ x ∈ keep ((List.zipWith snapR p fish).map not) p, x ≠ 0 := by
  intro p
  induction p with
  | nil => intro fish _ x; simp
  | cons a p ih =>
    intro fish h x
    cases fish with
    | nil => simp
    | cons f fs =>
      have hf : 0 < f := h f (by simp)
      have ih' := ih fs (fun g hg => h g (by simp [hg])) x
      simp only [List.zipWith_cons_cons, List.map_cons]
      cases hs : snapR a f
      · simp only [Bool.not_false, keep_cons_true, List.mem_cons]
        rintro (rfl | hx)
        · exact snapR_false_ne hf hs
        · exact ih' hx
      · simpa using ih'

/-- match.py:183/211 over finite values: the closed formula −(k/2)·ln 3 + Σ (½ ln F + ln|p|) -/
theorem codelenFormula_fin (k : Nat) : ∀ (fs ps : List ℝ), (∀ f ∈ fs, 0 < f) → (∀ x ∈ ps, x ≠ 0) →
    codelenFormula k (fs.map XR.fin) (ps.map XR.fin)
      = XR.fin (-(k : ℝ) / 2 * Real.log 3 + (List.zipWith (fun f x => 1 / 2 * Real.log f + Real.log |x|) fs ps).sum) := by
  intro fs ps hf hp
  have hz : List.zipWith (fun (f x : XR) => Num.add (Num.mul (Num.ofRat fisherWeight) (Num.log f)) (Num.log (Num.abs x)))
      (fs.map XR.fin) (ps.map XR.fin) = (List.zipWith (fun f x => 1 / 2 * Real.log f + Real.log |x|) fs ps).map XR.fin := by
    induction fs generalizing ps with
    | nil => simp
    | cons f fs ih =>
      cases ps with
      | nil => simp
      | cons x xs =>
        have hf0 : 0 < f := hf f (by simp)
        have hx0 : x ≠ 0 := hp x (by simp)
        have := ih xs (fun g hg => hf g (by simp [hg])) (fun y hy => hp y (by simp [hy]))
        simp only [List.map_cons, List.zipWith_cons_cons, this]
        simp [fisherWeight, XR.ofRat_half, hf0, abs_pos.mpr hx0]
  unfold codelenFormula
  rw [hz, XR.sum_fin]
  simp [codelenDiv, codelenLogArg]

theorem fish_any_le_false (fish : List ℝ) (h : ∀ f ∈ fish, 0 < f) :
    (fish.map XR.fin).any (fun f => Num.le f (Num.zero : XR)) = false := by
  simp only [List.any_eq_false, List.mem_map]
  rintro _ ⟨f, hf, rfl⟩
  simp [not_le.mpr (h f hf)]


/-! ## the subset search (match.py:164-175) -/

theorem keep_not_zeroWhere : ∀ (m : List Bool) (xs : List XR), keep (m.map not) (zeroWhere m xs) = keep (m.map not) xs := by
  intro m
  induction m with
  | nil => intro xs; simp
  | cons b m ih =>
    intro xs
    cases xs with
    | nil => simp [zeroWhere]
    | cons x xs =>
      have := ih xs
      simp only [zeroWhere] at this
      cases b
      · simp only [zeroWhere, List.map_cons, List.zipWith_cons_cons, Bool.not_false, keep_cons_true, Bool.false_eq_true,
          if_false]
        rw [this]
      · simp only [zeroWhere, List.map_cons, List.zipWith_cons_cons, Bool.not_true, keep_cons_false]
        exact this

/-- what the search loops maintain: `idx` unbound means nothing was evaluated; otherwise `p` is the transformed parameter
vector with exactly the last tried tuple zeroed, and the likelihood is a value of `reval` -/
structure LoopInv (init : LoopSt XR) (ptrue : List XR) (reval : List Bool → XR) (st : LoopSt XR) : Prop where
  unbound : st.idx = none → st = init
  bound : ∀ idx, st.idx = some idx → st.p = zeroWhere (maskOf ptrue.length idx) ptrue ∧ st.nll = reval (maskOf ptrue.length idx)

theorem innerLoop_inv (init : LoopSt XR) (ptrue : List XR) (reval : List Bool → XR) :
    ∀ (cs : List (List Nat)) (st : LoopSt XR), LoopInv init ptrue reval st →
      ∃ st', innerLoop ptrue true reval cs st = some st' ∧ LoopInv init ptrue reval st' := by
  intro cs
  induction cs with
  | nil => intro st h; exact ⟨st, rfl, h⟩
  | cons idx rest ih =>
    intro st _
    have hnew : LoopInv init ptrue reval ⟨some idx, reval (maskOf ptrue.length idx), zeroWhere (maskOf ptrue.length idx) ptrue⟩ :=
      ⟨(by intro h; cases h), (by intro i h; cases h; exact ⟨rfl, rfl⟩)⟩
    simp only [innerLoop, Bool.not_true, Bool.false_eq_true, if_false]
    by_cases hf : Num.isFinite (reval (maskOf ptrue.length idx)) = true
    · rw [if_pos hf]; exact ⟨_, rfl, hnew⟩
    · rw [if_neg hf]; exact ih _ hnew

theorem outerLoop_inv (init : LoopSt XR) (ptrue : List XR) (reval : List Bool → XR) (tryIdx : List Nat) :
    ∀ (rs : List Nat) (st : LoopSt XR), LoopInv init ptrue reval st →
      ∃ st', outerLoop ptrue true reval tryIdx rs st = some st' ∧ LoopInv init ptrue reval st' := by
  intro rs
  induction rs with
  | nil => intro st h; exact ⟨st, rfl, h⟩
  | cons r rs ih =>
    intro st h
    obtain ⟨st1, h1, hinv1⟩ := innerLoop_inv init ptrue reval (combos tryIdx r) st h
    simp only [outerLoop, h1]
    exact ih st1 hinv1

/-- match.py:182 over finite values: a snapped entry gets `12/p²`, the others keep their Fisher entry; all stay positive -/
theorem infNll_fish_fin : ∀ (snap : List Bool) (fish p : List ℝ), (∀ f ∈ fish, 0 < f) → (∀ x ∈ p, x ≠ 0) →
    ∃ fr : List ℝ, (∀ f ∈ fr, 0 < f) ∧ fr.length = (List.zip snap (List.zip fish p)).length ∧
      List.zipWith (fun b (fx : XR × XR) => if b then Num.div (Num.ofRat infNllNum) (Num.mul fx.2 fx.2) else fx.1)
        snap (List.zip (fish.map XR.fin) (p.map XR.fin)) = fr.map XR.fin := by
  intro snap
  induction snap with
  | nil => intro fish p _ _; exact ⟨[], by simp, by simp, by simp⟩
  | cons b m ih =>
    intro fish p hf hp
    cases fish with
    | nil => exact ⟨[], by simp, by simp, by simp⟩
    | cons f fs =>
      cases p with
      | nil => exact ⟨[], by simp, by simp, by simp⟩
      | cons x xs =>
        obtain ⟨fr, hpos, hlen, heq⟩ := ih fs xs (fun g hg => hf g (by simp [hg])) (fun y hy => hp y (by simp [hy]))
        have hx : x ≠ 0 := hp x (by simp)
        have hf0 : 0 < f := hf f (by simp)
        have h12 : (Num.ofRat infNllNum : XR) = XR.fin 12 := by
          rw [show infNllNum = (12, 1) from rfl, XR.ofRat_int]; norm_num
        refine ⟨(if b then 12 / (x * x) else f) :: fr, ?_, ?_, ?_⟩
        · intro g hg
          rcases List.mem_cons.mp hg with rfl | hg
          · cases b
            · simpa using hf0
            · have : 0 < x * x := mul_self_pos.mpr hx
              simp; positivity
          · exact hpos g hg
        · simp [hlen]
        · simp only [List.map_cons, List.zip_cons_cons, List.zipWith_cons_cons, heq]
          cases b
          · simp
          · simp [h12, XR.div_fin _ _ (mul_self_ne_zero.mpr hx)]

end ESR.Match
