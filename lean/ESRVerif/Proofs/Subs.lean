import ESRVerif.Model.Subs
import ESRVerif.Generated.Subs
import ESRVerif.Model.Partition
/-!
Helper lemmas for C17 (core Lean only): safe alphabet of the printer, `str.replace` on separator-free chunks,
the quote-insertion sequence on a rendered dict, the literal automaton, csv lines/cells, the cancellation loop.
-/
namespace ESR.Subs

/-! ### the separator alphabet -/

/-- every character the text transformation of `load_subs`, `literal_eval` or the csv layer treats specially -/
def sepChars : List Char := ['{', '}', ',', ':', ' ', '\'', ';', '"', '\r', '\n', '\\']

def SafeS (s : List Char) : Prop := ∀ c ∈ s, c ∉ sepChars

theorem SafeS.nil : SafeS [] := by intro c h; cases h

theorem SafeS.append {a b : List Char} (ha : SafeS a) (hb : SafeS b) : SafeS (a ++ b) := by
  intro c h
  rcases List.mem_append.mp h with h | h
  · exact ha c h
  · exact hb c h

theorem SafeS.cons {c : Char} {s : List Char} (hc : c ∉ sepChars) (hs : SafeS s) : SafeS (c :: s) := by
  intro d h
  rcases List.mem_cons.mp h with h | h
  · subst h; exact hc
  · exact hs d h

theorem digitChar_safe (d : Nat) : digitChar d ∉ sepChars := by
  unfold digitChar
  split <;> decide

theorem natCharsAux_safe (f n : Nat) (acc : List Char) (h : SafeS acc) : SafeS (natCharsAux f n acc) := by
  induction f generalizing n acc with
  | zero => simpa [natCharsAux] using h
  | succ f ih =>
    unfold natCharsAux
    split
    · exact SafeS.cons (digitChar_safe _) h
    · exact ih _ _ (SafeS.cons (digitChar_safe _) h)

theorem natChars_safe (n : Nat) : SafeS (natChars n) := natCharsAux_safe _ _ _ SafeS.nil

theorem paren_safe (need p : Nat) (s : List Char) (h : SafeS s) : SafeS (paren need p s) := by
  unfold paren
  split
  · exact SafeS.cons (by decide) (SafeS.append h (SafeS.cons (by decide) SafeS.nil))
  · exact h

theorem map_digitChar_safe (fs : List Nat) : SafeS (fs.map digitChar) := by
  intro c h
  rcases List.mem_map.mp h with ⟨d, _, rfl⟩
  exact digitChar_safe d

theorem toChars_safe (t : PTerm) : SafeS (toChars t) := by
  induction t with
  | param k => exact SafeS.cons (by decide) (natChars_safe k)
  | nan => exact SafeS.cons (by decide) (SafeS.cons (by decide) (SafeS.cons (by decide) SafeS.nil))
  | nat n => exact natChars_safe n
  | dec i fs => exact SafeS.append (natChars_safe i) (SafeS.cons (by decide) (map_digitChar_safe fs))
  | neg t ih => exact SafeS.cons (by decide) (paren_safe _ _ _ ih)
  | mul s t ihs iht => exact SafeS.append (paren_safe _ _ _ ihs) (SafeS.cons (by decide) (paren_safe _ _ _ iht))
  | div s t ihs iht => exact SafeS.append (paren_safe _ _ _ ihs) (SafeS.cons (by decide) (paren_safe _ _ _ iht))
  | pow b e ihb ihe =>
    exact SafeS.append (paren_safe _ _ _ ihb) (SafeS.cons (by decide) (SafeS.cons (by decide) (paren_safe _ _ _ ihe)))
  | abs t ih =>
    exact SafeS.cons (by decide) (SafeS.cons (by decide) (SafeS.cons (by decide) (SafeS.cons (by decide)
      (SafeS.append ih (SafeS.cons (by decide) SafeS.nil)))))
  | sqrt t ih =>
    exact SafeS.cons (by decide) (SafeS.cons (by decide) (SafeS.cons (by decide) (SafeS.cons (by decide)
      (SafeS.cons (by decide) (SafeS.append ih (SafeS.cons (by decide) SafeS.nil))))))
  | sign t ih =>
    exact SafeS.cons (by decide) (SafeS.cons (by decide) (SafeS.cons (by decide) (SafeS.cons (by decide)
      (SafeS.cons (by decide) (SafeS.append ih (SafeS.cons (by decide) SafeS.nil))))))
  | exp t ih =>
    exact SafeS.cons (by decide) (SafeS.cons (by decide) (SafeS.cons (by decide) (SafeS.cons (by decide)
      (SafeS.append ih (SafeS.cons (by decide) SafeS.nil)))))
  | log t ih =>
    exact SafeS.cons (by decide) (SafeS.cons (by decide) (SafeS.cons (by decide) (SafeS.cons (by decide)
      (SafeS.append ih (SafeS.cons (by decide) SafeS.nil)))))

/-! ### Python `str.replace` -/

theorem startsWith_self_append (pat ys : List Char) : startsWith pat (pat ++ ys) = true := by
  induction pat with
  | nil => simp [startsWith]
  | cons a p ih => simp [startsWith, ih]

theorem replaceGo_skip (p0 : Char) (ps rep xs ys : List Char) (h : p0 ∉ xs) :
    replaceGo (p0 :: ps) rep 0 (xs ++ ys) = xs ++ replaceGo (p0 :: ps) rep 0 ys := by
  induction xs with
  | nil => rfl
  | cons c cs ih =>
    have hc : p0 ≠ c := fun e => h (by simp [e])
    have hcs : p0 ∉ cs := fun e => h (by simp [e])
    simp only [List.cons_append, replaceGo, startsWith]
    have : (p0 == c) = false := by simpa using hc
    simp [this, ih hcs]

theorem replaceGo_drop (pat rep zs ys : List Char) :
    replaceGo pat rep zs.length (zs ++ ys) = replaceGo pat rep 0 ys := by
  induction zs with
  | nil => rfl
  | cons z zs ih => simpa [replaceGo] using ih

theorem replaceGo_hit (p0 : Char) (ps rep ys : List Char) :
    replaceGo (p0 :: ps) rep 0 ((p0 :: ps) ++ ys) = rep ++ replaceGo (p0 :: ps) rep 0 ys := by
  have hs := startsWith_self_append (p0 :: ps) ys
  simp only [List.cons_append] at hs ⊢
  rw [replaceGo]
  simp only [hs, if_true, List.length_cons, Nat.add_sub_cancel]
  rw [replaceGo_drop]

theorem replaceGo_none (p0 : Char) (ps rep xs : List Char) (h : p0 ∉ xs) :
    replaceGo (p0 :: ps) rep 0 xs = xs := by
  have := replaceGo_skip p0 ps rep xs [] h
  simpa [replaceGo] using this

/-! ### the quote-insertion sequence on a rendered dict -/

def SafeKVs (kvs : List (List Char × List Char)) : Prop := ∀ kv ∈ kvs, SafeS kv.1 ∧ SafeS kv.2

theorem SafeS.not_mem {s : List Char} (h : SafeS s) {c : Char} (hc : c ∈ sepChars) : c ∉ s :=
  fun hm => h c hm hc

theorem SafeKVs.tail {kv} {kvs : List (List Char × List Char)} (h : SafeKVs (kv :: kvs)) : SafeKVs kvs :=
  fun x hx => h x (List.mem_cons_of_mem _ hx)

theorem not_mem_joinItems (c : Char) (sepItem sepKV : List Char) (kvs : List (List Char × List Char))
    (h1 : c ∉ sepItem) (h2 : c ∉ sepKV) (h3 : ∀ kv ∈ kvs, c ∉ kv.1 ∧ c ∉ kv.2) :
    c ∉ joinItems sepItem sepKV kvs := by
  induction kvs with
  | nil => simp [joinItems]
  | cons kv rest ih =>
    have hk := h3 kv (by simp)
    have hrest : ∀ kv ∈ rest, c ∉ kv.1 ∧ c ∉ kv.2 := fun x hx => h3 x (List.mem_cons_of_mem _ hx)
    cases rest with
    | nil => simp [joinItems, hk.1, hk.2, h2]
    | cons kv2 rest2 =>
      have := ih hrest
      simp only [joinItems, List.mem_append, not_or]
      exact ⟨⟨⟨⟨hk.1, h2⟩, hk.2⟩, h1⟩, this⟩

theorem replace_sepItem (p0 : Char) (ps rep sepKV : List Char) (kvs : List (List Char × List Char))
    (tail : List Char) (h2 : p0 ∉ sepKV) (h3 : ∀ kv ∈ kvs, p0 ∉ kv.1 ∧ p0 ∉ kv.2) :
    replaceGo (p0 :: ps) rep 0 (joinItems (p0 :: ps) sepKV kvs ++ tail)
      = joinItems rep sepKV kvs ++ replaceGo (p0 :: ps) rep 0 tail := by
  induction kvs with
  | nil => simp [joinItems]
  | cons kv rest ih =>
    have hk := h3 kv (by simp)
    have hrest : ∀ kv ∈ rest, p0 ∉ kv.1 ∧ p0 ∉ kv.2 := fun x hx => h3 x (List.mem_cons_of_mem _ hx)
    have hchunk : p0 ∉ kv.1 ++ sepKV ++ kv.2 := by simp [hk.1, hk.2, h2]
    cases rest with
    | nil =>
      simp only [joinItems]
      rw [replaceGo_skip _ _ _ _ _ hchunk]
    | cons kv2 rest2 =>
      simp only [joinItems]
      have e : kv.1 ++ sepKV ++ kv.2 ++ (p0 :: ps) ++ joinItems (p0 :: ps) sepKV (kv2 :: rest2) ++ tail
          = (kv.1 ++ sepKV ++ kv.2) ++ ((p0 :: ps) ++ (joinItems (p0 :: ps) sepKV (kv2 :: rest2) ++ tail)) := by
        simp [List.append_assoc]
      rw [e, replaceGo_skip _ _ _ _ _ hchunk, replaceGo_hit, ih hrest]
      simp [List.append_assoc]

theorem replace_sepKV (p0 : Char) (ps rep sepItem : List Char) (kvs : List (List Char × List Char))
    (tail : List Char) (h1 : p0 ∉ sepItem) (h3 : ∀ kv ∈ kvs, p0 ∉ kv.1 ∧ p0 ∉ kv.2) :
    replaceGo (p0 :: ps) rep 0 (joinItems sepItem (p0 :: ps) kvs ++ tail)
      = joinItems sepItem rep kvs ++ replaceGo (p0 :: ps) rep 0 tail := by
  induction kvs with
  | nil => simp [joinItems]
  | cons kv rest ih =>
    have hk := h3 kv (by simp)
    have hrest : ∀ kv ∈ rest, p0 ∉ kv.1 ∧ p0 ∉ kv.2 := fun x hx => h3 x (List.mem_cons_of_mem _ hx)
    cases rest with
    | nil =>
      simp only [joinItems]
      have e : kv.1 ++ (p0 :: ps) ++ kv.2 ++ tail = kv.1 ++ ((p0 :: ps) ++ (kv.2 ++ tail)) := by
        simp [List.append_assoc]
      rw [e, replaceGo_skip _ _ _ _ _ hk.1, replaceGo_hit, replaceGo_skip _ _ _ _ _ hk.2]
      simp [List.append_assoc]
    | cons kv2 rest2 =>
      simp only [joinItems]
      have hv : p0 ∉ kv.2 ++ sepItem := by simp [hk.2, h1]
      have e : kv.1 ++ (p0 :: ps) ++ kv.2 ++ sepItem ++ joinItems sepItem (p0 :: ps) (kv2 :: rest2) ++ tail
          = kv.1 ++ ((p0 :: ps) ++ ((kv.2 ++ sepItem) ++ (joinItems sepItem (p0 :: ps) (kv2 :: rest2) ++ tail))) := by
        simp [List.append_assoc]
      rw [e, replaceGo_skip _ _ _ _ _ hk.1, replaceGo_hit, replaceGo_skip _ _ _ _ _ hv, ih hrest]
      simp [List.append_assoc]

/-- The four `.replace` calls turn `{k: v, …}` into `{'k': 'v', …}` whenever keys and values are separator-free. -/
theorem quote_render (kvs : List (List Char × List Char)) (h : SafeKVs kvs) :
    quote (render ['{'] [',', ' '] [':', ' '] ['}'] kvs)
      = render ['{', '\''] ['\'', ',', ' ', '\''] ['\'', ':', ' ', '\''] ['\'', '}'] kvs := by
  have hne : ∀ c, c ∈ sepChars → ∀ kv ∈ kvs, c ∉ kv.1 ∧ c ∉ kv.2 :=
    fun c hc kv hkv => ⟨(h kv hkv).1.not_mem hc, (h kv hkv).2.not_mem hc⟩
  have hbody : ∀ c, c ∈ sepChars → c ≠ ',' → c ≠ ' ' → c ≠ ':' → c ∉ joinItems [',', ' '] [':', ' '] kvs := by
    intro c hc h1 h2 h3
    exact not_mem_joinItems c _ _ kvs (by simp [h1, h2]) (by simp [h3, h2]) (hne c hc)
  unfold quote quoteWith replaceSeq render
  simp only [List.foldl_cons, List.foldl_nil, replaceAll]
  -- step 1: `{` → `{'`
  have s1 : replaceGo ['{'] ['{', '\''] 0 (['{'] ++ joinItems [',', ' '] [':', ' '] kvs ++ ['}'])
      = ['{', '\''] ++ joinItems [',', ' '] [':', ' '] kvs ++ ['}'] := by
    have hb : '{' ∉ joinItems [',', ' '] [':', ' '] kvs ++ ['}'] := by
      have := hbody '{' (by decide) (by decide) (by decide) (by decide)
      simp [this]
    rw [List.append_assoc, replaceGo_hit, replaceGo_none _ _ _ _ hb]
    simp [List.append_assoc]
  rw [s1]
  -- step 2: `}` → `'}`
  have s2 : replaceGo ['}'] ['\'', '}'] 0 (['{', '\''] ++ joinItems [',', ' '] [':', ' '] kvs ++ ['}'])
      = ['{', '\''] ++ joinItems [',', ' '] [':', ' '] kvs ++ ['\'', '}'] := by
    have hb : '}' ∉ ['{', '\''] ++ joinItems [',', ' '] [':', ' '] kvs := by
      have := hbody '}' (by decide) (by decide) (by decide) (by decide)
      simp [this]
    rw [replaceGo_skip _ _ _ _ _ hb]
    have : replaceGo ['}'] ['\'', '}'] 0 ['}'] = ['\'', '}'] := by
      have := replaceGo_hit '}' [] ['\'', '}'] []
      simpa [replaceGo] using this
    rw [this]
  rw [s2]
  -- step 3: `, ` → `', '`
  have s3 : replaceGo [',', ' '] ['\'', ',', ' ', '\''] 0
        (['{', '\''] ++ joinItems [',', ' '] [':', ' '] kvs ++ ['\'', '}'])
      = ['{', '\''] ++ joinItems ['\'', ',', ' ', '\''] [':', ' '] kvs ++ ['\'', '}'] := by
    rw [List.append_assoc, replaceGo_skip _ _ _ _ _ (by decide : ',' ∉ ['{', '\''])]
    rw [replace_sepItem ',' [' '] _ _ kvs _ (by decide) (hne ',' (by decide))]
    rw [replaceGo_none _ _ _ _ (by decide : ',' ∉ ['\'', '}'])]
    simp [List.append_assoc]
  rw [s3]
  -- step 4: `: ` → `': '`
  rw [List.append_assoc, replaceGo_skip _ _ _ _ _ (by decide : ':' ∉ ['{', '\''])]
  rw [replace_sepKV ':' [' '] _ _ kvs _ (by decide) (hne ':' (by decide))]
  rw [replaceGo_none _ _ _ _ (by decide : ':' ∉ ['\'', '}'])]
  simp [List.append_assoc]

/-- `'nan'` is left alone by the replacements. -/
theorem quote_nan : quote nanCell = nanCell := by decide

/-! ### the literal automaton on the quoted text -/

theorem drun_inKey (d : List (List Char × List Char)) (acc xs rest : List Char) (h : SafeS xs) :
    drun (.inKey d acc) (xs ++ rest) = drun (.inKey d (acc ++ xs)) rest := by
  induction xs generalizing acc with
  | nil => simp
  | cons c cs ih =>
    have hc := h c (by simp)
    have h1 : c ≠ '\'' := fun e => hc (by rw [e]; decide)
    have h2 : c ≠ '\\' := fun e => hc (by rw [e]; decide)
    have h3 : c ≠ '\n' := fun e => hc (by rw [e]; decide)
    have hcs : SafeS cs := fun x hx => h x (List.mem_cons_of_mem _ hx)
    simp only [List.cons_append, drun, dstep, h1, h2, h3, if_false, or_self]
    rw [ih _ hcs]; simp [List.append_assoc]

theorem drun_inVal (d : List (List Char × List Char)) (k acc xs rest : List Char) (h : SafeS xs) :
    drun (.inVal d k acc) (xs ++ rest) = drun (.inVal d k (acc ++ xs)) rest := by
  induction xs generalizing acc with
  | nil => simp
  | cons c cs ih =>
    have hc := h c (by simp)
    have h1 : c ≠ '\'' := fun e => hc (by rw [e]; decide)
    have h2 : c ≠ '\\' := fun e => hc (by rw [e]; decide)
    have h3 : c ≠ '\n' := fun e => hc (by rw [e]; decide)
    have hcs : SafeS cs := fun x hx => h x (List.mem_cons_of_mem _ hx)
    simp only [List.cons_append, drun, dstep, h1, h2, h3, if_false, or_self]
    rw [ih _ hcs]; simp [List.append_assoc]

theorem drun_items (d kvs : List (List Char × List Char)) (hne : kvs ≠ []) (h : SafeKVs kvs) :
    drun (.inKey d [])
        (joinItems ['\'', ',', ' ', '\''] ['\'', ':', ' ', '\''] kvs ++ ['\'', '}'])
      = some (.fin (d ++ kvs)) := by
  induction kvs generalizing d with
  | nil => exact absurd rfl hne
  | cons kv rest ih =>
    have hk := h kv (by simp)
    cases rest with
    | nil =>
      simp only [joinItems]
      have e : kv.1 ++ ['\'', ':', ' ', '\''] ++ kv.2 ++ ['\'', '}']
          = kv.1 ++ ('\'' :: ':' :: ' ' :: '\'' :: (kv.2 ++ ['\'', '}'])) := by simp [List.append_assoc]
      rw [e, drun_inKey _ _ _ _ hk.1]
      simp only [drun, dstep, if_true, List.nil_append]
      rw [drun_inVal _ _ _ _ _ hk.2]
      simp [drun, dstep]
    | cons kv2 rest2 =>
      simp only [joinItems]
      have e : kv.1 ++ ['\'', ':', ' ', '\''] ++ kv.2 ++ ['\'', ',', ' ', '\''] ++
            joinItems ['\'', ',', ' ', '\''] ['\'', ':', ' ', '\''] (kv2 :: rest2) ++ ['\'', '}']
          = kv.1 ++ ('\'' :: ':' :: ' ' :: '\'' :: (kv.2 ++ ('\'' :: ',' :: ' ' :: '\'' ::
              (joinItems ['\'', ',', ' ', '\''] ['\'', ':', ' ', '\''] (kv2 :: rest2) ++ ['\'', '}'])))) := by
        simp [List.append_assoc]
      rw [e, drun_inKey _ _ _ _ hk.1]
      simp only [drun, dstep, if_true, List.nil_append]
      rw [drun_inVal _ _ _ _ _ hk.2]
      simp only [drun, dstep, if_true, List.nil_append]
      rw [ih _ (by simp) h.tail]
      simp [List.append_assoc]

theorem parseDict_render (kvs : List (List Char × List Char)) (hne : kvs ≠ []) (h : SafeKVs kvs) :
    parseDict (render ['{', '\''] ['\'', ',', ' ', '\''] ['\'', ':', ' ', '\''] ['\'', '}'] kvs) = some kvs := by
  unfold parseDict render
  have : drun .start (['{', '\''] ++ joinItems ['\'', ',', ' ', '\''] ['\'', ':', ' ', '\''] kvs ++ ['\'', '}'])
      = drun (.inKey [] []) (joinItems ['\'', ',', ' ', '\''] ['\'', ':', ' ', '\''] kvs ++ ['\'', '}']) := by
    simp [drun, dstep]
  rw [this, drun_items [] kvs hne h]
  simp

/-! ### one cell: load (dump e) = e -/

/-- `sympify(str(t))` gives `t` back (hypothesis on the printed form; discharged by evaluation on the template table). -/
def RT (t : PTerm) : Prop := parseTerm (toChars t) = some t

def GoodMap (m : PMap) : Prop :=
  m ≠ [] ∧ (m.map Prod.fst).Nodup ∧ ∀ kv ∈ m, RT (.param kv.1) ∧ RT kv.2

def GoodEntry : Entry → Prop
  | .nan => True
  | .map m => GoodMap m

theorem safeKVs_kvChars (m : PMap) : SafeKVs (m.map kvChars) := by
  intro kv h
  rcases List.mem_map.mp h with ⟨x, _, rfl⟩
  exact ⟨toChars_safe _, toChars_safe _⟩

theorem optMap_parseKV (m : PMap) (h : ∀ kv ∈ m, RT (.param kv.1) ∧ RT kv.2) :
    optMap parseKV (m.map kvChars) = some m := by
  induction m with
  | nil => rfl
  | cons kv rest ih =>
    have hk := h kv (by simp)
    have hr := ih (fun x hx => h x (List.mem_cons_of_mem _ hx))
    simp only [List.map_cons, optMap, hr]
    have : parseKV (kvChars kv) = some kv := by
      unfold parseKV kvChars
      have h1 : parseTerm (toChars (.param kv.1)) = some (.param kv.1) := hk.1
      have h2 : parseTerm (toChars kv.2) = some kv.2 := hk.2
      simp only [h1, h2]
    rw [this]

theorem dictInsert_fresh (pre : PMap) (k : Nat) (v : PTerm) (h : k ∉ pre.map Prod.fst) :
    dictInsert pre k v = pre ++ [(k, v)] := by
  unfold dictInsert
  have : pre.any (fun kv => decide (kv.1 = k)) = false := by
    rw [List.any_eq_false]
    intro x hx
    have : x.1 ≠ k := fun e => h (by rw [← e]; exact List.mem_map_of_mem hx)
    simpa using this
  simp [this]

theorem foldl_dictInsert (pre m : PMap) (h : ((pre ++ m).map Prod.fst).Nodup) :
    m.foldl (fun acc kv => dictInsert acc kv.1 kv.2) pre = pre ++ m := by
  induction m generalizing pre with
  | nil => simp
  | cons kv rest ih =>
    have hfresh : kv.1 ∉ pre.map Prod.fst := by
      intro hm
      rw [List.map_append, List.map_cons] at h
      have := (List.nodup_append.mp h).2.2 kv.1 hm kv.1 (by simp)
      exact this rfl
    simp only [List.foldl_cons]
    rw [dictInsert_fresh pre kv.1 kv.2 hfresh]
    have h' : (((pre ++ [(kv.1, kv.2)]) ++ rest).map Prod.fst).Nodup := by
      simpa [List.append_assoc] using h
    rw [ih _ h']
    simp [List.append_assoc]

theorem render_ne_nan (op a b c : List Char) (kvs) (h : op.head? = some '{') :
    render op a b c kvs ≠ nanCell := by
  unfold render nanCell
  cases op with
  | nil => simp at h
  | cons x xs =>
    simp at h; subst h
    simp

theorem loadCell_dump (e : Entry) (h : GoodEntry e) : loadCell (dumpEntry e) = some e := by
  cases e with
  | nan =>
    unfold loadCell loadCellWith dumpEntry
    have : quoteWith replaceSeq nanCell = nanCell := quote_nan
    simp [this]
  | map m =>
    obtain ⟨hne, hnd, hrt⟩ := h
    unfold loadCell loadCellWith dumpEntry dumpMap
    have hq := quote_render (m.map kvChars) (safeKVs_kvChars m)
    unfold quote at hq
    rw [hq]
    have hnn := render_ne_nan ['{', '\''] ['\'', ',', ' ', '\''] ['\'', ':', ' ', '\''] ['\'', '}'] (m.map kvChars) rfl
    simp only [hnn, if_false]
    rw [parseDict_render _ (by simpa using hne) (safeKVs_kvChars m)]
    simp only [optMap_parseKV m hrt]
    rw [foldl_dictInsert [] m (by simpa using hnd)]
    simp

/-! ### csv layer -/

theorem cellsGo_noSep (acc xs : List Char) (h : ';' ∉ xs) : cellsGo acc xs = [acc ++ xs] := by
  induction xs generalizing acc with
  | nil => simp [cellsGo]
  | cons c cs ih =>
    have hc : c ≠ ';' := fun e => h (by simp [e])
    have hcs : ';' ∉ cs := fun e => h (by simp [e])
    simp only [cellsGo, hc, if_false]
    rw [ih _ hcs]; simp [List.append_assoc]

theorem cellsGo_sep (acc xs rest : List Char) (h : ';' ∉ xs) :
    cellsGo acc (xs ++ ';' :: rest) = (acc ++ xs) :: cellsGo [] rest := by
  induction xs generalizing acc with
  | nil => simp [cellsGo]
  | cons c cs ih =>
    have hc : c ≠ ';' := fun e => h (by simp [e])
    have hcs : ';' ∉ cs := fun e => h (by simp [e])
    simp only [List.cons_append, cellsGo, hc, if_false]
    rw [ih _ hcs]; simp [List.append_assoc]

theorem cellsGo_joinCells (cells : List (List Char)) (hne : cells ≠ []) (h : ∀ c ∈ cells, ';' ∉ c) :
    cellsGo [] (joinCells cells) = cells := by
  induction cells with
  | nil => exact absurd rfl hne
  | cons c rest ih =>
    have hc := h c (by simp)
    cases rest with
    | nil => simp [joinCells, cellsGo_noSep _ _ hc]
    | cons c2 rest2 =>
      simp only [joinCells]
      rw [cellsGo_sep _ _ _ hc, ih (by simp) (fun x hx => h x (List.mem_cons_of_mem _ hx))]
      simp

theorem not_mem_joinCells (ch : Char) (cells : List (List Char)) (h0 : ch ≠ ';') (h : ∀ c ∈ cells, ch ∉ c) :
    ch ∉ joinCells cells := by
  induction cells with
  | nil => simp [joinCells]
  | cons c rest ih =>
    have hc := h c (by simp)
    have hr := ih (fun x hx => h x (List.mem_cons_of_mem _ hx))
    cases rest with
    | nil => simpa [joinCells] using hc
    | cons c2 rest2 =>
      simp only [joinCells, List.mem_append, List.mem_cons, not_or]
      exact ⟨hc, h0, hr⟩

theorem joinCells_eq_nil (cells : List (List Char)) (h : ∀ c ∈ cells, c ≠ []) :
    joinCells cells = [] ↔ cells = [] := by
  cases cells with
  | nil => simp [joinCells]
  | cons c rest =>
    have hc := h c (by simp)
    cases rest with
    | nil => simp [joinCells, hc]
    | cons c2 rest2 => simp [joinCells, hc]

theorem linesGo_line (acc xs rest : List Char) (h1 : '\r' ∉ xs) (h2 : '\n' ∉ xs) :
    linesGo false acc (xs ++ '\r' :: '\n' :: rest) = (acc ++ xs) :: linesGo false [] rest := by
  induction xs generalizing acc with
  | nil => simp [linesGo]
  | cons c cs ih =>
    have hc1 : c ≠ '\r' := fun e => h1 (by simp [e])
    have hc2 : c ≠ '\n' := fun e => h2 (by simp [e])
    have hcs1 : '\r' ∉ cs := fun e => h1 (by simp [e])
    have hcs2 : '\n' ∉ cs := fun e => h2 (by simp [e])
    simp only [List.cons_append, linesGo, hc1, hc2, if_false]
    rw [ih _ hcs1 hcs2]; simp [List.append_assoc]

/-- a csv cell as the writer emits it unquoted -/
def CellOK (s : List Char) : Prop := s ≠ [] ∧ ';' ∉ s ∧ '"' ∉ s ∧ '\r' ∉ s ∧ '\n' ∉ s

theorem linesGo_rows (rows : List (List (List Char))) (h : ∀ row ∈ rows, ∀ c ∈ row, CellOK c) :
    linesGo false [] (rows.flatMap (fun row => joinCells row ++ ['\r', '\n'])) = rows.map joinCells := by
  induction rows with
  | nil => simp [linesGo]
  | cons row rest ih =>
    have hrow := h row (by simp)
    simp only [List.flatMap_cons, List.map_cons]
    have e : joinCells row ++ ['\r', '\n'] ++ List.flatMap (fun row => joinCells row ++ ['\r', '\n']) rest
        = joinCells row ++ '\r' :: '\n' :: List.flatMap (fun row => joinCells row ++ ['\r', '\n']) rest := by
      simp [List.append_assoc]
    rw [e, linesGo_line _ _ _
      (not_mem_joinCells _ _ (by decide) (fun c hc => (hrow c hc).2.2.2.1))
      (not_mem_joinCells _ _ (by decide) (fun c hc => (hrow c hc).2.2.2.2))]
    rw [ih (fun r hr => h r (List.mem_cons_of_mem _ hr))]
    simp

theorem optMap_eq_some_map {α β γ} (f : α → Option β) (g : γ → α) (k : γ → β) (xs : List γ)
    (h : ∀ x ∈ xs, f (g x) = some (k x)) : optMap f (xs.map g) = some (xs.map k) := by
  induction xs with
  | nil => rfl
  | cons x rest ih =>
    simp only [List.map_cons, optMap, h x (by simp), ih (fun y hy => h y (List.mem_cons_of_mem _ hy))]

theorem readCsv_rows (rows : List (List (List Char))) (h : ∀ row ∈ rows, ∀ c ∈ row, CellOK c) :
    readCsv (rows.flatMap (fun row => joinCells row ++ ['\r', '\n'])) = some rows := by
  unfold readCsv
  rw [linesGo_rows rows h]
  have := optMap_eq_some_map
    (fun l => if '"' ∈ l then none else some (if l = [] then [] else cellsGo [] l)) joinCells id rows ?_
  · simpa using this
  · intro row hrow
    have hr := h row hrow
    have hq : '"' ∉ joinCells row := not_mem_joinCells _ _ (by decide) (fun c hc => (hr c hc).2.2.1)
    simp only [hq, if_false, id]
    by_cases hnil : row = []
    · subst hnil; simp [joinCells]
    · have : joinCells row ≠ [] := fun e => hnil ((joinCells_eq_nil row (fun c hc => (hr c hc).1)).mp e)
      simp only [this, if_false]
      rw [cellsGo_joinCells row hnil (fun c hc => (hr c hc).2.1)]

theorem dumpEntry_cellOK (e : Entry) : CellOK (dumpEntry e) := by
  cases e with
  | nan => unfold dumpEntry nanCell CellOK; decide
  | map m =>
    unfold dumpEntry dumpMap render
    have hs := safeKVs_kvChars m
    have hj : ∀ c, c ∈ sepChars → c ≠ ',' → c ≠ ' ' → c ≠ ':' →
        c ∉ joinItems [',', ' '] [':', ' '] (m.map kvChars) := by
      intro c hc h1 h2 h3
      exact not_mem_joinItems c _ _ _ (by simp [h1, h2]) (by simp [h3, h2])
        (fun kv hkv => ⟨(hs kv hkv).1.not_mem hc, (hs kv hkv).2.not_mem hc⟩)
    refine ⟨by simp, ?_, ?_, ?_, ?_⟩
    · have := hj ';' (by decide) (by decide) (by decide) (by decide); simp [this]
    · have := hj '"' (by decide) (by decide) (by decide) (by decide); simp [this]
    · have := hj '\r' (by decide) (by decide) (by decide) (by decide); simp [this]
    · have := hj '\n' (by decide) (by decide) (by decide) (by decide); simp [this]

theorem readCsv_dumpFile (rows : List (List Entry)) :
    readCsv (dumpFile rows) = some (rows.map (fun row => row.map dumpEntry)) := by
  have := readCsv_rows (rows.map (fun row => row.map dumpEntry)) (by
    intro row hrow c hc
    rcases List.mem_map.mp hrow with ⟨r, _, rfl⟩
    rcases List.mem_map.mp hc with ⟨e, _, rfl⟩
    exact dumpEntry_cellOK e)
  rw [← this]
  unfold dumpFile dumpRow
  rw [List.flatMap_map]

/-! ### the whole file, any rank count -/

theorem rankSliceWith_map {α β} (g : α → β) (lo hi : Nat) (xs : List α) (P r : Nat) :
    rankSliceWith lo hi (xs.map g) P r = (rankSliceWith lo hi xs P r).map g := by
  unfold rankSliceWith
  simp only [List.length_map]
  split
  · rfl
  · rw [List.map_drop, List.map_take]

theorem loadRow_dump (row : List Entry) (h : ∀ e ∈ row, GoodEntry e) :
    loadRow (row.map dumpEntry) = some row := by
  have := optMap_eq_some_map loadCell dumpEntry id row (fun e he => loadCell_dump e (h e he))
  simpa [loadRow] using this

theorem mem_rankSliceWith {α} (lo hi : Nat) (xs : List α) (P r : Nat) (x : α)
    (h : x ∈ rankSliceWith lo hi xs P r) : x ∈ xs := by
  unfold rankSliceWith at h
  simp only [] at h
  split at h
  · cases h
  · exact List.mem_of_mem_take (List.mem_of_mem_drop h)

theorem loadFile_dumpFile_of_tile (rows : List (List Entry)) (P : Nat)
    (hgood : ∀ row ∈ rows, ∀ e ∈ row, GoodEntry e)
    (htile : (List.range P).flatMap (fun r => rankSlice rows P r) = rows) :
    loadFile P (dumpFile rows) = some rows := by
  unfold loadFile
  rw [readCsv_dumpFile]
  simp only []
  have hinner : ∀ r, optMap loadRow (rankSlice (rows.map (fun row => row.map dumpEntry)) P r)
      = some (rankSlice rows P r) := by
    intro r
    unfold rankSlice
    rw [rankSliceWith_map]
    have := optMap_eq_some_map loadRow (fun row : List Entry => row.map dumpEntry) id
      (rankSliceWith 0 1 rows P r)
      (fun row hrow => loadRow_dump row (hgood row (mem_rankSliceWith _ _ _ _ _ _ hrow)))
    simpa using this
  have houter := optMap_eq_some_map
    (fun r => optMap loadRow (rankSlice (rows.map (fun row => row.map dumpEntry)) P r)) id
    (fun r => rankSlice rows P r) (List.range P) (fun r _ => hinner r)
  simp only [List.map_id] at houter
  rw [houter]
  simp only [Option.some.injEq]
  rw [← List.flatMap_def] at *
  exact htile

/-! ### simplify_inv_subs: the index loop computes `cancel` -/

section Cancel
variable {β : Type} [DecidableEq β]

/-- the indices the loop deletes, computed structurally -/
def delFrom (dup : List β) : Nat → List β → List Nat
  | i, a :: b :: rest =>
    if a ∈ dup ∧ b = a then i :: (i + 1) :: delFrom dup (i + 2) rest else delFrom dup (i + 1) (b :: rest)
  | _, [] => []
  | _, [_] => []

theorem delLoop_eq (dup : List β) (fuel : Nat) (pre suf : List β) (del : List Nat)
    (hf : suf.length ≤ fuel) :
    delLoop dup (pre ++ suf) fuel pre.length del = del ++ delFrom dup pre.length suf := by
  induction fuel generalizing pre suf del with
  | zero =>
    have : suf = [] := List.eq_nil_of_length_eq_zero (by omega)
    subst this; simp [delLoop, delFrom]
  | succ fuel ih =>
    match suf, hf with
    | [], _ => simp [delLoop, delFrom]
    | [a], _ => simp [delLoop, delFrom]
    | a :: b :: rest, hf =>
      have hlen : pre.length + 1 < (pre ++ a :: b :: rest).length := by simp
      have h0 : (pre ++ a :: b :: rest)[pre.length]? = some a := by simp
      have h1 : (pre ++ a :: b :: rest)[pre.length + 1]? = some b := by
        rw [List.getElem?_append_right (by omega)]; simp
      unfold delLoop
      simp only [hlen, if_true, h0, h1]
      by_cases ha : a ∈ dup
      · by_cases hb : b = a
        · simp only [ha, hb, if_true]
          have e : pre ++ a :: a :: rest = (pre ++ [a, a]) ++ rest := by simp
          have e2 : pre.length + 2 = (pre ++ [a, a]).length := by simp
          subst hb
          rw [e, e2, ih (pre ++ [b, b]) rest _ (by simp at hf; omega)]
          simp [delFrom, ha]
        · simp only [ha, hb, if_true, if_false]
          have e : pre ++ a :: b :: rest = (pre ++ [a]) ++ b :: rest := by simp
          have e2 : pre.length + 1 = (pre ++ [a]).length := by simp
          rw [e, e2, ih (pre ++ [a]) (b :: rest) _ (by simp at hf ⊢; omega)]
          simp [delFrom, ha, hb]
      · simp only [ha, if_false]
        have e : pre ++ a :: b :: rest = (pre ++ [a]) ++ b :: rest := by simp
        have e2 : pre.length + 1 = (pre ++ [a]).length := by simp
        rw [e, e2, ih (pre ++ [a]) (b :: rest) _ (by simp at hf ⊢; omega)]
        simp [delFrom, ha]

theorem delFrom_ge (dup : List β) (n : Nat) : ∀ (suf : List β) (i j : Nat), suf.length ≤ n →
    j ∈ delFrom dup i suf → i ≤ j := by
  induction n with
  | zero =>
    intro suf i j hn hj
    have : suf = [] := List.eq_nil_of_length_eq_zero (by omega)
    subst this; simp [delFrom] at hj
  | succ n ih =>
    intro suf i j hn hj
    match suf, hn with
    | [], _ => simp [delFrom] at hj
    | [a], _ => simp [delFrom] at hj
    | a :: b :: rest, hn =>
      unfold delFrom at hj
      split at hj
      · simp only [List.mem_cons] at hj
        rcases hj with rfl | rfl | hj
        · omega
        · omega
        · have := ih rest (i + 2) j (by simp at hn; omega) hj; omega
      · have := ih (b :: rest) (i + 1) j (by simp at hn ⊢; omega) hj; omega

theorem keepIdx_congr (D D' : List Nat) (suf : List β) (i : Nat)
    (h : ∀ j, i ≤ j → (j ∈ D ↔ j ∈ D')) : keepIdx D i suf = keepIdx D' i suf := by
  induction suf generalizing i with
  | nil => rfl
  | cons x xs ih =>
    have hi := h i (Nat.le_refl i)
    have hx := ih (i + 1) (fun j hj => h j (by omega))
    unfold keepIdx
    by_cases hD : i ∈ D
    · simp [hD, hi.mp hD, hx]
    · have : i ∉ D' := fun e => hD (hi.mpr e)
      simp [hD, this, hx]

theorem keepIdx_delFrom (dup : List β) (n : Nat) : ∀ (suf : List β) (i : Nat), suf.length ≤ n →
    keepIdx (delFrom dup i suf) i suf = cancel dup suf := by
  induction n with
  | zero =>
    intro suf i hn
    have : suf = [] := List.eq_nil_of_length_eq_zero (by omega)
    subst this; simp [keepIdx, cancel]
  | succ n ih =>
    intro suf i hn
    match suf, hn with
    | [], _ => simp [keepIdx, cancel]
    | [a], _ => simp [keepIdx, cancel, delFrom]
    | a :: b :: rest, hn =>
      unfold delFrom cancel
      by_cases hc : a ∈ dup ∧ b = a
      · obtain ⟨ha, hb⟩ := hc
        subst hb
        simp only [ha, and_self, if_true]
        have k0 : keepIdx (i :: (i + 1) :: delFrom dup (i + 2) rest) i (b :: b :: rest)
            = keepIdx (i :: (i + 1) :: delFrom dup (i + 2) rest) (i + 2) rest := by
          simp [keepIdx]
        rw [k0]
        rw [keepIdx_congr _ (delFrom dup (i + 2) rest) rest (i + 2) (by
          intro j hj
          simp only [List.mem_cons]
          constructor
          · rintro (h | h | h)
            · omega
            · omega
            · exact h
          · intro h; exact Or.inr (Or.inr h))]
        exact ih rest (i + 2) (by simp at hn; omega)
      · simp only [hc, if_false]
        have hi : i ∉ delFrom dup (i + 1) (b :: rest) := by
          intro h
          have := delFrom_ge dup (b :: rest).length (b :: rest) (i + 1) i (Nat.le_refl _) h
          omega
        have k0 : keepIdx (delFrom dup (i + 1) (b :: rest)) i (a :: b :: rest)
            = a :: keepIdx (delFrom dup (i + 1) (b :: rest)) (i + 1) (b :: rest) := by
          rw [keepIdx]; simp [hi]
        rw [k0, ih (b :: rest) (i + 1) (by simp at hn ⊢; omega)]

/-- The loop of `simplify_inv_subs`, with its index bookkeeping, removes exactly what `cancel` removes. -/
theorem keepNot_delLoop (dup xs : List β) :
    keepNot xs (delLoop dup xs xs.length 0 []) = cancel dup xs := by
  have h := delLoop_eq dup xs.length [] xs [] (Nat.le_refl _)
  simp only [List.nil_append, List.length_nil] at h
  unfold keepNot
  rw [h]
  exact keepIdx_delFrom dup xs.length xs 0 (Nat.le_refl _)

theorem simplifyInvSubs_eq (dup : List β) (xs : List β) :
    simplifyInvSubs dup (some xs) = if xs = [] then some [] else
      (if cancel dup xs = [] then none else some (cancel dup xs)) := by
  cases xs with
  | nil => simp [simplifyInvSubs]
  | cons a rest =>
    simp only [simplifyInvSubs, keepNot_delLoop]
    simp [List.isEmpty_iff]

theorem cancel_count (dup : List β) (x : β) (hx : x ∉ dup) (n : Nat) : ∀ (c : List β), c.length ≤ n →
    (cancel dup c).count x = c.count x := by
  induction n with
  | zero =>
    intro c hn
    have : c = [] := List.eq_nil_of_length_eq_zero (by omega)
    subst this; simp [cancel]
  | succ n ih =>
    intro c hn
    match c, hn with
    | [], _ => simp [cancel]
    | [a], _ => simp [cancel]
    | a :: b :: rest, hn =>
      unfold cancel
      by_cases hc : a ∈ dup ∧ b = a
      · simp only [hc, and_self, if_true]
        obtain ⟨ha, hb⟩ := hc
        subst hb
        have hne : b ≠ x := fun e => hx (e ▸ ha)
        rw [ih rest (by simp at hn; omega)]
        simp [List.count_cons, hne]
      · simp only [hc, if_false]
        rw [List.count_cons, ih (b :: rest) (by simp at hn ⊢; omega), List.count_cons (a := x) (b := a)]

end Cancel

/-! ### semantics: self-inverse maps, cancellation -/

/-- the two algebraic facts the self-inverse claim rests on (ℝ, ℚ, any field satisfy them) -/
structure InvolLaws {α : Type} (o : Ops α) (zero : α) : Prop where
  neg_neg : ∀ x, o.neg (o.neg x) = x
  inv_inv : ∀ x, x ≠ zero → o.div (o.ofNat 1) (o.div (o.ofNat 1) x) = x

theorem mem_pairsOf_ne (l : List Nat) (h : l.Nodup) (a b : Nat) (hm : (a, b) ∈ pairsOf l) : a ≠ b := by
  induction l with
  | nil => simp [pairsOf] at hm
  | cons x xs ih =>
    rw [List.nodup_cons] at h
    simp only [pairsOf, List.mem_append, List.mem_map] at hm
    rcases hm with ⟨y, hy, he⟩ | hm
    · simp only [Prod.mk.injEq] at he
      obtain ⟨rfl, rfl⟩ := he
      intro e; subst e; exact h.1 hy
    · exact ih h.2 hm

theorem mem_comb_ne (k a b : Nat) (hm : (a, b) ∈ comb k) : a ≠ b :=
  mem_pairsOf_ne _ (by
    unfold List.Nodup; rw [List.pairwise_reverse]
    exact (List.nodup_range (n := k)).imp (fun h => h.symm)) a b hm

theorem mem_pairsOf_mem (l : List Nat) (a b : Nat) (hm : (a, b) ∈ pairsOf l) : a ∈ l ∧ b ∈ l := by
  induction l with
  | nil => simp [pairsOf] at hm
  | cons x xs ih =>
    simp only [pairsOf, List.mem_append, List.mem_map] at hm
    rcases hm with ⟨y, hy, he⟩ | hm
    · simp only [Prod.mk.injEq] at he
      obtain ⟨rfl, rfl⟩ := he
      simp [hy]
    · have := ih hm; simp [this.1, this.2]

theorem mem_comb_lt (k a b : Nat) (hm : (a, b) ∈ comb k) : a < k ∧ b < k := by
  have := mem_pairsOf_mem _ a b hm
  simpa using this

section Sem
variable {α : Type} (o : Ops α) (zero : α)

theorem applyMap_single (j : Nat) (t : PTerm) (v : Nat → α) :
    applyMap o [(j, t)] v = fun i => if i = j then eval o v t else v i := by
  funext i
  unfold applyMap lookup
  by_cases hji : j = i
  · subst hji; simp
  · have : ¬ i = j := fun e => hji e.symm
    simp [hji, this, lookup]

theorem applyMap_single_involutive (j : Nat) (t : PTerm) (θ : Nat → α)
    (h : eval o (fun i => if i = j then eval o θ t else θ i) t = θ j) :
    applyMap o [(j, t)] (applyMap o [(j, t)] θ) = θ := by
  rw [applyMap_single, applyMap_single]
  funext i
  by_cases hij : i = j
  · subst hij; simp [h]
  · simp [hij]

theorem neg_involutive (laws : InvolLaws o zero) (j : Nat) (θ : Nat → α) :
    applyMap o [(j, negT j)] (applyMap o [(j, negT j)] θ) = θ := by
  apply applyMap_single_involutive
  simp [negT, eval, laws.neg_neg]

theorem inv_involutive (laws : InvolLaws o zero) (j : Nat) (θ : Nat → α) (hθ : θ j ≠ zero) :
    applyMap o [(j, invT j)] (applyMap o [(j, invT j)] θ) = θ := by
  apply applyMap_single_involutive
  simp [invT, one, eval, laws.inv_inv _ hθ]

theorem swap_involutive (a b : Nat) (hab : a ≠ b) (θ : Nat → α) :
    applyMap o [(a, .param b), (b, .param a)] (applyMap o [(a, .param b), (b, .param a)] θ) = θ := by
  have hap : ∀ v : Nat → α, applyMap o [(a, .param b), (b, .param a)] v
      = fun i => if i = a then v b else if i = b then v a else v i := by
    intro v
    funext i
    unfold applyMap lookup
    by_cases h1 : a = i
    · subst h1; simp [eval]
    · have h1' : ¬ i = a := fun e => h1 e.symm
      simp only [h1, if_false, h1', lookup]
      by_cases h2 : b = i
      · subst h2; simp [eval]
      · have h2' : ¬ i = b := fun e => h2 e.symm
        simp [h2, h2', lookup]
  rw [hap, hap]
  funext i
  have hba : ¬ b = a := fun e => hab e.symm
  by_cases h1 : i = a
  · subst h1; simp [hba]
  · by_cases h2 : i = b
    · subst h2; simp [h1]
    · simp [h1, h2]

/-- Every element of `all_dup` is its own inverse on parameter vectors without a zero among the first `k`. -/
theorem allDup_involutive (laws : InvolLaws o zero) (k : Nat) (d : PMap) (hd : d ∈ allDup k)
    (θ : Nat → α) (hθ : ∀ j, j < k → θ j ≠ zero) :
    applyMap o d (applyMap o d θ) = θ := by
  unfold allDup at hd
  simp only [List.mem_append, List.mem_map, List.mem_range] at hd
  rcases hd with ((⟨j, _, rfl⟩ | ⟨j, hj, rfl⟩) | ⟨c, hc, rfl⟩) | ⟨c, hc, rfl⟩
  · exact neg_involutive o zero laws j θ
  · exact inv_involutive o zero laws j θ (hθ j hj)
  · exact swap_involutive o c.1 c.2 (mem_comb_ne k c.1 c.2 hc) θ
  · exact swap_involutive o c.2 c.1 (fun e => mem_comb_ne k c.1 c.2 hc e.symm) θ

theorem denote_none_iff (c : Chain) (θ : Nat → α) : denote o c θ = none ↔ Entry.nan ∈ c := by
  induction c with
  | nil => simp [denote]
  | cons e rest ih =>
    cases e with
    | nan => simp [denote]
    | map m =>
      simp only [denote, List.mem_cons]
      cases hd : denote o rest θ with
      | none => simp [ih.mp hd]
      | some v =>
        have : Entry.nan ∉ rest := fun h => by rw [ih.mpr h] at hd; cases hd
        simp [this]

/-- every parameter vector the chain passes through (from the right) has no zero among the first `k` entries -/
def Regular (k : Nat) (c : Chain) (θ : Nat → α) : Prop :=
  ∀ s, s <:+ c → ∀ v, denote o s θ = some v → ∀ j, j < k → v j ≠ zero

theorem Regular.suffix {k : Nat} {c s : Chain} {θ : Nat → α} (h : Regular o zero k c θ) (hs : s <:+ c) :
    Regular o zero k s θ :=
  fun s' hs' => h s' (hs'.trans hs)

theorem nan_not_mem_allDupEntries (k : Nat) : Entry.nan ∉ allDupEntries k := by
  unfold allDupEntries
  intro h
  rcases List.mem_map.mp h with ⟨m, _, hm⟩
  cases hm

theorem cancel_denote (laws : InvolLaws o zero) (k : Nat) (θ : Nat → α) (n : Nat) :
    ∀ c : Chain, c.length ≤ n → Regular o zero k c θ →
      denote o (cancel (allDupEntries k) c) θ = denote o c θ := by
  induction n with
  | zero =>
    intro c hn _
    have : c = [] := List.eq_nil_of_length_eq_zero (by omega)
    subst this; simp [cancel]
  | succ n ih =>
    intro c hn hreg
    match c, hn, hreg with
    | [], _, _ => simp [cancel]
    | [a], _, _ => simp [cancel]
    | a :: b :: rest, hn, hreg =>
      unfold cancel
      by_cases hc : a ∈ allDupEntries k ∧ b = a
      · obtain ⟨ha, hb⟩ := hc
        subst hb
        simp only [ha, and_self, if_true]
        have hrest : Regular o zero k rest θ :=
          hreg.suffix o zero ((List.suffix_cons _ _).trans (List.suffix_cons _ _))
        rw [ih rest (by simp at hn; omega) hrest]
        unfold allDupEntries at ha
        rcases List.mem_map.mp ha with ⟨d, hd, rfl⟩
        simp only [denote]
        cases hv : denote o rest θ with
        | none => rfl
        | some v =>
          have hvz := hrest rest (List.suffix_refl _) v hv
          simp only [allDup_involutive o zero laws k d hd v hvz]
      · simp only [hc, if_false]
        have hrest : Regular o zero k (b :: rest) θ := hreg.suffix o zero (List.suffix_cons _ _)
        have := ih (b :: rest) (by simp at hn ⊢; omega) hrest
        cases a with
        | nan => simp [denote]
        | map m => simp only [denote, this]

end Sem

/-! ### the generated description of `get_all_dup`, interpreted -/

open ESR.Gen.Subs in
def ofU (x : PTerm) : UExpr → PTerm
  | .x => x
  | .nat n => .nat n
  | .neg e => .neg (ofU x e)
  | .mul a b => .mul (ofU x a) (ofU x b)
  | .div a b => .div (ofU x a) (ofU x b)
  | .pow a b => .pow (ofU x a) (ofU x b)

/-- `c[i]` for a pair `c` -/
def sel (c : Nat × Nat) (i : Nat) : Nat := if i = 0 then c.1 else c.2

open ESR.Gen.Subs in
def genDupOf (k : Nat) : DupStmt → List PMap
  | .unary e => (List.range k).map (fun j => [(j, ofU (.param j) e)])
  | .pair items => (comb k).map (fun c => items.map (fun ij => (sel c ij.1, PTerm.param (sel c ij.2))))

/-- `all_dup` as the extracted statements of the current source build it -/
def genAllDup (k : Nat) : List PMap := ESR.Gen.Subs.allDupStmts.flatMap (genDupOf k)

/-! ### the template language of the property: ≤ 4 parameters, |n| ≤ 6 -/

/-- a map `sympy_simplify` / `get_all_dup` can record: one parameter ↦ one template value, or a (partial)
permutation / renaming of parameters with distinct keys (sign flips and reciprocals are among the values). -/
def TemplateMap (m : PMap) : Prop :=
  (∃ j, j < 4 ∧ ∃ t, t ∈ unaryValues 6 j ∧ m = [(j, t)]) ∨
  (m ≠ [] ∧ (m.map Prod.fst).Nodup ∧ ∀ kv ∈ m, kv.1 < 4 ∧ ∃ i, i < 4 ∧ kv.2 = .param i)

def TemplateEntry : Entry → Prop
  | .nan => True
  | .map m => TemplateMap m

/-- `sympify(str(t)) = t` on the whole template table (4 parameters, |n| ≤ 6, small rationals): by evaluation. -/
theorem rt_templates : ∀ j, j < 4 → ∀ t ∈ unaryValues 6 j, RT t := by
  unfold RT
  decide +kernel

theorem rt_params : ∀ i, i < 4 → RT (.param i) := by
  unfold RT
  decide +kernel

theorem templateMap_good (m : PMap) (hm : TemplateMap m) : GoodMap m := by
  rcases hm with ⟨j, hj, t, ht, rfl⟩ | ⟨hne, hnd, hkv⟩
  · refine ⟨by simp, by simp, ?_⟩
    intro kv hkv
    simp only [List.mem_singleton] at hkv
    subst hkv
    exact ⟨rt_params j hj, rt_templates j hj t ht⟩
  · refine ⟨hne, hnd, ?_⟩
    intro kv h
    obtain ⟨h1, i, hi, h2⟩ := hkv kv h
    exact ⟨rt_params _ h1, by rw [h2]; exact rt_params i hi⟩

theorem templateEntry_good (e : Entry) (h : TemplateEntry e) : GoodEntry e := by
  cases e with
  | nan => trivial
  | map m => exact templateMap_good m h

/-- the block a rank receives in `load_subs` is the `split_idx` block of C14 -/
theorem rankSlice_eq_blockSlice {α} (xs : List α) (P r : Nat) :
    rankSlice xs P r = ESR.Partition.blockSlice xs P r := by
  unfold rankSlice rankSliceWith ESR.Partition.blockSlice ESR.Partition.block ESR.Partition.pySlice
  have e : ∀ N P r, splitPoint N P r = ESR.Partition.divPoint N P r := fun _ _ _ => rfl
  simp only [e]
  split
  · rename_i h
    symm
    apply List.drop_eq_nil_of_le
    rw [List.length_take]; omega
  · rename_i h
    have : ESR.Partition.divPoint xs.length P (r + 1) - 1 + 1 = ESR.Partition.divPoint xs.length P (r + 1) := by omega
    rw [this]; rfl

end ESR.Subs
