import ESRVerif.Model.Labeling
/-!
Helper definitions and lemmas for C01 (part 3: duplicate-freeness of the labelled output).  Core Lean only.

* (`isParamName`, `Basis.WellFormed`, the decidable side condition on a basis, live in `Model/Labeling.lean`)
* `renumberFrom_inj`               — renumbering is injective on rows whose labels are not already `a<digits>`
* `fill_inj`                        — `fill` is injective in its three rows (rows of the right lengths)
* `fill_map_arity`                  — the arity string is recoverable from a filled label list
* `nodup_flatMap_of`                — `Nodup` of a `flatMap` from `Nodup` of the pieces + disjointness
-/
namespace ESR.Labeling
open ESR.Shape

/-- The arity class a (renumbered) label belongs to, read off the basis: unary, binary, else nullary. -/
def arityOf (b : Basis) (l : String) : Nat := if l ∈ b.b1 then 1 else if l ∈ b.b2 then 2 else 0

end ESR.Labeling

namespace ESR.ShapeProofs
open ESR.Shape ESR.Labeling

/-- A renumbered parameter is `"a"` followed by the (non-empty, all-digit) decimal form of `k`. -/
theorem isParamName_param (k : Nat) : isParamName ("a" ++ toString k) = true := by
  have h1 : ("a" ++ toString k).toList = 'a' :: Nat.toDigits 10 k := by
    rw [String.toList_append, Nat.toString_eq_repr, Nat.toList_repr]; rfl
  unfold isParamName
  rw [h1]
  cases hd : Nat.toDigits 10 k with
  | nil => exact absurd hd Nat.toDigits_ne_nil
  | cons d ds =>
    simp only [List.all_eq_true]
    intro c hc
    exact Nat.isDigit_of_mem_toDigits (by omega) (by omega) (hd ▸ hc)

theorem length_renumberFrom (k : Nat) (r : List String) : (renumberFrom k r).length = r.length := by
  induction r generalizing k with
  | nil => rfl
  | cons l ls ih =>
    simp only [renumberFrom]
    split <;> simp [ih]

/-- Every label of a renumbered row is a label of the row or a parameter name. -/
theorem mem_renumberFrom (k : Nat) (r : List String) (x : String) (hx : x ∈ renumberFrom k r) :
    x ∈ r ∨ isParamName x = true := by
  induction r generalizing k with
  | nil => simp [renumberFrom] at hx
  | cons l ls ih =>
    simp only [renumberFrom] at hx
    split at hx
    · rcases List.mem_cons.mp hx with rfl | hx
      · exact Or.inr (isParamName_param k)
      · rcases ih (k + 1) hx with h | h
        · exact Or.inl (List.mem_cons_of_mem _ h)
        · exact Or.inr h
    · rcases List.mem_cons.mp hx with rfl | hx
      · exact Or.inl (by simp)
      · rcases ih k hx with h | h
        · exact Or.inl (List.mem_cons_of_mem _ h)
        · exact Or.inr h

/-- Renumbering is injective on rows none of whose labels already looks like a parameter name. -/
theorem renumberFrom_inj (k : Nat) (r r' : List String)
    (hr : ∀ x ∈ r, isParamName x = false) (hr' : ∀ x ∈ r', isParamName x = false)
    (h : renumberFrom k r = renumberFrom k r') : r = r' := by
  induction r generalizing k r' with
  | nil =>
    cases r' with
    | nil => rfl
    | cons l' ls' =>
      have := congrArg List.length h
      simp [length_renumberFrom] at this
  | cons l ls ih =>
    cases r' with
    | nil =>
      have := congrArg List.length h
      simp [length_renumberFrom] at this
    | cons l' ls' =>
      have hls : ∀ x ∈ ls, isParamName x = false := fun x hx => hr x (List.mem_cons_of_mem _ hx)
      have hls' : ∀ x ∈ ls', isParamName x = false := fun x hx => hr' x (List.mem_cons_of_mem _ hx)
      have hl := hr l (by simp)
      have hl' := hr' l' (by simp)
      simp only [renumberFrom] at h
      by_cases ha : l = "a" <;> by_cases ha' : l' = "a"
      · simp only [ha, ha', if_true, List.cons.injEq, true_and] at h
        rw [ha, ha', ih (k + 1) ls' hls hls' h]
      · simp only [ha, ha', if_true, if_false, List.cons.injEq] at h
        rw [← h.1, isParamName_param] at hl'
        exact absurd hl' (by simp)
      · simp only [ha, ha', if_true, if_false, List.cons.injEq] at h
        rw [h.1, isParamName_param] at hl
        exact absurd hl (by simp)
      · simp only [ha, ha', if_false, List.cons.injEq] at h
        rw [h.1, ih k ls' hls hls' h.2]

/-- `fill` is injective in its three rows, for rows of the lengths `shape_to_functions` uses. -/
theorem fill_inj (s : List Nat) (hs : ∀ a ∈ s, a ≤ 2) (r0 r1 r2 r0' r1' r2' : List String)
    (h0 : r0.length = countArity s 0) (h1 : r1.length = countArity s 1) (h2 : r2.length = countArity s 2)
    (h0' : r0'.length = countArity s 0) (h1' : r1'.length = countArity s 1) (h2' : r2'.length = countArity s 2)
    (h : fill s r0 r1 r2 = fill s r0' r1' r2') : r0 = r0' ∧ r1 = r1' ∧ r2 = r2' := by
  induction s generalizing r0 r1 r2 r0' r1' r2' with
  | nil =>
    simp [countArity] at h0 h1 h2 h0' h1' h2'
    simp [h0, h1, h2, h0', h1', h2']
  | cons a s ih =>
    have ha : a ≤ 2 := hs a (by simp)
    have hs' : ∀ x ∈ s, x ≤ 2 := fun x hx => hs x (by simp [hx])
    have ca : ∀ k, countArity (a :: s) k = (if a = k then 1 else 0) + countArity s k := by
      intro k; unfold countArity; by_cases hk : a = k
      · simp [hk]; omega
      · simp [hk]
    rw [ca] at h0 h1 h2 h0' h1' h2'
    match a, ha with
    | 0, _ =>
      simp at h0 h1 h2 h0' h1' h2'
      cases r0 with
      | nil => simp at h0; omega
      | cons x r0 =>
        cases r0' with
        | nil => simp at h0'; omega
        | cons x' r0' =>
          simp only [fill, List.cons.injEq] at h
          simp at h0 h0'
          obtain ⟨e0, e1, e2⟩ := ih hs' r0 r1 r2 r0' r1' r2' (by omega) h1 h2 (by omega) h1' h2' h.2
          exact ⟨by rw [h.1, e0], e1, e2⟩
    | 1, _ =>
      simp at h0 h1 h2 h0' h1' h2'
      cases r1 with
      | nil => simp at h1; omega
      | cons x r1 =>
        cases r1' with
        | nil => simp at h1'; omega
        | cons x' r1' =>
          simp only [fill, List.cons.injEq] at h
          simp at h1 h1'
          obtain ⟨e0, e1, e2⟩ := ih hs' r0 r1 r2 r0' r1' r2' h0 (by omega) h2 h0' (by omega) h2' h.2
          exact ⟨e0, by rw [h.1, e1], e2⟩
    | 2, _ =>
      simp at h0 h1 h2 h0' h1' h2'
      cases r2 with
      | nil => simp at h2; omega
      | cons x r2 =>
        cases r2' with
        | nil => simp at h2'; omega
        | cons x' r2' =>
          simp only [fill, List.cons.injEq] at h
          simp at h2 h2'
          obtain ⟨e0, e1, e2⟩ := ih hs' r0 r1 r2 r0' r1' r2' h0 h1 (by omega) h0' h1' (by omega) h.2
          exact ⟨e0, e1, by rw [h.1, e2]⟩

/-- If every label of row `k` is recognised as arity `k`, the arity string can be read back off the filled list. -/
theorem fill_map_arity (ar : String → Nat) (s : List Nat) (hs : ∀ a ∈ s, a ≤ 2) (r0 r1 r2 : List String)
    (h0 : r0.length = countArity s 0) (h1 : r1.length = countArity s 1) (h2 : r2.length = countArity s 2)
    (a0 : ∀ x ∈ r0, ar x = 0) (a1 : ∀ x ∈ r1, ar x = 1) (a2 : ∀ x ∈ r2, ar x = 2) :
    (fill s r0 r1 r2).map ar = s := by
  induction s generalizing r0 r1 r2 with
  | nil => simp [fill]
  | cons a s ih =>
    have ha : a ≤ 2 := hs a (by simp)
    have hs' : ∀ x ∈ s, x ≤ 2 := fun x hx => hs x (by simp [hx])
    have ca : ∀ k, countArity (a :: s) k = (if a = k then 1 else 0) + countArity s k := by
      intro k; unfold countArity; by_cases hk : a = k
      · simp [hk]; omega
      · simp [hk]
    rw [ca] at h0 h1 h2
    match a, ha with
    | 0, _ =>
      simp at h0 h1 h2
      cases r0 with
      | nil => simp at h0; omega
      | cons x r0 =>
        simp at h0
        simp only [fill, List.map_cons]
        rw [a0 x (by simp), ih hs' r0 r1 r2 (by omega) h1 h2 (fun y hy => a0 y (List.mem_cons_of_mem _ hy)) a1 a2]
    | 1, _ =>
      simp at h0 h1 h2
      cases r1 with
      | nil => simp at h1; omega
      | cons x r1 =>
        simp at h1
        simp only [fill, List.map_cons]
        rw [a1 x (by simp), ih hs' r0 r1 r2 h0 (by omega) h2 a0 (fun y hy => a1 y (List.mem_cons_of_mem _ hy)) a2]
    | 2, _ =>
      simp at h0 h1 h2
      cases r2 with
      | nil => simp at h2; omega
      | cons x r2 =>
        simp at h2
        simp only [fill, List.map_cons]
        rw [a2 x (by simp), ih hs' r0 r1 r2 h0 h1 (by omega) a0 a1 (fun y hy => a2 y (List.mem_cons_of_mem _ hy))]

/-- `Nodup` of a `flatMap`: the index list has no duplicates, every piece has none, and an element determines
the piece it came from. -/
theorem nodup_flatMap_of {α β} (l : List α) (f : α → List β) (hl : l.Nodup) (hf : ∀ x ∈ l, (f x).Nodup)
    (hd : ∀ x ∈ l, ∀ y ∈ l, ∀ z, z ∈ f x → z ∈ f y → x = y) : (l.flatMap f).Nodup := by
  induction l with
  | nil => simp
  | cons a l ih =>
    rw [List.flatMap_cons, List.nodup_append]
    rw [List.nodup_cons] at hl
    refine ⟨hf a (by simp), ?_, ?_⟩
    · exact ih hl.2 (fun x hx => hf x (List.mem_cons_of_mem _ hx))
        (fun x hx y hy => hd x (List.mem_cons_of_mem _ hx) y (List.mem_cons_of_mem _ hy))
    · intro z hz z' hz' hzz
      subst hzz
      rw [List.mem_flatMap] at hz'
      obtain ⟨y, hy, hzy⟩ := hz'
      have := hd a (by simp) y (List.mem_cons_of_mem _ hy) z hz hzy
      subst this
      exact hl.1 hy

/-- `Nodup` of a `map` from injectivity on the list. -/
theorem nodup_map_of {α β} (l : List α) (f : α → β) (hl : l.Nodup)
    (hinj : ∀ x ∈ l, ∀ y ∈ l, f x = f y → x = y) : (l.map f).Nodup := by
  induction l with
  | nil => simp
  | cons a l ih =>
    rw [List.map_cons, List.nodup_cons]
    rw [List.nodup_cons] at hl
    refine ⟨?_, ih hl.2 (fun x hx y hy => hinj x (List.mem_cons_of_mem _ hx) y (List.mem_cons_of_mem _ hy))⟩
    intro hmem
    rw [List.mem_map] at hmem
    obtain ⟨y, hy, hfy⟩ := hmem
    have := hinj y (List.mem_cons_of_mem _ hy) a (by simp) hfy
    subst this
    exact hl.1 hy

end ESR.ShapeProofs
