import ESRVerif.Proofs.PrinterGrammar
/-!
C12 helper: the printed tokens of a canonical expression form a phrase of the Python grammar whose AST is
`intended e` (stage (a) of the round trip).  Core Lean only.
-/
namespace ESR.Printer

/-! ### unfolding `pr` / `intended` -/

theorem pr_num (n : Num) : pr (.num n) = prNum n := by rw [pr]
theorem pr_sym (s : String) : pr (.sym s) = [Tok.name s] := by rw [pr]
theorem pr_fn (f : Fn) (a : SExpr) :
    pr (.fn f a) = Tok.name f.name :: Tok.lpar :: parenthesize 0 false a (pr a) ++ [Tok.rpar] := by rw [pr]
theorem pr_pow (b e : SExpr) : pr (.pow b e) = prPowWith b e (pr b) (pr e) := by rw [pr]
theorem pr_add (ts : List SExpr) : pr (.add ts) = prAdd (ts.map fun t => addPiece t (pr t)) := by
  rw [pr]; simp
theorem pr_mul (c : Num) (fs : List SExpr) :
    pr (.mul c fs) = mulAssemble (precedence (.mul c fs)) c.isNeg
      ((mulParts c fs).a.map fun x => (x, pr x)) ((mulParts c fs).b.map fun x => (x, pr x)) (mulParts c fs).pp := by
  rw [pr]; simp

theorem intended_num (n : Num) : intended (.num n) = intendedNum n := by rw [intended]
theorem intended_sym (s : String) : intended (.sym s) = .name s := by rw [intended]
theorem intended_fn (f : Fn) (a : SExpr) : intended (.fn f a) = .call1 f.name (intended a) := by rw [intended]
theorem intended_pow (b e : SExpr) : intended (.pow b e) = intendedPowWith e (intended b) (intended e) := by
  rw [intended]
theorem intended_add (ts : List SExpr) :
    intended (.add ts) = intendedAdd (ts.map fun t => addPieceAst (startsMinus (pr t)) (intended t)) := by
  rw [intended]; simp
theorem intended_mul (c : Num) (fs : List SExpr) :
    intended (.mul c fs) = intendedMulAssemble c.isNeg
      ((mulParts c fs).a.map intended) ((mulParts c fs).b.map intended) := by
  rw [intended]; simp

/-! ### blanks -/

theorem dropSp_paren (t : List Tok) : dropSp (paren t) = paren (dropSp t) := by
  simp [paren, dropSp_cons, dropSp_append, isSp]

theorem dropSp_joinStar (ts : List (List Tok)) : dropSp (joinStar ts) = joinStar (ts.map dropSp) := by
  induction ts with
  | nil => simp [joinStar]
  | cons x xs ih =>
    cases xs with
    | nil => simp [joinStar]
    | cons y ys => simp only [joinStar, List.map] at ih ⊢; simp [dropSp_append, dropSp_cons, isSp, ih]

theorem dropSp_parenthesize (l : Nat) (s : Bool) (e : SExpr) (t : List Tok) :
    dropSp (parenthesize l s e t) = parenthesize l s e (dropSp t) := by
  unfold parenthesize; split <;> simp [dropSp_paren]

theorem dropSp_prInt (n : Int) : dropSp (prInt n) = prInt n := by
  unfold prInt; split <;> simp [dropSp_cons, isSp]

theorem dropSp_prNum (n : Num) : dropSp (prNum n) = prNum n := by
  cases n with
  | int n => simp [prNum, dropSp_prInt]
  | rat p q => simp only [prNum]; split <;> simp [dropSp_append, dropSp_prInt, dropSp_cons, isSp]
  | flt s m => cases s <;> simp [prNum, dropSp_cons, isSp]

theorem dropSp_prPowWith (b e : SExpr) (pb pe : List Tok) :
    dropSp (prPowWith b e pb pe) = prPowWith b e (dropSp pb) (dropSp pe) := by
  unfold prPowWith
  split
  · simp [dropSp_cons, dropSp_append, isSp]
  · split
    · simp [dropSp_cons, dropSp_append, isSp]
    · split
      · simp [dropSp_cons, dropSp_append, isSp, dropSp_parenthesize]
      · simp only []
        split <;> simp [dropSp_cons, dropSp_append, isSp, dropSp_parenthesize]

theorem dropSp_mulJoin (sign : Bool) (a b : List (List Tok)) :
    dropSp (mulJoin sign a b) = mulJoin sign (a.map dropSp) (b.map dropSp) := by
  unfold mulJoin
  match b with
  | [] => cases sign <;> simp [dropSp_append, dropSp_joinStar, dropSp_cons, isSp]
  | [d] => cases sign <;> simp [dropSp_append, dropSp_joinStar, dropSp_cons, isSp]
  | d :: d' :: ds => cases sign <;> simp [dropSp_append, dropSp_joinStar, dropSp_cons, isSp]

/-- `_print_Add` without the blanks -/
def prAddNS : List (Bool × List Tok) → List Tok
  | [] => [Tok.err "IndexError: pop from empty list"]
  | (neg, t) :: rest =>
      (if neg then [Tok.minus] else []) ++ t ++ rest.flatMap (fun p => signTok p.1 :: p.2)

theorem dropSp_flatMap_pieces (rest : List (Bool × List Tok)) :
    dropSp (rest.flatMap (fun p => Tok.sp :: signTok p.1 :: Tok.sp :: p.2)) =
      (rest.map fun p => (p.1, dropSp p.2)).flatMap (fun p => signTok p.1 :: p.2) := by
  induction rest with
  | nil => simp
  | cons p ps ih =>
    simp only [List.flatMap_cons, List.map_cons, dropSp_append, ih]
    cases h : p.1 <;> simp [dropSp_cons, isSp, signTok, h]

theorem dropSp_prAdd (ps : List (Bool × List Tok)) :
    dropSp (prAdd ps) = prAddNS (ps.map fun p => (p.1, dropSp p.2)) := by
  cases ps with
  | nil => simp [prAdd, prAddNS, dropSp_cons, isSp]
  | cons p rest =>
    obtain ⟨neg, t⟩ := p
    simp only [prAdd, prAddNS, List.map_cons, dropSp_append, dropSp_flatMap_pieces]
    cases neg <;> simp [dropSp_cons, isSp]

end ESR.Printer

namespace ESR.Printer

/-! ### level at which each form is printed -/

def plvl : SExpr → Lvl
  | .num (.int n) => if n < 0 then .factor else .atom
  | .num (.rat _ _) => .term
  | .num (.flt neg _) => if neg then .factor else .atom
  | .sym _ => .atom
  | .fn _ _ => .atom
  | .pow _ e =>
    if isHalfE e then .atom else if isNegHalfE e || isNegOneE e then .term
    else if isIntegerLit e then .power else .atom
  | .add _ => .expr
  | .mul _ _ => .term

theorem precedence_ge (e : SExpr) : 40 ≤ precedence e := by
  cases e with
  | num n => cases n <;> simp only [precedence] <;> split <;> omega
  | mul c fs => simp only [precedence]; split <;> omega
  | _ => simp [precedence]

theorem plvl_of_prec_gt60 {e : SExpr} (h : 60 < precedence e) : plvl e = .atom := by
  cases e with
  | num n =>
    cases n with
    | int n => simp only [precedence] at h; simp only [plvl]; split <;> simp_all
    | rat p q => simp only [precedence] at h; split at h <;> omega
    | flt s m => simp only [precedence] at h; simp only [plvl]; split <;> simp_all
  | mul c fs => simp only [precedence] at h; split at h <;> omega
  | _ => simp_all [precedence, plvl]

theorem plvl_rank_of_not_add {e : SExpr} (h : isAdd e = false) : 1 ≤ (plvl e).rank := by
  cases e with
  | num n => cases n <;> simp only [plvl] <;> (try split) <;> simp [Lvl.rank]
  | pow b e => simp only [plvl]; split <;> (try split) <;> (try split) <;> simp [Lvl.rank]
  | add ts => simp [isAdd] at h
  | _ => simp [plvl, Lvl.rank]

theorem parenthesize_zero (e : SExpr) (t : List Tok) : parenthesize 0 false e t = t := by
  have := precedence_ge e
  unfold parenthesize
  split
  · rename_i h; simp at h; omega
  · rfl

/-! ### products -/

theorem joinStar_cons_cons (t u : List Tok) (rest : List (List Tok)) :
    joinStar (t :: u :: rest) = joinStar ((t ++ Tok.star :: u) :: rest) := by
  cases rest <;> simp [joinStar, List.append_assoc]

theorem joinStar_phrase (xs : List (List Tok × PyAst)) (hx : ∀ p ∈ xs, Phrase .factor p.1 p.2) :
    ∀ (t : List Tok) (a : PyAst), Phrase .term t a →
      Phrase .term (joinStar (t :: xs.map (·.1))) (foldBin .mul a (xs.map (·.2))) := by
  induction xs with
  | nil => intro t a h; simpa [joinStar, foldBin] using h
  | cons p ps ih =>
    intro t a h
    simp only [List.map_cons, joinStar_cons_cons, foldBin]
    exact ih (fun q hq => hx q (by simp [hq])) _ _ (Phrase.mul h (hx p (by simp)))

theorem minus_joinStar (t : List Tok) (rest : List (List Tok)) :
    Tok.minus :: joinStar (t :: rest) = joinStar ((Tok.minus :: t) :: rest) := by
  cases rest <;> simp [joinStar]

theorem stripNeg_foldBin_mul (x : PyAst) (xs : List PyAst) :
    stripNeg (foldBin .mul (.neg x) xs) = some (foldBin .mul x xs) := by
  suffices h : ∀ (l l' : PyAst), stripNeg l = some l' → stripNeg (foldBin .mul l xs) = some (foldBin .mul l' xs) from
    h _ _ (by simp [stripNeg])
  induction xs with
  | nil => intro l l' h; simpa [foldBin] using h
  | cons y ys ih => intro l l' h; simp only [foldBin]; exact ih _ _ (by simp [stripNeg, h])

/-- numerator and denominator strings (already parenthesised, blank-free) put together by `mulJoin` -/
theorem mulJoin_phrase (sign : Bool) (x : List Tok × PyAst) (xs bs : List (List Tok × PyAst))
    (hx : Phrase .factor x.1 x.2) (hxs : ∀ p ∈ xs, Phrase .factor p.1 p.2) (hbs : ∀ p ∈ bs, Phrase .factor p.1 p.2) :
    Phrase .term (mulJoin sign ((x :: xs).map (·.1)) (bs.map (·.1)))
      (intendedMulAssemble sign ((x :: xs).map (·.2)) (bs.map (·.2))) := by
  -- numerator
  have hN : Phrase .term ((if sign then [Tok.minus] else []) ++ joinStar ((x :: xs).map (·.1)))
      (foldBin .mul (if sign then .neg x.2 else x.2) (xs.map (·.2))) := by
    cases sign with
    | false => simpa using joinStar_phrase xs hxs _ _ (Phrase.ofFactor hx)
    | true =>
      simp only [if_true, List.map_cons, List.singleton_append, minus_joinStar]
      exact joinStar_phrase xs hxs _ _ (Phrase.ofFactor (Phrase.neg hx))
  unfold mulJoin intendedMulAssemble
  simp only [List.map_cons, intendedNumer]
  match bs with
  | [] => simpa using hN
  | [d] =>
    simp only [List.map_cons, List.map_nil]
    exact Phrase.div (by simpa using hN) (hbs d (by simp))
  | d :: d' :: ds =>
    simp only [List.map_cons]
    have hD : Phrase .term (joinStar (d.1 :: (d' :: ds).map (·.1))) (foldBin .mul d.2 ((d' :: ds).map (·.2))) :=
      joinStar_phrase (d' :: ds) (fun p hp => hbs p (List.mem_cons_of_mem _ hp)) _ _
        (Phrase.ofFactor (hbs d (by simp)))
    have hP : Phrase .factor (Tok.lpar :: joinStar (d.1 :: (d' :: ds).map (·.1)) ++ [Tok.rpar])
        (foldBin .mul d.2 ((d' :: ds).map (·.2))) := (Phrase.paren (Phrase.ofTerm hD)).atomFactor
    have := Phrase.div (by simpa using hN) hP
    simpa [List.append_assoc] using this

theorem stripNeg_mulAssemble (x : PyAst) (xs bs : List PyAst) :
    stripNeg (intendedMulAssemble true (x :: xs) bs) = some (intendedMulAssemble false (x :: xs) bs) := by
  unfold intendedMulAssemble
  simp only [intendedNumer, Bool.false_eq_true, if_false, if_true]
  match bs with
  | [] => simpa using stripNeg_foldBin_mul x xs
  | [d] => simp [stripNeg, stripNeg_foldBin_mul]
  | d :: d' :: ds => simp [stripNeg, stripNeg_foldBin_mul]

end ESR.Printer

namespace ESR.Printer

/-! ### what the induction carries -/

/-- if the printed text starts with '-', the rest is a term whose AST is `stripNeg (intended e)` -/
def SignInfo (e : SExpr) : Prop :=
  startsMinus (pr e) = true →
    ∃ body b, pr e = Tok.minus :: body ∧ stripNeg (intended e) = some b ∧ Phrase .term (dropSp body) b

def PhraseInfo (e : SExpr) : Prop :=
  Phrase (plvl e) (dropSp (pr e)) (intended e) ∧ (isAdd e = false → SignInfo e)

theorem PhraseInfo.expr {e} (h : PhraseInfo e) : Phrase .expr (dropSp (pr e)) (intended e) :=
  h.1.weaken (by simp [Lvl.rank])

theorem phrase_length_pos {l t a} (h : Phrase l t a) : 1 ≤ t.length := by
  have := phrase_good h
  cases l <;> exact this.1

theorem parenthesize_phrase {l : Lvl} {level : Nat} {x : SExpr} {t : List Tok} {a : PyAst}
    (hE : Phrase .expr t a) (hA : level < precedence x → Phrase l t a) :
    Phrase l (parenthesize level false x t) a := by
  unfold parenthesize
  split
  · exact (Phrase.paren hE).weaken (by cases l <;> simp [Lvl.rank])
  · rename_i h
    simp only [Bool.not_false, Bool.true_and, Bool.or_eq_true, decide_eq_true_eq, not_or, Nat.not_lt, Nat.not_le] at h
    exact hA h.2

/-! ### numbers -/

theorem intInt_phrase (n : Int) : Phrase .factor (prInt n) (intInt n) := by
  unfold prInt intInt
  split
  · exact Phrase.neg (Phrase.int _).atomFactor
  · exact (Phrase.int _).atomFactor

theorem num_info (n : Num) (hc : canonical (.num n) = true) : PhraseInfo (.num n) := by
  cases n with
  | int n =>
    refine ⟨?_, fun _ => ?_⟩
    · rw [pr_num, dropSp_prNum]
      simp only [intended_num, prNum, intendedNum, plvl, prInt, intInt]
      split
      · exact Phrase.neg (Phrase.int _).atomFactor
      · exact Phrase.int _
    · intro hs
      simp only [pr_num, prNum, prInt] at hs ⊢
      split at hs
      · rename_i hn
        refine ⟨[Tok.int n.natAbs], .int n.natAbs, by simp [hn], ?_, ?_⟩
        · simp [intended_num, intendedNum, intInt, hn, stripNeg]
        · simpa [dropSp_cons, isSp] using (Phrase.int n.natAbs).atomTerm
      · simp [startsMinus] at hs
  | rat p q =>
    have hq : q ≠ 1 := by simp [canonical, Num.canon] at hc; omega
    refine ⟨?_, fun _ => ?_⟩
    · rw [pr_num, dropSp_prNum]
      simp only [intended_num, prNum, intendedNum, plvl, hq, if_false]
      exact Phrase.div (Phrase.ofFactor (intInt_phrase p)) (Phrase.int q).atomFactor
    · intro hs
      simp only [pr_num, prNum, hq, if_false, prInt] at hs ⊢
      split at hs
      · rename_i hn
        refine ⟨[Tok.int p.natAbs, Tok.slash, Tok.int q], .bin .div (.int p.natAbs) (.int q), by simp [hn], ?_, ?_⟩
        · simp [intended_num, intendedNum, intInt, hn, hq, stripNeg]
        · have := Phrase.div (Phrase.int p.natAbs).atomTerm (Phrase.int q).atomFactor
          simpa [dropSp_cons, isSp] using this
      · simp [startsMinus] at hs
  | flt s m =>
    refine ⟨?_, fun _ => ?_⟩
    · rw [pr_num, dropSp_prNum]
      simp only [intended_num, prNum, intendedNum, plvl]
      cases s
      · simpa using Phrase.flt m
      · simpa using Phrase.neg (Phrase.flt m).atomFactor
    · intro hs
      cases s
      · simp [pr_num, prNum, startsMinus] at hs
      · refine ⟨[Tok.flt m], .flt m, by simp [pr_num, prNum], ?_, ?_⟩
        · simp [intended_num, intendedNum, stripNeg]
        · simpa [dropSp_cons, isSp] using (Phrase.flt m).atomTerm

/-! ### powers -/

theorem pow_phrase (b e : SExpr) (hb : PhraseInfo b) (he : PhraseInfo e) :
    Phrase (plvl (.pow b e)) (dropSp (pr (.pow b e))) (intended (.pow b e)) := by
  have hbE := hb.expr
  have heE := he.expr
  have hbA : Phrase .atom (parenthesize 60 false b (dropSp (pr b))) (intended b) :=
    parenthesize_phrase hbE (fun h => by have := hb.1; rwa [plvl_of_prec_gt60 h] at this)
  have heA : Phrase .atom (parenthesize 60 false e (dropSp (pr e))) (intended e) :=
    parenthesize_phrase heE (fun h => by have := he.1; rwa [plvl_of_prec_gt60 h] at this)
  simp only [pr_pow, intended_pow, dropSp_prPowWith, plvl]
  unfold prPowWith intendedPowWith
  by_cases h1 : isHalfE e = true
  · simp only [h1, if_true]
    exact Phrase.call1 "sqrt" hbE
  · simp only [h1, if_false]
    by_cases h2 : isNegHalfE e = true
    · simp only [h2, if_true, Bool.true_or]
      exact Phrase.div (Phrase.int 1).atomTerm (Phrase.call1 "sqrt" hbE).atomFactor
    · simp only [h2, if_false, Bool.false_or]
      by_cases h3 : isNegOneE e = true
      · simp only [h3, if_true]
        exact Phrase.div (Phrase.int 1).atomTerm hbA.atomFactor
      · simp only [h3, if_false]
        by_cases h4 : isIntegerLit e = true
        · simp only [h4, if_true]
          exact Phrase.pow hbA heA.atomFactor
        · simp only [h4, if_false]
          have := Phrase.call2 "pow" hbA.atomExpr heA.atomExpr
          simpa [List.append_assoc] using this

theorem startsMinus_paren (t : List Tok) : startsMinus (paren t) = false := rfl

theorem startsMinus_atomlike {b : SExpr} (h : 60 < precedence b) : startsMinus (pr b) = false := by
  cases b with
  | num n =>
    cases n with
    | int n =>
      simp only [precedence] at h
      split at h
      · omega
      · rename_i hn; simp [pr_num, prNum, prInt, hn, startsMinus]
    | rat p q => simp only [precedence] at h; split at h <;> omega
    | flt s m =>
      simp only [precedence] at h
      cases s
      · simp [pr_num, prNum, startsMinus]
      · simp at h
  | sym s => simp [pr_sym, startsMinus]
  | fn f a => simp [pr_fn, startsMinus]
  | pow b e => simp [precedence] at h
  | add ts => simp [precedence] at h
  | mul c fs => simp only [precedence] at h; split at h <;> omega

theorem startsMinus_parenthesize60 (b : SExpr) : startsMinus (parenthesize 60 false b (pr b)) = false := by
  unfold parenthesize
  split
  · rfl
  · rename_i h
    simp only [Bool.not_false, Bool.true_and, Bool.or_eq_true, decide_eq_true_eq, not_or, Nat.not_lt, Nat.not_le] at h
    exact startsMinus_atomlike h.2

theorem startsMinus_pow (b e : SExpr) : startsMinus (pr (.pow b e)) = false := by
  have hB := startsMinus_parenthesize60 b
  simp only [pr_pow]
  unfold prPowWith
  split
  · rfl
  · split
    · rfl
    · split
      · rfl
      · simp only []
        split
        · generalize parenthesize 60 false b (pr b) = B at hB
          cases B with
          | nil => simp [startsMinus]
          | cons x xs => cases x <;> simp_all [startsMinus]
        · rfl

theorem pow_info (b e : SExpr) (hb : PhraseInfo b) (he : PhraseInfo e) : PhraseInfo (.pow b e) :=
  ⟨pow_phrase b e hb he, fun _ hs => by simp [startsMinus_pow] at hs⟩

theorem fn_info (f : Fn) (a : SExpr) (ha : PhraseInfo a) : PhraseInfo (.fn f a) := by
  refine ⟨?_, fun _ hs => by simp [pr_fn, startsMinus] at hs⟩
  simp only [pr_fn, intended_fn, parenthesize_zero, plvl]
  have := Phrase.call1 f.name ha.expr
  simpa [dropSp_cons, dropSp_append, isSp] using this

theorem sym_info (s : String) : PhraseInfo (.sym s) :=
  ⟨by simpa [pr_sym, intended_sym, plvl, dropSp_cons, isSp] using Phrase.name s,
   fun _ hs => by simp [pr_sym, startsMinus] at hs⟩

end ESR.Printer

namespace ESR.Printer

/-! ### sums -/

theorem splitSign_of_not_starts {t : List Tok} (h : startsMinus t = false) : splitSign t = (false, t) := by
  cases t with
  | nil => rfl
  | cons x xs => cases x <;> simp_all [startsMinus, splitSign]

theorem addPiece_of_not_add {t : SExpr} (h : isAdd t = false) (p : List Tok) : addPiece t p = splitSign p := by
  have := precedence_ge t
  unfold addPiece
  simp only [h, Bool.or_false, decide_eq_true_eq]
  split
  · omega
  · rfl

/-- what the Add case needs from each term -/
def TermInfo (t : SExpr) : Prop :=
  isAdd t = false ∧ Phrase .term (dropSp (pr t)) (intended t) ∧ SignInfo t

theorem PhraseInfo.termInfo {t} (h : PhraseInfo t) (ht : isAdd t = false) : TermInfo t :=
  ⟨ht, h.1.weaken (by have := plvl_rank_of_not_add ht; simpa [Lvl.rank] using this), h.2 ht⟩

theorem add_tail_phrase (rest : List SExpr) (hr : ∀ t ∈ rest, TermInfo t) :
    ∀ (A : List Tok) (acc : PyAst), Phrase .expr A acc →
      Phrase .expr
        (A ++ ((rest.map fun t => addPiece t (pr t)).map fun p => (p.1, dropSp p.2)).flatMap (fun p => signTok p.1 :: p.2))
        ((rest.map fun t => addPieceAst (startsMinus (pr t)) (intended t)).foldl
          (fun acc p => .bin (if p.1 then .sub else .add) acc p.2.2) acc) := by
  induction rest with
  | nil => intro A acc h; simpa using h
  | cons t ts ih =>
    intro A acc h
    obtain ⟨hta, htT, htS⟩ := hr t (by simp)
    have ih' := ih (fun u hu => hr u (by simp [hu]))
    simp only [List.map_cons, List.flatMap_cons, List.foldl_cons, addPiece_of_not_add hta]
    by_cases hs : startsMinus (pr t) = true
    · obtain ⟨body, b, hp, hb, hph⟩ := htS hs
      have h1 : splitSign (pr t) = (true, body) := by rw [hp]; rfl
      have h2 : addPieceAst (startsMinus (pr t)) (intended t) = (true, intended t, b) := by
        simp [addPieceAst, hs, hb]
      rw [h1, h2]
      have := ih' (A ++ Tok.minus :: dropSp body) (.bin .sub acc b) (Phrase.sub h hph)
      simpa [signTok, List.append_assoc] using this
    · have hs' : startsMinus (pr t) = false := by simpa using hs
      have h2 : addPieceAst (startsMinus (pr t)) (intended t) = (false, intended t, intended t) := by
        simp [addPieceAst, hs']
      rw [splitSign_of_not_starts hs', h2]
      have := ih' (A ++ Tok.plus :: dropSp (pr t)) (.bin .add acc (intended t)) (Phrase.add h htT)
      simpa [signTok, List.append_assoc] using this

theorem splitSign_rejoin (t : List Tok) :
    (if (splitSign t).1 then [Tok.minus] else []) ++ (splitSign t).2 = t := by
  cases t with
  | nil => rfl
  | cons x xs => cases x <;> simp [splitSign]

theorem add_phrase (t : SExpr) (ts : List SExpr) (h1 : PhraseInfo t) (ht : isAdd t = false) (hr : ∀ u ∈ ts, TermInfo u) :
    Phrase .expr (dropSp (pr (.add (t :: ts)))) (intended (.add (t :: ts))) := by
  simp only [pr_add, intended_add, dropSp_prAdd, List.map_cons, prAddNS, intendedAdd, addPiece_of_not_add ht]
  have h0 : (if (splitSign (pr t)).1 then [Tok.minus] else []) ++ dropSp (splitSign (pr t)).2 = dropSp (pr t) := by
    have := congrArg dropSp (splitSign_rejoin (pr t))
    rw [dropSp_append] at this
    cases h : (splitSign (pr t)).1 <;> simp_all [dropSp_cons, isSp]
  have := add_tail_phrase ts hr _ _ h1.expr
  rw [← h0] at this
  cases hh : addPieceAst (startsMinus (pr t)) (intended t) with
  | mk s rest =>
    obtain ⟨w, b⟩ := rest
    have hw : w = intended t := by
      unfold addPieceAst at hh
      split at hh <;> simp_all
    subst hw
    simpa [List.append_assoc] using this

end ESR.Printer

namespace ESR.Printer

/-! ### canonical form: consequences -/

theorem canonicalL_iff (ts : List SExpr) : canonicalL ts = true ↔ ∀ t ∈ ts, canonical t = true := by
  induction ts with
  | nil => simp [canonicalL]
  | cons a as ih => simp [canonicalL, ih]

theorem canonical_pow {b e : SExpr} (h : canonical (.pow b e) = true) : canonical b = true ∧ canonical e = true := by
  simpa [canonical] using h

theorem canonical_fn {f : Fn} {a : SExpr} (h : canonical (.fn f a) = true) : canonical a = true := by
  simpa [canonical] using h

theorem canonical_add {ts : List SExpr} (h : canonical (.add ts) = true) :
    ts ≠ [] ∧ (∀ t ∈ ts, isAdd t = false) ∧ (∀ t ∈ ts, canonical t = true) := by
  simp only [canonical, Bool.and_eq_true, Bool.not_eq_true', List.all_eq_true, canonicalL_iff] at h
  refine ⟨?_, fun t ht => ?_, h.2⟩
  · intro hn; simp [hn] at h
  · simpa using h.1.2 t ht

theorem canonical_mul {c : Num} {fs : List SExpr} (h : canonical (.mul c fs) = true) :
    fs ≠ [] ∧ (∀ f ∈ fs, factorOk c.isNeg f = true) ∧ (∀ f ∈ fs, canonical f = true) ∧ c.canon = true := by
  simp only [canonical, Bool.and_eq_true, Bool.not_eq_true', List.all_eq_true, canonicalL_iff] at h
  refine ⟨?_, h.1.2, h.2, h.1.1.1⟩
  intro hn; simp [hn] at h

theorem factorOk_weaken {f : SExpr} (h : factorOk true f = true) : factorOk false f = true := by
  cases f <;> simp_all [factorOk]

theorem Num.neg_not_neg {c : Num} (h : c.isNeg = true) : c.neg.isNeg = false := by
  cases c with
  | int n => simp [Num.isNeg, Num.neg] at *; omega
  | rat p q => simp [Num.isNeg, Num.neg] at *; omega
  | flt s m => simp [Num.isNeg, Num.neg] at *; simp [h]

theorem canonical_mulFromArgsC (c : Num) (hc : c.isNeg = false) (hq : c.canon = true) (fs : List SExpr)
    (hf : ∀ f ∈ fs, factorOk false f = true) (hcan : ∀ f ∈ fs, canonical f = true) :
    canonical (mulFromArgsC c fs) = true := by
  cases fs with
  | nil => simpa [mulFromArgsC, canonical] using hq
  | cons f r =>
    simp only [mulFromArgsC, canonical, hc, Bool.and_eq_true, Bool.not_eq_true', List.all_eq_true, canonicalL_iff]
    exact ⟨⟨⟨hq, by simp⟩, hf⟩, hcan⟩

theorem Num.canon_neg {c : Num} (h : c.canon = true) : c.neg.canon = true := by
  cases c <;> simp_all [Num.canon, Num.neg]

theorem canonical_num_neg {c : Num} (h : canonical (.num c) = true) : canonical (.num c.neg) = true := by
  simp only [canonical] at *; exact Num.canon_neg h

theorem canonical_negExp {ex : SExpr} (hc : canonical ex = true) (hn : coeffNeg ex = true) :
    canonical (negExp ex) = true := by
  cases ex with
  | num n => simpa [negExp] using canonical_num_neg hc
  | mul c fs =>
    obtain ⟨hne, hok, hcan, hcc⟩ := canonical_mul hc
    have hcn : c.isNeg = true := by simpa [coeffNeg] using hn
    have hok' : ∀ f ∈ fs, factorOk false f = true := fun f hf => factorOk_weaken (by simpa [hcn] using hok f hf)
    simp only [negExp]
    split
    · match fs, hne with
      | [f], _ => simpa [mulFromArgs] using hcan f (by simp)
      | f :: g :: r, _ =>
        simp only [mulFromArgs, canonical, Bool.and_eq_true, Bool.not_eq_true', List.all_eq_true, canonicalL_iff]
        exact ⟨⟨⟨by simp [Num.canon], by simp⟩, by simpa [Num.isNeg] using hok'⟩, hcan⟩
    · exact canonical_mulFromArgsC _ (Num.neg_not_neg hcn) (Num.canon_neg hcc) _ hok' hcan
  | _ => simp [coeffNeg] at hn

theorem negExp_shape {ex : SExpr} (hc : canonical ex = true) (hn : coeffNeg ex = true) :
    isNegHalfE (negExp ex) = false ∧ isNegOneE (negExp ex) = false := by
  cases ex with
  | num n =>
    have hn' : n.isNeg = true := by simpa [coeffNeg] using hn
    cases n with
    | int k =>
      simp only [Num.isNeg, decide_eq_true_eq] at hn'
      refine ⟨by simp [negExp, Num.neg, isNegHalfE, Num.isNegHalf], ?_⟩
      simp only [negExp, Num.neg, isNegOneE]
      unfold Num.isNegOne
      split
      · rename_i h; simp at h; omega
      · rfl
    | rat p q =>
      simp only [Num.isNeg, decide_eq_true_eq] at hn'
      refine ⟨?_, by simp [negExp, Num.neg, isNegOneE, Num.isNegOne]⟩
      simp only [negExp, Num.neg, isNegHalfE]
      unfold Num.isNegHalf
      split
      · rename_i h; simp at h; omega
      · rfl
    | flt s m => simp [negExp, Num.neg, isNegHalfE, isNegOneE, Num.isNegHalf, Num.isNegOne]
  | mul c fs =>
    obtain ⟨hne, hok, hcan, _⟩ := canonical_mul hc
    simp only [negExp]
    split
    · match fs, hne with
      | [f], _ =>
        have := hok f (by simp)
        cases f <;> simp_all [mulFromArgs, factorOk, isNegHalfE, isNegOneE]
      | f :: g :: r, _ => simp [mulFromArgs, isNegHalfE, isNegOneE]
    · match fs, hne with
      | f :: r, _ => simp [mulFromArgsC, isNegHalfE, isNegOneE]
  | _ => simp [coeffNeg] at hn

theorem coeffNeg_of_negHalf {e : SExpr} (h : isNegHalfE e = true) : coeffNeg e = true := by
  cases e with
  | num n =>
    simp only [isNegHalfE] at h
    unfold Num.isNegHalf at h
    split at h <;> simp_all [coeffNeg, Num.isNeg]
  | _ => simp [isNegHalfE] at h

theorem coeffNeg_of_negOne {e : SExpr} (h : isNegOneE e = true) : coeffNeg e = true := by
  cases e with
  | num n =>
    simp only [isNegOneE] at h
    unfold Num.isNegOne at h
    split at h <;> simp_all [coeffNeg, Num.isNeg]
  | _ => simp [isNegOneE] at h

/-- level of a power whose exponent is not `-1/2` or `-1`: it is a factor -/
theorem plvl_pow_rank {b e : SExpr} (h1 : isNegHalfE e = false) (h2 : isNegOneE e = false) :
    3 ≤ (plvl (.pow b e)).rank := by
  simp only [plvl, h1, h2, Bool.or_self, Bool.false_eq_true, if_false]
  split <;> (try split) <;> simp [Lvl.rank]

end ESR.Printer

namespace ESR.Printer

/-! ### products: what `_print_Mul` puts in numerator and denominator -/

/-- an item of the numerator/denominator lists: canonical, and if it is printed without parentheses it is a factor
that does not start with '-' -/
def ItemOK (prec : Nat) (x : SExpr) : Prop :=
  canonical x = true ∧ (prec < precedence x → 2 ≤ (plvl x).rank ∧ startsMinus (pr x) = false)

theorem itemOK_atomlike {prec : Nat} {x : SExpr} (hc : canonical x = true)
    (h : ∀ (_ : prec < precedence x), plvl x = .atom ∧ startsMinus (pr x) = false) : ItemOK prec x :=
  ⟨hc, fun hp => by obtain ⟨h1, h2⟩ := h hp; exact ⟨by simp [h1, Lvl.rank], h2⟩⟩

theorem itemOK_int {prec : Nat} (hp : 40 ≤ prec) (n : Int) : ItemOK prec (.num (.int n)) := by
  refine itemOK_atomlike (by simp [canonical, Num.canon]) (fun h => ?_)
  have hn : ¬ n < 0 := by
    intro hn; simp [precedence, hn] at h; omega
  simp [plvl, hn, pr_num, prNum, prInt, startsMinus]

theorem classify_factor_ok (neg : Bool) (f : SExpr) (hc : canonical f = true) (hf : factorOk neg f = true) :
    (∀ x ∈ (classify f).a, ItemOK (if neg then 40 else 50) x) ∧
    (∀ x ∈ (classify f).b, ItemOK (if neg then 40 else 50) x) ∧ (classify f).pp = [] := by
  have hprec : 40 ≤ (if neg then 40 else 50) := by split <;> omega
  cases f with
  | num n => simp [factorOk] at hf
  | sym s =>
    simp only [classify, List.mem_singleton, List.not_mem_nil, forall_eq, and_true, false_imp_iff, implies_true]
    exact itemOK_atomlike hc (fun _ => by simp [plvl, pr_sym, startsMinus])
  | fn g a =>
    simp only [classify, List.mem_singleton, List.not_mem_nil, forall_eq, and_true, false_imp_iff, implies_true]
    exact itemOK_atomlike hc (fun _ => by simp [plvl, pr_fn, startsMinus])
  | add ts =>
    simp only [classify, List.mem_singleton, List.not_mem_nil, forall_eq, and_true, false_imp_iff, implies_true]
    exact ⟨hc, fun h => by simp [precedence] at h; omega⟩
  | mul c' fs' =>
    simp only [classify, List.mem_singleton, List.not_mem_nil, forall_eq, and_true, false_imp_iff, implies_true]
    refine ⟨hc, fun h => ?_⟩
    exfalso
    cases neg <;> cases hcn : c'.isNeg <;> simp_all [precedence, factorOk]
  | pow base ex =>
    obtain ⟨hcb, hce⟩ := canonical_pow hc
    simp only [classify]
    by_cases hn : coeffNeg ex = true
    · simp only [hn, if_true]
      simp only [factorOk, hn, if_true] at hf
      by_cases h1 : isNegOneE ex = true
      · simp only [h1, if_true] at hf ⊢
        simp only [Bool.and_eq_true, Bool.not_eq_true'] at hf
        simp only [hf.1, Bool.and_false, Bool.false_eq_true, if_false, List.mem_singleton, List.not_mem_nil, forall_eq,
          false_imp_iff, implies_true, and_true, true_and]
        refine ⟨hcb, fun hp => ?_⟩
        cases base with
        | num n => simp [isNum] at hf
        | sym s => simp [plvl, pr_sym, startsMinus, Lvl.rank]
        | fn g a => simp [plvl, pr_fn, startsMinus, Lvl.rank]
        | add ts => simp [precedence] at hp; omega
        | mul _ _ => simp [isMulOrPow] at hf
        | pow _ _ => simp [isMulOrPow] at hf
      · simp only [h1, Bool.false_eq_true, if_false] at hf ⊢
        simp only [Bool.not_eq_true'] at hf
        simp only [hf, Bool.false_eq_true, if_false, List.mem_singleton, List.not_mem_nil, forall_eq,
          false_imp_iff, implies_true, and_true, true_and]
        obtain ⟨s1, s2⟩ := negExp_shape hce hn
        refine ⟨by simp [canonical, hcb, canonical_negExp hce hn], fun _ => ⟨?_, startsMinus_pow _ _⟩⟩
        have := plvl_pow_rank (b := base) s1 s2
        omega
    · simp only [hn, Bool.false_eq_true, if_false, List.mem_singleton, List.not_mem_nil, forall_eq, and_true,
        false_imp_iff, implies_true]
      have s1 : isNegHalfE ex = false := by
        cases h : isNegHalfE ex with
        | false => rfl
        | true => exact absurd (coeffNeg_of_negHalf h) hn
      have s2 : isNegOneE ex = false := by
        cases h : isNegOneE ex with
        | false => rfl
        | true => exact absurd (coeffNeg_of_negOne h) hn
      refine ⟨hc, fun _ => ⟨?_, startsMinus_pow _ _⟩⟩
      have := plvl_pow_rank (b := base) s1 s2
      omega

theorem classify_coeff_ok (prec : Nat) (hp : 40 ≤ prec) (c : Num) (hn : c.isNeg = false) :
    (∀ x ∈ (classify (.num c)).a, ItemOK prec x) ∧ (∀ x ∈ (classify (.num c)).b, ItemOK prec x) ∧
    (classify (.num c)).pp = [] := by
  cases c with
  | int n =>
    refine ⟨fun x hx => ?_, fun x hx => ?_, by simp [classify, ratParts]⟩
    · simp only [classify, ratParts] at hx
      split at hx <;> simp_all [itemOK_int]
    · simp [classify, ratParts] at hx
  | rat p q =>
    refine ⟨fun x hx => ?_, fun x hx => ?_, by simp [classify, ratParts]⟩
    · simp only [classify, ratParts] at hx
      split at hx <;> simp_all [itemOK_int]
    · simp only [classify, ratParts] at hx
      split at hx <;> simp_all [itemOK_int]
  | flt s m =>
    have hs : s = false := by simpa [Num.isNeg] using hn
    subst hs
    simp only [classify, List.mem_singleton, List.not_mem_nil, forall_eq, and_true, false_imp_iff, implies_true]
    exact itemOK_atomlike (by simp [canonical, Num.canon]) (fun _ => by simp [plvl, pr_num, prNum, startsMinus])

theorem classifyAll_ok (prec : Nat) (xs : List SExpr)
    (h : ∀ y ∈ xs, (∀ x ∈ (classify y).a, ItemOK prec x) ∧ (∀ x ∈ (classify y).b, ItemOK prec x) ∧ (classify y).pp = []) :
    (∀ x ∈ (classifyAll xs).a, ItemOK prec x) ∧ (∀ x ∈ (classifyAll xs).b, ItemOK prec x) ∧ (classifyAll xs).pp = [] := by
  induction xs with
  | nil => simp [classifyAll]
  | cons y ys ih =>
    obtain ⟨ha, hb, hp⟩ := h y (by simp)
    obtain ⟨ia, ib, ip⟩ := ih (fun z hz => h z (by simp [hz]))
    simp only [classifyAll, MulParts.append, List.mem_append, hp, ip, List.append_nil, and_true]
    exact ⟨fun x hx => hx.elim (ha x) (ia x), fun x hx => hx.elim (hb x) (ib x)⟩

theorem mulParts_ok {c : Num} {fs : List SExpr} (hc : canonical (.mul c fs) = true) :
    (∀ x ∈ (mulParts c fs).a, ItemOK (precedence (.mul c fs)) x) ∧
    (∀ x ∈ (mulParts c fs).b, ItemOK (precedence (.mul c fs)) x) ∧ (mulParts c fs).pp = [] := by
  obtain ⟨_, hok, hcan, _⟩ := canonical_mul hc
  have hprec : precedence (.mul c fs) = if c.isNeg then 40 else 50 := by simp [precedence]
  have h40 : 40 ≤ precedence (.mul c fs) := precedence_ge _
  have hfs : ∀ y ∈ fs, (∀ x ∈ (classify y).a, ItemOK (precedence (.mul c fs)) x) ∧
      (∀ x ∈ (classify y).b, ItemOK (precedence (.mul c fs)) x) ∧ (classify y).pp = [] := by
    intro y hy
    have := classify_factor_ok c.isNeg y (hcan y hy) (hok y hy)
    rw [hprec]; exact this
  have hcn : (if c.isNeg then c.neg else c).isNeg = false := by
    cases h : c.isNeg with
    | true => simpa [h] using Num.neg_not_neg h
    | false => simpa [h] using h
  apply classifyAll_ok
  intro y hy
  simp only [mulArgs] at hy
  generalize (if c.isNeg then c.neg else c) = c' at hy hcn
  split at hy
  · exact hfs y hy
  · rcases List.mem_cons.mp hy with rfl | hy
    · exact classify_coeff_ok _ h40 _ hcn
    · exact hfs y hy

end ESR.Printer

namespace ESR.Printer

/-! ### products: assembling -/

theorem mulJoin_true (a b : List (List Tok)) : mulJoin true a b = Tok.minus :: mulJoin false a b := by
  unfold mulJoin
  match b with
  | [] => simp
  | [d] => simp
  | d :: d' :: ds => simp

theorem startsMinus_mulJoin_false (s : List Tok) (ss b : List (List Tok)) (hs : s ≠ []) (hm : startsMinus s = false) :
    startsMinus (mulJoin false (s :: ss) b) = false := by
  cases s with
  | nil => exact absurd rfl hs
  | cons x xs =>
    have : ∃ rest, mulJoin false ((x :: xs) :: ss) b = x :: rest := by
      unfold mulJoin
      cases ss <;> (match b with
        | [] => simp [joinStar]
        | [d] => simp [joinStar]
        | d :: d' :: ds => simp [joinStar])
    obtain ⟨rest, hr⟩ := this
    rw [hr]
    cases x <;> simp_all [startsMinus]

/-- printed and parenthesised item, blank-free, with its AST -/
def itemPair (prec : Nat) (x : SExpr) : List Tok × PyAst :=
  (parenthesize prec false x (dropSp (pr x)), intended x)

theorem item_factor {prec : Nat} {x : SExpr} (hi : ItemOK prec x) (hp : PhraseInfo x) :
    Phrase .factor (itemPair prec x).1 (itemPair prec x).2 :=
  parenthesize_phrase hp.expr (fun h => hp.1.weaken (by simpa [Lvl.rank] using (hi.2 h).1))

theorem item_starts {prec : Nat} {x : SExpr} (hi : ItemOK prec x) :
    startsMinus (parenthesize prec false x (pr x)) = false := by
  unfold parenthesize
  split
  · rfl
  · rename_i h
    simp only [Bool.not_false, Bool.true_and, Bool.or_eq_true, decide_eq_true_eq, not_or, Nat.not_lt, Nat.not_le] at h
    exact (hi.2 h.2).2

theorem dropSp_ne_nil {t : List Tok} (h : dropSp t ≠ []) : t ≠ [] := by
  intro h'; subst h'; exact h rfl

theorem intendedMulAssemble_nil (sign : Bool) (bs : List PyAst) :
    intendedMulAssemble sign [] bs = intendedMulAssemble sign [.int 1] bs := by
  cases sign <;> simp [intendedMulAssemble, intendedNumer, foldBin]

theorem parenthesize_one (prec : Nat) (h : 40 ≤ prec) (hp : prec ≤ 50) (t : List Tok) :
    parenthesize prec false (.num (.int 1)) t = t := by
  unfold parenthesize
  have : precedence (.num (.int 1)) = 1000 := by simp [precedence]
  rw [this]
  split
  · rename_i h'; simp at h'; omega
  · rfl

theorem mul_info (c : Num) (fs : List SExpr) (hc : canonical (.mul c fs) = true)
    (ih : ∀ x, size x < size (.mul c fs) → canonical x = true → PhraseInfo x) : PhraseInfo (.mul c fs) := by
  obtain ⟨hA, hB, hpp⟩ := mulParts_ok hc
  obtain ⟨sA, sB⟩ := mulParts_size c fs
  have h40 : 40 ≤ precedence (.mul c fs) := precedence_ge _
  have h50 : precedence (.mul c fs) ≤ 50 := by simp only [precedence]; split <;> omega
  generalize hprec : precedence (.mul c fs) = prec at hA hB h40 h50
  generalize hP : mulParts c fs = P at hA hB hpp sA sB
  have piA : ∀ x ∈ P.a, PhraseInfo x := fun x hx => ih x (sA x hx) (hA x hx).1
  have piB : ∀ x ∈ P.b, PhraseInfo x := fun x hx => ih x (sB x hx) (hB x hx).1
  -- the numerator items after `a = a or [S.One]`, as (tokens, AST) pairs; never empty
  let as' : List (List Tok × PyAst) := if P.a.isEmpty then [([Tok.int 1], .int 1)] else P.a.map (itemPair prec)
  let bs' : List (List Tok × PyAst) := P.b.map (itemPair prec)
  have has' : ∀ p ∈ as', Phrase .factor p.1 p.2 := by
    intro p hp
    simp only [as'] at hp
    split at hp
    · simp only [List.mem_singleton] at hp; subst hp; exact (Phrase.int 1).atomFactor
    · obtain ⟨x, hx, rfl⟩ := List.mem_map.mp hp
      exact item_factor (hA x hx) (piA x hx)
  have hbs' : ∀ p ∈ bs', Phrase .factor p.1 p.2 := by
    intro p hp
    obtain ⟨x, hx, rfl⟩ := List.mem_map.mp hp
    exact item_factor (hB x hx) (piB x hx)
  -- the token list
  have htok : ∀ sign, dropSp (mulAssemble prec sign (P.a.map fun x => (x, pr x)) (P.b.map fun x => (x, pr x)) P.pp) =
      mulJoin sign (as'.map (·.1)) (bs'.map (·.1)) := by
    intro sign
    simp only [mulAssemble, hpp, List.foldl_nil, dropSp_mulJoin, List.map_map, as', bs']
    congr 1
    · by_cases he : P.a.isEmpty = true
      · simp [he, parenthesize_one prec h40 h50, dropSp_cons, isSp]
      · simp [he, itemPair, Function.comp_def, dropSp_parenthesize]
    · simp [itemPair, Function.comp_def, dropSp_parenthesize]
  have hast : ∀ sign, intendedMulAssemble sign (P.a.map intended) (P.b.map intended) =
      intendedMulAssemble sign (as'.map (·.2)) (bs'.map (·.2)) := by
    intro sign
    simp only [as', bs']
    by_cases he : P.a.isEmpty = true
    · have : P.a = [] := by simpa using he
      simp [he, this, intendedMulAssemble_nil, itemPair, Function.comp_def]
    · simp [he, itemPair, Function.comp_def]
  have hne : as' ≠ [] := by
    simp only [as']
    split
    · simp
    · rename_i he; simpa using he
  obtain ⟨x, xs, hxs⟩ : ∃ x xs, as' = x :: xs := by
    cases h : as' with
    | nil => exact absurd h hne
    | cons x xs => exact ⟨x, xs, rfl⟩
  have hx : Phrase .factor x.1 x.2 := has' x (by simp [hxs])
  have hxs' : ∀ p ∈ xs, Phrase .factor p.1 p.2 := fun p hp => has' p (by simp [hxs, hp])
  have hph := fun sign => mulJoin_phrase sign x xs bs' hx hxs' hbs'
  refine ⟨?_, fun _ hs => ?_⟩
  · -- the whole product is a term
    simp only [plvl]
    rw [pr_mul, intended_mul, hprec, hP, htok, hast, hxs]
    exact hph c.isNeg
  · -- a leading '-' comes from the coefficient only
    rw [pr_mul, hprec, hP] at hs ⊢
    rw [intended_mul, hP]
    cases hcn : c.isNeg with
    | true =>
      -- body = the same product without its sign
      refine ⟨mulAssemble prec false (P.a.map fun x => (x, pr x)) (P.b.map fun x => (x, pr x)) P.pp,
        intendedMulAssemble false (as'.map (·.2)) (bs'.map (·.2)), ?_, ?_, ?_⟩
      · simp only [mulAssemble, mulJoin_true]
      · rw [hast, hxs]; exact stripNeg_mulAssemble _ _ _
      · rw [htok, hxs]; exact hph false
    | false =>
      exfalso
      rw [hcn] at hs
      -- the first numerator string does not start with '-'
      simp only [mulAssemble, hpp, List.foldl_nil] at hs
      by_cases he : P.a.isEmpty = true
      · have hPa : P.a = [] := by simpa using he
        simp only [hPa, List.map_nil, List.isEmpty_nil, if_true, List.map_cons, parenthesize_one prec h40 h50] at hs
        rw [startsMinus_mulJoin_false [Tok.int 1] [] _ (by simp) rfl] at hs
        exact absurd hs (by simp)
      · have hne' : P.a ≠ [] := by simpa using he
        obtain ⟨y, ys, hy⟩ : ∃ y ys, P.a = y :: ys := by
          cases h : P.a with
          | nil => exact absurd h hne'
          | cons y ys => exact ⟨y, ys, rfl⟩
        have hyA := hA y (by simp [hy])
        have hfac := item_factor hyA (piA y (by simp [hy]))
        have hnn : parenthesize prec false y (pr y) ≠ [] := by
          apply dropSp_ne_nil
          rw [dropSp_parenthesize]
          have := phrase_length_pos hfac
          intro h0
          simp only [itemPair] at this
          rw [h0] at this
          simp at this
        have := startsMinus_mulJoin_false _ (ys.map fun x => parenthesize prec false x (pr x))
          (List.map (fun x => parenthesize prec false x.1 x.2) (List.map (fun x => (x, pr x)) P.b)) hnn (item_starts hyA)
        simp only [hy, List.map_cons, List.isEmpty_cons, Bool.false_eq_true, if_false, List.map_map, Function.comp_def] at hs
        simp only [List.map_map, Function.comp_def] at this
        rw [this] at hs
        exact absurd hs (by simp)

/-! ### the theorem -/

theorem phraseInfo_of_size : ∀ (n : Nat) (e : SExpr), size e ≤ n → canonical e = true → PhraseInfo e := by
  intro n
  induction n with
  | zero => intro e h; have := size_pos e; omega
  | succ n ih =>
    intro e hs hc
    cases e with
    | num k => exact num_info k hc
    | sym s => exact sym_info s
    | fn f a =>
      exact fn_info f a (ih a (by simp only [size] at hs; omega) (canonical_fn hc))
    | pow b ex =>
      obtain ⟨hb, he⟩ := canonical_pow hc
      simp only [size] at hs
      exact pow_info b ex (ih b (by omega) hb) (ih ex (by omega) he)
    | add ts =>
      obtain ⟨hne, hna, hcan⟩ := canonical_add hc
      simp only [size] at hs
      have hall : ∀ t ∈ ts, PhraseInfo t := fun t ht => ih t (by have := size_mem ht; omega) (hcan t ht)
      match ts, hne with
      | t :: rest, _ =>
        refine ⟨?_, fun h => by simp [isAdd] at h⟩
        simp only [plvl]
        exact add_phrase t rest (hall t (by simp)) (hna t (by simp))
          (fun u hu => (hall u (by simp [hu])).termInfo (hna u (by simp [hu])))
    | mul c fs =>
      exact mul_info c fs hc (fun x hx hcx => ih x (by omega) hcx)

end ESR.Printer
