import Mathlib.Analysis.Calculus.FDeriv.Mul
import Mathlib.Analysis.Calculus.Deriv.Basic
import Mathlib.Analysis.Calculus.Deriv.Pow
import Mathlib.Analysis.Calculus.ContDiff.Deriv
import Mathlib.Analysis.Calculus.LocalExtr.Basic
import Mathlib.Analysis.Calculus.FDeriv.Prod
import Mathlib.Analysis.Calculus.Deriv.Comp
import Mathlib.Analysis.Calculus.ContDiff.Operations
import Mathlib.Analysis.Calculus.ContDiff.Comp
import Mathlib.Analysis.Calculus.InverseFunctionTheorem.ContDiff
import Mathlib.LinearAlgebra.Matrix.ToLin
import Mathlib.LinearAlgebra.Matrix.NonsingularInverse
import Mathlib.LinearAlgebra.Determinant
import Mathlib.Topology.Algebra.Module.FiniteDimension
import Mathlib.Analysis.Normed.Module.FiniteDimension

/-!
# The Hessian of an objective under a reparametrisation (helper lemmas for C05)

`match.py` / `simplifier.convert_params` transfer the fit of a unique function to a variant related by `p = g(θ)` and use
`F' = J⁻ᵀ F J⁻¹` (`J = ∂p/∂θ` at `θ̂`, `F` the Hessian of the negative log-likelihood `L` at its minimum `θ̂`) as the Fisher matrix of
the variant.  This file proves, over ℝ with Mathlib's Fréchet derivative, that `F'` IS the Hessian of the variant's negative
log-likelihood `L' = L ∘ g⁻¹` at `p̂ = g(θ̂)`:

* `second_fderiv_comp` — second-order chain rule `D²(L∘h)(p)[u][v] = D²L(h p)[Dh u][Dh v] + DL(h p)[D²h(p)[u][v]]`;
* `second_fderiv_comp_stationary` — at a stationary point of `L` the second term vanishes;
* `fderiv_of_right_inverse` — `g ∘ h = id` near `p` ⇒ `Dh(p) = Dg(h p)⁻¹`;
* `second_fderiv_variant` — for ANY `L'` with `L'(g x) = L x` near `θ̂` (inverse function theorem: no inverse has to be supplied);
* `hessMat_comp_stationary`, `hessMat_comp_right_inverse`, `hessMat_variant` — the same as identities of `Matrix ι ι ℝ`;
* `monoMap`, `jacMat_monoMap` — the Jacobian of a one-parameter-to-one-parameter map is a scaled permutation matrix;
* `deriv2_variant`, `deriv2_comp` — one variable, with `deriv`.
-/

open Filter Topology Matrix

namespace ESR.HessianTransform

section general
variable {E F G : Type*} [NormedAddCommGroup E] [NormedSpace ℝ E] [NormedAddCommGroup F] [NormedSpace ℝ F]
  [NormedAddCommGroup G] [NormedSpace ℝ G]

/-- near `p` the derivative of `L ∘ h` is the composition of the derivatives (first-order chain rule, as functions of the point) -/
theorem fderiv_comp_eventuallyEq {L : F → G} {h : E → F} {p : E}
    (hL : ∀ᶠ y in 𝓝 (h p), DifferentiableAt ℝ L y) (hh : ∀ᶠ q in 𝓝 p, DifferentiableAt ℝ h q) :
    fderiv ℝ (L ∘ h) =ᶠ[𝓝 p] fun q => (fderiv ℝ L (h q)).comp (fderiv ℝ h q) := by
  have hc : ContinuousAt h p := hh.self_of_nhds.continuousAt
  filter_upwards [hc.eventually hL, hh] with q h1 h2
  exact fderiv_comp q h1 h2

/-- **second-order chain rule**, derivative of `q ↦ D(L∘h)(q)` at `p` -/
theorem hasFDerivAt_fderiv_comp {L : F → G} {h : E → F} {p : E}
    (hL : ∀ᶠ y in 𝓝 (h p), DifferentiableAt ℝ L y) (hL2 : DifferentiableAt ℝ (fderiv ℝ L) (h p))
    (hh : ∀ᶠ q in 𝓝 p, DifferentiableAt ℝ h q) (hh2 : DifferentiableAt ℝ (fderiv ℝ h) p) :
    HasFDerivAt (fderiv ℝ (L ∘ h))
      ((ContinuousLinearMap.compL ℝ E F G (fderiv ℝ L (h p))).comp (fderiv ℝ (fderiv ℝ h) p) +
        ((ContinuousLinearMap.compL ℝ E F G).flip (fderiv ℝ h p)).comp
          ((fderiv ℝ (fderiv ℝ L) (h p)).comp (fderiv ℝ h p))) p := by
  have hc : HasFDerivAt (fun q => fderiv ℝ L (h q)) ((fderiv ℝ (fderiv ℝ L) (h p)).comp (fderiv ℝ h p)) p :=
    hL2.hasFDerivAt.comp p hh.self_of_nhds.hasFDerivAt
  have hd : HasFDerivAt (fderiv ℝ h) (fderiv ℝ (fderiv ℝ h) p) p := hh2.hasFDerivAt
  exact (hc.clm_comp hd).congr_of_eventuallyEq (fderiv_comp_eventuallyEq hL hh)

theorem second_fderiv_comp {L : F → G} {h : E → F} {p : E}
    (hL : ∀ᶠ y in 𝓝 (h p), DifferentiableAt ℝ L y) (hL2 : DifferentiableAt ℝ (fderiv ℝ L) (h p))
    (hh : ∀ᶠ q in 𝓝 p, DifferentiableAt ℝ h q) (hh2 : DifferentiableAt ℝ (fderiv ℝ h) p) (u v : E) :
    fderiv ℝ (fderiv ℝ (L ∘ h)) p u v =
      fderiv ℝ (fderiv ℝ L) (h p) (fderiv ℝ h p u) (fderiv ℝ h p v) + fderiv ℝ L (h p) (fderiv ℝ (fderiv ℝ h) p u v) := by
  rw [(hasFDerivAt_fderiv_comp hL hL2 hh hh2).fderiv]
  simp [add_comm]

/-- what `ContDiffAt ℝ 2` gives: differentiable near the point, and the derivative is differentiable at the point -/
theorem contDiffAt_two_eventually {f : E → F} {x : E} (hf : ContDiffAt ℝ 2 f x) :
    (∀ᶠ y in 𝓝 x, DifferentiableAt ℝ f y) ∧ DifferentiableAt ℝ (fderiv ℝ f) x := by
  constructor
  · filter_upwards [hf.eventually (by simp)] with y hy
    exact hy.differentiableAt (by simp)
  · have : ContDiffAt ℝ 1 (fderiv ℝ f) x := hf.fderiv_right (by norm_num)
    exact this.differentiableAt (by simp)

theorem second_fderiv_comp_contDiffAt {L : F → G} {h : E → F} {p : E}
    (hL : ContDiffAt ℝ 2 L (h p)) (hh : ContDiffAt ℝ 2 h p) (u v : E) :
    fderiv ℝ (fderiv ℝ (L ∘ h)) p u v =
      fderiv ℝ (fderiv ℝ L) (h p) (fderiv ℝ h p u) (fderiv ℝ h p v) + fderiv ℝ L (h p) (fderiv ℝ (fderiv ℝ h) p u v) :=
  second_fderiv_comp (contDiffAt_two_eventually hL).1 (contDiffAt_two_eventually hL).2
    (contDiffAt_two_eventually hh).1 (contDiffAt_two_eventually hh).2 u v

theorem second_fderiv_comp_stationary {L : F → G} {h : E → F} {p : E}
    (hL : ContDiffAt ℝ 2 L (h p)) (hh : ContDiffAt ℝ 2 h p) (hstat : fderiv ℝ L (h p) = 0) (u v : E) :
    fderiv ℝ (fderiv ℝ (L ∘ h)) p u v = fderiv ℝ (fderiv ℝ L) (h p) (fderiv ℝ h p u) (fderiv ℝ h p v) := by
  rw [second_fderiv_comp_contDiffAt hL hh, hstat]; simp

/-- the second derivative at a point depends only on the germ of the function there -/
theorem second_fderiv_congr {f₁ f₂ : E → F} {x : E} (h : f₁ =ᶠ[𝓝 x] f₂) :
    fderiv ℝ (fderiv ℝ f₁) x = fderiv ℝ (fderiv ℝ f₂) x :=
  (h.fderiv (𝕜 := ℝ)).fderiv_eq

/-- chain rule on `g ∘ h = id`: the derivative of a local right inverse is a right inverse of the derivative -/
theorem fderiv_comp_of_right_inverse {g : F → E} {h : E → F} {p : E} {g' : F →L[ℝ] E}
    (hg : HasFDerivAt g g' (h p)) (hh : DifferentiableAt ℝ h p) (hinv : ∀ᶠ q in 𝓝 p, g (h q) = q) :
    g'.comp (fderiv ℝ h p) = ContinuousLinearMap.id ℝ E := by
  have h1 : HasFDerivAt (g ∘ h) (g'.comp (fderiv ℝ h p)) p := hg.comp p hh.hasFDerivAt
  have h2 : HasFDerivAt (g ∘ h) (ContinuousLinearMap.id ℝ E) p :=
    (hasFDerivAt_id p).congr_of_eventuallyEq (hinv.mono fun q hq => hq)
  exact h1.unique h2

/-- … hence, for an invertible `Dg(θ)`, `Dh(p) = Dg(θ)⁻¹` -/
theorem fderiv_of_right_inverse {g : F → E} {h : E → F} {p : E} {g' : F ≃L[ℝ] E}
    (hg : HasFDerivAt g (g' : F →L[ℝ] E) (h p)) (hh : DifferentiableAt ℝ h p) (hinv : ∀ᶠ q in 𝓝 p, g (h q) = q) :
    fderiv ℝ h p = (g'.symm : E →L[ℝ] F) := by
  have := fderiv_comp_of_right_inverse hg hh hinv
  ext u
  have h3 := congrArg (fun A : E →L[ℝ] E => g'.symm (A u)) this
  simpa using h3

end general

section inverse
variable {E : Type*} [NormedAddCommGroup E] [NormedSpace ℝ E] [CompleteSpace E]
variable {F : Type*} [NormedAddCommGroup F] [NormedSpace ℝ F]

/-- The variant's objective `L'` is only known through `L' (g x) = L x` near `θ`.  With `g` twice continuously differentiable at
`θ` with invertible derivative, `L'` coincides near `g θ` with `L ∘ h`, `h` the local inverse of `g`. -/
theorem variant_eq_comp_localInverse {G : Type*} {g : E → F} {θ : E} {g' : E ≃L[ℝ] F} {L : E → G} {L' : F → G}
    (hg : ContDiffAt ℝ 2 g θ) (hg' : HasFDerivAt g (g' : E →L[ℝ] F) θ) (hL' : ∀ᶠ x in 𝓝 θ, L' (g x) = L x) :
    L' =ᶠ[𝓝 (g θ)] L ∘ hg.localInverse hg' (by simp) := by
  have hs : HasStrictFDerivAt g (g' : E →L[ℝ] F) θ := hg.hasStrictFDerivAt' hg' (by simp)
  have ht : Tendsto (hs.localInverse g g' θ) (𝓝 (g θ)) (𝓝 θ) := hs.localInverse_tendsto
  filter_upwards [hs.eventually_right_inverse, ht.eventually hL'] with q h1 h2
  have : L' q = L' (g (hs.localInverse g g' θ q)) := by rw [h1]
  rw [this, h2]; rfl

theorem second_fderiv_variant {g : E → F} {θ : E} {g' : E ≃L[ℝ] F} {L : E → ℝ} {L' : F → ℝ}
    (hg : ContDiffAt ℝ 2 g θ) (hg' : HasFDerivAt g (g' : E →L[ℝ] F) θ)
    (hL : ContDiffAt ℝ 2 L θ) (hstat : fderiv ℝ L θ = 0) (hL' : ∀ᶠ x in 𝓝 θ, L' (g x) = L x) (u v : F) :
    fderiv ℝ (fderiv ℝ L') (g θ) u v = fderiv ℝ (fderiv ℝ L) θ (g'.symm u) (g'.symm v) := by
  have hs : HasStrictFDerivAt g (g' : E →L[ℝ] F) θ := hg.hasStrictFDerivAt' hg' (by simp)
  set h := hg.localInverse hg' (by simp) with hdef
  have hp : h (g θ) = θ := hg.localInverse_apply_image hg' (by simp)
  have hh : ContDiffAt ℝ 2 h (g θ) := hg.to_localInverse hg' (by simp)
  have hDh : fderiv ℝ h (g θ) = (g'.symm : F →L[ℝ] E) := hs.to_localInverse.hasFDerivAt.fderiv
  rw [second_fderiv_congr (variant_eq_comp_localInverse hg hg' hL')]
  have hL0 : ContDiffAt ℝ 2 L (h (g θ)) := by rw [hp]; exact hL
  have hst0 : fderiv ℝ L (h (g θ)) = 0 := by rw [hp]; exact hstat
  rw [second_fderiv_comp_stationary hL0 hh hst0, hp, hDh]
  rfl

end inverse

section coords
variable {ι : Type*} [Fintype ι] [DecidableEq ι]

/-- the Hessian matrix `∂²f/∂xᵢ∂xⱼ (x)` -/
noncomputable def hessMat (f : (ι → ℝ) → ℝ) (x : ι → ℝ) : Matrix ι ι ℝ :=
  Matrix.of fun i j => fderiv ℝ (fderiv ℝ f) x (Pi.single i 1) (Pi.single j 1)

/-- the matrix of a continuous linear map of `ℝ^ι` in the standard basis -/
noncomputable def clmMat (A : (ι → ℝ) →L[ℝ] (ι → ℝ)) : Matrix ι ι ℝ := LinearMap.toMatrix' (A : (ι → ℝ) →ₗ[ℝ] (ι → ℝ))

/-- the Jacobian matrix `∂gᵢ/∂xⱼ (x)` -/
noncomputable def jacMat (g : (ι → ℝ) → (ι → ℝ)) (x : ι → ℝ) : Matrix ι ι ℝ := clmMat (fderiv ℝ g x)

theorem clmMat_apply (A : (ι → ℝ) →L[ℝ] (ι → ℝ)) (i j : ι) : clmMat A i j = A (Pi.single j 1) i := by
  simp only [clmMat, LinearMap.toMatrix'_apply]
  congr 2

theorem jacMat_apply (g : (ι → ℝ) → (ι → ℝ)) (x : ι → ℝ) (i j : ι) : jacMat g x i j = fderiv ℝ g x (Pi.single j 1) i :=
  clmMat_apply _ i j

theorem clmMat_comp (A B : (ι → ℝ) →L[ℝ] (ι → ℝ)) : clmMat (A.comp B) = clmMat A * clmMat B := by
  simp only [clmMat]
  exact LinearMap.toMatrix'_comp _ _

theorem clmMat_id : clmMat (ContinuousLinearMap.id ℝ (ι → ℝ)) = 1 := by
  simp only [clmMat]
  exact LinearMap.toMatrix'_id

theorem vec_eq_sum (u : ι → ℝ) : u = ∑ k, u k • (Pi.single k (1 : ℝ) : ι → ℝ) := by
  ext i
  simp [Finset.sum_apply, Pi.single_apply]

/-- a continuous bilinear form in coordinates -/
theorem bilin_expand (B : (ι → ℝ) →L[ℝ] (ι → ℝ) →L[ℝ] ℝ) (u v : ι → ℝ) :
    B u v = ∑ k, ∑ l, u k * B (Pi.single k 1) (Pi.single l 1) * v l := by
  have h1 : ∀ w : ι → ℝ, B w v = ∑ l, B w (Pi.single l 1) * v l := by
    intro w
    conv_lhs => rw [vec_eq_sum v]
    simp only [map_sum, map_smul, smul_eq_mul]
    exact Finset.sum_congr rfl fun l _ => mul_comm _ _
  have h2 : ∀ w : ι → ℝ, B u w = ∑ k, u k * B (Pi.single k 1) w := by
    intro w
    conv_lhs => rw [vec_eq_sum u]
    simp only [map_sum, map_smul, _root_.sum_apply, _root_.smul_apply, smul_eq_mul]
  rw [h2]
  refine Finset.sum_congr rfl fun k _ => ?_
  rw [h1, Finset.mul_sum]
  exact Finset.sum_congr rfl fun l _ => (mul_assoc _ _ _).symm

/-- congruence of a bilinear form by a linear map, in matrices: `B(A eᵢ, A eⱼ) = (Aᵀ B A)ᵢⱼ` -/
theorem bilin_congr_mat (B : (ι → ℝ) →L[ℝ] (ι → ℝ) →L[ℝ] ℝ) (A : (ι → ℝ) →L[ℝ] (ι → ℝ)) (i j : ι) :
    B (A (Pi.single i 1)) (A (Pi.single j 1)) =
      ((clmMat A)ᵀ * (Matrix.of fun k l => B (Pi.single k 1) (Pi.single l 1)) * clmMat A) i j := by
  rw [bilin_expand]
  simp only [Matrix.mul_apply, Matrix.transpose_apply, Matrix.of_apply, clmMat_apply, Finset.sum_mul]
  rw [Finset.sum_comm]

/-- Hessian of `L ∘ h` at a stationary point of `L`, in matrices: `Hess(L∘h)(p) = Jhᵀ · Hess L(h p) · Jh` -/
theorem hessMat_comp_stationary {L : (ι → ℝ) → ℝ} {h : (ι → ℝ) → (ι → ℝ)} {p : ι → ℝ}
    (hL : ContDiffAt ℝ 2 L (h p)) (hh : ContDiffAt ℝ 2 h p) (hstat : fderiv ℝ L (h p) = 0) :
    hessMat (L ∘ h) p = (jacMat h p)ᵀ * hessMat L (h p) * jacMat h p := by
  ext i j
  rw [hessMat, Matrix.of_apply, second_fderiv_comp_stationary hL hh hstat, bilin_congr_mat]
  rfl

/-- `g ∘ h = id` near `p` ⇒ `Jg(h p) · Jh(p) = 1` ⇒ `Jh(p) = Jg(h p)⁻¹` -/
theorem jacMat_of_right_inverse {g h : (ι → ℝ) → (ι → ℝ)} {p : ι → ℝ}
    (hg : DifferentiableAt ℝ g (h p)) (hh : DifferentiableAt ℝ h p) (hinv : ∀ᶠ q in 𝓝 p, g (h q) = q) :
    jacMat g (h p) * jacMat h p = 1 ∧ jacMat h p = (jacMat g (h p))⁻¹ := by
  have h1 : jacMat g (h p) * jacMat h p = 1 := by
    rw [jacMat, jacMat, ← clmMat_comp, fderiv_comp_of_right_inverse hg.hasFDerivAt hh hinv, clmMat_id]
  exact ⟨h1, (Matrix.inv_eq_right_inv h1).symm⟩

/-- **`Hess(L∘g⁻¹)(p̂) = J⁻ᵀ · Hess L(θ̂) · J⁻¹`** for a given local right inverse `h` of `g` -/
theorem hessMat_comp_right_inverse {L : (ι → ℝ) → ℝ} {g h : (ι → ℝ) → (ι → ℝ)} {p : ι → ℝ}
    (hL : ContDiffAt ℝ 2 L (h p)) (hh : ContDiffAt ℝ 2 h p) (hstat : fderiv ℝ L (h p) = 0)
    (hg : DifferentiableAt ℝ g (h p)) (hinv : ∀ᶠ q in 𝓝 p, g (h q) = q) :
    hessMat (L ∘ h) p = (jacMat g (h p))⁻¹ᵀ * hessMat L (h p) * (jacMat g (h p))⁻¹ := by
  rw [hessMat_comp_stationary hL hh hstat, (jacMat_of_right_inverse hg (hh.differentiableAt (by simp)) hinv).2]

/-- the same without choosing the inverse: `L'` is any function with `L' (g x) = L x` near `θ` -/
theorem hessMat_variant {L L' : (ι → ℝ) → ℝ} {g : (ι → ℝ) → (ι → ℝ)} {θ : ι → ℝ}
    (hg : ContDiffAt ℝ 2 g θ) (hJ : IsUnit (jacMat g θ).det)
    (hL : ContDiffAt ℝ 2 L θ) (hstat : fderiv ℝ L θ = 0) (hL' : ∀ᶠ x in 𝓝 θ, L' (g x) = L x) :
    hessMat L' (g θ) = (jacMat g θ)⁻¹ᵀ * hessMat L θ * (jacMat g θ)⁻¹ := by
  have hdet : (fderiv ℝ g θ).det ≠ 0 := by
    have : (jacMat g θ).det = (fderiv ℝ g θ).det := LinearMap.det_toMatrix' _
    rw [← this]; exact hJ.ne_zero
  set g' := (fderiv ℝ g θ).toContinuousLinearEquivOfDetNeZero hdet with hg'def
  have hcoe : (g' : (ι → ℝ) →L[ℝ] (ι → ℝ)) = fderiv ℝ g θ := ContinuousLinearMap.coe_toContinuousLinearEquivOfDetNeZero _ _
  have hg' : HasFDerivAt g (g' : (ι → ℝ) →L[ℝ] (ι → ℝ)) θ := by
    rw [hcoe]; exact (hg.differentiableAt (by simp)).hasFDerivAt
  have hsymm : clmMat (g'.symm : (ι → ℝ) →L[ℝ] (ι → ℝ)) = (jacMat g θ)⁻¹ := by
    symm
    apply Matrix.inv_eq_right_inv
    rw [jacMat, ← hcoe, ← clmMat_comp]
    have : (g' : (ι → ℝ) →L[ℝ] (ι → ℝ)).comp (g'.symm : (ι → ℝ) →L[ℝ] (ι → ℝ)) = ContinuousLinearMap.id ℝ _ := by
      ext u; simp
    rw [this, clmMat_id]
  ext i j
  rw [hessMat, Matrix.of_apply, second_fderiv_variant hg hg' hL hstat hL']
  have := bilin_congr_mat (fderiv ℝ (fderiv ℝ L) θ) (g'.symm : (ι → ℝ) →L[ℝ] (ι → ℝ)) i j
  rw [hsymm] at this
  exact this

omit [DecidableEq ι] in
/-- a map that sends ONE parameter to ONE parameter: `(g θ)ᵢ = gᵢ(θ_{σ i})` -/
def monoMap (σ : Equiv.Perm ι) (gi : ι → ℝ → ℝ) (θ : ι → ℝ) : ι → ℝ := fun i => gi i (θ (σ i))

omit [DecidableEq ι] in
theorem hasFDerivAt_monoMap (σ : Equiv.Perm ι) (gi : ι → ℝ → ℝ) (θ : ι → ℝ) (d : ι → ℝ)
    (hgi : ∀ i, HasDerivAt (gi i) (d i) (θ (σ i))) :
    HasFDerivAt (monoMap σ gi)
      (ContinuousLinearMap.pi fun i => d i • (ContinuousLinearMap.proj (σ i) : (ι → ℝ) →L[ℝ] ℝ)) θ := by
  rw [hasFDerivAt_pi']
  intro i
  have := HasDerivAt.comp_hasFDerivAt (f := fun x : ι → ℝ => x (σ i)) θ (hgi i) (hasFDerivAt_apply (𝕜 := ℝ) (σ i) θ)
  simpa [Function.comp_def, monoMap] using this

/-- its Jacobian is the scaled permutation matrix of `monomial_fisher_diag` -/
theorem jacMat_monoMap (σ : Equiv.Perm ι) (gi : ι → ℝ → ℝ) (θ : ι → ℝ) (d : ι → ℝ)
    (hgi : ∀ i, HasDerivAt (gi i) (d i) (θ (σ i))) :
    jacMat (monoMap σ gi) θ = Matrix.of fun i j => if j = σ i then d i else 0 := by
  ext i j
  rw [jacMat_apply, (hasFDerivAt_monoMap σ gi θ d hgi).fderiv]
  simp [Pi.single_apply, eq_comm]

omit [DecidableEq ι] in
theorem contDiffAt_monoMap (σ : Equiv.Perm ι) (gi : ι → ℝ → ℝ) (θ : ι → ℝ)
    (hgi : ∀ i, ContDiffAt ℝ 2 (gi i) (θ (σ i))) : ContDiffAt ℝ 2 (monoMap σ gi) θ := by
  rw [contDiffAt_pi]
  intro i
  exact (hgi i).comp θ (contDiffAt_apply ℝ ℝ (σ i) θ)

theorem det_monoMap_isUnit (σ : Equiv.Perm ι) (d : ι → ℝ) (hd : ∀ i, d i ≠ 0) :
    IsUnit (Matrix.of fun i j => if j = σ i then d i else (0 : ℝ)).det := by
  let K : Matrix ι ι ℝ := Matrix.of fun j i => if j = σ i then (d i)⁻¹ else 0
  have hJK : (Matrix.of fun i j => if j = σ i then d i else (0 : ℝ)) * K = 1 := by
    ext a b
    simp only [K, Matrix.mul_apply, Matrix.of_apply, Matrix.one_apply]
    simp only [ite_mul, zero_mul, Finset.sum_ite_eq', Finset.mem_univ, if_true]
    by_cases hab : a = b
    · subst hab; simp [hd a]
    · have : ¬ σ a = σ b := fun h => hab (σ.injective h)
      simp [hab, this]
  exact (Matrix.isUnit_iff_isUnit_det _).mp (IsUnit.of_mul_eq_one _ hJK)

end coords
section onedim

/-- in one variable the second Fréchet derivative along (1, 1) is the second derivative -/
theorem fderiv_fderiv_one_one {f : ℝ → ℝ} {x : ℝ} (hf : DifferentiableAt ℝ (fderiv ℝ f) x) :
    fderiv ℝ (fderiv ℝ f) x 1 1 = deriv (deriv f) x := by
  have h1 : deriv f = fun q => fderiv ℝ f q 1 := rfl
  rw [h1, ← fderiv_apply_one_eq_deriv, fderiv_clm_apply hf (differentiableAt_const 1)]
  simp

theorem fderiv_eq_zero_of_deriv {f : ℝ → ℝ} {x : ℝ} (h : deriv f x = 0) : fderiv ℝ f x = 0 := by
  ext; rw [fderiv_apply_one_eq_deriv, h]; rfl

/-- the invertible linear map `t ↦ t·d` of ℝ (`d ≠ 0`) -/
noncomputable def mulEquiv (d : ℝ) (hd : d ≠ 0) : ℝ ≃L[ℝ] ℝ := ContinuousLinearEquiv.unitsEquivAut ℝ (Units.mk0 d hd)

theorem mulEquiv_coe (d : ℝ) (hd : d ≠ 0) :
    (mulEquiv d hd : ℝ →L[ℝ] ℝ) = ContinuousLinearMap.smulRight (1 : ℝ →L[ℝ] ℝ) d := by
  ext; simp [mulEquiv]

theorem mulEquiv_symm_one (d : ℝ) (hd : d ≠ 0) : (mulEquiv d hd).symm 1 = d⁻¹ := by
  rw [ContinuousLinearEquiv.symm_apply_eq]
  simp [mulEquiv, hd]

/-- **one parameter**: `L'' ` of the variant at `p̂ = g(θ̂)` is `L''(θ̂) / g'(θ̂)²` -/
theorem deriv2_variant {g L L' : ℝ → ℝ} {θ d : ℝ} (hg : ContDiffAt ℝ 2 g θ) (hd : HasDerivAt g d θ) (hd0 : d ≠ 0)
    (hL : ContDiffAt ℝ 2 L θ) (hstat : deriv L θ = 0) (hL' : ∀ᶠ x in 𝓝 θ, L' (g x) = L x) :
    deriv (deriv L') (g θ) = deriv (deriv L) θ / d ^ 2 := by
  have hg' : HasFDerivAt g (mulEquiv d hd0 : ℝ →L[ℝ] ℝ) θ := by rw [mulEquiv_coe]; exact hd
  have hmain := second_fderiv_variant hg hg' hL (fderiv_eq_zero_of_deriv hstat) hL' 1 1
  -- L' is twice differentiable at g θ because it is L ∘ g⁻¹ there
  have hL'2 : DifferentiableAt ℝ (fderiv ℝ L') (g θ) := by
    have he := variant_eq_comp_localInverse hg hg' hL'
    have hc : ContDiffAt ℝ 2 (L ∘ hg.localInverse hg' (by simp)) (g θ) := by
      refine ContDiffAt.comp (g θ) ?_ (hg.to_localInverse hg' (by simp))
      rw [hg.localInverse_apply_image hg' (by simp)]; exact hL
    exact (contDiffAt_two_eventually (hc.congr_of_eventuallyEq he)).2
  rw [fderiv_fderiv_one_one hL'2, mulEquiv_symm_one] at hmain
  rw [hmain]
  have h1 : (d⁻¹ : ℝ) = d⁻¹ • (1 : ℝ) := by simp
  rw [h1, map_smul, map_smul, _root_.smul_apply, fderiv_fderiv_one_one (contDiffAt_two_eventually hL).2]
  simp only [smul_eq_mul]
  field_simp

/-- general (non-stationary) second-order chain rule in one variable -/
theorem deriv2_comp {L h : ℝ → ℝ} {p : ℝ} (hL : ContDiffAt ℝ 2 L (h p)) (hh : ContDiffAt ℝ 2 h p) :
    deriv (deriv (L ∘ h)) p = deriv (deriv L) (h p) * (deriv h p) ^ 2 + deriv L (h p) * deriv (deriv h) p := by
  have hc : ContDiffAt ℝ 2 (L ∘ h) p := hL.comp p hh
  rw [← fderiv_fderiv_one_one (contDiffAt_two_eventually hc).2, second_fderiv_comp_contDiffAt hL hh,
    fderiv_fderiv_one_one (contDiffAt_two_eventually hh).2, fderiv_apply_one_eq_deriv]
  have h1 : deriv h p = deriv h p • (1 : ℝ) := by simp
  have h2 : deriv (deriv h) p = deriv (deriv h) p • (1 : ℝ) := by simp
  rw [h1, h2, map_smul, map_smul, map_smul, _root_.smul_apply, fderiv_fderiv_one_one (contDiffAt_two_eventually hL).2,
    fderiv_apply_one_eq_deriv]
  simp only [smul_eq_mul, mul_one]
  ring

end onedim

section quad
/-! concrete objectives for the non-vacuity examples of `Props/C05b.lean` -/

/-- a one-parameter Gaussian-type objective `a·(t − c)²` (curvature `2a`, minimum at `c`) -/
def quadL (a c : ℝ) : ℝ → ℝ := fun t => a * (t - c) ^ 2

theorem quadL_contDiff (a c : ℝ) : ContDiff ℝ 2 (quadL a c) := by
  unfold quadL; fun_prop

theorem quadL_deriv (a c : ℝ) : deriv (quadL a c) = fun t => 2 * a * (t - c) := by
  funext t
  have h : HasDerivAt (quadL a c) (a * (2 * (t - c) ^ 1 * 1)) t :=
    (((hasDerivAt_id t).sub_const c).pow 2).const_mul a
  rw [h.deriv]; ring

theorem quadL_deriv2 (a c x : ℝ) : deriv (deriv (quadL a c)) x = 2 * a := by
  rw [quadL_deriv]
  have h : HasDerivAt (fun t => 2 * a * (t - c)) (2 * a * 1) x := ((hasDerivAt_id x).sub_const c).const_mul (2 * a)
  rw [h.deriv]; ring

theorem quadL_stationary (a c : ℝ) : deriv (quadL a c) c = 0 := by
  rw [quadL_deriv]; simp

theorem sq_deriv2_at_one : deriv (deriv (fun t : ℝ => t ^ 2)) 1 = 2 := by
  have e : (fun t : ℝ => t ^ 2) = quadL 1 0 := by funext t; simp [quadL]
  rw [e, quadL_deriv2]; ring

end quad

end ESR.HessianTransform
