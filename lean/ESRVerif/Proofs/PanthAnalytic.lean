import ESRVerif.Proofs.PanthQuad
import Mathlib.MeasureTheory.Integral.IntervalIntegral.FundThmCalculus
import Mathlib.Analysis.SpecialFunctions.Log.Deriv
import Mathlib.Analysis.SpecialFunctions.Sqrt
/-!
Helper lemmas for C19c (the analytic branch of `PanthLikelihood.get_pred`): the fundamental theorem of calculus in the
form the branch uses (`P z − P 1` for an antiderivative `P` on `[1, b]`), positivity of the integral of a positive
integrand, and the two antiderivatives of `1/√((a x)²)` that the seeded change C19c confuses.
-/
namespace ESR.C19
open Set

/-- FTC-2 on `[1, b]`: if `P' = G` at every point of `[1, b]` and `G` is continuous there, `P z − P 1 = ∫₁^z G`. -/
theorem antideriv_sub_eq_integral {G P : ℝ → ℝ} {b z : ℝ} (hz : z ∈ Icc (1 : ℝ) b)
    (hP : ∀ x ∈ Icc (1 : ℝ) b, HasDerivAt P (G x) x) (hG : ContinuousOn G (Icc 1 b)) :
    P z - P 1 = ∫ t in (1 : ℝ)..z, G t := by
  have hsub : uIcc (1 : ℝ) z ⊆ Icc 1 b := by
    rw [uIcc_of_le hz.1]
    exact Icc_subset_Icc le_rfl hz.2
  exact (intervalIntegral.integral_eq_sub_of_hasDerivAt (fun x hx => hP x (hsub hx))
    ((hG.mono hsub).intervalIntegrable)).symm

/-- A continuous positive integrand has a positive integral over `[1, z]`, `z > 1`. -/
theorem integral_pos_of_pos {G : ℝ → ℝ} {b z : ℝ} (hz : z ∈ Icc (1 : ℝ) b) (hz1 : 1 < z)
    (hG : ContinuousOn G (Icc 1 b)) (hpos : ∀ t ∈ Icc (1 : ℝ) b, 0 < G t) : 0 < ∫ t in (1 : ℝ)..z, G t := by
  have hsub : uIcc (1 : ℝ) z ⊆ Icc 1 b := by
    rw [uIcc_of_le hz.1]
    exact Icc_subset_Icc le_rfl hz.2
  apply intervalIntegral.intervalIntegral_pos_of_pos_on ((hG.mono hsub).intervalIntegrable) _ hz1
  intro x hx
  exact hpos x ⟨hx.1.le, hx.2.le.trans hz.2⟩

/-- `√((a x)²) = |a| x` for `x > 0`. -/
theorem sqrt_sq_mul (a x : ℝ) (hx : 0 < x) : Real.sqrt ((a * x) ^ 2) = |a| * x := by
  rw [Real.sqrt_sq_eq_abs, abs_mul, abs_of_pos hx]

/-- The antiderivative sympy returns for `H² = (a x)²` on the unchanged tree, `log x / |a|`
(printed as `Piecewise((log(x)/a0, a0 >= 0), (-log(x)/a0, True))`): its derivative is `1/√((a x)²)` for EITHER sign of `a`. -/
theorem log_div_abs_hasDerivAt (a x : ℝ) (ha : a ≠ 0) (hx : 0 < x) :
    HasDerivAt (fun x => Real.log x / |a|) (1 / Real.sqrt ((a * x) ^ 2)) x := by
  have h := (Real.hasDerivAt_log hx.ne').div_const |a|
  have e : x⁻¹ / |a| = 1 / Real.sqrt ((a * x) ^ 2) := by
    rw [sqrt_sq_mul a x hx]
    have : |a| ≠ 0 := abs_ne_zero.mpr ha
    field_simp
  rw [e] at h
  exact h

/-- The antiderivative the posified integration returns for `H² = (a x)²`, `log x / a`: for `a < 0` its derivative is
MINUS the integrand. -/
theorem log_div_hasDerivAt_neg (a x : ℝ) (ha : a < 0) (hx : 0 < x) :
    HasDerivAt (fun x => Real.log x / a) (-(1 / Real.sqrt ((a * x) ^ 2))) x := by
  have h := (Real.hasDerivAt_log hx.ne').div_const a
  have e : x⁻¹ / a = -(1 / Real.sqrt ((a * x) ^ 2)) := by
    rw [sqrt_sq_mul a x hx, abs_of_neg ha]
    have : a ≠ 0 := ha.ne
    field_simp
  rw [e] at h
  exact h

/-- `x ↦ 1/√((a x)²)` is continuous on `[1, b]` for `a ≠ 0`. -/
theorem inv_sqrt_sq_continuousOn (a b : ℝ) (ha : a ≠ 0) :
    ContinuousOn (fun t : ℝ => 1 / Real.sqrt ((a * t) ^ 2)) (Icc 1 b) := by
  have hc : ContinuousOn (fun t : ℝ => 1 / (|a| * t)) (Icc 1 b) := by
    apply ContinuousOn.div continuousOn_const (continuousOn_const.mul continuousOn_id)
    intro t ht
    have : 0 < |a| * t := mul_pos (abs_pos.mpr ha) (by linarith [ht.1])
    exact this.ne'
  refine hc.congr ?_
  intro t ht
  simp only
  rw [sqrt_sq_mul a t (by linarith [ht.1])]

end ESR.C19
