import ESRVerif.Model.ToListSelect
/-!
Helper lemmas for the selection theorems of C18 (`Props/C18b.lean`): `np.nanargmin` returns the first minimal non-NaN
entry; what a non-NaN entry of `c` (before / after the `check_ops` masking) says about the variant at that index.
Core Lean only.
-/
namespace ESR.ToList
open ESR.Gen.ToList
open ESR.Labeling (Basis)

/-! ### nanargmin -/

theorem argminPair_none (c : List (Option Nat)) : argminPair c = none ↔ ∀ x ∈ c, x = none := by
  induction c with
  | nil => simp [argminPair]
  | cons x xs ih =>
    cases x with
    | none => simp [argminPair, ih]
    | some v =>
      cases h : argminPair xs with
      | none => simp [argminPair, h]
      | some jw =>
        by_cases hv : v ≤ jw.2 <;> simp [argminPair, h, hv]

theorem argminPair_spec (c : List (Option Nat)) : ∀ (i v : Nat), argminPair c = some (i, v) →
    c[i]? = some (some v) ∧ (∀ (j w : Nat), c[j]? = some (some w) → v ≤ w) ∧ (∀ (j w : Nat), j < i → c[j]? = some (some w) → v < w) := by
  induction c with
  | nil => intro i v h; simp [argminPair] at h
  | cons x xs ih =>
    intro i v h
    cases x with
    | none =>
      cases hx : argminPair xs with
      | none => simp [argminPair, hx] at h
      | some jw =>
        obtain ⟨j', w'⟩ := jw
        simp [argminPair, hx] at h
        obtain ⟨hi, hv⟩ := h
        subst hi; subst hv
        obtain ⟨h1, h2, h3⟩ := ih j' w' hx
        refine ⟨by simpa using h1, ?_, ?_⟩
        · intro j w hj
          cases j with
          | zero => simp at hj
          | succ j => exact h2 j w (by simpa using hj)
        · intro j w hlt hj
          cases j with
          | zero => simp at hj
          | succ j => exact h3 j w (by omega) (by simpa using hj)
    | some u =>
      cases hx : argminPair xs with
      | none =>
        simp [argminPair, hx] at h
        obtain ⟨hi, hv⟩ := h
        subst hi; subst hv
        refine ⟨by simp, ?_, ?_⟩
        · intro j w hj
          cases j with
          | zero => simp at hj; omega
          | succ j =>
            have hall := (argminPair_none xs).mp hx
            have hm : some w ∈ xs := List.mem_of_getElem? (by simpa using hj)
            have := hall _ hm
            simp at this
        · intro j w hlt; omega
      | some jw =>
        obtain ⟨j', w'⟩ := jw
        obtain ⟨h1, h2, h3⟩ := ih j' w' hx
        by_cases hle : u ≤ w'
        · simp [argminPair, hx, hle] at h
          obtain ⟨hi, hv⟩ := h
          subst hi; subst hv
          refine ⟨by simp, ?_, ?_⟩
          · intro j w hj
            cases j with
            | zero => simp at hj; omega
            | succ j =>
              have := h2 j w (by simpa using hj)
              omega
          · intro j w hlt; omega
        · simp [argminPair, hx, hle] at h
          obtain ⟨hi, hv⟩ := h
          subst hi; subst hv
          refine ⟨by simpa using h1, ?_, ?_⟩
          · intro j w hj
            cases j with
            | zero => simp at hj; omega
            | succ j => exact h2 j w (by simpa using hj)
          · intro j w hlt hj
            cases j with
            | zero => simp at hj; omega
            | succ j => exact h3 j w (by omega) (by simpa using hj)

theorem nanargmin_none (c : List (Option Nat)) : nanargmin c = none ↔ ∀ x ∈ c, x = none := by
  simp [nanargmin, argminPair_none]

/-- `np.nanargmin`: the entry at the returned index is a number, no entry is smaller, every earlier one is larger. -/
theorem nanargmin_spec (c : List (Option Nat)) (i : Nat) (h : nanargmin c = some i) :
    ∃ v, c[i]? = some (some v) ∧ (∀ (j w : Nat), c[j]? = some (some w) → v ≤ w) ∧ (∀ (j w : Nat), j < i → c[j]? = some (some w) → v < w) := by
  unfold nanargmin at h
  cases hp : argminPair c with
  | none => simp [hp] at h
  | some iv =>
    obtain ⟨i', v⟩ := iv
    simp [hp] at h
    subst h
    exact ⟨v, argminPair_spec c i' v hp⟩

/-! ### entries of `c` and `all_in_basis` -/

variable (B : Basis) (ae ck : Bool) (es : List (Option SymExpr))

theorem rawCounts_get (j : Nat) (x : Option Nat) (h : (rawCounts B ae es)[j]? = some x) :
    ∃ v oe, variants[j]? = some v ∧ es[j]? = some oe ∧ x = variantCount B ae v oe := by
  unfold rawCounts at h
  rw [List.getElem?_map] at h
  cases hz : (variants.zip es)[j]? with
  | none => simp [hz] at h
  | some ve =>
    obtain ⟨v, oe⟩ := ve
    simp [hz] at h
    have := List.getElem?_zip_eq_some.mp hz
    exact ⟨v, oe, this.1, this.2, h.symm⟩

theorem allInBasis_get (j : Nat) (b : Bool) (h : (allInBasis B ae ck es)[j]? = some b) :
    ∃ v oe, variants[j]? = some v ∧ es[j]? = some oe ∧ b = variantInBasis B ae ck v oe := by
  unfold allInBasis at h
  rw [List.getElem?_map] at h
  cases hz : (variants.zip es)[j]? with
  | none => simp [hz] at h
  | some ve =>
    obtain ⟨v, oe⟩ := ve
    simp [hz] at h
    have := List.getElem?_zip_eq_some.mp hz
    exact ⟨v, oe, this.1, this.2, h.symm⟩

theorem allInBasis_length : (allInBasis B ae ck es).length = (rawCounts B ae es).length := by
  simp [allInBasis, rawCounts]

/-- a counted variant ran, its tree exists, and its node count is the count -/
theorem variantCount_some {v : Variant} {oe : Option SymExpr} {n : Nat} (h : variantCount B ae v oe = some n) :
    variantRuns ae v = true ∧ ∃ e, oe = some e ∧ countNodes B (build B none e) = some n := by
  unfold variantCount at h
  by_cases hr : variantRuns ae v = true
  · simp [hr] at h
    cases oe with
    | none => simp at h
    | some e => exact ⟨hr, e, rfl, by simpa using h⟩
  · simp [hr] at h

/-- an in-basis variant ran under `check_ops`, converted, and every label passed -/
theorem variantInBasis_true {v : Variant} {oe : Option SymExpr} (h : variantInBasis B ae ck v oe = true) :
    ck = true ∧ variantRuns ae v = true ∧ ∃ e ls, oe = some e ∧ toList B (build B none e) = some ls ∧
      checkOperators B ls = true ∧ variantCount B ae v oe = some ls.length := by
  unfold variantInBasis at h
  simp only [Bool.and_eq_true] at h
  obtain ⟨⟨hck, hr⟩, hm⟩ := h
  cases oe with
  | none => simp at hm
  | some e =>
    cases ht : toList B (build B none e) with
    | none => simp [ht] at hm
    | some ls =>
      simp [ht] at hm
      exact ⟨hck, hr, e, ls, rfl, ht, hm, by simp [variantCount, hr, countNodes, ht]⟩

/-- without `check_ops` nothing is masked -/
theorem maskedCounts_nocheck : maskedCounts B ae false es = rawCounts B ae es := by
  simp [maskedCounts]

/-- with no in-basis variant nothing is masked -/
theorem maskedCounts_none_inBasis (h : (allInBasis B ae ck es).any id = false) :
    maskedCounts B ae ck es = rawCounts B ae es := by
  simp [maskedCounts, h]

/-- a non-NaN entry after the masking is the entry before it; if the masking ran the variant is in-basis -/
theorem maskedCounts_get (j w : Nat) (h : (maskedCounts B ae ck es)[j]? = some (some w)) :
    (rawCounts B ae es)[j]? = some (some w) ∧
      ((ck && (allInBasis B ae ck es).any id) = true → (allInBasis B ae ck es)[j]? = some true) := by
  unfold maskedCounts at h
  by_cases hm : (ck && (allInBasis B ae ck es).any id) = true
  · rw [if_pos hm, List.getElem?_map] at h
    cases hz : ((rawCounts B ae es).zip (allInBasis B ae ck es))[j]? with
    | none => simp [hz] at h
    | some cb =>
      obtain ⟨c, b⟩ := cb
      have hz' := List.getElem?_zip_eq_some.mp hz
      simp [hz, maskOne] at h
      obtain ⟨hb, hc⟩ := h
      subst hb; subst hc
      exact ⟨hz'.1, fun _ => hz'.2⟩
  · rw [if_neg hm] at h
    exact ⟨h, fun h' => absurd h' hm⟩

/-- an in-basis entry survives the masking -/
theorem maskedCounts_keep (j w : Nat) (hm : (ck && (allInBasis B ae ck es).any id) = true)
    (hb : (allInBasis B ae ck es)[j]? = some true) (hc : (rawCounts B ae es)[j]? = some (some w)) :
    (maskedCounts B ae ck es)[j]? = some (some w) := by
  unfold maskedCounts
  rw [if_pos hm, List.getElem?_map]
  have : ((rawCounts B ae es).zip (allInBasis B ae ck es))[j]? = some (some w, true) :=
    List.getElem?_zip_eq_some.mpr ⟨hc, hb⟩
  simp [this, maskOne]

/-- the index of an in-basis variant carries a count -/
theorem inBasis_has_count (j : Nat) (hb : (allInBasis B ae ck es)[j]? = some true) :
    ∃ w, (rawCounts B ae es)[j]? = some (some w) := by
  obtain ⟨v, oe, hv, he, hbv⟩ := allInBasis_get B ae ck es j true hb
  obtain ⟨-, -, e, ls, -, -, -, hcnt⟩ := variantInBasis_true B ae ck hbv.symm
  refine ⟨ls.length, ?_⟩
  unfold rawCounts
  rw [List.getElem?_map]
  have : (variants.zip es)[j]? = some (v, oe) := List.getElem?_zip_eq_some.mpr ⟨hv, he⟩
  simp [this, hcnt]

/-- what `select` returns: the pair found by `nanargmin` on the masked counts, the tree at that index and its node -/
theorem select_some (r : Selected) (h : select B ae ck es = some r) :
    argminPair (maskedCounts B ae ck es) = some (r.idx, r.complexity) ∧ es[r.idx]? = some (some r.expr) ∧
      r.node = build B none r.expr := by
  unfold select at h
  cases hp : argminPair (maskedCounts B ae ck es) with
  | none => simp [hp] at h
  | some iv =>
    obtain ⟨i, n⟩ := iv
    simp only [hp] at h
    cases he : es[i]? with
    | none => simp [he] at h
    | some oe =>
      cases oe with
      | none => simp [he] at h
      | some e =>
        simp [he] at h
        subst h
        exact ⟨rfl, he, rfl⟩

/-- the `match` of `select` never falls through: a non-NaN entry belongs to a variant whose tree exists -/
theorem select_of_argmin (i n : Nat) (hp : argminPair (maskedCounts B ae ck es) = some (i, n)) :
    ∃ e, es[i]? = some (some e) ∧ select B ae ck es = some ⟨i, e, build B none e, n⟩ := by
  obtain ⟨h1, -, -⟩ := argminPair_spec _ i n hp
  obtain ⟨hraw, -⟩ := maskedCounts_get B ae ck es i n h1
  obtain ⟨v, oe, -, he, hx⟩ := rawCounts_get B ae es i (some n) hraw
  obtain ⟨-, e, hoe, -⟩ := variantCount_some B ae hx.symm
  subst hoe
  exact ⟨e, he, by simp [select, hp, he]⟩

end ESR.ToList
