import ESRVerif.Model.SPMD
/-! Determinism and deadlock-freedom of collective-only SPMD programs. -/
namespace ESR.SPMD

variable {P : Nat} {σ : Type}

theorem run_append (as bs : List (Act P σ)) (s : Fin P → σ) : run (as ++ bs) s = run bs (run as s) := by
  induction as generalizing s with
  | nil => rfl
  | cons a as ih => cases a <;> simp [run, ih]

theorem take_succ_of_getElem? (prog : List (Act P σ)) (k : Nat) (a : Act P σ) (h : prog[k]? = some a) :
    prog.take (k + 1) = prog.take k ++ [a] := by
  rw [List.take_add_one, h]; rfl

/-- The invariant: every rank's state is the lock-step state at its own program counter, and nobody
has passed a collective that somebody else has not reached. -/
structure Inv (prog : List (Act P σ)) (s0 : Fin P → σ) (c : Config P σ) : Prop where
  st_eq : ∀ r, c.st r = run (prog.take (c.pc r)) s0 r
  le_len : ∀ r, c.pc r ≤ prog.length
  no_cross : ∀ r r' k, c.pc r ≤ k → k < c.pc r' → ∃ f, prog[k]? = some (.loc f)

theorem inv_init (prog : List (Act P σ)) (s0 : Fin P → σ) : Inv prog s0 ⟨fun _ => 0, s0⟩ :=
  ⟨fun _ => by simp [run], fun _ => Nat.zero_le _, fun _ _ k h1 h2 => by simp at h2⟩

theorem inv_step (prog : List (Act P σ)) (s0 : Fin P → σ) (c c' : Config P σ)
    (hi : Inv prog s0 c) (hs : Step prog c c') : Inv prog s0 c' := by
  cases hs with
  | loc r f h =>
    have hlt : c.pc r < prog.length := by
      have := List.getElem?_eq_some_iff.mp h; exact this.1
    refine ⟨?_, ?_, ?_⟩
    · intro q
      by_cases hq : q = r
      · subst hq
        simp only [upd, if_true]
        rw [take_succ_of_getElem? prog _ _ h, run_append]
        simp only [run]
        rw [hi.st_eq q]
      · simp only [upd, hq, if_false]; exact hi.st_eq q
    · intro q
      by_cases hq : q = r
      · subst hq; simp only [upd, if_true]; omega
      · simp only [upd, hq, if_false]; exact hi.le_len q
    · intro q q' k h1 h2
      by_cases hq' : q' = r
      · subst hq'
        simp only [upd, if_true] at h2
        by_cases hk : k = c.pc q'
        · subst hk; exact ⟨f, h⟩
        · have h2' : k < c.pc q' := by omega
          by_cases hq : q = q'
          · subst hq; simp only [upd, if_true] at h1; omega
          · simp only [upd, hq, if_false] at h1; exact hi.no_cross q q' k h1 h2'
      · simp only [upd, hq', if_false] at h2
        by_cases hq : q = r
        · subst hq
          simp only [upd, if_true] at h1
          exact hi.no_cross q q' k (by omega) h2
        · simp only [upd, hq, if_false] at h1; exact hi.no_cross q q' k h1 h2
  | coll k g hall h =>
    have hlt : k < prog.length := (List.getElem?_eq_some_iff.mp h).1
    refine ⟨?_, fun _ => by simp; omega, ?_⟩
    · intro q
      simp only
      rw [take_succ_of_getElem? prog _ _ h, run_append]
      simp only [run]
      have : c.st = run (prog.take k) s0 := by
        funext r; rw [hi.st_eq r, hall r]
      rw [this]
    · intro q q' k' h1 h2
      simp only at h1 h2; omega

theorem inv_reach (prog : List (Act P σ)) (s0 : Fin P → σ) (c : Config P σ) (h : Reach prog s0 c) :
    Inv prog s0 c := by
  induction h with
  | init => exact inv_init prog s0
  | step c c' _ hs ih => exact inv_step prog s0 c c' ih hs

end ESR.SPMD
