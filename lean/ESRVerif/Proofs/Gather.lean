import ESRVerif.Model.Gather
import ESRVerif.Props.C14
/-! Helper lemmas for `Props/C13b.lean` (core Lean only). -/
namespace ESR.Gather
open ESR.Partition

/-! ### generic list facts -/

theorem allSome_map_some {α β} (l : List α) (f : α → Option β) (g : α → β) (h : ∀ x ∈ l, f x = some (g x)) :
    allSome (l.map f) = some (l.map g) := by
  induction l with
  | nil => rfl
  | cons a t ih =>
    have ha := h a (by simp)
    have ht := ih (fun x hx => h x (by simp [hx]))
    simp [allSome, ha, ht]

/-- relational form: the comprehension succeeds iff every element does, and then it lists exactly the results -/
theorem allSome_map_mem {α β} (l : List α) (f : α → Option β) (h : ∀ x ∈ l, ∃ y, f x = some y) :
    ∃ ys, allSome (l.map f) = some ys ∧ ∀ y, y ∈ ys ↔ ∃ x ∈ l, f x = some y := by
  induction l with
  | nil => exact ⟨[], rfl, by simp⟩
  | cons a t ih =>
    obtain ⟨ya, hya⟩ := h a (by simp)
    obtain ⟨ys, hys, hmem⟩ := ih (fun x hx => h x (by simp [hx]))
    refine ⟨ya :: ys, by simp [allSome, hya, hys], ?_⟩
    intro y
    simp only [List.mem_cons, hmem]
    constructor
    · rintro (rfl | ⟨x, hx, hfx⟩)
      · exact ⟨a, Or.inl rfl, hya⟩
      · exact ⟨x, Or.inr hx, hfx⟩
    · rintro ⟨x, (rfl | hx), hfx⟩
      · left; rw [hya] at hfx; exact (Option.some.inj hfx).symm
      · right; exact ⟨x, hx, hfx⟩

/-- Sequential writes whose value is determined by the target index: afterwards a position holds the new value iff it
was a target. -/
theorem setMany_spec {α} (new : List α) (ups : List (Nat × α)) (xs : List α)
    (h : ∀ u ∈ ups, u.1 < xs.length ∧ new[u.1]? = some u.2) :
    ∃ ys, setMany xs ups = some ys ∧ ys.length = xs.length ∧
      ∀ g, ys[g]? = if g ∈ ups.map (·.1) then new[g]? else xs[g]? := by
  induction ups generalizing xs with
  | nil => exact ⟨xs, rfl, rfl, by simp⟩
  | cons u rest ih =>
    obtain ⟨i, v⟩ := u
    have hu := h (i, v) (by simp)
    simp only at hu
    have hrest : ∀ w ∈ rest, w.1 < (xs.set i v).length ∧ new[w.1]? = some w.2 := by
      intro w hw
      have := h w (by simp [hw])
      simpa [List.length_set] using this
    obtain ⟨ys, hys, hlen, hget⟩ := ih (xs.set i v) hrest
    refine ⟨ys, by simp [setMany, hu.1, hys], by simpa [List.length_set] using hlen, ?_⟩
    intro g
    rw [hget g]
    by_cases hg : g ∈ rest.map (·.1)
    · have : g ∈ ((i, v) :: rest).map (·.1) := by simp only [List.map_cons, List.mem_cons]; exact Or.inr hg
      simp [hg]
    · by_cases hi : i = g
      · subst hi
        have : i ∈ ((i, v) :: rest).map (·.1) := by simp
        rw [if_neg hg, if_pos this, List.getElem?_set]
        simp [hu.1, hu.2]
      · have : g ∉ ((i, v) :: rest).map (·.1) := by
          simp only [List.map_cons, List.mem_cons, not_or]
          exact ⟨fun h => hi h.symm, hg⟩
        rw [if_neg hg, if_neg this, List.getElem?_set]
        simp [hi]

/-- indexing a concatenation of blocks: block `r`, position `c` -/
theorem getElem?_flatten_block {α} (L : List (List α)) (r : Nat) (hr : r < L.length) (c : Nat) (hc : c < L[r].length) :
    L.flatten[((L.take r).flatten).length + c]? = L[r][c]? := by
  induction L generalizing r with
  | nil => simp at hr
  | cons l L ih =>
    cases r with
    | zero =>
      simp only [List.take_zero, List.flatten_nil, List.length_nil, Nat.zero_add, List.flatten_cons,
        List.getElem_cons_zero] at hc ⊢
      exact List.getElem?_append_left hc
    | succ r =>
      have hr' : r < L.length := by simpa using hr
      have hc' : c < L[r].length := by simpa using hc
      simp only [List.take_succ_cons, List.flatten_cons, List.length_append, List.getElem_cons_succ]
      rw [List.getElem?_append_right (by omega)]
      have : l.length + (List.take r L).flatten.length + c - l.length = (List.take r L).flatten.length + c := by omega
      rw [this]
      exact ih r hr' hc'

/-! ### cut points -/

theorem mono_le (b : Nat → Nat) (hmono : ∀ r, b r ≤ b (r + 1)) (r s : Nat) (h : r ≤ s) : b r ≤ b s := by
  induction s with
  | zero => have : r = 0 := by omega
            subst this; exact Nat.le_refl _
  | succ s ih =>
    by_cases hs : r = s + 1
    · subst hs; exact Nat.le_refl _
    · exact Nat.le_trans (ih (by omega)) (hmono s)

theorem exists_block (b : Nat → Nat) (P : Nat) (h0 : b 0 = 0) (g : Nat) (hg : g < b P) :
    ∃ r, r < P ∧ b r ≤ g ∧ g < b (r + 1) := by
  induction P with
  | zero => omega
  | succ P ih =>
    by_cases h : g < b P
    · obtain ⟨r, hr, h1, h2⟩ := ih h
      exact ⟨r, by omega, h1, h2⟩
    · exact ⟨P, by omega, by omega, hg⟩

theorem sum_telescope (b : Nat → Nat) (hmono : ∀ r, b r ≤ b (r + 1)) (r : Nat) :
    ((List.range r).map (fun q => b (q + 1) - b q)).sum = b r - b 0 := by
  induction r with
  | zero => simp
  | succ r ih =>
    rw [List.range_succ, List.map_append, List.sum_append, ih]
    have := mono_le b hmono 0 r (Nat.zero_le _)
    have := hmono r
    simp
    omega

/-- if block `q` has `b (q+1) - b q` items, the first `r` blocks have `b r` items -/
theorem prefix_length {α} (L : List (List α)) (b : Nat → Nat) (h0 : b 0 = 0) (hmono : ∀ r, b r ≤ b (r + 1))
    (hlen : ∀ q (h : q < L.length), L[q].length = b (q + 1) - b q) (r : Nat) (hr : r ≤ L.length) :
    ((L.take r).flatten).length = b r := by
  induction r with
  | zero => simp [h0]
  | succ r ih =>
    have hr' : r < L.length := by omega
    rw [List.take_add_one, List.flatten_append, List.length_append, ih (by omega)]
    rw [List.getElem?_eq_getElem hr']
    simp only [Option.toList_some, List.flatten_cons, List.flatten_nil, List.append_nil]
    rw [hlen r hr']
    have := hmono r
    omega

/-! ### np.cumsum -/

theorem length_cumsumFrom (acc : Nat) (xs : List Nat) : (cumsumFrom acc xs).length = xs.length := by
  induction xs generalizing acc with
  | nil => rfl
  | cons x xs ih => simp [cumsumFrom, ih]

theorem getElem?_cumsumFrom (acc : Nat) (xs : List Nat) (k : Nat) (hk : k < xs.length) :
    (cumsumFrom acc xs)[k]? = some (acc + (xs.take (k + 1)).sum) := by
  induction xs generalizing acc k with
  | nil => simp at hk
  | cons x xs ih =>
    cases k with
    | zero => simp [cumsumFrom]
    | succ k =>
      have hk' : k < xs.length := by simpa using hk
      simp only [cumsumFrom, List.getElem?_cons_succ, List.take_succ_cons, List.sum_cons]
      rw [ih (acc + x) k hk']
      simp; omega

/-- `np.cumsum([0] + counts)[r]` is the sum of the first `r` counts -/
theorem getElem?_cumsum_zero_cons (cs : List Nat) (r : Nat) (hr : r ≤ cs.length) :
    (cumsum (0 :: cs))[r]? = some ((cs.take r).sum) := by
  unfold cumsum
  rw [getElem?_cumsumFrom 0 (0 :: cs) r (by simp; omega)]
  simp

/-! ### the extracted index terms -/

theorem natOf_ofNat (n : Nat) : natOf (n : Int) = some n := by simp [natOf]

theorem splitIdx_nonempty {N P r : Nat} (h : divPoint N P r < divPoint N P (r + 1)) :
    splitIdx N P r = some (divPoint N P r, divPoint N P (r + 1) - 1) := by
  have : ¬ divPoint N P r ≥ divPoint N P (r + 1) := by omega
  simp [splitIdx, this]

theorem splitIdx_empty {N P r : Nat} (h : ¬ divPoint N P r < divPoint N P (r + 1)) : splitIdx N P r = none := by
  have : divPoint N P r ≥ divPoint N P (r + 1) := by omega
  simp [splitIdx, this]

/-- What the theorems need from the description of `make_changes` read from the source: every rank contributes the size
of its `split_idx` block, compares against `all_fun` from the start of its block, rank 0 turns the gathered sizes into
their running sums starting at 0, and rank `i`'s changes are shifted by entry `i` of that list. -/
structure MakeChangesDesc.Sound (d : MakeChangesDesc) : Prop where
  count : ∀ N P r L, L = divPoint N P (r + 1) - divPoint N P r →
    (d.count.eval ⟨N, r, P, L⟩).bind natOf = some (divPoint N P (r + 1) - divPoint N P r)
  cmpBase : ∀ N P r L, L = divPoint N P (r + 1) - divPoint N P r →
    ∃ m, (d.cmpBase.eval ⟨N, r, P, L⟩).bind natOf = some m ∧
      (divPoint N P r < divPoint N P (r + 1) → m = divPoint N P r)
  steps : ∀ xs, applySteps d.steps xs = cumsum (0 :: xs)
  shift : d.useShift = 0

/-- What the theorems need from the description of `check_results`: the slice scattered to a rank is its `split_idx` block
(an empty slice for a rank without work) and the offset added to a local flagged index is the start of that block. -/
structure CheckResultsDesc.Sound (d : CheckResultsDesc) : Prop where
  slice : ∀ N P r, ∃ lo hi, (d.sliceLo.eval ⟨N, r, P, 0⟩).bind natOf = some lo ∧
      (d.sliceHi.eval ⟨N, r, P, 0⟩).bind natOf = some hi ∧
      (divPoint N P r < divPoint N P (r + 1) → lo = divPoint N P r ∧ hi = divPoint N P (r + 1)) ∧
      (¬ divPoint N P r < divPoint N P (r + 1) → hi ≤ lo)
  offset : ∀ N P r L, L = divPoint N P (r + 1) - divPoint N P r →
    ∃ m, (d.offset.eval ⟨N, r, P, L⟩).bind natOf = some m ∧
      (divPoint N P r < divPoint N P (r + 1) → m = divPoint N P r)

/-! ### make_changes, rank by rank -/

theorem chidxFrom_spec (allFun : List String) (imin : Nat) (strs : List String) (i : Nat)
    (hb : strs ≠ [] → imin + i + strs.length ≤ allFun.length) :
    ∃ ch, chidxFrom allFun imin strs i = some ch ∧
      ∀ c, c ∈ ch ↔ (i ≤ c ∧ c - i < strs.length ∧ strs[c - i]? ≠ allFun[imin + c]?) := by
  induction strs generalizing i with
  | nil => exact ⟨[], rfl, by simp⟩
  | cons s rest ih =>
    have hlen := hb (by simp)
    simp only [List.length_cons] at hlen
    have hlt : imin + i < allFun.length := by omega
    obtain ⟨tl, htl, hmem⟩ := ih (i + 1) (fun _ => by omega)
    refine ⟨if s != allFun[imin + i] then i :: tl else tl, ?_, ?_⟩
    · simp [chidxFrom, List.getElem?_eq_getElem hlt, htl]
    · intro c
      have hsplit : c ∈ (if s != allFun[imin + i] then i :: tl else tl) ↔ (c = i ∧ s ≠ allFun[imin + i]) ∨ c ∈ tl := by
        by_cases hs : s = allFun[imin + i]
        · simp [hs]
        · simp [hs]
      rw [hsplit, hmem c]
      constructor
      · rintro (⟨rfl, hs⟩ | ⟨h1, h2, h3⟩)
        · refine ⟨Nat.le_refl _, by simp, ?_⟩
          simp [List.getElem?_eq_getElem hlt, hs]
        · refine ⟨by omega, by simp only [List.length_cons]; omega, ?_⟩
          have : c - i = (c - (i + 1)) + 1 := by omega
          rw [this, List.getElem?_cons_succ]; exact h3
      · rintro ⟨h1, h2, h3⟩
        by_cases hc : c = i
        · subst hc
          left
          refine ⟨rfl, ?_⟩
          intro hs
          apply h3
          simp [List.getElem?_eq_getElem hlt, hs]
        · right
          simp only [List.length_cons] at h2
          have : c - i = (c - (i + 1)) + 1 := by omega
          rw [this, List.getElem?_cons_succ] at h3
          exact ⟨by omega, by omega, h3⟩

variable {σ ι : Type}

theorem rankChanges_spec (d : MakeChangesDesc) (hd : d.Sound) (allFun : List String) (P r : Nat) (l : Local σ ι)
    (hstr : l.str.length = divPoint allFun.length P (r + 1) - divPoint allFun.length P r)
    (hsym : l.sym.length = l.str.length) (hinv : l.inv.length = l.str.length)
    (hN : divPoint allFun.length P (r + 1) ≤ allFun.length) :
    ∃ chs, rankChanges d allFun P r l = some chs ∧
      ∀ w, w ∈ chs ↔ (w.1 < l.str.length ∧ l.str[w.1]? = some w.2.1 ∧ l.sym[w.1]? = some w.2.2.1 ∧
        l.inv[w.1]? = some w.2.2.2 ∧ l.str[w.1]? ≠ allFun[divPoint allFun.length P r + w.1]?) := by
  obtain ⟨m, hm, hmD⟩ := hd.cmpBase allFun.length P r l.str.length hstr
  have hmono := ESR.C14.divPoint_mono allFun.length P r
  obtain ⟨ch, hch, hchmem⟩ := chidxFrom_spec allFun m l.str 0 (by
    intro hne
    have : 0 < l.str.length := List.length_pos_iff.mpr hne
    have := hmD (by omega)
    omega)
  let f : Nat → Option (Nat × String × σ × Option ι) := fun c => do
    let s ← l.str[c]?
    let y ← l.sym[c]?
    let v ← l.inv[c]?
    pure (c, s, y, v)
  have hf : ∀ c w, f c = some w ↔ (w.1 = c ∧ l.str[c]? = some w.2.1 ∧ l.sym[c]? = some w.2.2.1 ∧ l.inv[c]? = some w.2.2.2) := by
    intro c w
    obtain ⟨w1, w2, w3, w4⟩ := w
    simp only [f, bind, pure, Option.bind_eq_some_iff, Option.some.injEq, Prod.mk.injEq]
    constructor
    · rintro ⟨s, hs, y, hy, v, hv, rfl, rfl, rfl, rfl⟩
      exact ⟨rfl, hs, hy, hv⟩
    · rintro ⟨rfl, hs, hy, hv⟩
      exact ⟨w2, hs, w3, hy, w4, hv, rfl, rfl, rfl, rfl⟩
  have hex : ∀ c ∈ ch, ∃ y, f c = some y := by
    intro c hc
    have h := (hchmem c).mp hc
    have h1 : c < l.str.length := by omega
    have h2 : c < l.sym.length := by omega
    have h3 : c < l.inv.length := by omega
    refine ⟨(c, l.str[c], l.sym[c], l.inv[c]), ?_⟩
    rw [hf]
    exact ⟨rfl, List.getElem?_eq_getElem h1, List.getElem?_eq_getElem h2, List.getElem?_eq_getElem h3⟩
  obtain ⟨chs, hchs, hmem⟩ := allSome_map_mem ch f hex
  refine ⟨chs, ?_, ?_⟩
  · simp only [rankChanges, hm, hch, bind, Option.bind_some]
    exact hchs
  · intro w
    rw [hmem w]
    constructor
    · rintro ⟨c, hc, hfc⟩
      obtain ⟨h0, hs, hy, hv⟩ := (hf c w).mp hfc
      have h := (hchmem c).mp hc
      subst h0
      have hlt : w.1 < l.str.length := by omega
      have hmeq := hmD (by omega)
      refine ⟨hlt, hs, hy, hv, ?_⟩
      have h3 := h.2.2
      simp only [Nat.sub_zero] at h3
      rw [← hmeq]; exact h3
    · rintro ⟨hlt, hs, hy, hv, hne⟩
      have hmeq := hmD (by omega)
      refine ⟨w.1, ?_, (hf w.1 w).mpr ⟨rfl, hs, hy, hv⟩⟩
      rw [hchmem]
      refine ⟨Nat.zero_le _, by simpa using hlt, ?_⟩
      simp only [Nat.sub_zero]
      rw [hmeq]; exact hne

theorem divPoint_le_total (N P r : Nat) (hP : 1 ≤ P) (hr : r ≤ P) : divPoint N P r ≤ N := by
  have := mono_le (fun q => divPoint N P q) (fun q => ESR.C14.divPoint_mono N P q) r P hr
  simpa [ESR.C14.divPoint_last N P hP] using this

theorem startIdx_spec (d : MakeChangesDesc) (hd : d.Sound) (N : Nat) (loc : List (Local σ ι))
    (hlen : ∀ r (h : r < loc.length), loc[r].str.length = divPoint N loc.length (r + 1) - divPoint N loc.length r) :
    ∃ S, startIdx d N loc = some S ∧ ∀ r, r ≤ loc.length → S[r]? = some (divPoint N loc.length r) := by
  let cnt : Nat → Nat := fun r => divPoint N loc.length (r + 1) - divPoint N loc.length r
  have hcounts : allSome ((List.range loc.length).map fun r => do
      let l ← loc[r]?
      (d.count.eval ⟨N, r, loc.length, l.str.length⟩).bind natOf) = some ((List.range loc.length).map cnt) := by
    apply allSome_map_some
    intro r hr
    have hr' : r < loc.length := List.mem_range.mp hr
    simp only [List.getElem?_eq_getElem hr', bind, Option.bind_some]
    exact hd.count N loc.length r _ (hlen r hr')
  refine ⟨cumsum (0 :: (List.range loc.length).map cnt), ?_, ?_⟩
  · simp only [startIdx, hcounts, Option.map_some, hd.steps]
  · intro r hr
    rw [getElem?_cumsum_zero_cons _ r (by simpa using hr), ← List.map_take, List.take_range, Nat.min_eq_left hr]
    rw [sum_telescope (fun q => divPoint N loc.length q) (fun q => ESR.C14.divPoint_mono N loc.length q) r]
    simp [ESR.C14.divPoint_zero]

/-- the hypothesis of `makeChanges_eq_concat`: every rank passes lists of the length of its `split_idx` block -/
def BlockLengths (N : Nat) (loc : List (Local σ ι)) : Prop :=
  ∀ r (h : r < loc.length), loc[r].str.length = divPoint N loc.length (r + 1) - divPoint N loc.length r ∧
    loc[r].sym.length = loc[r].str.length ∧ loc[r].inv.length = loc[r].str.length

theorem updates_spec (d : MakeChangesDesc) (hd : d.Sound) (allFun : List String) (loc : List (Local σ ι))
    (hP : 1 ≤ loc.length) (hlen : BlockLengths allFun.length loc) :
    ∃ U, updates d allFun loc = some U ∧
      ∀ u, u ∈ U ↔ ∃ r, ∃ h : r < loc.length, ∃ c, u.1 = c + divPoint allFun.length loc.length r ∧
        c < loc[r].str.length ∧ loc[r].str[c]? = some u.2.1 ∧ loc[r].sym[c]? = some u.2.2.1 ∧
        loc[r].inv[c]? = some u.2.2.2 ∧ loc[r].str[c]? ≠ allFun[divPoint allFun.length loc.length r + c]? := by
  obtain ⟨S, hS, hSget⟩ := startIdx_spec d hd allFun.length loc (fun r h => (hlen r h).1)
  let F : Nat → Option (List (Nat × String × σ × Option ι)) := fun r => do
    let l ← loc[r]?
    let ch ← rankChanges d allFun loc.length r l
    let st ← S[r + d.useShift]?
    pure (ch.map fun c => (c.1 + st, c.2))
  have hF : ∀ r (h : r < loc.length), ∃ chs : List (Nat × String × σ × Option ι), F r = some (chs.map fun c => (c.1 + divPoint allFun.length loc.length r, c.2)) ∧
      ∀ w, w ∈ chs ↔ (w.1 < loc[r].str.length ∧ loc[r].str[w.1]? = some w.2.1 ∧ loc[r].sym[w.1]? = some w.2.2.1 ∧
        loc[r].inv[w.1]? = some w.2.2.2 ∧ loc[r].str[w.1]? ≠ allFun[divPoint allFun.length loc.length r + w.1]?) := by
    intro r h
    obtain ⟨h1, h2, h3⟩ := hlen r h
    obtain ⟨chs, hchs, hmem⟩ := rankChanges_spec d hd allFun loc.length r loc[r] h1 h2 h3
      (divPoint_le_total _ _ _ hP (by omega))
    refine ⟨chs, ?_, hmem⟩
    simp only [F, List.getElem?_eq_getElem h, hchs, hd.shift, Nat.add_zero, hSget r (by omega), bind, pure,
      Option.bind_some]
  obtain ⟨per, hper, hpermem⟩ := allSome_map_mem (List.range loc.length) F (by
    intro r hr
    obtain ⟨chs, hchs, _⟩ := hF r (List.mem_range.mp hr)
    exact ⟨_, hchs⟩)
  refine ⟨per.flatten, ?_, ?_⟩
  · simp only [updates, hS, bind, pure, Option.bind_some]
    show (allSome ((List.range loc.length).map F)).bind (fun per => some per.flatten) = some per.flatten
    rw [hper]; rfl
  · intro u
    rw [List.mem_flatten]
    constructor
    · rintro ⟨y, hy, huy⟩
      obtain ⟨r, hr, hFr⟩ := (hpermem y).mp hy
      have hr' := List.mem_range.mp hr
      obtain ⟨chs, hchs, hmem⟩ := hF r hr'
      rw [hchs] at hFr
      have hy' := Option.some.inj hFr
      subst hy'
      obtain ⟨w, hw, hwu⟩ := List.mem_map.mp huy
      subst hwu
      obtain ⟨a1, a2, a3, a4, a5⟩ := (hmem w).mp hw
      exact ⟨r, hr', w.1, rfl, a1, a2, a3, a4, a5⟩
    · rintro ⟨r, hr, c, hu1, a1, a2, a3, a4, a5⟩
      obtain ⟨chs, hchs, hmem⟩ := hF r hr
      refine ⟨_, (hpermem _).mpr ⟨r, List.mem_range.mpr hr, hchs⟩, ?_⟩
      apply List.mem_map.mpr
      refine ⟨(c, u.2), (hmem _).mpr ⟨a1, a2, a3, a4, a5⟩, ?_⟩
      obtain ⟨u1, u2⟩ := u
      simp only at hu1
      simp [hu1]

theorem getElem?_cat {α} (L : List (List α)) (b : Nat → Nat) (h0 : b 0 = 0) (hmono : ∀ r, b r ≤ b (r + 1))
    (hlen : ∀ q (h : q < L.length), L[q].length = b (q + 1) - b q) (r : Nat) (hr : r < L.length) (c : Nat)
    (hc : c < L[r].length) : L.flatten[b r + c]? = L[r][c]? := by
  rw [← prefix_length L b h0 hmono hlen r (by omega)]
  exact getElem?_flatten_block L r hr c hc

theorem length_cat {α} (L : List (List α)) (b : Nat → Nat) (h0 : b 0 = 0) (hmono : ∀ r, b r ≤ b (r + 1))
    (hlen : ∀ q (h : q < L.length), L[q].length = b (q + 1) - b q) : L.flatten.length = b L.length := by
  have := prefix_length L b h0 hmono hlen L.length (Nat.le_refl _)
  simpa using this

theorem getElem?_mergeChanged {β} (oldF newF : List String) (old new : List β) (g : Nat) :
    (mergeChanged oldF newF old new)[g]? =
      match oldF[g]?, newF[g]?, old[g]?, new[g]? with
      | some a, some b, some x, some y => some (if b != a then y else x)
      | _, _, _, _ => none := by
  simp only [mergeChanged, List.getElem?_zipWith, List.zip_eq_zipWith]
  cases oldF[g]? <;> cases newF[g]? <;> cases old[g]? <;> cases new[g]? <;> rfl

section
variable (allFun : List String) (loc : List (Local σ ι))
local notation "N" => List.length allFun
local notation "P" => List.length loc
local notation "D" => divPoint (List.length allFun) (List.length loc)

theorem makeChanges_of_sound (d : MakeChangesDesc) (hd : d.Sound) (allSym : List σ)
    (allInv : List (Option ι)) (hP : 1 ≤ loc.length)
    (hsym : allSym.length = allFun.length) (hinv : allInv.length = allFun.length)
    (hlen : BlockLengths allFun.length loc) :
    makeChanges d allFun allSym allInv loc = some (
      (loc.map Local.str).flatten,
      mergeChanged allFun (loc.map Local.str).flatten allSym (loc.map Local.sym).flatten,
      mergeChanged allFun (loc.map Local.str).flatten allInv (loc.map Local.inv).flatten) := by
  obtain ⟨U, hU, hUmem⟩ := updates_spec d hd allFun loc hP hlen
  have hD0 : D 0 = 0 := ESR.C14.divPoint_zero N P
  have hDm : ∀ r, D r ≤ D (r + 1) := fun r => ESR.C14.divPoint_mono N P r
  have hDP : D P = N := ESR.C14.divPoint_last N P hP
  -- block lengths of the three families
  have hLs : ∀ q (h : q < (loc.map Local.str).length), (loc.map Local.str)[q].length = D (q + 1) - D q := by
    intro q h; simp only [List.length_map] at h; simp only [List.getElem_map]; exact (hlen q h).1
  have hLy : ∀ q (h : q < (loc.map Local.sym).length), (loc.map Local.sym)[q].length = D (q + 1) - D q := by
    intro q h; simp only [List.length_map] at h; simp only [List.getElem_map]
    rw [(hlen q h).2.1]; exact (hlen q h).1
  have hLv : ∀ q (h : q < (loc.map Local.inv).length), (loc.map Local.inv)[q].length = D (q + 1) - D q := by
    intro q h; simp only [List.length_map] at h; simp only [List.getElem_map]
    rw [(hlen q h).2.2]; exact (hlen q h).1
  have hcatF : (loc.map Local.str).flatten.length = N := by
    rw [length_cat _ D hD0 hDm hLs]; simpa using hDP
  have hcatY : (loc.map Local.sym).flatten.length = N := by
    rw [length_cat _ D hD0 hDm hLy]; simpa using hDP
  have hcatV : (loc.map Local.inv).flatten.length = N := by
    rw [length_cat _ D hD0 hDm hLv]; simpa using hDP
  -- every write goes to a position of the list and writes the concatenation's entry there
  have hC1 : ∀ u ∈ U, u.1 < N ∧ (loc.map Local.str).flatten[u.1]? = some u.2.1 ∧
      (loc.map Local.sym).flatten[u.1]? = some u.2.2.1 ∧ (loc.map Local.inv).flatten[u.1]? = some u.2.2.2 := by
    intro u hu
    obtain ⟨r, hr, c, hu1, hc, a2, a3, a4, _⟩ := (hUmem u).mp hu
    obtain ⟨l1, l2, l3⟩ := hlen r hr
    have hle : D (r + 1) ≤ N := divPoint_le_total N P (r + 1) hP (by omega)
    have hDr := hDm r
    have e : u.1 = D r + c := by rw [hu1]; exact Nat.add_comm _ _
    refine ⟨by omega, ?_, ?_, ?_⟩
    · rw [e, getElem?_cat _ D hD0 hDm hLs r (by simpa using hr) c (by simpa using hc)]
      simpa using a2
    · rw [e, getElem?_cat _ D hD0 hDm hLy r (by simpa using hr) c (by simp only [List.getElem_map]; omega)]
      simpa using a3
    · rw [e, getElem?_cat _ D hD0 hDm hLv r (by simpa using hr) c (by simp only [List.getElem_map]; omega)]
      simpa using a4
  -- the written positions are exactly those where the concatenation differs from the old list
  have hC2 : ∀ g, g ∈ U.map (·.1) ↔ (g < N ∧ (loc.map Local.str).flatten[g]? ≠ allFun[g]?) := by
    intro g
    constructor
    · intro hg
      obtain ⟨u, hu, rfl⟩ := List.mem_map.mp hg
      obtain ⟨r, hr, c, hu1, hc, a2, _, _, a5⟩ := (hUmem u).mp hu
      have h1 := hC1 u hu
      refine ⟨h1.1, ?_⟩
      have e : u.1 = D r + c := by rw [hu1]; exact Nat.add_comm _ _
      rw [h1.2.1, e, ← a2]; exact a5
    · rintro ⟨hg, hne⟩
      obtain ⟨r, hr, h1, h2⟩ := exists_block D P hD0 g (by rw [hDP]; exact hg)
      obtain ⟨l1, l2, l3⟩ := hlen r hr
      have hc : g - D r < loc[r].str.length := by rw [l1]; omega
      have e : g = D r + (g - D r) := by omega
      have hcat : (loc.map Local.str).flatten[g]? = loc[r].str[g - D r]? := by
        have := getElem?_cat _ D hD0 hDm hLs r (by simpa using hr) (g - D r) (by simpa using hc)
        rw [← e] at this
        simpa using this
      have hs : loc[r].str[g - D r]? = some (loc[r].str[g - D r]'hc) := List.getElem?_eq_getElem hc
      have hy : loc[r].sym[g - D r]? = some (loc[r].sym[g - D r]'(by omega)) := List.getElem?_eq_getElem _
      have hv : loc[r].inv[g - D r]? = some (loc[r].inv[g - D r]'(by omega)) := List.getElem?_eq_getElem _
      apply List.mem_map.mpr
      refine ⟨(g, loc[r].str[g - D r]'hc, loc[r].sym[g - D r]'(by omega), loc[r].inv[g - D r]'(by omega)), ?_, rfl⟩
      rw [hUmem]
      refine ⟨r, hr, g - D r, by simp only; omega, hc, hs, hy, hv, ?_⟩
      rw [← hcat, ← e]; exact hne
  -- the three lists
  obtain ⟨f, hf, hflen, hfget⟩ := setMany_spec (loc.map Local.str).flatten (U.map fun u => (u.1, u.2.1)) allFun (by
    intro w hw
    obtain ⟨u, hu, rfl⟩ := List.mem_map.mp hw
    exact ⟨(hC1 u hu).1, (hC1 u hu).2.1⟩)
  obtain ⟨y, hy, hylen, hyget⟩ := setMany_spec (loc.map Local.sym).flatten (U.map fun u => (u.1, u.2.2.1)) allSym (by
    intro w hw
    obtain ⟨u, hu, rfl⟩ := List.mem_map.mp hw
    exact ⟨by rw [hsym]; exact (hC1 u hu).1, (hC1 u hu).2.2.1⟩)
  obtain ⟨v, hv, hvlen, hvget⟩ := setMany_spec (loc.map Local.inv).flatten (U.map fun u => (u.1, u.2.2.2)) allInv (by
    intro w hw
    obtain ⟨u, hu, rfl⟩ := List.mem_map.mp hw
    exact ⟨by rw [hinv]; exact (hC1 u hu).1, (hC1 u hu).2.2.2⟩)
  simp only [List.map_map, Function.comp_def] at hfget hyget hvget
  have hres : makeChanges d allFun allSym allInv loc = some (f, y, v) := by
    simp only [makeChanges, hU, hf, hy, hv, bind, pure, Option.bind_some]
  rw [hres]
  -- position by position
  have ef : f = (loc.map Local.str).flatten := by
    apply List.ext_getElem?
    intro g
    rw [hfget g]
    by_cases hg : g ∈ U.map (·.1)
    · simp only [hg, if_true]
    · simp only [hg, if_false]
      by_cases hgN : g < N
      · have : ¬ (loc.map Local.str).flatten[g]? ≠ allFun[g]? := fun h => hg ((hC2 g).mpr ⟨hgN, h⟩)
        exact (Classical.not_not.mp this).symm
      · rw [List.getElem?_eq_none (by omega), List.getElem?_eq_none (by omega)]
  have merge : ∀ {β} (old new res : List β), old.length = N → new.length = N →
      (∀ g, res[g]? = if g ∈ U.map (·.1) then new[g]? else old[g]?) →
      res = mergeChanged allFun (loc.map Local.str).flatten old new := by
    intro β old new res ho hn hget
    apply List.ext_getElem?
    intro g
    rw [hget g, getElem?_mergeChanged]
    by_cases hgN : g < N
    · have e1 : allFun[g]? = some allFun[g] := List.getElem?_eq_getElem hgN
      have e2 : (loc.map Local.str).flatten[g]? = some ((loc.map Local.str).flatten[g]'(by omega)) := List.getElem?_eq_getElem _
      have e3 : old[g]? = some (old[g]'(by omega)) := List.getElem?_eq_getElem _
      have e4 : new[g]? = some (new[g]'(by omega)) := List.getElem?_eq_getElem _
      have hiff := hC2 g
      rw [e1, e2] at hiff
      rw [e1, e2, e3, e4]
      by_cases hg : g ∈ U.map (·.1)
      · have hne := (hiff.mp hg).2
        have : (loc.map Local.str).flatten[g]'(by omega) ≠ allFun[g] := fun h => hne (by rw [h])
        simp [hg, this]
      · have : ¬ (some ((loc.map Local.str).flatten[g]'(by omega)) ≠ some allFun[g]) := fun h => hg (hiff.mpr ⟨hgN, h⟩)
        have : (loc.map Local.str).flatten[g]'(by omega) = allFun[g] := by
          have := Classical.not_not.mp this
          exact Option.some.inj this
        simp [hg, this]
    · have n1 : allFun[g]? = none := List.getElem?_eq_none (by omega)
      have n3 : old[g]? = none := List.getElem?_eq_none (by omega)
      have n4 : new[g]? = none := List.getElem?_eq_none (by omega)
      rw [n1, n3, n4]
      simp
  rw [ef, merge allSym _ y hsym hcatY hyget, merge allInv _ v hinv hcatV hvget]

end

/-! ### check_results -/
section flagged
variable {α μ : Type}

theorem flagPos_append (bad : α → μ → Bool) (l1 l2 : List (α × μ)) (i : Nat) :
    flagPos bad (l1 ++ l2) i = flagPos bad l1 i ++ flagPos bad l2 (i + l1.length) := by
  induction l1 generalizing i with
  | nil => simp [flagPos]
  | cons p t ih =>
    obtain ⟨a, m⟩ := p
    simp only [List.cons_append, flagPos, ih (i + 1), List.length_cons]
    have : i + 1 + t.length = i + (t.length + 1) := by omega
    rw [this]
    split <;> simp

theorem flagPos_shift (bad : α → μ → Bool) (l : List (α × μ)) (i k : Nat) :
    (flagPos bad l i).map (· + k) = flagPos bad l (i + k) := by
  induction l generalizing i with
  | nil => simp [flagPos]
  | cons p t ih =>
    obtain ⟨a, m⟩ := p
    have : i + k + 1 = i + 1 + k := by omega
    simp only [flagPos, this, ← ih (i + 1)]
    split <;> simp

theorem flaggedLocal_spec (bad : α → μ → Bool) (ms : List μ) (off : Nat) (blk : List α) (i : Nat)
    (h : i + blk.length ≤ ms.length) :
    flaggedLocal bad ms off blk i = some ((flagPos bad (blk.zip (ms.drop i)) i).map (· + off)) := by
  induction blk generalizing i with
  | nil => simp [flaggedLocal, flagPos]
  | cons a rest ih =>
    simp only [List.length_cons] at h
    have hi : i < ms.length := by omega
    rw [List.drop_eq_getElem_cons hi]
    simp only [flaggedLocal, List.getElem?_eq_getElem hi, ih (i + 1) (by omega), List.zip_cons_cons, flagPos]
    split <;> simp

theorem flagPos_tile (bad : α → μ → Bool) (l : List (α × μ)) (b : Nat → Nat) (P : Nat) (h0 : b 0 = 0)
    (hmono : ∀ r, b r ≤ b (r + 1)) (hN : b P = l.length) :
    ((List.range P).map fun r => flagPos bad (pySlice l (b r) (b (r + 1))) (b r)).flatten = flagPos bad l 0 := by
  have key : ∀ k, k ≤ P →
      ((List.range k).map fun r => flagPos bad (pySlice l (b r) (b (r + 1))) (b r)).flatten
        = flagPos bad (l.take (b k)) 0 := by
    intro k
    induction k with
    | zero => intro _; simp [h0, flagPos]
    | succ k ih =>
      intro hk
      have hle : b k ≤ b (k + 1) := hmono k
      have hkl : b k ≤ l.length := by rw [← hN]; exact mono_le b hmono k P (by omega)
      have hsplit : l.take (b (k + 1)) = l.take (b k) ++ pySlice l (b k) (b (k + 1)) := by
        have : List.take (b k) l = List.take (b k) (List.take (b (k + 1)) l) := by
          rw [List.take_take]; congr 1; omega
        unfold pySlice
        rw [this, List.take_append_drop]
      rw [List.range_succ, List.map_append, List.flatten_append, ih (by omega), hsplit, flagPos_append]
      simp [List.length_take, Nat.min_eq_left hkl]
  have := key P (Nat.le_refl P)
  rw [this, hN, List.take_length]

theorem allSome_shuf (bad : α → μ → Bool) (l : List (α × μ)) (shuf : List Nat) (i : Nat)
    (h : i + l.length ≤ shuf.length) :
    allSome ((flagPos bad l i).map fun g => shuf[g]?)
      = some ((l.zip (shuf.drop i)).filterMap fun p => if bad p.1.1 p.1.2 then some p.2 else none) := by
  induction l generalizing i with
  | nil => simp [flagPos, allSome]
  | cons p t ih =>
    obtain ⟨a, m⟩ := p
    simp only [List.length_cons] at h
    have hi : i < shuf.length := by omega
    rw [List.drop_eq_getElem_cons hi]
    simp only [flagPos, List.zip_cons_cons, List.filterMap_cons]
    by_cases hb : bad a m
    · simp [hb, allSome, List.getElem?_eq_getElem hi, ih (i + 1) (by omega)]
    · simp [hb, ih (i + 1) (by omega)]

theorem pySlice_zip {β γ} (xs : List β) (ys : List γ) (a b : Nat) :
    pySlice (xs.zip ys) a b = (pySlice xs a b).zip (pySlice ys a b) := by
  simp [pySlice, List.zip_eq_zipWith, List.take_zipWith, List.drop_zipWith]

theorem length_pySlice {β} (xs : List β) (a b : Nat) : (pySlice xs a b).length = min b xs.length - a := by
  simp [pySlice]

theorem pySlice_eq_nil {β} (xs : List β) (a b : Nat) (h : b ≤ a) : pySlice xs a b = [] := by
  apply List.eq_nil_of_length_eq_zero
  rw [length_pySlice]; omega

theorem flaggedRank_spec (d : CheckResultsDesc) (hd : d.Sound) (bad : α → μ → Bool) (xs : List α) (ms : List μ)
    (P r : Nat) (hP : 1 ≤ P) (hr : r < P) (hms : ms.length = xs.length) :
    flaggedRank d bad xs ms P r
      = some (flagPos bad (pySlice (xs.zip ms) (divPoint xs.length P r) (divPoint xs.length P (r + 1)))
          (divPoint xs.length P r)) := by
  obtain ⟨lo, hi, hlo, hhi, hne, hem⟩ := hd.slice xs.length P r
  have hmono := ESR.C14.divPoint_mono xs.length P r
  have hle : divPoint xs.length P (r + 1) ≤ xs.length := divPoint_le_total _ _ _ hP (by omega)
  by_cases hb : divPoint xs.length P r < divPoint xs.length P (r + 1)
  · obtain ⟨rfl, rfl⟩ := hne hb
    have hbl : (pySlice xs (divPoint xs.length P r) (divPoint xs.length P (r + 1))).length
        = divPoint xs.length P (r + 1) - divPoint xs.length P r := by
      rw [length_pySlice, Nat.min_eq_left hle]
    obtain ⟨m, hm, hmD⟩ := hd.offset xs.length P r _ hbl
    have hmeq := hmD hb
    subst hmeq
    have hml : (blockSlice ms P r).length = divPoint xs.length P (r + 1) - divPoint xs.length P r := by
      unfold blockSlice block
      rw [length_pySlice, hms, Nat.min_eq_left hle]
    simp only [flaggedRank, hlo, hhi, hm, bind, Option.bind_some]
    rw [flaggedLocal_spec bad _ _ _ 0 (by omega), flagPos_shift, pySlice_zip]
    simp [blockSlice, block, hms]
  · have hil := hem hb
    obtain ⟨m, hm, _⟩ := hd.offset xs.length P r (pySlice xs lo hi).length (by
      rw [pySlice_eq_nil xs lo hi hil]; simp; omega)
    simp only [flaggedRank, hlo, hhi, hm, bind, Option.bind_some]
    rw [pySlice_eq_nil xs lo hi hil, pySlice_eq_nil _ _ _ (by omega)]
    simp [flaggedLocal, flagPos]

theorem flaggedIndices_of_sound (d : CheckResultsDesc) (hd : d.Sound) (bad : α → μ → Bool) (xs : List α)
    (ms : List μ) (shuf : List Nat) (P : Nat) (hP : 1 ≤ P) (hms : ms.length = xs.length)
    (hsh : shuf.length = xs.length) :
    flaggedIndices d bad xs ms shuf P
      = some (((xs.zip ms).zip shuf).filterMap fun p => if bad p.1.1 p.1.2 then some p.2 else none) := by
  have hper : allSome ((List.range P).map fun r => flaggedRank d bad xs ms P r)
      = some ((List.range P).map fun r =>
          flagPos bad (pySlice (xs.zip ms) (divPoint xs.length P r) (divPoint xs.length P (r + 1)))
            (divPoint xs.length P r)) := by
    apply allSome_map_some
    intro r hr
    exact flaggedRank_spec d hd bad xs ms P r hP (List.mem_range.mp hr) hms
  have hzl : (xs.zip ms).length = xs.length := by simp [List.length_zip, hms]
  have htile := flagPos_tile bad (xs.zip ms) (fun r => divPoint xs.length P r) P (ESR.C14.divPoint_zero _ _)
    (fun r => ESR.C14.divPoint_mono _ _ r) (by rw [hzl]; exact ESR.C14.divPoint_last _ _ hP)
  simp only [flaggedIndices, hper, bind, Option.bind_some]
  rw [htile, allSome_shuf bad _ shuf 0 (by simp [hzl, hsh])]
  simp

end flagged
/-! ### initial_sympify -/
section gatherLoop
variable {α : Type}

theorem gatherLoop_spec (start : List Nat) (rest : List (List α)) (r : Nat) (pre : List α) (k : Nat)
    (hstart : ∀ j, j ≤ rest.length → start[r + j]? = some (pre.length + ((rest.take j).flatten).length))
    (hk : rest.flatten.length ≤ k) :
    gatherLoop start rest r (pre.map some ++ List.replicate k none)
      = some ((pre ++ rest.flatten).map some ++ List.replicate (k - rest.flatten.length) none) := by
  induction rest generalizing r pre k with
  | nil => simp [gatherLoop]
  | cons l rest ih =>
    have h0 := hstart 0 (by simp)
    have h1 := hstart 1 (by simp)
    simp only [List.take_zero, List.flatten_nil, List.length_nil, Nat.add_zero, List.take_succ_cons,
      List.flatten_cons, List.append_nil] at h0 h1
    simp only [List.flatten_cons, List.length_append] at hk
    simp only [gatherLoop, h0, h1]
    have hsa : sliceAssign (pre.map some ++ List.replicate k none) pre.length (pre.length + l.length) (l.map some)
        = (pre ++ l).map some ++ List.replicate (k - l.length) none := by
      unfold sliceAssign
      rw [List.take_left' (by simp), Nat.max_eq_right (by omega)]
      have : pre.length + l.length = (pre.map some).length + l.length := by simp
      rw [this, ← List.drop_drop, List.drop_left' rfl, List.drop_replicate]
      simp
    rw [hsa, ih (r + 1) (pre ++ l) (k - l.length)]
    · simp only [List.flatten_cons, List.append_assoc, List.length_append]
      have : k - l.length - rest.flatten.length = k - (l.length + rest.flatten.length) := by omega
      rw [this]
    · intro j hj
      have := hstart (j + 1) (by simp; omega)
      simp only [List.take_succ_cons, List.flatten_cons, List.length_append] at this
      have e1 : r + 1 + j = r + (j + 1) := by omega
      have e2 : pre.length + l.length + (List.take j rest).flatten.length
          = pre.length + (l.length + (List.take j rest).flatten.length) := by omega
      rw [List.length_append, e1, e2]; exact this
    · omega

theorem initialSympifyGather_eq (loc : List (List α)) :
    initialSympifyGather loc = some (loc.flatten.map some) := by
  have hstart : ∀ j, j ≤ loc.length →
      (cumsum (0 :: loc.map List.length))[j]? = some (((loc.take j).flatten).length) := by
    intro j hj
    rw [getElem?_cumsum_zero_cons _ j (by simpa using hj), List.length_flatten, List.map_take]
  have hlast : (cumsum (0 :: loc.map List.length)).getLast? = some loc.flatten.length := by
    rw [List.getLast?_eq_getElem?]
    have : (cumsum (0 :: loc.map List.length)).length = loc.length + 1 := by
      simp [cumsum, length_cumsumFrom]
    rw [this, Nat.add_sub_cancel, hstart loc.length (Nat.le_refl _), List.take_length]
  simp only [initialSympifyGather, hlast, bind, Option.bind_some]
  have := gatherLoop_spec (cumsum (0 :: loc.map List.length)) loc 0 [] loc.flatten.length
    (by intro j hj; simpa using hstart j hj) (Nat.le_refl _)
  simpa using this

end gatherLoop

/-! ### load_subs -/

theorem loadSubsBlock_eq {α} (subs : List α) (P r : Nat) (hP : 1 ≤ P) (hr : r < P) :
    loadSubsBlock subs P r = blockSlice subs P r := by
  have hmono := ESR.C14.divPoint_mono subs.length P r
  have hle : divPoint subs.length P (r + 1) ≤ subs.length := divPoint_le_total _ _ _ hP (by omega)
  unfold loadSubsBlock blockSlice block
  simp only [List.length_range]
  by_cases hb : divPoint subs.length P r < divPoint subs.length P (r + 1)
  · have hhead : (pySlice (List.range subs.length) (divPoint subs.length P r) (divPoint subs.length P (r + 1))).head?
        = some (divPoint subs.length P r) := by
      unfold pySlice
      rw [List.head?_drop, List.getElem?_take, if_pos hb, List.getElem?_range (by omega)]
    have hlast : (pySlice (List.range subs.length) (divPoint subs.length P r) (divPoint subs.length P (r + 1))).getLast?
        = some (divPoint subs.length P (r + 1) - 1) := by
      rw [List.getLast?_eq_getElem?, length_pySlice]
      unfold pySlice
      simp only [List.length_range, Nat.min_eq_left hle]
      rw [List.getElem?_drop, List.getElem?_take, if_pos (by omega), List.getElem?_range (by omega)]
      congr 1; omega
    simp only [hhead, hlast]
    have : divPoint subs.length P (r + 1) - 1 + 1 = divPoint subs.length P (r + 1) := by omega
    rw [this]
  · rw [pySlice_eq_nil _ _ _ (by omega), pySlice_eq_nil _ _ _ (by omega)]
    rfl

end ESR.Gather
