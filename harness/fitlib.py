"""Run the ESR fitting pipeline in a private copy of the staged tree (shared by C04, C14, C16, C20)."""
import json, os, shutil, time
import numpy as np
import common, mpirun


def write_data(path, x, y, s):
    np.savetxt(path, np.transpose(np.vstack([x, y, s])))


def run_pipeline(ctx, copy, fn_set, comp, data_dir, data_file, run_name, P=1, stages=None, seed=0, like="gauss", kw=None,
                 timeout=900, delay_seed=None, env_extra=None):
    """`copy` is a private copy of the staged tree holding the library of `fn_set`. Returns dict(ok, out_dir, res, wall_s)."""
    env = ctx.env(env_extra)
    env["PYTHONPATH"] = os.pathsep.join([common.STANDIN, copy, common.HARNESS])
    cfg = dict(like=like, data_dir=data_dir, data_file=data_file, run_name=run_name, fn_set=fn_set, comp=comp,
               stages=stages or ["fit", "fisher", "match", "combine"], seed=seed, kw=kw or {})
    t0 = time.time()
    out = os.path.join(data_dir, "_stdout_%s_P%d_%d" % (run_name, P, comp))
    os.makedirs(out, exist_ok=True)
    res = mpirun.run(P, [os.path.join(common.HARNESS, "workers", "fit_pipeline.py"), json.dumps(cfg)], timeout=timeout,
                     env_extra=env, cwd=copy, python=common.PY, stdout_dir=out, delay_seed=delay_seed)
    shutil.rmtree(res.get("tmp", ""), ignore_errors=True)
    return dict(ok=res["ok"], out_dir=os.path.join(data_dir, "fitting", "output", "output_" + run_name),
                temp_dir=os.path.join(data_dir, "fitting", "output", "partial_" + run_name), res=res, wall_s=time.time() - t0, stdout=res["stdout"])


def traceback_tail(r):
    for f in r["stdout"]:
        try:
            t = open(f).read()
            if "Traceback" in t:
                return t[t.rindex("Traceback"):][-700:].replace("\n", " | ")
        except Exception:
            pass
    return ""
