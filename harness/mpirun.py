#!/usr/bin/env python3
"""Launch P rank processes of a python script under the mpi4py stand-in.

usage: mpirun.py [-n P] [--timeout S] [--delay-seed K] [--report FILE] -- script.py args...

The hub matches collectives by sequence number.  It fails loudly (exit 3, JSON
report) when ranks disagree on the operation at a sequence number, when a rank
exits while others wait in a collective (hang in real MPI), or when a
collective is not completed within the timeout.
"""
import argparse, json, os, pickle, random, subprocess, sys, tempfile, threading, time
from multiprocessing.connection import Listener


def hub(listener, P, state, timeout, delay_rng):
    conns = {}
    try:
        while len(conns) < P:
            c = listener.accept()
            tag, r = c.recv()
            conns[r] = c
    except Exception as e:                                   # pragma: no cover
        state["error"] = "hub accept failed: %r" % (e,)
        return
    import select
    pending = {}                 # rank -> (seq, op, root, blob)
    closed = set()
    last_progress = time.time()
    while True:
        live = [r for r in conns if r not in closed and r not in pending]
        if not live and not pending:
            return
        if live:
            from multiprocessing.connection import wait
            ready = wait([conns[r] for r in live], timeout=0.5)
            for c in ready:
                r = [k for k, v in conns.items() if v is c][0]
                try:
                    pending[r] = c.recv()
                    last_progress = time.time()
                except (EOFError, OSError):
                    closed.add(r)
                    last_progress = time.time()
        else:
            time.sleep(0.01)
        if pending and closed:
            # a rank is gone while others wait: that is a hang under real MPI
            state["error"] = "rank(s) %s exited while rank(s) %s wait in %s" % (
                sorted(closed), sorted(pending), sorted((pending[r][0], pending[r][1]) for r in pending))
            state["positions"] = {str(r): list(pending[r][:3]) for r in pending}
            for r in pending:
                try:
                    conns[r].send(("err", state["error"]))
                except Exception:
                    pass
            return
        if len(pending) == P:
            seqs = set((v[0], v[1], v[2]) for v in pending.values())
            if len(seqs) != 1:
                state["error"] = "collective mismatch: %s" % sorted((r, v[0], v[1], v[2]) for r, v in pending.items())
                for r in pending:
                    try:
                        conns[r].send(("err", state["error"]))
                    except Exception:
                        pass
                return
            seq, op, root = next(iter(seqs))
            state["collectives"] = state.get("collectives", 0) + 1
            state.setdefault("ops", []).append(op) if len(state.get("ops", [])) < 400 else None
            objs = {r: pending[r][3] for r in pending}
            out = {}
            if op == "bcast":
                for r in range(P):
                    out[r] = objs[root]
            elif op == "gather":
                lst = [pickle.loads(objs[r]) for r in range(P)]
                for r in range(P):
                    out[r] = pickle.dumps(lst if r == root else None)
            elif op == "allgather":
                lst = pickle.dumps([pickle.loads(objs[r]) for r in range(P)])
                for r in range(P):
                    out[r] = lst
            elif op == "scatter":
                lst = pickle.loads(objs[root])
                for r in range(P):
                    out[r] = pickle.dumps(lst[r])
            else:
                for r in range(P):
                    out[r] = pickle.dumps(None)
            order = list(range(P))
            if delay_rng is not None:
                delay_rng.shuffle(order)
            for r in order:
                if delay_rng is not None:
                    time.sleep(delay_rng.random() * 0.003)
                conns[r].send(("ok", out[r]))
            pending = {}
            last_progress = time.time()
        elif pending and time.time() - last_progress > timeout:
            state["error"] = "timeout: ranks %s wait at %s, ranks %s never arrived" % (
                sorted(pending), sorted(set((v[0], v[1]) for v in pending.values())),
                sorted(set(range(P)) - set(pending)))
            return


def run(P, argv, timeout=600.0, delay_seed=None, env_extra=None, cwd=None, python=None, stdout_dir=None):
    """Returns dict(ok, exit_codes, error, collectives, stdout=[paths])"""
    python = python or sys.executable
    tmp = tempfile.mkdtemp(prefix="esrv_mpi_", dir=os.environ.get("ESRV_MPI_TMPBASE") or None)
    addr = os.path.join(tmp, "hub.sock")
    state = {}
    outs = []
    procs = []
    own_stdout = stdout_dir is None
    stdout_dir = stdout_dir or tmp
    env = dict(os.environ)
    env.update(env_extra or {})
    standin = os.path.join(os.path.dirname(os.path.abspath(__file__)), "mpi_standin")
    env["PYTHONPATH"] = standin + os.pathsep + env.get("PYTHONPATH", "")
    try:
        if P > 1:
            listener = Listener(addr, family="AF_UNIX", backlog=P + 2)
            rng = random.Random(delay_seed) if delay_seed is not None else None
            th = threading.Thread(target=hub, args=(listener, P, state, timeout, rng), daemon=True)
            th.start()
        for r in range(P):
            e = dict(env)
            e["ESRV_MPI_SIZE"] = str(P)
            e["ESRV_MPI_RANK"] = str(r)
            e["ESRV_MPI_ADDR"] = addr
            op = os.path.join(stdout_dir, "rank%d.out" % r)
            outs.append(op)
            fh = open(op, "w")
            procs.append((subprocess.Popen([python] + list(argv), env=e, cwd=cwd, stdout=fh, stderr=subprocess.STDOUT), fh))
        t0 = time.time()
        codes = [None] * P
        while True:
            for k, (p, fh) in enumerate(procs):
                if codes[k] is None:
                    codes[k] = p.poll()
            if all(c is not None for c in codes):
                break
            if "error" in state or time.time() - t0 > timeout * 4:
                if "error" not in state:
                    state["error"] = "overall timeout"
                time.sleep(0.3)
                for k, (p, fh) in enumerate(procs):
                    if p.poll() is None:
                        p.kill()
                        codes[k] = "killed"
                    else:
                        codes[k] = p.poll()
                break
            time.sleep(0.02)
        for p, fh in procs:
            try:
                p.wait(timeout=5)
            except Exception:
                pass
            fh.close()
        ok = "error" not in state and all(c == 0 for c in codes)
        return dict(ok=ok, exit_codes=codes, error=state.get("error"), positions=state.get("positions"),
                    collectives=state.get("collectives", 0), stdout=outs, tmp=tmp)
    finally:
        try:
            if P > 1:
                listener.close()
        except Exception:
            pass
        if not own_stdout:
            import shutil
            shutil.rmtree(tmp, ignore_errors=True)      # only the hub socket lived there


def main():
    ap = argparse.ArgumentParser()
    ap.add_argument("-n", type=int, default=1)
    ap.add_argument("--timeout", type=float, default=600.0)
    ap.add_argument("--delay-seed", type=int, default=None)
    ap.add_argument("--report", default=None)
    ap.add_argument("rest", nargs=argparse.REMAINDER)
    a = ap.parse_args()
    rest = a.rest[1:] if a.rest and a.rest[0] == "--" else a.rest
    res = run(a.n, rest, timeout=a.timeout, delay_seed=a.delay_seed)
    for f in res["stdout"]:
        sys.stdout.write(open(f).read())
    import shutil
    shutil.rmtree(res["tmp"], ignore_errors=True)
    if a.report:
        json.dump({k: v for k, v in res.items() if k not in ("stdout", "tmp")}, open(a.report, "w"))
    sys.exit(0 if res["ok"] else 3)


if __name__ == "__main__":
    main()
