"""Independent oracle for C11: a self-contained prefix-tree parser/evaluator under ESR's operator semantics.

Nothing here is shared with the Lean model or with ESR: labels are classified by fixed arity tables, the prefix
list is parsed by recursive descent, and values are computed with Python floats (re-done with 60-digit mpmath
arithmetic when the float comparison is not conclusive).

ESR semantics (esr/fitting/sympy_symbols.py): inv u = 1/u, square, cube, sqrt_abs u = sqrt|u|, log_abs u = log|u|,
log10_abs u = log10|u|, tenexp u = 10**u, pow(u,v) = pow_abs(u,v) = |u|**v, exp, sin, cos.
"""
import math, re

UNARY = ("inv", "square", "cube", "sqrt_abs", "exp", "log_abs", "sin", "cos", "tenexp", "log10_abs")
BINARY = ("+", "*", "-", "/", "pow", "pow_abs")
_PAR = re.compile(r"a(0|[1-9][0-9]*)\Z")
_INT = re.compile(r"(0|-?[1-9][0-9]*)\Z")          # canonical str(int) spelling


class Malformed(Exception):
    pass


def arity(label, basis):
    """arity of a label admitted by the property: basis operators, x, parameters a_k, integers; else Malformed"""
    if label == "x" or _PAR.match(label) or _INT.match(label):
        return 0
    if label in basis[1] and label in UNARY:
        return 1
    if label in basis[2] and label in BINARY:
        return 2
    if label in basis[0]:
        return 0
    raise Malformed("label %r is not a basis operator, x, a parameter or an integer" % (label,))


def parse(labels, basis):
    """prefix label list -> nested tuple tree; raises Malformed"""
    if not isinstance(labels, (list, tuple)) or not all(isinstance(l, str) for l in labels):
        raise Malformed("not a flat list of label strings")
    pos = [0]

    def rec(depth):
        if depth > 400:
            raise Malformed("too deep")
        if pos[0] >= len(labels):
            raise Malformed("prefix list ends before the tree is complete")
        l = str(labels[pos[0]]); pos[0] += 1
        a = arity(l, basis)
        if a == 0:
            return (l,)
        if a == 1:
            return (l, rec(depth + 1))
        u = rec(depth + 1)
        return (l, u, rec(depth + 1))

    if len(labels) == 0:
        raise Malformed("empty label list")
    t = rec(0)
    if pos[0] != len(labels):
        raise Malformed("%d labels left over after a complete tree" % (len(labels) - pos[0]))
    return t


def well_formed(labels, basis):
    try:
        parse(labels, basis)
        return True, ""
    except Malformed as e:
        return False, str(e)


def params(labels):
    return sorted(set(l for l in labels if _PAR.match(str(l))), key=lambda s: int(s[1:]))


# ---- float evaluation -------------------------------------------------------------------------------------------

def _fe(t, env):
    l = t[0]
    if len(t) == 1:
        if l == "x":
            return env["x"]
        if _INT.match(l):
            return float(int(l))
        return env[l]
    if len(t) == 2:
        u = _fe(t[1], env)
        if l == "inv":
            return 1.0 / u
        if l == "square":
            return u * u
        if l == "cube":
            return u * u * u
        if l == "sqrt_abs":
            return math.sqrt(abs(u))
        if l == "exp":
            return math.exp(u)
        if l == "log_abs":
            return math.log(abs(u))
        if l == "log10_abs":
            return math.log10(abs(u))
        if l == "tenexp":
            return 10.0 ** u
        if l == "sin":
            return math.sin(u)
        if l == "cos":
            return math.cos(u)
        raise Malformed(l)
    u = _fe(t[1], env)
    v = _fe(t[2], env)
    if l == "+":
        return u + v
    if l == "-":
        return u - v
    if l == "*":
        return u * v
    if l == "/":
        return u / v
    if l in ("pow", "pow_abs"):
        return abs(u) ** v
    raise Malformed(l)


def feval(t, env):
    """float value or None (undefined / overflow)"""
    try:
        v = _fe(t, env)
    except (ZeroDivisionError, OverflowError, ValueError):
        return None
    if isinstance(v, complex) or v != v or v in (float("inf"), float("-inf")):
        return None
    return v


# ---- high precision re-evaluation -------------------------------------------------------------------------------

def _me(t, env, mp):
    l = t[0]
    if len(t) == 1:
        if l == "x":
            return mp.mpf(env["x"])
        if _INT.match(l):
            return mp.mpf(int(l))
        return mp.mpf(env[l])
    if len(t) == 2:
        u = _me(t[1], env, mp)
        if l == "inv":
            return 1 / u
        if l == "square":
            return u * u
        if l == "cube":
            return u * u * u
        if l == "sqrt_abs":
            return mp.sqrt(abs(u))
        if l == "exp":
            if u > 10 ** 6:
                raise OverflowError
            return mp.exp(u)
        if l == "log_abs":
            return mp.log(abs(u))
        if l == "log10_abs":
            return mp.log10(abs(u))
        if l == "tenexp":
            if u > 10 ** 6:
                raise OverflowError
            return mp.mpf(10) ** u
        if l == "sin":
            return mp.sin(u)
        if l == "cos":
            return mp.cos(u)
        raise Malformed(l)
    u = _me(t[1], env, mp)
    v = _me(t[2], env, mp)
    if l == "+":
        return u + v
    if l == "-":
        return u - v
    if l == "*":
        return u * v
    if l == "/":
        return u / v
    if l in ("pow", "pow_abs"):
        if u == 0:
            if v > 0:
                return mp.mpf(0)
            if v == 0:
                return mp.mpf(1)
            raise ZeroDivisionError
        if v * mp.log(abs(u)) > 10 ** 6:
            raise OverflowError
        return abs(u) ** v
    raise Malformed(l)


def meval(t, env, digits=60):
    import mpmath
    mp = mpmath.mp.clone()
    mp.dps = digits
    try:
        v = _me(t, env, mp)
    except (ZeroDivisionError, OverflowError, ValueError):
        return None
    if not mp.isfinite(v) or mp.im(v) != 0:
        return None
    return v


def points(rng, names, k=8):
    """k generic points: x > 0, parameters real and non-zero (both signs)"""
    out = []
    for _ in range(k):
        env = {"x": rng.uniform(0.2, 3.0)}
        for n in names:
            v = rng.uniform(0.15, 2.5)
            env[n] = v if rng.random() < 0.5 else -v
        out.append(env)
    return out


def stable_value(t, env):
    """high-precision value, or None if undefined OR ill-conditioned at this point (e.g. log|(1/x)*x| = log 1 feeding a
    division: the real function is singular there and any finite number is rounding noise).  A value is trusted only
    if 60-digit and 120-digit evaluations agree to 1e-25 relative."""
    v1 = meval(t, env, 60)
    if v1 is None:
        return None
    v2 = meval(t, env, 120)
    if v2 is None:
        return None
    if abs(v1 - v2) > 1e-25 * max(1, abs(v1), abs(v2)):
        return None
    return v2


def compare(ta, tb, envs, rtol=1e-9):
    """-> dict(equal=bool, n_both=int, n_onlyone=int, n_illcond=int, witness=None|dict(env, a, b))

    equal is False iff at some point both trees have a finite, well-conditioned value and the values differ.
    Float first; an inconclusive point (difference above the tolerance, or defined on one side only) is re-evaluated
    in 60/120-digit arithmetic."""
    n_both = n_one = n_ill = 0
    for env in envs:
        va, vb = feval(ta, env), feval(tb, env)
        if va is not None and vb is not None:
            if abs(va - vb) <= rtol * max(1.0, abs(va), abs(vb)) * 1e-3:
                n_both += 1
                continue
        if va is None and vb is None:
            continue
        ma, mb = stable_value(ta, env), stable_value(tb, env)
        if ma is None or mb is None:
            if (ma is None) != (mb is None):
                n_one += 1
            else:
                n_ill += 1
            continue
        n_both += 1
        if abs(ma - mb) > rtol * max(1, abs(ma), abs(mb)):
            return dict(equal=False, n_both=n_both, n_onlyone=n_one, n_illcond=n_ill,
                        witness=dict(env={k: float(v) for k, v in env.items()}, a=float(ma), b=float(mb)))
    return dict(equal=True, n_both=n_both, n_onlyone=n_one, n_illcond=n_ill, witness=None)
