#!/venv/bin/python
"""Entry point named by MANIFEST.json:  check.py <Cxx> --tier quick|thorough   |   check.py <Cxx> --replay <file>

exit 0  property held on everything explored (KNOWN-FINDING lines allowed)
exit 1  VIOLATION line printed
exit 2  the check itself failed / timed out (never a VIOLATION)
"""
import argparse, importlib, json, os, sys, traceback

sys.path.insert(0, os.path.dirname(os.path.abspath(__file__)))
import common


def main():
    ap = argparse.ArgumentParser()
    ap.add_argument("pid")
    ap.add_argument("--tier", default=os.environ.get("VERIF_TIER", "quick"), choices=["quick", "thorough"])
    ap.add_argument("--replay", default=None)
    a = ap.parse_args()
    seed = int(os.environ.get("VERIF_SEED", "0") or 0)
    pid = a.pid.upper()
    mod = importlib.import_module("props.%s" % pid.lower())
    ctx = common.Ctx(pid, a.tier, seed)
    code = 2
    try:
        common.make_stage(ctx)
        if a.replay:
            data = json.load(open(a.replay))
            ok = mod.replay(ctx, data)
            print("replay: property %s on this input" % ("HOLDS" if ok else "FAILS"))
            code = 0 if ok else 1
        else:
            common.prove(ctx, mod.LEAN_MODULE, leanchecker=(a.tier == "thorough" and getattr(mod, "LEANCHECKER", True)))
            common.start_cover(ctx)
            try:
                common.run_corpus(ctx, mod)
                mod.run(ctx)
            except Exception:
                # the correspondence / search could not be completed on this tree (real code or a worker raised somewhere the
                # property module did not expect): the property is no longer shown to hold -> a broken obligation, decided
                # below together with whatever the run had already found; never a crash of the check (exit 2)
                tb = traceback.format_exc()
                traceback.print_exc()
                ctx.disagree("harness:run-incomplete", "the property module stopped with an exception before finishing its "
                             "correspondence and search: " + " | ".join(tb.strip().splitlines()[-6:])[:900])
            finally:
                common.stop_cover(ctx)
            code = common.decide(ctx, mod)
    except SystemExit:
        raise
    except BaseException:
        traceback.print_exc()
        code = 2
    finally:
        common.drop_stage(ctx)
    sys.stdout.flush()
    os._exit(code)


if __name__ == "__main__":
    main()
