#!/bin/bash
# run every claimed check (quick or thorough) against /repo, a few in parallel; print a summary
TIER=${1:-quick}; J=${2:-3}
cd "$(dirname "$0")/.."
ids=$(python3 -c "import json; print(' '.join(c['property_id'] for c in json.load(open('MANIFEST.json'))['checks']))")
mkdir -p /tmp/runall
printf "%s\n" $ids | xargs -P $J -I{} sh -c "( /usr/bin/time -f '%e s' /venv/bin/python harness/check.py {} --tier $TIER > /tmp/runall/{}.log 2>&1; echo \"{} exit=\$? \$(grep -c '^VIOLATION' /tmp/runall/{}.log) violations, \$(grep -c '^KNOWN-FINDING' /tmp/runall/{}.log) known, \$(tail -1 /tmp/runall/{}.log)\" )"
