#!/bin/bash
# run every claimed check (quick or thorough) against /repo, a few in parallel; print a summary
TIER=${1:-quick}; J=${2:-3}
cd "$(dirname "$0")/.."
ids=$(python3 -c "import json; print(' '.join(c['property_id'] for c in json.load(open('MANIFEST.json'))['checks']))")
L=$(mktemp -d /tmp/runall.XXXXXX)
printf "%s\n" $ids | L=$L xargs -P $J -I{} sh -c "( /usr/bin/time -f '%e s' /venv/bin/python harness/check.py {} --tier $TIER > $L/{}.log 2>&1; echo \"{} exit=\$? \$(grep -c '^VIOLATION' $L/{}.log) violations, \$(grep -c '^KNOWN-FINDING' $L/{}.log) known, \$(tail -1 $L/{}.log)\" )"
