"""Independent oracle for the soundness of a generated library (the statement of C03), used by C03, C13, C15, C16.

For row i of the full list:   f_i(x; p_i(theta)) == u_{m(i)}(x; theta)   at generic points, where p_i is the recorded
chain of substitutions applied to the identity (in file order), or — when the chain holds the unrecoverable marker —
u has strictly fewer free parameters than f.  Also: one line per function in every per-function file, matches in
range, unique strings pairwise distinct, unique parameters a0..a(k-1) without gaps.
Everything is evaluated with numpy through sympy.lambdify; only finite values are compared.
"""
import csv, math, os, re
import numpy as np

_PARAM = re.compile(r"\ba(\d+)\b")


def _locs(max_param):
    import sympy
    from esr.fitting.sympy_symbols import sympy_locs
    locs = dict(sympy_locs)
    syms = [sympy.Symbol("a%d" % i, real=True) for i in range(max_param)]
    for i, s in enumerate(syms):
        locs["a%d" % i] = s
    return locs, syms


def params_of(s):
    return sorted(set(int(m) for m in _PARAM.findall(s)))


def parse_chain(row, locs):
    """csv row of str(dict)/'nan' entries -> list of dicts (sympy) or the string 'nan'"""
    import ast as _ast, sympy
    out = []
    for ent in row:
        if ent.strip() == "nan":
            out.append("nan"); continue
        t = ent.replace("{", "{'").replace("}", "'}").replace(", ", "', '").replace(": ", "': '")
        d = _ast.literal_eval(t)
        out.append({sympy.sympify(k, locals=locs): sympy.sympify(v, locals=locs) for k, v in d.items()})
    return out


def read_library(libdir, compl):
    import libgen
    L = {}
    L["all"] = libgen.read_funs(libgen.libfile(libdir, compl, "all_equations"))
    L["uniq"] = libgen.read_funs(libgen.libfile(libdir, compl, "unique_equations"))
    L["matches"] = [int(float(x)) for x in libgen.read_lines(libgen.libfile(libdir, compl, "matches")) if x.strip()]
    with open(libgen.libfile(libdir, compl, "inv_subs")) as fh:
        L["inv"] = [r for r in csv.reader(fh, delimiter=";")]
    L["trees"] = libgen.read_trees(libgen.libfile(libdir, compl, "trees"))
    L["aifeyn"] = [x for x in libgen.read_lines(libgen.libfile(libdir, compl, "aifeyn")) if x.strip()]
    return L


def _lam(expr, syms, x):
    import sympy
    return sympy.lambdify([x] + syms, expr, modules=["numpy"])


def _finite(v):
    try:
        v = complex(v)
    except Exception:
        return False
    return math.isfinite(v.real) and abs(v.imag) < 1e-12 * max(1.0, abs(v.real))


def check_library(libdir, compl, rng, npoints=4, max_rows=None, tol=1e-7):
    """returns (failures, stats); failure = dict(row, kind, detail)"""
    import sympy, warnings
    warnings.filterwarnings("ignore")
    L = read_library(libdir, compl)
    fails = []
    n = len(L["all"])
    stats = dict(rows=n, uniques=len(L["uniq"]), checked_numeric=0, checked_nan=0, unverifiable=0, identity=0, nonempty_chains=0)
    for name in ("matches", "inv", "trees", "aifeyn"):
        if len(L[name]) != n:
            fails.append(dict(row=-1, kind="length", detail="%s has %d lines, all_equations %d" % (name, len(L[name]), n)))
    if fails:
        return fails, stats
    if len(set(L["uniq"])) != len(L["uniq"]):
        fails.append(dict(row=-1, kind="unique-duplicate", detail="unique list has repeated strings"))
    for k, u in enumerate(L["uniq"]):
        ps = params_of(u)
        if ps != list(range(len(ps))):
            fails.append(dict(row=k, kind="unique-gap", detail="unique %r uses parameters %s" % (u, ps)))
    max_param = 1 + max([max(params_of(s) or [-1]) for s in L["all"] + L["uniq"]] or [-1])
    locs, syms = _locs(max(max_param, 1))
    x = locs["x"]
    rows = list(range(n))
    if max_rows is not None and n > max_rows:
        pri = [i for i in rows if L["inv"][i]]
        rest = [i for i in rows if not L["inv"][i]]
        rng.shuffle(pri); rng.shuffle(rest)
        rows = (pri + rest)[:max_rows]
    cache = {}

    def sym(s):
        if s not in cache:
            try:
                cache[s] = sympy.sympify(s, locals=locs)
            except Exception:
                cache[s] = None
        return cache[s]

    pts = [([rng.uniform(0.4, 2.5)], [rng.choice([-1, 1]) * rng.uniform(0.4, 2.5) for _ in syms]) for _ in range(npoints)]
    for i in rows:
        f, m = L["all"][i], L["matches"][i]
        if not (0 <= m < len(L["uniq"])):
            fails.append(dict(row=i, kind="match-range", detail="match %d out of range" % m)); continue
        u = L["uniq"][m]
        try:
            chain = parse_chain(L["inv"][i], locs)
        except Exception as e:
            fails.append(dict(row=i, kind="chain-parse", detail="%r: %s" % (L["inv"][i], e))); continue
        if chain:
            stats["nonempty_chains"] += 1
        if "nan" in chain:
            stats["checked_nan"] += 1
            if not (len(params_of(u)) < len(params_of(f))):
                fails.append(dict(row=i, kind="nan-without-fewer-params",
                                  detail="function %r marked unrecoverable but its unique %r has %d >= %d parameters" % (f, u, len(params_of(u)), len(params_of(f)))))
            continue
        sf, su = sym(f), sym(u)
        if sf is None or su is None or "nan" in u.lower() or "zoo" in u:
            stats["unverifiable"] += 1; continue
        try:
            p = sympy.Array(syms)
            for sub in chain:
                p = p.subs(sub, simultaneous=True)
            lam_p = sympy.lambdify(syms, list(p), modules=["numpy"])
            lam_f, lam_u = _lam(sf, syms, x), _lam(su, syms, x)
        except Exception as e:
            stats["unverifiable"] += 1; continue
        ok_pts = 0
        bad = None
        with np.errstate(all="ignore"):
            for xv, th in pts:
                try:
                    pv = [complex(v) for v in lam_p(*th)]
                    if not all(_finite(v) for v in pv):
                        continue
                    pv = [v.real for v in pv]
                    a, b = lam_f(xv[0], *pv), lam_u(xv[0], *th)
                except Exception:
                    continue
                if not (_finite(a) and _finite(b)):
                    continue
                a, b = complex(a).real, complex(b).real
                ok_pts += 1
                if abs(a - b) > tol * max(1.0, abs(a), abs(b)):
                    bad = (xv[0], th, a, b); break
        if bad is not None:
            fails.append(dict(row=i, kind="value", detail="row %d: %r with map %s gives %.12g but unique %r gives %.12g at x=%.4g theta=%s" % (
                i, f, L["inv"][i], bad[2], u, bad[3], bad[0], ["%.4g" % t for t in bad[1][:max_param]])))
        elif ok_pts == 0:
            stats["unverifiable"] += 1
        else:
            stats["checked_numeric"] += 1
            if not chain:
                stats["identity"] += 1
    return fails, stats
