"""Generate ESR function libraries in private copies of the staged tree (shared by several properties)."""
import json, os, re, shutil, subprocess, sys, time
import common, mpirun

_LABEL = re.compile(r"'([^']*)'")


def generate(ctx, runname, compls, P=1, basis=None, copy=None, kw=None, timeout=900, delay_seed=None, env_extra=None):
    """Runs duplicate_checker.main(runname, c) for c in compls under P ranks in a private copy.
    Returns dict(ok, dir=<library dir of runname>, copy, res=<mpirun result>, wall_s)."""
    copy = copy or "lib_%s_P%d" % (runname, P)
    d = os.path.join(ctx.tmp, copy)
    if not os.path.isdir(d):
        common.fresh_copy(ctx, copy)
    env = ctx.env(env_extra)
    env["PYTHONPATH"] = os.pathsep.join([common.STANDIN, d, common.HARNESS])
    if basis is not None:
        env["ESR_VERIF_BASIS"] = json.dumps(basis)
    t0 = time.time()
    out_dir = os.path.join(d, "_out_%s_%s" % (runname, "_".join(map(str, compls))))
    os.makedirs(out_dir, exist_ok=True)
    res = mpirun.run(P, [os.path.join(common.HARNESS, "workers", "gen_lib.py"), runname, ",".join(map(str, compls)), json.dumps(kw or {})],
                     timeout=timeout, env_extra=env, cwd=d, python=common.PY, stdout_dir=out_dir, delay_seed=delay_seed)
    shutil.rmtree(res.get("tmp", ""), ignore_errors=True) if res.get("tmp") != out_dir else None
    return dict(ok=res["ok"], dir=os.path.join(d, "esr", "function_library", runname), copy=d, res=res,
                wall_s=time.time() - t0, stdout=res["stdout"])


def read_lines(path):
    with open(path) as fh:
        return [l.rstrip("\n") for l in fh]


def read_trees(path):
    """Each line of orig_trees/extra_trees/trees files -> list of label strings."""
    return [_LABEL.findall(l.replace('"', "")) if l.strip() else [] for l in read_lines(path)]


def read_funs(path):
    """all_equations / unique_equations lines are pprint'ed strings: strip the quotes."""
    out = []
    for l in read_lines(path):
        l = l.strip()
        if len(l) >= 2 and l[0] in "'\"" and l[-1] == l[0]:
            l = l[1:-1]
        out.append(l)
    return out


def libfile(libdir, compl, name):
    return os.path.join(libdir, "compl_%d" % compl, "%s_%d.txt" % (name, compl))
