"""C02 failing-input search: form-directed choice of trees (owned by C02).

The ESR-owned link of the chain  tree -> node_to_string -> sympify -> ESRPrinter -> file -> fitting parser  that is
NOT proved for C02 is the printer applied to sympy's canonical form of the tree (C12 proves the model of the printer;
C02 samples the real one).  What the printer does with a node depends on the node's class (a Pow with exponent 1/2,
-1/2, another half-integer, an integer, a symbolic exponent with a negative or non-unit coefficient, a Mul with a sign /
a numeric coefficient / 0, 1 or several denominator factors, an Add, a function call, a number) and on the ROLE the
node plays in its parent (term of a sum, numerator factor, the only denominator factor, one of several denominator
factors, base or exponent of a power, argument of a function): brackets, signs and the numerator/denominator split are
decided from exactly these two things.  A uniformly drawn tree of complexity 6-8 reaches a given (role, class) pair
with a probability that can be as low as 2/3767 canonical forms, so uniform sampling misses whole pairs.

This module therefore
  * enumerates, per operator basis and bottom-up, EVERY canonical form that some tree of complexity <= nmax has
    (one witness tree of least complexity per form; op(e1, e2) is applied to the forms of the sub-trees exactly as
    sympify evaluates the string of the tree, so nothing is lost by keeping one witness per form),
  * computes for every form its set of (role, class) pairs (`features`), and
  * picks trees so that every pair that is reachable at all within the bound is exercised by K different forms
    (`cover`): the least-complexity witness first, further ones drawn by the caller's PRNG.
The picked TREES are then pushed through the real chain by harness/props/c02.py and judged by the property's own
statement (value of the tree = value of the stored string, both readings).  Nothing here is an oracle: the module only
decides WHICH trees are looked at; it uses sympy and the symbol table, never the printer or any model.
"""
import time
import sympy
from sympy import Mul, Pow, Integer, S


# ---------------------------------------------------------------------------------------------------
# classes and roles of the nodes of a canonical form
# ---------------------------------------------------------------------------------------------------

def _num(e):
    if e.is_Integer:
        v = int(e)
        return "int:%s" % (v if abs(v) <= 3 else ("big+" if v > 0 else "big-"))
    if e.is_Rational:
        return "rat:%s%s/%s" % ("-" if e.p < 0 else "+", abs(e.p) if abs(e.p) <= 5 else "p", e.q if e.q <= 4 else "q")
    if e.is_Float:
        return "float"
    return "num:" + type(e).__name__


def _fn(e):
    """Abs is the marker sympy_locs puts under pow/sqrt/log (it is what a power's base usually is); every other
    function application (exp, sin, log, ...) is printed by one and the same rule, name(args)"""
    return "Abs" if isinstance(e, sympy.Abs) else "fn"


def _kind(e):
    if e.is_Symbol:
        return "x" if e.name == "x" else "a"
    if e.is_Number:
        return _num(e)
    if e.is_Add:
        return "Add"
    if e.is_Mul:
        return "Mul"
    if e.is_Pow:
        return "Pow"
    if e.is_Function:
        return _fn(e)
    return type(e).__name__


def _exp_class(ex):
    """class of an exponent: numbers by sign / unit numerator / denominator; anything else by the sign of its leading
    numeric coefficient, whether that coefficient is a unit, and the kind of what it multiplies"""
    if ex.is_Number:
        return _num(ex)
    c, r = ex.as_coeff_Mul()
    return "sym%s%s:%s" % ("-" if c < 0 else "+", "1" if abs(c) == 1 else "c", _kind(r))


def _split_mul(e):
    """sign, numeric coefficient class, numerator items, denominator items of a product, split the way every sympy
    string printer splits it (a factor with a negative leading exponent coefficient goes below the line with the
    exponent negated; a rational coefficient p/q gives |p| above and q below)"""
    c = e.as_coeff_Mul()[0]
    num, den, coef = [], [], "1"
    for it in Mul.make_args(e):
        if it.is_Pow and it.exp.as_coeff_Mul()[0] < 0:
            den.append(it.base if it.exp is S.NegativeOne else Pow(it.base, -it.exp, evaluate=False))
        elif it.is_Rational:
            if abs(it.p) != 1:
                num.append(Integer(abs(it.p)))
            if it.q != 1:
                den.append(Integer(it.q))
            coef = "int" if it.q == 1 else "rat"
        else:
            num.append(it)
    return ("-" if c < 0 else "+"), coef, num, den


def node_class(e):
    if e.is_Pow:
        return "Pow[%s|%s]" % (_kind(e.base), _exp_class(e.exp))
    if e.is_Mul:
        sg, coef, num, den = _split_mul(e)
        return "Mul[%s|%s|n%d|d%d]" % (sg, coef, min(len([n for n in num if not n.is_Number]), 2), min(len(den), 2))
    if e.is_Add:
        return "Add[%d]" % min(len(e.args), 3)
    return _kind(e)


def features(e, role="top", out=None):
    """the set of (role in the parent, class of the node) pairs of a canonical form"""
    if out is None:
        out = set()
    out.add((role, node_class(e)))
    if e.is_Add:
        for t in e.args:
            features(t, "add-term", out)
    elif e.is_Mul:
        sg, coef, num, den = _split_mul(e)
        for n in num:
            features(n, "mul-num" if den else "mul-num-noden", out)
        for d in den:
            features(d, "mul-den-only" if len(den) == 1 else "mul-den-several", out)
    elif e.is_Pow:
        features(e.base, "pow-base|" + _exp_class(e.exp), out)
        features(e.exp, "pow-exp", out)
    elif e.is_Function:
        for a in e.args:
            features(a, "arg:" + _fn(e), out)
    return out


# ---------------------------------------------------------------------------------------------------
# bottom-up enumeration of the canonical forms of all trees of complexity <= nmax
# ---------------------------------------------------------------------------------------------------

def _tame(r):
    """forms that are never finite (zoo, nan, oo) are not compared by the oracle anyway; a symbol-free form is a
    constant sub-tree such as x/x or (x+x)/x: the small rationals are kept (they become numeric coefficients and
    exponents of larger forms), towers such as tenexp(tenexp(x/x)) = 10**10**... are not fed to further operators
    (sympy would evaluate 10**(10**10) exactly)"""
    if r.has(S.ComplexInfinity, S.NaN, S.Infinity, S.NegativeInfinity):
        return False
    for a in r.atoms(sympy.Number):
        if a.is_Rational and (abs(a.p) > 64 or a.q > 64):
            return False
    return True


_BIN = {"+": lambda u, v: u + v, "-": lambda u, v: u - v, "*": lambda u, v: u * v, "/": lambda u, v: u / v}


class Enumerator(object):
    """memo is shared between bases (core_maths' forms are a subset of every other basis' forms)"""

    def __init__(self, locs, maxpar=4):
        self.locs = dict(locs)
        for op in ("exp", "sin", "cos", "tan", "log", "sqrt"):       # names sympify resolves in sympy's own namespace
            self.locs.setdefault(op, getattr(sympy, op))
        self.maxpar = maxpar
        self.A = [sympy.Symbol("a%d" % i, real=True) for i in range(2 * maxpar + 1)]
        self.memo = {}
        self.shifted = {}
        self.applications = 0

    def _apply(self, op, *args):
        key = (op,) + args
        if key not in self.memo:
            self.applications += 1
            try:
                r = _BIN[op](*args) if op in _BIN else self.locs[op](*args)
                if not isinstance(r, sympy.Basic) or not _tame(r):
                    r = None
            except Exception:
                r = None
            self.memo[key] = r
        return self.memo[key]

    def _shift(self, e, w, k, by):
        if by == 0 or k == 0:
            return e, w
        key = (e, by)
        if key not in self.shifted:
            self.shifted[key] = e.xreplace({self.A[i]: self.A[i + by] for i in range(k)})
        return self.shifted[key], tuple("a%d" % (int(l[1:]) + by) if (l[0] == "a" and l[1:].isdigit()) else l for l in w)

    def forms(self, basis, nmax, deadline=None):
        """-> ({n: {form: (labels, nparam)}}, complete_up_to).  A form is listed at the least complexity at which a
        tree has it (composites of a non-minimal sub-tree have the form of the composite of the minimal one)."""
        E = {1: {}}
        for l in basis[0]:
            if l == "a":
                E[1][self.A[0]] = (("a0",), 1)
            elif l in self.locs:
                E[1][self.locs[l]] = ((l,), 0)
        seen = set(E[1])
        done = 1
        for n in range(2, nmax + 1):
            cur = {}
            for op in basis[1]:
                if op not in self.locs:
                    continue
                for e, (w, k) in E[n - 1].items():
                    r = self._apply(op, e)
                    if r is not None and r not in seen and r not in cur:
                        cur[r] = ((op,) + w, k)
            for i in range(1, n - 1):
                if deadline is not None and time.time() > deadline:
                    E[n] = cur              # what was reached of level n is still used; `done` says it is incomplete
                    return E, done
                for e1, (w1, k1) in E[i].items():
                    for e2, (w2, k2) in E[n - 1 - i].items():
                        if k1 + k2 > self.maxpar:
                            continue
                        e2s, w2s = self._shift(e2, w2, k2, k1)
                        for op in basis[2]:
                            if op not in _BIN and op not in self.locs:
                                continue
                            r = self._apply(op, e1, e2s)
                            if r is not None and r not in seen and r not in cur:
                                cur[r] = ((op,) + w1 + w2s, k1 + k2)
            E[n] = cur
            seen.update(cur)
            done = n
        return E, done


def cover(per_basis, rng, K):
    """per_basis: [(name, basis, {n: {form: (labels, k)}})] -> (picked, stats).  Every (role, class) pair met in any
    form is given K forms: in order of complexity (so the least witness is always in), PRNG order within a complexity.
    picked: [(name, basis, labels, k, n, features)]"""
    count = {}
    picked, taken = [], set()
    nforms = 0
    for name, basis, E in per_basis:
        for n in sorted(E):
            items = [(w, k, e) for e, (w, k) in E[n].items()]
            nforms += len(items)
            items.sort(key=lambda t: t[0])
            rng.shuffle(items)
            for w, k, e in items:
                if e in taken:
                    for f in features(e):
                        count.setdefault(f, 0)
                    continue
                fs = features(e)
                new = [f for f in fs if count.get(f, 0) < K]
                for f in fs:
                    count.setdefault(f, 0)
                if new:
                    for f in fs:
                        count[f] += 1
                    taken.add(e)
                    picked.append((name, basis, list(w), k, n, fs))
    return picked, dict(forms=nforms, pairs=len(count), picked=len(picked),
                        pairs_with_fewer_than_K_forms=sum(1 for v in count.values() if v < K))
