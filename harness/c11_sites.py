"""C11 — structure-directed inputs for update_tree / find_additional_trees.

update_tree looks for "sites": an exp-set label next to a run of pow-set labels
  L   log_abs  <run>  arg            (exp_ord 1: the run FOLLOWS the label)
  E   <run>  exp  arg                (exp_ord 2: the run PRECEDES the label)
  LE  log_abs  <run>  exp  arg       (two sites sharing one run)
  P   <run2>  pow_abs  <run1>  arg  arg'   (exp_ord 3: runs on both sides; label outside the property's quantifier)
and collects one candidate per site, in prefix order.  The candidates of one tree interact only through their
position in that list (try_idx), so the inputs that matter are trees with SEVERAL sites whose kinds, run lengths and
folded numbers differ, over bases in which some of the numbers can and others cannot be attached.  This module
enumerates, from the tables regenerated from the staged source (pow_set, pow_num, exp_set, exp_ord):

* site kinds x run lengths 1..3, every ORDERED pair of them, under every subset of the optional binary operators
  {-, /, pow} (always + and *; the label pow_abs, outside the property's quantifier, in one further PRNG pattern
  per pair and in every pair with a P site), the runs drawn so that the classes of the folded numbers
  (integer > 1, unit fraction, 1, negative integer, negative unit fraction, truncated run) rotate through all pairs;
* embeddings of the two sites: siblings under a binary operator of the basis, or nested (the second site is the
  argument of the first);
* PRNG triples.

It also contains an independent re-derivation of the candidate table (site_table) used to classify runs and to
check the alignment of the real function's five parallel lists.
"""
import itertools
from fractions import Fraction

OPT_BIN = ("-", "/", "pow", "pow_abs")


def _num(pow_num, lab):
    op, n = pow_num[lab]
    return Fraction(n) if op == "*" else Fraction(1, n)


def fold(run, pow_num):
    """(accepted length d, folded product) of a run scanned in the given order: the chain stops at the first label whose
    running product is neither an integer nor a unit fraction"""
    q = Fraction(1)
    d = 0
    for lab in run:
        q2 = q * _num(pow_num, lab)
        if q2.denominator == 1 or abs(q2.numerator) == 1:
            q = q2
            d += 1
        else:
            break
    return d, q


def num_str(q):
    """'*n' / '/n' as update_tree spells the folded number"""
    if q.denominator == 1:
        return "*%d" % q.numerator
    return "/%d" % (1 / q)


def num_class(run, pow_num):
    d, q = fold(run, pow_num)
    if d < len(run):
        return "trunc"
    if q == 1:
        return "one"
    if q == -1:
        return "negone"
    if q.denominator == 1:
        return "int" if q > 0 else "negint"
    return "frac" if q > 0 else "negfrac"


CLASSES = ("int", "frac", "one", "negint", "negfrac", "negone", "trunc")


def site_table(labels, tb):
    """independent re-derivation of update_tree's candidate table: list of dict(special, diff1, diff2, num1, num2)"""
    pow_set = set(tb["pow_set"]) & set(labels)
    pn = {k: (op, n) for k, op, n in tb["pow_num"]}
    eo = dict(tb["exp_ord"])
    exps = set(tb["exp_set"]) & set(labels)
    out = []
    if not pow_set or not exps:
        return out
    for i, lab in enumerate(labels):
        if lab not in exps:
            continue
        o = eo[lab]
        row = None
        if o in (1, 3) and i + 1 < len(labels) and labels[i + 1] in pow_set:
            run = list(itertools.takewhile(lambda z: z in pow_set, labels[i + 1:]))
            d, q = fold(run, pn)
            row = dict(special=i, diff1=d, diff2=0, num1=num_str(q), num2=None)
        if o in (2, 3) and i > 0 and labels[i - 1] in pow_set:
            run = list(itertools.takewhile(lambda z: z in pow_set, labels[:i][::-1]))
            d, q = fold(run, pn)
            if row is None:
                row = dict(special=i, diff1=0, diff2=d, num1=None, num2=num_str(q))
            else:
                row["diff2"] = d
                row["num2"] = num_str(q)
        if row is not None:
            out.append(row)
    return out


class Site(object):
    """kind in L, E, LE, P; runs in prefix order"""

    def __init__(self, kind, run, run2=()):
        self.kind, self.run, self.run2 = kind, tuple(run), tuple(run2)

    def labels(self, arg, arg2=("a0",)):
        arg = list(arg)
        if self.kind == "L":
            return ["log_abs"] + list(self.run) + arg
        if self.kind == "E":
            return list(self.run) + ["exp"] + arg
        if self.kind == "LE":
            return ["log_abs"] + list(self.run) + ["exp"] + arg
        return list(self.run2) + ["pow_abs"] + list(self.run) + arg + list(arg2)

    def unary(self):
        u = set(self.run) | set(self.run2)
        if self.kind in ("L", "LE"):
            u.add("log_abs")
        if self.kind in ("E", "LE"):
            u.add("exp")
        return u

    def cls(self, pn):
        # E scans backwards from exp: nearest label first
        return num_class(self.run[::-1] if self.kind == "E" else self.run, pn)

    def tag(self):
        return "%s%d" % (self.kind, len(self.run)) + ("+%d" % len(self.run2) if self.kind == "P" else "")


def runs_by_class(tb, length, backwards):
    pn = {k: (op, n) for k, op, n in tb["pow_num"]}
    out = {}
    for run in itertools.product(tb["pow_set"], repeat=length):
        c = num_class(run[::-1] if backwards else run, pn)
        out.setdefault(c, []).append(run)
    return out


def _draw_site(rng, tb, kind, length, want, cache):
    key = (kind, length)
    if key not in cache:
        cache[key] = runs_by_class(tb, length, kind == "E")
    by = cache[key]
    c = want if want in by else rng.choice(sorted(by))
    run = rng.choice(by[c])
    if kind == "P":
        l2 = rng.choice([0, 1, 2])
        run2 = tuple(rng.choice(tb["pow_set"]) for _ in range(l2))
        return Site("P", run, run2)
    return Site(kind, run)


def shape_of(labels, basis):
    return [2 if z in basis[2] else 1 if z in basis[1] else 0 for z in labels]


def embed_pair(rng, s1, s2, how, leaves):
    a, b = leaves
    if how == "nest":
        return s1.labels(s2.labels([a]))
    return [how] + s1.labels([a]) + s2.labels([b])


def embed_triple(rng, s, ops, leaves):
    a, b = leaves
    form = rng.choice(["lin", "lin2", "nest", "mix", "mix2"])
    o1, o2 = rng.choice(ops), rng.choice(ops)
    if form == "lin":
        return [o1] + s[0].labels([a]) + [o2] + s[1].labels([b]) + s[2].labels([a])
    if form == "lin2":
        return [o1, o2] + s[0].labels([a]) + s[1].labels([b]) + s[2].labels([a])
    if form == "nest":
        return s[0].labels(s[1].labels(s[2].labels([a])))
    if form == "mix":
        return [o1] + s[0].labels(s[1].labels([a])) + s[2].labels([b])
    return [o1] + s[0].labels([a]) + s[1].labels(s[2].labels([b]))


def cases(rng, tb, per_combo, ntriples, kinds=("L", "E", "LE", "P")):
    """-> list of dict(name, basis, labels, shape, nsites, in_quant, tag)"""
    pn = {k: (op, n) for k, op, n in tb["pow_num"]}
    cache = {}
    out = []
    seen = set()
    sk = [(k, n) for k in kinds for n in (1, 2, 3)]
    strata = [(c1, c2) for c1 in CLASSES for c2 in CLASSES]
    si = rng.randrange(len(strata))
    core = [o for o in OPT_BIN if o != "pow_abs"]
    pats = [list(c) for r in range(len(core) + 1) for c in itertools.combinations(core, r)]
    for (k1, n1), (k2, n2) in itertools.product(sk, repeat=2):
        if "P" in (k1, k2):
            # label pow_abs: outside the property's quantifier (observations): one PRNG pattern per repetition
            todo = [rng.choice(pats) + ["pow_abs"] for _ in range(per_combo)]
        else:
            # every subset of {-, /, pow}; pow_abs present in one further PRNG pattern
            todo = [p for p in pats for _ in range(per_combo)] + [rng.choice(pats) + ["pow_abs"]]
        for rep, opt in enumerate(todo):
            b2 = ["+", "*"] + list(opt)
            hows = list(b2) + ["nest"]
            si += 1
            c1, c2 = strata[si % len(strata)]
            s1 = _draw_site(rng, tb, k1, n1, c1, cache)
            s2 = _draw_site(rng, tb, k2, n2, c2, cache)
            how = hows[(si // len(strata) + rep) % len(hows)] if rng.random() < 0.5 else rng.choice(hows)
            leaves = rng.choice([("x", "a0"), ("a0", "x"), ("x", "x")])
            labels = embed_pair(rng, s1, s2, how, leaves)
            _emit(out, seen, rng, tb, labels, [s1, s2], b2, "pair:%s,%s:%s" % (s1.tag(), s2.tag(), how))
    for _ in range(ntriples):
        opt = [o for o in OPT_BIN if rng.random() < 0.4]
        ks = [k for k in kinds if k != "P" or "pow_abs" in opt]
        ss = [_draw_site(rng, tb, rng.choice(ks), rng.choice([1, 1, 2, 2, 3]), rng.choice(CLASSES), cache) for _ in range(3)]
        b2 = ["+", "*"] + opt
        labels = embed_triple(rng, ss, b2, rng.choice([("x", "a0"), ("a0", "x"), ("x", "x")]))
        _emit(out, seen, rng, tb, labels, ss, b2, "triple:%s" % ",".join(s.tag() for s in ss))
    return out


def _emit(out, seen, rng, tb, labels, sites, b2, tag):
    un = set()
    for s in sites:
        un |= s.unary()
    # the property's unary classes: every label used, sometimes one more known operator
    extra = [u for u in ("sqrt_abs", "inv", "square", "cube", "exp", "log_abs", "sin") if u not in un]
    un = sorted(un)
    if extra and rng.random() < 0.25:
        un.append(rng.choice(extra))
    rng.shuffle(un)
    b2 = list(b2)
    rng.shuffle(b2)
    basis = [["x", "a"], un, b2]
    # renumber parameters in prefix order (a0, a1, ...) as ESR's own labelled trees have them
    k = 0
    labels = list(labels)
    for i, z in enumerate(labels):
        if z == "a0":
            labels[i] = "a%d" % k
            k += 1
    key = (tuple(labels), tuple(sorted(un)), tuple(sorted(b2)))
    if key in seen:
        return
    seen.add(key)
    out.append(dict(basis=basis, labels=labels, shape=shape_of(labels, basis), nsites=len(site_table(labels, tb)),
                    in_quant=("pow_abs" not in b2), tag=tag))
