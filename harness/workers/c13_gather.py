"""Worker for C13: runs the real `simplifier.make_changes`, `simplifier.load_subs` and the gather of
`simplifier.initial_sympify` on every job of a job file, on this rank (all ranks run this script).

argv: jobs.json outprefix
jobs.json: list of
  {"kind": "mc", "all_fun": [...], "all_sym": [...], "all_inv": [tok|None, ...], "loc": [[str_fun, sym_fun, inv_fun] per rank]}
  {"kind": "ls", "file": path, "k": max_param}
  {"kind": "is", "all_fun": [...], "k": max_param}
inv tokens: None stays None, a string t becomes the dict {"v": t} (make_changes calls `.copy()` on it).
writes <outprefix>.<rank>.json: per job ["ok", result] | ["raise", repr]
An exception inside one job is recorded and the next job is started: the collectives of the jobs are matched by the hub,
so a rank that left a job early shows up as a collective mismatch there.
"""
import json, sys


def main():
    jobs = json.load(open(sys.argv[1]))
    import esr.generation.simplifier as S
    out = []
    for jb in jobs:
        try:
            if jb["kind"] == "mc":
                mine = jb["loc"][S.rank]
                inv = lambda xs: [None if t is None else {"v": t} for t in xs]
                f, y, v = S.make_changes(list(jb["all_fun"]), list(jb["all_sym"]), inv(jb["all_inv"]),
                                         list(mine[0]), list(mine[1]), inv(mine[2]))
                res = [list(f), list(y), [None if d is None else d["v"] for d in v]]
            elif jb["kind"] == "ls":
                r = S.load_subs(jb["file"], jb["k"], use_sympy=False, bcast_res=True)
                res = [["nan" if (isinstance(c, float) and c != c) else c for c in row] for row in r]
            elif jb["kind"] == "is":
                r, _ = S.initial_sympify(list(jb["all_fun"]), jb["k"], verbose=False, parallel=True, save_sympy=False)
                res = list(r)
            else:
                raise ValueError(jb["kind"])
            out.append(["ok", res])
        except Exception as e:
            out.append(["raise", repr(e)[:300]])
    with open("%s.%d.json" % (sys.argv[2], S.rank), "w") as fh:
        json.dump(out, fh)


if __name__ == "__main__":
    main()
