"""Worker: run simplifier.check_results(dirname, compl) on a prepared library directory (every rank runs this)."""
import sys
import esr.generation.simplifier as s
s.check_results(sys.argv[1], int(sys.argv[2]))
