"""Worker for C14 (stage drivers): runs the REAL `test_all.main` / `test_all_Fisher.main` on every rank with the
per-function routines (`optimise_fun`; `run_sympify` + `convert_params`) replaced by scripted outcomes.

argv: jobs.json workdir outprefix
jobs.json: list of
  {"kind": "fit", "comp": c, "tryInt": bool, "funcs": [[o1, o2], ...]}               o = ["ok", chi2, [params]] | "ne" | "ra"
  {"kind": "fis", "comp": c, "tryInt": bool, "table": [[nll, p1, ..], ..], "funcs": [[o1, o2], ...]}
                                                                                      o = ["ok", [params], nll, [deriv], codelen] | "ne" | "ra"
Function i of a job is the line "F<i>" of unique_equations_<c>.txt.  `ne` raises NameError, `ra` raises ValueError.
Rank 0 writes <outprefix>.json: per job the text rows of the stage's output file(s).
A job on which a rank lets an exception escape is run in a launch of its own by the caller (the other ranks then wait in the
next barrier, which the hub reports).
"""
import json, os, sys, types
import numpy as np


def fl(x):
    return float(x)


def main():
    jobs = json.load(open(sys.argv[1]))
    work = sys.argv[2]
    import esr.fitting.test_all as TA
    import esr.fitting.test_all_Fisher as TF
    from mpi4py import MPI
    comm = MPI.COMM_WORLD
    rank = comm.Get_rank()
    out = []
    for k, jb in enumerate(jobs):
        c = int(jb["comp"])
        d = os.path.join(work, "job%d" % k)
        lik = types.SimpleNamespace(fn_dir=os.path.join(d, "fn"), base_out_dir=os.path.join(d, "out"),
                                    out_dir=os.path.join(d, "out", "o"), temp_dir=os.path.join(d, "out", "t"), is_mse=False)
        funcs = jb["funcs"]
        calls = {}

        def pick(fcn):
            i = int(str(fcn).strip().strip("'")[1:])
            n = calls.get(i, 0)
            calls[i] = n + 1
            return i, funcs[i][min(n, 1)]

        if rank == 0:
            os.makedirs(os.path.join(lik.fn_dir, "compl_%d" % c), exist_ok=True)
            with open(os.path.join(lik.fn_dir, "compl_%d" % c, "unique_equations_%d.txt" % c), "w") as fh:
                fh.writelines("F%d\n" % i for i in range(len(funcs)))
            if jb["kind"] == "fis":
                os.makedirs(lik.out_dir, exist_ok=True)
                os.makedirs(lik.temp_dir, exist_ok=True)
                with open(os.path.join(lik.out_dir, "negloglike_comp%d.dat" % c), "w") as fh:
                    for row in jb["table"]:
                        fh.write(" ".join("%.7e" % fl(v) for v in row) + "\n")
        comm.Barrier()
        if jb["kind"] == "fit":
            def optimise_fun(fcn_i, likelihood, tmax, pmin, pmax, **kw):
                i, o = pick(fcn_i)
                if o == "ne":
                    raise NameError("scripted")
                if o == "ra":
                    raise ValueError("scripted")
                return fl(o[1]), np.array([fl(v) for v in o[2]])
            TA.optimise_fun = optimise_fun
            TA.main(c, lik, tmax=5, try_integration=bool(jb["tryInt"]))
            res = None
            if rank == 0:
                res = open(os.path.join(lik.out_dir, "negloglike_comp%d.dat" % c)).read().splitlines()
            out.append(res)
        else:
            lik.run_sympify = lambda fcn_i, **kw: (fcn_i, None, False)

            def convert_params(fcn_i, eq, integrated, theta_ML, likelihood, negloglike, max_param=4):
                i, o = pick(fcn_i)
                if o == "ne":
                    raise NameError("scripted")
                if o == "ra":
                    raise ValueError("scripted")
                return np.array([fl(v) for v in o[1]]), fl(o[2]), np.array([fl(v) for v in o[3]]), fl(o[4])
            TF.convert_params = convert_params
            TF.main(c, lik, tmax=5, try_integration=bool(jb["tryInt"]))
            res = None
            if rank == 0:
                res = [open(os.path.join(lik.out_dir, "codelen_comp%d_deriv.dat" % c)).read().splitlines(),
                       open(os.path.join(lik.out_dir, "derivs_comp%d.dat" % c)).read().splitlines(),
                       sorted(os.listdir(lik.temp_dir))]
            out.append(res)
    if rank == 0:
        with open(sys.argv[3] + ".json", "w") as fh:
            json.dump(out, fh)


if __name__ == "__main__":
    main()
