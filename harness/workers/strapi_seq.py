"""Call sequences of the formula-string API in ONE process (C18 / C20 histories), and their fresh-process references.

usage: strapi_seq.py <spec.json> <out.json>        (a fresh interpreter; PYTHONPATH = stand-in, staged tree, harness)

spec = {"mode": "labels" | "fit",          labels: the optimiser is stubbed (only tree / labels / aifeyn matter: C18)
                                           fit:    the real single_function on the data of spec["data"] (C20)
        "fork": bool,                      False: the tasks are ONE history, run one after the other in THIS process
                                           True:  every task (a list of calls) runs in its own forked child of this process,
                                                  which itself never calls the API: a task of one call = `first call of a fresh process`
        "tasks": [[call, ...], ...],
        "data": {"x": [...], "y": [...], "yerr": [...], "dir": scratch dir}      (mode fit)
        "timeout": seconds per task (fork mode)}
call = {"fn": "fit" | "aif" | "s2n" | "single", "formula": str, "basis": [[..],[..],[..]], "rf": bool,
        "evalf": bool, "check_ops": bool, "allow_eval": bool, "labels": [...] (single), "np_seed": int, "kw": {...}}
result of a call = {"ok": True, "labels": [...], "comp": int, "aifeyn": float, "nll": float, "DL": float, "params": [...]}
                 | {"ok": False, "exc": type name, "where": "file:line in function" (innermost frame), "text": str(e), "origin": "esr" | "harness" | "other"}
Every exception is data; nothing the real code raises ends the worker.
"""
import io, json, os, select, signal, sys, time, traceback, contextlib


def excinfo(e):
    tb = traceback.extract_tb(e.__traceback__)
    where, origin = "?", "other"
    if tb:
        fr = tb[-1]
        where = "%s:%d in %s" % (fr.filename.split("/esr/")[-1] if "/esr/" in fr.filename else os.path.basename(fr.filename), fr.lineno, fr.name)
        # origin: the innermost frame that belongs to the staged ESR or to the harness
        for fr in reversed(tb):
            if "/esr/" in fr.filename:
                origin = "esr"
                break
            if "/harness/" in fr.filename and fr is not tb[0]:
                origin = "harness"
                break
        else:
            origin = "esr" if len(tb) > 1 else "harness"
    return dict(ok=False, exc=type(e).__name__, where=where, text=str(e)[:300], origin=origin)


class State(object):
    pass


ST = State()


def setup(spec):
    from esr.generation import generator as g
    import esr.fitting.fit_single as fs
    ST.g, ST.fs, ST.mode = g, fs, spec["mode"]
    ST.aif_labels = None
    ST.single_labels = None
    orig_t2a = fs.tree_to_aifeyn

    def t2a(labels, basis_functions, verbose=True):
        ST.aif_labels = [str(l) for l in labels]
        return orig_t2a(labels, basis_functions, verbose=False)
    fs.tree_to_aifeyn = t2a
    if spec["mode"] == "labels":
        def stub(labels, *a, **k):
            ST.single_labels = [str(l) for l in labels]
            return (0.0, 0.0, []) if k.get("return_params") else (0.0, 0.0)
        fs.single_function = stub
        ST.lik = None
    else:
        import numpy as np
        import esr.fitting.likelihood as L
        d = spec["data"]
        os.makedirs(d["dir"], exist_ok=True)
        np.savetxt(os.path.join(d["dir"], "d.txt"), np.c_[d["x"], d["y"], d["yerr"]], fmt="%.17g")
        ST.lik = L.GaussLikelihood("d.txt", "strapi_%d" % os.getpid(), data_dir=d["dir"], fn_set="verif_strapi_%d" % os.getpid())


def one_call(c):
    g, fs = ST.g, ST.fs
    basis = c["basis"]
    try:
        if c["fn"] == "s2n":
            expr, nodes, comp = g.string_to_node(c["formula"], basis, evalf=bool(c.get("evalf")), allow_eval=bool(c.get("allow_eval", True)),
                                                 check_ops=bool(c.get("check_ops")))
            lab = nodes.to_list(basis)
            return dict(ok=True, labels=None if lab is None else [str(l) for l in lab], comp=int(comp), count=int(nodes.count_nodes(basis)), expr=str(expr))
        if c["fn"] == "aif":
            ST.aif_labels = None
            r = fs.string_to_aifeyn(c["formula"], basis, verbose=False, replace_floats=bool(c.get("rf")))
            return dict(ok=True, labels=ST.aif_labels, aifeyn=float(r[0]), comp=int(r[1]))
        if c["fn"] == "fit":
            kw = dict(c.get("kw") or {})
            if ST.mode == "labels":
                r = fs.fit_from_string(c["formula"], basis, None, replace_floats=bool(c.get("rf")), **kw)
                return dict(ok=True, labels=[str(l) for l in r[2]], handed=ST.single_labels)
            import numpy as np
            np.random.seed(int(c.get("np_seed", 0)))
            with np.errstate(all="ignore"):
                r = fs.fit_from_string(c["formula"], basis, ST.lik, replace_floats=bool(c.get("rf")), return_params=True, **kw)
            return dict(ok=True, nll=float(r[0]), DL=float(r[1]), labels=[str(l) for l in r[2]], params=[float(v) for v in np.atleast_1d(r[3])])
        if c["fn"] == "single":
            import numpy as np
            np.random.seed(int(c.get("np_seed", 0)))
            with np.errstate(all="ignore"):
                r = fs.single_function(list(c["labels"]), basis, ST.lik, return_params=True, **dict(c.get("kw") or {}))
            return dict(ok=True, nll=float(r[0]), DL=float(r[1]), labels=list(c["labels"]), params=[float(v) for v in np.atleast_1d(r[2])])
        return dict(ok=False, exc="UnknownCall", where="strapi_seq", text=repr(c.get("fn")), origin="harness")
    except Exception as e:
        return excinfo(e)


def run_task(task):
    out = []
    for c in task:
        t0 = time.time()
        r = one_call(c)
        r["ms"] = int(1000 * (time.time() - t0))
        out.append(r)
    return out


def forked(task, timeout):
    rfd, wfd = os.pipe()
    pid = os.fork()
    if pid == 0:
        code = 0
        try:
            os.close(rfd)
            data = json.dumps(run_task(task)).encode()
            with os.fdopen(wfd, "wb") as fh:
                fh.write(data)
        except BaseException:
            code = 3
        finally:
            os._exit(code)
    os.close(wfd)
    buf = b""
    t_end = time.time() + timeout
    died = None
    while True:
        left = t_end - time.time()
        if left <= 0:
            os.kill(pid, signal.SIGKILL)
            died = "timeout after %.0f s" % timeout
            break
        r, _, _ = select.select([rfd], [], [], min(left, 1.0))
        if r:
            chunk = os.read(rfd, 1 << 16)
            if not chunk:
                break
            buf += chunk
    os.close(rfd)
    _, status = os.waitpid(pid, 0)
    if died is None and buf:
        try:
            return json.loads(buf.decode())
        except Exception as e:
            died = "unreadable result: %r" % (e,)
    if died is None:
        died = "child ended with status %d and no result" % status
    return [dict(ok=False, exc="WorkerDied", where="strapi_seq.forked", text=died, origin="harness") for _ in task]


def main():
    spec = json.load(open(sys.argv[1]))
    outp = sys.argv[2]
    sink = open(os.devnull, "w")
    res = dict(ok=True, results=[])
    try:
        with contextlib.redirect_stdout(sink):
            setup(spec)
            if spec.get("fork"):
                for t in spec["tasks"]:
                    res["results"].append(forked(t, float(spec.get("timeout", 120))))
            else:
                for t in spec["tasks"]:
                    res["results"].append(run_task(t))
    except BaseException as e:
        res = dict(ok=False, error=excinfo(e) if isinstance(e, Exception) else dict(exc=type(e).__name__, where="strapi_seq.main", text=str(e)[:300], origin="harness"),
                   results=res["results"])
    finally:
        try:
            if getattr(ST, "lik", None) is not None:
                import shutil
                shutil.rmtree(ST.lik.fn_dir, ignore_errors=True)
        except Exception:
            pass
    with open(outp + ".tmp", "w") as fh:
        json.dump(res, fh)
    os.replace(outp + ".tmp", outp)


if __name__ == "__main__":
    main()
