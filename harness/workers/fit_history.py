"""Worker: a SEQUENCE of fitting-pipeline calls in ONE process (same-process histories for C16).

argv[1] = JSON {"data_dir":..., "calls": [{"fn_set","comp","data_file","run_name","seed","kw"}, ...],
                "memstate": path-or-null      fingerprint of every in-memory cell before/after each call (workers/memsnap.py),
                "api_probe": path-or-null     what the single-function API returns in the still fresh process and after the calls,
                "pre_recursionlimit": int-or-null}
The numpy RNG is re-seeded at the start of every call (the property fixes inputs and seed of the observed call).
"""
import json, os, sys
cfg = json.loads(sys.argv[1])
import numpy as np
import esr.fitting.likelihood as L
import esr.fitting.test_all as test_all
import esr.fitting.test_all_Fisher as fisher
import esr.fitting.match as match
import esr.fitting.combine_DL as combine
from contextlib import contextmanager

mem = None
if cfg.get("memstate"):
    sys.path.insert(0, os.path.dirname(os.path.abspath(__file__)))
    import memsnap
    mem = []


@contextmanager
def watch(entry, **info):
    if mem is None:
        yield
    else:
        with memsnap.watch(mem, entry, **info):
            yield


PROBE_BASIS = [["x", "a"], ["inv", "sqrt_abs", "square", "exp", "log_abs"], ["+", "*", "-", "/", "pow"]]
PROBE_STRINGS = ["sqrt_abs(a0*a0)*x", "log_abs(a0*a0)+x", "a0*x+a1"]
probe = {}


def api_probe(tag):
    """fit_single's string front end (no data needed): labels and complexity it derives from a formula string"""
    import esr.fitting.fit_single as fs
    import esr.generation.generator as generator
    out = []
    for s in PROBE_STRINGS:
        try:
            with watch("esr.fitting.fit_single.string_to_aifeyn", probe=tag, s=s):
                r = fs.string_to_aifeyn(s, PROBE_BASIS, verbose=False)
            out.append([s, repr(r)])
        except Exception as e:
            out.append([s, "raises %s" % type(e).__name__])
    try:
        with watch("esr.fitting.fit_single.tree_to_aifeyn", probe=tag):
            out.append(["tree", repr(fs.tree_to_aifeyn(["+", "a0", "x"], PROBE_BASIS, verbose=False))])
    except Exception as e:
        out.append(["tree", "raises %s" % type(e).__name__])
    probe[tag] = out


try:
    if cfg.get("api_probe"):
        import esr.fitting.fit_single
        api_probe("fresh")
    if cfg.get("pre_recursionlimit"):
        sys.setrecursionlimit(int(cfg["pre_recursionlimit"]))
    for k, c in enumerate(cfg["calls"]):
        np.random.seed(int(c.get("seed", 0)))
        with watch("Likelihood()", k=k):
            lik = L.GaussLikelihood(c["data_file"], c["run_name"], data_dir=cfg["data_dir"], fn_set=c["fn_set"])
        kw = c.get("kw", {})
        info = dict(k=k, args=[c["fn_set"], c["comp"]])
        with watch("esr.fitting.test_all.main", **info):
            test_all.main(c["comp"], lik, **kw)
        with watch("esr.fitting.test_all_Fisher.main", **info):
            fisher.main(c["comp"], lik)
        with watch("esr.fitting.match.main", **info):
            match.main(c["comp"], lik)
        with watch("esr.fitting.combine_DL.main", **info):
            combine.main(c["comp"], lik)
    if cfg.get("api_probe"):
        api_probe("after")
        if cfg.get("api_fit"):
            import esr.fitting.fit_single as fs
            np.random.seed(1)
            with watch("esr.fitting.fit_single.single_function"):
                fs.single_function(["+", "a0", "x"], PROBE_BASIS, lik, Niter=3, Nconv=2)
            np.random.seed(1)
            with watch("esr.fitting.fit_single.fit_from_string"):
                fs.fit_from_string("a0*x", PROBE_BASIS, lik, Niter=3, Nconv=2)
finally:
    if mem is not None:
        json.dump(mem, open(cfg["memstate"], "w"))
    if cfg.get("api_probe"):
        json.dump(probe, open(cfg["api_probe"], "w"))
