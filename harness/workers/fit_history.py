"""Worker: a SEQUENCE of fitting-pipeline calls in ONE process (same-process histories for C16).

argv[1] = JSON {"data_dir":..., "calls": [{"fn_set","comp","data_file","run_name","seed","kw"}, ...]}
The numpy RNG is re-seeded at the start of every call (the property fixes inputs and seed of the observed call).
"""
import json, sys
cfg = json.loads(sys.argv[1])
import numpy as np
import esr.fitting.likelihood as L
import esr.fitting.test_all as test_all
import esr.fitting.test_all_Fisher as fisher
import esr.fitting.match as match
import esr.fitting.combine_DL as combine
for c in cfg["calls"]:
    np.random.seed(int(c.get("seed", 0)))
    lik = L.GaussLikelihood(c["data_file"], c["run_name"], data_dir=cfg["data_dir"], fn_set=c["fn_set"])
    kw = c.get("kw", {})
    test_all.main(c["comp"], lik, **kw)
    fisher.main(c["comp"], lik)
    match.main(c["comp"], lik)
    combine.main(c["comp"], lik)
