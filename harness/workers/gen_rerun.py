"""Worker: the rerun histories of generation for ONE operator basis (through the guarded `verif_*` run-name hook).

argv[1] = JSON {"runname": "verif_...", "basis": [[..],[..],[..]], "compls": [..], "snap": dir, "phase": "A" | "B",
                "out": path of the JSON report}

phase A (one process): for every complexity n in turn
    duplicate_checker.main(runname, n)                  -> the library directory is copied to <snap>/first_<n>
    duplicate_checker.main(runname, n)   (identical)    -> copied to <snap>/same_<n>
phase B (a NEW process, the directories are what phase A left behind): for every complexity n
    duplicate_checker.main(runname, n)                  -> copied to <snap>/newproc_<n>
A call that raises is reported ({"n": .., "call": 1|2, "error": ..}) and the remaining calls of that complexity are skipped.
"""
import json, os, shutil, sys, io, contextlib
cfg = json.loads(sys.argv[1])
os.environ["ESR_VERIF"] = "1"
os.environ["ESR_VERIF_BASIS"] = json.dumps(cfg["basis"])
import esr.generation.duplicate_checker as dc
import esr.generation.generator as generator

lib = os.path.abspath(os.path.join(os.path.dirname(generator.__file__), "..", "function_library", cfg["runname"]))
report = []


def snap(tag, n):
    d = os.path.join(cfg["snap"], "%s_%d" % (tag, n))
    if os.path.isdir(d):
        shutil.rmtree(d)
    shutil.copytree(os.path.join(lib, "compl_%d" % n), d)


for n in cfg["compls"]:
    ncall = 2 if cfg["phase"] == "A" else 1
    for k in range(1, ncall + 1):
        try:
            with contextlib.redirect_stdout(io.StringIO()):
                dc.main(cfg["runname"], n)
            snap({("A", 1): "first", ("A", 2): "same", ("B", 1): "newproc"}[(cfg["phase"], k)], n)
            report.append(dict(n=n, call=k, ok=True))
        except BaseException as e:          # SystemExit / MPI Abort of the stand-in included
            report.append(dict(n=n, call=k, ok=False, error=("%s: %s" % (type(e).__name__, e))[:300]))
            break
json.dump(report, open(cfg["out"], "w"))
