"""Worker: run ESR function generation for (runname, complexities) inside the copy given by cwd/PYTHONPATH."""
import sys, json, os
runname = sys.argv[1]
compls = [int(c) for c in sys.argv[2].split(",")]
kw = json.loads(sys.argv[3]) if len(sys.argv) > 3 else {}
import esr.generation.duplicate_checker as dc
for c in compls:
    dc.main(runname, c, **kw)
