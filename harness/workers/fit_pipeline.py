"""Worker: run ESR fitting stages for one complexity on a Gaussian/Poisson likelihood with data in a scratch dir.

argv[1] = JSON: {like, data_dir, data_file, run_name, fn_set, comp, stages, seed, kw}
stages subset of ["fit","fisher","match","combine"]; every rank of the stand-in world runs this script.
"""
import json, sys, os
cfg = json.loads(sys.argv[1])
import numpy as np
from mpi4py import MPI
rank = MPI.COMM_WORLD.Get_rank()
if cfg.get("seed") is not None:
    np.random.seed(int(cfg["seed"]) + 1000 * rank)
import esr.fitting.likelihood as L
cls = {"gauss": L.GaussLikelihood, "poisson": L.PoissonLikelihood}[cfg.get("like", "gauss")]
lik = cls(cfg["data_file"], cfg["run_name"], data_dir=cfg["data_dir"], fn_set=cfg["fn_set"])
import esr.fitting.test_all as test_all
import esr.fitting.test_all_Fisher as fisher
import esr.fitting.match as match
import esr.fitting.combine_DL as combine
kw = cfg.get("kw", {})
for st in cfg.get("stages", ["fit", "fisher", "match", "combine"]):
    if st == "fit":
        test_all.main(cfg["comp"], lik, **kw.get("fit", {}))
    elif st == "fisher":
        fisher.main(cfg["comp"], lik, **kw.get("fisher", {}))
    elif st == "match":
        match.main(cfg["comp"], lik, **kw.get("match", {}))
    elif st == "combine":
        combine.main(cfg["comp"], lik, **kw.get("combine", {}))
