"""Worker (1 rank): feeds the rows of synthetic library chunks to the REAL simplifier.load_subs / simplifier.convert_params /
GaussLikelihood and records what the model takes as inputs (transformed parameters, transformed Fisher diagonal, re-evaluated
likelihoods) plus the internals the correspondence compares (the unflattened Fisher matrix).

argv: <data_dir> <data_file> <run_name> <fn_set> <comma separated complexities> <out json>"""
import sys, json, struct, itertools, warnings
warnings.filterwarnings("ignore")
data_dir, data_file, run_name, fn_set = sys.argv[1:5]
compls = [int(c) for c in sys.argv[5].split(",")]
outp = sys.argv[6]
import numpy as np
import sympy
import esr.fitting.likelihood as L
import esr.fitting.test_all_Fisher as taf
import esr.generation.simplifier as simplifier
from esr.fitting.sympy_symbols import x, a0


def f2b(v):
    return str(struct.unpack("<Q", struct.pack("<d", float(v)))[0])




class _NPProxy(object):
    """stands in for the name `np` inside simplifier.py in THIS process only: records the first argument of the inner
    `np.dot(fish, jinv)` of convert_params (the unflattened Fisher matrix); everything else is numpy itself"""
    cap = None

    def __getattr__(self, name):
        return getattr(np, name)

    def dot(self, a, b):
        if self.cap is not None and "fish" not in self.cap and isinstance(a, np.ndarray) and a.ndim == 2:
            self.cap["fish"] = np.array(a)
        return np.dot(a, b)


_NP = _NPProxy()
simplifier.np = _NP
lik = L.GaussLikelihood(data_file, run_name, data_dir=data_dir, fn_set=fn_set)
res = {}
for comp in compls:
    with open(lik.fn_dir + "/compl_%i/all_equations_%i.txt" % (comp, comp)) as fh:
        fcns = fh.readlines()
    negloglike, params_meas = taf.load_loglike(comp, lik, 0, 0, split=False)
    max_param = params_meas.shape[1]
    subs = simplifier.load_subs(lik.fn_dir + "/compl_%i/inv_subs_%i.txt" % (comp, comp), max_param)
    matches = np.atleast_1d(np.loadtxt(lik.fn_dir + "/compl_%i/matches_%i.txt" % (comp, comp)).astype(int))
    all_fish = np.atleast_2d(np.loadtxt(lik.out_dir + "/derivs_comp%d.dat" % comp))
    rows = []
    for i, fl in enumerate(fcns):
        fcn_i = fl.replace("'", "")
        nparams = int(simplifier.count_params([fcn_i], max_param)[0])
        index = int(matches[i])
        chain = subs[i]
        rec = dict(nparams=nparams, index=index, max_param=int(max_param), nllU=f2b(negloglike[index]),
                   row_type=type(chain).__name__, shape="".join("m" if isinstance(c, dict) else "n" for c in chain) or "-")
        rows.append(rec)
        if nparams == 0 or not np.isfinite(negloglike[index]):
            continue
        measured = params_meas[index, :nparams].copy()
        fish_measured = all_fish[index, :]
        rec["measured"] = [f2b(v) for v in measured]
        rec["fishrow"] = [f2b(v) for v in fish_measured]
        cap = {}
        _NP.cap = cap
        try:
            p, fish = simplifier.convert_params(measured, fish_measured, chain, n=max_param)
            if isinstance(p, float):
                p = [p]
            p = np.atleast_1d(p)
            if (np.iscomplexobj(p) and np.any(np.imag(p) != 0)) or (np.iscomplexobj(fish) and np.any(np.imag(fish) != 0)):
                rec["complex"] = 1            # sympy's principal branch of a root of a negative number: outside the real model
            rec["conv"] = "O/%s/%s" % (",".join(f2b(np.real(v)) for v in p) or "-", ",".join(f2b(np.real(v)) for v in np.atleast_1d(fish)) or "-")
        except Exception as e:
            rec["conv"] = "R"
            rec["conv_exc"] = "%s: %s" % (type(e).__name__, str(e).strip().split("\n")[0][:80])
        _NP.cap = None
        if "fish" in cap and cap["fish"].ndim == 2:
            rec["unflat"] = [f2b(v) for v in cap["fish"].ravel()]
            rec["unflat_k"] = int(cap["fish"].shape[0])
        # the identity branch of `np.nan in inv_subs` (the very object np.nan)
        if any(not isinstance(c, dict) for c in chain):
            same = [c if isinstance(c, dict) else np.nan for c in chain]
            try:
                p2, f2 = simplifier.convert_params(measured, fish_measured, same, n=max_param)
                rec["conv_same"] = "O/%s/%s" % (",".join(f2b(v) for v in np.atleast_1d(p2)), ",".join(f2b(v) for v in np.atleast_1d(f2)))
            except Exception as e:
                rec["conv_same"] = "R"
        # re-evaluated likelihoods at p with subsets zeroed, exactly as match.py:132-140 builds the callable
        if rec["conv"] != "R" and nparams <= 3 and len(p) == nparams:
            try:
                fs, eq, integrated = lik.run_sympify(fcn_i, tmax=5, try_integration=False)
                if nparams == 1:
                    eq_numpy = sympy.lambdify([x, a0], eq, modules=["numpy"])
                else:
                    all_a = list(sympy.symbols(" ".join("a%d" % j for j in range(nparams)), real=True))
                    eq_numpy = sympy.lambdify([x] + all_a, eq, modules=["numpy"])
                rec["symOk"] = 1
                tbl = []
                for mi in range(2 ** nparams):
                    q = np.array(p, dtype=float).copy()
                    for j in range(nparams):
                        if (mi >> j) & 1:
                            q[j] = 0.
                    v = lik.negloglike(q, eq_numpy, integrated=integrated)
                    tbl.append(f2b(v))
                rec["reval"] = tbl
            except Exception as e:
                rec["symOk"] = 0
                rec["sym_exc"] = type(e).__name__
    res[str(comp)] = rows
json.dump(res, open(outp, "w"))
