"""Worker for C06: every rank calls the real esr.fitting.combine_DL.main on a list of prepared table directories.

usage (under harness/mpirun.py):  c06_combine.py <jobs.json>
jobs.json = {"comp": n, "dirs": [dir, ...]}; each dir holds fn/compl_<n>/{unique_equations,all_equations,aifeyn}_<n>.txt
and out/o/codelen_matches_comp<n>.dat.  Rank 0 records an exception of `main` in <dir>/error.txt.
Exceptions are only survivable when every rank raises before the first collective (the 1-D `data[:,0]` case);
anything else ends in a hub error, which the caller reports.
"""
import contextlib, io, json, os, sys, types, warnings

warnings.filterwarnings("ignore")


def likelihood_for(d):
    return types.SimpleNamespace(is_mse=False, fn_dir=os.path.join(d, "fn"), base_out_dir=os.path.join(d, "out"),
                                 out_dir=os.path.join(d, "out", "o"), temp_dir=os.path.join(d, "out", "t"),
                                 fnprior_prefix="aifeyn_", combineDL_prefix="combine_DL_", final_prefix="final_")


def main():
    job = json.load(open(sys.argv[1]))
    import numpy as np
    np.seterr(all="ignore")
    import esr.fitting.combine_DL as cd
    for d in job["dirs"]:
        try:
            with contextlib.redirect_stdout(io.StringIO()):
                cd.main(job["comp"], likelihood_for(d))
        except Exception as e:
            if cd.rank == 0:
                with open(os.path.join(d, "error.txt"), "w") as fh:
                    fh.write("%s: %s" % (type(e).__name__, e))


if __name__ == "__main__":
    main()
