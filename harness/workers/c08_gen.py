"""Worker for C08: run the real generation (duplicate_checker.main) for one run name and several complexities
under the mpi4py stand-in, recording on rank 0 what shape_to_functions handed to the writer loop of
generate_equations (function strings, original label arrays, gathered extra label lists) per shape.

usage: c08_gen.py <runname> <compl,compl,...>
Writes <package>/function_library/<runname>/compl_<n>/c08_shapes.json next to the library files.
"""
import json, os, sys

run = sys.argv[1]
compls = [int(c) for c in sys.argv[2].split(",")]

import esr.generation.generator as generator
import esr.generation.duplicate_checker as duplicate_checker
from mpi4py import MPI

rank = MPI.COMM_WORLD.Get_rank()
rec = []
_orig = generator.shape_to_functions


def _wrapped(s, basis_functions):
    out = _orig(s, basis_functions)
    if rank == 0:
        all_fun, all_tree, extra_fun, extra_tree, extra_orig = out
        rec.append(dict(all_fun=[str(f) for f in all_fun],
                        all_tree=[[str(x) for x in t] for t in all_tree],
                        extra_tree=[[str(x) for x in t] for t in extra_tree]))
    return out


generator.shape_to_functions = _wrapped
lib = os.path.abspath(os.path.join(os.path.dirname(generator.__file__), "..", "function_library"))
for c in compls:
    del rec[:]
    duplicate_checker.main(run, c)
    if rank == 0:
        with open(os.path.join(lib, run, "compl_%d" % c, "c08_shapes.json"), "w") as fh:
            json.dump(rec, fh)
