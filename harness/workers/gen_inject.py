"""Worker: run generation of one complexity with a deterministic timeout injected.

argv: runname compl spec_json out_json
spec = {"mode": "record"}                                  -> record every time_limit activation and the lines run inside it
spec = {"mode": "inject", "faults": [[k, n], ...]}          -> deliver SIGALRM (a genuine TimeoutException through ESR's own
                                                              handler) before the n-th line event of the k-th activation
Line events are enabled only for code objects of esr/generation/simplifier.py (sys.monitoring, local events).
"""
import json, os, signal, sys
from contextlib import contextmanager

runname, compl, spec, outp = sys.argv[1], int(sys.argv[2]), json.loads(sys.argv[3]), sys.argv[4]
kw = spec.get("kw", {})

import esr.generation.simplifier as simplifier
import esr.generation.duplicate_checker as dc

state = dict(active=False, k=-1, n=0, with_line=None, log=[], fired=[], cur=None)
faults = {int(k): int(n) for k, n in spec.get("faults", [])}
orig_time_limit = simplifier.time_limit


@contextmanager
def time_limit(seconds):
    # same handler installation as ESR's own time_limit, with a generous real alarm
    with orig_time_limit(seconds):
        state["k"] += 1
        state["n"] = 0
        state["active"] = True
        fr = sys._getframe(2)
        state["cur"] = dict(k=state["k"], fn=fr.f_code.co_name, with_line=fr.f_lineno, lines=[])
        try:
            yield
        finally:
            state["active"] = False
            if spec["mode"] == "record":
                state["log"].append(state["cur"])


simplifier.time_limit = time_limit

mon = sys.monitoring
TOOL = mon.DEBUGGER_ID
mon.use_tool_id(TOOL, "esrverif")
SIMPL = os.path.abspath(simplifier.__file__)


def on_line(code, line):
    if not state["active"]:
        return
    state["n"] += 1
    if spec["mode"] == "record":
        if len(state["cur"]["lines"]) < 400:
            state["cur"]["lines"].append(line)
        return
    tgt = faults.get(state["k"])
    if tgt is not None and state["n"] == tgt:
        state["fired"].append([state["k"], tgt, code.co_name, line])
        signal.raise_signal(signal.SIGALRM)


mon.register_callback(TOOL, mon.events.LINE, on_line)
for name in dir(simplifier):
    f = getattr(simplifier, name)
    co = getattr(f, "__code__", None)
    if co is not None and os.path.abspath(co.co_filename) == SIMPL:
        mon.set_local_events(TOOL, co, mon.events.LINE)

status = "ok"
err = None
try:
    dc.main(runname, compl, **kw)
except BaseException as e:
    import traceback
    status = "raised"
    err = "%s: %s | %s" % (type(e).__name__, e, traceback.format_exc()[-900:])
with open(outp, "w") as fh:
    json.dump(dict(status=status, error=err, activations=state["k"] + 1, log=state["log"], fired=state["fired"]), fh)
sys.exit(0 if status == "ok" else 1)
