"""Worker: run generation of one complexity with a deterministic timeout injected.

argv: runname compl spec_json out_json
spec = {"mode": "record"}                                  -> record every time_limit activation and the lines run inside it
spec = {"mode": "inject", "faults": [[k, n], ...]}          -> deliver SIGALRM (a genuine TimeoutException through ESR's own
                                                              handler) before the n-th line event of the k-th activation
spec = {"mode": "inject", "persist": [{"fn":.., "with_line":.., "lines":[..], "sel": SEL}, ...]}
                                                           -> PERSISTENT fault: SIGALRM the first time one of `lines` (a statement
                                                              and its twins in the other arm of a flag conditional, e.g. the
                                                              `if expand_fun:` / `else:` re-print) is about to run in
                                                              EVERY activation of the block (fn, with_line) whose function is
                                                              selected by SEL - in every round, in every later call (second
                                                              do_sympy loop, check_results): "a slow function is slow every time"
   SEL = {"kind": "all"} | {"kind": "exact", "seed": [strings]} | {"kind": "lineage", "seed": [strings]}
   The function of an activation is the string `L[V]` of the enclosing `for V in range(len(L))` loop read when the block is
   entered (derived from the source by ast; `keys[j]` in expand_or_factor).  "lineage" adds to the selected set every string a
   selected function is rewritten to by a block that ran to completion (the rewritten form of a slow function is slow too).
Line events are enabled only for code objects of esr/generation/simplifier.py (sys.monitoring, local events).
"""
import json, os, signal, sys
from contextlib import contextmanager

runname, compl, spec, outp = sys.argv[1], int(sys.argv[2]), json.loads(sys.argv[3]), sys.argv[4]
kw = spec.get("kw", {})

import esr.generation.simplifier as simplifier
import esr.generation.duplicate_checker as dc

state = dict(active=False, k=-1, n=0, with_line=None, log=[], fired=[], cur=None, nfired=0, armed=[], selected_log=[])
faults = {int(k): int(n) for k, n in spec.get("faults", [])}
persist = spec.get("persist", [])
for ps in persist:
    ps["_set"] = set(ps.get("sel", {}).get("seed", []))
    ps["_lines"] = set(int(l) for l in ps["lines"])
orig_time_limit = simplifier.time_limit

# ---- which function a block is working on: `L[V]` of the enclosing `for V in range(len(L))` -------------------------
import ast as _ast
FID_FALLBACK = {"expand_or_factor": ("keys", "j")}
FID = {}       # (fn, with_line) -> (list name, index name)
try:
    _tree = _ast.parse(open(simplifier.__file__).read())
    for _fn in _tree.body:
        if not isinstance(_fn, _ast.FunctionDef):
            continue

        def _walk(body, loop):
            for st in body:
                lp = loop
                if isinstance(st, _ast.For) and isinstance(st.target, _ast.Name) and isinstance(st.iter, _ast.Call) \
                        and getattr(st.iter.func, "id", None) == "range" and len(st.iter.args) == 1 \
                        and isinstance(st.iter.args[0], _ast.Call) and getattr(st.iter.args[0].func, "id", None) == "len" \
                        and isinstance(st.iter.args[0].args[0], _ast.Name):
                    lp = (st.iter.args[0].args[0].id, st.target.id)
                elif isinstance(st, (_ast.For, _ast.While)):
                    lp = FID_FALLBACK.get(_fn.name) if loop is None else loop
                if isinstance(st, _ast.With):
                    FID[(_fn.name, st.lineno)] = lp or FID_FALLBACK.get(_fn.name)
                for f in ("body", "orelse", "finalbody"):
                    if isinstance(getattr(st, f, None), list):
                        _walk(getattr(st, f), lp)
                for h in getattr(st, "handlers", []) or []:
                    _walk(h.body, lp)
        _walk(_fn.body, None)
except Exception:
    FID = {}


def _fid(fr, fn, with_line):
    e = FID.get((fn, with_line))
    if not e:
        return None
    try:
        v = fr.f_locals[e[0]][fr.f_locals[e[1]]]
        return v if isinstance(v, str) else str(v)
    except Exception:
        return None


def _selected(ps, fid):
    kind = ps.get("sel", {}).get("kind", "all")
    if kind == "all":
        return True
    return fid is not None and fid in ps["_set"]


@contextmanager
def time_limit(seconds):
    # same handler installation as ESR's own time_limit, with a generous real alarm
    with orig_time_limit(seconds):
        state["k"] += 1
        state["n"] = 0
        state["active"] = True
        fr = sys._getframe(2)
        fn, wl = fr.f_code.co_name, fr.f_lineno
        fid = _fid(fr, fn, wl)
        state["cur"] = dict(k=state["k"], fn=fn, with_line=wl, fid=fid, lines=[])
        # persistent faults armed for this activation: line -> spec
        state["armed"] = [ps for ps in persist if ps["fn"] == fn and int(ps["with_line"]) == wl and _selected(ps, fid)]
        try:
            yield
        except BaseException:
            raise
        else:
            # the block ran to completion: follow a selected function through its rewrite
            if persist:
                new = _fid(fr, fn, wl)
                if new is not None and fid is not None and new != fid:
                    for ps in persist:
                        if ps.get("sel", {}).get("kind") == "lineage" and fid in ps["_set"] and new not in ps["_set"]:
                            ps["_set"].add(new)
                            state["selected_log"].append([fid, new])
        finally:
            state["active"] = False
            state["armed"] = []
            if spec["mode"] == "record":
                state["log"].append(state["cur"])


simplifier.time_limit = time_limit

mon = sys.monitoring
TOOL = mon.DEBUGGER_ID
mon.use_tool_id(TOOL, "esrverif")
SIMPL = os.path.abspath(simplifier.__file__)


def on_line(code, line):
    if not state["active"]:
        return
    state["n"] += 1
    if spec["mode"] == "record":
        if len(state["cur"]["lines"]) < 400:
            state["cur"]["lines"].append(line)
        return
    tgt = faults.get(state["k"])
    if tgt is not None and state["n"] == tgt:
        state["fired"].append([state["k"], tgt, code.co_name, line])
        state["nfired"] += 1
        signal.raise_signal(signal.SIGALRM)
        return
    for ps in state["armed"]:
        if line in ps["_lines"]:
            state["armed"] = []          # once per activation
            state["nfired"] += 1
            if len(state["fired"]) < 60:
                state["fired"].append([state["k"], state["n"], code.co_name, line, state["cur"]["fid"]])
            signal.raise_signal(signal.SIGALRM)
            return


mon.register_callback(TOOL, mon.events.LINE, on_line)
for name in dir(simplifier):
    f = getattr(simplifier, name)
    co = getattr(f, "__code__", None)
    if co is not None and os.path.abspath(co.co_filename) == SIMPL:
        mon.set_local_events(TOOL, co, mon.events.LINE)

status = "ok"
err = None
try:
    dc.main(runname, compl, **kw)
except BaseException as e:
    import traceback
    status = "raised"
    err = "%s: %s | %s" % (type(e).__name__, e, traceback.format_exc()[-900:])
with open(outp, "w") as fh:
    json.dump(dict(status=status, error=err, activations=state["k"] + 1, log=state["log"], fired=state["fired"], nfired=state["nfired"],
                   lineage=state["selected_log"][:40]), fh)
sys.exit(0 if status == "ok" else 1)
