"""Worker for C12 (purity under histories): one long-lived ESRPrinter, sequences of prints and INTERRUPTED prints.

argv: in_json out_json
in  = {"mode": "hist",   "seed": int, "bases": [enc tree, ...], "deep": bool, "pts_seed": int}
      {"mode": "replay", "ops": [op, ...], "exprs": [enc tree, ...], "check": index of the op whose string is compared}
op  = ["new"]                          a new ESRPrinter replaces the long-lived one (start of a history)
      ["p", i]                         P.doprint(exprs[i])
      ["s", i]                         custom_printer.sstr(exprs[i])      (module-level entry: a printer of its own per call)
      ["i", i, n, method, line]        P.doprint(exprs[i]) under simplifier.time_limit with a genuine SIGALRM raised
                                       (signal.raise_signal) when the n-th line event of custom_printer.py inside this print is
                                       about to run -> ESR's own handler raises simplifier.TimeoutException there
      ["is", i, n, method, line]       the same for sstr

As ESR does (simplifier.sympy_simplify / expand_or_factor / initial_sympify): the printer object lives for the whole
sequence and the TimeoutException is caught by the caller, which carries on.  Nothing is ever raised from the monitoring
callback itself; line events are enabled only for the code objects of esr/generation/custom_printer.py.

Oracle (the property's statement): every COMPLETED print returns the string a fresh printer gives for that expression in
a fresh state (computed for the whole plan at process start, before any history), and that string reads back to the same
function under both symbol tables (props.c12.oracle).
"""
import contextlib, io, json, os, random, signal, sys, time

import props.c12 as c

mon = sys.monitoring
TOOL = mon.DEBUGGER_ID
ST = dict(active=False, n=0, target=None, record=None, fired=None)


def _on_line(code, line):
    if not ST["active"]:
        return
    ST["n"] += 1
    if ST["record"] is not None:
        ST["record"].append((code.co_name, line))
        return
    if ST["n"] == ST["target"]:
        ST["fired"] = (code.co_name, line)
        ST["target"] = None
        signal.raise_signal(signal.SIGALRM)


def _code_objects(cp):
    import types
    seen, out = set(), []

    def walk(co):
        if id(co) in seen:
            return
        seen.add(id(co))
        out.append(co)
        for k in co.co_consts:
            if isinstance(k, types.CodeType):
                walk(k)
    fname = os.path.abspath(cp.__file__)

    def visit(obj):
        f = getattr(obj, "__wrapped__", None)
        if f is not None:
            visit(f)
        f = getattr(obj, "__func__", obj)
        co = getattr(f, "__code__", None)
        if co is not None and os.path.abspath(co.co_filename) == fname:
            walk(co)
    for name, obj in list(vars(cp).items()):
        if isinstance(obj, type) and getattr(obj, "__module__", None) == cp.__name__:
            for _, m in list(vars(obj).items()):
                if isinstance(m, property):
                    for f in (m.fget, m.fset, m.fdel):
                        if f is not None:
                            visit(f)
                else:
                    visit(m)
        else:
            visit(obj)
    return out


def setup():
    g = c.G_tables()
    import esr.generation.custom_printer as cp
    mon.use_tool_id(TOOL, "esrverif-c12-history")
    mon.register_callback(TOOL, mon.events.LINE, _on_line)
    cos = _code_objects(cp)
    for co in cos:
        mon.set_local_events(TOOL, co, mon.events.LINE)
    g["cp"] = cp
    g["ncode"] = len(cos)
    return g


def _quiet():
    return contextlib.redirect_stdout(io.StringIO())


def record(g, call, e):
    """line events (method, line) of one completed print on a scratch printer"""
    ST.update(active=True, n=0, target=None, record=[], fired=None)
    try:
        with _quiet():
            with g["simplifier"].time_limit(60):
                call(e)
    finally:
        ev = ST["record"]
        ST.update(active=False, record=None)
    return ev


def interrupted(g, call, e, n):
    """-> ("timeout", (method, line)) | ("completed", string): a print with SIGALRM at the n-th line event"""
    simplifier = g["simplifier"]
    ST.update(active=True, n=0, target=n, record=None, fired=None)
    try:
        try:
            with _quiet():
                with simplifier.time_limit(60):          # exactly the construction around esrp.doprint in sympy_simplify
                    s = call(e)
        finally:
            ST["active"] = False
            ST["target"] = None
    except simplifier.TimeoutException:
        return "timeout", ST["fired"]
    return "completed", s


class Runner:
    """executes ops on one long-lived printer"""

    def __init__(self, g, exprs):
        self.g, self.exprs = g, exprs
        self.P = g["ESRPrinter"]()

    def call_of(self, kind):
        if kind in ("p", "i"):
            return self.P.doprint
        return self.g["cp"].sstr

    def do(self, op):
        """-> completed string or None"""
        k = op[0]
        if k == "new":
            self.P = self.g["ESRPrinter"]()
            return None
        e = self.exprs[op[1]]
        if k in ("p", "s"):
            with _quiet():
                return self.call_of(k)(e)
        st, v = interrupted(self.g, self.call_of(k), e, op[2])
        return v if st == "completed" else None


def related(g, e, rng, others):
    """sub-expressions, super-expressions, -1 <-> -2 variants of e, and a few other expressions"""
    sp = g["sympy"]
    x, a = g["x"], g["a"]
    subs = []
    for s_ in sp.preorder_traversal(e):
        if s_.args and s_ != e and s_ not in subs:
            subs.append(s_)
    rng.shuffle(subs)
    subs = sorted(subs[:6], key=lambda t: -t.count_ops())
    sup = [lambda: e ** 2, lambda: x / e, lambda: sp.sin(e), lambda: e + x, lambda: a[0] * sp.exp(e), lambda: 1 / e, lambda: e * (x + a[1]),
           lambda: sp.sqrt(sp.Abs(e)), lambda: e - a[2], lambda: -e, lambda: (e + 1) ** (-2)]
    rng.shuffle(sup)
    supers = []
    for f in sup[:3]:
        try:
            supers.append(sp.sympify(f()))
        except Exception:
            pass
    var = []
    for m in ({sp.Integer(-1): sp.Integer(-2)}, {sp.Integer(-2): sp.Integer(-1)}, {sp.Integer(2): sp.Integer(3)}):
        try:
            v = e.xreplace(m)
            if v != e:
                var.append(v)
        except Exception:
            pass
    oth = rng.sample(others, min(2, len(others)))
    return subs, supers, var[:2], oth


def in_scope(g, e):
    sp = g["sympy"]
    try:
        if e.has(sp.zoo, sp.nan, sp.oo, -sp.oo, sp.I):
            return None
        line = " ".join(c.serialise(e))
        t = c.enc(e)
        if c.dec(t) != e or sp.srepr(c.dec(t)) != sp.srepr(e):
            return None
        return line
    except (c.OutOfScope, Exception):
        return None


def run_hist(inp):
    g = setup()
    sp = g["sympy"]
    rng = random.Random(inp["seed"])
    deep = inp.get("deep", False)
    t0 = time.time()
    bases = []
    for t in inp["bases"]:
        e = c.dec(t)
        if in_scope(g, e) is not None:
            bases.append(e)
    # ---- plan (no printing yet)
    exprs, index, lines = [], {}, []

    def idx(e):
        k = sp.srepr(e)
        if k not in index:
            ln = in_scope(g, e)
            if ln is None:
                return None
            index[k] = len(exprs)
            exprs.append(e)
            lines.append(ln)
        return index[k]
    plan = []
    for e in bases:
        subs, supers, var, oth = related(g, e, rng, bases)
        rel = [i for i in (idx(r) for r in subs + supers + var + oth) if i is not None]
        plan.append((idx(e), rel))
    # ---- references: a fresh printer each, in this still fresh process (no history has happened)
    ref, ref_fail = [], []
    pts = c.points(inp["pts_seed"])
    for i, e in enumerate(exprs):
        with _quiet():
            ref.append(g["ESRPrinter"]().doprint(e))
    for i, e in enumerate(exprs):
        with _quiet():
            s2 = g["cp"].sstr(e)
        if s2 != ref[i]:
            ref_fail.append(dict(i=i, what="sstr(e) = %r but ESRPrinter().doprint(e) = %r in a fresh process" % (s2, ref[i])))
    n_oracle = 0
    if inp.get("oracle", True):
        for i, e in enumerate(exprs):
            try:
                fails, nfin, _ = c.oracle(e, ref[i], pts, False)
            except Exception as ex:                      # noqa
                continue
            n_oracle += 1
            for table, what in fails:
                ref_fail.append(dict(i=i, table=table, what="[%s] %s" % (table, what)))
    # ---- histories
    R = Runner(g, exprs)
    log = [["new"]]
    failures, sites_seen = [], {}
    n_int = n_timeout = n_completed_int = n_checks = 0
    seg_start = 0

    def minimise(fail_op_i, bad_i, int_op, want):
        """shortest history that still shows it: [interrupt, print] on a new printer, else this base's segment, else everything"""
        for cand in ([["new"], int_op, ["p", bad_i]] if int_op else None, [["new"]] + log[seg_start:], list(log)):
            if not cand:
                continue
            Q = Runner(g, exprs)
            got = None
            for op in cand:
                got = Q.do(op)
            if got is not None and got != want:
                return cand, got
        return list(log), None

    def check(i, kind="p", int_op=None):
        nonlocal n_checks, R
        op = [kind, i]
        log.append(op)
        s = R.do(op)
        n_checks += 1
        if s != ref[i]:
            ops, got2 = minimise(len(log) - 1, i, int_op, ref[i])
            failures.append(dict(expr=i, got=s, want=ref[i], ops=ops, last_interrupt=int_op, reproduced=got2 is not None))
            log.append(["new"])
            R.do(["new"])
            return False
        return True

    stop = False
    for bi, (ei, rel) in enumerate(plan):
        if stop or len(failures) >= 4:
            break
        seg_start = len(log)
        e = exprs[ei]
        # warm the long-lived printer with related expressions first (half of the bases): caches filled by completed prints
        if bi % 2 == 0:
            for r in rel[:3]:
                check(r)
        ev = record(g, g["ESRPrinter"]().doprint, e)
        occ = {}
        for n, site in enumerate(ev, 1):
            occ.setdefault(site, []).append(n)
        targets = []
        for site, ns in occ.items():
            targets.append((ns[0], site))
            if len(ns) > 1 and (deep or rng.random() < 0.35):
                targets.append((rng.choice(ns[1:]), site))
            if deep and len(ns) > 2:
                targets.append((ns[-1], site))
        rng.shuffle(targets)
        cap = 400 if deep else 90
        for n, site in targets[:cap]:
            sites_seen[site] = sites_seen.get(site, 0) + 1
            use_sstr = rng.random() < 0.1
            op = ["is" if use_sstr else "i", ei, n, site[0], site[1]]
            log.append(op)
            n_int += 1
            got = R.do(op)
            if ST["fired"]:
                op[3], op[4] = ST["fired"]          # where the alarm was actually raised (sstr adds its own two statements)
            if got is None:
                n_timeout += 1
            else:
                n_completed_int += 1          # the print finished before the n-th event (shorter path): a completed print
                if got != ref[ei]:
                    ops, got2 = minimise(len(log) - 1, ei, None, ref[ei])
                    failures.append(dict(expr=ei, got=got, want=ref[ei], ops=ops, last_interrupt=op, reproduced=got2 is not None,
                                         note="print under an armed interruption completed with another string"))
                    log.append(["new"]); R.do(["new"])
                    break
            ok = check(ei, "p", op)
            if ok and rng.random() < 0.15:
                ok = check(ei, "s", op)
            k = 0
            while ok and k < len(rel):
                ok = check(rel[k], "p", op)
                k += 1
            if not ok:
                break
            if time.time() - t0 > inp.get("budget_s", 150):
                stop = True
                break
    return dict(exprs=[c.enc(e) for e in exprs], srepr=[sp.srepr(e) for e in exprs], lines=lines, ref=ref, ref_fail=ref_fail[:10],
                failures=failures, bases=len(plan), bases_done=bi + 1 if plan else 0, interruptions=n_int, timeouts=n_timeout,
                completed_under_interruption=n_completed_int, checks=n_checks, oracle_roundtrips=n_oracle,
                sites=sorted(["%s:%d" % s for s in sites_seen]), code_objects=g["ncode"], stopped_on_budget=stop,
                wall_s=round(time.time() - t0, 1))


def run_replay(inp):
    g = setup()
    exprs = [c.dec(t) for t in inp["exprs"]]
    R = Runner(g, exprs)
    out = []
    for op in inp["ops"]:
        s = R.do(op)
        out.append(s)
    last = inp["ops"][-1]
    with _quiet():
        fresh = g["ESRPrinter"]().doprint(exprs[last[1]])
    return dict(strings=out, fresh=fresh, last=out[-1])


if __name__ == "__main__":
    inp = json.load(open(sys.argv[1]))
    res = run_replay(inp) if inp["mode"] == "replay" else run_hist(inp)
    with open(sys.argv[2], "w") as fh:
        json.dump(res, fh)
