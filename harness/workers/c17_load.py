"""Worker for C17: runs the real `simplifier.load_subs` on every job of a job file, on this rank.

argv: jobs.json outprefix
jobs.json: [{"file": path, "k": max_param, "use_sympy": bool}, ...]
writes <outprefix>.<rank>.pkl: list of ("ok", result) | ("raise", repr) per job (every rank: bcast_res=True)
"""
import json, pickle, sys


def main():
    jobs = json.load(open(sys.argv[1]))
    import esr.generation.simplifier as S
    out = []
    for jb in jobs:
        try:
            res = S.load_subs(jb["file"], jb["k"], use_sympy=jb["use_sympy"])
            out.append(("ok", res))
        except Exception as e:          # a raise on one rank would hang real MPI; the hub reports it
            out.append(("raise", repr(e)))
            with open("%s.%d.pkl" % (sys.argv[2], S.rank), "wb") as fh:
                pickle.dump(out, fh)
            raise
    with open("%s.%d.pkl" % (sys.argv[2], S.rank), "wb") as fh:
        pickle.dump(out, fh)


if __name__ == "__main__":
    main()
