"""Worker for C17: runs the real `simplifier.load_subs` on every job of a job file, on this rank.

argv: jobs.json outprefix
jobs.json: [{"file": path, "k": max_param, "use_sympy": bool[, "faults": [[fn, line, n], ...], "root": stage]}, ...]
  with "faults": a genuine SIGALRM is delivered at those sites on EVERY rank (harness/inject.py; a site only exists while a time
  limit of the code under test is active), and the per-job entry is ("ok", result, fired) | ("timeout", repr, fired)
writes <outprefix>.<rank>.pkl: list of ("ok", result) | ("raise", repr) per job (every rank: bcast_res=True)
"""
import json, os, pickle, sys


def main():
    jobs = json.load(open(sys.argv[1]))
    import esr.generation.simplifier as S
    out = []
    for jb in jobs:
        try:
            if jb.get("faults") is not None:
                sys.path.insert(0, os.path.dirname(os.path.dirname(os.path.abspath(__file__))))
                import inject
                inj = inject.Injector(S, ["load_subs"], root=jb.get("root"))
                res, fired = inj.inject(jb["faults"], S.load_subs, jb["file"], jb["k"], use_sympy=jb["use_sympy"])
                if res[0] == "raise":
                    raise res[1]
                out.append(("ok", res[1], [list(s) for s in fired]))
                continue
            res = S.load_subs(jb["file"], jb["k"], use_sympy=jb["use_sympy"])
            out.append(("ok", res))
        except Exception as e:          # a raise on one rank would hang real MPI; the hub reports it
            out.append(("raise", repr(e)))
            with open("%s.%d.pkl" % (sys.argv[2], S.rank), "wb") as fh:
                pickle.dump(out, fh)
            raise
    with open("%s.%d.pkl" % (sys.argv[2], S.rank), "wb") as fh:
        pickle.dump(out, fh)


if __name__ == "__main__":
    main()
