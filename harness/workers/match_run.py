"""Worker: run the real esr.fitting.match.main on a synthetic library inside the copy given by cwd/PYTHONPATH.

argv: <data_dir> <data_file> <run_name> <fn_set> <comma separated complexities>
The Gaussian likelihood object is the repo's own GaussLikelihood (data file: x y sigma per line).
`<data_dir>/fitting` is created by the harness beforehand (the constructor's check-then-mkdir is C14's subject)."""
import sys
data_dir, data_file, run_name, fn_set = sys.argv[1:5]
compls = [int(c) for c in sys.argv[5].split(",")]
import esr.fitting.likelihood as L
import esr.fitting.match as match
lik = L.GaussLikelihood(data_file, run_name, data_dir=data_dir, fn_set=fn_set)
for c in compls:
    match.main(c, lik)
