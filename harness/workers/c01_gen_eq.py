"""Worker (C01): run generator.generate_equations(n, basis, dir) for a list of (n, basis) cases under the launcher's ranks.
argv: <json list of [n, basis]> <output root>.  Rank 0 prints a marker line before each case so that its stdout can be split."""
import sys, json, os
cases = json.loads(sys.argv[1])
root = sys.argv[2]
from mpi4py import MPI
comm = MPI.COMM_WORLD
comm.Barrier()                      # connect every rank to the hub before anything can fail
import esr.generation.generator as g
_fat = getattr(g, "find_additional_trees", None)
if _fat is not None:
    def _fat_tolerant(tree, labels, basis, *a, **k):
        # the rewriter proposing EXTRA trees is not C01's subject (known finding F13 of C11): the original trees do not depend on it
        try:
            return _fat(tree, labels, basis, *a, **k)
        except Exception:
            return [tree], [labels]
    g.find_additional_trees = _fat_tolerant
for i, (n, basis) in enumerate(cases):
    d = os.path.join(root, "case%d" % i)
    if comm.Get_rank() == 0:
        os.makedirs(d, exist_ok=True)
        print("\n@@C01CASE %d" % i)
        sys.stdout.flush()
    comm.Barrier()
    g.generate_equations(int(n), basis, d)
    comm.Barrier()
