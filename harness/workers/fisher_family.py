"""Worker for C07 (row / call independence of the Fisher stage): runs the REAL `test_all_Fisher.main` (with the real
`convert_params`, `load_loglike`, `get_functions`) on every rank over synthetic libraries.

argv: jobs.json outfile
jobs.json: dict(harness=<dir>, tmp=<dir>, jobs=[dict(comp, dir, data, tryInt, listing=[case, ...])])
A case is a C07 case (harness/props/c07.py: fcn, n, theta, optional pattern / hinj) plus `nll1` (the stage-1 likelihood written to the
table, may be "nan"/"inf") and `ne` (None | "first": NameError at the first likelihood evaluation of attempt 1, i.e. before the snap |
"after-snap": NameError at the first evaluation AFTER the Hessian of attempt 1, i.e. after the in-place snap).
The same instrumentation as the in-process calls of the check is used (props.c07._env: numdifftools.Hessian wrapped for the
scripted curvature failures, the Gaussian likelihood optionally non-finite on scripted zero patterns); which case is being evaluated is
told to it from `run_sympify`, which `main` calls once before each attempt.
Rank 0 writes <outfile>: per job the text rows of codelen_comp<c>_deriv.dat and derivs_comp<c>.dat.
"""
import json, os, sys, types


def main():
    spec = json.load(open(sys.argv[1]))
    sys.path.insert(0, spec["harness"])
    import numpy as np
    from props import c07
    import esr.fitting.test_all as TA
    import esr.fitting.test_all_Fisher as TF
    from mpi4py import MPI
    comm = MPI.COMM_WORLD
    rank = comm.Get_rank()
    ctx = types.SimpleNamespace(tmp=os.path.join(spec["tmp"], "rank%d" % rank), _c07=None)
    os.makedirs(ctx.tmp, exist_ok=True)
    env = c07._env(ctx)
    rec = env["rec"]
    state = dict(seq=[], pos=0, cur=None, posthess=0)
    real_gf = TA.get_functions

    class Lik(env["Lik"]):
        def run_sympify(self, fcn_i, **kw):
            if state["pos"] >= len(state["seq"]):
                raise RuntimeError("fisher_family: run_sympify called %d times, %d expected on this rank" % (state["pos"] + 1, len(state["seq"])))
            case, attempt = state["seq"][state["pos"]]
            state["pos"] += 1
            if fcn_i.strip() != case["fcn"]:
                raise RuntimeError("fisher_family: call %d is for %r, expected %r" % (state["pos"], fcn_i, case["fcn"]))
            state["cur"], state["attempt"], state["evals"], state["post"] = case, attempt, 0, 0
            rec.hcalls, rec.post, rec.in_h = [], [], False
            rec.pattern, rec.hinj = case.get("pattern"), case.get("hinj")
            return env["Lik"].run_sympify(self, fcn_i, **kw)

        def negloglike(self, a, eq_numpy, **kw):
            case = state["cur"]
            if case is not None and case.get("ne") and state["attempt"] == 1:
                if case["ne"] == "first" and state["evals"] == 0:
                    state["evals"] += 1
                    raise NameError("scripted: function not implemented in numpy")
                if case["ne"] == "after-snap" and not rec.in_h and rec.hcalls and state["post"] == 0:
                    state["post"] += 1
                    raise NameError("scripted: raised by the first likelihood evaluation after the Hessian")
            state["evals"] += 1
            return env["Lik"].negloglike(self, a, eq_numpy, **kw)

    out = []
    for jb in spec["jobs"]:
        c = int(jb["comp"])
        d = jb["dir"]
        data = jb["data"]
        if rank == 0:
            os.makedirs(os.path.join(d, "fn", "compl_%d" % c), exist_ok=True)
            os.makedirs(os.path.join(d, "out", "o"), exist_ok=True)
            os.makedirs(os.path.join(d, "out", "t"), exist_ok=True)
            np.savetxt(os.path.join(d, "data.txt"), np.c_[data["x"], data["y"], data["s"]], fmt="%.17g")
            with open(os.path.join(d, "fn", "compl_%d" % c, "unique_equations_%d.txt" % c), "w") as fh:
                fh.writelines(cs["fcn"] + "\n" for cs in jb["listing"])
            with open(os.path.join(d, "out", "o", "negloglike_comp%d.dat" % c), "w") as fh:
                for cs in jb["listing"]:
                    th = list(cs["theta"]) + [0.0] * (4 - len(cs["theta"]))
                    fh.write(" ".join("%.17g" % float(v) for v in [cs["nll1"]] + th) + "\n")
        comm.Barrier()
        lik = Lik("data.txt", "fam%d_r%d" % (c, rank), data_dir=d)
        lik.fn_dir, lik.base_out_dir = os.path.join(d, "fn"), os.path.join(d, "out")
        lik.out_dir, lik.temp_dir = os.path.join(d, "out", "o"), os.path.join(d, "out", "t")

        def get_functions(comp, likelihood, **kw):
            res = real_gf(comp, likelihood, **kw)
            lo, hi = int(res[1]), int(res[2])
            seq = []
            for cs in jb["listing"][lo:hi]:
                v = float(cs["nll1"])
                if v != v or v in (float("inf"), float("-inf")):
                    continue
                seq.append((cs, 1))
                if cs.get("ne") and jb["tryInt"]:
                    seq.append((cs, 2))
            state["seq"], state["pos"], state["cur"] = seq, 0, None
            return res
        TA.get_functions = get_functions
        with np.errstate(all="ignore"):
            TF.main(c, lik, tmax=5, try_integration=bool(jb["tryInt"]))
        TA.get_functions = real_gf
        if state["pos"] != len(state["seq"]):
            raise RuntimeError("fisher_family: run_sympify called %d times, %d expected on rank %d" % (state["pos"], len(state["seq"]), rank))
        res = None
        if rank == 0:
            res = [open(os.path.join(lik.out_dir, "codelen_comp%d_deriv.dat" % c)).read().splitlines(),
                   open(os.path.join(lik.out_dir, "derivs_comp%d.dat" % c)).read().splitlines()]
        out.append(res)
    if rank == 0:
        with open(sys.argv[2], "w") as fh:
            json.dump(out, fh)


if __name__ == "__main__":
    main()
