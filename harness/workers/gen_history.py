"""Worker: a sequence of generation calls in ONE process; optionally an audit trace of file effects of the last call.

argv[1] = JSON {"calls": [[runname, compl, basis-or-null], ...], "trace": path-or-null}
"""
import json, os, sys
cfg = json.loads(sys.argv[1])
events = []
tracing = [False]


def hook(ev, args):
    if not tracing[0]:
        return
    if ev == "open":
        path, mode, flags = args
        if isinstance(path, (str, bytes)):
            events.append(["open", os.fsdecode(path), mode if isinstance(mode, str) else "", int(flags) if isinstance(flags, int) else 0])
    elif ev == "os.system":
        events.append(["system", os.fsdecode(args[0])])
    elif ev == "os.remove":
        events.append(["remove", os.fsdecode(args[0])])


sys.addaudithook(hook)
import esr.generation.duplicate_checker as dc
calls = cfg["calls"]
for k, (runname, compl, basis) in enumerate(calls):
    if basis is not None:
        os.environ["ESR_VERIF_BASIS"] = json.dumps(basis)
    if k == len(calls) - 1 and cfg.get("trace"):
        tracing[0] = True
    dc.main(runname, compl)
tracing[0] = False
if cfg.get("trace"):
    json.dump(events, open(cfg["trace"], "w"))
