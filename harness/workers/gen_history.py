"""Worker: a sequence of generation calls in ONE process; optionally an audit trace of file effects of the last call,
and optionally (cfg["memstate"]) a fingerprint of every in-memory cell before/after each call (workers/memsnap.py).

argv[1] = JSON {"calls": [[runname, compl, basis-or-null], ...], "trace": path-or-null, "memstate": path-or-null,
                "pre_recursionlimit": int-or-null   (what an earlier fitting call at complexity >= 8 would have left)}
"""
import json, os, sys
from contextlib import nullcontext
cfg = json.loads(sys.argv[1])
events = []
tracing = [False]


def hook(ev, args):
    if not tracing[0]:
        return
    if ev == "open":
        path, mode, flags = args
        if isinstance(path, (str, bytes)):
            events.append(["open", os.fsdecode(path), mode if isinstance(mode, str) else "", int(flags) if isinstance(flags, int) else 0])
    elif ev == "os.system":
        events.append(["system", os.fsdecode(args[0])])
    elif ev == "os.remove":
        events.append(["remove", os.fsdecode(args[0])])
    elif ev == "os.rename":                      # os.rename / os.replace / shutil.move
        events.append(["rename", os.fsdecode(args[0]), os.fsdecode(args[1])])


sys.addaudithook(hook)
import esr.generation.duplicate_checker as dc
mem = None
if cfg.get("memstate"):
    sys.path.insert(0, os.path.dirname(os.path.abspath(__file__)))
    import memsnap
    mem = []
if cfg.get("pre_recursionlimit"):
    sys.setrecursionlimit(int(cfg["pre_recursionlimit"]))
calls = cfg["calls"]
try:
    for k, (runname, compl, basis) in enumerate(calls):
        if basis is not None:
            os.environ["ESR_VERIF_BASIS"] = json.dumps(basis)
        last = (k == len(calls) - 1 and bool(cfg.get("trace")))
        with (memsnap.watch(mem, "esr.generation.duplicate_checker.main", args=[runname, compl], k=k) if mem is not None else nullcontext()):
            tracing[0] = last
            try:
                dc.main(runname, compl)
            finally:
                tracing[0] = False
finally:
    tracing[0] = False
    if mem is not None:
        json.dump(mem, open(cfg["memstate"], "w"))
if cfg.get("trace"):
    json.dump(events, open(cfg["trace"], "w"))
