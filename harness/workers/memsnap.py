"""In-process fingerprints of every in-memory cell that survives between two ESR calls (C16, dynamic tie of Generated/MemState.lean).

A snapshot maps cell ids (the ids of harness/extractors/memstate.py) to a short hash of the cell's content:
  <module>.<name>                       every module-level name of every loaded esr.* module (bindings of functions/classes too)
  <module>.<name>[a<i>]                 the a0,a1,... keys of a module-level dict (the rest of the dict is <module>.<name>)
  <module>.<qualname>(<param>)          every default argument (positional and keyword-only) of every esr function/method
  <module>.<qualname>.<attr>            every function attribute (f.__dict__) and every class attribute
  np.random, random, signal.<SIG>, signal.alarm, warnings.filters, warnings.registry, os.environ, cwd, sys.recursionlimit,
  np.errstate, np.printoptions, sympy.printing, sympy.cache, gc.settings, sys.path, sys.argv, matplotlib.pyplot
`watch(records, entry)` snapshots before and after the call it wraps and appends
  {"entry", "ncells", "changed": {cell: [before, after]}, "appeared": [...], "vanished": [...], "ms"}.
"""
import hashlib, os, re, sys, time, types
from contextlib import contextmanager

_ADDR = re.compile(r" at 0x[0-9a-fA-F]+|0x[0-9a-fA-F]{6,}")
_AKEY = re.compile(r"^a\d+$")


def _h(s):
    return hashlib.sha1(s.encode("utf-8", "replace")).hexdigest()[:12] + ":" + s[:60].replace("\n", " ")


def fp(o, depth=0):
    """content fingerprint (string); object identity never enters"""
    if o is None or isinstance(o, (bool, int, float, complex, str, bytes)):
        return repr(o)
    if depth > 5:
        return "<deep %s>" % type(o).__name__
    if isinstance(o, (list, tuple)):
        return type(o).__name__ + "[" + ",".join(fp(x, depth + 1) for x in o) + "]"
    if isinstance(o, dict):
        return type(o).__name__ + "{" + ",".join(fp(k, depth + 1) + ":" + fp(v, depth + 1) for k, v in list(o.items())) + "}"
    if isinstance(o, (set, frozenset)):
        return type(o).__name__ + "{" + ",".join(sorted(fp(x, depth + 1) for x in o)) + "}"
    if isinstance(o, types.ModuleType):
        return "module:" + o.__name__
    if isinstance(o, (types.FunctionType, types.BuiltinFunctionType)):
        return "fn:%s.%s" % (getattr(o, "__module__", "?"), getattr(o, "__qualname__", getattr(o, "__name__", "?")))
    if isinstance(o, types.MethodType):
        return "method:" + fp(o.__func__, depth + 1)
    if isinstance(o, type):
        return "class:%s.%s" % (o.__module__, o.__qualname__)
    mod = type(o).__module__ or ""
    np = sys.modules.get("numpy")
    if np is not None:
        if isinstance(o, np.ndarray):
            if o.dtype == object:
                return "ndarray(object)" + fp(o.tolist(), depth + 1)
            return "ndarray(%s,%s,%s)" % (o.dtype, o.shape, hashlib.sha1(np.ascontiguousarray(o).tobytes()).hexdigest()[:16])
        if isinstance(o, np.generic):
            return repr(o)
        if isinstance(o, np.random.RandomState):
            return "RandomState" + fp(o.get_state(), depth + 1)
        if hasattr(np.random, "Generator") and isinstance(o, np.random.Generator):
            return "Generator" + fp(o.bit_generator.state, depth + 1)
    if mod == "random" and hasattr(o, "getstate"):
        return "random.Random" + fp(o.getstate(), depth + 1)
    if mod.startswith("sympy"):
        sy = sys.modules.get("sympy")
        try:
            return "sympy:" + sy.srepr(o)
        except Exception:
            return "sympy:" + _ADDR.sub("", repr(o))
    if mod.startswith("mpi4py") or mod.startswith("MPI"):
        return "handle:" + type(o).__qualname__
    if isinstance(o, (staticmethod, classmethod)):
        return type(o).__name__ + ":" + fp(o.__func__, depth + 1)
    if isinstance(o, property):
        return "property"
    d = getattr(o, "__dict__", None)
    if isinstance(d, dict):
        return "obj:%s.%s" % (mod, type(o).__qualname__) + fp(d, depth + 1)
    return "obj:%s.%s:" % (mod, type(o).__qualname__) + _ADDR.sub("", repr(o))[:200]


def _fn_cells(out, cid, f):
    """default arguments and attributes of one function"""
    code = f.__code__
    names = code.co_varnames[:code.co_argcount]
    dfl = f.__defaults__ or ()
    for p, v in zip(names[len(names) - len(dfl):], dfl):
        out["%s(%s)" % (cid, p)] = fp(v)
    for p, v in (f.__kwdefaults__ or {}).items():
        out["%s(%s)" % (cid, p)] = fp(v)
    for k, v in list(f.__dict__.items()):
        if k in ("__wrapped__",):
            continue
        out["%s.%s" % (cid, k)] = fp(v)
    w = getattr(f, "cache_info", None)
    if w is not None:
        try:
            out["%s:cache" % cid] = repr(f.cache_info())
        except Exception:
            pass


def _split_dict(out, cid, d):
    out[cid] = fp({k: v for k, v in d.items() if not (isinstance(k, str) and _AKEY.match(k))})
    out[cid + "[a<i>]"] = fp({k: v for k, v in d.items() if isinstance(k, str) and _AKEY.match(k)})


def esr_cells(out):
    for name, mod in sorted(list(sys.modules.items())):
        if mod is None or not (name == "esr" or name.startswith("esr.")):
            continue
        for k, v in list(vars(mod).items()):
            if k == "__warningregistry__":
                out.setdefault("warnings.registry", "")
                out["warnings.registry"] += "%s:%s;" % (name, fp({kk: vv for kk, vv in v.items() if kk != "version"}))
                continue
            if k.startswith("__") and k.endswith("__"):
                continue
            if isinstance(v, types.ModuleType):
                out["%s.%s" % (name, k)] = "module:" + v.__name__
                continue
            cid = "%s.%s" % (name, k)
            if isinstance(v, dict):
                _split_dict(out, cid, v)
            else:
                out[cid] = fp(v)
            if isinstance(v, types.FunctionType) and v.__module__ == name:
                _fn_cells(out, "%s.%s" % (name, v.__qualname__), v)
            elif hasattr(v, "cache_info") and getattr(v, "__module__", None) == name:          # lru_cache wrapper
                try:
                    out["%s.%s:cache" % (name, getattr(v, "__qualname__", k))] = repr(v.cache_info())
                except Exception:
                    pass
                w = getattr(v, "__wrapped__", None)
                if isinstance(w, types.FunctionType):
                    _fn_cells(out, "%s.%s" % (name, w.__qualname__), w)
            elif isinstance(v, type) and v.__module__ == name:
                for k2, v2 in list(vars(v).items()):
                    if k2.startswith("__") and k2.endswith("__") and k2 not in ("__defaults__",):
                        if isinstance(v2, types.FunctionType):
                            _fn_cells(out, "%s.%s" % (name, v2.__qualname__), v2)
                        continue
                    c2 = "%s.%s.%s" % (name, v.__qualname__, k2)
                    g = v2.__func__ if isinstance(v2, (staticmethod, classmethod)) else v2
                    if isinstance(v2, dict):
                        _split_dict(out, c2, v2)
                    else:
                        out[c2] = fp(v2)
                    if isinstance(g, types.FunctionType):
                        _fn_cells(out, "%s.%s" % (name, g.__qualname__), g)
                    w = getattr(g, "__wrapped__", None)
                    if hasattr(g, "cache_info") and isinstance(w, types.FunctionType):
                        out["%s.%s:cache" % (name, w.__qualname__)] = repr(g.cache_info())


def process_cells(out):
    import signal, warnings, gc
    np = sys.modules.get("numpy")
    if np is not None:
        out["np.random"] = fp(np.random.get_state())
        out["np.errstate"] = fp(np.geterr())
        out["np.printoptions"] = fp({k: v for k, v in np.get_printoptions().items()})
    rnd = sys.modules.get("random")
    if rnd is not None:
        out["random"] = hashlib.sha1(repr(rnd.getstate()).encode()).hexdigest()[:16]
    for s in signal.valid_signals():
        try:
            hnd = signal.getsignal(s)
        except Exception:
            continue
        nm = s.name if hasattr(s, "name") else "SIG%d" % int(s)
        out["signal.%s" % nm] = fp(hnd) if callable(hnd) else repr(hnd)
    try:
        out["signal.alarm"] = repr(tuple(x != 0 for x in signal.getitimer(signal.ITIMER_REAL)))
    except Exception:
        pass
    out["warnings.filters"] = fp([(a, getattr(m, "pattern", m), getattr(c, "__name__", c), getattr(mo, "pattern", mo), ln) for a, m, c, mo, ln in warnings.filters])
    out.setdefault("warnings.registry", "")
    out["warnings.registry"] += "once:" + fp(getattr(warnings, "onceregistry", {}))
    out["os.environ"] = fp(dict(os.environ))
    out["cwd"] = os.getcwd()
    out["sys.recursionlimit"] = repr(sys.getrecursionlimit())
    out["sys.path"] = fp(list(sys.path))
    out["sys.argv"] = fp(list(sys.argv))
    out["sys.stdout"] = "redirected" if sys.stdout is not sys.__stdout__ else "std"
    out["gc.settings"] = repr((gc.isenabled(), gc.get_threshold()))
    sy = sys.modules.get("sympy")
    if sy is not None:
        try:
            from sympy.printing.printer import Printer
            out["sympy.printing"] = fp(dict(Printer._global_settings)) + "|" + fp(sys.displayhook)
        except Exception:
            pass
        try:
            from sympy.core.cache import CACHE
            tot = 0
            for item in CACHE:
                f = item[1] if isinstance(item, tuple) else item
                ci = getattr(f, "cache_info", None)
                if ci is not None:
                    tot += ci().currsize
            out["sympy.cache"] = "entries=%d" % tot
        except Exception:
            pass
    plt = sys.modules.get("matplotlib.pyplot")
    if plt is not None:
        try:
            out["matplotlib.pyplot"] = repr(plt.get_fignums())
        except Exception:
            pass


def snapshot():
    raw = {}
    esr_cells(raw)
    process_cells(raw)
    return {k: _h(v) for k, v in raw.items()}


@contextmanager
def watch(records, entry, **info):
    t0 = time.time()
    before = snapshot()
    t1 = time.time()
    ok = False
    try:
        yield
        ok = True
    finally:
        t2 = time.time()
        after = snapshot()
        changed = {k: [before[k], after[k]] for k in before if k in after and before[k] != after[k]}
        rec = dict(entry=entry, ncells=len(after), changed=changed, appeared=sorted(k for k in after if k not in before),
                   vanished=sorted(k for k in before if k not in after), completed=ok, ms=round(1000 * ((t1 - t0) + (time.time() - t2)), 1))
        rec.update(info)
        records.append(rec)
