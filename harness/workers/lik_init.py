"""Worker: construct Likelihood objects with data_dir given, under a forced start-up interleaving.

Scheduling device (harness only): a rank about to create <data_dir>/fitting waits, at most a few seconds, until every
rank has announced that it is about to create it too (marker files in a side directory).  Ranks whose own test already
saw the directory never announce; the others then simply time out and go on.  The result is the interleaving
"every rank passes its existence test before any rank creates" whenever the code allows it - one legal interleaving of
the ranks' start-up; the property quantifies over all of them.
argv: data_dir sync_dir mode    (mode = forced | free)
"""
import os, sys, time
from mpi4py import MPI
comm = MPI.COMM_WORLD
rank, size = comm.Get_rank(), comm.Get_size()
data_dir, sync_dir, mode = sys.argv[1], sys.argv[2], sys.argv[3]
real_mkdir = os.mkdir
fit = os.path.normpath(os.path.join(data_dir, "fitting"))


def mkdir(p, *a, **k):
    if mode == "forced" and os.path.normpath(p) == fit:
        open(os.path.join(sync_dir, "arrived_%d" % rank), "w").close()
        t0 = time.time()
        while time.time() - t0 < 4.0 and len([f for f in os.listdir(sync_dir) if f.startswith("arrived_")]) < size:
            time.sleep(0.005)
        time.sleep(0.02 * rank)
    return real_mkdir(p, *a, **k)


os.mkdir = mkdir
import esr.fitting.likelihood as L
lik = L.Likelihood("d.txt", "d.txt", "run", data_dir=data_dir)
os.mkdir = real_mkdir
assert os.path.isdir(lik.like_dir)
print("constructed on rank", rank)
