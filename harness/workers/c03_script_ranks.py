"""Worker for C03 (do_sympy driver on P ranks): every rank runs the REAL `duplicate_checker.main` + `do_sympy` +
`make_changes` (+ load_subs, get_unique_indexes, ...) on every script of a job file, with the block-wise scripted CAS of
`cas_script.run_real(block=True)`.

argv: scripts.json workdir outprefix
writes <outprefix>.<rank>.json: per script {"raised": str|None, "ret": [strings, nround]|None, "blocks": [...], "odd": n}
and, on rank 0, "line": the run in the output format of the model op `lib-main` / `lib-main-ranks`, "nuniq", "format_ok",
"stray", "bad": property failures found by cas_script.check_property on the files of the run.
Every script gets a directory of its own under workdir.  An exception inside main is caught by run_real on that rank; the
other ranks then wait in a collective, which the hub reports for the launch.
"""
import json, os, sys


def main():
    scripts = json.load(open(sys.argv[1]))
    work, pre = sys.argv[2], sys.argv[3]
    sys.path.insert(0, os.path.dirname(os.path.dirname(os.path.abspath(__file__))))
    import cas_script
    import esr.generation.simplifier as S
    import gc
    out = []
    gc.collect(); gc.freeze()
    for k, sc in enumerate(scripts):
        st = cas_script.run_real(sc, os.path.join(work, "s%d" % k), real_shell=False, block=True)
        rec = dict(raised=st["raised"], ret=None if st["ret"] is None else [st["ret"][0], st["ret"][1]], blocks=st["blocks"], odd=len(st["odd"]))
        if S.rank == 0:
            o = cas_script.read_outputs(sc, st)
            rec["line"] = cas_script.real_line(sc, st, o)
            rec["nuniq"] = len(o["uniq"]) if o.get("uniq") is not None else 0
            rec["format_ok"] = bool(o["format_ok"])
            rec["stray"] = bool(o.get("stray_round_file"))
            rec["bad"] = [[a, b] for a, b in cas_script.check_property(sc, st, o)][:3]
        out.append(rec)
    with open("%s.%d.json" % (pre, S.rank), "w") as fh:
        json.dump(out, fh)


if __name__ == "__main__":
    main()
