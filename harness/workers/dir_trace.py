"""Worker (C14): trace the directory operations of the fitting stages' set-up code on every rank.

Runs, from a fresh data directory, (phase "ctor") `Likelihood(..., data_dir=<fresh>)` and then (phase "getfun")
`test_all.get_functions(1, lik)`, with `os.path.isdir`, `os.path.exists`, `os.mkdir`, `os.makedirs` and the
communicator's `Barrier` wrapped so that every outermost call made while a phase runs is appended to the rank's trace
   [phase, op, path relative to data_dir, exist_ok flag or null, result ("True"/"False"/"ok"/exception class)]
and written to <out_dir>/trace_<rank>.json.  Nothing is changed in what the calls do.

mode = free    the ranks run freely
mode = forced  scheduling device (harness only, same as lik_init.py): a rank about to `os.mkdir` the directory
               <force_path> ("*": any directory; also the mkdir inside os.makedirs) first announces itself and waits
               (at most a few seconds) until every rank has either announced itself for the same directory, is waiting
               in a Barrier, or has finished; then the ranks create one after the other.  This is the interleaving
               "every rank passes its existence test before any rank creates", whenever the code allows it - one
               legal interleaving of the ranks' start-up; with code whose creations are race-free nobody waits long.
argv: data_dir fn_dir out_dir mode [force_path relative to data_dir]
"""
import hashlib, json, os, sys, time, traceback
from mpi4py import MPI
comm = MPI.COMM_WORLD
rank, size = comm.Get_rank(), comm.Get_size()
data_dir, fn_dir, out_dir, mode = sys.argv[1:5]
force = None if len(sys.argv) <= 5 else "*" if sys.argv[5] == "*" else os.path.normpath(os.path.join(data_dir, sys.argv[5]))

trace = []
state = dict(phase=None, depth=0)
real = dict(mkdir=os.mkdir, makedirs=os.makedirs, isdir=os.path.isdir, exists=os.path.exists, barrier=type(comm).Barrier)


def rel(p):
    try:
        p = os.fspath(p)
        q = os.path.normpath(p)
        return os.path.relpath(q, data_dir) if q.startswith(os.path.normpath(data_dir)) else q
    except Exception:
        return repr(p)


def hold(p):
    q = os.path.normpath(os.fspath(p))
    if mode != "forced" or force is None or (force != "*" and q != force):
        return
    tag = hashlib.sha1(q.encode()).hexdigest()[:10]
    open(os.path.join(out_dir, "arrived_%d_%s" % (rank, tag)), "w").close()
    t0 = time.time()
    while time.time() - t0 < 4.0:
        fs = os.listdir(out_dir)
        if len({f.split("_")[1] for f in fs if f.startswith(("inbarrier_", "done_")) or (f.startswith("arrived_") and f.endswith(tag))}) >= size:
            break
        time.sleep(0.005)
    time.sleep(0.02 * rank)


def wrap(op, fn, is_fs=True):
    def w(*a, **k):
        outer = state["phase"] is not None and state["depth"] == 0
        if not outer:
            if op == "mkdir" and state["phase"] is not None:
                hold(a[0] if a else k.get("path"))           # also the mkdir inside os.makedirs
            return fn(*a, **k)
        state["depth"] += 1
        ev = [state["phase"], op, rel(a[0] if a else k.get("path", k.get("name"))) if is_fs else "", None, None]
        if op == "makedirs":
            ev[3] = bool(k.get("exist_ok", a[2] if len(a) > 2 else False))
        trace.append(ev)
        try:
            if op == "barrier":
                open(os.path.join(out_dir, "inbarrier_%d" % rank), "w").close()
            if op == "mkdir":
                hold(a[0] if a else k.get("path"))
            res = fn(*a, **k)
            ev[4] = str(res) if isinstance(res, bool) else "ok"
            return res
        except BaseException as e:
            ev[4] = type(e).__name__
            raise
        finally:
            if op == "barrier":
                try:
                    os.remove(os.path.join(out_dir, "inbarrier_%d" % rank))
                except OSError:
                    pass
            state["depth"] -= 1
    return w


os.mkdir = wrap("mkdir", real["mkdir"])
os.makedirs = wrap("makedirs", real["makedirs"])
os.path.isdir = wrap("isdir", real["isdir"])
os.path.exists = wrap("exists", real["exists"])
type(comm).Barrier = wrap("barrier", real["barrier"], is_fs=False)
type(comm).barrier = type(comm).Barrier

err = None
comm.Barrier()          # untraced: every rank is connected to the hub, so a rank that dies later is noticed at once
try:
    import io, contextlib
    import esr.fitting.likelihood as L
    import esr.fitting.test_all as ta
    state["phase"] = "ctor"
    lik = L.Likelihood("d.txt", "d.txt", "run", data_dir=data_dir)
    state["phase"] = None
    lik.fn_dir = fn_dir
    state["phase"] = "getfun"
    with contextlib.redirect_stdout(io.StringIO()):
        got = ta.get_functions(1, lik)
    state["phase"] = None
    dirs = [rel(lik.like_dir), rel(lik.base_out_dir), rel(lik.out_dir), rel(lik.temp_dir)]
    missing = [d for d in (lik.like_dir, lik.base_out_dir, lik.out_dir, lik.temp_dir) if not real["isdir"](d)]
except BaseException as e:
    state["phase"] = None
    err = "%s: %s" % (type(e).__name__, e)
    traceback.print_exc()
    dirs, missing, got = [], [], None
open(os.path.join(out_dir, "done_%d" % rank), "w").close()
json.dump(dict(rank=rank, size=size, trace=trace, error=err, dirs=dirs, missing=missing,
               slice=None if got is None else [got[1], got[2], len(got[0])]),
          open(os.path.join(out_dir, "trace_%d.json" % rank), "w"))
print("traced rank", rank, "error", err)
sys.exit(1 if err else 0)
