"""Deterministic timeout injection wherever the CODE UNDER TEST installs a time limit (generalised from
workers/gen_inject.py / props/c15.py).

Nothing here knows where `time_limit` blocks are: it is discovered at RUN time.  While a line of one of the watched
functions executes, a time limit of the code under test is *active* iff

  * `signal.getsignal(SIGALRM)` is a Python callable whose code object was compiled from a file under `root` (the staged
    tree) -- ESR's `time_limit` installs a closure `signal_handler` of simplifier.py and never uninstalls it, so the
    handler alone is not enough -- AND
  * an alarm is pending: `signal.getitimer(ITIMER_REAL)[0] > 0` (`signal.alarm` and ITIMER_REAL are the same timer on
    Linux; `time_limit` cancels it with `alarm(0)` in its `finally`).

A *site* is (function, line, n) = the n-th time (n <= bound) that line runs with a time limit active during one call of
`Injector.run`.  In inject mode a genuine SIGALRM is delivered with `signal.raise_signal` from the line callback, so the
code's own handler raises its own `TimeoutException` at the next eval-breaker check (never raised from the tracer: an
exception raised from a tracer inside an inlined comprehension escapes the enclosing try/except on 3.12).

Line events come from `sys.monitoring` local events on the code objects (and nested code objects) of the watched
functions only, so the rest of the process runs at full speed.
"""
import os
import signal
import sys


def _code_objects(fn):
    co = getattr(fn, "__code__", None)
    out = []
    todo = [co] if co is not None else []
    while todo:
        c = todo.pop()
        out.append(c)
        for k in c.co_consts:
            if hasattr(k, "co_code"):
                todo.append(k)
    return out


def limit_active(root=None):
    """Is a time limit of the code under test active right now?  (see module docstring)"""
    h = signal.getsignal(signal.SIGALRM)
    if h is None or h in (signal.SIG_DFL, signal.SIG_IGN) or not callable(h):
        return False
    if root is not None:
        co = getattr(h, "__code__", None)
        if co is None or not os.path.abspath(co.co_filename).startswith(os.path.abspath(root) + os.sep):
            return False
    try:
        return signal.getitimer(signal.ITIMER_REAL)[0] > 0
    except Exception:
        return False


class Injector(object):
    """inj = Injector(module, ["load_subs", ...], root=stage);  sites = inj.record(f, *a);  res, fired = inj.inject(faults, f, *a)"""

    TOOL = None       # a free sys.monitoring tool id, chosen per run (4 is the harness's own line coverage, common.start_cover)

    def __init__(self, module, fn_names, root=None, bound=3):
        self.root = root
        self.bound = bound
        self.codes = {}
        self.missing = []
        for name in fn_names:
            f = getattr(module, name, None)
            cos = _code_objects(f) if f is not None else []
            if not cos:
                self.missing.append(name)
            for c in cos:
                self.codes[c] = name
        self.mode = None
        self.count = {}
        self.sites = []
        self.faults = set()
        self.fired = []
        self.lines_seen = 0

    # -- sys.monitoring plumbing ---------------------------------------------------------------------
    def _on(self):
        mon = sys.monitoring
        free = [t for t in (3, 0, 2, 1) if mon.get_tool(t) is None]
        if not free:
            raise RuntimeError("no free sys.monitoring tool id")
        self.TOOL = free[0]
        mon.use_tool_id(self.TOOL, "esrverif-inject")
        mon.register_callback(self.TOOL, mon.events.LINE, self._line)
        for c in self.codes:
            mon.set_local_events(self.TOOL, c, mon.events.LINE)

    def _off(self):
        mon = sys.monitoring
        for c in self.codes:
            mon.set_local_events(self.TOOL, c, 0)
        mon.register_callback(self.TOOL, mon.events.LINE, None)
        mon.free_tool_id(self.TOOL)

    def _line(self, code, line):
        name = self.codes.get(code)
        if name is None:
            return
        self.lines_seen += 1
        if not limit_active(self.root):
            return
        key = (name, line)
        n = self.count.get(key, 0) + 1
        self.count[key] = n
        if self.mode == "record":
            if n <= self.bound:
                self.sites.append((name, line, n))
            return
        site = (name, line, n)
        if site in self.faults:
            self.faults.discard(site)
            self.fired.append(site)
            signal.raise_signal(signal.SIGALRM)

    def _run(self, f, a, kw):
        self.count = {}
        self.lines_seen = 0
        self._on()
        try:
            return f(*a, **kw)
        finally:
            self._off()
            try:
                signal.alarm(0)         # never leave an alarm of the code under test pending in the harness
            except Exception:
                pass

    # -- API ------------------------------------------------------------------------------------------
    def record(self, f, *a, **kw):
        """run f and return the ordered list of sites (fn, line, n<=bound) at which a time limit was active"""
        self.mode, self.sites, self.faults, self.fired = "record", [], set(), []
        self._run(f, a, kw)
        return list(self.sites)

    def inject(self, faults, f, *a, **kw):
        """run f delivering SIGALRM at each site of `faults`; returns (("ok", result) | ("raise", exc), fired sites)"""
        self.mode, self.sites, self.fired = "inject", [], []
        self.faults = set((s[0], int(s[1]), int(s[2])) for s in faults)
        try:
            res = ("ok", self._run(f, a, kw))
        except Exception as e:
            res = ("raise", e)
        return res, list(self.fired)
