"""C11 — the fixed-point driver `find_additional_trees` run on PRNG-SCRIPTED rewriters.

`update_tree`, `update_sums` and `simplifier.initial_sympify` of the staged generator module are replaced by table
look-ups (a *script*: a finite universe of labelled trees, rewriter results by (tree, try_idx), cross-check refusals by
(parent, candidate)); the REAL `find_additional_trees` then runs over them.  Two uses:

* correspondence: the emitted label lists, their order and the number of passes of each `while` loop are compared with
  the Lean model `ESR.Rewrite.Drv.findAdditional` (op `rwdrv`);
* property oracle (independent of the model): the driver returns within the pass bound of theorem
  `driver_terminates` (|universe| + 1 passes per phase), every emitted list is the input or a candidate some scripted
  rewriter returned for an EARLIER emitted list (and, in the sum phase, one the cross-check did not refuse), and every
  rewriter call receives a tree whose node types are the shape belonging to the labels it is passed.
"""
import contextlib, io, json, signal

BASIS = [["x", "a"], ["inv", "exp", "log_abs", "square"], ["+", "*", "-", "/", "pow"]]


class ScriptErr(Exception):
    pass


class Runaway(BaseException):
    pass


# ---- script generation --------------------------------------------------------------------------------------------

def _rand_tree(rng, size):
    """(labels, shape) of a well-formed prefix tree with `size` nodes over BASIS (+ integer leaves)"""
    if size <= 1:
        return [rng.choice(["x", "a0", "a1", "2", "-1", "x", "a0"])], [0]
    if size == 2 or rng.random() < 0.35:
        l, s = _rand_tree(rng, size - 1)
        return [rng.choice(BASIS[1])] + l, [1] + s
    k = rng.randrange(1, size - 1)
    l1, s1 = _rand_tree(rng, k)
    l2, s2 = _rand_tree(rng, size - 1 - k)
    return [rng.choice(BASIS[2])] + l1 + l2, [2] + s1 + s2


def _rand_out(rng, n, phase):
    r = rng.random()
    if r < 0.25:
        return ["none"]
    if r < 0.75:
        return ["one", rng.randrange(n)]
    if r < 0.80:
        return ["many"]                                     # ([], [], 0): what update_sums returns for a sum without repeats
    if r < 0.95:
        return ["many"] + [rng.randrange(n) for _ in range(rng.choice([2, 2, 3, 4]))]
    if r < 0.975 and phase == 1:
        return ["many", rng.randrange(n)]                   # the one-candidate list of update_tree's 'TWO CASES' branch
    if r < 0.99:
        return ["err"]
    return ["none"]


def gen_script(rng):
    n = rng.choice([2, 3, 3, 4, 5, 6, 7, 9])
    univ, seen = [], set()
    tries = 0
    while len(univ) < n and tries < 200:
        tries += 1
        l, s = _rand_tree(rng, rng.choice([1, 2, 3, 3, 4, 5, 6]))
        if tuple(l) not in seen:
            seen.add(tuple(l))
            univ.append([l, s])
    n = len(univ)
    dens = rng.choice([0.5, 0.8, 1.0])
    tabs = []
    for phase in (1, 2):
        t = {}
        for i in range(n):
            for k in range(rng.choice([1, 2, 3, 4])):
                if rng.random() < dens:
                    t["%d.%d" % (i, k)] = _rand_out(rng, n, phase)
        tabs.append(t)
    root = rng.randrange(n)
    if n > 1:                                               # most scripts: the first call on the input produces something
        others = [i for i in range(n) if i != root]
        for t in tabs:
            if rng.random() < 0.6:
                t["%d.0" % root] = rng.choice([["one", rng.choice(others)], ["many"] + [rng.choice(others) for _ in range(rng.choice([2, 3]))]])
    reject = {}
    for i in range(n):
        for j in range(n):
            if rng.random() < 0.2:
                reject["%d.%d" % (i, j)] = rng.choice(["two", "raise"])     # len(sym) != 1  /  exception inside the try
    return dict(univ=univ, rw1=tabs[0], rw2=tabs[1], reject=reject, root=root)


def op_line(sc, fuel):
    def tab(t):
        return ";".join("%s=%s" % (k, ".".join(str(z) for z in v)) for k, v in sorted(t.items())) or "_"
    univ = ";".join("%s:%s" % (",".join(l), "".join(str(a) for a in s)) for l, s in sc["univ"])
    rej = ";".join(sorted(sc["reject"])) or "_"
    return "rwdrv %d %d %s %s %s %s" % (fuel, sc["root"], univ, tab(sc["rw1"]), tab(sc["rw2"]), rej)


# ---- the real driver over a script --------------------------------------------------------------------------------

def run_script(sc):
    """-> dict(out=[[labels]…]|None, exc=None|type name, passes=[p1,p2], faults=[…], runaway=bool, calls=int)"""
    import numpy as np
    from esr.generation import generator as g
    univ = sc["univ"]
    n = len(univ)
    index = {tuple(l): i for i, (l, s) in enumerate(univ)}
    strs = {}
    for i, (l, s) in enumerate(univ):
        strs[g.node_to_string(0, g.check_tree(np.array(s, dtype=int))[2], list(l))] = i
    root = sc["root"]
    res = dict(out=None, exc=None, passes=[0, 0], faults=[], runaway=False, calls=0, oracle_calls=[])
    budget = [(n + 2) * n + 1, (n + 2) * n + 1]               # driver_terminates with U = [] :: labels: at most |U| + 1 = n + 2 passes of at most n calls each
    used = [0, 0]

    def rewriter(phase):
        tab = sc["rw1" if phase == 1 else "rw2"]

        def f(tree, labels, try_idx, basis):
            res["calls"] += 1
            used[phase - 1] += 1
            if used[phase - 1] > budget[phase - 1]:
                raise Runaway()
            set(labels)                                     # what update_tree does first: TypeError on a list of lists
            i = index.get(tuple(labels))
            if i is None:
                res["faults"].append("rewriter %d called with labels %r that were never returned by a rewriter" % (phase, list(labels)))
                raise ScriptErr("unknown labels")
            if i == root:
                res["passes"][phase - 1] += 1
            want = univ[i][1]
            ref = g.check_tree(np.array(want, dtype=int))[2]
            if [int(t.type) for t in tree] != list(want) or any(
                    (a.parent, a.left, a.right) != (b.parent, b.left, b.right) for a, b in zip(tree, ref)):
                res["faults"].append("rewriter %d called with labels %r but a tree of shape %r (the labels' tree has shape %r)"
                                     % (phase, list(labels), [int(t.type) for t in tree], want))
            o = tab.get("%d.%d" % (i, int(try_idx)), ["none"])
            if o[0] == "none":
                return None, None, 0
            if o[0] == "err":
                raise ScriptErr("scripted")
            if o[0] == "one":
                return list(univ[o[1]][0]), list(univ[o[1]][1]), 1
            return [list(univ[c][0]) for c in o[1:]], [list(univ[c][1]) for c in o[1:]], len(o) - 1
        return f

    def sympify(f, max_param, verbose=False, parallel=False):
        p, c = strs.get(f[0]), strs.get(f[1])
        res["oracle_calls"].append((p, c))
        how = sc["reject"].get("%s.%s" % (p, c))
        if how == "raise":
            raise ValueError("scripted sympy failure")
        if how == "two":
            return None, ["u", "v"]
        return None, ["u"]

    saved = (g.update_tree, g.update_sums, g.simplifier.initial_sympify)
    g.update_tree, g.update_sums, g.simplifier.initial_sympify = rewriter(1), rewriter(2), sympify

    def alarm(*a):
        raise Runaway()
    old = signal.signal(signal.SIGALRM, alarm)             # a loop that no longer calls the rewriters at all
    signal.setitimer(signal.ITIMER_REAL, 20)
    try:
        tree = g.check_tree(np.array(univ[root][1], dtype=int))[2]
        with contextlib.redirect_stdout(io.StringIO()):
            _, nl = g.find_additional_trees(tree, list(univ[root][0]), BASIS)
        res["out"] = [list(L) for L in nl]
    except Runaway:
        res["runaway"] = True
    except Exception as e:
        res["exc"] = type(e).__name__
    finally:
        signal.setitimer(signal.ITIMER_REAL, 0)
        signal.signal(signal.SIGALRM, old)
        g.update_tree, g.update_sums, g.simplifier.initial_sympify = saved
    return res


def judge(sc, res):
    """property-level verdicts on a scripted run, independent of the Lean model: list of (key, what)"""
    bad = []
    univ = sc["univ"]
    n = len(univ)
    if res["runaway"]:
        bad.append(("driver-nontermination", "find_additional_trees over a finite script (%d trees) made more than (|U|+2)*|U| = %d rewriter calls in one phase (pass bound of theorem driver_terminates): "
                                             "the fixed-point loop does not stop although every list it can emit is one of %d" % (n, (n + 2) * n, n)))
        return bad
    for f in res["faults"][:3]:
        bad.append(("driver-feeds-mismatched-input", f))
    if res["out"] is None:
        return bad
    index = {tuple(l): i for i, (l, s) in enumerate(univ)}
    out = res["out"]
    if not out or list(out[0]) != list(univ[sc["root"]][0]):
        bad.append(("driver-output-head", "new_labels[0] = %r is not the input %r" % (out[:1], univ[sc["root"]][0])))
        return bad
    ids = []
    for L in out:
        i = index.get(tuple(L)) if all(isinstance(z, str) for z in L) else None
        ids.append(i)
    for m in range(1, len(out)):
        c = ids[m]
        ok = False
        if c is not None:
            for p in ids[:m]:
                if p is None:
                    continue
                for key, o in sc["rw1"].items():
                    if int(key.split(".")[0]) == p and o[0] in ("one", "many") and c in o[1:]:
                        ok = True
                if "%d.%d" % (p, c) not in sc["reject"]:
                    for key, o in sc["rw2"].items():
                        if int(key.split(".")[0]) == p and o[0] in ("one", "many") and c in o[1:]:
                            ok = True
        if not ok:
            bad.append(("driver-emits-unjustified", "emitted list #%d %r is not a candidate any rewriter returned for an earlier emitted list "
                                                    "(or only one the cross-check refused)" % (m, out[m])))
    return bad


def canon_real(res):
    if res["runaway"]:
        return "runaway"
    if res["exc"] is not None:
        return "exc"
    return "ok %d %d %s" % (res["passes"][0], res["passes"][1], ";".join(",".join(L) for L in res["out"]))


def canon_model(line):
    if line in ("raises", "nested"):
        return "exc"
    if line.startswith("ok "):
        _, p1, p2, body = line.split(" ", 3)
        return "ok %s %s %s" % (p1, p2, ";".join(c.split(":")[0] for c in body.split(";")))
    return line
