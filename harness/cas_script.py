"""C03 driver refinement: PRNG-scripted CAS for the REAL simplifier.do_sympy / duplicate_checker.main.

A *script* is a closed synthetic world in which the truth is known exactly:

* components: a hidden polynomial g over Z_p in k parameters;
* names: synthetic function strings (`u7_a0_a1`: the `a<j>` substrings carry the parameter count for
  get_max_param / count_params); every name denotes  den(name)(theta) = g(W(theta))  for a hidden word W of tokens;
* tokens: parameter substitutions in the exact text sympy_simplify records (`{a0: -a0}`, `{a0: a0 + 3}`, ...), each with
  its exact meaning on Z_p^3, or the nan marker;
* round tables: what the scripted `sympy_simplify` answers in round g for every name (new name + appended tokens);
  every answer is a sound rewrite BY CONSTRUCTION (the chain is W_old^-1 . [projection] . W_new, or holds nan and the
  target has strictly fewer parameters), i.e. the scripted CAS satisfies the hypothesis `OracleSound` of
  Props/C03b.lean, so the real driver must deliver a sound library.

`run_real` drives the unmodified `duplicate_checker.main` (generator, initial_sympify, sympy_simplify and
expand_or_factor replaced by the script; do_sympy, get_unique_indexes, get_match_indexes, the shuffle, load_subs,
simplify_inv_subs, the csv/pprint/sed file handling are the real code) in a scratch directory.
`model_line`/`real_line` give the two sides of the correspondence with Model/Library.dupMain (op `lib-main`).
`check_property` is the independent oracle: C03's statement recomputed exactly from the hidden denotations.
"""
import collections, contextlib, csv, io, os, random, shutil

P = 10007
NAN = "nan"


# ----------------------------------------------------------------------------------------------
# tokens: id <-> recorded text <-> meaning on Z_p^3
# ----------------------------------------------------------------------------------------------

def tok_text(t):
    k = t[0]
    if k == "n":
        return "{a%s: -a%s}" % (t[1], t[1])
    if k == "r":
        return "{a%s: 1/a%s}" % (t[1], t[1])
    if k == "s":
        return "{a%s: a%s, a%s: a%s}" % (t[1], t[2], t[2], t[1])
    if k == "S":
        return "{a%s: a%s, a%s: a%s}" % (t[2], t[1], t[1], t[2])
    if k == "p":
        return "{a%s: a%s + %s}" % (t[1], t[1], t[3:])
    if k == "m":
        return "{a%s: a%s - %s}" % (t[1], t[1], t[3:])
    if k == "z":
        return "{a%s: 0}" % t[1]
    if k == "d":
        return "{a%s: 2*a%s}" % (t[1], t[1])
    if k == "h":
        return "{a%s: a%s/2}" % (t[1], t[1])
    raise ValueError(t)


def tok_apply(t, th):
    """the substitution as a map on parameter vectors (simultaneous)"""
    th = list(th)
    k = t[0]
    i = int(t[1])
    if k == "n":
        th[i] = (-th[i]) % P
    elif k == "r":
        th[i] = pow(th[i], P - 2, P)
    elif k in "sS":
        j = int(t[2])
        th[i], th[j] = th[j], th[i]
    elif k == "p":
        th[i] = (th[i] + int(t[3:])) % P
    elif k == "m":
        th[i] = (th[i] - int(t[3:])) % P
    elif k == "z":
        th[i] = 0
    elif k == "d":
        th[i] = (2 * th[i]) % P
    elif k == "h":
        th[i] = (th[i] * pow(2, P - 2, P)) % P
    else:
        raise ValueError(t)
    return th


def tok_inv(t):
    k = t[0]
    if k in "nrsS":
        return t
    return {"p": "m", "m": "p", "d": "h", "h": "d"}[k] + t[1:]


def chain_map(chain, th):
    """p = id.subs(c0).subs(c1)...  =>  p(theta) = c0(c1(...(theta)))  (nan entries carry no map)"""
    for t in reversed(chain):
        if t != NAN:
            th = tok_apply(t, th)
    return th


def rand_tok(rng, k):
    i = rng.randrange(k)
    kind = rng.choice("nnrpmdh" + ("sS" if k > 1 else ""))
    if kind in "sS":
        a, b = sorted(rng.sample(range(k), 2))
        return "%s%d%d" % (kind, a, b)
    if kind in "pm":
        return "%s%dc%d" % (kind, i, rng.randint(1, 9))
    return "%s%d" % (kind, i)


# ----------------------------------------------------------------------------------------------
# script generation
# ----------------------------------------------------------------------------------------------

def _poly(rng, k):
    mons = []
    for _ in range(rng.randint(2, 4) + k):
        mons.append([rng.randrange(1, P)] + [rng.randint(0, 3) if j < k else 0 for j in range(3)])
    mons.append([rng.randrange(1, P)] + [1 if j < k else 0 for j in range(3)])
    return mons


def _project(poly, j):
    return [m for m in poly if m[1 + j] == 0] or [[0, 0, 0, 0]]


def make_script(rng):
    comps, names = [], collections.OrderedDict()
    uid = [0]

    def add_comp(k, poly, parent=None):
        comps.append(dict(k=k, poly=poly, parent=parent))
        return len(comps) - 1

    def add_name(ci, word, prefix="u"):
        k = comps[ci]["k"]
        uid[0] += 1
        js = list(range(k))
        r = rng.random()
        if k >= 2 and r < 0.08:
            js = js[1:]                       # gapped: lacks a0 (count_params still says k when max_param allows)
        elif r < 0.25:
            js = js[::-1]
        nm = "%s%d" % (prefix, uid[0]) + "".join("_a%d" % j for j in js)
        names[nm] = dict(comp=ci, word=list(word))
        return nm

    ncomp = rng.choice([1, 1, 2, 2, 3])
    for c in range(ncomp):
        k = rng.choice([0, 1, 1, 2, 2, 2, 3])
        if c == 0 and k == 0 and rng.random() < 0.9:
            k = rng.choice([1, 2])           # parameter-free libraries stop in load_subs (known finding): keep them rare
        ci = add_comp(k, _poly(rng, k))
        while comps[ci]["k"] > 0 and rng.random() < 0.6:
            kk = comps[ci]["k"]
            ci = add_comp(kk - 1, _project(comps[ci]["poly"], kk - 1), parent=ci)
    for ci, c in enumerate(comps):
        for _ in range(rng.choice([1, 2, 2, 3, 4])):
            add_name(ci, [rand_tok(rng, c["k"]) for _ in range(rng.choice([0, 1, 1, 2]))] if c["k"] else [])
    base = list(names)

    def alias(nm, prefix):
        return add_name(names[nm]["comp"], names[nm]["word"], prefix)

    norig = rng.choice([0, 1, 2, 3, 4, 5, 6, 7, 8, 10, 12])
    gen = [rng.choice(base) for _ in range(norig)]
    symp = {}
    for nm in set(gen):
        if rng.random() < 0.12:
            same = [b for b in base if b != nm and names[b] == names[nm]]
            symp[nm] = rng.choice(same) if same and rng.random() < 0.5 else alias(nm, "w")
    exorig, extras = [], []
    if norig:
        for _ in range(rng.choice([0, 0, 1, 2, 3])):
            o = rng.choice(gen)
            exorig.append(o)
            extras.append(o if rng.random() < 0.2 else alias(o, "v"))
            if rng.random() < 0.15:
                symp[extras[-1]] = alias(o, "w")
    allnames = list(names)

    def children(ci):
        return [j for j, c in enumerate(comps) if c["parent"] == ci]

    def rewrite(nm):
        me = names[nm]
        k = comps[me["comp"]]["k"]
        r = rng.random()
        inv_me = [tok_inv(t) for t in reversed(me["word"])]
        if r < 0.12:                                            # same string, chain None / [] / an identity word
            c = rng.choice([None, [], "id"])
            if c == "id":
                if k == 0:
                    c = []
                else:
                    t = rand_tok(rng, k)
                    c = [t, tok_inv(t)]
            return [nm, c]
        if r < 0.62:                                            # another name of the same component
            tgt = rng.choice([b for b in allnames if names[b]["comp"] == me["comp"]])
            c = inv_me + names[tgt]["word"]
            if not c:
                c = rng.choice([None, []])
            return [tgt, c]
        if r < 0.82 and children(me["comp"]):                    # projection onto the child component (fewer parameters)
            cj = rng.choice(children(me["comp"]))
            tgt = rng.choice([b for b in allnames if names[b]["comp"] == cj])
            return [tgt, inv_me + ["z%d" % (k - 1)] + names[tgt]["word"]]
        fewer = [b for b in allnames if comps[names[b]["comp"]]["k"] < k]
        if fewer:                                               # unrecoverable: any function with fewer parameters
            tgt = rng.choice(fewer)
            c = [rand_tok(rng, k) for _ in range(rng.choice([0, 0, 1]))]
            c.insert(rng.randint(0, len(c)), NAN)
            if rng.random() < 0.2:
                c.append(NAN)
            return [tgt, c]
        return [nm, None]

    tables = []
    q = rng.choice([0.2, 0.4, 0.6, 0.9, 1.0])
    for _ in range(rng.choice([0, 1, 2, 3, 4, 5, 6])):
        tables.append({nm: rewrite(nm) for nm in allnames if rng.random() < q})
    return dict(p=P, comps=comps, names=names, gen=gen + extras, nextra=len(extras), exorig=exorig, symp=symp,
                tables=tables, seed=rng.randrange(10 ** 6), compl=rng.choice([1, 2]))


# ----------------------------------------------------------------------------------------------
# hidden denotations
# ----------------------------------------------------------------------------------------------

def np_of(script, nm):
    return script["comps"][script["names"][nm]["comp"]]["k"]


def den(script, nm, th):
    e = script["names"][nm]
    th = chain_map(e["word"], th)
    v = 0
    for m in script["comps"][e["comp"]]["poly"]:
        v += m[0] * pow(th[0], m[1], P) * pow(th[1], m[2], P) * pow(th[2], m[3], P)
    return v % P


# ----------------------------------------------------------------------------------------------
# the real code under the scripted CAS
# ----------------------------------------------------------------------------------------------

class _Obj(object):
    """stands for the sympy expression of a string"""
    __slots__ = ("name", "expanded")

    def __init__(self, name):
        self.name = name
        self.expanded = None


def _sed_mv(cmd):
    """in-process stand-in for the two shell commands main issues per file (`sed 's/.$//; s/^.//' F > T`, `mv T F`):
    used for most scripts because 10 fork+exec per script dominate the run; the first scripts of every run use the real
    shell, and both kinds are compared with the model in the same way"""
    import re
    m = re.fullmatch(r"sed 's/\.\$//; s/\^\.//' (\S+) > (\S+)", cmd)
    if m:
        try:
            with open(m[1]) as f:
                lines = f.read().split("\n")
        except OSError:
            lines = [""]
        tail = lines.pop()
        with open(m[2], "w") as f:
            f.write("".join(l[:-1][1:] + "\n" for l in lines) + tail[:-1][1:])
        return 0
    m = re.fullmatch(r"mv (\S+) (\S+)", cmd)
    if m:
        os.replace(m[1], m[2])
        return 0
    return None


def run_real(script, root, real_shell=True, block=False):
    """Runs the real duplicate_checker.main on the script in `root` (scratch).  Returns dict(raised, ret, flags, eof, dir).

    `block=True` (the multi-rank runs, harness/workers/c03_script_ranks.py): the stand-in for sympy_simplify is the one that
    works the way the real one is organised on P ranks - every rank slices its `split_idx` block (statement for statement
    simplifier.py 290-298), answers from the script for the items of ITS block only, and hands the block to the REAL
    `simplifier.make_changes`, which gathers, broadcasts and splices.  The scripted answer for an item depends on that item
    alone (a table lookup by its name): the scripted CAS is per-item by construction (`PerItem` of Props/C03c)."""
    from esr.generation import simplifier, duplicate_checker as dc
    tables, symp = script["tables"], script["symp"]
    st = dict(g=-1, flags=[], eof=[], ret=None, odd=[])
    os.makedirs(os.path.join(root, "generation"), exist_ok=True)
    outdir = os.path.join(root, "function_library", "core_maths", "compl_%d" % script["compl"])
    if os.path.isdir(outdir) and not block:                       # nothing of an earlier script may be left
        for e in os.scandir(outdir):                              # (block runs get a fresh root per script)
            os.unlink(e.path)

    class Gen(object):
        __file__ = os.path.join(root, "generation", "generator.py")

        @staticmethod
        def generate_equations(compl, basis_functions, dirname):
            for f in ("trees", "orig_trees", "extra_trees"):
                open(os.path.join(dirname, "%s_%d.txt" % (f, compl)), "w").close()
            return list(script["gen"]), list(script["exorig"])

    def initial_sympify(all_fun, max_param, verbose=True, parallel=True, track_memory=False, save_sympy=True):
        out = [symp.get(f, f) for f in all_fun]
        d = None
        if save_sympy:
            d = collections.OrderedDict()
            for s in out:
                if s not in d:
                    d[s] = _Obj(s)
        return out, d

    def sympy_simplify(all_fun, all_sym, all_inv_subs, max_param, expand_fun=True, tmax=1, check_perm=False):
        if max_param == 0:
            st["g"] += 1
            st["flags"].append(set())
        st["flags"][-1].add((bool(expand_fun), bool(check_perm)))
        tab = tables[st["g"]] if st["g"] < len(tables) else {}
        f2, e2, t2 = [], [], []
        for k in range(len(all_fun)):
            src = all_sym[k].name                 # like the real one, work on the expression, not on the string
            if src != all_fun[k]:
                st["odd"].append((all_fun[k], src))
            ent = tab.get(src)
            if ent is None:
                f2.append(all_fun[k]); e2.append(all_sym[k]); t2.append(all_inv_subs[k])
                continue
            f2.append(ent[0]); e2.append(_Obj(ent[0]))
            if ent[1] is None:
                t2.append(all_inv_subs[k])
            else:
                t2.append((all_inv_subs[k] or []) + [NAN if t == NAN else tok_text(t) for t in ent[1]])
        return f2, e2, t2

    def sympy_simplify_block(all_fun, all_sym, all_inv_subs, max_param, expand_fun=True, tmax=1, check_perm=False):
        import numpy as np
        from esr.generation import utils
        if max_param == 0:
            st["g"] += 1
            st["flags"].append(set())
        st["flags"][-1].add((bool(expand_fun), bool(check_perm)))
        tab = tables[st["g"]] if st["g"] < len(tables) else {}
        i = np.atleast_1d(utils.split_idx(len(all_inv_subs), simplifier.rank, simplifier.size))     # 290-298
        if len(i) == 0:
            str_fun = []
            sym_fun = []
            inv_subs_fun = []
        else:
            str_fun = all_fun[i[0]:i[-1]+1]
            sym_fun = all_sym[i[0]:i[-1]+1]
            inv_subs_fun = all_inv_subs[i[0]:i[-1]+1]
        st["blocks"].append(len(str_fun))
        for k in range(len(str_fun)):
            src = sym_fun[k].name
            if src != str_fun[k]:
                st["odd"].append((str_fun[k], src))
            ent = tab.get(src)
            if ent is None:
                continue
            str_fun[k] = ent[0]; sym_fun[k] = _Obj(ent[0])
            if ent[1] is not None:
                inv_subs_fun[k] = (inv_subs_fun[k] or []) + [NAN if t == NAN else tok_text(t) for t in ent[1]]
        return simplifier.make_changes(all_fun, all_sym, all_inv_subs, str_fun, sym_fun, inv_subs_fun)        # 693-694

    st["blocks"] = []
    if block:
        sympy_simplify = sympy_simplify_block

    def expand_or_factor(all_sym, tmax=1, method='expand'):
        st["eof"].append((method, list(all_sym.keys())))
        for v in all_sym.values():
            v.expanded = method
        return all_sym

    real_do = simplifier.do_sympy

    def do_wrap(*a, **k):
        r = real_do(*a, **k)
        st["ret"] = (list(r[0]), r[2])
        return r

    real_system = os.system

    def system(cmd):
        r = None if real_shell else _sed_mv(cmd)
        return real_system(cmd) if r is None else r

    saved = (simplifier.sympy_simplify, simplifier.expand_or_factor, simplifier.initial_sympify, dc.generator)
    simplifier.sympy_simplify, simplifier.expand_or_factor, simplifier.initial_sympify = sympy_simplify, expand_or_factor, initial_sympify
    simplifier.do_sympy = do_wrap
    dc.generator = Gen
    os.system = system
    raised = None
    try:
        with contextlib.redirect_stdout(io.StringIO()):
            dc.main("core_maths", script["compl"], seed=script["seed"])
    except Exception as e:                                        # noqa: the real code raised
        raised = "%s: %s" % (type(e).__name__, e)
    finally:
        simplifier.sympy_simplify, simplifier.expand_or_factor, simplifier.initial_sympify, dc.generator = saved
        simplifier.do_sympy = real_do
        os.system = real_system
    st["raised"] = raised
    st["dir"] = outdir
    return st


def _lines(path):
    with open(path) as f:
        return f.read().split("\n")[:-1]


def _rows(path):
    with open(path, newline="") as f:
        raw = f.read()
    rows = list(csv.reader(io.StringIO(raw, newline=""), delimiter=";"))
    return rows, raw == "".join(";".join(r) + "\r\n" for r in rows)


def read_outputs(script, st):
    """every file the run left, parsed; token texts kept as text"""
    d, c = st["dir"], script["compl"]
    out = dict(missing=[], format_ok=True)

    def get(name, reader):
        p = os.path.join(d, name)
        if not os.path.exists(p):
            out["missing"].append(name)
            return None
        return reader(p)

    out["alleq"] = get("all_equations_%d.txt" % c, _lines)
    out["uniq"] = get("unique_equations_%d.txt" % c, _lines)
    m = get("matches_%d.txt" % c, _lines)
    out["match"] = None if m is None else [int(x) for x in m]
    r = get("inv_subs_%d.txt" % c, _rows)
    out["inv"] = None if r is None else r[0]
    out["format_ok"] &= r is None or r[1]
    out["rounds"] = []
    nround = st["ret"][1] if st["ret"] else 0
    for k in range(nround):
        idx = get("inv_idx_%d_round_%d.txt" % (c, k), _lines)
        rr = get("inv_subs_%d_round_%d.txt" % (c, k), _rows)
        out["rounds"].append((None if idx is None else [int(x) for x in idx], None if rr is None else rr[0]))
        out["format_ok"] &= rr is None or rr[1]
    out["stray_round_file"] = os.path.exists(os.path.join(d, "inv_subs_%d_round_%d.txt" % (c, nround)))
    return out


# ----------------------------------------------------------------------------------------------
# correspondence: the same script through Model/Library.dupMain
# ----------------------------------------------------------------------------------------------

def _s(l):
    return "_" if not l else ",".join(l)


def _n(l):
    return "-" if not l else ",".join(str(x) for x in l)


def _chain(c):
    return "N" if c is None else ("E" if not c else "+".join(c))


def perm_for(seed, n):
    import numpy as np
    np.random.seed(seed)
    i = np.arange(n)
    np.random.shuffle(i)
    return [int(x) for x in i]


def model_line(script, nuniq):
    tabs = "-" if not script["tables"] else "|".join(
        "_" if not t else ",".join("%s>%s>%s" % (a, b[0], _chain(b[1])) for a, b in t.items()) for t in script["tables"])
    return "lib-main %s %s %s %s %s" % (_s(script["gen"]), _s(script["exorig"]),
                                        _s(["%s>%s" % kv for kv in script["symp"].items()]), tabs, _n(perm_for(script["seed"], nuniq)))


def real_line(script, st, out):
    """the real run in the output format of the `lib-main` op"""
    if st["raised"]:
        if st["raised"] == "ValueError: no symbols given":
            return "error:ValueError-load_subs-no-symbols"
        return "error:%s" % st["raised"]
    if out["missing"]:
        return "missing:%s" % ",".join(out["missing"])
    text2id = {}
    for t in script["tables"]:
        for ent in t.values():
            for tk in ent[1] or []:
                if tk != NAN:
                    text2id[tok_text(tk)] = tk

    def rows(rs):
        return "_" if not rs else ";".join("E" if not r else "+".join(NAN if x == NAN else text2id.get(x, "?" + x.replace(" ", "")) for x in r) for r in rs)

    from esr.generation import simplifier
    with contextlib.redirect_stdout(io.StringIO()):
        mp = simplifier.get_max_param(list(script["gen"]))
    fun, nround = st["ret"]
    keys = dict(st["eof"])
    rounds = []
    for k, (idx, rr) in enumerate(out["rounds"]):
        fl = sorted(st["flags"][k]) if k < len(st["flags"]) else []
        fls = "%d%d" % fl[0] if len(fl) == 1 else "??"
        rounds.append("%s:%s:%s" % (fls, _n(idx), rows(rr)))
    return " ".join(["ok mp=%d" % mp, "alleq=%s" % _s(out["alleq"]), "nround=%d" % nround, "fin=1", "fun=%s" % _s(fun),
                     "kexp=%s" % _s(keys.get("expand")), "kfac=%s" % _s(keys.get("factor")),
                     "rounds=%s" % ("-" if not rounds else "|".join(rounds)),
                     "uniq=%s" % _s(out["uniq"]), "match=%s" % _n(out["match"]), "inv=%s" % rows(out["inv"])])


def first_difference(a, b):
    fa, fb = a.split(" "), b.split(" ")
    for x, y in zip(fa, fb):
        if x != y:
            return "code %s / model %s" % (x[:300], y[:300])
    return "code %s / model %s" % (a[:200], b[:200])


# ----------------------------------------------------------------------------------------------
# the independent oracle: C03's statement on the files of the run
# ----------------------------------------------------------------------------------------------

def check_property(script, st, out, rng=None):
    """list of (kind, detail): empty iff the library the real code wrote satisfies C03 w.r.t. the hidden denotations"""
    bad = []
    if st["raised"]:
        kind = "raised"
        if st["raised"] == "ValueError: no symbols given" and not any("a0" in f for f in script["gen"]):
            kind = "raised:load_subs:no-parameters"
        return [(kind, "duplicate_checker.main raised %s on a script whose every CAS answer is sound (functions %r)" % (st["raised"], script["gen"]))]
    if out["missing"]:
        return [("missing-file", "not written: %s" % out["missing"])]
    N = len(script["gen"])
    alleq, uniq, match, inv = out["alleq"], out["uniq"], out["match"], out["inv"]
    if not (len(alleq) == len(match) == len(inv) == N):
        return [("file-lengths", "%d functions but all_equations/matches/inv_subs have %d/%d/%d lines" % (N, len(alleq), len(match), len(inv)))]
    if len(set(uniq)) != len(uniq):
        bad.append(("unique-repeated", "unique list repeats an entry: %r" % uniq))
    names = script["names"]
    rng = rng or random.Random(script["seed"])
    pts = [[rng.randrange(1, P) for _ in range(3)] for _ in range(5)] + [[1, 2, 3]]
    for i in range(N):
        o = alleq[i]
        if o not in names:
            bad.append(("unknown-function", "row %d: %r is not a function of the script" % (i, o))); continue
        if not 0 <= match[i] < len(uniq):
            bad.append(("match-range", "row %d: match %d outside the %d uniques" % (i, match[i], len(uniq)))); continue
        u = uniq[match[i]]
        if u not in names:
            bad.append(("unknown-unique", "row %d: unique %r is not a function of the script" % (i, u))); continue
        try:
            chain = [NAN if x == NAN else _parse_tok(x) for x in inv[i]]
        except ValueError as e:
            bad.append(("unknown-substitution", "row %d: %s" % (i, e))); continue
        if np_of(script, u) > np_of(script, o):
            bad.append(("more-parameters", "row %d: %s merged into %s which has more parameters" % (i, o, u)))
        elif NAN in chain:
            if not np_of(script, u) < np_of(script, o):
                bad.append(("nan-without-fewer-parameters", "row %d: %s -> %s marked unrecoverable, parameter counts %d -> %d" % (i, o, u, np_of(script, o), np_of(script, u))))
        else:
            for th in pts:
                if den(script, o, chain_map(chain, th)) != den(script, u, th):
                    bad.append(("not-the-same-function", "row %d: %s with %s substituted is not its unique %s at theta=%s (mod %d)" % (i, o, inv[i], u, th, P)))
                    break
    return bad


def _parse_tok(text):
    import re
    for pat, f in ((r"\{a(\d): -a\1\}", lambda m: "n" + m[1]), (r"\{a(\d): 1/a\1\}", lambda m: "r" + m[1]),
                   (r"\{a(\d): a\1 \+ (\d+)\}", lambda m: "p%sc%s" % (m[1], m[2])), (r"\{a(\d): a\1 - (\d+)\}", lambda m: "m%sc%s" % (m[1], m[2])),
                   (r"\{a(\d): 0\}", lambda m: "z" + m[1]), (r"\{a(\d): 2\*a\1\}", lambda m: "d" + m[1]), (r"\{a(\d): a\1/2\}", lambda m: "h" + m[1]),
                   (r"\{a(\d): a(\d), a\2: a\1\}", lambda m: "s%s%s" % tuple(sorted((m[1], m[2]))))):
        m = re.fullmatch(pat, text)
        if m:
            return f(m)
    raise ValueError("substitution %r is none of the script's" % text)
